(* SPEC: decoding a whole PNG datastream (PNG specification sections 5, 11): IHDR fields, the palette (PLTE) and transparency
   (tRNS) chunks as the colour interpretation, the concatenation of all IDAT payloads as one zlib stream, then Spec.Decode.
   The zlib decompressor is a parameter. Shares no definition with Model/. *)
From OxiVerif Require Import Base.Common Base.Crc32 Spec.Filter Spec.Adam7 Spec.Sem Spec.Decode.

Definition spec_IHDR : list Z := [73; 72; 68; 82].
Definition spec_PLTE : list Z := [80; 76; 84; 69].
Definition spec_tRNS : list Z := [116; 82; 78; 83].
Definition spec_IDAT : list Z := [73; 68; 65; 84].

Definition named (n : list Z) (c : list Z * list Z) : bool := list_eqb Z.eqb (fst c) n.

Fixpoint triples (l : list Z) : list (Z * Z * Z) :=
  match l with r :: g :: b :: t => (r, g, b) :: triples t | _ => [] end.
Fixpoint be16s (l : list Z) : list Z :=
  match l with a :: b :: t => (a * 256 + b) :: be16s t | _ => [] end.

(* palette entries with their alpha: tRNS gives the alpha of the first entries, the others are opaque *)
Fixpoint with_alpha (rgbs : list (Z * Z * Z)) (alphas : list Z) : list (Z * Z * Z * Z) :=
  match rgbs with
  | [] => []
  | (r, g, b) :: t =>
      match alphas with
      | a :: ta => (r, g, b, a) :: with_alpha t ta
      | [] => (r, g, b, 255) :: with_alpha t []
      end
  end.

Definition spec_color_of_chunks (code : Z) (chunks : list (list Z * list Z)) : option spec_color :=
  let plte := find (named spec_PLTE) chunks in
  let trns := find (named spec_tRNS) chunks in
  match code with
  | 0 => Some (SGray (match trns with Some (_, t) => match be16s t with k :: _ => Some k | [] => None end | None => None end))
  | 2 => Some (SRGB (match trns with Some (_, t) => match be16s t with r :: g :: b :: _ => Some (r, g, b) | _ => None end | None => None end))
  | 3 => match plte with
         | Some (_, pl) => Some (SIndexed (with_alpha (triples pl) (match trns with Some (_, t) => t | None => [] end)))
         | None => None
         end
  | 4 => Some SGrayAlpha
  | 6 => Some SRGBA
  | _ => None
  end.

Definition spec_decode_chunks (inflate : list Z -> option (list Z)) (chunks : list (list Z * list Z)) : option picture :=
  match chunks with
  | (n, ih) :: rest =>
      if list_eqb Z.eqb n spec_IHDR && (length ih =? 13)%nat then
        let w := sbe32 ih in
        let h := sbe32 (skipn 4 ih) in
        let d := nth 8 ih 0 in
        let code := nth 9 ih 0 in
        let il := nth 12 ih 0 in
        if (nth 10 ih 0 =? 0) && (nth 11 ih 0 =? 0) && ((il =? 0) || (il =? 1)) then
          match spec_color_of_chunks code rest with
          | Some c =>
              match inflate (flat_map snd (filter (named spec_IDAT) rest)) with
              | Some stream => spec_decode_stream w h c d (il =? 1) stream
              | None => None
              end
          | None => None
          end
        else None
      else None
  | [] => None
  end.

Definition spec_decode_png (inflate : list Z -> option (list Z)) (bytes : list Z) : option picture :=
  match spec_parse_png bytes with
  | Some chunks => spec_decode_chunks inflate chunks
  | None => None
  end.

(* SPEC: PNG row filters, written from the PNG specification (section 9, "Filtering") only.
   Filt(x) = Orig(x) - pred(a,b,c)  and  Recon(x) = Filt(x) + pred(Recon(a), Recon(b), Recon(c)),
   arithmetic modulo 256, where a = byte bpp positions to the left (0 if none), b = byte above
   (0 on the first row), c = byte above a. *)
From OxiVerif Require Import Base.Common.

Definition paeth_spec (a b c : Z) : Z :=
  let p := a + b - c in
  let pa := Z.abs (p - a) in
  let pb := Z.abs (p - b) in
  let pc := Z.abs (p - c) in
  if (pa <=? pb) && (pa <=? pc) then a else if pb <=? pc then b else c.

(* predictor of filter type ft *)
Definition pred_spec (ft a b c : Z) : Z :=
  match ft with
  | 0 => 0
  | 1 => a
  | 2 => b
  | 3 => (a + b) / 2
  | _ => paeth_spec a b c
  end.

(* the byte bpp positions back in a reversed prefix; 0 when there is none *)
Definition back (bpp : nat) (revprefix : list Z) : Z := nth (bpp - 1) revprefix 0.

(* Reconstruction of one scan line: rp = reversed reconstructed prefix of this line,
   rq = reversed prefix of the (reconstructed) previous line *)
Fixpoint recon_go (ft : Z) (bpp : nat) (rp rq : list Z) (data prev : list Z) : list Z :=
  match data, prev with
  | y :: d, u :: p =>
      let x := (y + pred_spec ft (back bpp rp) u (back bpp rq)) mod 256 in
      x :: recon_go ft bpp (x :: rp) (u :: rq) d p
  | _, _ => []
  end.

Definition spec_recon_line (bpp : nat) (ft : Z) (data prev : list Z) : list Z :=
  recon_go ft bpp [] [] data prev.

(* Filtering of one scan line according to the specification *)
Fixpoint filt_go (ft : Z) (bpp : nat) (rp rq : list Z) (line prev : list Z) : list Z :=
  match line, prev with
  | x :: l, u :: p =>
      ((x - pred_spec ft (back bpp rp) u (back bpp rq)) mod 256) :: filt_go ft bpp (x :: rp) (u :: rq) l p
  | _, _ => []
  end.

Definition spec_filter_line (bpp : nat) (ft : Z) (line prev : list Z) : list Z :=
  filt_go ft bpp [] [] line prev.

(* Reconstruction of a sequence of filtered rows (each = filter type byte :: data), all of one
   image or one interlace pass: the row above the first one is all zeros. *)
Fixpoint spec_recon_rows (bpp : nat) (prev : list Z) (rows : list (list Z)) : option (list (list Z)) :=
  match rows with
  | [] => Some []
  | [] :: _ => None
  | (ft :: data) :: rest =>
      if (0 <=? ft) && (ft <=? 4) then
        let prev' := if (length prev =? length data)%nat then prev else repeat 0 (length data) in
        let line := spec_recon_line bpp ft data prev' in
        match spec_recon_rows bpp line rest with
        | Some t => Some (line :: t)
        | None => None
        end
      else None
  end.

(* Reconstruction of the rows of a whole (possibly interlaced) image: each row comes with the pass
   it belongs to (None for a non-interlaced image); every pass is filtered as a separate image, so
   the row above the first row of a pass is all zeros. The state is the pass and the reconstructed
   bytes of the previous row, if any. *)
Definition same_pass_prev (st : option (option Z * list Z)) (pass : option Z) (n : nat) : list Z :=
  match st with
  | Some (p, prev) =>
      if (match p, pass with Some a, Some b => a =? b | None, None => true | _, _ => false end)
         && (length prev =? n)%nat
      then prev else repeat 0 n
  | None => repeat 0 n
  end.

Fixpoint spec_recon_seq (bpp : nat) (st : option (option Z * list Z)) (rows : list (option Z * list Z))
  : option (list (list Z)) :=
  match rows with
  | [] => Some []
  | (_, []) :: _ => None
  | (pass, ft :: data) :: rest =>
      if (0 <=? ft) && (ft <=? 4) then
        let line := spec_recon_line bpp ft data (same_pass_prev st pass (length data)) in
        match spec_recon_seq bpp (Some (pass, line)) rest with
        | Some t => Some (line :: t)
        | None => None
        end
      else None
  end.

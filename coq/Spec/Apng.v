(* SPEC: the animation carried by a PNG chunk sequence, written from the APNG specification (1.0):
   an fcTL chunk opens a frame; one that precedes the image data makes the default image the first frame (its data are the IDAT
   chunks, which the still-image decoder already covers: recorded here with empty data); fdAT chunks belong to the frame opened
   last, which must not be the default image; fcTL and fdAT share one sequence counter starting at 0.
   Shares no definition with Model/. *)
From OxiVerif Require Import Base.Common Spec.Decode Spec.DecodeFile.
Local Open Scope Z_scope.

Definition spec_acTL : list Z := [97; 99; 84; 76].
Definition spec_fcTL : list Z := [102; 99; 84; 76].
Definition spec_fdAT : list Z := [102; 100; 65; 84].

Definition sbe16 (l : list Z) : Z := match l with a :: b :: _ => a * 256 + b | _ => -1 end.

Record sframe := {
  sf_w : Z; sf_h : Z; sf_x : Z; sf_y : Z; sf_delay_num : Z; sf_delay_den : Z; sf_dispose : Z; sf_blend : Z;
  sf_default : bool;          (* the frame is the default image *)
  sf_data : list Z            (* concatenated fdAT payloads (sequence numbers removed); [] for the default image *)
}.

Definition sf_add (f : sframe) (d : list Z) : sframe :=
  {| sf_w := sf_w f; sf_h := sf_h f; sf_x := sf_x f; sf_y := sf_y f; sf_delay_num := sf_delay_num f; sf_delay_den := sf_delay_den f;
     sf_dispose := sf_dispose f; sf_blend := sf_blend f; sf_default := sf_default f; sf_data := sf_data f ++ d |}.

Definition sframe_of_fctl (d : list Z) (default : bool) : sframe :=
  {| sf_w := sbe32 (skipn 4 d); sf_h := sbe32 (skipn 8 d); sf_x := sbe32 (skipn 12 d); sf_y := sbe32 (skipn 16 d);
     sf_delay_num := sbe16 (skipn 20 d); sf_delay_den := sbe16 (skipn 22 d); sf_dispose := nth 24 d 0; sf_blend := nth 25 d 0;
     sf_default := default; sf_data := [] |}.

Record apng_st := { as_seq : Z; as_idat : bool; as_frames : list sframe (* newest first *) }.

Definition apng_step (st : apng_st) (c : list Z * list Z) : option apng_st :=
  let d := snd c in
  if named spec_fcTL c then
    if (length d <? 26)%nat then None else
    if negb (sbe32 d =? as_seq st) then None else
    Some {| as_seq := as_seq st + 1; as_idat := as_idat st; as_frames := sframe_of_fctl d (negb (as_idat st)) :: as_frames st |}
  else if named spec_fdAT c then
    if (length d <? 4)%nat then None else
    if negb (sbe32 d =? as_seq st) then None else
    match as_frames st with
    | f :: t => if sf_default f || negb (as_idat st) then None
                else Some {| as_seq := as_seq st + 1; as_idat := as_idat st; as_frames := sf_add f (skipn 4 d) :: t |}
    | [] => None
    end
  else if named spec_IDAT c then Some {| as_seq := as_seq st; as_idat := true; as_frames := as_frames st |}
  else Some st.

Fixpoint apng_fold (st : apng_st) (cs : list (list Z * list Z)) : option apng_st :=
  match cs with
  | [] => Some st
  | c :: t => match apng_step st c with Some st' => apng_fold st' t | None => None end
  end.

(* the frames of a chunk sequence, oldest first; and the acTL payload (frame count, play count) if present *)
Definition spec_apng_frames (cs : list (list Z * list Z)) : option (list sframe) :=
  match apng_fold {| as_seq := 0; as_idat := false; as_frames := [] |} cs with
  | Some st => Some (rev (as_frames st))
  | None => None
  end.
Definition spec_apng_control (cs : list (list Z * list Z)) : option (list Z) := option_map snd (find (named spec_acTL) cs).

(* SPEC: what the (unfiltered) image data of a PNG means, written from the PNG specification:
   scan-line layout (Adam7 or not), MSB-first sample packing, and the mapping of samples to
   RGBA at 16-bit precision (palette, tRNS colour key, alpha channel).
   Shares no definition with Model/. *)
From OxiVerif Require Import Base.Common Spec.Adam7.

(* ------------------------------------------------------------------ bits *)
Definition sbits_of_byte (b : Z) : list bool :=
  map (fun k => Z.odd (b / 2 ^ k)) [7; 6; 5; 4; 3; 2; 1; 0].
Definition sbits_of_bytes (l : list Z) : list bool := flat_map sbits_of_byte l.
Fixpoint sval (l : list bool) : Z :=
  match l with [] => 0 | b :: t => (if b then 2 ^ Z.of_nat (length t) else 0) + sval t end.

Fixpoint groups_fuel {A} (fuel n : nat) (l : list A) : list (list A) :=
  match fuel with
  | O => []
  | S f => if (length l <? n)%nat then [] else firstn n l :: groups_fuel f n (skipn n l)
  end.
(* consecutive groups of exactly n elements; a shorter remainder is padding and is dropped *)
Definition groups {A} (n : nat) (l : list A) : list (list A) :=
  match n with O => [] | _ => groups_fuel (length l) n l end.

(* ------------------------------------------------------------------ layout *)
(* cut the data into scan lines according to the specification's layout *)
Fixpoint cut_layout (layout : list (option Z * Z * Z)) (data : list Z) : option (list (option Z * Z * list Z)) :=
  match layout with
  | [] => match data with [] => Some [] | _ => None end
  | (pass, npix, nbytes) :: t =>
      let n := Z.to_nat nbytes in
      if (length data <? n)%nat then None
      else match cut_layout t (skipn n data) with
           | Some r => Some ((pass, npix, firstn n data) :: r)
           | None => None
           end
  end.

(* pixels of a scan line: npix groups of bits_pp bits *)
Definition line_pixels (bits_pp : Z) (npix : Z) (bytes : list Z) : list (list bool) :=
  firstn (Z.to_nat npix) (groups (Z.to_nat bits_pp) (sbits_of_bytes bytes)).

(* the lines of one pass *)
Definition pass_rows {A} (p : Z) (lines : list (option Z * Z * list A)) : list (list A) :=
  flat_map (fun l => match fst (fst l) with
                     | Some q => if q =? p then [snd l] else []
                     | None => []
                     end) lines.

(* the picture as rows (top to bottom) of pixels (left to right) from its scan lines of pixels *)
Definition assemble {A} (w h : Z) (il : bool) (plines : list (option Z * Z * list A)) : option (list (list A)) :=
  if il then spec_deinterlace w h (map (fun p => pass_rows p plines) passes7)
  else Some (map snd plines).

(* each pixel = bits_pp bits *)
Definition spec_image_pixels (w h bits_pp : Z) (il : bool) (data : list Z) : option (list (list (list bool))) :=
  if (w <=? 0) || (h <=? 0) || (bits_pp <=? 0) then None else
  match cut_layout (spec_layout w h bits_pp il) data with
  | None => None
  | Some lines => assemble w h il (map (fun l => (fst l, line_pixels bits_pp (snd (fst l)) (snd l))) lines)
  end.

(* ------------------------------------------------------------------ colour *)
Definition rgba16 : Type := (Z * Z * Z * Z)%type.

(* sample of depth d scaled to 16 bits: exact for 1,2,4,8 (65535 is a multiple of 2^d - 1) *)
Definition scale16 (d v : Z) : Z := v * 65535 / (2 ^ d - 1).

(* colour information of the header, as the specification sees it *)
Inductive spec_color :=
| SGray (key : option Z)
| SRGB (key : option (Z * Z * Z))
| SIndexed (palette : list (Z * Z * Z * Z))     (* r,g,b,a each 0..255; a from tRNS or 255 *)
| SGrayAlpha
| SRGBA.

Definition spec_channels (c : spec_color) : Z :=
  match c with SGray _ | SIndexed _ => 1 | SGrayAlpha => 2 | SRGB _ => 3 | SRGBA => 4 end.

(* tRNS for colour types 0 and 2: only the low `d` bits of each 16-bit value are significant *)
Definition key_match (d : Z) (key sample : Z) : bool := key mod 2 ^ d =? sample.

Definition color_of_samples (c : spec_color) (d : Z) (samples : list Z) : option rgba16 :=
  match c, samples with
  | SGray key, [v] =>
      let g := scale16 d v in
      let a := match key with Some k => if key_match d k v then 0 else 65535 | None => 65535 end in
      Some (g, g, g, a)
  | SRGB key, [r; g; b] =>
      let a := match key with
               | Some (kr, kg, kb) => if key_match d kr r && key_match d kg g && key_match d kb b then 0 else 65535
               | None => 65535
               end in
      Some (scale16 d r, scale16 d g, scale16 d b, a)
  | SIndexed pal, [i] =>
      match nth_error pal (Z.to_nat i) with
      | Some (r, g, b, a) => Some (r * 257, g * 257, b * 257, a * 257)
      | None => None
      end
  | SGrayAlpha, [v; a] => Some (scale16 d v, scale16 d v, scale16 d v, scale16 d a)
  | SRGBA, [r; g; b; a] => Some (scale16 d r, scale16 d g, scale16 d b, scale16 d a)
  | _, _ => None
  end.

Definition pixel_color (c : spec_color) (d : Z) (bits : list bool) : option rgba16 :=
  color_of_samples c d (map sval (groups (Z.to_nat d) bits)).

(* C15: the meaning of a 16-bit pixel after every sample (and the colour key) has been rounded
   to the nearest 8-bit value: round(v / 257) = (v + 128) / 257 *)
Definition round8 (v : Z) : Z := (v + 128) / 257.
Definition round_key (c : spec_color) : spec_color :=
  match c with
  | SGray (Some k) => SGray (Some (round8 k))
  | SRGB (Some (r, g, b)) => SRGB (Some (round8 r, round8 g, round8 b))
  | _ => c
  end.
Definition pixel_color_scaled (c : spec_color) (bits : list bool) : option rgba16 :=
  color_of_samples (round_key c) 8 (map round8 (map sval (groups 16 bits))).

Record picture := { pic_w : Z; pic_h : Z; pic_px : list (list rgba16) }.

(* legal colour type / bit depth combinations *)
Definition depth_legal (c : spec_color) (d : Z) : bool :=
  match c with
  | SGray _ => (d =? 1) || (d =? 2) || (d =? 4) || (d =? 8) || (d =? 16)
  | SIndexed _ => (d =? 1) || (d =? 2) || (d =? 4) || (d =? 8)
  | _ => (d =? 8) || (d =? 16)
  end.

(* meaning of unfiltered image data *)
Definition spec_sem (w h : Z) (c : spec_color) (d : Z) (il : bool) (data : list Z) : option picture :=
  if negb (depth_legal c d) then None else
  match spec_image_pixels w h (d * spec_channels c) il data with
  | None => None
  | Some rows =>
      match all_some (map (fun r => all_some (map (pixel_color c d) r)) rows) with
      | Some px => Some {| pic_w := w; pic_h := h; pic_px := px |}
      | None => None
      end
  end.

(* C15: meaning of a 16-bit image after scaling to 8 bits *)
Definition spec_sem_scaled (w h : Z) (c : spec_color) (il : bool) (data : list Z) : option picture :=
  if negb (depth_legal c 16) then None else
  match spec_image_pixels w h (16 * spec_channels c) il data with
  | None => None
  | Some rows =>
      match all_some (map (fun r => all_some (map (pixel_color_scaled c) r)) rows) with
      | Some px => Some {| pic_w := w; pic_h := h; pic_px := px |}
      | None => None
      end
  end.

(* ------------------------------------------------------------------ relations on pictures *)
Definition rgba_eqb (a b : rgba16) : bool :=
  let '(r1, g1, b1, a1) := a in let '(r2, g2, b2, a2) := b in
  (r1 =? r2) && (g1 =? g2) && (b1 =? b2) && (a1 =? a2).
(* same alpha, and same colour wherever alpha is not zero *)
Definition rgba_alpha_equivb (a b : rgba16) : bool :=
  let '(r1, g1, b1, a1) := a in let '(r2, g2, b2, a2) := b in
  (a1 =? a2) && ((a1 =? 0) || ((r1 =? r2) && (g1 =? g2) && (b1 =? b2))).

Fixpoint forall2b {A} (f : A -> A -> bool) (l1 l2 : list A) : bool :=
  match l1, l2 with
  | [], [] => true
  | a :: t1, b :: t2 => f a b && forall2b f t1 t2
  | _, _ => false
  end.

Definition picture_eqb (p q : picture) : bool :=
  (pic_w p =? pic_w q) && (pic_h p =? pic_h q) && forall2b (forall2b rgba_eqb) (pic_px p) (pic_px q).
Definition picture_alpha_equivb (p q : picture) : bool :=
  (pic_w p =? pic_w q) && (pic_h p =? pic_h q) && forall2b (forall2b rgba_alpha_equivb) (pic_px p) (pic_px q).

Definition scaled_rgba (p : rgba16) : rgba16 :=
  let '(r, g, b, a) := p in (257 * round8 r, 257 * round8 g, 257 * round8 b, 257 * round8 a).

(* SPEC: decoding of the inflated IDAT stream (reconstruction of the filtered scan lines per pass,
   then Spec.Sem), and the chunk-level container. Written from the PNG / APNG specifications. *)
From OxiVerif Require Import Base.Common Base.Crc32 Spec.Filter Spec.Adam7 Spec.Sem.

(* cut the filtered stream into rows (filter byte + bytes) following the layout *)
Fixpoint cut_filtered (layout : list (option Z * Z * Z)) (stream : list Z) : option (list (option Z * list Z)) :=
  match layout with
  | [] => match stream with [] => Some [] | _ => None end
  | (pass, _, nbytes) :: t =>
      let n := S (Z.to_nat nbytes) in
      if (length stream <? n)%nat then None
      else match cut_filtered t (skipn n stream) with
           | Some r => Some ((pass, firstn n stream) :: r)
           | None => None
           end
  end.

(* bytes per complete pixel, rounded up to one (PNG spec 9.2) *)
Definition filter_bpp (bits_pp : Z) : nat := Z.to_nat (Z.max 1 (bits_pp / 8)).

Definition spec_unfilter (w h bits_pp : Z) (il : bool) (stream : list Z) : option (list Z) :=
  if (w <=? 0) || (h <=? 0) || (bits_pp <=? 0) then None else
  match cut_filtered (spec_layout w h bits_pp il) stream with
  | None => None
  | Some rows =>
      match spec_recon_seq (filter_bpp bits_pp) None rows with
      | Some ls => Some (concat ls)
      | None => None
      end
  end.

(* meaning of an inflated IDAT stream *)
Definition spec_decode_stream (w h : Z) (c : spec_color) (d : Z) (il : bool) (stream : list Z) : option picture :=
  match spec_unfilter w h (d * spec_channels c) il stream with
  | Some data => spec_sem w h c d il data
  | None => None
  end.

(* SPEC: decoding of the inflated IDAT stream (reconstruction of the filtered scan lines per pass,
   then Spec.Sem), and the chunk-level container. Written from the PNG / APNG specifications. *)
From OxiVerif Require Import Base.Common Base.Crc32 Spec.Filter Spec.Adam7 Spec.Sem.

(* cut the filtered stream into rows (filter byte + bytes) following the layout *)
Fixpoint cut_filtered (layout : list (option Z * Z * Z)) (stream : list Z) : option (list (option Z * list Z)) :=
  match layout with
  | [] => match stream with [] => Some [] | _ => None end
  | (pass, _, nbytes) :: t =>
      let n := S (Z.to_nat nbytes) in
      if (length stream <? n)%nat then None
      else match cut_filtered t (skipn n stream) with
           | Some r => Some ((pass, firstn n stream) :: r)
           | None => None
           end
  end.

(* bytes per complete pixel, rounded up to one (PNG spec 9.2) *)
Definition filter_bpp (bits_pp : Z) : nat := Z.to_nat (Z.max 1 (bits_pp / 8)).

Definition spec_unfilter (w h bits_pp : Z) (il : bool) (stream : list Z) : option (list Z) :=
  if (w <=? 0) || (h <=? 0) || (bits_pp <=? 0) then None else
  match cut_filtered (spec_layout w h bits_pp il) stream with
  | None => None
  | Some rows =>
      match spec_recon_seq (filter_bpp bits_pp) None rows with
      | Some ls => Some (concat ls)
      | None => None
      end
  end.

(* meaning of an inflated IDAT stream *)
Definition spec_decode_stream (w h : Z) (c : spec_color) (d : Z) (il : bool) (stream : list Z) : option picture :=
  match spec_unfilter w h (d * spec_channels c) il stream with
  | Some data => spec_sem w h c d il data
  | None => None
  end.

(* ------------------------------------------------------------------ container (PNG spec section 5) *)
Definition sbe32 (l : list Z) : Z :=
  match l with a :: b :: c :: d :: _ => ((a * 256 + b) * 256 + c) * 256 + d | _ => -1 end.

Definition spec_signature : list Z := [137; 80; 78; 71; 13; 10; 26; 10].
Definition spec_IEND : list Z := [73; 69; 78; 68].

(* strict: every chunk complete, CRC over type and data correct, IEND last with nothing after it *)
Fixpoint spec_parse_chunks (fuel : nat) (bytes : list Z) : option (list (list Z * list Z)) :=
  match fuel with
  | O => None
  | S f =>
      if (length bytes <? 12)%nat then None else
      let len := sbe32 bytes in
      if (len <? 0) || (lenZ bytes <? 12 + len) then None else
      let name := firstn 4 (skipn 4 bytes) in
      let data := firstn (Z.to_nat len) (skipn 8 bytes) in
      let rest := skipn (Z.to_nat len) (skipn 8 bytes) in
      if negb (sbe32 rest =? crc32 (name ++ data)) then None else
      let after := skipn 4 rest in
      if list_eqb Z.eqb name spec_IEND then
        match after with [] => Some [(name, data)] | _ => None end
      else
        match spec_parse_chunks f after with
        | Some t => Some ((name, data) :: t)
        | None => None
        end
  end.

Definition spec_parse_png (bytes : list Z) : option (list (list Z * list Z)) :=
  if list_eqb Z.eqb (firstn 8 bytes) spec_signature
  then spec_parse_chunks (length bytes) (skipn 8 bytes) else None.

(* SPEC: Adam7 interlacing, written from the PNG specification (section 8.2, "Interlace methods").
   The 8x8 pattern is given by start/step per pass; a pixel (x,y) belongs to pass p iff
   x mod dx p = x0 p and y mod dy p = y0 p. Each pass is transmitted as a separate image of
   ceil((w - x0)/dx) x ceil((h - y0)/dy) pixels; empty passes are omitted; each scan line is padded
   to a byte boundary. *)
From OxiVerif Require Import Base.Common.

Definition x0 (p : Z) := match p with 1 => 0 | 2 => 4 | 3 => 0 | 4 => 2 | 5 => 0 | 6 => 1 | _ => 0 end.
Definition y0 (p : Z) := match p with 1 => 0 | 2 => 0 | 3 => 4 | 4 => 0 | 5 => 2 | 6 => 0 | _ => 1 end.
Definition dx (p : Z) := match p with 1 => 8 | 2 => 8 | 3 => 4 | 4 => 4 | 5 => 2 | 6 => 2 | _ => 1 end.
Definition dy (p : Z) := match p with 1 => 8 | 2 => 8 | 3 => 8 | 4 => 4 | 5 => 4 | 6 => 2 | _ => 2 end.

(* The specification's 8x8 pass matrix, row by row *)
Definition adam7_matrix : list (list Z) :=
  [[1;6;4;6;2;6;4;6];
   [7;7;7;7;7;7;7;7];
   [5;6;5;6;5;6;5;6];
   [7;7;7;7;7;7;7;7];
   [3;6;4;6;3;6;4;6];
   [7;7;7;7;7;7;7;7];
   [5;6;5;6;5;6;5;6];
   [7;7;7;7;7;7;7;7]].
Definition pass_of (x y : Z) : Z :=
  nth (Z.to_nat (x mod 8)) (nth (Z.to_nat (y mod 8)) adam7_matrix []) 0.

Definition col_in (p x : Z) : bool := x mod dx p =? x0 p.
Definition row_in (p y : Z) : bool := y mod dy p =? y0 p.

(* pass dimensions *)
Definition pw (w p : Z) : Z := if w <=? x0 p then 0 else cdiv (w - x0 p) (dx p).
Definition ph (h p : Z) : Z := if h <=? y0 p then 0 else cdiv (h - y0 p) (dy p).

Definition passes7 : list Z := [1; 2; 3; 4; 5; 6; 7].

(* scan lines of an interlaced image as (pass, pixels per line), in transmission order *)
Definition spec_pass_lines (w h p : Z) : list (Z * Z) :=
  if (pw w p =? 0) then [] else repeat (p, pw w p) (Z.to_nat (ph h p)).
Definition spec_lines (w h : Z) : list (Z * Z) := flat_map (spec_pass_lines w h) passes7.

(* byte length of a scan line of n pixels of bpp bits each *)
Definition line_bytes (bits_pp n : Z) : Z := cdiv (n * bits_pp) 8.

(* all scan lines of an image: (pass or None, pixels, bytes) *)
Definition spec_layout (w h bits_pp : Z) (il : bool) : list (option Z * Z * Z) :=
  if il then map (fun pn => (Some (fst pn), snd pn, line_bytes bits_pp (snd pn))) (spec_lines w h)
  else repeat (None, w, line_bytes bits_pp w) (Z.to_nat h).

Definition spec_raw_size (w h bits_pp : Z) (il : bool) (with_filter : bool) : Z :=
  sumZ (map (fun l => snd l + (if with_filter then 1 else 0)) (spec_layout w h bits_pp il)).

(* ------------------------------------------------------------------ pixel routing *)
Section Pix.
Context {A : Type}.

(* the elements whose absolute index (starting at i) satisfies f *)
Fixpoint sel (f : Z -> bool) (i : Z) (l : list A) : list A :=
  match l with [] => [] | a :: t => if f i then a :: sel f (i + 1) t else sel f (i + 1) t end.

Definition nonempty (l : list A) := match l with [] => false | _ => true end.

(* scan lines of pass p of an image given as rows of pixels: the rows of the pass, restricted to
   the columns of the pass; empty lines do not exist *)
Fixpoint pass_lines (p : Z) (y : Z) (rows : list (list A)) : list (list A) :=
  match rows with
  | [] => []
  | r :: t => (if row_in p y && nonempty (sel (col_in p) 0 r) then [sel (col_in p) 0 r] else [])
              ++ pass_lines p (y + 1) t
  end.

Definition spec_interlace (rows : list (list A)) : list (list (list A)) :=
  map (fun p => pass_lines p 0 rows) passes7.

(* the inverse direction: pixel (x,y) of the full image is pixel ((x - x0)/dx, (y - y0)/dy) of
   its pass; a pixel that its pass does not contain makes the image undecodable *)
Definition spec_pixel_at (passes : list (list (list A))) (x y : Z) : option A :=
  let p := pass_of x y in
  match nth_error passes (Z.to_nat (p - 1)) with
  | Some pass =>
      match nth_error pass (Z.to_nat ((y - y0 p) / dy p)) with
      | Some row => nth_error row (Z.to_nat ((x - x0 p) / dx p))
      | None => None
      end
  | None => None
  end.

Definition spec_deinterlace (w h : Z) (passes : list (list (list A))) : option (list (list A)) :=
  all_some (map (fun y => all_some (map (fun x => spec_pixel_at passes (Z.of_nat x) (Z.of_nat y)) (seq 0 (Z.to_nat w))))
                (seq 0 (Z.to_nat h))).

End Pix.

(* C06 for the frames of an animation: the result for frame k is a function of frame k, its position and the answers of the oracles
   for that frame alone - there is nothing for a schedule to influence, and a failure of one frame cannot change another's data. *)
From OxiVerif Require Import Base.Common Model.Types Model.Options Model.Headers Model.ScanLines Model.Filters Model.PngData Model.Evaluate Model.Optimize.
Local Open Scope Z_scope.

Definition frame_result (e : env) (o : options) (hd : ihdr) (f : row_filter) (i : nat) (fr : frame) : res frame :=
  if dl e (SFrame i) then Ok fr else
  do img <- png_image_new e (with_dims hd (f_width fr) (f_height fr)) (f_data fr);
  do filtered <- filter_image (e_brute e img (optimize_alpha o)) img f (optimize_alpha o);
  match deflate_capped e (deflate o) filtered (Some (lenZ (f_data fr) - 1)) with
  | Ok d => Ok (with_fdata fr d)
  | _ => Ok fr
  end.

Theorem recompress_frames_pointwise e o hd f : forall fs i fs',
  recompress_frames_go e o hd f i fs = Ok fs' ->
  length fs' = length fs /\ forall k fr, nth_error fs k = Some fr -> exists fr', nth_error fs' k = Some fr' /\ frame_result e o hd f (i + k) fr = Ok fr'.
Proof.
  induction fs as [|fr t IH]; intros i fs' H; cbn [recompress_frames_go] in H.
  - injection H as <-. split; [reflexivity|]. intros [|k] fr0 Hk; discriminate.
  - fold (frame_result e o hd f i fr) in H.
    destruct (frame_result e o hd f i fr) as [fr1|?|?] eqn:E1; cbn [bind] in H; try discriminate.
    destruct (recompress_frames_go e o hd f (S i) t) as [rest|?|?] eqn:E2; cbn [bind] in H; try discriminate. injection H as <-.
    destruct (IH _ _ E2) as [L P]. split; [cbn; congruence|]. intros [|k] fr0 Hk; cbn [nth_error] in *.
    + injection Hk as <-. exists fr1. split; [reflexivity|]. rewrite Nat.add_0_r. exact E1.
    + destruct (P k fr0 Hk) as (fr' & A & B). exists fr'. split; [exact A|]. replace (i + S k)%nat with (S i + k)%nat by lia. exact B.
Qed.

(* and when the call fails, it is because the result for some single frame is an error *)
Theorem recompress_frames_error_is_local e o hd f : forall fs i,
  (forall fs', recompress_frames_go e o hd f i fs <> Ok fs') ->
  exists k fr, nth_error fs k = Some fr /\ forall fr', frame_result e o hd f (i + k) fr <> Ok fr'.
Proof.
  induction fs as [|fr t IH]; intros i H; cbn [recompress_frames_go] in H.
  - exfalso. apply (H []). reflexivity.
  - fold (frame_result e o hd f i fr) in H.
    destruct (frame_result e o hd f i fr) as [fr1|x|x] eqn:E1; cbn [bind] in H.
    + destruct (IH (S i)) as (k & fr0 & A & B).
      { intros fs' E2. apply (H (fr1 :: fs')). rewrite E2. reflexivity. }
      exists (S k), fr0. split; [exact A|]. replace (i + S k)%nat with (S i + k)%nat by lia. exact B.
    + exists O, fr. split; [reflexivity|]. rewrite Nat.add_0_r, E1. discriminate.
    + exists O, fr. split; [reflexivity|]. rewrite Nat.add_0_r, E1. discriminate.
Qed.

(* A numeric literal that the model repeats as a literal, tied to the source on every run: Gen/SrcConsts.v is regenerated from /repo
   and the equation below is between the regenerated value and the literal used in Model/. A change of the literal in the code
   breaks this file (the model no longer describes the code), and with it the property file that imports it. *)
From OxiVerif Require Import Base.Common.
From OxiVerif Require Gen.SrcConsts.
Local Open Scope Z_scope.

(* src/headers.rs: the buffer extract_icc guesses for the inflated profile (2 x compressed length + 1000) *)
Lemma icc_guess_is_source : SrcConsts.src_icc_guess_factor = 2 /\ SrcConsts.src_icc_guess_slack = 1000.
Proof. split; reflexivity. Qed.

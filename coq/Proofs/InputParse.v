(* C01, input side: PngData::from_slice reads a well-formed PNG datastream the way the specification's whole-file decoder does.
   The chunk walker returns the specification's chunk list, the loop collects the IDAT payloads and the IHDR / PLTE / tRNS data,
   parse_ihdr_chunk builds the header whose colour interpretation is the specification's, and PngImage::new's image means the
   picture the specification decodes (UnfilterImage). *)
From OxiVerif Require Import Base.Common Base.Crc32 Spec.Filter Spec.Adam7 Spec.Sem Spec.Decode Spec.DecodeFile
  Model.Types Model.Options Model.Headers Model.ScanLines Model.Filters Model.PngData
  Proofs.Bridge Proofs.LiftReductions Proofs.LiftColor Proofs.HeaderProofs Proofs.RobustProofs Proofs.UnfilterImage.
Local Open Scope Z_scope.

(* ---------------------------------------------------------------- the chunk walker *)
Lemma sbe32_be32_of l : (4 <= length l)%nat -> sbe32 l = be32_of l.
Proof. destruct l as [|a [|b [|c [|d t]]]]; cbn [length]; try lia. intros _. reflexivity. Qed.

Definition as_chunk (c : list Z * list Z) : chunk := {| c_name := fst c; c_data := snd c |}.

Lemma parse_next_chunk_spec fuel bytes cs fx : bytes_ok bytes -> spec_parse_chunks (S fuel) bytes = Some cs ->
  match cs with
  | [] => False
  | c :: t =>
      if list_eqb Z.eqb (fst c) spec_IEND then t = [] /\ parse_next_chunk bytes fx = Ok None
      else exists after, parse_next_chunk bytes fx = Ok (Some (as_chunk c, after)) /\ spec_parse_chunks fuel after = Some t /\
                         bytes_ok after /\ (length after + 12 <= length bytes)%nat
  end.
Proof.
  intros Hok H. cbn [spec_parse_chunks] in H.
  destruct (Nat.ltb_spec (length bytes) 12) as [|Hl12]; [discriminate|].
  rewrite sbe32_be32_of in H by lia.
  pose proof (be32_of_nonneg bytes Hok) as Hnn.
  destruct (Z.ltb_spec (be32_of bytes) 0); [lia|]. cbn [orb] in H.
  destruct (Z.ltb_spec (lenZ bytes) (12 + be32_of bytes)) as [|Hfit]; [discriminate|].
  set (len := be32_of bytes) in *. set (n := Z.to_nat len) in *.
  set (name := firstn 4 (skipn 4 bytes)) in *. set (data := firstn n (skipn 8 bytes)) in *. set (rest := skipn n (skipn 8 bytes)) in *.
  unfold lenZ in Hfit.
  assert (Hrl : (4 <= length rest)%nat) by (unfold rest; rewrite !skipn_length; lia).
  rewrite (sbe32_be32_of rest Hrl) in H.
  destruct (Z.eqb_spec (be32_of rest) (crc32 (name ++ data))) as [Hcrc|]; [|discriminate]. cbn [negb] in H.
  unfold parse_next_chunk. destruct (Nat.ltb_spec (length bytes) 4); [lia|]. fold len.
  destruct (Z.ltb_spec (lenZ bytes) (12 + len)); [unfold lenZ in *; lia|]. fold name. unfold cname_eqb, name_IEND. fold spec_IEND.
  assert (Ebody : skipn 4 (skipn 4 bytes) = skipn 8 bytes) by (clear; destruct bytes as [|a [|b [|c [|d t]]]]; reflexivity).
  destruct (list_eqb Z.eqb name spec_IEND) eqn:Eend.
  - destruct (skipn 4 rest) eqn:Ea; [|discriminate]. injection H as <-. cbn [fst]. rewrite Eend. split; reflexivity.
  - destruct (spec_parse_chunks fuel (skipn 4 rest)) as [t|] eqn:Et; [|discriminate]. injection H as <-. cbn [fst]. rewrite Eend.
    exists (skipn 4 rest). rewrite Ebody. fold n data rest.
    assert (Ecrc : crc32 (firstn (4 + n) (skipn 4 bytes)) = be32_of rest).
    { rewrite Hcrc. f_equal. unfold name, data. rewrite <- Ebody.
      assert (G : forall (l : list Z), firstn (4 + n) l = firstn 4 l ++ firstn n (skipn 4 l)).
      { intros l. destruct l as [|a [|b [|c [|d tl]]]]; cbn [Nat.add firstn skipn app]; rewrite ?firstn_nil; reflexivity. }
      apply G. }
    rewrite Ecrc, Z.eqb_refl. cbn [negb]. rewrite andb_false_r.
    split; [reflexivity|]. split; [exact Et|]. split.
    + unfold rest. repeat apply bytes_ok_skipn. exact Hok.
    + unfold rest. rewrite !skipn_length. lia.
Qed.

Lemma spec_parse_nonempty fuel bytes cs : spec_parse_chunks fuel bytes = Some cs -> cs <> [].
Proof.
  destruct fuel as [|f]; [discriminate|]. cbn [spec_parse_chunks].
  destruct (_ <? 12)%nat; [discriminate|]. destruct (_ || _); [discriminate|]. destruct (negb _); [discriminate|].
  destruct (list_eqb Z.eqb _ spec_IEND).
  - destruct (skipn 4 _); [|discriminate]. intros [= <-]. discriminate.
  - destruct (spec_parse_chunks f _); [|discriminate]. intros [= <-]. discriminate.
Qed.

(* ---------------------------------------------------------------- the loop of from_slice is a fold over the chunks before IEND *)
Fixpoint fold_steps (o : options) (st : fs_state) (cs : list chunk) : res fs_state :=
  match cs with
  | [] => Ok st
  | c :: t => do st' <- from_slice_step o st c; fold_steps o st' t
  end.

Lemma loop_is_fold o : forall fs bytes cs, bytes_ok bytes -> spec_parse_chunks fs bytes = Some cs ->
  (12 * length cs <= length bytes)%nat /\
  forall fuel st, (length cs <= fuel)%nat -> from_slice_loop fuel o bytes st = fold_steps o st (map as_chunk (removelast cs)).
Proof.
  induction fs as [|f IH]; intros bytes cs Hok H; [discriminate|].
  pose proof (parse_next_chunk_spec f bytes cs (fix_errors o) Hok H) as P.
  destruct cs as [|c t]; [destruct P|].
  destruct (list_eqb Z.eqb (fst c) spec_IEND).
  - destruct P as [-> E]. split.
    + cbn [spec_parse_chunks] in H. destruct (Nat.ltb_spec (length bytes) 12); [discriminate|]. cbn [length]. lia.
    + intros fuel st Hf. destruct fuel as [|fuel]; [cbn in Hf; lia|]. cbn [from_slice_loop removelast map fold_steps]. rewrite E. reflexivity.
  - destruct P as (after & E & Et & Hoka & Hla). destruct (IH after t Hoka Et) as [Hc Hloop]. split.
    + cbn [length]. lia.
    + intros fuel st Hf. destruct fuel as [|fuel]; [cbn in Hf; lia|]. cbn [from_slice_loop]. rewrite E. cbn [bind].
      assert (Hne : t <> []) by (eapply spec_parse_nonempty; eauto).
      assert (Erl : removelast (c :: t) = c :: removelast t) by (destruct t; [contradiction|reflexivity]).
      rewrite Erl. cbn [map fold_steps]. destruct (from_slice_step o st (as_chunk c)) as [st1|?|?]; cbn [bind]; try reflexivity.
      apply Hloop. cbn [length] in Hf. lia.
Qed.

(* ---------------------------------------------------------------- what the fold collects *)
Definition is_name (n : cname) (c : chunk) : bool := cname_eqb (c_name c) n.
Definition last_named (n : cname) (cs : list chunk) (d : option (list Z)) : option (list Z) :=
  fold_left (fun acc c => if is_name n c then Some (c_data c) else acc) cs d.

Lemma step_fields o st c st1 : from_slice_step o st c = Ok st1 ->
  fs_idat st1 = (if is_name name_IDAT c then fs_idat st ++ c_data c else fs_idat st) /\
  fs_ihdr st1 = (if is_name name_IHDR c then Some (c_data c) else fs_ihdr st) /\
  fs_plte st1 = (if is_name name_PLTE c then Some (c_data c) else fs_plte st) /\
  fs_trns st1 = (if is_name name_tRNS c then Some (c_data c) else fs_trns st).
Proof.
  unfold from_slice_step, is_name. intros H.
  destruct (cname_eqb (c_name c) name_IDAT) eqn:E1.
  { apply list_eqb_Z_spec in E1. rewrite E1 in *. injection H as <-. cbn. auto. }
  destruct (cname_eqb (c_name c) name_IHDR) eqn:E2.
  { apply list_eqb_Z_spec in E2. rewrite E2 in *. injection H as <-. cbn. auto. }
  destruct (cname_eqb (c_name c) name_PLTE) eqn:E3.
  { apply list_eqb_Z_spec in E3. rewrite E3 in *. injection H as <-. cbn. auto. }
  destruct (cname_eqb (c_name c) name_tRNS) eqn:E4.
  { apply list_eqb_Z_spec in E4. rewrite E4 in *. injection H as <-. cbn. auto. }
  repeat match type of H with
  | (if ?b then _ else _) = _ => destruct b
  | (match ?x with _ => _ end) = _ => destruct x
  | bind ?x _ = _ => destruct x; cbn [bind] in H
  end; try discriminate; injection H as <-; cbn; auto.
Qed.

Lemma fold_fields o : forall cs st st', fold_steps o st cs = Ok st' ->
  fs_idat st' = fs_idat st ++ flat_map c_data (List.filter (is_name name_IDAT) cs) /\
  fs_ihdr st' = last_named name_IHDR cs (fs_ihdr st) /\
  fs_plte st' = last_named name_PLTE cs (fs_plte st) /\
  fs_trns st' = last_named name_tRNS cs (fs_trns st).
Proof.
  induction cs as [|c t IH]; intros st st' H; cbn [fold_steps] in H.
  - injection H as <-. cbn. rewrite app_nil_r. auto.
  - destruct (from_slice_step o st c) as [st1|?|?] eqn:Es; cbn [bind] in H; try discriminate.
    destruct (step_fields o st c st1 Es) as (F1 & F2 & F3 & F4). destruct (IH st1 st' H) as (G1 & G2 & G3 & G4).
    unfold last_named in *. cbn [List.filter fold_left flat_map]. rewrite G1, G2, G3, G4, F1, F2, F3, F4.
    destruct (is_name name_IDAT c); cbn [flat_map]; rewrite <- ?app_assoc; auto.
Qed.

(* ---------------------------------------------------------------- shape of a parsed chunk list *)
Lemma spec_parse_last : forall fs bytes cs, spec_parse_chunks fs bytes = Some cs ->
  exists body d, cs = body ++ [(spec_IEND, d)] /\ Forall (fun c => list_eqb Z.eqb (fst c) spec_IEND = false) body.
Proof.
  induction fs as [|f IH]; intros bytes cs H; [discriminate|]. cbn [spec_parse_chunks] in H.
  destruct (_ <? 12)%nat; [discriminate|]. destruct (_ || _); [discriminate|]. destruct (negb _); [discriminate|].
  destruct (list_eqb Z.eqb _ spec_IEND) eqn:E.
  - match type of H with (match ?x with _ => _ end) = _ => destruct x end; [|discriminate]. injection H as <-. apply list_eqb_Z_spec in E. eexists [], _. split; [cbn [app]; f_equal; f_equal; exact E|constructor].
  - destruct (spec_parse_chunks f _) as [t|] eqn:Et; [|discriminate]. injection H as <-.
    destruct (IH _ _ Et) as (body & d & -> & F). eexists (_ :: body), d. split; [reflexivity|]. constructor; [exact E|exact F].
Qed.

Lemma find_filter {A} (f : A -> bool) l : find f l = match List.filter f l with x :: _ => Some x | [] => None end.
Proof. induction l as [|a t IH]; cbn [find List.filter]; [reflexivity|]. destruct (f a); [reflexivity|exact IH]. Qed.

Lemma last_named_unique n : forall cs d, (length (List.filter (is_name n) cs) <= 1)%nat ->
  last_named n cs d = match find (is_name n) cs with Some c => Some (c_data c) | None => d end.
Proof.
  unfold last_named. induction cs as [|c t IH]; intros d H; cbn [fold_left find List.filter] in *; [reflexivity|].
  destruct (is_name n c) eqn:E.
  - cbn [length] in H. rewrite IH by lia. rewrite find_filter. destruct (List.filter (is_name n) t); [reflexivity|cbn in H; lia].
  - apply IH. exact H.
Qed.

Lemma filter_map_chunks (n : list Z) (l : list (list Z * list Z)) :
  List.filter (is_name n) (map as_chunk l) = map as_chunk (List.filter (named n) l).
Proof. induction l as [|c t IH]; cbn [map List.filter]; [reflexivity|]. unfold is_name, named, cname_eqb in *. cbn [as_chunk c_name]. destruct (list_eqb Z.eqb (fst c) n); cbn [map]; rewrite IH; reflexivity. Qed.

Lemma find_map_chunks (n : list Z) (l : list (list Z * list Z)) :
  find (is_name n) (map as_chunk l) = option_map as_chunk (find (named n) l).
Proof. induction l as [|c t IH]; cbn [map find]; [reflexivity|]. unfold is_name, named, cname_eqb in *. cbn [as_chunk c_name]. destruct (list_eqb Z.eqb (fst c) n); [reflexivity|exact IH]. Qed.

(* ---------------------------------------------------------------- the header *)
Lemma zip_alpha_spec (tr : list (Z * Z * Z)) : forall al,
  zip_alpha (map (fun c : Z * Z * Z => let '(r, g, b) := c in (r, g, b, 255)) tr) al = with_alpha tr al.
Proof.
  induction tr as [|[[r g] b] t IH]; intros al; cbn [map zip_alpha with_alpha]; [destruct al; reflexivity|].
  destruct al as [|a ta]; [f_equal; rewrite <- (IH []); destruct (map _ t) as [|[[[? ?] ?] ?] ?]; reflexivity|]. f_equal. apply IH.
Qed.

Lemma triples_same l : Headers.triples l = DecodeFile.triples l.
Proof. reflexivity. Qed.

Definition spec_color_opt (code : Z) (plte trns : option (list Z)) : option spec_color :=
  match code with
  | 0 => Some (SGray (match trns with Some t => match be16s t with k :: _ => Some k | [] => None end | None => None end))
  | 2 => Some (SRGB (match trns with Some t => match be16s t with r :: g :: b :: _ => Some (r, g, b) | _ => None end | None => None end))
  | 3 => match plte with
         | Some pl => Some (SIndexed (with_alpha (DecodeFile.triples pl) (match trns with Some t => t | None => [] end)))
         | None => None
         end
  | 4 => Some SGrayAlpha
  | 6 => Some SRGBA
  | _ => None
  end.

Lemma spec_color_of_chunks_opt code rest :
  spec_color_of_chunks code rest = spec_color_opt code (option_map snd (find (named spec_PLTE) rest)) (option_map snd (find (named spec_tRNS) rest)).
Proof.
  unfold spec_color_of_chunks, spec_color_opt.
  destruct (find (named spec_PLTE) rest) as [[? ?]|]; destruct (find (named spec_tRNS) rest) as [[? ?]|]; reflexivity.
Qed.

Lemma parse_ihdr_spec ih plte trns hd c : parse_ihdr_chunk ih plte trns = Ok hd ->
  spec_color_opt (nth 9 ih 0) plte trns = Some c ->
  spec_color_of (ctype hd) = c /\ width hd = be32_of ih /\ height hd = be32_of (skipn 4 ih) /\
  depth hd = nth 8 ih 0 /\ interlaced hd = (nth 12 ih 0 =? 1).
Proof.
  unfold parse_ihdr_chunk. intros H Hc.
  destruct (nth_error ih 12) as [il|] eqn:Eil; [|discriminate].
  assert (Enth : nth 12 ih 0 = il) by (apply nth_error_nth; exact Eil).
  match type of H with bind ?X _ = _ => destruct X as [ct|?|?] eqn:Ect end; cbn [bind] in H; try discriminate.
  destruct (negb (depth_valid (nth 8 ih 0))); [discriminate|]. destruct (negb ((il =? 0) || (il =? 1))); [discriminate|].
  match type of H with (if ?b then _ else _) = _ => destruct b end; [|discriminate]. injection H as <-. cbn [ctype width height depth interlaced].
  rewrite Enth. repeat split; auto.
  unfold spec_color_opt in Hc.
  destruct (nth 9 ih 0) as [|p|p]; try discriminate;
    [|destruct p as [[p|p|]|[[p|p|]|[p|p|]|]|]; try discriminate]; injection Ect as <-; cbn [spec_color_of].
  - (* gray *) injection Hc as <-. f_equal. destruct trns as [t|]; [|reflexivity].
    destruct t as [|a [|b t]]; cbn; reflexivity.
  - (* indexed *) destruct plte as [pl|]; [|discriminate]. injection Hc as <-. f_equal. unfold palette_to_rgba. rewrite triples_same.
    destruct trns as [t|]; [apply zip_alpha_spec|]. rewrite <- (zip_alpha_spec _ []).
    destruct (map _ (DecodeFile.triples pl)) as [|[[[? ?] ?] ?] ?]; reflexivity.
  - injection Hc as <-. reflexivity.
  - injection Hc as <-. reflexivity.
  - (* rgb *) injection Hc as <-. f_equal. destruct trns as [t|]; [|reflexivity].
    destruct t as [|a1 [|a2 [|a3 [|a4 [|a5 [|a6 t]]]]]]; cbn; reflexivity.
Qed.

Lemma filter_last_other {A} (f : A -> bool) l x : f x = false -> List.filter f (l ++ [x]) = List.filter f l.
Proof. intros H. rewrite filter_app. cbn [List.filter]. rewrite H. apply app_nil_r. Qed.

Lemma find_last_other {A} (f : A -> bool) l x : f x = false -> find f (l ++ [x]) = find f l.
Proof. intros H. induction l as [|a t IH]; cbn [app find]; [rewrite H; reflexivity|]. destruct (f a); [reflexivity|exact IH]. Qed.

Lemma flat_map_data_chunks (l : list (list Z * list Z)) : flat_map c_data (map as_chunk l) = flat_map snd l.
Proof. induction l as [|c t IH]; cbn [map flat_map]; [reflexivity|]. rewrite IH. reflexivity. Qed.

(* what a successful specification decode says about the header fields *)
Lemma spec_decode_stream_some w h c d il stream pic : spec_decode_stream w h c d il stream = Some pic ->
  0 < w /\ 0 < h /\ 0 < d * spec_channels c /\ depth_legal c d = true.
Proof.
  unfold spec_decode_stream, spec_unfilter. intros H.
  destruct (Z.leb_spec w 0); [discriminate|]. destruct (Z.leb_spec h 0); [discriminate|]. destruct (Z.leb_spec (d * spec_channels c) 0); [discriminate|].
  cbn [orb] in H. destruct (cut_filtered _ stream); [|discriminate]. destruct (spec_recon_seq _ _ _); [|discriminate].
  unfold spec_sem in H. destruct (depth_legal c d); [|discriminate]. repeat split; auto.
Qed.

Theorem from_slice_means (e : env) (o : options) (inflate : list Z -> option (list Z)) bytes p pic nm ih rest :
  bytes_ok bytes ->
  from_slice e bytes o = Ok p ->
  spec_parse_png bytes = Some ((nm, ih) :: rest) ->
  spec_decode_chunks inflate ((nm, ih) :: rest) = Some pic ->
  (* a valid datastream has one IHDR, at most one PLTE and one tRNS *)
  List.filter (named spec_IHDR) rest = [] ->
  (length (List.filter (named spec_PLTE) rest) <= 1)%nat -> (length (List.filter (named spec_tRNS) rest) <= 1)%nat ->
  (* the decompressor of the code is the specification's, and returns bytes *)
  (forall x n y, z_inflate e x n = Ok y -> inflate x = Some y /\ bytes_ok y) ->
  (* the image fits the address space; colour key within the sample range and at most 256 byte-valued palette entries *)
  spec_raw_size (width (hdr (raw p))) (height (hdr (raw p))) (bpp (hdr (raw p))) (interlaced (hdr (raw p))) true <= usize_max ->
  wf_ctype (ctype (hdr (raw p))) (depth (hdr (raw p))) ->
  wf (raw p) /\ sem (raw p) = Some pic /\
  exists stream, inflate (idat_data p) = Some stream /\
    spec_decode_stream (width (hdr (raw p))) (height (hdr (raw p))) (spec_color_of (ctype (hdr (raw p)))) (depth (hdr (raw p)))
                       (interlaced (hdr (raw p))) stream = Some pic.
Proof.
  intros Hok H Hparse Hdec HnoIHDR Hplte1 Htrns1 Hz Husz Hwfc.
  unfold spec_parse_png in Hparse. destruct (list_eqb Z.eqb (firstn 8 bytes) spec_signature) eqn:Esig; [|discriminate].
  unfold from_slice in H. destruct (Nat.ltb_spec (length bytes) 8) as [|Hl8]; [discriminate|].
  change PNG_SIG with spec_signature in H. rewrite Esig in H. cbn [negb] in H.
  set (cs := (nm, ih) :: rest) in *.
  destruct (loop_is_fold o (length bytes) (skipn 8 bytes) cs (bytes_ok_skipn 8 bytes Hok) Hparse) as [Hcnt Hloop].
  rewrite Hloop in H.
  2:{ rewrite skipn_length in Hcnt. assert (length cs <= length bytes / 12)%nat; [apply Nat.div_le_lower_bound; lia|lia]. }
  destruct (spec_parse_last _ _ _ Hparse) as (body & dend & Ecs & Fbody).
  rewrite Ecs, removelast_last in H.
  (* the first chunk is IHDR *)
  unfold spec_decode_chunks in Hdec. unfold cs in Hdec.
  destruct (list_eqb Z.eqb nm spec_IHDR) eqn:Enm; [|discriminate]. apply list_eqb_Z_spec in Enm. subst nm.
  destruct (Nat.eqb_spec (length ih) 13) as [Hih13|]; [|discriminate]. cbn [andb] in Hdec.
  destruct body as [|b0 body']; [unfold cs in Ecs; cbn [app] in Ecs; injection Ecs as E _; discriminate|].
  unfold cs in Ecs. cbn [app] in Ecs. injection Ecs as <- Erest.
  assert (Hend : forall n, n <> spec_IEND -> named n (spec_IEND, dend) = false).
  { intros n Hn. unfold named. cbn [fst]. destruct (list_eqb Z.eqb spec_IEND n) eqn:E; [apply list_eqb_Z_spec in E; congruence|reflexivity]. }
  (* the fold *)
  match type of H with bind ?X _ = _ => destruct X as [st|?|?] eqn:Efold end; cbn [bind] in H; try discriminate.
  destruct (fold_fields o _ _ _ Efold) as (F1 & F2 & F3 & F4). cbn [fs_idat fs_ihdr fs_plte fs_trns app] in F1, F2, F3, F4.
  assert (Gidat : fs_idat st = flat_map snd (List.filter (named spec_IDAT) rest)).
  { rewrite F1, filter_map_chunks, flat_map_data_chunks. rewrite Erest, filter_last_other by (apply Hend; discriminate). reflexivity. }
  assert (Gihdr : fs_ihdr st = Some ih).
  { rewrite F2. unfold last_named. cbn [map fold_left as_chunk is_name c_name c_data fst snd]. change (is_name name_IHDR (as_chunk (spec_IHDR, ih))) with true. cbn iota.
    fold (last_named name_IHDR (map as_chunk body') (Some ih)). rewrite last_named_unique.
    - rewrite find_map_chunks, find_filter. rewrite Erest, filter_last_other in HnoIHDR by (apply Hend; discriminate). change name_IHDR with spec_IHDR. rewrite HnoIHDR. reflexivity.
    - rewrite filter_map_chunks, map_length. rewrite Erest, filter_last_other in HnoIHDR by (apply Hend; discriminate). change name_IHDR with spec_IHDR. rewrite HnoIHDR. cbn. lia. }
  assert (Gplte : fs_plte st = option_map snd (find (named spec_PLTE) rest)).
  { rewrite F3. unfold last_named. cbn [map fold_left as_chunk is_name c_name c_data fst snd]. change (is_name name_PLTE (as_chunk (spec_IHDR, ih))) with false. cbn iota.
    fold (last_named name_PLTE (map as_chunk body') None). rewrite Erest, filter_last_other in Hplte1 by (apply Hend; discriminate).
    rewrite last_named_unique by (rewrite filter_map_chunks, map_length; exact Hplte1).
    rewrite find_map_chunks. rewrite Erest, find_last_other by (apply Hend; discriminate). change name_PLTE with spec_PLTE.
    destruct (find (named spec_PLTE) body') as [[? ?]|]; reflexivity. }
  assert (Gtrns : fs_trns st = option_map snd (find (named spec_tRNS) rest)).
  { rewrite F4. unfold last_named. cbn [map fold_left as_chunk is_name c_name c_data fst snd]. change (is_name name_tRNS (as_chunk (spec_IHDR, ih))) with false. cbn iota.
    fold (last_named name_tRNS (map as_chunk body') None). rewrite Erest, filter_last_other in Htrns1 by (apply Hend; discriminate).
    rewrite last_named_unique by (rewrite filter_map_chunks, map_length; exact Htrns1).
    rewrite find_map_chunks. rewrite Erest, find_last_other by (apply Hend; discriminate). change name_tRNS with spec_tRNS.
    destruct (find (named spec_tRNS) body') as [[? ?]|]; reflexivity. }
  destruct (fs_idat st) as [|i0 it] eqn:Eidat; [discriminate|]. rewrite Gihdr in H.
  destruct (parse_ihdr_chunk ih (fs_plte st) (fs_trns st)) as [hd|?|?] eqn:Ehd; cbn [bind] in H; try discriminate.
  destruct (png_image_new e hd (i0 :: it)) as [img|?|?] eqn:Eimg; cbn [bind] in H; try discriminate.
  injection H as <-. cbn [raw idat_data] in *.
  (* the specification's side *)
  destruct ((nth 10 ih 0 =? 0) && (nth 11 ih 0 =? 0) && ((nth 12 ih 0 =? 0) || (nth 12 ih 0 =? 1))); [|discriminate].
  destruct (spec_color_of_chunks (nth 9 ih 0) rest) as [c|] eqn:Ecol; [|discriminate].
  destruct (inflate (flat_map snd (List.filter (named spec_IDAT) rest))) as [stream'|] eqn:Einf; [|discriminate].
  rewrite spec_color_of_chunks_opt, <- Gplte, <- Gtrns in Ecol.
  destruct (parse_ihdr_spec ih _ _ hd c Ehd Ecol) as (Hc & Hw & Hh & Hd & Hil).
  rewrite <- (sbe32_be32_of ih) in Hw by lia. rewrite <- (sbe32_be32_of (skipn 4 ih)) in Hh by (rewrite skipn_length; lia).
  rewrite <- Hw, <- Hh, <- Hd, <- Hil, <- Hc in Hdec.
  destruct (spec_decode_stream_some _ _ _ _ _ _ _ Hdec) as (Pw & Ph & Pb & Pl).
  rewrite spec_channels_of in Pb. fold (bpp hd) in Pb.
  assert (Hhdr : hdr img = hd).
  { unfold png_image_new in Eimg. destruct ((width hd =? 0) || (height hd =? 0)); [discriminate|]. destruct (_ <? _); [discriminate|].
    destruct (z_inflate e _ _); cbn [bind] in Eimg; try discriminate. destruct (negb _); [discriminate|].
    destruct (unfilter_image _); cbn [bind] in Eimg; try discriminate. injection Eimg as <-. reflexivity. }
  rewrite Hhdr in Husz, Hwfc.
  destruct (png_image_new_sem e hd (i0 :: it) img Eimg Pl ltac:(lia) Husz ltac:(lia) ltac:(lia) (fun x n y Hy => proj2 (Hz x n y Hy)))
    as (stream & Ez & _ & Hdok & _ & Hsem).
  destruct (Hz _ _ _ Ez) as [Hinf _]. rewrite <- Gidat in Einf. rewrite Hinf in Einf. injection Einf as <-.
  split; [split; [exact Hdok|rewrite Hhdr; exact Hwfc]|]. split; [rewrite Hsem; exact Hdec|].
  exists stream. split; [exact Hinf|]. rewrite Hhdr. exact Hdec.
Qed.

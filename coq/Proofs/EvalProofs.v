(* Proofs about the evaluator model (C06, C17): every complete schedule of the concurrent trials, and
   the sequential (non-parallel) build, yield the same candidate: the key-minimal eligible trial. *)
From OxiVerif Require Import Base.Common Model.Types Model.Evaluate.

Definition key_lt (a b : trial) : Prop := key_ltb a b = true.

Lemma key_lt_unfold a b : key_lt a b <->
  total a < total b \/ (total a = total b /\
   (tRaw a < tRaw b \/ (tRaw a = tRaw b /\
     (tFilter a < tFilter b \/ (tFilter a = tFilter b /\ tNth b < tNth a))))).
Proof.
  unfold key_lt, key_ltb.
  rewrite !orb_true_iff, !andb_true_iff, !orb_true_iff, !andb_true_iff, !orb_true_iff, !andb_true_iff.
  rewrite !Z.ltb_lt, !Z.eqb_eq. tauto.
Qed.

Lemma key_lt_irrefl a : ~ key_lt a a.
Proof. rewrite key_lt_unfold. lia. Qed.

Lemma key_lt_trans a b c : key_lt a b -> key_lt b c -> key_lt a c.
Proof. rewrite !key_lt_unfold. lia. Qed.

Lemma key_lt_total_le a b : key_lt a b -> total a <= total b.
Proof. rewrite key_lt_unfold. lia. Qed.

(* distinct (submission, filter) pairs: no two trials of one evaluator share both *)
Definition ident (t : trial) : Z * Z := (tNth t, tFilter t).

Lemma key_total a b : ident a <> ident b -> key_lt a b \/ key_lt b a.
Proof.
  unfold ident. intros H. rewrite !key_lt_unfold.
  assert (tNth a <> tNth b \/ tFilter a <> tFilter b) by (destruct (Z.eq_dec (tNth a) (tNth b)), (Z.eq_dec (tFilter a) (tFilter b)); try lia; exfalso; apply H; congruence).
  lia.
Qed.

Lemma key_ltb_false_total a b : ident a <> ident b -> key_ltb a b = false -> key_lt b a.
Proof. intros Hd Hf. destruct (key_total a b Hd) as [H|H]; auto. unfold key_lt in H. congruence. Qed.

(* ------------------------------------------------------------------ characterisation of best_of *)
Lemma best_of_go_spec init trials : forall best,
  NoDup (map ident (match best with Some b => b :: trials | None => trials end)) ->
  (match best with Some b => eligible init b = true | None => True end) ->
  match best_of_go init trials best with
  | None => best = None /\ forall t, In t trials -> eligible init t = false
  | Some M =>
      (Some M = best \/ In M trials) /\ eligible init M = true /\
      (forall t, (Some t = best \/ In t trials) -> eligible init t = true -> t = M \/ key_lt M t)
  end.
Proof.
  induction trials as [|t r IH]; intros best Hnd Hbe; cbn [best_of_go].
  - destruct best as [b|].
    + split; [left; reflexivity|]. split; [exact Hbe|]. intros t [Ht|[]] _. left. congruence.
    + split; auto. intros t [].
  - destruct (eligible init t) eqn:Het.
    + destruct best as [b|].
      * assert (Hid : ident t <> ident b).
        { cbn [map] in Hnd. inversion Hnd as [|? ? Hnotin _]; subst. intros E. apply Hnotin. rewrite <- E. left. reflexivity. }
        destruct (key_ltb t b) eqn:Hlt.
        -- specialize (IH (Some t)). cbn beta iota in IH.
           assert (Hnd' : NoDup (map ident (t :: r))) by (cbn [map] in Hnd; inversion Hnd; auto).
           specialize (IH Hnd' Het).
           destruct (best_of_go init r (Some t)) as [M|].
           ++ destruct IH as (Hin & Hel & Hmin). split; [|split; auto].
              ** destruct Hin as [E|Hin]; [right; left; congruence|right; right; auto].
              ** intros u Hu Heu. destruct Hu as [E|[E|Hu]].
                 --- injection E as <-.
                     destruct (Hmin t (or_introl eq_refl) Het) as [E2|E2].
                     +++ subst M. right. exact Hlt.
                     +++ right. eapply key_lt_trans; eauto.
                 --- subst u. apply Hmin; auto.
                 --- apply Hmin; auto.
           ++ destruct IH as [E _]. discriminate.
        -- specialize (IH (Some b)). cbn beta iota in IH.
           assert (Hnd' : NoDup (map ident (b :: r))).
           { cbn [map] in *. inversion Hnd as [|? ? Hn1 Hn2]; subst. inversion Hn2 as [|? ? Hn3 Hn4]; subst.
             constructor; auto. intros Hc. apply Hn1. right. exact Hc. }
           specialize (IH Hnd' Hbe).
           destruct (best_of_go init r (Some b)) as [M|].
           ++ destruct IH as (Hin & Hel & Hmin). split; [|split; auto].
              ** destruct Hin as [E|Hin]; [left; auto|right; right; auto].
              ** intros u Hu Heu. destruct Hu as [E|[E|Hu]].
                 --- apply Hmin; auto.
                 --- subst u. pose proof (key_ltb_false_total t b Hid Hlt) as Hbt.
                     destruct (Hmin b (or_introl eq_refl) Hbe) as [E2|E2].
                     +++ subst M. right. exact Hbt.
                     +++ right. eapply key_lt_trans; eauto.
                 --- apply Hmin; auto.
           ++ destruct IH as [E _]. discriminate.
      * specialize (IH (Some t)). cbn beta iota in IH. specialize (IH Hnd Het).
        destruct (best_of_go init r (Some t)) as [M|].
        -- destruct IH as (Hin & Hel & Hmin). split; [|split; auto].
           ++ destruct Hin as [E|Hin]; [right; left; congruence|right; right; auto].
           ++ intros u Hu Heu. destruct Hu as [E|[E|Hu]]; [discriminate| |].
              ** subst u. apply Hmin; auto.
              ** apply Hmin; auto.
        -- destruct IH as [E _]. discriminate.
    + assert (Hnd' : NoDup (map ident (match best with Some b => b :: r | None => r end))).
      { destruct best as [b|]; cbn [map] in *.
        - inversion Hnd as [|? ? Hn1 Hn2]; subst. inversion Hn2 as [|? ? Hn3 Hn4]; subst.
          constructor; auto. intros Hc. apply Hn1. right. exact Hc.
        - inversion Hnd; auto. }
      specialize (IH best Hnd' Hbe).
      destruct (best_of_go init r best) as [M|].
      * destruct IH as (Hin & Hel & Hmin). split; [|split; auto].
        -- destruct Hin as [E|Hin]; [left; auto|right; right; auto].
        -- intros u Hu Heu. destruct Hu as [E|[E|Hu]].
           ++ apply Hmin; auto.
           ++ subst u. congruence.
           ++ apply Hmin; auto.
      * destruct IH as [E Hall]. split; auto. intros u [E2|Hu]; [subst; auto|auto].
Qed.

Lemma best_of_spec init trials : NoDup (map ident trials) ->
  match best_of init trials with
  | None => forall t, In t trials -> eligible init t = false
  | Some M => In M trials /\ eligible init M = true /\
              (forall t, In t trials -> eligible init t = true -> t = M \/ key_lt M t)
  end.
Proof.
  intros Hnd. pose proof (best_of_go_spec init trials None Hnd I) as H. unfold best_of.
  destruct (best_of_go init trials None) as [M|].
  - destruct H as (Hin & Hel & Hmin). split; [destruct Hin as [E|Hin]; [discriminate|auto]|]. split; auto.
  - destruct H as [_ H]. exact H.
Qed.

(* ------------------------------------------------------------------ min_by_key *)
Lemma min_by_key_In l m : min_by_key l = Some m -> In m l.
Proof.
  revert m; induction l as [|t r IH]; simpl; intros m H; try discriminate.
  destruct (min_by_key r) as [m'|]; [destruct (key_ltb t m')|]; injection H as <-; auto.
Qed.

Lemma min_by_key_M M l : In M l -> (forall t, In t l -> t = M \/ key_lt M t) -> min_by_key l = Some M.
Proof.
  induction l as [|t r IH]; simpl; intros Hin Hall; [tauto|].
  assert (IH' : In M r -> min_by_key r = Some M) by (intros H; apply IH; auto).
  destruct (min_by_key r) as [m'|] eqn:Hr.
  - destruct (key_ltb t m') eqn:Hlt.
    + destruct Hin as [->|Hin]; auto.
      specialize (IH' Hin). injection IH' as ->.
      destruct (Hall t (or_introl eq_refl)) as [->|H]; auto.
      exfalso. eapply key_lt_irrefl. eapply key_lt_trans; [exact H|exact Hlt].
    + destruct Hin as [->|Hin].
      * assert (Hm'in : In m' r) by (apply min_by_key_In; auto).
        destruct (Hall m' (or_intror Hm'in)) as [->|H]; auto.
        unfold key_lt in H. congruence.
      * rewrite (IH' Hin). reflexivity.
  - destruct Hin as [->|Hin]; auto. specialize (IH' Hin). discriminate.
Qed.

(* ------------------------------------------------------------------ the invariant *)
Lemma le_bound_min t b v : le_bound t b = true -> t <= v -> le_bound t (min_bound b v) = true.
Proof. destruct b; simpl; intros H1 H2; apply Z.leb_le; [apply Z.leb_le in H1|]; lia. Qed.

Lemma le_bound_min_inv l b v : le_bound l (min_bound b v) = true -> le_bound l b = true.
Proof. destruct b; simpl; auto. intros H. apply Z.leb_le in H. apply Z.leb_le. lia. Qed.

Section Fix.
Variable trials : list trial.
Variable init : option Z.
Hypothesis Knonneg : forall t, In t trials -> 0 <= tK t.
Hypothesis Hnd : NoDup (map ident trials).

(* every bound that was ever current is <= init; a trial in phase HasRead was not skipped;
   everything received is an eligible trial *)
Record Inv2 (s : state) : Prop := {
  inv2A : forall l, le_bound l (bound s) = true -> le_bound l init = true;
  inv2B : forall i b l, nth_error (phases s) i = Some (HasRead b) -> le_bound l b = true -> le_bound l init = true;
  inv2C : forall t, In t (received s) -> In t trials /\ eligible init t = true;
  inv2D : forall i b t, nth_error (phases s) i = Some (HasRead b) -> nth_error trials i = Some t -> tSkip t = false;
  inv2E : length (phases s) = length trials
}.

Lemma Inv2_init : Inv2 (init_state trials init).
Proof.
  constructor; simpl; auto.
  - intros i b l H. rewrite nth_error_map in H. destruct (nth_error trials i); discriminate.
  - intros t [].
  - intros i b t H. rewrite nth_error_map in H. destruct (nth_error trials i); discriminate.
  - apply map_length.
Qed.

Lemma step_Inv2 s e s' : Inv2 s -> step trials s e = Some s' -> Inv2 s'.
Proof.
  intros I Hs. destruct e as [i|i]; simpl in Hs.
  - destruct (nth_error (phases s) i) as [[| |]|] eqn:Hp; try discriminate.
    destruct (nth_error trials i) as [t|] eqn:Ht; try discriminate.
    assert (Hi : (i < length (phases s))%nat) by (apply nth_error_Some; congruence).
    destruct (tSkip t) eqn:Hsk; injection Hs as <-; constructor; simpl.
    + apply I.
    + intros j b l Hj. destruct (Nat.eq_dec i j) as [->|Hne].
      * rewrite nth_error_set_nth_eq in Hj by auto. discriminate.
      * rewrite nth_error_set_nth_neq in Hj by auto. eapply inv2B; eauto.
    + apply I.
    + intros j b u Hj. destruct (Nat.eq_dec i j) as [->|Hne].
      * rewrite nth_error_set_nth_eq in Hj by auto. discriminate.
      * rewrite nth_error_set_nth_neq in Hj by auto. eapply inv2D; eauto.
    + rewrite set_nth_length. apply I.
    + apply I.
    + intros j b l Hj Hl. destruct (Nat.eq_dec i j) as [->|Hne].
      * rewrite nth_error_set_nth_eq in Hj by auto. injection Hj as <-. apply I; auto.
      * rewrite nth_error_set_nth_neq in Hj by auto. eapply inv2B; eauto.
    + apply I.
    + intros j b u Hj Hu. destruct (Nat.eq_dec i j) as [->|Hne].
      * congruence.
      * rewrite nth_error_set_nth_neq in Hj by auto. eapply inv2D; eauto.
    + rewrite set_nth_length. apply I.
  - destruct (nth_error (phases s) i) as [[|b|]|] eqn:Hp; try discriminate.
    destruct (nth_error trials i) as [t|] eqn:Ht; try discriminate.
    assert (Hi : (i < length (phases s))%nat) by (apply nth_error_Some; congruence).
    assert (Hin : In t trials) by (eapply nth_error_In; eauto).
    destruct (le_bound (tL t) b) eqn:Hfit; injection Hs as <-; constructor; simpl.
    + intros l Hl. apply I. eapply le_bound_min_inv; eauto.
    + intros j b' l Hj Hl. destruct (Nat.eq_dec i j) as [->|Hne].
      * rewrite nth_error_set_nth_eq in Hj by auto. discriminate.
      * rewrite nth_error_set_nth_neq in Hj by auto. eapply inv2B; eauto.
    + intros u [<-|Hu]; [|apply I; auto]. split; auto.
      unfold eligible. rewrite (inv2D _ I _ _ _ Hp Ht). cbn [negb andb]. eapply inv2B; eauto.
    + intros j b' u Hj. destruct (Nat.eq_dec i j) as [->|Hne].
      * rewrite nth_error_set_nth_eq in Hj by auto. discriminate.
      * rewrite nth_error_set_nth_neq in Hj by auto. eapply inv2D; eauto.
    + rewrite set_nth_length. apply I.
    + apply I.
    + intros j b' l Hj Hl. destruct (Nat.eq_dec i j) as [->|Hne].
      * rewrite nth_error_set_nth_eq in Hj by auto. discriminate.
      * rewrite nth_error_set_nth_neq in Hj by auto. eapply inv2B; eauto.
    + apply I.
    + intros j b' u Hj. destruct (Nat.eq_dec i j) as [->|Hne].
      * rewrite nth_error_set_nth_eq in Hj by auto. discriminate.
      * rewrite nth_error_set_nth_neq in Hj by auto. eapply inv2D; eauto.
    + rewrite set_nth_length. apply I.
Qed.

Lemma run_Inv2 es : forall s s', Inv2 s -> run trials s es = Some s' -> Inv2 s'.
Proof.
  induction es as [|e es IH]; simpl; intros s s' I H.
  - injection H as <-. auto.
  - destruct (step trials s e) as [s1|] eqn:Hs; try discriminate. eauto using step_Inv2.
Qed.

(* ---- no eligible trial: nothing is ever received *)
Theorem result_none es s : best_of init trials = None ->
  run trials (init_state trials init) es = Some s -> min_by_key (received s) = None.
Proof.
  intros Hb Hrun. pose proof (best_of_spec init trials Hnd) as Hs. rewrite Hb in Hs.
  pose proof (run_Inv2 es _ _ Inv2_init Hrun) as I.
  destruct (received s) as [|t r] eqn:Hr; [reflexivity|].
  destruct (inv2C _ I t) as [Hin Hel]; [rewrite Hr; left; reflexivity|].
  rewrite (Hs t Hin) in Hel. discriminate.
Qed.

(* ---- the key-minimal eligible trial M always survives *)
Variable iM : nat.
Variable M : trial.
Hypothesis HM : nth_error trials iM = Some M.
Hypothesis HMel : eligible init M = true.
Hypothesis HMmin : forall t, In t trials -> eligible init t = true -> t = M \/ key_lt M t.

Record Inv (s : state) : Prop := {
  invA : le_bound (tL M) (bound s) = true;
  invB : forall i b, nth_error (phases s) i = Some (HasRead b) -> le_bound (tL M) b = true;
  invD : nth_error (phases s) iM = Some Done -> In M (received s)
}.

Lemma Inv_init : Inv (init_state trials init).
Proof.
  constructor; simpl.
  - unfold eligible in HMel. apply andb_true_iff in HMel. apply HMel.
  - intros i b H. rewrite nth_error_map in H. destruct (nth_error trials i); discriminate.
  - rewrite nth_error_map, HM. discriminate.
Qed.

Lemma M_not_skipped : tSkip M = false.
Proof. unfold eligible in HMel. apply andb_true_iff in HMel. destruct HMel as [H _]. destruct (tSkip M); auto; discriminate. Qed.

Lemma step_Inv s e s' : Inv s -> Inv2 s -> step trials s e = Some s' -> Inv s'.
Proof.
  intros I I2 Hs. destruct e as [i|i]; simpl in Hs.
  - destruct (nth_error (phases s) i) as [[| |]|] eqn:Hp; try discriminate.
    destruct (nth_error trials i) as [t|] eqn:Ht; try discriminate.
    assert (Hi : (i < length (phases s))%nat) by (apply nth_error_Some; congruence).
    destruct (tSkip t) eqn:Hsk; injection Hs as <-; constructor; simpl.
    + apply I.
    + intros j b Hj. destruct (Nat.eq_dec i j) as [->|Hne].
      * rewrite nth_error_set_nth_eq in Hj by auto. discriminate.
      * rewrite nth_error_set_nth_neq in Hj by auto. eapply invB; eauto.
    + intros H. destruct (Nat.eq_dec i iM) as [->|Hne].
      * exfalso. assert (t = M) by congruence. subst t. rewrite M_not_skipped in Hsk. discriminate.
      * rewrite nth_error_set_nth_neq in H by auto. apply I; auto.
    + apply I.
    + intros j b Hj. destruct (Nat.eq_dec i j) as [->|Hne].
      * rewrite nth_error_set_nth_eq in Hj by auto. injection Hj as <-. apply I.
      * rewrite nth_error_set_nth_neq in Hj by auto. eapply invB; eauto.
    + intros H. destruct (Nat.eq_dec i iM) as [->|Hne].
      * rewrite nth_error_set_nth_eq in H by auto. discriminate.
      * rewrite nth_error_set_nth_neq in H by auto. apply I; auto.
  - destruct (nth_error (phases s) i) as [[|b|]|] eqn:Hp; try discriminate.
    destruct (nth_error trials i) as [t|] eqn:Ht; try discriminate.
    assert (Hi : (i < length (phases s))%nat) by (apply nth_error_Some; congruence).
    assert (Hin : In t trials) by (eapply nth_error_In; eauto).
    destruct (le_bound (tL t) b) eqn:Hfit; injection Hs as <-; constructor; simpl.
    + assert (Hel : eligible init t = true).
      { unfold eligible. rewrite (inv2D _ I2 _ _ _ Hp Ht). cbn [negb andb]. eapply inv2B; eauto. }
      apply le_bound_min; [apply I|].
      pose proof (Knonneg M (nth_error_In _ _ HM)).
      destruct (HMmin t Hin Hel) as [->|Hlt]; [unfold total; lia|].
      apply key_lt_total_le in Hlt. unfold total in *. lia.
    + intros j b' Hj. destruct (Nat.eq_dec i j) as [->|Hne].
      * rewrite nth_error_set_nth_eq in Hj by auto. discriminate.
      * rewrite nth_error_set_nth_neq in Hj by auto. eapply invB; eauto.
    + intros H. destruct (Nat.eq_dec i iM) as [->|Hne].
      * left. congruence.
      * right. rewrite nth_error_set_nth_neq in H by auto. apply I; auto.
    + apply I.
    + intros j b' Hj. destruct (Nat.eq_dec i j) as [->|Hne].
      * rewrite nth_error_set_nth_eq in Hj by auto. discriminate.
      * rewrite nth_error_set_nth_neq in Hj by auto. eapply invB; eauto.
    + intros H. destruct (Nat.eq_dec i iM) as [->|Hne].
      * exfalso. assert (t = M) by congruence. subst t.
        rewrite (invB _ I _ _ Hp) in Hfit. discriminate.
      * rewrite nth_error_set_nth_neq in H by auto. apply I; auto.
Qed.

Lemma run_Inv es : forall s s', Inv s -> Inv2 s -> run trials s es = Some s' -> Inv s'.
Proof.
  induction es as [|e es IH]; simpl; intros s s' I I2 H.
  - injection H as <-. auto.
  - destruct (step trials s e) as [s1|] eqn:Hs; try discriminate.
    eapply IH; [eapply step_Inv; eauto|eapply step_Inv2; eauto|exact H].
Qed.

Theorem result_is_M es s :
  run trials (init_state trials init) es = Some s -> complete s -> min_by_key (received s) = Some M.
Proof.
  intros Hrun Hc.
  pose proof (run_Inv es _ _ Inv_init Inv2_init Hrun) as I.
  pose proof (run_Inv2 es _ _ Inv2_init Hrun) as I2.
  apply min_by_key_M.
  - apply I. unfold complete in Hc. rewrite Forall_forall in Hc.
    assert (iM < length (phases s))%nat by (rewrite (inv2E _ I2); apply nth_error_Some; congruence).
    destruct (nth_error (phases s) iM) eqn:Hp; [|apply nth_error_None in Hp; lia].
    f_equal. apply Hc. eapply nth_error_In; eauto.
  - intros t Ht. destruct (inv2C _ I2 t Ht). apply HMmin; auto.
Qed.
End Fix.

(* ------------------------------------------------------------------ main theorems *)
Theorem schedule_result_is_best_of trials init es s :
  (forall t, In t trials -> 0 <= tK t) -> NoDup (map ident trials) ->
  run trials (init_state trials init) es = Some s -> complete s ->
  min_by_key (received s) = best_of init trials.
Proof.
  intros HK Hnd Hrun Hc.
  pose proof (best_of_spec init trials Hnd) as Hs.
  destruct (best_of init trials) as [M|] eqn:Hb.
  - destruct Hs as (Hin & Hel & Hmin).
    destruct (In_nth_error _ _ Hin) as [iM HiM].
    eapply result_is_M; eauto.
  - eapply result_none; eauto.
Qed.

Corollary schedule_independent trials init es1 es2 s1 s2 :
  (forall t, In t trials -> 0 <= tK t) -> NoDup (map ident trials) ->
  run trials (init_state trials init) es1 = Some s1 -> complete s1 ->
  run trials (init_state trials init) es2 = Some s2 -> complete s2 ->
  min_by_key (received s1) = min_by_key (received s2).
Proof. intros. erewrite !schedule_result_is_best_of; eauto. Qed.

(* ------------------------------------------------------------------ the non-parallel build *)
(* the synchronous fold is one particular complete schedule: Read i, Publish i for i = 0, 1, … *)
Lemma sequential_go_spec init trials : (forall t, In t trials -> 0 <= tK t) -> NoDup (map ident trials) ->
  sequential init trials = best_of init trials.
Proof.
  intros HK Hnd.
  (* generalised statement over a prefix already processed *)
  assert (G : forall rest bnd best done,
    trials = done ++ rest ->
    (forall l, le_bound l bnd = true -> le_bound l init = true) ->
    (match best_of init trials with
     | Some M => (In M rest /\ le_bound (tL M) bnd = true /\ (match best with Some p => p <> M /\ In p done /\ eligible init p = true | None => True end))
                 \/ best = Some M
     | None => best = None
     end) ->
    sequential_go rest bnd best = best_of init trials).
  { pose proof (best_of_spec init trials Hnd) as Hs.
    induction rest as [|t r IH]; intros bnd best done Hsplit Hb Hst; cbn [sequential_go].
    - destruct (best_of init trials) as [M|]; [|auto]. destruct Hst as [[[] _]|E]; auto.
    - assert (Hint : In t trials) by (rewrite Hsplit; apply in_or_app; right; left; reflexivity).
      assert (Hsplit' : trials = (done ++ [t]) ++ r) by (rewrite <- app_assoc; exact Hsplit).
      destruct (tSkip t) eqn:Hsk.
      + apply (IH bnd best (done ++ [t]) Hsplit' Hb).
        destruct (best_of init trials) as [M|]; [|auto].
        destruct Hs as (HinM & HelM & HminM).
        destruct Hst as [(HMr & HMb & Hbest)|E]; [|right; auto].
        left. split; [|split; auto].
        * destruct HMr as [->|H]; auto. exfalso. unfold eligible in HelM. rewrite Hsk in HelM. discriminate.
        * destruct best as [p|]; auto. destruct Hbest as (H1 & H2 & H3). split; auto. split; auto. apply in_or_app. auto.
      + destruct (le_bound (tL t) bnd) eqn:Hfit.
        * assert (Helt : eligible init t = true) by (unfold eligible; rewrite Hsk; cbn; auto).
          apply (IH _ _ (done ++ [t]) Hsplit').
          -- intros l Hl. apply Hb. eapply le_bound_min_inv; eauto.
          -- destruct (best_of init trials) as [M|]; [|rewrite (Hs t Hint) in Helt; discriminate].
             destruct Hs as (HinM & HelM & HminM).
             destruct Hst as [(HMr & HMb & Hbest)|E].
             ++ destruct HMr as [<-|HMr].
                ** (* t = M is processed now and becomes (or stays) the best *)
                   right. destruct best as [p|]; auto.
                   destruct Hbest as (Hne & Hpd & Hpel).
                   assert (Hpin : In p trials) by (rewrite Hsplit; apply in_or_app; auto).
                   destruct (HminM p Hpin Hpel) as [->|Hlt]; [congruence|].
                   destruct (key_ltb p t) eqn:Hpt; auto.
                   exfalso. eapply key_lt_irrefl. eapply key_lt_trans; [exact Hlt|exact Hpt].
                ** left. split; auto. split.
                   { apply le_bound_min; auto.
                     pose proof (HK M HinM).
                     destruct (HminM t Hint Helt) as [->|Hlt]; [unfold total; lia|].
                     apply key_lt_total_le in Hlt. unfold total in *. lia. }
                   { assert (HtM : t <> M).
                     { intros ->. (* M occurs in r as well: contradicts NoDup *)
                       rewrite Hsplit in Hnd. rewrite map_app in Hnd. apply NoDup_remove_2 in Hnd.
                       apply Hnd. rewrite <- map_app. apply in_map. apply in_or_app. auto. }
                     destruct best as [p|].
                     - destruct Hbest as (Hne & Hpd & Hpel).
                       destruct (key_ltb p t).
                       + split; [exact Hne|]. split; [apply in_or_app; left; exact Hpd|exact Hpel].
                       + split; [exact HtM|]. split; [apply in_or_app; right; left; reflexivity|exact Helt].
                     - split; [exact HtM|]. split; [apply in_or_app; right; left; reflexivity|exact Helt]. }
             ++ (* M already best: it stays *)
                right. subst best.
                destruct (HminM t Hint Helt) as [->|Hlt].
                ** destruct (key_ltb M M); reflexivity.
                ** unfold key_lt in Hlt. rewrite Hlt. reflexivity.
        * apply (IH bnd best (done ++ [t]) Hsplit' Hb).
          destruct (best_of init trials) as [M|]; [|auto].
          destruct Hs as (HinM & HelM & HminM).
          destruct Hst as [(HMr & HMb & Hbest)|E]; [|right; auto].
          left. split; [|split; auto].
          -- destruct HMr as [->|H]; auto. congruence.
          -- destruct best as [p|]; auto. destruct Hbest as (H1 & H2 & H3). split; auto. split; auto. apply in_or_app. auto. }
  unfold sequential. apply (G trials init None []); auto.
  pose proof (best_of_spec init trials Hnd) as Hs.
  destruct (best_of init trials) as [M|]; auto.
  destruct Hs as (HinM & HelM & _). left. split; auto. split; auto.
  unfold eligible in HelM. apply andb_true_iff in HelM. apply HelM.
Qed.

(* Image-level semantic theorems for the palette transformations of 8-bit indexed images (C01):
   reduced_palette, apply_palette_reorder (hence the three sorters). *)
From OxiVerif Require Import Base.Common Spec.Adam7 Spec.Sem Model.Types Model.ScanLines Model.Color Model.Palette
  Proofs.Bridge Proofs.PixelProofs Proofs.ImageLift Proofs.LiftReductions Proofs.LiftColor.

(* ---------------------------------------------------------------- generic remapping of indices *)
Theorem remap_sem img pal new_pal (f : Z -> Z) pic :
  depth (hdr img) = 8 -> ctype (hdr img) = Indexed pal -> wf img ->
  (forall b c, In b (data img) -> nth_error pal (Z.to_nat b) = Some c -> nth_error new_pal (Z.to_nat (f b)) = Some c) ->
  (forall b, 0 <= b < 256 -> 0 <= f b < 256) ->
  Forall rgba8_ok new_pal -> (length new_pal <= 256)%nat ->
  sem img = Some pic ->
  sem {| hdr := with_ctype (hdr img) (Indexed new_pal); data := map f (data img) |} = Some pic /\
  wf {| hdr := with_ctype (hdr img) (Indexed new_pal); data := map f (data img) |}.
Proof.
  intros Hd Hc [Hok Hwf] Hmap Hbyte Hnew Hnewlen Hsem. split.
  - apply (sem_pixelwise_some img _ 1 1 (map f) pic); cbn [hdr data width height interlaced depth ctype with_ctype channels_per_pixel]; auto.
    + rewrite Hd, Hc. reflexivity.
    + rewrite Hd. reflexivity.
    + rewrite Hd. reflexivity.
    + rewrite chunks_exact_1, map_map. generalize (data img). intros l. induction l as [|x t IH]; cbn [map concat app]; [reflexivity|]. f_equal. exact IH.
    + intros px Hin Hlen. split; [rewrite map_length; exact Hlen|].
      rewrite chunks_exact_1 in Hin. apply in_map_iff in Hin. destruct Hin as [b [<- Hb]]. cbn [map].
      assert (Hbr : 0 <= b < 256) by (eapply bytes_ok_in; eauto).
      rewrite Hd, Hc. cbn [spec_color_of].
      assert (B1 : bytes_ok [b]) by (apply Forall_cons; [exact Hbr|apply Forall_nil]).
      assert (B2 : bytes_ok [f b]) by (apply Forall_cons; [apply Hbyte; exact Hbr|apply Forall_nil]).
      rewrite (pxcol8 _ _ B1), (pxcol8 _ _ B2). cbn [color_of_samples]. unfold rgba8 in *.
      destruct (nth_error pal (Z.to_nat b)) as [c|] eqn:En; [|intros H; exfalso; apply H; reflexivity].
      intros _. rewrite (Hmap b c Hb En). reflexivity.
  - split; cbn [data hdr ctype depth with_ctype wf_ctype].
    + unfold bytes_ok. apply Forall_forall. intros x Hx. apply in_map_iff in Hx. destruct Hx as [b [<- Hb]].
      apply Hbyte. eapply bytes_ok_in; eauto.
    + split; [exact Hnew|exact Hnewlen].
Qed.

(* ---------------------------------------------------------------- apply_palette_reorder *)
Fixpoint last_idx (b : Z) (l : list Z) : option Z :=
  match l with
  | [] => None
  | v :: t => match last_idx b t with
              | Some k => Some (k + 1)
              | None => if v =? b then Some 0 else None
              end
  end.

Lemma last_idx_spec b l k : last_idx b l = Some k -> 0 <= k < lenZ l /\ nth_error l (Z.to_nat k) = Some b.
Proof.
  revert k. induction l as [|v t IH]; intros k H; cbn [last_idx] in H; [discriminate|]. unfold lenZ in *. cbn [length].
  destruct (last_idx b t) as [k'|].
  - injection H as <-. destruct (IH k' eq_refl) as [Hr Hn]. split; [lia|]. replace (Z.to_nat (k' + 1)) with (S (Z.to_nat k')) by lia. exact Hn.
  - destruct (Z.eqb_spec v b); [|discriminate]. injection H as <-. subst. split; [lia|reflexivity].
Qed.

Lemma last_idx_in b l : In b l -> exists k, last_idx b l = Some k.
Proof.
  induction l as [|v t IH]; intros H; [destruct H|]. cbn [last_idx].
  destruct (last_idx b t) as [k'|] eqn:E; [eauto|].
  destruct H as [->|H]; [rewrite Z.eqb_refl; eauto|]. destruct (IH H) as [k Hk]. discriminate.
Qed.

Lemma nthZ_set_nth (bm : list Z) v x b : 0 <= v -> 0 <= b -> (Z.to_nat v < length bm)%nat ->
  nthZ (set_nth (Z.to_nat v) x bm) b 0 = if v =? b then x else nthZ bm b 0.
Proof.
  intros Hv Hb Hlen. unfold nthZ. destruct (Z.eqb_spec v b) as [->|Hne].
  - apply nth_error_nth. apply nth_error_set_nth_eq. exact Hlen.
  - assert (Hn : Z.to_nat v <> Z.to_nat b) by lia.
    pose proof (nth_error_set_nth_neq bm _ _ x Hn) as E.
    destruct (nth_error bm (Z.to_nat b)) as [y|] eqn:Eb.
    + rewrite (nth_error_nth _ _ _ E), (nth_error_nth _ _ _ Eb). reflexivity.
    + rewrite !nth_overflow; [reflexivity|apply nth_error_None; exact Eb|apply nth_error_None; exact E].
Qed.

Lemma build_byte_map_spec l : forall i bm b, 0 <= i -> 0 <= b -> length bm = 256%nat ->
  (forall v, In v l -> 0 <= v < 256) ->
  nthZ (build_byte_map l i bm) b 0 = match last_idx b l with Some k => (i + k) mod 256 | None => nthZ bm b 0 end.
Proof.
  induction l as [|v t IH]; intros i bm b Hi Hb Hlen Hr; cbn [build_byte_map last_idx]; [reflexivity|].
  rewrite IH; try lia; [|rewrite set_nth_length; exact Hlen|intros; apply Hr; right; assumption].
  destruct (last_idx b t) as [k|]; [f_equal; lia|].
  pose proof (Hr v (or_introl eq_refl)) as Hv.
  rewrite nthZ_set_nth by lia. destruct (v =? b); [f_equal; lia|reflexivity].
Qed.

Lemma build_byte_map_bytes l : forall i bm, length bm = 256%nat -> Forall byte_ok bm -> 0 <= i ->
  Forall byte_ok (build_byte_map l i bm).
Proof.
  induction l as [|v t IH]; intros i bm Hlen Hok Hi; cbn [build_byte_map]; [exact Hok|].
  apply IH; [rewrite set_nth_length; exact Hlen| |lia].
  clear IH. revert bm Hlen Hok. generalize (Z.to_nat v). intros n bm _ Hok. revert n.
  induction Hok as [|h tl Hh Ht IH2]; intros [|n]; cbn [set_nth]; try constructor; auto.
  unfold byte_ok. pose proof (Z.mod_pos_bound i 256). lia.
Qed.

Lemma nthZ_byte bm b : Forall byte_ok bm -> 0 <= nthZ bm b 0 < 256.
Proof.
  intros H. unfold nthZ. destruct (nth_error bm (Z.to_nat b)) as [y|] eqn:E.
  - rewrite (nth_error_nth _ _ _ E). rewrite Forall_forall in H. apply H. eapply nth_error_In; eauto.
  - rewrite nth_overflow by (apply nth_error_None; exact E). lia.
Qed.

(* every index that the image uses occurs in the remapping *)
Definition covers (n : Z) (remapping : list Z) (data : list Z) : Prop := forall b, In b data -> 0 <= b < n -> In b remapping.

Theorem apply_palette_reorder_sem img remapping img' pic :
  depth (hdr img) = 8 -> wf img -> (length remapping <= 256)%nat -> (forall pal, ctype (hdr img) = Indexed pal -> covers (lenZ pal) remapping (data img)) ->
  apply_palette_reorder img remapping = Ok (Some img') -> sem img = Some pic -> sem img' = Some pic /\ wf img'.
Proof.
  intros Hd Hwf Hlen Hcov Happ Hsem. unfold apply_palette_reorder in Happ.
  destruct (ctype (hdr img)) as [| |pal| |] eqn:Hc; try discriminate.
  destruct (is_identity remapping); [discriminate|].
  destruct (existsb _ remapping) eqn:Eex; [discriminate|].
  remember (repeat 0 256) as init eqn:Hinit. injection Happ as <-.
  assert (Hinitlen : length init = 256%nat) by (subst init; apply repeat_length).
  assert (Hinitok : Forall byte_ok init) by (subst init; apply Forall_forall; intros x Hx; apply repeat_spec in Hx; subst; unfold byte_ok; lia).
  assert (Hinit0 : forall b, nthZ init b 0 = 0).
  { intros b. subst init. unfold nthZ. destruct (nth_error (repeat 0 256) (Z.to_nat b)) as [y|] eqn:E.
    - rewrite (nth_error_nth _ _ _ E). apply nth_error_In in E. apply repeat_spec in E. exact E.
    - apply nth_overflow. apply nth_error_None. exact E. }
  assert (Hrange : forall v, In v remapping -> 0 <= v < lenZ pal /\ v < 256).
  { intros v Hv. destruct ((v <? 0) || (lenZ pal <=? v) || (256 <=? v)) eqn:E.
    - assert (existsb (fun v => (v <? 0) || (lenZ pal <=? v) || (256 <=? v)) remapping = true) by (apply existsb_exists; eauto). congruence.
    - apply orb_false_iff in E. destruct E as [E E3]. apply orb_false_iff in E. destruct E as [E1 E2]. lia. }
  set (bm := build_byte_map remapping 0 init).
  assert (Hbm : Forall byte_ok bm) by (apply build_byte_map_bytes; auto; lia).
  destruct Hwf as [Hok Hwfc]. pose proof Hwfc as Hwfc0. rewrite Hc in Hwfc. cbn [wf_ctype] in Hwfc. destruct Hwfc as [Hpal Hpallen].
  apply (remap_sem img pal); auto.
  - split; [exact Hok|exact Hwfc0].
  - intros b c Hb Hn.
    assert (Hbr : 0 <= b < 256) by (apply (bytes_ok_in (data img)); assumption).
    assert (Hbp : 0 <= b < lenZ pal).
    { assert (Z.to_nat b < length pal)%nat by (apply nth_error_Some; congruence). unfold lenZ. lia. }
    destruct (last_idx_in b remapping (Hcov pal eq_refl b Hb Hbp)) as [k Hk].
    destruct (last_idx_spec _ _ _ Hk) as [Hkr Hkn]. unfold lenZ in Hkr.
    unfold bm. rewrite build_byte_map_spec; try lia; try exact Hinitlen; try (intros v Hv; destruct (Hrange v Hv); lia).
    rewrite Hk. rewrite Z.add_0_l, Z.mod_small by lia.
    rewrite (map_nth_error _ _ _ Hkn). f_equal. unfold nthZ. apply nth_error_nth. exact Hn.
  - intros b Hb. apply nthZ_byte. exact Hbm.
  - apply Forall_forall. intros e He. apply in_map_iff in He. destruct He as [v [<- Hv]].
    destruct (Hrange v Hv) as [Hv1 _]. unfold nthZ.
    destruct (nth_error pal (Z.to_nat v)) as [c|] eqn:En.
    + rewrite (nth_error_nth _ _ _ En). eapply rgba8_in; eauto.
    + apply nth_error_None in En. unfold lenZ in Hv1. lia.
  - rewrite map_length. exact Hlen.
Qed.

(* ---------------------------------------------------------------- sorted_palette (luma sort) *)
From Coq Require Import Permutation.

Lemma insert_sorted_perm {A} (key : A -> Z) x l : Permutation (insert_sorted key x l) (x :: l).
Proof.
  induction l as [|a t IH]; cbn [insert_sorted]; [reflexivity|].
  destruct (key x <=? key a); [reflexivity|]. rewrite IH. apply perm_swap.
Qed.

Lemma stable_sort_perm {A} (key : A -> Z) l : Permutation (stable_sort key l) l.
Proof.
  unfold stable_sort. induction l as [|a t IH]; cbn [fold_right]; [reflexivity|].
  rewrite insert_sorted_perm. constructor. exact IH.
Qed.

Lemma remove_nth_perm {A} (l : list A) n x : nth_error l n = Some x -> Permutation (x :: remove_nth n l) l.
Proof.
  revert n. induction l as [|a t IH]; intros [|n] H; cbn in H; try discriminate.
  - injection H as ->. reflexivity.
  - cbn [remove_nth]. rewrite perm_swap. constructor. apply IH. exact H.
Qed.

Lemma remove_nth_none {A} (l : list A) n : nth_error l n = None -> remove_nth n l = l.
Proof.
  revert n. induction l as [|a t IH]; intros [|n] H; cbn in *; try discriminate; try reflexivity. rewrite IH by exact H. reflexivity.
Qed.

Lemma enumerated_spec (pal : list rgba8) : forall (start : nat) e,
  In e (combine (map Z.of_nat (seq start (length pal))) pal) ->
  Z.of_nat start <= fst e < Z.of_nat start + lenZ pal /\ nth_error pal (Z.to_nat (fst e) - start) = Some (snd e).
Proof.
  induction pal as [|c t IH]; intros start e H; cbn in H; [destruct H|]. unfold lenZ in *. cbn [length].
  destruct H as [<-|H].
  - cbn [fst snd]. split; [lia|]. rewrite Nat2Z.id, Nat.sub_diag. reflexivity.
  - destruct (IH (S start) e H) as [Hr Hn]. split; [lia|].
    replace (Z.to_nat (fst e) - start)%nat with (S (Z.to_nat (fst e) - S start)) by lia. exact Hn.
Qed.

Lemma enumerated_all (pal : list rgba8) b : 0 <= b < lenZ pal ->
  In b (map fst (combine (map Z.of_nat (seq 0 (length pal))) pal)).
Proof.
  intros Hb. unfold lenZ in Hb.
  assert (G : forall (start : nat), Z.of_nat start <= b < Z.of_nat start + Z.of_nat (length pal) ->
              In b (map fst (combine (map Z.of_nat (seq start (length pal))) pal))).
  { clear Hb. induction pal as [|c t IH]; intros start Hr; cbn [length] in Hr; [lia|]. cbn [length seq map combine fst].
    destruct (Z.eq_dec b (Z.of_nat start)) as [->|Hne]; [left; reflexivity|]. right. apply IH; lia. }
  apply G. lia.
Qed.

Theorem sorted_palette_sem img img' pic : wf img ->
  sorted_palette img = Ok (Some img') -> sem img = Some pic -> sem img' = Some pic /\ wf img'.
Proof.
  intros Hwf Hs Hsem. unfold sorted_palette in Hs.
  destruct (depth (hdr img) =? 8) eqn:Ed; cbn [negb] in Hs; [|discriminate]. apply Z.eqb_eq in Ed.
  destruct (ctype (hdr img)) as [| |pal| |] eqn:Hc; try discriminate.
  destruct (length pal <=? 1)%nat; [discriminate|].
  destruct (scan_lines img false) as [lines| |]; cbn [bind] in Hs; try discriminate.
  destruct (most_popular_edge_color (length pal) lines) as [keep_first| |]; cbn [bind] in Hs; try discriminate.
  set (enumerated := combine (map Z.of_nat (seq 0 (length pal))) pal) in *.
  set (fr := match keep_first with
             | Some f => (nth_error enumerated (Z.to_nat f), remove_nth (Z.to_nat f) enumerated)
             | None => (None, enumerated) end) in *.
  destruct fr as [first rest] eqn:Efr.
  set (sorted := match first with Some f => f :: stable_sort (fun e => color_val (snd e)) rest | None => stable_sort (fun e => color_val (snd e)) rest end) in *.
  assert (Hperm : Permutation sorted enumerated).
  { unfold sorted. unfold fr in Efr. destruct keep_first as [f|].
    - injection Efr as <- <-. destruct (nth_error enumerated (Z.to_nat f)) as [x|] eqn:En.
      + rewrite <- (remove_nth_perm _ _ _ En) at 2. constructor. apply stable_sort_perm.
      + rewrite stable_sort_perm, remove_nth_none by exact En. reflexivity.
    - injection Efr as <- <-. apply stable_sort_perm. }
  destruct (is_identity (map fst sorted)) eqn:Eid; [discriminate|].
  remember (repeat 0 256) as init eqn:Hinit. injection Hs as <-.
  destruct Hwf as [Hok Hwfc]. pose proof Hwfc as Hwfc0. rewrite Hc in Hwfc. cbn [wf_ctype] in Hwfc. destruct Hwfc as [Hpal Hpallen].
  assert (Hin : forall e, In e sorted -> 0 <= fst e < lenZ pal /\ nth_error pal (Z.to_nat (fst e)) = Some (snd e)).
  { intros e He. apply (Permutation_in _ Hperm) in He. destruct (enumerated_spec pal 0 e He) as [Hr Hn].
    rewrite Nat.sub_0_r in Hn. split; [lia|exact Hn]. }
  (* the result is exactly what apply_palette_reorder computes for this remapping *)
  apply (apply_palette_reorder_sem img (map fst sorted)); auto.
  - split; [exact Hok|exact Hwfc0].
  - rewrite map_length, (Permutation_length Hperm). unfold enumerated. rewrite combine_length, map_length, seq_length. lia.
  - intros pal' Hc'. rewrite Hc in Hc'. injection Hc' as <-. intros b Hb Hbr.
    apply (Permutation_in _ (Permutation_sym (Permutation_map fst Hperm))). apply enumerated_all. exact Hbr.
  - unfold apply_palette_reorder. rewrite Hc, Eid.
    assert (Eex : existsb (fun v => (v <? 0) || (lenZ pal <=? v) || (256 <=? v)) (map fst sorted) = false).
    { destruct (existsb _ (map fst sorted)) eqn:E; [|reflexivity]. apply existsb_exists in E. destruct E as [v [Hv E]].
      apply in_map_iff in Hv. destruct Hv as [e [<- He]]. destruct (Hin e He) as [Hr _]. unfold lenZ in *. lia. }
    rewrite Eex, <- Hinit. do 4 f_equal. f_equal.
    rewrite map_map. apply map_ext_in. intros e He. destruct (Hin e He) as [_ Hn]. unfold nthZ. apply nth_error_nth. exact Hn.
Qed.

(* ---------------------------------------------------------------- reduced_palette (lossless) *)
Lemma rgba8_eqb_eq a b : rgba8_eqb a b = true -> a = b.
Proof.
  destruct a as [[[r1 g1] b1] a1], b as [[[r2 g2] b2] a2]. cbn. intros H.
  apply andb_true_iff in H. destruct H as [H H4]. apply andb_true_iff in H. destruct H as [H H3].
  apply andb_true_iff in H. destruct H as [H1 H2]. apply Z.eqb_eq in H1, H2, H3, H4. congruence.
Qed.

Lemma index_of_spec_gen {A} (eqb : A -> A -> bool) (Heq : forall a x, eqb a x = true -> a = x) (x : A) l :
  forall i j, index_of eqb x l i = Some j -> (i <= j)%nat /\ nth_error l (j - i) = Some x.
Proof.
  induction l as [|a t IH]; intros i j H; cbn [index_of] in H; [discriminate|].
  destruct (eqb a x) eqn:E.
  - injection H as <-. apply Heq in E. subst a. rewrite Nat.sub_diag. split; [lia|reflexivity].
  - destruct (IH _ _ H) as [Hle Hn]. split; [lia|]. replace (j - i)%nat with (S (j - S i)) by lia. exact Hn.
Qed.

Lemma insert_full_spec (x : rgba8) items n idx items' n' : n = length items ->
  insert_full rgba8_eqb x (items, n) = (idx, (items', n')) ->
  n' = length items' /\ (exists more, rev items' = rev items ++ more /\ (forall y, In y more -> y = x)) /\
  nth_error (rev items') idx = Some x /\ (idx < n')%nat /\ (n' <= S n)%nat.
Proof.
  intros Hn H. unfold insert_full in H. destruct (index_of rgba8_eqb x items 0) as [j|] eqn:Ei.
  - injection H as <- <- <-. destruct (index_of_spec_gen _ rgba8_eqb_eq _ _ _ _ Ei) as [_ Hnth]. rewrite Nat.sub_0_r in Hnth.
    assert (Hj : (j < length items)%nat) by (apply nth_error_Some; congruence).
    split; [exact Hn|]. split; [exists []; rewrite app_nil_r; split; [reflexivity|intros ? []]|].
    split; [rewrite Hn, nth_error_rev by lia; exact Hnth|]. lia.
  - injection H as <- <- <-. split; [cbn; lia|]. split; [exists [x]; split; [reflexivity|intros y [<-|[]]; reflexivity]|].
    split; [cbn [rev]; rewrite nth_error_app2 by (rewrite rev_length; lia); rewrite rev_length, Hn, Nat.sub_diag; reflexivity|]. lia.
Qed.

Lemma condense_spec pal : forall used i set bm dc set' bm' dc',
  0 <= i -> i + lenZ used = 256 -> length bm = 256%nat -> snd set = length (fst set) -> (Z.of_nat (snd set) <= i) ->
  condense used i pal false set bm dc = (set', bm', dc') ->
  (forall j, i <= j < 256 -> nth (Z.to_nat (j - i)) used false = true ->
     nth_error (rev (fst set')) (Z.to_nat (nthZ bm' j 0)) = Some (nth (Z.to_nat j) pal black) /\ (dc' = false -> nthZ bm' j 0 = j)) /\
  (forall j, 0 <= j < i -> nthZ bm' j 0 = nthZ bm j 0) /\
  (exists more, rev (fst set') = rev (fst set) ++ more /\ (forall y, In y more -> exists j, y = nth j pal black)) /\
  (snd set' <= 256)%nat /\ snd set' = length (fst set') /\ (dc' = false -> dc = false) /\ length bm' = 256%nat /\
  (Forall byte_ok bm -> Forall byte_ok bm').
Proof.
  induction used as [|u t IH]; intros i [items n] bm dc set' bm' dc' Hi Hlen Hbm Hn Hle H; cbn [condense fst snd] in *.
  - injection H as <- <- <-. unfold lenZ in Hlen. cbn in Hlen.
    split; [intros j Hj; lia|]. split; [reflexivity|]. split; [exists []; rewrite app_nil_r; split; [reflexivity|intros ? []]|].
    split; [cbn; lia|]. split; [exact Hn|]. split; [auto|]. split; [exact Hbm|auto].
  - unfold lenZ in Hlen. cbn [length] in Hlen.
    destruct u; cbn [negb] in H.
    + unfold add_color_to_set in H. cbn [andb] in H.
      set (color := nth (Z.to_nat i) pal black) in *.
      assert (Hc2 : forall (T : Type) (k : T), (let '(_, _, _, _) := color in k) = k) by (intros; destruct color as [[[? ?] ?] ?]; reflexivity).
      rewrite Hc2 in H.
      destruct (insert_full rgba8_eqb color (items, n)) as [idx [items1 n1]] eqn:Eins.
      destruct (insert_full_spec _ _ _ _ _ _ Hn Eins) as (Hn1 & (more1 & Hm1 & Hmore1) & Hnth1 & Hidx & Hn1le).
      assert (Hidx8 : Z.of_nat idx mod 256 = Z.of_nat idx) by (apply Z.mod_small; lia).
      rewrite Hidx8 in H.
      destruct (IH (i + 1) (items1, n1) _ _ _ _ _ ltac:(lia) ltac:(unfold lenZ; lia) ltac:(rewrite set_nth_length; exact Hbm) Hn1 ltac:(cbn; lia) H)
        as (A1 & A2 & (more & Hm & Hmore) & A4 & A5 & A6 & A7 & A8). cbn [fst snd] in *.
      split; [|split; [|split; [|split; [|split; [|split; [|split]]]]]]; auto.
      * intros j Hj Hu. destruct (Z.eq_dec j i) as [->|Hne].
        -- rewrite (A2 i) by lia. rewrite nthZ_set_nth by lia. rewrite Z.eqb_refl, Nat2Z.id.
           split.
           ++ rewrite Hm, nth_error_app1 by (rewrite rev_length; lia). exact Hnth1.
           ++ intros Hdc. apply A6 in Hdc. apply orb_false_iff in Hdc. destruct Hdc as [_ Hdc].
              apply negb_false_iff in Hdc. apply Z.eqb_eq in Hdc. exact Hdc.
        -- replace (Z.to_nat (j - i)) with (S (Z.to_nat (j - (i + 1)))) in Hu by lia. cbn [nth] in Hu.
           apply A1; [lia|exact Hu].
      * intros j Hj. rewrite (A2 j) by lia. rewrite nthZ_set_nth by lia. destruct (Z.eqb_spec i j); [lia|reflexivity].
      * exists (more1 ++ more). split; [rewrite Hm, Hm1, app_assoc; reflexivity|].
        intros y Hy. apply in_app_or in Hy. destruct Hy as [Hy|Hy]; [exists (Z.to_nat i); apply Hmore1; exact Hy|apply Hmore; exact Hy].
      * intros Hdc. apply A6 in Hdc. apply orb_false_iff in Hdc. tauto.
      * intros Hok. apply A8. clear -Hok Hidx Hle Hi Hlen Hn1le.
        assert (Hb : byte_ok (Z.of_nat idx)) by (unfold byte_ok; lia).
        revert Hok. generalize (Z.to_nat i). intros k Hok. revert k. induction Hok as [|h tl Hh Ht IH2]; intros [|k]; cbn [set_nth]; try constructor; auto.
    + destruct (IH (i + 1) (items, n) _ _ _ _ _ ltac:(lia) ltac:(unfold lenZ; lia) Hbm Hn ltac:(cbn; lia) H)
        as (A1 & A2 & A3 & A4 & A5 & A6 & A7 & A8). cbn [fst snd] in *.
      split; [|split; [|split; [|split; [|split; [|split; [|split]]]]]]; auto.
      * intros j Hj Hu. destruct (Z.eq_dec j i) as [->|Hne].
        -- rewrite Z.sub_diag in Hu. cbn in Hu. discriminate.
        -- replace (Z.to_nat (j - i)) with (S (Z.to_nat (j - (i + 1)))) in Hu by lia. cbn [nth] in Hu. apply A1; [lia|exact Hu].
      * intros j Hj. apply A2. lia.
Qed.

Lemma nth_set_nth_true (u : list bool) k j : nth k u false = true -> nth k (set_nth j true u) false = true.
Proof.
  revert k j. induction u as [|h t IH]; intros k j H; [destruct k; discriminate|].
  destruct j as [|j], k as [|k]; cbn [set_nth nth] in *; auto.
Qed.

Lemma nth_set_nth_same (u : list bool) k : (k < length u)%nat -> nth k (set_nth k true u) false = true.
Proof. revert k. induction u as [|h t IH]; intros [|k] H; cbn [set_nth nth length] in *; try lia; auto. apply IH. lia. Qed.

Lemma used_fold_keeps data : forall u k, nth k u false = true ->
  nth k (fold_left (fun u b => set_nth (Z.to_nat b) true u) data u) false = true.
Proof. induction data as [|b t IH]; intros u k H; cbn [fold_left]; [exact H|]. apply IH. apply nth_set_nth_true. exact H. Qed.

Lemma used_fold_length data : forall u, length (fold_left (fun u b => set_nth (Z.to_nat b) true u) data u) = length u.
Proof. induction data as [|b t IH]; intros u; cbn [fold_left]; [reflexivity|]. rewrite IH, set_nth_length. reflexivity. Qed.

Lemma used_fold_in data b : forall u, length u = 256%nat -> In b data -> 0 <= b < 256 ->
  nth (Z.to_nat b) (fold_left (fun u b => set_nth (Z.to_nat b) true u) data u) false = true.
Proof.
  induction data as [|x t IH]; intros u Hu Hin Hb; [destruct Hin|]. cbn [fold_left]. destruct Hin as [->|Hin].
  - apply used_fold_keeps. apply nth_set_nth_same. lia.
  - apply IH; auto. rewrite set_nth_length. exact Hu.
Qed.

Theorem reduced_palette_sem img img' pic : wf img ->
  reduced_palette img false = Some img' -> sem img = Some pic -> sem img' = Some pic /\ wf img'.
Proof.
  intros Hwf Hred Hsem. unfold reduced_palette in Hred.
  destruct (depth (hdr img) =? 8) eqn:Ed; cbn [negb] in Hred; [|discriminate]. apply Z.eqb_eq in Ed.
  destruct (ctype (hdr img)) as [| |pal| |] eqn:Hc; try discriminate.
  remember (repeat 0 256) as init eqn:Hinit.
  destruct (condense (used_table (data img)) 0 pal false ([], 0%nat) init false) as [[set bm] dc] eqn:Econ.
  assert (Hul : length (used_table (data img)) = 256%nat) by (unfold used_table; rewrite used_fold_length; apply repeat_length).
  assert (Hinitlen : length init = 256%nat) by (subst init; apply repeat_length).
  assert (Hinitok : Forall byte_ok init) by (subst init; apply Forall_forall; intros x Hx; apply repeat_spec in Hx; subst; unfold byte_ok; lia).
  destruct (condense_spec pal (used_table (data img)) 0 ([], 0%nat) init false set bm dc ltac:(lia) ltac:(unfold lenZ; lia) Hinitlen eq_refl ltac:(cbn; lia) Econ)
    as (A1 & _ & (more & Hm & Hmore) & A4 & A5 & _ & A7 & A8).
  cbn [fst rev app] in Hm. specialize (A8 Hinitok).
  destruct Hwf as [Hok Hwfc]. pose proof Hwfc as Hwfc0. rewrite Hc in Hwfc. cbn [wf_ctype] in Hwfc. destruct Hwfc as [Hpal Hpallen].
  set (f := fun b => nthZ bm b 0).
  assert (Hused : forall b, In b (data img) -> nth_error (rev (fst set)) (Z.to_nat (f b)) = Some (nth (Z.to_nat b) pal black) /\ (dc = false -> f b = b)).
  { intros b Hb. assert (Hbr : 0 <= b < 256) by (apply (bytes_ok_in (data img)); assumption).
    apply A1; [lia|]. rewrite Z.sub_0_r. unfold used_table. apply used_fold_in; auto; apply repeat_length. }
  assert (Hgoal : sem {| hdr := with_ctype (hdr img) (Indexed (rev (fst set))); data := map f (data img) |} = Some pic /\
                  wf {| hdr := with_ctype (hdr img) (Indexed (rev (fst set))); data := map f (data img) |}).
  { apply (remap_sem img pal); auto.
    - split; [exact Hok|exact Hwfc0].
    - intros b c Hb Hn. destruct (Hused b Hb) as [H1 _]. rewrite H1. f_equal. apply nth_error_nth. exact Hn.
    - intros b _. unfold f. apply nthZ_byte. exact A8.
    - rewrite Hm. apply Forall_forall. intros y Hy. destruct (Hmore y Hy) as [j ->].
      destruct (nth_error pal j) as [c|] eqn:En.
      + rewrite (nth_error_nth _ _ _ En). eapply rgba8_in; eauto.
      + rewrite nth_overflow by (apply nth_error_None; exact En). unfold black, rgba8_ok, byte_ok. lia.
    - rewrite rev_length, <- A5. exact A4. }
  destruct dc.
  - injection Hred as <-. exact Hgoal.
  - destruct (negb (length (rev (fst set)) =? length pal)%nat); [|discriminate]. injection Hred as <-.
    assert (Hid : map f (data img) = data img).
    { rewrite <- (map_id (data img)) at 2. apply map_ext_in. intros b Hb. apply (Hused b Hb). reflexivity. }
    rewrite Hid in Hgoal. exact Hgoal.
Qed.

(* Proofs about chunk policy and chunk post-processing (C07, C14). *)
From OxiVerif Require Import Base.Common Model.Types Model.Options Model.Headers Model.PngData.
From OxiVerif Require Gen.SrcConsts.

(* the list used by the code for `--strip safe` is the list the manual documents *)
Lemma display_chunks_is_manual : DISPLAY_CHUNKS = SrcConsts.manual_safe_chunks.
Proof. reflexivity. Qed.

Lemma strip_keep_spec s name :
  strip_keep s name =
  match s with
  | StripNone => true
  | StripAll => false
  | StripSafe => existsb (cname_eqb name) SrcConsts.manual_safe_chunks
  | StripKeep l => existsb (cname_eqb name) l
  | StripStrip l => negb (existsb (cname_eqb name) l)
  end.
Proof. destruct s; reflexivity. Qed.

Definition is_critical (n : cname) : bool :=
  cname_eqb n name_IHDR || cname_eqb n name_PLTE || cname_eqb n name_tRNS || cname_eqb n name_IDAT.

Definition with_strip (o : options) (s : strip_chunks) : options :=
  {| fix_errors := fix_errors o; force := force o; filter := filter o; interlace := interlace o;
     optimize_alpha := optimize_alpha o; bit_depth_reduction := bit_depth_reduction o;
     color_type_reduction := color_type_reduction o; palette_reduction := palette_reduction o;
     grayscale_reduction := grayscale_reduction o; idat_recoding := idat_recoding o; scale_16 := scale_16 o;
     strip := s; deflate := deflate o; fast_evaluation := fast_evaluation o; has_timeout := has_timeout o |}.

(* the chunks that define the picture are dispatched before the policy is consulted *)
Theorem critical_never_stripped o s st c : is_critical (c_name c) = true ->
  from_slice_step (with_strip o s) st c = from_slice_step o st c.
Proof.
  unfold is_critical, from_slice_step. intros H.
  destruct (cname_eqb (c_name c) name_IDAT); [reflexivity|].
  destruct (cname_eqb (c_name c) name_IHDR); [reflexivity|].
  destruct (cname_eqb (c_name c) name_PLTE); [reflexivity|].
  destruct (cname_eqb (c_name c) name_tRNS); [reflexivity|].
  discriminate.
Qed.

(* a stripped ancillary chunk leaves no trace in the parser state *)
Theorem stripped_is_ignored o st c : is_critical (c_name c) = false -> strip_keep (strip o) (c_name c) = false ->
  from_slice_step o st c = Ok st.
Proof.
  unfold is_critical, from_slice_step. intros H Hk.
  destruct (cname_eqb (c_name c) name_IDAT); [cbn in H; rewrite ?orb_true_r in H; discriminate|].
  destruct (cname_eqb (c_name c) name_IHDR); [discriminate|].
  destruct (cname_eqb (c_name c) name_PLTE); [discriminate|].
  destruct (cname_eqb (c_name c) name_tRNS); [discriminate|].
  rewrite Hk. reflexivity.
Qed.

(* a kept ordinary ancillary chunk is appended unchanged (name and payload) *)
Theorem kept_is_recorded o st c : is_critical (c_name c) = false -> strip_keep (strip o) (c_name c) = true ->
  is_c2pa (c_name c) (c_data c) = false ->
  cname_eqb (c_name c) name_acTL = false ->
  cname_eqb (c_name c) name_fcTL = false -> cname_eqb (c_name c) name_fdAT = false ->
  exists st', from_slice_step o st c = Ok st' /\ fs_aux st' = c :: fs_aux st /\ fs_idat st' = fs_idat st /\ fs_frames st' = fs_frames st.
Proof.
  unfold is_critical, from_slice_step. intros H Hk Hc H0 H1 H2.
  destruct (cname_eqb (c_name c) name_IDAT); [cbn in H; rewrite ?orb_true_r in H; discriminate|].
  destruct (cname_eqb (c_name c) name_IHDR); [discriminate|].
  destruct (cname_eqb (c_name c) name_PLTE); [discriminate|].
  destruct (cname_eqb (c_name c) name_tRNS); [discriminate|].
  rewrite Hk, Hc, H0, H1, H2. cbn [orb andb]. eexists. split; [reflexivity|]. cbn. auto.
Qed.

Lemma cname_eqb_eq a b : cname_eqb a b = true -> a = b.
Proof. apply list_eqb_Z_spec. Qed.

Lemma c2pa_is_cabx n d : is_c2pa n d = true -> n = name_caBX.
Proof. unfold is_c2pa. destruct (cname_eqb n name_caBX) eqn:E; [intros _; apply cname_eqb_eq; exact E|discriminate]. Qed.

(* C2PA manifest: dropped under the default policy, an error under any other policy that keeps it *)
Theorem c2pa_policy o st c : is_critical (c_name c) = false -> is_c2pa (c_name c) (c_data c) = true ->
  from_slice_step o st c =
    if strip_keep (strip o) (c_name c) then (if strip_is_none (strip o) then Ok st else Err EC2PA) else Ok st.
Proof.
  unfold is_critical, from_slice_step. intros H Hc.
  pose proof (c2pa_is_cabx _ _ Hc) as Hn.
  destruct (cname_eqb (c_name c) name_IDAT); [cbn in H; rewrite ?orb_true_r in H; discriminate|].
  destruct (cname_eqb (c_name c) name_IHDR); [discriminate|].
  destruct (cname_eqb (c_name c) name_PLTE); [discriminate|].
  destruct (cname_eqb (c_name c) name_tRNS); [discriminate|].
  rewrite Hc. rewrite Hn. cbn [cname_eqb list_eqb name_caBX name_acTL name_fcTL name_fdAT Z.eqb Pos.eqb orb andb]. reflexivity.
Qed.

(* ---------------------------------------------------------------- postprocess_chunks *)
Definition droppable_on_format_change (n : cname) : bool :=
  cname_eqb n name_bKGD || cname_eqb n name_sBIT || cname_eqb n name_hIST.
Definition droppable_on_gray_change (n : cname) : bool := cname_eqb n name_sRGB || cname_eqb n name_iCCP.

Theorem postprocess_spec aux hd orig :
  postprocess_chunks aux hd orig =
  List.filter (fun c =>
    negb ((negb (depth orig =? depth hd) || negb (color_type_eqb (ctype orig) (ctype hd))) && droppable_on_format_change (c_name c))
    && negb (negb (Bool.eqb (is_gray (ctype orig)) (is_gray (ctype hd))) && droppable_on_gray_change (c_name c))) aux.
Proof.
  unfold postprocess_chunks, droppable_on_format_change, droppable_on_gray_change.
  destruct (negb (depth orig =? depth hd) || negb (color_type_eqb (ctype orig) (ctype hd)));
  destruct (negb (Bool.eqb (is_gray (ctype orig)) (is_gray (ctype hd)))); cbn [andb negb].
  - induction aux as [|c t IH]; cbn [List.filter]; [reflexivity|].
    destruct (cname_eqb (c_name c) name_bKGD || cname_eqb (c_name c) name_sBIT || cname_eqb (c_name c) name_hIST); cbn [negb andb].
    + exact IH.
    + cbn [List.filter]. destruct (cname_eqb (c_name c) name_sRGB || cname_eqb (c_name c) name_iCCP); cbn [negb]; [exact IH|rewrite IH; reflexivity].
  - apply filter_ext. intros c. rewrite andb_true_r. reflexivity.
  - apply filter_ext. intros c. reflexivity.
  - induction aux as [|c t IH]; cbn [List.filter]; [reflexivity|]. rewrite <- IH. reflexivity.
Qed.

(* nothing is invented, order is kept, and an unchanged format drops nothing *)
Theorem postprocess_sublist aux hd orig : forall c, In c (postprocess_chunks aux hd orig) -> In c aux.
Proof. intros c. rewrite postprocess_spec. intros H. apply filter_In in H. apply H. Qed.

Theorem postprocess_unchanged_format aux hd : postprocess_chunks aux hd hd = aux.
Proof.
  unfold postprocess_chunks. rewrite Z.eqb_refl.
  assert (E : color_type_eqb (ctype hd) (ctype hd) = true).
  { destruct (ctype hd) as [[k|]|[[[r g] b]|]|p| |]; cbn; rewrite ?Z.eqb_refl; auto.
    induction p as [|[[[r g] b] a] t IH]; cbn; auto. rewrite !Z.eqb_refl, IH. reflexivity. }
  rewrite E. cbn [negb orb]. rewrite eqb_reflx. reflexivity.
Qed.

(* ---------------------------------------------------------------- C14: preprocess_chunks *)
Definition may_replace_iccp (o : options) : bool := negb (strip_is_none (strip o)) && strip_keep (strip o) name_sRGB.

(* the exact decision taken for the ICC profile chunk *)
Inductive icc_decision :=
| IccAbsent                      (* no iCCP chunk *)
| IccDroppedForSrgb              (* removed because an sRGB chunk is present *)
| IccReplaced (intent : Z)       (* replaced by an sRGB chunk with this rendering intent *)
| IccRecompressed (c : chunk)    (* replaced by a smaller iCCP chunk *)
| IccKept.                       (* left as it is *)

Definition icc_decide (e : env) (aux : list chunk) (o : options) : icc_decision :=
  match chunk_position name_iCCP aux O with
  | None => IccAbsent
  | Some idx =>
      if may_replace_iccp o && has_chunk name_sRGB aux then IccDroppedForSrgb else
      match nth_error aux idx with
      | None => IccKept
      | Some iccp =>
          match extract_icc e iccp with
          | None => IccKept
          | Some icc =>
              match (if may_replace_iccp o then srgb_rendering_intent icc else None) with
              | Some i => IccReplaced i
              | None =>
                  if idat_recoding o then
                    match make_iccp e icc (deflate o) (Some (lenZ (c_data iccp) - 1)) with
                    | Ok n => IccRecompressed n
                    | _ => IccKept
                    end
                  else IccKept
              end
          end
      end
  end.

Definition apply_icc_decision (aux : list chunk) (d : icc_decision) : list chunk :=
  match d, chunk_position name_iCCP aux O with
  | IccDroppedForSrgb, Some idx => remove_nth_chunk idx aux
  | IccReplaced i, Some idx => set_nth idx {| c_name := name_sRGB; c_data := [i] |} aux
  | IccRecompressed n, Some idx => set_nth idx n aux
  | _, _ => aux
  end.

(* grayscale conversions stay allowed exactly in these situations *)
Definition gray_allowed (e : env) (aux : list chunk) (o : options) : bool :=
  match icc_decide e aux o with
  | IccAbsent => negb (has_chunk name_sRGB aux) || negb (strip_is_none (strip o))
  | IccDroppedForSrgb | IccReplaced _ => true
  | IccRecompressed _ | IccKept => false
  end.

Theorem preprocess_chunks_spec e aux o :
  fst (preprocess_chunks e aux o) = apply_icc_decision aux (icc_decide e aux o) /\
  let o' := snd (preprocess_chunks e aux o) in
  let apng := has_chunk name_acTL (apply_icc_decision aux (icc_decide e aux o)) in
  grayscale_reduction o' = (grayscale_reduction o && gray_allowed e aux o && negb apng) /\
  bit_depth_reduction o' = (bit_depth_reduction o && negb apng) /\
  color_type_reduction o' = (color_type_reduction o && negb apng) /\
  palette_reduction o' = (palette_reduction o && negb apng) /\
  interlace o' = (if apng then None else interlace o) /\
  strip o' = strip o /\ deflate o' = deflate o /\ idat_recoding o' = idat_recoding o /\ force o' = force o /\
  optimize_alpha o' = optimize_alpha o /\ scale_16 o' = scale_16 o /\ filter o' = filter o /\
  fast_evaluation o' = fast_evaluation o.
Proof.
  unfold preprocess_chunks, gray_allowed, icc_decide, apply_icc_decision, may_replace_iccp.
  destruct (chunk_position name_iCCP aux 0) as [idx|] eqn:Ep.
  - destruct (negb (strip_is_none (strip o)) && strip_keep (strip o) name_sRGB && has_chunk name_sRGB aux) eqn:E1.
    + cbn [fst snd]. split; [reflexivity|].
      destruct (grayscale_reduction o) eqn:Eg; cbn [negb andb];
        destruct (has_chunk name_acTL (remove_nth_chunk idx aux)); cbn; rewrite ?Eg; repeat split; rewrite ?andb_false_r, ?andb_true_r; auto.
    + destruct (nth_error aux idx) as [iccp|] eqn:En.
      * destruct (extract_icc e iccp) as [icc|] eqn:Ex.
        -- destruct (if negb (strip_is_none (strip o)) && strip_keep (strip o) name_sRGB then srgb_rendering_intent icc else None) as [i|] eqn:Ei.
           ++ cbn [fst snd]. split; [reflexivity|].
              destruct (grayscale_reduction o) eqn:Eg; cbn [negb andb];
                destruct (has_chunk name_acTL (set_nth idx {| c_name := name_sRGB; c_data := [i] |} aux)); cbn; rewrite ?Eg; repeat split; rewrite ?andb_false_r, ?andb_true_r; auto.
           ++ destruct (idat_recoding o) eqn:Er.
              ** destruct (make_iccp e icc (deflate o) (Some (lenZ (c_data iccp) - 1))) as [n|?|?] eqn:Em; cbn [fst snd];
                   (split; [reflexivity|]);
                   destruct (grayscale_reduction o) eqn:Eg; cbn [negb andb];
                   match goal with |- context [has_chunk name_acTL ?l] => destruct (has_chunk name_acTL l) end;
                   cbn; rewrite ?Eg, ?Er; repeat split; rewrite ?andb_false_r, ?andb_true_r; auto.
              ** cbn [fst snd]. split; [reflexivity|].
                 destruct (grayscale_reduction o) eqn:Eg; cbn [negb andb];
                   destruct (has_chunk name_acTL aux); cbn; rewrite ?Eg, ?Er; repeat split; rewrite ?andb_false_r, ?andb_true_r; auto.
        -- cbn [fst snd]. split; [reflexivity|].
           destruct (grayscale_reduction o) eqn:Eg; cbn [negb andb];
             destruct (has_chunk name_acTL aux); cbn; rewrite ?Eg; repeat split; rewrite ?andb_false_r, ?andb_true_r; auto.
      * cbn [fst snd]. split; [reflexivity|].
        destruct (grayscale_reduction o) eqn:Eg; cbn [negb andb];
          destruct (has_chunk name_acTL aux); cbn; rewrite ?Eg; repeat split; rewrite ?andb_false_r, ?andb_true_r; auto.
  - cbn [fst snd]. split; [reflexivity|].
    destruct (negb (has_chunk name_sRGB aux) || negb (strip_is_none (strip o))) eqn:Ea;
      destruct (grayscale_reduction o) eqn:Eg; cbn [negb andb];
      destruct (has_chunk name_acTL aux); cbn; rewrite ?Eg; repeat split; rewrite ?andb_false_r, ?andb_true_r; auto.
Qed.


Lemma chunk_position_spec name l : forall k idx, chunk_position name l k = Some idx ->
  (k <= idx)%nat /\ exists c, nth_error l (idx - k) = Some c /\ cname_eqb (c_name c) name = true.
Proof.
  induction l as [|c t IH]; intros k idx H; cbn [chunk_position] in H; [discriminate|].
  destruct (cname_eqb (c_name c) name) eqn:E.
  - injection H as <-. split; [lia|]. exists c. rewrite Nat.sub_diag. auto.
  - destruct (IH (S k) idx H) as [Hle [c' [Hn Hc]]]. split; [lia|]. exists c'.
    replace (idx - k)%nat with (S (idx - S k)) by lia. auto.
Qed.

(* corollaries in the words of C14 *)

(* an ICC profile is replaced by an sRGB chunk only when stripping is enabled, sRGB chunks are kept
   and the profile is a recognised sRGB profile; the new chunk carries the profile's rendering intent *)
Theorem icc_replaced_only_if e aux o i : icc_decide e aux o = IccReplaced i ->
  strip_is_none (strip o) = false /\ strip_keep (strip o) name_sRGB = true /\
  exists iccp icc, In iccp aux /\ cname_eqb (c_name iccp) name_iCCP = true /\ extract_icc e iccp = Some icc /\
                   srgb_rendering_intent icc = Some i /\ nth_error icc 67 = Some i.
Proof.
  unfold icc_decide. intros H.
  destruct (chunk_position name_iCCP aux 0) as [idx|] eqn:Ep; [|discriminate].
  destruct (may_replace_iccp o && has_chunk name_sRGB aux); [discriminate|].
  destruct (chunk_position_spec _ _ _ _ Ep) as [_ [c0 [Hn0 Hc0]]]. rewrite Nat.sub_0_r in Hn0. rewrite Hn0 in H.
  destruct (extract_icc e c0) as [icc|] eqn:Ex; [|discriminate].
  destruct (may_replace_iccp o) eqn:Em.
  - destruct (srgb_rendering_intent icc) as [j|] eqn:Es.
    + injection H as <-. unfold may_replace_iccp in Em. apply andb_true_iff in Em. destruct Em as [A B].
      split; [destruct (strip_is_none (strip o)); [discriminate|reflexivity]|]. split; [exact B|].
      exists c0, icc. split; [eapply nth_error_In; eauto|]. split; [exact Hc0|]. split; [exact Ex|]. split; [exact Es|].
      unfold srgb_rendering_intent in Es. destruct (nth_error icc 67) as [v|]; [|discriminate].
      repeat match type of Es with context [if ?c then _ else _] => destruct c end; try discriminate; injection Es as <-; reflexivity.
    + destruct (idat_recoding o); [destruct (make_iccp _ _ _ _)|]; discriminate.
  - destruct (idat_recoding o); [destruct (make_iccp _ _ _ _)|]; discriminate.
Qed.

(* … or dropped in favour of an sRGB chunk already present, under the same conditions *)
Theorem icc_dropped_only_if e aux o : icc_decide e aux o = IccDroppedForSrgb ->
  strip_is_none (strip o) = false /\ strip_keep (strip o) name_sRGB = true /\ has_chunk name_sRGB aux = true.
Proof.
  unfold icc_decide. intros H.
  destruct (chunk_position name_iCCP aux 0) as [idx|]; [|discriminate].
  destruct (may_replace_iccp o && has_chunk name_sRGB aux) eqn:E.
  - unfold may_replace_iccp in E. apply andb_true_iff in E. destruct E as [E1 E2]. apply andb_true_iff in E1. destruct E1 as [A B].
    split; [destruct (strip_is_none (strip o)); [discriminate|reflexivity]|]. auto.
  - destruct (nth_error aux idx) as [c|]; [|discriminate].
    destruct (extract_icc e c) as [icc|]; [|discriminate].
    destruct (if may_replace_iccp o then srgb_rendering_intent icc else None); [discriminate|].
    destruct (idat_recoding o); [destruct (make_iccp _ _ _ _)|]; discriminate.
Qed.

(* an image carrying an ICC profile that is kept (as is or recompressed) is never converted
   between grayscale and colour *)
Theorem icc_kept_no_gray_change e aux o :
  (icc_decide e aux o = IccKept \/ exists c, icc_decide e aux o = IccRecompressed c) ->
  grayscale_reduction (snd (preprocess_chunks e aux o)) = false.
Proof.
  intros H. destruct (preprocess_chunks_spec e aux o) as [_ (Hg & _)]. cbn zeta in Hg. rewrite Hg.
  unfold gray_allowed. destruct H as [-> | [c ->]]; rewrite andb_false_r; reflexivity.
Qed.

(* an image tagged sRGB (and no ICC profile) may be converted only if stripping is enabled *)
Theorem srgb_gray_change_only_if_strip e aux o :
  chunk_position name_iCCP aux O = None -> has_chunk name_sRGB aux = true -> strip_is_none (strip o) = true ->
  grayscale_reduction (snd (preprocess_chunks e aux o)) = false.
Proof.
  intros Hn Hs Hst. destruct (preprocess_chunks_spec e aux o) as [_ (Hg & _)]. cbn zeta in Hg. rewrite Hg.
  unfold gray_allowed, icc_decide. rewrite Hn, Hs, Hst. cbn. rewrite andb_false_r. reflexivity.
Qed.

(* a recompressed profile inflates to the identical profile bytes, for any zlib oracle whose inflate
   inverts its deflate *)
Theorem iccp_recompressed_same_profile e icc d mx c :
  (forall dd x n, lenZ x <= n -> z_inflate e (z_deflate e dd x) n = Ok x) ->
  lenZ icc <= lenZ (z_deflate e d icc) * 2 + 1000 ->
  make_iccp e icc d mx = Ok c -> extract_icc e c = Some icc /\ c_name c = name_iCCP.
Proof.
  intros Hz Hlen H. unfold make_iccp, deflate_capped in H.
  destruct mx as [m|].
  - destruct (m <? lenZ (z_deflate e d icc)); cbn [bind] in H; [discriminate|]. injection H as <-. cbn.
    unfold extract_icc. cbn. rewrite Hz by exact Hlen. auto.
  - cbn [bind] in H. injection H as <-. cbn. unfold extract_icc. cbn. rewrite Hz by exact Hlen. auto.
Qed.

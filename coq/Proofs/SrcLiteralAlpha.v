(* A numeric literal that the model repeats as a literal, tied to the source on every run: Gen/SrcConsts.v is regenerated from /repo
   and the equation below is between the regenerated value and the literal used in Model/. A change of the literal in the code
   breaks this file (the model no longer describes the code), and with it the property file that imports it. *)
From OxiVerif Require Import Base.Common.
From OxiVerif Require Gen.SrcConsts.
Local Open Scope Z_scope.

(* src/reduction/mod.rs: a reduced alpha channel with a colour key is only a candidate if it saves at most this much *)
Lemma alpha_trns_margin_is_source : SrcConsts.src_alpha_trns_margin = 1000.
Proof. reflexivity. Qed.

(* C19, foreign files: oxipng's own reconstruction of a whole filtered image (unfilter_image: scan lines with their filter bytes,
   reference line reset per pass) agrees with the specification's un-filtering of a (possibly interlaced) image; hence an image
   built by PngImage::new means what the specification's decoder makes of the inflated stream. *)
From OxiVerif Require Import Base.Common Spec.Filter Spec.Adam7 Spec.Sem Spec.Decode Model.Types Model.Options Model.ScanLines Model.Filters
  Proofs.Bridge Proofs.ScanProofs Proofs.ImageLift Proofs.LiftReductions Proofs.LiftColor Proofs.LiftLines Proofs.FilterProofs Proofs.FilterImage Proofs.FilterStream.
Local Open Scope Z_scope.

Section Unf.
Variable bpp : nat.
Hypothesis Hbpp : (1 <= bpp)%nat.
(* every scan line of one pass has the same length *)
Variable nlen : option Z -> nat.

Definition ust_rel (st : ui_state) (sst : option (option Z * list Z)) : Prop :=
  bytes_ok (ui_last_line st) /\
  match sst with
  | None => ui_last_line st = []
  | Some (p, l) => ui_last_pass st = p /\ ui_last_line st = l /\ length l = nlen p
  end.

Lemma resize0_nil n : resize0 [] n = repeat 0 n.
Proof. unfold resize0. rewrite firstn_nil. cbn [length app]. rewrite Nat.sub_0_r. reflexivity. Qed.

Lemma resize0_same l : resize0 l (length l) = l.
Proof. unfold resize0. rewrite firstn_all, Nat.sub_diag. cbn [repeat]. apply app_nil_r. Qed.

Lemma filter_of_code_std c f : filter_of_code c = Some f -> is_standard f = true -> 0 <= c <= 4 /\ filter_code f = c.
Proof.
  unfold filter_of_code. intros H Hs.
  destruct c as [|p|p]; try discriminate; [injection H as <-; cbn; lia|].
  do 4 (destruct p as [p|p|]; try discriminate; try (injection H as <-; cbn in *; try discriminate; lia)).
Qed.

Lemma unfilter_step_spec st sst line st' : ust_rel st sst ->
  bytes_ok (l_data line) -> length (l_data line) = nlen (l_pass line) ->
  unfilter_image_step bpp st line = Ok st' ->
  exists u, ui_out st' = u :: ui_out st /\ 0 <= l_filter line <= 4 /\
    u = spec_recon_line bpp (l_filter line) (l_data line) (same_pass_prev sst (l_pass line) (length (l_data line))) /\
    ust_rel st' (Some (l_pass line, u)).
Proof.
  intros [Hlb R] Hok Hlen H. unfold unfilter_image_step in H.
  set (n := length (l_data line)) in *.
  set (last := resize0 (if negb (opt_Z_eqb (ui_last_pass st) (l_pass line)) then [] else ui_last_line st) n) in *.
  assert (Hlast : last = same_pass_prev sst (l_pass line) n /\ length last = n /\ bytes_ok last).
  { unfold last, same_pass_prev. destruct sst as [[p l]|].
    - destruct R as (Ep & El & Hl). rewrite Ep, El, opt_Z_eqb_spec.
      destruct (match p, l_pass line with Some a, Some b => a =? b | None, None => true | _, _ => false end) eqn:Esame; cbn [negb andb].
      + assert (Epl : p = l_pass line).
        { destruct p as [a|], (l_pass line) as [b|]; try discriminate; [apply Z.eqb_eq in Esame; subst; reflexivity|reflexivity]. }
        assert (Hn : length l = n) by (rewrite Hl, Epl; symmetry; exact Hlen).
        rewrite <- Hn, resize0_same, Nat.eqb_refl. repeat split; auto. rewrite <- El. exact Hlb.
      + rewrite resize0_nil. repeat split; [apply repeat_length|apply bytes_ok_zeros].
    - cbn in R. rewrite R. destruct (negb _); rewrite resize0_nil; repeat split; try apply repeat_length; apply bytes_ok_zeros. }
  destruct Hlast as (Elast & Hll & Hlok).
  destruct (filter_of_code (l_filter line)) as [f|] eqn:Ef; [|discriminate].
  destruct (unfilter_line f bpp (l_data line) last) as [u|?|?] eqn:Eu; cbn [bind] in H; try discriminate. injection H as <-.
  (* the model accepted the line: the filter is a standard one and the line is long enough *)
  unfold unfilter_line in Eu. fold n in Eu.
  destruct (Nat.ltb_spec n bpp) as [|Hge]; [discriminate|].
  rewrite Hll, Nat.eqb_refl in Eu. cbn [negb] in Eu. destruct bpp as [|b'] eqn:Eb; [lia|]. rewrite <- Eb in *.
  destruct (is_standard f) eqn:Es; [|discriminate].
  destruct (filter_of_code_std _ _ Ef Es) as [Hr Hc].
  assert (Eu' : unfilter_line f bpp (l_data line) last = Ok (spec_recon_line bpp (filter_code f) (l_data line) last)).
  { apply unfilter_line_is_spec; auto. }
  unfold unfilter_line in Eu'. fold n in Eu'. destruct (Nat.ltb_spec n bpp); [lia|]. rewrite Hll, Nat.eqb_refl in Eu'. cbn [negb] in Eu'.
  rewrite Eb in Eu', Eu. rewrite Es in Eu'. rewrite Eu in Eu'. injection Eu' as ->. rewrite <- Eb.
  eexists. split; [reflexivity|]. split; [exact Hr|]. rewrite Hc, Elast. split; [reflexivity|].
  split; cbn [ui_last_line ui_last_pass].
  - unfold spec_recon_line. apply recon_go_bytes.
  - split; [reflexivity|]. split; [reflexivity|]. unfold spec_recon_line. rewrite recon_go_length; [exact Hlen|].
    rewrite <- Elast. exact Hll.
Qed.

Lemma unfilter_go_spec : forall lines st sst st', ust_rel st sst ->
  Forall (fun l => bytes_ok (l_data l) /\ length (l_data l) = nlen (l_pass l)) lines ->
  unfilter_image_go bpp st lines = Ok st' ->
  exists us, ui_out st' = rev us ++ ui_out st /\
    spec_recon_seq bpp sst (map (fun l => (l_pass l, l_filter l :: l_data l)) lines) = Some us.
Proof.
  induction lines as [|l t IH]; intros st sst st' R Hall H; cbn [unfilter_image_go] in H.
  - injection H as <-. exists []. split; reflexivity.
  - inversion Hall as [|? ? [Hok Hlen] Hall']; subst.
    destruct (unfilter_image_step bpp st l) as [st1|?|?] eqn:Es; cbn [bind] in H; try discriminate.
    destruct (unfilter_step_spec _ _ _ _ R Hok Hlen Es) as (u & Eout & Hft & Eu & R1).
    destruct (IH _ _ _ R1 Hall' H) as (us & Eout' & Hseq).
    exists (u :: us). split.
    + rewrite Eout', Eout. cbn [rev]. rewrite <- app_assoc. reflexivity.
    + cbn [map spec_recon_seq].
      assert (E : (0 <=? l_filter l) && (l_filter l <=? 4) = true) by (apply andb_true_iff; split; apply Z.leb_le; lia).
      rewrite E, <- Eu, Hseq. reflexivity.
Qed.
End Unf.

(* ---------------------------------------------------------------- the filtered scan lines of the model are the specification's rows *)
Definition fline (lay : option Z * Z * Z) (row : option Z * list Z) : scanline :=
  {| l_filter := hd 0 (snd row); l_data := tl (snd row); l_pass := fst (fst lay); l_npix := snd (fst lay) |}.

Lemma cut_both (L : list (option Z * Z * Z)) : forall data, Forall (fun lay => 1 <= snd lay) L ->
  lenZ data = sumZ (map (fun l => snd l + 1) L) ->
  exists rows, cut_filtered L data = Some rows /\ length rows = length L /\
    cut_lines true (map (fun l => (snd l + 1, fst (fst l), snd (fst l))) L) data = Ok (map (fun lr => fline (fst lr) (snd lr)) (combine L rows)) /\
    Forall2 (fun lay row => fst row = fst (fst lay) /\ length (snd row) = S (Z.to_nat (snd lay))) L rows.
Proof.
  induction L as [|[[p n] nb] t IH]; intros data Hpos Hlen; cbn [map sumZ fold_right] in Hlen.
  - unfold lenZ in Hlen. destruct data; [|cbn in Hlen; lia]. exists []. cbn. repeat split; constructor.
  - pose proof (Forall_inv Hpos) as Hnb. cbn [snd] in Hnb. pose proof (Forall_inv_tail Hpos) as Hpos'.
    assert (Hsum : 0 <= sumZ (map (fun l => snd l + 1) t)).
    { clear -Hpos'. induction Hpos' as [|x l Hx _ IH]; cbn [map sumZ fold_right]; [lia|]. unfold sumZ in IH. lia. }
    cbn [snd] in Hlen. unfold lenZ in Hlen. unfold sumZ in Hlen, Hsum.
    destruct (IH (skipn (S (Z.to_nat nb)) data) Hpos' ltac:(unfold lenZ, sumZ; rewrite skipn_length; lia)) as (rows & Ec & Hl & Ecl & F2).
    exists ((p, firstn (S (Z.to_nat nb)) data) :: rows). cbn [cut_filtered map cut_lines combine fst snd andb].
    destruct (Nat.ltb_spec (length data) (S (Z.to_nat nb))) as [|_]; [lia|]. rewrite Ec.
    destruct (Z.leb_spec (nb + 1) 1) as [|_]; [lia|].
    replace (Z.to_nat (nb + 1)) with (S (Z.to_nat nb)) by lia.
    destruct (Nat.ltb_spec (length data) (S (Z.to_nat nb))) as [|Hge]; [lia|].
    destruct (firstn (S (Z.to_nat nb)) data) as [|f d] eqn:Ef.
    { apply (f_equal (@length Z)) in Ef. rewrite firstn_length in Ef. cbn [length] in Ef. lia. }
    rewrite Ecl. cbn [bind]. split; [reflexivity|]. split; [cbn; lia|]. split; [reflexivity|].
    constructor; [|exact F2]. cbn [fst snd]. split; [reflexivity|]. rewrite <- Ef, firstn_length. lia.
Qed.

Theorem unfilter_image_is_spec (hd : ihdr) (stream d : list Z) :
  1 <= width hd -> 1 <= height hd -> 1 <= bpp hd ->
  depth_legal (spec_color_of (ctype hd)) (depth hd) = true ->
  bytes_ok stream ->
  lenZ stream = spec_raw_size (width hd) (height hd) (bpp hd) (interlaced hd) true ->
  unfilter_image {| hdr := hd; data := stream |} = Ok d ->
  spec_unfilter (width hd) (height hd) (bpp hd) (interlaced hd) stream = Some d.
Proof.
  intros Hw Hh Hb Hlegal Hok Hlen H. unfold unfilter_image, scan_lines in H. cbn [hdr data] in H. rewrite Hlen in H.
  set (L := spec_layout (width hd) (height hd) (bpp hd) (interlaced hd)).
  assert (Hranges : scan_ranges hd true (spec_raw_size (width hd) (height hd) (bpp hd) (interlaced hd) true)
                    = Ok (map (fun l => (snd l + 1, fst (fst l), snd (fst l))) L)).
  { destruct (interlaced hd) eqn:Eil; [rewrite (scan_ranges_interlaced_spec hd true Hw Hh Hb Eil)|rewrite (scan_ranges_plain_spec hd true Hw Hh Hb Eil)]; reflexivity. }
  rewrite Hranges in H. cbn [bind] in H.
  assert (HLpos : Forall (fun lay => 1 <= snd lay) L).
  { unfold L. rewrite spec_layout_pix. apply Forall_forall. intros lay Hin. apply in_map_iff in Hin. destruct Hin as [pn [<- Hpn]]. cbn [snd].
    assert (Hn : 1 <= snd pn).
    { unfold pix_layout in Hpn. destruct (interlaced hd).
      - apply in_map_iff in Hpn. destruct Hpn as [o [<- Ho]]. cbn [snd]. pose proof (spec_lines_pos _ _ Hw Hh) as P. rewrite Forall_forall in P. apply P. exact Ho.
      - apply repeat_spec in Hpn. subst. exact Hw. }
    unfold line_bytes, cdiv. apply Z.div_le_lower_bound; nia. }
  assert (Hsum : lenZ stream = sumZ (map (fun l => snd l + 1) L)).
  { rewrite Hlen. unfold spec_raw_size. fold L. reflexivity. }
  destruct (cut_both L stream HLpos Hsum) as (rows & Ecf & Hrl & Ecl & F2).
  rewrite Ecl in H. cbn [bind] in H.
  match type of H with bind ?X _ = _ => destruct X as [st|?|?] eqn:Ego end; cbn [bind] in H; try discriminate. injection H as <-.
  (* per-pass line lengths *)
  set (nlen := fun p : option Z => match p with
                                  | Some q => Z.to_nat (line_bytes (bpp hd) (pw (width hd) q))
                                  | None => Z.to_nat (line_bytes (bpp hd) (width hd)) end).
  assert (Hbb : (1 <= bpp_bytes {| hdr := hd; data := stream |})%nat).
  { rewrite (bpp_bytes_filter_bpp {| hdr := hd; data := stream |} Hlegal). unfold filter_bpp. lia. }
  assert (Hall : Forall (fun l => bytes_ok (l_data l) /\ length (l_data l) = nlen (l_pass l)) (map (fun lr => fline (fst lr) (snd lr)) (combine L rows))).
  { apply Forall_forall. intros sl Hsl. apply in_map_iff in Hsl. destruct Hsl as [[lay row] [<- Hin]]. cbn [fline fst snd l_data l_pass].
    assert (Hrow : fst row = fst (fst lay) /\ length (snd row) = S (Z.to_nat (snd lay)) /\ In lay L /\ In row rows).
    { clear -F2 Hin. revert Hin. induction F2 as [|l0 r0 Lt Rt [H1 H2] _ IH]; intros Hin; cbn [combine] in Hin; [destruct Hin|].
      destruct Hin as [E|Hin]; [injection E as <- <-; repeat split; auto; left; reflexivity|].
      destruct (IH Hin) as (A & B & C & D). repeat split; auto; right; auto. }
    destruct Hrow as (Hp & Hl & HinL & HinR). split.
    - assert (Hrok : bytes_ok (snd row)).
      { (* rows are pieces of the stream *)
        clear -Ecf Hok HinR. revert stream rows Ecf Hok HinR. induction L as [|[[p n] nb] t IH]; intros stream rows Ecf Hok HinR; cbn [cut_filtered] in Ecf.
        - destruct stream; [injection Ecf as <-; destruct HinR|discriminate].
        - destruct (length stream <? S (Z.to_nat nb))%nat; [discriminate|].
          destruct (cut_filtered t (skipn (S (Z.to_nat nb)) stream)) as [r|] eqn:E; [|discriminate]. injection Ecf as <-.
          destruct HinR as [<-|HinR]; [unfold snd; apply (bytes_ok_firstn (S (Z.to_nat nb))); exact Hok|]. eapply IH; eauto. apply bytes_ok_skipn. exact Hok. }
      destruct (snd row); [constructor|]. cbn [tl]. apply bytes_ok_cons in Hrok. tauto.
    - assert (Htl : length (tl (snd row)) = Z.to_nat (snd lay)) by (destruct (snd row); cbn in *; lia).
      rewrite Htl. unfold L in HinL. rewrite spec_layout_pix in HinL. apply in_map_iff in HinL. destruct HinL as [pn [<- Hpn]]. cbn [fst snd nlen].
      unfold pix_layout in Hpn. destruct (interlaced hd).
      + apply in_map_iff in Hpn. destruct Hpn as [[q m] [<- Ho]]. cbn [fst snd].
        unfold spec_lines in Ho. apply in_flat_map in Ho. destruct Ho as [q' [_ Ho]]. unfold spec_pass_lines in Ho.
        destruct (pw (width hd) q' =? 0); [destruct Ho|]. apply repeat_spec in Ho. injection Ho as -> ->. reflexivity.
      + apply repeat_spec in Hpn. subst pn. reflexivity. }
  assert (R0 : ust_rel nlen {| ui_out := []; ui_last_line := []; ui_last_pass := None |} None) by (split; [constructor|reflexivity]).
  destruct (unfilter_go_spec _ Hbb nlen _ _ _ _ R0 Hall Ego) as (us & Eout & Hseq).
  cbn [ui_out] in Eout. rewrite app_nil_r in Eout. rewrite Eout, rev_involutive.
  unfold spec_unfilter. destruct (Z.leb_spec (width hd) 0); [lia|]. destruct (Z.leb_spec (height hd) 0); [lia|]. destruct (Z.leb_spec (bpp hd) 0); [lia|]. cbn [orb].
  fold L. rewrite Ecf.
  assert (Erows : map (fun l => (l_pass l, l_filter l :: l_data l)) (map (fun lr => fline (fst lr) (snd lr)) (combine L rows)) = rows).
  { rewrite map_map. clear -F2. induction F2 as [|l0 r0 Lt Rt [H1 H2] _ IH]; cbn [combine map]; [reflexivity|]. rewrite IH. f_equal.
    cbn [fline fst snd l_pass l_filter l_data]. destruct r0 as [p row]. cbn [fst snd] in *. subst p. destruct row; [cbn in H2; lia|reflexivity]. }
  rewrite Erows in Hseq. pose proof (bpp_bytes_filter_bpp {| hdr := hd; data := stream |} Hlegal) as Eb. cbn [hdr] in Eb. rewrite <- Eb, Hseq. reflexivity.
Qed.

(* ---------------------------------------------------------------- PngImage::new: what a parsed image means *)
From OxiVerif Require Import Model.Headers Model.PngData Proofs.HeaderProofs.

Theorem png_image_new_sem (e : env) (hd : ihdr) (compressed : list Z) (img : image) :
  png_image_new e hd compressed = Ok img ->
  depth_legal (spec_color_of (ctype hd)) (depth hd) = true -> 1 <= bpp hd ->
  spec_raw_size (width hd) (height hd) (bpp hd) (interlaced hd) true <= usize_max ->
  0 <= width hd -> 0 <= height hd ->
  (* the decompressor returns bytes *)
  (forall x n y, z_inflate e x n = Ok y -> bytes_ok y) ->
  exists stream, z_inflate e compressed (raw_data_size hd) = Ok stream /\ hdr img = hd /\ bytes_ok (data img) /\
    spec_unfilter (width hd) (height hd) (bpp hd) (interlaced hd) stream = Some (data img) /\
    sem img = spec_decode_stream (width hd) (height hd) (spec_color_of (ctype hd)) (depth hd) (interlaced hd) stream.
Proof.
  intros H Hlegal Hb Husz Hw0 Hh0 Hbytes. unfold png_image_new in H.
  destruct (Z.eqb_spec (width hd) 0) as [|Hw]; [discriminate|]. destruct (Z.eqb_spec (height hd) 0) as [|Hh]; [discriminate|]. cbn [orb] in H.
  destruct (lenZ compressed <? raw_data_size hd / 1032); [discriminate|].
  destruct (z_inflate e compressed (raw_data_size hd)) as [stream|?|?] eqn:Ez; cbn [bind] in H; try discriminate.
  destruct (Z.eqb_spec (lenZ stream) (raw_data_size hd)) as [Hlen|]; [|discriminate]. cbn [negb] in H.
  destruct (unfilter_image {| hdr := hd; data := stream |}) as [d|?|?] eqn:Eu; cbn [bind] in H; try discriminate. injection H as <-.
  rewrite (raw_data_size_spec hd ltac:(lia) ltac:(lia) Hb Husz) in Hlen.
  pose proof (unfilter_image_is_spec hd stream d ltac:(lia) ltac:(lia) Hb Hlegal (Hbytes _ _ _ Ez) Hlen Eu) as Hsu.
  exists stream. split; [reflexivity|]. split; [reflexivity|]. cbn [hdr data].
  assert (Hd : bytes_ok d).
  { (* un-filtered rows are bytes *)
    unfold spec_unfilter in Hsu. destruct ((width hd <=? 0) || (height hd <=? 0) || (bpp hd <=? 0)); [discriminate|].
    destruct (cut_filtered _ stream) as [rows|]; [|discriminate].
    destruct (spec_recon_seq (filter_bpp (bpp hd)) None rows) as [ls|] eqn:Es; [|discriminate]. injection Hsu as <-.
    assert (G : forall rws st ls0, spec_recon_seq (filter_bpp (bpp hd)) st rws = Some ls0 -> Forall bytes_ok ls0).
    { induction rws as [|[p [|ft dt]] t IH]; intros st ls0 Hs; cbn [spec_recon_seq] in Hs; [injection Hs as <-; constructor|discriminate|].
      destruct ((0 <=? ft) && (ft <=? 4)); [|discriminate].
      destruct (spec_recon_seq _ _ t) as [tl0|] eqn:Et; [|discriminate]. injection Hs as <-. constructor; [unfold spec_recon_line; apply recon_go_bytes|eapply IH; eauto]. }
    pose proof (G rows None ls Es) as F. unfold bytes_ok. apply Forall_forall. intros x Hx. apply in_concat in Hx. destruct Hx as [l [Hl Hx]].
    rewrite Forall_forall in F. eapply bytes_ok_in; [apply F; exact Hl|exact Hx]. }
  split; [exact Hd|]. split; [exact Hsu|].
  unfold sem, spec_decode_stream. cbn [hdr data]. rewrite spec_channels_of. fold (bpp hd). rewrite Hsu. reflexivity.
Qed.

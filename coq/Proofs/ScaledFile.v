(* C15 down to the written file: with scale_16 requested, bit-depth reduction enabled (not an APNG) and the clock not expired at the
   16->8 step, whatever optimize_raw emits for a 16-bit input means the rounded picture, and the file written decodes to it. *)
From OxiVerif Require Import Base.Common Base.Crc32 Spec.Filter Spec.Adam7 Spec.Sem Spec.Decode Spec.DecodeFile
  Model.Types Model.Options Model.Headers Model.PngData Model.Evaluate Model.Reductions Model.Optimize
  Proofs.Bridge Proofs.LiftReductions Proofs.LiftColor Proofs.ChunkProofs Proofs.HeaderProofs Proofs.RobustProofs Proofs.ApngProofs Proofs.LiftAlpha Proofs.OutputProofs Proofs.OutputDecode Proofs.EffectProofs Proofs.PipelineProofs
  Proofs.PipelineLossless Proofs.FilterImage Proofs.FilterStream Proofs.EmittedStream Proofs.FileLevel Proofs.FileToFile Proofs.InputParse Proofs.ContainerOk.
From OxiVerif Require Import Proofs.ScaledPicture Proofs.ScaledPipeline.
Local Open Scope Z_scope.

Theorem optimize_raw_scaled e o img max_size c pic :
  optimize_alpha o = false -> scale_16 o = true -> bit_depth_reduction o = true -> dl e S16to8 = false ->
  means pic img -> depth (hdr img) = 16 ->
  optimize_raw e o img max_size = Ok (Some c) -> means (scaled_picture img pic) (c_image c) /\ depth (hdr (c_image c)) <= 8.
Proof.
  intros Ha Hs Hbd Hdl Hm Hd H. apply (emitted_satisfies (fun i => means (scaled_picture img pic) i /\ depth (hdr i) <= 8) e o img max_size c); [|exact H].
  intros b evs Hpr.
  destruct (perform_reductions_scaled e o Ha Hs Hbd Hdl (scaled_picture img pic) img pic b evs Hm Hd eq_refl Hpr) as [Hb Hevs].
  split; [exact Hb|]. eapply Forall_impl; [|exact Hevs]. intros ev Hev. destruct ev; exact Hev.
Qed.

(* what is compressed into the emitted IDAT decodes to the picture the chosen image means (no alpha optimisation) *)
Theorem emitted_stream_of_means e o img max_size c pic' :
  optimize_alpha o = false -> means pic' (c_image c) ->
  optimize_raw e o img max_size = Ok (Some c) ->
  exists d stream, c_cdata c = z_deflate e d stream /\
    spec_decode_stream (width (hdr (c_image c))) (height (hdr (c_image c))) (spec_color_of (ctype (hdr (c_image c))))
                       (depth (hdr (c_image c))) (interlaced (hdr (c_image c))) stream = Some pic'.
Proof.
  intros Ha [Hwf Hsem] H.
  destruct (optimize_raw_provenance e o img max_size c Ha H) as [Hc (filtered & Hf & Hd)]. rewrite Hc in Hd. destruct Hd as [d Hd].
  exists d, filtered. split; [exact Hd|]. eapply filter_image_decodes; eauto.
Qed.

(* ---------------------------------------------------------------- acTL and the pre-processing of the chunks *)
Lemma chunk_position_split name l : forall i idx, chunk_position name l i = Some idx ->
  exists pre c post, l = pre ++ c :: post /\ idx = (i + length pre)%nat /\ cname_eqb (c_name c) name = true.
Proof.
  induction l as [|c t IH]; intros i idx H; cbn [chunk_position] in H; [discriminate|].
  destruct (cname_eqb (c_name c) name) eqn:E.
  - injection H as <-. exists [], c, t. cbn. split; [reflexivity|]. split; [lia|exact E].
  - destruct (IH _ _ H) as (pre & c' & post & -> & -> & Hc). exists (c :: pre), c', post. cbn [app length]. split; [reflexivity|]. split; [lia|exact Hc].
Qed.

Lemma set_nth_app {A} (pre : list A) c post x : set_nth (length pre) x (pre ++ c :: post) = pre ++ x :: post.
Proof. induction pre as [|h t IH]; cbn [length app set_nth]; [reflexivity|]. rewrite IH. reflexivity. Qed.

Lemma remove_nth_app (pre : list chunk) c post : remove_nth_chunk (length pre) (pre ++ c :: post) = pre ++ post.
Proof.
  unfold remove_nth_chunk. rewrite firstn_app, Nat.sub_diag, firstn_all, app_nil_r. cbn [firstn].
  replace (S (length pre)) with (length pre + 1)%nat by lia. rewrite skipn_app, skipn_all2 by lia.
  replace (length pre + 1 - length pre)%nat with 1%nat by lia. reflexivity.
Qed.

Lemma has_chunk_replace name pre c x post :
  cname_eqb (c_name c) name = false -> cname_eqb (c_name x) name = false ->
  has_chunk name (pre ++ x :: post) = has_chunk name (pre ++ c :: post).
Proof. intros Hc Hx. unfold has_chunk. rewrite !existsb_app. cbn [existsb]. rewrite Hc, Hx. reflexivity. Qed.

Lemma has_chunk_remove name pre c post :
  cname_eqb (c_name c) name = false -> has_chunk name (pre ++ post) = has_chunk name (pre ++ c :: post).
Proof. intros Hc. unfold has_chunk. rewrite !existsb_app. cbn [existsb]. rewrite Hc. reflexivity. Qed.

Lemma preprocess_keeps_actl e aux o : has_chunk name_acTL (fst (preprocess_chunks e aux o)) = has_chunk name_acTL aux.
Proof.
  destruct (preprocess_chunks_spec e aux o) as [-> _]. unfold apply_icc_decision, icc_decide.
  destruct (chunk_position name_iCCP aux 0) as [idx|] eqn:Ep; [|reflexivity].
  destruct (chunk_position_split _ _ _ _ Ep) as (pre & c & post & -> & -> & Hc). cbn [Nat.add].
  apply cname_eqb_eq in Hc.
  assert (Hn : cname_eqb (c_name c) name_acTL = false) by (rewrite Hc; reflexivity).
  destruct (may_replace_iccp o && has_chunk name_sRGB (pre ++ c :: post)).
  - rewrite remove_nth_app. apply has_chunk_remove. exact Hn.
  - destruct (nth_error (pre ++ c :: post) (length pre)) as [iccp|]; [|reflexivity].
    destruct (extract_icc e iccp) as [icc|]; [|reflexivity].
    destruct (if may_replace_iccp o then srgb_rendering_intent icc else None) as [i|].
    + rewrite set_nth_app. apply has_chunk_replace; [exact Hn|reflexivity].
    + destruct (idat_recoding o); [|reflexivity].
      destruct (make_iccp e icc (deflate o) (Some (lenZ (c_data iccp) - 1))) as [n|?|?] eqn:Em; try reflexivity.
      rewrite set_nth_app. apply has_chunk_replace; [exact Hn|].
      unfold make_iccp in Em. destruct (deflate_capped e (deflate o) icc _); cbn [bind] in Em; try discriminate. injection Em as <-. reflexivity.
Qed.

Lemma preprocess_keeps_bd e aux o : has_chunk name_acTL aux = false ->
  bit_depth_reduction (snd (preprocess_chunks e aux o)) = bit_depth_reduction o.
Proof.
  intros H. pose proof (preprocess_keeps_actl e aux o) as K. destruct (preprocess_chunks_spec e aux o) as [E (_ & Hb & _)].
  cbn zeta in Hb. rewrite Hb. rewrite <- E, K, H. cbn [negb]. apply andb_true_r.
Qed.

(* ---------------------------------------------------------------- container side conditions, for any guarantee about the emitted image *)
Theorem optimize_png_data_container_gen e o p p' N M pic :
  png_ok N p -> 0 <= N -> N + 5 <= M -> M + 4 < 2 ^ 31 -> (forall d s, lenZ (z_deflate e d s) <= M) ->
  0 <= width (hdr (raw p)) < 2 ^ 32 -> 0 <= height (hdr (raw p)) < 2 ^ 32 ->
  means pic (raw p) ->
  (forall ms c, optimize_raw e (snd (preprocess_chunks e (aux_chunks p) o)) (raw p) ms = Ok (Some c) ->
     exists pic1, means pic1 (c_image c) /\ pic_w pic1 = pic_w pic /\ pic_h pic1 = pic_h pic) ->
  optimize_png_data e p o = Ok p' -> container_ok p'.
Proof.
  intros (A & F & I) HN HM HM2 Hdefl Hw Hh Hm Hraw H. unfold optimize_png_data in H.
  pose proof (preprocess_chunks_ok e (aux_chunks p) o N HN A) as Apre.
  destruct (preprocess_chunks e (aux_chunks p) o) as [aux o'] eqn:Epre. cbn [fst snd] in *. cbn [raw idat_data aux_chunks frames] in H.
  assert (Aaux : Forall (chunk_ok M) aux) by (eapply Forall_impl; [|exact Apre]; intros c [Hn Hl]; split; [exact Hn|lia]).
  assert (Ffr : Forall (frame_ok M) (frames p)) by (eapply Forall_impl; [|exact F]; unfold frame_ok; intros f Hl; lia).
  destruct (optimize_raw e o' (raw p) _) as [r|?|?] eqn:Er; cbn [bind] in H; try discriminate.
  destruct Hm as [Hwf Hsem]. destruct (sem_dims _ _ Hsem) as [Dw Dh].
  destruct r as [c|].
  - match type of H with bind ?X _ = _ => destruct X as [fr|?|?] eqn:Efr end; cbn [bind] in H; try discriminate. injection H as <-.
    destruct (Hraw _ c Er) as (pic1 & [Hwf1 Hsem1] & Ew & Eh).
    destruct (sem_dims _ _ Hsem1) as [Dw1 Dh1].
    destruct (optimize_raw_provenance_gen e o' (raw p) _ c Er) as [Hc (al & filtered & _ & _ & Hd)]. rewrite Hc in Hd. destruct Hd as [d Hd].
    apply (container_ok_of_parts M); cbn [raw idat_data aux_chunks frames].
    + unfold png_ok. cbn [raw idat_data aux_chunks frames]. split; [apply postprocess_chunks_ok; exact Aaux|]. split; [|rewrite Hd; apply Hdefl].
      pose proof (recompress_frames_top e o' _ (c_filter c) fr Efr) as F2. cbn [frames] in F2.
      clear -F2 Ffr. induction F2 as [|a b ta tb [_ Hab] _ IH]; [constructor|]. apply Forall_cons_iff in Ffr. destruct Ffr as [Ha Hta].
      constructor; [|apply IH; exact Hta]. unfold frame_ok in *. destruct Hab as [->|Hlt]; lia.
    + exact HM2.
    + lia.
    + lia.
    + exact Hwf1.
    + apply (sem_some_legal _ _ Hsem1).
  - injection H as <-. apply (container_ok_of_parts M); cbn [raw idat_data aux_chunks frames]; auto; try lia.
    + unfold png_ok. cbn [raw idat_data aux_chunks frames]. split; [exact Aaux|split; [exact Ffr|lia]].
    + apply (sem_some_legal _ _ Hsem).
Qed.

Lemma scaled_picture_dims img pic : pic_w (scaled_picture img pic) = pic_w pic /\ pic_h (scaled_picture img pic) = pic_h pic.
Proof. split; reflexivity. Qed.

(* ---------------------------------------------------------------- what optimize_png_data builds, with scaling *)
Section ScaledFile.
Variable e : env.
Variable o : options.
Variable inflate : list Z -> option (list Z).
Hypothesis Ha : optimize_alpha o = false.
Hypothesis Hs : scale_16 o = true.
Hypothesis Hbd : bit_depth_reduction o = true.
Hypothesis Hdl : dl e S16to8 = false.
Hypothesis Hz : forall d s, inflate (z_deflate e d s) = Some s.

Theorem optimize_png_data_scaled p p' pic N M :
  png_ok N p -> 0 <= N -> N + 5 <= M -> M + 4 < 2 ^ 31 -> (forall d s, lenZ (z_deflate e d s) <= M) ->
  0 <= width (hdr (raw p)) < 2 ^ 32 -> 0 <= height (hdr (raw p)) < 2 ^ 32 ->
  means pic (raw p) -> depth (hdr (raw p)) = 16 -> has_chunk name_acTL (aux_chunks p) = false ->
  (exists stream, inflate (idat_data p) = Some stream /\
     spec_decode_stream (width (hdr (raw p))) (height (hdr (raw p))) (spec_color_of (ctype (hdr (raw p)))) (depth (hdr (raw p)))
                        (interlaced (hdr (raw p))) stream = Some pic) ->
  optimize_png_data e p o = Ok p' ->
  (* nothing was emitted: the file keeps the input's image *)
  (raw p' = raw p /\ spec_decode_png inflate (output p') = Some pic) \/
  (* or the emitted image is 8-bit and the file decodes to the rounded picture *)
  (depth (hdr (raw p')) <= 8 /\ spec_decode_png inflate (output p') = Some (scaled_picture (raw p) pic)).
Proof.
  intros Hpok HN HM HM2 Hdefl Hw Hh Hm Hd Hactl (stream & Hinf & Hdec) H.
  destruct (preprocess_keeps_lossy e (aux_chunks p) o) as [Ea Es].
  pose proof (preprocess_keeps_bd e (aux_chunks p) o Hactl) as Eb.
  assert (Hraw : forall ms c, optimize_raw e (snd (preprocess_chunks e (aux_chunks p) o)) (raw p) ms = Ok (Some c) ->
                 means (scaled_picture (raw p) pic) (c_image c) /\ depth (hdr (c_image c)) <= 8).
  { intros ms c Hc. apply (optimize_raw_scaled e (snd (preprocess_chunks e (aux_chunks p) o)) (raw p) ms c pic); auto; congruence. }
  assert (Hcont : container_ok p').
  { eapply (optimize_png_data_container_gen e o p p' N M pic); eauto.
    all: intros ms c Hc; exists (scaled_picture (raw p) pic); split; [eapply Hraw; eauto|apply scaled_picture_dims]. }
  destruct Hcont as (C1 & C2 & C3 & C4 & C5).
  unfold optimize_png_data in H.
  destruct (preprocess_chunks e (aux_chunks p) o) as [aux o'] eqn:Epre. cbn [snd] in *. cbn [raw idat_data aux_chunks frames] in H.
  destruct (optimize_raw e o' (raw p) _) as [r|?|?] eqn:Er; cbn [bind] in H; try discriminate.
  destruct r as [c|].
  - match type of H with bind ?X _ = _ => destruct X as [fr|?|?] eqn:Efr end; cbn [bind] in H; try discriminate. injection H as <-.
    right. destruct (Hraw _ c Er) as [Hmc Hd8].
    split; [exact Hd8|]. destruct (emitted_stream_of_means e o' (raw p) _ c _ ltac:(congruence) Hmc Er) as (d & st & Ed & Hdd).
      rewrite (output_decodes inflate _ C1 C2 C3 C4 C5). cbn [raw idat_data]. rewrite Ed, Hz. exact Hdd.
  - injection H as <-. left. split; [reflexivity|].
    rewrite (output_decodes inflate _ C1 C2 C3 C4 C5). cbn [raw idat_data]. rewrite Hinf. exact Hdec.
Qed.

(* file to file *)
Theorem optimize_from_memory_scaled bytes out pic nm ih rest M :
  bytes_ok bytes -> lenZ bytes + 5 <= M -> M + 4 < 2 ^ 31 -> (forall d s, lenZ (z_deflate e d s) <= M) ->
  spec_parse_png bytes = Some ((nm, ih) :: rest) ->
  spec_decode_chunks inflate ((nm, ih) :: rest) = Some pic ->
  List.filter (named spec_IHDR) rest = [] ->
  (length (List.filter (named spec_PLTE) rest) <= 1)%nat -> (length (List.filter (named spec_tRNS) rest) <= 1)%nat ->
  (forall x n y, z_inflate e x n = Ok y -> inflate x = Some y /\ bytes_ok y) ->
  (* the parsed input: address space and colour key as in the lossless theorems; 16 bits per sample, not animated *)
  (forall p, from_slice e bytes o = Ok p ->
     spec_raw_size (width (hdr (raw p))) (height (hdr (raw p))) (bpp (hdr (raw p))) (interlaced (hdr (raw p))) true <= usize_max /\
     wf_ctype (ctype (hdr (raw p))) (depth (hdr (raw p))) /\
     depth (hdr (raw p)) = 16 /\ has_chunk name_acTL (aux_chunks p) = false) ->
  optimize_from_memory e o bytes = Ok out ->
  exists p, from_slice e bytes o = Ok p /\
    (spec_decode_png inflate out = Some pic \/
     (exists p', out = output p' /\ depth (hdr (raw p')) <= 8) /\ spec_decode_png inflate out = Some (scaled_picture (raw p) pic)).
Proof.
  intros Hok HM HM2 Hdefl Hparse Hdec H1 H2 H3 Hzi Hside H. unfold optimize_from_memory in H.
  destruct (from_slice e bytes o) as [p|?|?] eqn:Ep; cbn [bind] in H; try discriminate.
  exists p. split; [reflexivity|].
  rewrite optimize_png_split in H. destruct (optimize_png_data e p o) as [p'|?|?] eqn:Eo; cbn [bind] in H; try discriminate.
  destruct (is_fully_optimized _ _ o); injection H as <-; [left; unfold spec_decode_png; rewrite Hparse; exact Hdec|].
  destruct (Hside p eq_refl) as (Hu & Hw & Hd & Hactl).
  destruct (from_slice_means e o inflate bytes p pic nm ih rest Hok Ep Hparse Hdec H1 H2 H3 Hzi Hu Hw) as (Hwf & Hsem & Hstream).
  destruct (from_slice_png_ok e o bytes p Hok Ep) as (Hpok & Hrw & Hrh).
  assert (Hm : means pic (raw p)) by (split; assumption).
  destruct (optimize_png_data_scaled p p' pic (lenZ bytes) M Hpok ltac:(unfold lenZ; lia) HM HM2 Hdefl Hrw Hrh Hm Hd Hactl Hstream Eo) as [[_ D]|[D8 D]].
  - left. exact D.
  - right. split; [exists p'; auto|exact D].
Qed.
End ScaledFile.

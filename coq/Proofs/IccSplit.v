(* C07: the ICC decision acts on the side of the image data where the first iCCP chunk stands. *)
From OxiVerif Require Import Base.Common Model.Types Model.Options Model.Headers Model.PngData Proofs.ChunkProofs Proofs.ScaledFile Proofs.ChunkFlow.
Local Open Scope Z_scope.

Lemma chunk_position_app_l name a b : forall i idx, chunk_position name a i = Some idx -> chunk_position name (a ++ b) i = Some idx.
Proof.
  induction a as [|c t IH]; intros i idx H; cbn [chunk_position app] in *; [discriminate|].
  destruct (cname_eqb (c_name c) name); [exact H|apply IH; exact H].
Qed.

Lemma chunk_position_app_r name a b : forall i, chunk_position name a i = None ->
  chunk_position name (a ++ b) i = chunk_position name b (i + length a).
Proof.
  induction a as [|c t IH]; intros i H; cbn [chunk_position app length] in *; [rewrite Nat.add_0_r; reflexivity|].
  destruct (cname_eqb (c_name c) name); [discriminate|]. rewrite IH by exact H. f_equal. lia.
Qed.

Lemma chunk_position_lt name l : forall i idx, chunk_position name l i = Some idx -> (i <= idx < i + length l)%nat.
Proof.
  induction l as [|c t IH]; intros i idx H; cbn [chunk_position length] in *; [discriminate|].
  destruct (cname_eqb (c_name c) name); [injection H as <-; lia|]. apply IH in H. lia.
Qed.

Lemma set_nth_app_l {A} (a b : list A) n x : (n < length a)%nat -> set_nth n x (a ++ b) = set_nth n x a ++ b.
Proof. revert n. induction a as [|h t IH]; intros [|n] H; cbn [length app set_nth] in *; try lia; [reflexivity|]. rewrite IH by lia. reflexivity. Qed.

Lemma set_nth_app_r {A} (a b : list A) n x : set_nth (length a + n) x (a ++ b) = a ++ set_nth n x b.
Proof. induction a as [|h t IH]; cbn [length app set_nth Nat.add]; [reflexivity|]. rewrite IH. reflexivity. Qed.

Lemma remove_nth_app_l (a b : list chunk) n : (n < length a)%nat -> remove_nth_chunk n (a ++ b) = remove_nth_chunk n a ++ b.
Proof.
  intros H. unfold remove_nth_chunk. rewrite firstn_app, skipn_app.
  replace (n - length a)%nat with 0%nat by lia. replace (S n - length a)%nat with 0%nat by lia. cbn [firstn skipn]. rewrite app_nil_r, app_assoc. reflexivity.
Qed.

Lemma remove_nth_app_r (a b : list chunk) n : remove_nth_chunk (length a + n) (a ++ b) = a ++ remove_nth_chunk n b.
Proof.
  unfold remove_nth_chunk. rewrite firstn_app, skipn_app. rewrite firstn_all2 by lia. rewrite skipn_all2 by lia.
  replace (length a + n - length a)%nat with n by lia. replace (S (length a + n) - length a)%nat with (S n) by lia. cbn [app]. rewrite app_assoc. reflexivity.
Qed.

(* the first iCCP chunk stands in the first part: the decision rewrites that part only *)
Theorem apply_icc_left a b d : chunk_position name_iCCP a 0 <> None ->
  apply_icc_decision (a ++ b) d = apply_icc_decision a d ++ b.
Proof.
  intros H. unfold apply_icc_decision. destruct (chunk_position name_iCCP a 0) as [idx|] eqn:E; [|contradiction].
  rewrite (chunk_position_app_l _ a b 0 idx E). pose proof (chunk_position_lt _ _ _ _ E) as L.
  destruct d; try reflexivity; [apply remove_nth_app_l; lia|apply set_nth_app_l; lia|apply set_nth_app_l; lia].
Qed.

Lemma chunk_position_shift name l : forall i k,
  chunk_position name l (k + i) = option_map (fun x => (k + x)%nat) (chunk_position name l i).
Proof.
  induction l as [|c t IH]; intros i k; cbn [chunk_position option_map]; [reflexivity|].
  destruct (cname_eqb (c_name c) name); [reflexivity|]. replace (S (k + i)) with (k + S i)%nat by lia. apply IH.
Qed.

(* no iCCP chunk in the first part: the decision rewrites the rest only *)
Theorem apply_icc_right a b d : chunk_position name_iCCP a 0 = None ->
  apply_icc_decision (a ++ b) d = a ++ apply_icc_decision b d.
Proof.
  intros H. unfold apply_icc_decision. rewrite (chunk_position_app_r _ a b 0 H).
  replace (0 + length a)%nat with (length a + 0)%nat by lia. rewrite chunk_position_shift.
  destruct (chunk_position name_iCCP b 0) as [idx|]; cbn [option_map]; [|destruct d; reflexivity].
  destruct d; try reflexivity; [apply remove_nth_app_r|apply set_nth_app_r|apply set_nth_app_r].
Qed.

(* so, around the marker of the image data: *)
Theorem apply_icc_around_marker pre m post d :
  apply_icc_decision (pre ++ m :: post) d =
  match chunk_position name_iCCP pre 0 with
  | Some _ => apply_icc_decision pre d ++ m :: post
  | None => if cname_eqb (c_name m) name_iCCP then apply_icc_decision (pre ++ m :: post) d
            else pre ++ m :: apply_icc_decision post d
  end.
Proof.
  destruct (chunk_position name_iCCP pre 0) as [idx|] eqn:E.
  - apply apply_icc_left. rewrite E. discriminate.
  - destruct (cname_eqb (c_name m) name_iCCP) eqn:Em; [reflexivity|].
    rewrite apply_icc_right by exact E. f_equal.
    change (m :: post) with ([m] ++ post). rewrite apply_icc_right; [reflexivity|]. cbn [chunk_position]. rewrite Em. reflexivity.
Qed.

Theorem apply_icc_around_idat pre m post d : cname_eqb (c_name m) name_IDAT = true ->
  apply_icc_decision (pre ++ m :: post) d =
  match chunk_position name_iCCP pre 0 with
  | Some _ => apply_icc_decision pre d ++ m :: post
  | None => pre ++ m :: apply_icc_decision post d
  end.
Proof.
  intros Hm. rewrite apply_icc_around_marker. apply cname_eqb_eq in Hm. rewrite Hm. change (cname_eqb name_IDAT name_iCCP) with false. reflexivity.
Qed.

(* Header effects of every transformation (C08): what each one can and cannot change. *)
From OxiVerif Require Import Base.Common Model.Types Model.Options Model.ScanLines Model.Interlace
  Model.BitDepth Model.Color Model.Palette Model.Reductions Proofs.ReductionInv.

Definition same_geom (a b : ihdr) : Prop :=
  width a = width b /\ height a = height b /\ interlaced a = interlaced b.

Definition code (i : image) : Z := png_header_code (ctype (hdr i)).
Definition grayness (i : image) : bool := is_gray (ctype (hdr i)).
Definition palette_if_indexed (i : image) : option (list rgba8) :=
  match ctype (hdr i) with Indexed p => Some p | _ => None end.

Ltac break_match_hyp H :=
  repeat match type of H with
         | context [if ?c then _ else _] => destruct c eqn:?
         | context [match ?x with _ => _ end] => destruct x eqn:?
         end.

Ltac inv_some H := try discriminate; injection H as <-.

(* ---------------------------------------------------------------- per transformation *)
Lemma eff_clean i r : cleaned_alpha_channel i = Some r -> hdr r = hdr i.
Proof. unfold cleaned_alpha_channel. intros H. destruct (negb (has_alpha (ctype (hdr i)))); inv_some H. reflexivity. Qed.

Lemma code_16_to_8 c f : png_header_code (color_type_16_to_8 c f) = png_header_code c
  /\ is_gray (color_type_16_to_8 c f) = is_gray c
  /\ (forall p, c = Indexed p -> color_type_16_to_8 c f = Indexed p).
Proof.
  destruct c as [[k|]|[[[r g] b]|]|p| |]; cbn; repeat split; auto; try (intros; discriminate).
Qed.

Lemma eff_16 i fs r : reduced_bit_depth_16_to_8 i fs = Some r ->
  same_geom (hdr r) (hdr i) /\ depth (hdr r) = 8 /\ depth (hdr i) = 16 /\ code r = code i /\ grayness r = grayness i
  /\ (forall p, palette_if_indexed i = Some p -> palette_if_indexed r = Some p).
Proof.
  unfold reduced_bit_depth_16_to_8, scaled_bit_depth_16_to_8, code, grayness, palette_if_indexed. intros H.
  destruct (depth (hdr i) =? 16) eqn:Ed; cbn [negb] in H; [|discriminate]. apply Z.eqb_eq in Ed.
  destruct fs.
  - injection H as <-. cbn.
    destruct (code_16_to_8 (ctype (hdr i)) (fun v => Some (scale_16_to_8 v))) as (A & B & C).
    repeat split; auto. intros p Hp. destruct (ctype (hdr i)) eqn:Ec; try discriminate. injection Hp as <-. rewrite (C _ eq_refl). reflexivity.
  - destruct (existsb _ _); inv_some H. cbn.
    destruct (code_16_to_8 (ctype (hdr i)) exact_16_to_8) as (A & B & C).
    repeat split; auto. intros p Hp. destruct (ctype (hdr i)) eqn:Ec; try discriminate. injection Hp as <-. rewrite (C _ eq_refl). reflexivity.
Qed.

Lemma eff_rgb_gray i r : reduced_rgb_to_grayscale i = Some r ->
  same_geom (hdr r) (hdr i) /\ depth (hdr r) = depth (hdr i) /\ is_rgb (ctype (hdr i)) = true /\ grayness r = true.
Proof.
  unfold reduced_rgb_to_grayscale, grayness. intros H.
  destruct (is_rgb (ctype (hdr i))) eqn:Er; cbn [negb] in H; [|discriminate].
  destruct (negb _); inv_some H. cbn. repeat split; auto. destruct (ctype (hdr i)); try discriminate; reflexivity.
Qed.

Lemma eff_expand i r : expanded_bit_depth_to_8 i = Ok (Some r) ->
  same_geom (hdr r) (hdr i) /\ depth (hdr r) = 8 /\ depth (hdr i) < 8 /\ code r = code i /\ grayness r = grayness i
  /\ (forall p, palette_if_indexed i = Some p -> palette_if_indexed r = Some p).
Proof.
  unfold expanded_bit_depth_to_8, code, grayness, palette_if_indexed. intros H.
  destruct (8 <=? depth (hdr i)) eqn:Ed; [discriminate|]. apply Z.leb_gt in Ed.
  destruct (scan_lines i false); cbn [bind] in H; try discriminate. injection H as <-. cbn.
  repeat split; auto; destruct (ctype (hdr i)) as [[k|]|?|?| |]; cbn; auto; intros; try discriminate; auto.
Qed.

Lemma eff_reduced_palette i oa r : reduced_palette i oa = Some r ->
  same_geom (hdr r) (hdr i) /\ depth (hdr r) = depth (hdr i) /\ code r = code i /\ grayness r = grayness i.
Proof.
  unfold reduced_palette, code, grayness. intros H.
  destruct (negb (depth (hdr i) =? 8)); [discriminate|].
  destruct (ctype (hdr i)) eqn:Ec; try discriminate.
  destruct (condense _ _ _ _ _ _ _) as [[set bm] dc].
  destruct dc; [|destruct (negb _)]; inv_some H; cbn; rewrite ?Ec; repeat split; auto.
Qed.

Lemma eff_sorted_palette i r : sorted_palette i = Ok (Some r) ->
  same_geom (hdr r) (hdr i) /\ depth (hdr r) = depth (hdr i) /\ code r = code i /\ grayness r = grayness i.
Proof.
  unfold sorted_palette, code, grayness. intros H.
  destruct (negb (depth (hdr i) =? 8)); [discriminate|].
  destruct (ctype (hdr i)) eqn:Ec; try discriminate.
  destruct (length pal <=? 1)%nat; [discriminate|].
  destruct (scan_lines i false); cbn [bind] in H; try discriminate.
  destruct (most_popular_edge_color _ _) as [kf|?|?]; cbn [bind] in H; try discriminate.
  match type of H with (let '(a, b) := ?X in _) = _ => destruct X as [first rest] end.
  destruct (is_identity _); inv_some H. cbn. rewrite ?Ec. repeat split; auto.
Qed.

Lemma eff_reorder i rm r : apply_palette_reorder i rm = Ok (Some r) ->
  same_geom (hdr r) (hdr i) /\ depth (hdr r) = depth (hdr i) /\ code r = code i /\ grayness r = grayness i.
Proof.
  unfold apply_palette_reorder, code, grayness. intros H.
  destruct (ctype (hdr i)) eqn:Ec; try discriminate.
  destruct (is_identity rm); [discriminate|]. destruct (existsb _ _); inv_some H. cbn. rewrite ?Ec. repeat split; auto.
Qed.

Lemma eff_battiato i r : sorted_palette_battiato i = Ok (Some r) ->
  same_geom (hdr r) (hdr i) /\ depth (hdr r) = depth (hdr i) /\ code r = code i /\ grayness r = grayness i.
Proof.
  unfold sorted_palette_battiato. intros H. destruct (palette_for_sort i); [|discriminate].
  destruct (scan_lines i false); cbn [bind] in H; try discriminate.
  destruct (co_occurrence_matrix _ _); cbn [bind] in H; try discriminate.
  destruct (battiato_reindex _ _); cbn [bind] in H; try discriminate.
  destruct (apply_most_popular_color _ _); cbn [bind] in H; try discriminate.
  eapply eff_reorder; eauto.
Qed.

Lemma eff_mzeng i r : sorted_palette_mzeng i = Ok (Some r) ->
  same_geom (hdr r) (hdr i) /\ depth (hdr r) = depth (hdr i) /\ code r = code i /\ grayness r = grayness i.
Proof.
  unfold sorted_palette_mzeng. intros H. destruct (palette_for_sort i); [|discriminate].
  destruct (scan_lines i false); cbn [bind] in H; try discriminate.
  destruct (co_occurrence_matrix _ _); cbn [bind] in H; try discriminate.
  destruct (mzeng_reindex _ _ _); cbn [bind] in H; try discriminate.
  destruct (apply_most_popular_color _ _); cbn [bind] in H; try discriminate.
  eapply eff_reorder; eauto.
Qed.

Lemma eff_alpha i oa r : reduced_alpha_channel i oa = Some r ->
  same_geom (hdr r) (hdr i) /\ depth (hdr r) = depth (hdr i) /\ grayness r = grayness i /\ has_alpha (ctype (hdr i)) = true.
Proof.
  unfold reduced_alpha_channel, grayness. intros H.
  destruct (has_alpha (ctype (hdr i))) eqn:Ea; cbn [negb] in H; [|discriminate].
  destruct (alpha_scan _ _ _ _ _); [discriminate|].
  match type of H with (match ?X with _ => _ end) = _ => destruct X as [trns|] end; inv_some H.
  cbn. repeat split; auto. destruct (ctype (hdr i)); try discriminate; reflexivity.
Qed.

Lemma eff_to_channels i ag oa r : indexed_to_channels i ag oa = Some r ->
  same_geom (hdr r) (hdr i) /\ depth (hdr r) = depth (hdr i) /\ (exists p, ctype (hdr i) = Indexed p)
  /\ (ag = false -> grayness r = false).
Proof.
  unfold indexed_to_channels, grayness. intros H.
  destruct (negb (depth (hdr i) =? 8)); [discriminate|].
  destruct (ctype (hdr i)) eqn:Ec; try discriminate.
  destruct (INDEXED_MAX_DIFF <? _); inv_some H. cbn. repeat split; eauto.
  intros ->. destruct (existsb _ _); reflexivity.
Qed.

Lemma eff_to_indexed i ag r : reduced_to_indexed i ag = Some r ->
  same_geom (hdr r) (hdr i) /\ depth (hdr r) = depth (hdr i) /\ is_indexed (ctype (hdr i)) = false
  /\ (exists p, ctype (hdr r) = Indexed p) /\ (ag = false -> grayness i = false).
Proof.
  unfold reduced_to_indexed, grayness. intros H.
  destruct (negb (depth (hdr i) =? 8)); [discriminate|].
  destruct (is_indexed (ctype (hdr i))) eqn:Ei; [discriminate|].
  destruct (negb ag && is_gray (ctype (hdr i))) eqn:Eg; [discriminate|].
  destruct (build_palette _ _ _ _) as [[pmap raw]|]; inv_some H. cbn. repeat split; eauto.
  intros ->. cbn in Eg. exact Eg.
Qed.

Lemma eff_8_or_less i r : reduced_bit_depth_8_or_less i = Ok (Some r) ->
  same_geom (hdr r) (hdr i) /\ code r = code i /\ grayness r = grayness i
  /\ (forall p, palette_if_indexed i = Some p -> palette_if_indexed r = Some p).
Proof.
  unfold reduced_bit_depth_8_or_less, code, grayness, palette_if_indexed. intros H.
  destruct (negb (depth (hdr i) =? 8) || negb (channels i =? 1)); [discriminate|].
  match type of H with (match ?X with _ => _ end) = _ => destruct X as [bits|] end; [|discriminate].
  destruct (scan_lines i false); cbn [bind] in H; try discriminate. injection H as <-. cbn.
  destruct (ctype (hdr i)) as [[k|]|?|?| |]; cbn; repeat split; auto; intros; try discriminate; auto.
Qed.

Lemma eff_interlace i il r : change_interlacing i il = Ok (Some r) ->
  width (hdr r) = width (hdr i) /\ height (hdr r) = height (hdr i) /\ interlaced (hdr r) = il
  /\ depth (hdr r) = depth (hdr i) /\ ctype (hdr r) = ctype (hdr i).
Proof.
  unfold change_interlacing. intros H. destruct (Bool.eqb il (interlaced (hdr i))); [discriminate|].
  destruct il.
  - unfold interlace_image in H. destruct (scan_lines i false); cbn [bind] in H; try discriminate.
    injection H as <-. cbn. auto.
  - unfold deinterlace_image in H.
    destruct (if 8 <=? bpp (hdr i) then deinterlace_bytes i else deinterlace_bits i); cbn [bind] in H; try discriminate.
    injection H as <-. cbn. auto.
Qed.

(* ---------------------------------------------------------------- pipeline level *)
Section Pipe.
Variable e : env.
Variable o : options.
Variable img : image.

(* every candidate = the baseline and everything handed to the evaluator *)
Definition all_candidates (P : image -> Prop) (baseline : image) (evs : list rd_event) : Prop :=
  P baseline /\ Forall (ev_ok P) evs.

(* width, height are never changed *)
Theorem dims_preserved baseline evs : perform_reductions e o img = Ok (baseline, evs) ->
  all_candidates (fun i => width (hdr i) = width (hdr img) /\ height (hdr i) = height (hdr img)) baseline evs.
Proof.
  apply (perform_reductions_inv _ _ (fun _ H => H)); auto.
  - intros _ i r H Hi. rewrite (eff_clean _ _ H). exact Hi.
  - intros _ i r H [A B]. destruct (eff_16 _ _ _ H) as ((G1 & G2 & _) & _). split; congruence.
  - intros _ _ i r H [A B]. destruct (eff_rgb_gray _ _ H) as ((G1 & G2 & _) & _). split; congruence.
  - intros _ i r H [A B]. destruct (eff_expand _ _ H) as ((G1 & G2 & _) & _). split; congruence.
  - intros _ i r H [A B]. destruct (eff_reduced_palette _ _ _ H) as ((G1 & G2 & _) & _). split; congruence.
  - intros _ i r H [A B]. destruct (eff_sorted_palette _ _ H) as ((G1 & G2 & _) & _). split; congruence.
  - intros _ i r H [A B]. destruct (eff_alpha _ _ _ H) as ((G1 & G2 & _) & _). split; congruence.
  - intros _ i r H [A B]. destruct (eff_to_channels _ _ _ _ H) as ((G1 & G2 & _) & _). split; congruence.
  - intros _ i red H [A B]. destruct (eff_to_indexed _ _ _ H) as ((G1 & G2 & _) & _). split; [split; congruence|].
    intros r Hs. destruct (eff_sorted_palette _ _ Hs) as ((G3 & G4 & _) & _). split; congruence.
  - intros _ i r H [A B]. destruct (eff_battiato _ _ H) as ((G1 & G2 & _) & _). split; congruence.
  - intros _ i r H [A B]. destruct (eff_mzeng _ _ H) as ((G1 & G2 & _) & _). split; congruence.
  - intros _ i r H [A B]. destruct (eff_8_or_less _ _ H) as ((G1 & G2 & _) & _). split; congruence.
  - intros il r _ H. destruct (eff_interlace _ _ _ H) as (A & B & _). auto.
Qed.

(* bit-depth changes disabled: every candidate has the input's bit depth *)
Theorem depth_preserved baseline evs : bit_depth_reduction o = false ->
  perform_reductions e o img = Ok (baseline, evs) ->
  all_candidates (fun i => depth (hdr i) = depth (hdr img)) baseline evs.
Proof.
  intros Hbd. apply (perform_reductions_inv _ _ (fun _ H => H)); auto; try (rewrite Hbd; discriminate).
  - intros _ i r H Hi. rewrite (eff_clean _ _ H). exact Hi.
  - intros _ _ i r H Hi. destruct (eff_rgb_gray _ _ H) as (_ & D & _). congruence.
  - intros _ i r H Hi. destruct (eff_reduced_palette _ _ _ H) as (_ & D & _). congruence.
  - intros _ i r H Hi. destruct (eff_sorted_palette _ _ H) as (_ & D & _). congruence.
  - intros _ i r H Hi. destruct (eff_alpha _ _ _ H) as (_ & D & _). congruence.
  - intros _ i r H Hi. destruct (eff_to_channels _ _ _ _ H) as (_ & D & _). congruence.
  - intros _ i red H Hi. destruct (eff_to_indexed _ _ _ H) as (_ & D & _). split; [congruence|].
    intros r Hs. destruct (eff_sorted_palette _ _ Hs) as (_ & D2 & _). congruence.
  - intros _ i r H Hi. destruct (eff_battiato _ _ H) as (_ & D & _). congruence.
  - intros _ i r H Hi. destruct (eff_mzeng _ _ H) as (_ & D & _). congruence.
  - intros il r _ H. destruct (eff_interlace _ _ _ H) as (_ & _ & _ & D & _). exact D.
Qed.

(* colour-type changes disabled: the colour type code (0,2,3,4,6) never changes *)
Theorem color_type_preserved baseline evs : color_type_reduction o = false ->
  perform_reductions e o img = Ok (baseline, evs) ->
  all_candidates (fun i => code i = code img) baseline evs.
Proof.
  intros Hct. apply (perform_reductions_inv _ _ (fun _ H => H)); auto; try (rewrite Hct; discriminate).
  - intros _ i r H Hi. unfold code. rewrite (eff_clean _ _ H). exact Hi.
  - intros _ i r H Hi. destruct (eff_16 _ _ _ H) as (_ & _ & _ & C & _). congruence.
  - intros _ i r H Hi. destruct (eff_expand _ _ H) as (_ & _ & _ & C & _). congruence.
  - intros _ i r H Hi. destruct (eff_reduced_palette _ _ _ H) as (_ & _ & C & _). congruence.
  - intros _ i r H Hi. destruct (eff_sorted_palette _ _ H) as (_ & _ & C & _). congruence.
  - intros _ i r H Hi. destruct (eff_battiato _ _ H) as (_ & _ & C & _). congruence.
  - intros _ i r H Hi. destruct (eff_mzeng _ _ H) as (_ & _ & C & _). congruence.
  - intros _ i r H Hi. destruct (eff_8_or_less _ _ H) as (_ & C & _). congruence.
  - intros il r _ H. destruct (eff_interlace _ _ _ H) as (_ & _ & _ & _ & C). unfold code. rewrite C. reflexivity.
Qed.

(* grayscale changes disabled: no candidate moves between grayscale and colour *)
Theorem grayness_preserved baseline evs : grayscale_reduction o = false ->
  perform_reductions e o img = Ok (baseline, evs) ->
  all_candidates (fun i => grayness i = grayness img) baseline evs.
Proof.
  intros Hg. apply (perform_reductions_inv _ _ (fun _ H => H)); auto; try (rewrite Hg; discriminate).
  - intros _ i r H Hi. unfold grayness. rewrite (eff_clean _ _ H). exact Hi.
  - intros _ i r H Hi. destruct (eff_16 _ _ _ H) as (_ & _ & _ & _ & G & _). congruence.
  - intros _ i r H Hi. destruct (eff_expand _ _ H) as (_ & _ & _ & _ & G & _). congruence.
  - intros _ i r H Hi. destruct (eff_reduced_palette _ _ _ H) as (_ & _ & _ & G). congruence.
  - intros _ i r H Hi. destruct (eff_sorted_palette _ _ H) as (_ & _ & _ & G). congruence.
  - intros _ i r H Hi. destruct (eff_alpha _ _ _ H) as (_ & _ & G & _). congruence.
  - intros _ i r H Hi. rewrite Hg in H. destruct (eff_to_channels _ _ _ _ H) as (_ & _ & [p Hp] & G).
    rewrite (G eq_refl). rewrite <- Hi. unfold grayness. rewrite Hp. reflexivity.
  - intros _ i red H Hi. rewrite Hg in H. destruct (eff_to_indexed _ _ _ H) as (_ & _ & _ & [p Hp] & G).
    assert (Hr : grayness red = grayness img) by (rewrite <- Hi; rewrite (G eq_refl); unfold grayness; rewrite Hp; reflexivity).
    split; [exact Hr|]. intros r Hs. destruct (eff_sorted_palette _ _ Hs) as (_ & _ & _ & G2). congruence.
  - intros _ i r H Hi. destruct (eff_battiato _ _ H) as (_ & _ & _ & G). congruence.
  - intros _ i r H Hi. destruct (eff_mzeng _ _ H) as (_ & _ & _ & G). congruence.
  - intros _ i r H Hi. destruct (eff_8_or_less _ _ H) as (_ & _ & G & _). congruence.
  - intros il r _ H. destruct (eff_interlace _ _ _ H) as (_ & _ & _ & _ & C). unfold grayness. rewrite C. reflexivity.
Qed.

(* 'keep' interlacing: the interlace flag never changes; a requested mode is the mode of every candidate *)
Theorem interlace_kept baseline evs : interlace o = None ->
  perform_reductions e o img = Ok (baseline, evs) ->
  all_candidates (fun i => interlaced (hdr i) = interlaced (hdr img)) baseline evs.
Proof.
  intros Hil. apply (perform_reductions_inv _ _ (fun _ H => H)); auto.
  - intros _ i r H Hi. rewrite (eff_clean _ _ H). exact Hi.
  - intros _ i r H Hi. destruct (eff_16 _ _ _ H) as ((_ & _ & G) & _). congruence.
  - intros _ _ i r H Hi. destruct (eff_rgb_gray _ _ H) as ((_ & _ & G) & _). congruence.
  - intros _ i r H Hi. destruct (eff_expand _ _ H) as ((_ & _ & G) & _). congruence.
  - intros _ i r H Hi. destruct (eff_reduced_palette _ _ _ H) as ((_ & _ & G) & _). congruence.
  - intros _ i r H Hi. destruct (eff_sorted_palette _ _ H) as ((_ & _ & G) & _). congruence.
  - intros _ i r H Hi. destruct (eff_alpha _ _ _ H) as ((_ & _ & G) & _). congruence.
  - intros _ i r H Hi. destruct (eff_to_channels _ _ _ _ H) as ((_ & _ & G) & _). congruence.
  - intros _ i red H Hi. destruct (eff_to_indexed _ _ _ H) as ((_ & _ & G) & _). split; [congruence|].
    intros r Hs. destruct (eff_sorted_palette _ _ Hs) as ((_ & _ & G2) & _). congruence.
  - intros _ i r H Hi. destruct (eff_battiato _ _ H) as ((_ & _ & G) & _). congruence.
  - intros _ i r H Hi. destruct (eff_mzeng _ _ H) as ((_ & _ & G) & _). congruence.
  - intros _ i r H Hi. destruct (eff_8_or_less _ _ H) as ((_ & _ & G) & _). congruence.
  - intros il r Hc. rewrite Hil in Hc. discriminate.
Qed.

Theorem interlace_forced baseline evs m : interlace o = Some m ->
  perform_reductions e o img = Ok (baseline, evs) ->
  all_candidates (fun i => interlaced (hdr i) = m) baseline evs.
Proof.
  intros Hil Hrun.
  (* after the first block the image has the requested mode, whether or not a conversion happened *)
  unfold perform_reductions, s_interlace in Hrun. rewrite Hil in Hrun.
  destruct (change_interlacing img m) as [r0|?|?] eqn:Ec; cbn [bind] in Hrun; try discriminate.
  set (png := match r0 with Some x => x | None => img end) in *.
  assert (Hpng : interlaced (hdr png) = m).
  { subst png. destruct r0 as [x|].
    - destruct (eff_interlace _ _ _ Ec) as (_ & _ & G & _). exact G.
    - unfold change_interlacing in Ec. destruct (Bool.eqb m (interlaced (hdr img))) eqn:Eb.
      + symmetry. apply eqb_prop. exact Eb.
      + destruct m; [destruct (interlace_image img)|destruct (deinterlace_image img)]; cbn [bind] in Ec; discriminate. }
  match type of Hrun with (do st <- run_steps _ ?s0; _) = _ => destruct (run_steps (reduction_steps e o) s0) as [st|?|?] eqn:Er end;
    cbn [bind] in Hrun; try discriminate.
  injection Hrun as <- <-.
  assert (I : inv (fun i => interlaced (hdr i) = m) (fun i => interlaced (hdr i) = m) st).
  { eapply (run_steps_inv _ _ (fun _ H => H)); [..|exact Er].
    - intros _ i r H Hi. rewrite (eff_clean _ _ H). exact Hi.
    - intros _ i r H Hi. destruct (eff_16 _ _ _ H) as ((_ & _ & G) & _). congruence.
    - intros _ _ i r H Hi. destruct (eff_rgb_gray _ _ H) as ((_ & _ & G) & _). congruence.
    - intros _ i r H Hi. destruct (eff_expand _ _ H) as ((_ & _ & G) & _). congruence.
    - intros _ i r H Hi. destruct (eff_reduced_palette _ _ _ H) as ((_ & _ & G) & _). congruence.
    - intros _ i r H Hi. destruct (eff_sorted_palette _ _ H) as ((_ & _ & G) & _). congruence.
    - intros _ i r H Hi. destruct (eff_alpha _ _ _ H) as ((_ & _ & G) & _). congruence.
    - intros _ i r H Hi. destruct (eff_to_channels _ _ _ _ H) as ((_ & _ & G) & _). congruence.
    - intros _ i red H Hi. destruct (eff_to_indexed _ _ _ H) as ((_ & _ & G) & _). split; [congruence|].
      intros r Hs. destruct (eff_sorted_palette _ _ Hs) as ((_ & _ & G2) & _). congruence.
    - intros _ i r H Hi. destruct (eff_battiato _ _ H) as ((_ & _ & G) & _). congruence.
    - intros _ i r H Hi. destruct (eff_mzeng _ _ H) as ((_ & _ & G) & _). congruence.
    - intros _ i r H Hi. destruct (eff_8_or_less _ _ H) as ((_ & _ & G) & _). congruence.
    - constructor; cbn; auto. intros i Hi. discriminate. }
  split; [apply I|]. apply Forall_rev. apply I.
Qed.

(* palette changes disabled: an indexed image that stays indexed keeps its exact palette, in order *)
Theorem palette_preserved baseline evs pal : palette_reduction o = false ->
  ctype (hdr img) = Indexed pal ->
  perform_reductions e o img = Ok (baseline, evs) ->
  ctype (hdr baseline) = Indexed pal /\
  Forall (ev_ok (fun i => forall p, palette_if_indexed i = Some p -> p = pal)) evs.
Proof.
  intros Hp Hc.
  apply (perform_reductions_inv (fun i => ctype (hdr i) = Indexed pal)
                                (fun i => forall p, palette_if_indexed i = Some p -> p = pal)); auto;
    try (rewrite Hp; discriminate).
  - intros i Hi p Hq. unfold palette_if_indexed in Hq. rewrite Hi in Hq. injection Hq as <-. reflexivity.
  - intros _ i r H Hi. rewrite (eff_clean _ _ H). exact Hi.
  - intros _ i r H Hi. destruct (eff_16 _ _ _ H) as (_ & _ & _ & _ & _ & K).
    specialize (K pal). unfold palette_if_indexed in K. rewrite Hi in K. specialize (K eq_refl).
    destruct (ctype (hdr r)); try discriminate. injection K as ->. reflexivity.
  - intros _ _ i r H Hi. destruct (eff_rgb_gray _ _ H) as (_ & _ & R & _). rewrite Hi in R. discriminate.
  - intros _ i r H Hi. destruct (eff_expand _ _ H) as (_ & _ & _ & _ & _ & K).
    specialize (K pal). unfold palette_if_indexed in K. rewrite Hi in K. specialize (K eq_refl).
    destruct (ctype (hdr r)); try discriminate. injection K as ->. reflexivity.
  - intros _ i r H Hi. destruct (eff_alpha _ _ _ H) as (_ & _ & _ & A). rewrite Hi in A. discriminate.
  - intros _ i r H Hi p Hq. destruct (eff_to_channels _ _ _ _ H) as (_ & _ & _ & _).
    unfold indexed_to_channels in H. destruct (negb (depth (hdr i) =? 8)); [discriminate|]. rewrite Hi in H.
    destruct (INDEXED_MAX_DIFF <? _); [discriminate|]. injection H as <-. unfold palette_if_indexed in Hq. cbn in Hq.
    repeat match type of Hq with context [if ?c then _ else _] => destruct c end; discriminate.
  - intros _ i red H Hi. destruct (eff_to_indexed _ _ _ H) as (_ & _ & N & _). rewrite Hi in N. discriminate.
  - intros _ i r H Hi. destruct (eff_8_or_less _ _ H) as (_ & _ & _ & K).
    specialize (K pal). unfold palette_if_indexed in K. rewrite Hi in K. specialize (K eq_refl).
    destruct (ctype (hdr r)); try discriminate. injection K as ->. reflexivity.
  - intros il r _ H. destruct (eff_interlace _ _ _ H) as (_ & _ & _ & _ & C). rewrite C. exact Hc.
Qed.
End Pipe.

(* sorted_palette_mzeng keeps the meaning of an image: its re-indexing lists every palette index the image uses. *)
From OxiVerif Require Import Base.Common Spec.Adam7 Spec.Sem Model.Types Model.ScanLines Model.Palette
  Proofs.Bridge Proofs.ScanProofs Proofs.ImageLift Proofs.LiftReductions Proofs.LiftColor Proofs.LiftPalette Proofs.LiftLines Proofs.LiftBits.
From OxiVerif Require Import Proofs.CoocMatrix Proofs.SortGraph Proofs.MzengLoop.
Local Open Scope Z_scope.

(* ---------------------------------------------------------------- a decodable non-interlaced image has only decodable pixels *)
Lemma split_px_concat {A} L : forall (pxs : list A) lines, split_px L pxs = Some lines -> concat (map snd lines) = pxs.
Proof.
  induction L as [|[p n] t IH]; intros pxs lines H; cbn [split_px] in H.
  - destruct pxs; [injection H as <-; reflexivity|discriminate].
  - destruct (length pxs <? Z.to_nat n)%nat; [discriminate|].
    destruct (split_px t (skipn (Z.to_nat n) pxs)) as [r|] eqn:E; [|discriminate]. injection H as <-.
    cbn [map concat snd]. rewrite (IH _ _ E). apply firstn_skipn.
Qed.

Lemma sem_plain_all_some img (B : nat) pic : (0 < B)%nat -> interlaced (hdr img) = false ->
  depth (hdr img) * channels_per_pixel (ctype (hdr img)) = 8 * Z.of_nat B ->
  sem img = Some pic ->
  Forall (fun px => pxcol (spec_color_of (ctype (hdr img))) (depth (hdr img)) px <> None) (chunks_exact B (data img)).
Proof.
  intros HB Hil Hbits Hsem. unfold sem in Hsem. rewrite spec_sem_gsem in Hsem.
  destruct (negb (depth_legal _ _)); [discriminate|]. rewrite spec_channels_of, Hbits, Hil in Hsem.
  destruct (gsem_some_length _ _ _ _ B _ _ HB Hsem) as [k Hlen].
  destruct (chunks_exact_spec B (data img) k HB Hlen) as (Hc & Hu & Hn).
  rewrite <- Hc in Hsem. rewrite (gsem_aligned_cols _ _ _ _ B _ HB Hu) in Hsem.
  unfold gcol in Hsem. destruct ((width (hdr img) <=? 0) || (height (hdr img) <=? 0)); [discriminate|].
  destruct (split_px (pix_layout (width (hdr img)) (height (hdr img)) false) _) as [lines|] eqn:Es; [|discriminate].
  unfold assemble in Hsem. pose proof (finish_some_all _ _ _ _ Hsem) as Hall. pose proof (split_px_concat _ _ _ Es) as Econ.
  apply Forall_forall. intros px Hpx.
  assert (Hin : In (pxcol (spec_color_of (ctype (hdr img))) (depth (hdr img)) px)
                   (map (fun px0 => pixel_color (spec_color_of (ctype (hdr img))) (depth (hdr img)) (sbits_of_bytes px0)) (chunks_exact B (data img))))
    by (apply in_map_iff; exists px; split; [reflexivity|exact Hpx]).
  rewrite <- Econ in Hin. apply in_concat in Hin. destruct Hin as (row & Hrow & Hin).
  rewrite Forall_forall in Hall. specialize (Hall row Hrow). rewrite Forall_forall in Hall. apply Hall. exact Hin.
Qed.

Lemma indexed8_in_range img pal pic : wf img -> ctype (hdr img) = Indexed pal -> depth (hdr img) = 8 -> interlaced (hdr img) = false ->
  sem img = Some pic -> Forall (fun v => 0 <= v < lenZ pal) (data img).
Proof.
  intros [Hok _] Hc Hd Hil Hsem.
  pose proof (sem_plain_all_some img 1 pic ltac:(lia) Hil ltac:(rewrite Hd, Hc; reflexivity) Hsem) as Hall.
  rewrite chunks_exact_1 in Hall. apply Forall_forall. intros v Hv.
  rewrite Forall_forall in Hall. specialize (Hall [v] (in_map (fun b : Z => [b]) (data img) v Hv)).
  pose proof (bytes_ok_in _ v Hok Hv) as Hb. rewrite Hc, Hd in Hall. cbn [spec_color_of] in Hall.
  rewrite pxcol8 in Hall by (constructor; [unfold byte_ok; lia|constructor]).
  cbn [color_of_samples] in Hall. unfold rgba8 in *. destruct (nth_error pal (Z.to_nat v)) eqn:En; [|exfalso; apply Hall; reflexivity].
  assert (Z.to_nat v < length pal)%nat by (apply nth_error_Some; rewrite En; discriminate). unfold lenZ. lia.
Qed.

(* ---------------------------------------------------------------- apply_most_popular_color only rotates / reverses *)
Lemma rotate_left_in {A} (l : list A) k x : In x (rotate_left l k) <-> In x l.
Proof. unfold rotate_left. rewrite in_app_iff. rewrite <- (firstn_skipn k l) at 3. rewrite in_app_iff. tauto. Qed.

Lemma rotate_left_length {A} (l : list A) k : length (rotate_left l k) = length l.
Proof. unfold rotate_left. rewrite app_length, Nat.add_comm, <- app_length, firstn_skipn. reflexivity. Qed.

Lemma apply_mpc_perm data R R' : apply_most_popular_color data R = Ok R' -> (forall x, In x R' <-> In x R) /\ length R' = length R.
Proof.
  unfold apply_most_popular_color. destruct (most_popular_color (length R) data) as [idx cnt].
  destruct (cnt <? _); [intros [= <-]; split; [tauto|reflexivity]|].
  destruct (position_of idx R 0) as [fi|]; [|discriminate].
  destruct (_ <=? fi)%nat; intros [= <-].
  - unfold rotate_right. split; [intros x; rewrite rotate_left_in, <- in_rev; tauto|rewrite rotate_left_length, rev_length; reflexivity].
  - split; [intros x; apply rotate_left_in|apply rotate_left_length].
Qed.

Lemma position_of_in v l : forall i k, position_of v l i = Some k -> In v l.
Proof. induction l as [|a t IH]; intros i k H; cbn [position_of] in H; [discriminate|]. destruct (Z.eqb_spec a v); [left; assumption|right; eapply IH; eauto]. Qed.

(* ---------------------------------------------------------------- the most popular colour of a one-colour image *)
Lemma mbkl_spec : forall l i best j v, max_by_key_last l i best = Some (j, v) ->
  (exists k, j = i + Z.of_nat k /\ nth_error l k = Some v /\ (forall x, In x l -> x <= v) /\ (forall bj bv, best = Some (bj, bv) -> bv <= v)) \/
  (best = Some (j, v) /\ forall x, In x l -> x < v).
Proof.
  induction l as [|v0 t IH]; intros i best j v H; cbn [max_by_key_last] in H.
  - right. split; [exact H|intros x []].
  - set (best' := match best with None => Some (i, v0) | Some (_, bv) => if bv <=? v0 then Some (i, v0) else best end) in *.
    destruct (IH _ _ _ _ H) as [(k & -> & Hk & Hall & Hb)|[Eb Hall]].
    + left. exists (S k). split; [lia|]. split; [exact Hk|].
      assert (Hv0 : v0 <= v /\ forall bj bv, best = Some (bj, bv) -> bv <= v).
      { unfold best' in Hb. destruct best as [[bj bv]|].
        - destruct (Z.leb_spec bv v0).
          + specialize (Hb i v0 eq_refl). split; [exact Hb|]. intros ? ? [= <- <-]. lia.
          + specialize (Hb bj bv eq_refl). split; [lia|]. intros ? ? [= <- <-]. exact Hb.
        - specialize (Hb i v0 eq_refl). split; [exact Hb|]. intros ? ? [=]. }
      destruct Hv0 as [Hv0 Hbb]. split; [|exact Hbb]. intros x [<-|Hx]; [exact Hv0|apply Hall; exact Hx].
    + unfold best' in Eb. destruct best as [[bj bv]|].
      * destruct (Z.leb_spec bv v0).
        -- injection Eb as <- <-. left. exists 0%nat. split; [lia|]. split; [reflexivity|]. split.
           ++ intros x [<-|Hx]; [lia|]. specialize (Hall x Hx). lia.
           ++ intros ? ? [= <- <-]. exact H0.
        -- injection Eb as <- <-. right. split; [reflexivity|]. intros x [<-|Hx]; [lia|apply Hall; exact Hx].
      * injection Eb as <- <-. left. exists 0%nat. split; [lia|]. split; [reflexivity|]. split.
        -- intros x [<-|Hx]; [lia|]. specialize (Hall x Hx). lia.
        -- intros ? ? [=].
Qed.

Lemma mbkl_some : forall l i best, l <> [] \/ best <> None -> max_by_key_last l i best <> None.
Proof.
  induction l as [|v0 t IH]; intros i best H; cbn [max_by_key_last]; [destruct H as [H|H]; [contradiction|exact H]|].
  apply IH. right. destruct best as [[? bv]|]; [destruct (bv <=? v0)|]; discriminate.
Qed.

Lemma set_nth_twice {A} (l : list A) i x y : set_nth i y (set_nth i x l) = set_nth i y l.
Proof. revert i. induction l as [|a t IH]; intros [|i]; cbn [set_nth]; try reflexivity. rewrite IH. reflexivity. Qed.

Lemma counts_single c : 0 <= c < 256 -> forall k data, (forall x, In x data -> x = c) ->
  fold_left (fun cn v => incr_nth v cn) data (set_nth (Z.to_nat c) k (repeat 0 256)) = set_nth (Z.to_nat c) (k + lenZ data) (repeat 0 256).
Proof.
  intros Hc k data. revert k. induction data as [|v t IH]; intros k Hall; cbn [fold_left].
  - unfold lenZ. cbn. rewrite Z.add_0_r. reflexivity.
  - rewrite (Hall v (or_introl eq_refl)). unfold incr_nth at 2. unfold nthZ. rewrite nth_set_nth, Nat.eqb_refl, repeat_length.
    destruct (Nat.ltb_spec (Z.to_nat c) 256); [|lia]. cbn [andb]. rewrite set_nth_twice. rewrite IH by (intros x Hx; apply Hall; right; exact Hx).
    f_equal. unfold lenZ. cbn [length]. lia.
Qed.

Lemma nth_firstn_lt {A} (l : list A) n k d : (k < n)%nat -> nth k (firstn n l) d = nth k l d.
Proof. revert n k. induction l as [|a t IH]; intros [|n] [|k] H; cbn; try lia; try reflexivity. apply IH. lia. Qed.

Lemma single_colour_in data R R' c : data <> [] -> (forall x, In x data -> x = c) ->
  0 <= c < Z.of_nat (length R) -> (length R <= 256)%nat ->
  apply_most_popular_color data R = Ok R' -> In c R.
Proof.
  intros Hne Hall Hc Hlen H. unfold apply_most_popular_color, most_popular_color in H.
  assert (Hcounts : fold_left (fun cn v => incr_nth v cn) data (repeat 0 256) = set_nth (Z.to_nat c) (lenZ data) (repeat 0 256)).
  { assert (E0 : repeat 0 256 = set_nth (Z.to_nat c) 0 (repeat 0 256)).
    { apply nth_ext with (d := 0) (d' := 0); [rewrite set_nth_length; reflexivity|]. intros k Hk. rewrite nth_set_nth.
      destruct ((k =? Z.to_nat c)%nat && _); [|reflexivity]. rewrite repeat_length in Hk. apply nth_repeat'. exact Hk. }
    rewrite E0 at 1. rewrite (counts_single c ltac:(lia) 0 data Hall). f_equal. }
  rewrite Hcounts in H. set (N := lenZ data) in *.
  assert (HN : 1 <= N) by (unfold N, lenZ; destruct data; [contradiction|cbn; lia]).
  set (l := firstn (length R) (set_nth (Z.to_nat c) N (repeat 0 256))) in *.
  assert (Hl : forall k, nth k l 0 = if (k =? Z.to_nat c)%nat then N else 0).
  { intros k. unfold l. destruct (Nat.lt_ge_cases k (length R)) as [Hk|Hk].
    - rewrite nth_firstn_lt by exact Hk. rewrite nth_set_nth, repeat_length. destruct (Nat.eqb_spec k (Z.to_nat c)).
      + destruct (Nat.ltb_spec (Z.to_nat c) 256); [reflexivity|lia].
      + cbn [andb]. apply nth_repeat'. lia.
    - rewrite nth_overflow by (unfold l; rewrite firstn_length, set_nth_length, repeat_length; lia).
      destruct (Nat.eqb_spec k (Z.to_nat c)); [lia|reflexivity]. }
  assert (Hll : length l = length R) by (unfold l; rewrite firstn_length, set_nth_length, repeat_length; lia).
  destruct (max_by_key_last l 0 None) as [[idx cnt]|] eqn:Em.
  2:{ exfalso. eapply (mbkl_some l 0 None); [left; intros E; rewrite E in Hll; cbn in Hll; lia|exact Em]. }
  destruct (mbkl_spec _ _ _ _ _ Em) as [(k & -> & Hk & Hmax & _)|[[=] _]].
  assert (HinN : In N l).
  { assert (E : nth (Z.to_nat c) l 0 = N) by (rewrite Hl, Nat.eqb_refl; reflexivity). rewrite <- E. apply nth_In. lia. }
  specialize (Hmax N HinN).
  assert (Ek : k = Z.to_nat c).
  { apply nth_error_nth with (d := 0) in Hk. rewrite Hl in Hk. destruct (Nat.eqb_spec k (Z.to_nat c)); [assumption|lia]. }
  assert (Ecnt : cnt = N) by (apply nth_error_nth with (d := 0) in Hk; rewrite Hl, Ek, Nat.eqb_refl in Hk; lia).
  subst k cnt. replace (0 + Z.of_nat (Z.to_nat c)) with c in H by lia.
  destruct (Z.ltb_spec N (N * 3 / 20)); [lia|].
  destruct (position_of c R 0) as [fi|] eqn:Ep; [|discriminate]. eapply position_of_in; eauto.
Qed.

Lemma two_or_one (l : list Z) : (exists x y, In x l /\ In y l /\ x <> y) \/ (forall x y, In x l -> In y l -> x = y).
Proof.
  induction l as [|a t IH]; [right; intros x y []|].
  destruct IH as [(x & y & Hx & Hy & Hne)|Hall].
  - left. exists x, y. repeat split; [right; exact Hx|right; exact Hy|exact Hne].
  - destruct t as [|b t'].
    + right. intros x y [<-|[]] [<-|[]]. reflexivity.
    + destruct (Z.eq_dec a b) as [->|Hne].
      * right. intros x y [<-|Hx] [<-|Hy]; auto; [symmetry|]; apply Hall; auto; left; reflexivity.
      * left. exists a, b. repeat split; [left; reflexivity|right; left; reflexivity|exact Hne].
Qed.

(* what the sorter needs from its re-indexing: the used indices, and at most 256 entries *)
Theorem reindex_then_reorder_sem img pal remapping remapping' r pic :
  wf img -> sem img = Some pic ->
  ctype (hdr img) = Indexed pal -> depth (hdr img) = 8 ->
  (forall c, In c (data img) -> In c remapping) -> (length remapping <= 256)%nat ->
  apply_most_popular_color (data img) remapping = Ok remapping' ->
  apply_palette_reorder img remapping' = Ok (Some r) ->
  sem r = Some pic /\ wf r.
Proof.
  intros Hwf Hsem Hc Hd Hcov Hlen Hmp Hre.
  destruct (apply_mpc_perm _ _ _ Hmp) as [Hin Hl].
  eapply (apply_palette_reorder_sem img remapping'); eauto; [lia|].
  intros pal' _ b Hb _. apply Hin. apply Hcov. exact Hb.
Qed.

Theorem sorted_palette_mzeng_sem img r pic : wf img -> sem img = Some pic ->
  sorted_palette_mzeng img = Ok (Some r) -> sem r = Some pic /\ wf r.
Proof.
  intros Hwf Hsem H. unfold sorted_palette_mzeng, palette_for_sort in H.
  destruct (depth (hdr img) =? 8) eqn:Ed; cbn [negb orb] in H; [|discriminate]. apply Z.eqb_eq in Ed.
  destruct (interlaced (hdr img)) eqn:Eil; [discriminate|].
  destruct (ctype (hdr img)) as [| |pal| |] eqn:Ec; try discriminate.
  destruct (Nat.leb_spec (length pal) 2) as [|Hn3]; [discriminate|].
  destruct (scan_lines img false) as [lines|?|?] eqn:Esl; cbn [bind] in H; try discriminate.
  destruct (co_occurrence_matrix (length pal) lines) as [m|?|?] eqn:Em; cbn [bind] in H; try discriminate.
  destruct (mzeng_reindex (length pal) (weighted_edges m) m) as [R|?|?] eqn:ER; cbn [bind] in H; try discriminate.
  destruct (apply_most_popular_color (data img) R) as [R'|?|?] eqn:EM; cbn [bind] in H; try discriminate.
  (* the scan lines are the rows of the data *)
  destruct (sem_some_cut _ _ Hsem) as (Hw & Hh & Hbpp & L & Hcut).
  pose proof (scan_lines_is_layout img L Hw Hh Hbpp Hcut) as Hsl. rewrite Esl in Hsl. injection Hsl as ->.
  destruct (cut_layout_shape _ _ _ Hcut) as [_ Hdata].
  assert (Evs : concat (map l_data (map to_scanline L)) = data img) by (rewrite map_map, Hdata; reflexivity).
  pose proof (indexed8_in_range img pal pic Hwf Ec Ed Eil Hsem) as Hrange. unfold lenZ in Hrange.
  assert (HI : cooc_inv (length pal) m (data img)).
  { rewrite <- Evs. apply co_occurrence_inv; [|exact Em]. apply Forall_forall. intros sl Hsl. apply Forall_forall. intros v Hv.
    rewrite Forall_forall in Hrange. apply Hrange. rewrite <- Evs. apply in_concat. exists (l_data sl). split; [apply in_map; exact Hsl|exact Hv]. }
  pose proof Hwf as [_ Hwfc]. rewrite Ec in Hwfc. cbn [wf_ctype] in Hwfc. destruct Hwfc as [_ Hpl].
  destruct (two_or_one (data img)) as [Htwo|Hone].
  - destruct (mzeng_reindex_covers (length pal) m (data img) R HI Htwo ER) as [Hcov HlenR].
    eapply (reindex_then_reorder_sem img pal R R'); eauto. lia.
  - (* one colour only *)
    assert (Hne : data img <> []).
    { intros E. unfold sem, spec_sem in Hsem. destruct (negb _); [discriminate|]. unfold spec_image_pixels in Hsem.
      destruct (Z.leb_spec (width (hdr img)) 0); [discriminate|]. destruct (Z.leb_spec (height (hdr img)) 0); [discriminate|]. cbn [orb] in Hsem.
      destruct (_ <=? 0); [discriminate|]. cbn [orb] in Hsem. rewrite E in Hcut. rewrite Eil in Hcut. unfold spec_layout in Hcut.
      destruct (Z.to_nat (height (hdr img))) eqn:Eh; [lia|]. cbn [repeat cut_layout] in Hcut. cbn [length] in Hcut.
      assert (0 < Z.to_nat (line_bytes (bpp (hdr img)) (width (hdr img))))%nat.
      { unfold line_bytes, cdiv. assert (1 <= (width (hdr img) * bpp (hdr img) + 8 - 1) / 8) by (apply Z.div_le_lower_bound; nia). lia. }
      destruct (Nat.ltb_spec 0 (Z.to_nat (line_bytes (bpp (hdr img)) (width (hdr img))))); [discriminate|lia]. }
    destruct (data img) as [|c0 dt] eqn:Edata; [contradiction|].
    assert (Hall : forall x, In x (c0 :: dt) -> x = c0) by (intros x Hx; apply Hone; [exact Hx|left; reflexivity]).
    (* the length of the re-indexing is the palette's, whatever it contains *)
    assert (HlenR : length R = length pal).
    { unfold mzeng_reindex in ER. destruct (weighted_edges m) as [|[e0 e1] rest] eqn:Ew; [discriminate|].
      destruct (weighted_edges_head m e0 e1 rest Ew) as (He0 & He1 & _). destruct HI as [[Hlm _] _ _ _ _ _]. unfold lenZ in He1. rewrite Hlm in *.
      match type of ER with context [fold_left ?f ?l ?a] => change (fold_left f l a) with (fold_left (init_step m e0 e1) l a) in ER end.
      pose proof (init_fold m e0 e1 (seq 0 (length pal)) [] 0%nat (0, 0) ltac:(right; split; [reflexivity|intros c s []])) as F.
      destruct (fold_left (init_step m e0 e1) (seq 0 (length pal)) ([], 0%nat, (0, 0))) as [[S0 bp0] b0].
      destruct F as (E0 & _ & _). cbn [map app] in E0. cbv beta iota in ER. injection ER as <-.
      assert (Hlen0 : (length S0 + 2 = length pal)%nat).
      { rewrite <- (map_length fst S0), E0. rewrite (filter_two_length (map Z.of_nat (seq 0 (length pal))) e0 e1).
        - rewrite map_length, seq_length. reflexivity.
        - apply NoDup_map_of_nat.
        - apply in_map_iff. exists (Z.to_nat e0). split; [lia|apply in_seq; lia].
        - apply in_map_iff. exists (Z.to_nat e1). split; [lia|apply in_seq; lia].
        - lia. }
      rewrite mzeng_loop_length by lia. cbn [length]. lia. }
    assert (Hc0 : In c0 R).
    { apply (single_colour_in (c0 :: dt) R R' c0).
      - discriminate.
      - exact Hall.
      - rewrite Forall_forall in Hrange. specialize (Hrange c0 (or_introl eq_refl)). lia.
      - lia.
      - exact EM. }
    eapply (reindex_then_reorder_sem img pal R R'); eauto; [|lia|rewrite Edata; exact EM].
    rewrite Edata. intros c Hc. rewrite (Hall c Hc). exact Hc0.
Qed.

(* Bridge between the model's image type and the specification's semantic domain. *)
From OxiVerif Require Import Base.Common Spec.Adam7 Spec.Sem Model.Types.

Definition spec_color_of (c : color_type) : spec_color :=
  match c with
  | Gray k => SGray k
  | RGB k => SRGB k
  | Indexed p => SIndexed p
  | GrayAlpha => SGrayAlpha
  | RGBA => SRGBA
  end.

(* meaning of a model image (unfiltered data) *)
Definition sem (img : image) : option picture :=
  spec_sem (width (hdr img)) (height (hdr img)) (spec_color_of (ctype (hdr img))) (depth (hdr img))
           (interlaced (hdr img)) (data img).

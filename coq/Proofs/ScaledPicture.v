(* C15 at picture level: the picture of the scaled image is the input picture with every pixel rounded (a function of the
   picture and the colour key alone), and the whole reduction pipeline with scale_16 on. *)
From OxiVerif Require Import Base.Common Spec.Adam7 Spec.Sem Model.Types Model.BitDepth
  Proofs.Bridge Proofs.PixelProofs Proofs.LiftBits Proofs.ImageLift Proofs.LiftReductions Proofs.LiftColor.

Definition scaled_px (c : spec_color) (p : rgba16) : rgba16 :=
  let '(r, g, b, a) := p in
  let r' := round8 r in let g' := round8 g in let b' := round8 b in
  let a' := match c with
            | SGray (Some k) => if round8 k =? r' then 0 else 65535
            | SRGB (Some (kr, kg, kb)) => if (round8 kr =? r') && (round8 kg =? g') && (round8 kb =? b') then 0 else 65535
            | _ => 257 * round8 a
            end in
  (257 * r', 257 * g', 257 * b', a').

Definition pic_map (f : rgba16 -> rgba16) (p : picture) : picture :=
  {| pic_w := pic_w p; pic_h := pic_h p; pic_px := map (map f) (pic_px p) |}.

Definition skey_ok (c : spec_color) : Prop :=
  match c with
  | SGray (Some k) => u16 k
  | SRGB (Some (r, g, b)) => u16 r /\ u16 g /\ u16 b
  | SIndexed _ => False
  | _ => True
  end.

Lemma round8_byte v : u16 v -> 0 <= round8 v < 256.
Proof. intros H. apply round8_nearest. exact H. Qed.

Lemma scale16_16 v : scale16 16 v = v.
Proof. unfold scale16. change (2 ^ 16 - 1) with 65535. apply Z.div_mul. lia. Qed.

Lemma scale16_8 v : scale16 8 v = 257 * v.
Proof. unfold scale16. change (2 ^ 8 - 1) with 255. replace (v * 65535) with ((257 * v) * 255) by lia. apply Z.div_mul. lia. Qed.

Lemma key_match_16 k v : u16 k -> key_match 16 k v = (k =? v).
Proof. intros H. unfold key_match. rewrite Z.mod_small; [reflexivity|]. unfold u16 in H. change (2 ^ 16) with 65536. lia. Qed.

Lemma key_match_8 k v : 0 <= k < 256 -> key_match 8 k v = (k =? v).
Proof. intros H. unfold key_match. rewrite Z.mod_small; [reflexivity|]. change (2 ^ 8) with 256. lia. Qed.

Lemma color_scaled_map c samples : skey_ok c -> Forall u16 samples ->
  color_of_samples (round_key c) 8 (map round8 samples) = option_map (scaled_px c) (color_of_samples c 16 samples).
Proof.
  intros Hk Hs. destruct c as [[k|]|[[[kr kg] kb]|]|pal| |]; cbn [skey_ok] in Hk; try contradiction.
  - destruct samples as [|v [|? ?]]; cbn [map color_of_samples round_key option_map]; try reflexivity.
    rewrite scale16_16, scale16_8. inversion Hs as [|? ? Hv _]; subst.
    rewrite key_match_16 by exact Hk. rewrite key_match_8 by (apply round8_byte; exact Hk).
    unfold scaled_px. destruct (Z.eqb_spec k v) as [->|Hne].
    + rewrite Z.eqb_refl. reflexivity.
    + reflexivity.
  - destruct samples as [|v [|? ?]]; cbn [map color_of_samples round_key option_map]; try reflexivity.
    rewrite scale16_16, scale16_8. unfold scaled_px. change (257 * round8 65535) with 65535. reflexivity.
  - destruct Hk as (Hr & Hg & Hb).
    destruct samples as [|r [|g [|b [|? ?]]]]; cbn [map color_of_samples round_key option_map]; try reflexivity.
    rewrite !scale16_16, !scale16_8. rewrite !key_match_16 by assumption. rewrite !key_match_8 by (apply round8_byte; assumption).
    unfold scaled_px.
    destruct (Z.eqb_spec kr r) as [->|]; cbn [andb]; [|reflexivity].
    destruct (Z.eqb_spec kg g) as [->|]; cbn [andb]; [|reflexivity].
    destruct (Z.eqb_spec kb b) as [->|]; cbn [andb]; [|reflexivity].
    rewrite !Z.eqb_refl. reflexivity.
  - destruct samples as [|r [|g [|b [|? ?]]]]; cbn [map color_of_samples round_key option_map]; try reflexivity.
    rewrite !scale16_16, !scale16_8. unfold scaled_px. change (257 * round8 65535) with 65535. reflexivity.
  - destruct samples as [|v [|a [|? ?]]]; cbn [map color_of_samples round_key option_map]; try reflexivity.
    rewrite !scale16_16, !scale16_8. reflexivity.
  - destruct samples as [|r [|g [|b [|a [|? ?]]]]]; cbn [map color_of_samples round_key option_map]; try reflexivity.
    rewrite !scale16_16, !scale16_8. reflexivity.
Qed.

Lemma pixel_scaled_map c bits : skey_ok c ->
  pixel_color_scaled c bits = option_map (scaled_px c) (pixel_color c 16 bits).
Proof.
  intros Hk. unfold pixel_color_scaled, pixel_color. change (Z.to_nat 16) with 16%nat. apply color_scaled_map; [exact Hk|].
  apply Forall_forall. intros v Hv. apply in_map_iff in Hv. destruct Hv as [g [<- Hg]].
  pose proof (groups_lengths 16 bits) as GL. rewrite Forall_forall in GL. pose proof (sval_range g) as R. rewrite (GL g Hg) in R.
  unfold u16. change (2 ^ Z.of_nat 16) with 65536 in R. lia.
Qed.

Lemma all_some_map {A B} (f : A -> B) (l : list (option A)) :
  all_some (map (option_map f) l) = option_map (map f) (all_some l).
Proof.
  induction l as [|[a|] t IH]; cbn [map all_some option_map]; [reflexivity| |reflexivity].
  rewrite IH. destruct (all_some t); reflexivity.
Qed.

Lemma finish_map w h f crows :
  finish w h (option_map (map (map (option_map f))) crows) = option_map (pic_map f) (finish w h crows).
Proof.
  destruct crows as [cr|]; cbn [option_map finish]; [|reflexivity].
  rewrite map_map.
  assert (E : map (fun x => all_some (map (option_map f) x)) cr = map (option_map (map f)) (map all_some cr)).
  { rewrite map_map. apply map_ext. intros r. apply all_some_map. }
  rewrite E, all_some_map. destruct (all_some (map all_some cr)); reflexivity.
Qed.

Lemma gsem_map w h b il pc f data :
  gsem w h b il (fun bits => option_map f (pc bits)) data = option_map (pic_map f) (gsem w h b il pc data).
Proof.
  unfold gsem. rewrite <- finish_map. f_equal.
  destruct (spec_image_pixels w h b il data) as [rows|]; cbn [option_map]; [|reflexivity].
  f_equal. rewrite map_map. apply map_ext. intros r. rewrite map_map. reflexivity.
Qed.

Lemma gsem_ext w h b il pc pc' data : (forall bits, pc bits = pc' bits) -> gsem w h b il pc data = gsem w h b il pc' data.
Proof.
  intros E. unfold gsem. f_equal. destruct (spec_image_pixels w h b il data) as [rows|]; cbn [option_map]; [|reflexivity].
  f_equal. apply map_ext. intros r. apply map_ext. exact E.
Qed.

Theorem spec_sem_scaled_is_map w h c il data : skey_ok c ->
  spec_sem_scaled w h c il data = option_map (pic_map (scaled_px c)) (spec_sem w h c 16 il data).
Proof.
  intros Hk. rewrite spec_sem_scaled_gsem, spec_sem_gsem. destruct (negb (depth_legal c 16)); [reflexivity|].
  rewrite <- gsem_map. apply gsem_ext. intros bits. apply pixel_scaled_map. exact Hk.
Qed.

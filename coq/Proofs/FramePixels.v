(* C10, frame pixels: recompress_frames replaces the data of a frame only by the compression of a stream that the specification
   decodes (frame dimensions, the image's colour type, depth and interlacing) to the same picture as the frame's old data;
   with alpha optimisation to an alpha-equivalent one. *)
From OxiVerif Require Import Base.Common Spec.Filter Spec.Adam7 Spec.Sem Spec.Decode
  Model.Types Model.Options Model.Headers Model.ScanLines Model.Filters Model.PngData Model.Evaluate Model.Optimize
  Proofs.Bridge Proofs.LiftReductions Proofs.LiftColor Proofs.LiftAlpha Proofs.HeaderProofs Proofs.FilterImage Proofs.FilterStream Proofs.AlphaStream
  Proofs.UnfilterImage Proofs.InputParse Proofs.EmittedStream Proofs.ApngProofs.
Local Open Scope Z_scope.

(* what a frame shows: the specification's decoding of its inflated data under the frame's dimensions and the image's pixel format *)
Definition frame_picture (inflate : list Z -> option (list Z)) (hd : ihdr) (fr : frame) : option picture :=
  match inflate (f_data fr) with
  | Some stream => spec_decode_stream (f_width fr) (f_height fr) (spec_color_of (ctype hd)) (depth hd) (interlaced hd) stream
  | None => None
  end.

Definition frame_same (alpha : bool) (p q : option picture) : Prop :=
  match p with
  | Some pic => exists pic', q = Some pic' /\ (if alpha then pic_aequiv pic pic' else pic' = pic)
  | None => True
  end.

Section FP.
Variable e : env.
Variable inflate : list Z -> option (list Z).
Hypothesis Hz : forall x n y, z_inflate e x n = Ok y -> inflate x = Some y /\ bytes_ok y.
Hypothesis Hzd : forall d s, inflate (z_deflate e d s) = Some s.

Lemma filter_image_alpha_noalpha' brute img f : has_alpha (ctype (hdr img)) = false ->
  filter_image brute img f true = filter_image brute img f false.
Proof. intros H. unfold filter_image, filter_image_rows. rewrite H. reflexivity. Qed.

Theorem recompress_frames_pixels o hd f : wf_ctype (ctype hd) (depth hd) ->
  forall i fs fs', recompress_frames_go e o hd f i fs = Ok fs' ->
  Forall (fun fr => spec_raw_size (f_width fr) (f_height fr) (bpp hd) (interlaced hd) true <= usize_max) fs ->
  Forall2 (fun a b => frame_same (optimize_alpha o) (frame_picture inflate hd a) (frame_picture inflate hd b)) fs fs'.
Proof.
  intros Hwfc i fs. revert i. induction fs as [|fr t IH]; intros i fs' H Hsz; cbn [recompress_frames_go] in H.
  - injection H as <-. constructor.
  - apply Forall_cons_iff in Hsz. destruct Hsz as [Hsz1 Hsz].
    match type of H with bind ?X _ = _ => destruct X as [fr'|x1|x2] eqn:E1 end; cbn [bind] in H; try discriminate.
    destruct (recompress_frames_go e o hd f (S i) t) as [rest|x1|x2] eqn:E2; cbn [bind] in H; try discriminate.
    injection H as <-. constructor; [|eapply IH; eauto].
    assert (Hrefl : forall x, frame_same (optimize_alpha o) x x).
    { intros [pic|]; cbn; [|exact I]. exists pic. split; [reflexivity|]. destruct (optimize_alpha o); [apply pic_aequiv_refl|reflexivity]. }
    destruct (dl e (SFrame i)); [injection E1 as <-; apply Hrefl|].
    destruct (png_image_new e (with_dims hd (f_width fr) (f_height fr)) (f_data fr)) as [img|x1|x2] eqn:Eimg; cbn [bind] in E1; try discriminate.
    destruct (filter_image _ img f (optimize_alpha o)) as [flt|x1|x2] eqn:Ef; cbn [bind] in E1; try discriminate.
    unfold deflate_capped in E1.
    destruct (lenZ (f_data fr) - 1 <? lenZ (z_deflate e (deflate o) flt)); injection E1 as <-; [apply Hrefl|].
    (* the frame was re-encoded *)
    unfold frame_picture. cbn [with_fdata f_data f_width f_height]. rewrite Hzd.
    destruct (inflate (f_data fr)) as [stream|] eqn:Einf; [|exact I].
    destruct (spec_decode_stream (f_width fr) (f_height fr) (spec_color_of (ctype hd)) (depth hd) (interlaced hd) stream) as [pic|] eqn:Edec; [|exact I].
    cbn [frame_same].
    destruct (spec_decode_stream_some _ _ _ _ _ _ _ Edec) as (Pw & Ph & Pb & Pl).
    set (hdf := with_dims hd (f_width fr) (f_height fr)) in *.
    rewrite spec_channels_of in Pb.
    destruct (png_image_new_sem e hdf (f_data fr) img Eimg Pl ltac:(unfold bpp; cbn; lia) Hsz1 ltac:(cbn; lia) ltac:(cbn; lia) (fun x n y Hy => proj2 (Hz x n y Hy)))
      as (stream0 & Ez & Hhdr & Hdok & _ & Hsem).
    destruct (Hz _ _ _ Ez) as [Hinf0 _]. rewrite Einf in Hinf0. injection Hinf0 as <-.
    cbn [hdf with_dims width height ctype depth interlaced] in Hsem. rewrite Edec in Hsem.
    assert (Hwf : wf img) by (split; [exact Hdok|rewrite Hhdr; exact Hwfc]).
    assert (Edims : width (hdr img) = f_width fr /\ height (hdr img) = f_height fr /\ ctype (hdr img) = ctype hd /\ depth (hdr img) = depth hd /\ interlaced (hdr img) = interlaced hd)
      by (rewrite Hhdr; repeat split).
    destruct Edims as (D1 & D2 & D3 & D4 & D5).
    destruct (optimize_alpha o) eqn:Ealpha.
    + destruct (has_alpha (ctype (hdr img))) eqn:Eha.
      * destruct (filter_image_alpha_decodes _ _ _ _ _ Hwf Hsem Eha Ef) as (pic2 & E2' & A2). rewrite D1, D2, D3, D4, D5 in E2'. eauto.
      * rewrite filter_image_alpha_noalpha' in Ef by exact Eha.
        pose proof (filter_image_decodes _ _ _ _ _ Hwf Hsem Ef) as E2'. rewrite D1, D2, D3, D4, D5 in E2'. exists pic. split; [exact E2'|apply pic_aequiv_refl].
    + pose proof (filter_image_decodes _ _ _ _ _ Hwf Hsem Ef) as E2'. rewrite D1, D2, D3, D4, D5 in E2'. exists pic. split; [exact E2'|reflexivity].
Qed.
End FP.

Theorem recompress_frames_top_pixels e inflate o p f fs' :
  (forall x n y, z_inflate e x n = Ok y -> inflate x = Some y /\ bytes_ok y) ->
  (forall d s, inflate (z_deflate e d s) = Some s) ->
  wf_ctype (ctype (hdr (raw p))) (depth (hdr (raw p))) ->
  Forall (fun fr => spec_raw_size (f_width fr) (f_height fr) (bpp (hdr (raw p))) (interlaced (hdr (raw p))) true <= usize_max) (frames p) ->
  recompress_frames e o p f = Ok fs' ->
  Forall2 (fun a b => frame_same (optimize_alpha o) (frame_picture inflate (hdr (raw p)) a) (frame_picture inflate (hdr (raw p)) b)) (frames p) fs'.
Proof.
  intros Hz Hzd Hwf Hsz H. unfold recompress_frames in H.
  assert (Hrefl : forall l : list frame, Forall2 (fun a b => frame_same (optimize_alpha o) (frame_picture inflate (hdr (raw p)) a) (frame_picture inflate (hdr (raw p)) b)) l l).
  { induction l as [|a t IH]; constructor; [|exact IH]. destruct (frame_picture inflate (hdr (raw p)) a) as [pic|]; cbn; [|exact I].
    exists pic. split; [reflexivity|]. destruct (optimize_alpha o); [apply pic_aequiv_refl|reflexivity]. }
  destruct (negb (idat_recoding o)); [injection H as <-; apply Hrefl|].
  destruct (frames p) as [|fr t] eqn:E; [injection H as <-; constructor|].
  rewrite <- E in Hsz. rewrite E in Hsz. eapply recompress_frames_pixels; eauto.
Qed.

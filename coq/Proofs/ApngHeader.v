(* C10: an animation whose chunks are kept is written with exactly the header of the input (colour type with palette / key, bit
   depth, interlacing, dimensions), and every frame decodes under that one header to the same picture before and after. *)
From OxiVerif Require Import Base.Common Spec.Adam7 Spec.Sem Spec.Decode Model.Types Model.Options Model.Headers Model.ScanLines Model.Interlace Model.BitDepth Model.Color
  Model.Palette Model.PngData Model.Evaluate Model.Reductions Model.Optimize
  Proofs.Bridge Proofs.LiftColor Proofs.ReductionInv Proofs.EffectProofs Proofs.PipelineProofs Proofs.ChunkProofs Proofs.ApngProofs Proofs.FramePixels
  Proofs.LiftAlpha Proofs.FileToFile Proofs.ContainerOk Proofs.ScaledFile Proofs.ChunkFlow.
Local Open Scope Z_scope.

(* with every reduction class switched off and interlacing kept, whatever optimize_raw emits has the header of the input *)
Theorem all_off_same_header e o img max_size c :
  bit_depth_reduction o = false -> color_type_reduction o = false -> palette_reduction o = false -> grayscale_reduction o = false ->
  interlace o = None ->
  optimize_raw e o img max_size = Ok (Some c) -> hdr (c_image c) = hdr img.
Proof.
  intros Hb Hc Hp Hg Hi. apply (emitted_satisfies (fun i => hdr i = hdr img)). intros b evs Hpr.
  apply (perform_reductions_inv (fun i => hdr i = hdr img) (fun i => hdr i = hdr img) (fun i H => H) e o) with (png0 := img) in Hpr.
  all: try congruence.
  all: try reflexivity.
  - destruct Hpr as [A B]. split; [exact A|]. eapply Forall_impl; [|exact B]. intros ev Hev. destruct ev; exact Hev.
  - intros _ i r Hr Hh. rewrite (eff_clean _ _ Hr). exact Hh.
Qed.

(* the options after pre-processing the chunks of an animation: every reduction class off, interlacing kept *)
Lemma animation_switches_off e aux o : has_chunk name_acTL aux = true ->
  let o' := snd (preprocess_chunks e aux o) in
  bit_depth_reduction o' = false /\ color_type_reduction o' = false /\ palette_reduction o' = false /\ grayscale_reduction o' = false /\
  interlace o' = None.
Proof.
  intros Ha. cbn zeta. pose proof (preprocess_keeps_actl e aux o) as K.
  destruct (preprocess_chunks_spec e aux o) as [E (Hg & Hb & Hc & Hp & Hi & _)]. cbn zeta in *.
  rewrite <- E, K, Ha in *. cbn [negb] in *. rewrite Hg, Hb, Hc, Hp, Hi, !andb_false_r. auto.
Qed.

Section Anim.
Variable e : env.
Variable o : options.
Variable p p' : pngdata.
Hypothesis Hact : has_chunk name_acTL (aux_chunks p) = true.
Hypothesis H : optimize_png_data e p o = Ok p'.

(* the header written is the header read: colour type with its palette / key, bit depth, interlacing, dimensions *)
Theorem animation_header_untouched : hdr (raw p') = hdr (raw p).
Proof.
  unfold optimize_png_data in H. destruct (animation_switches_off e (aux_chunks p) o Hact) as (Hb & Hc & Hp & Hg & Hi).
  destruct (preprocess_chunks e (aux_chunks p) o) as [aux o'] eqn:Epre. cbn [snd] in *. cbn [raw idat_data aux_chunks frames] in H.
  destruct (optimize_raw e o' (raw p) _) as [[c|]|?|?] eqn:Er; cbn [bind] in H; try discriminate.
  - match type of H with bind ?X _ = _ => destruct X as [fr|?|?] end; cbn [bind] in H; try discriminate. injection H as <-. cbn [raw].
    eapply all_off_same_header; eauto.
  - injection H as <-. reflexivity.
Qed.

(* every frame still shows the same picture, decoded under that one header (alpha-equivalent under alpha optimisation) *)
Theorem animation_frames_pixels (inflate : list Z -> option (list Z)) :
  (forall x n y, z_inflate e x n = Ok y -> inflate x = Some y /\ bytes_ok y) ->
  (forall d s, inflate (z_deflate e d s) = Some s) ->
  wf_ctype (ctype (hdr (raw p))) (depth (hdr (raw p))) ->
  Forall (fun fr => spec_raw_size (f_width fr) (f_height fr) (bpp (hdr (raw p))) (interlaced (hdr (raw p))) true <= usize_max) (frames p) ->
  Forall2 (fun a b => same_frame_fields a b /\
                      frame_same (optimize_alpha o) (frame_picture inflate (hdr (raw p)) a) (frame_picture inflate (hdr (raw p)) b))
          (frames p) (frames p').
Proof.
  intros Hz Hzd Hwf Hsz.
  destruct (optimize_png_data_aux e o p p' H) as [_ Hfields].
  assert (Hpix : Forall2 (fun a b => frame_same (optimize_alpha o) (frame_picture inflate (hdr (raw p)) a) (frame_picture inflate (hdr (raw p)) b))
                         (frames p) (frames p')).
  { unfold optimize_png_data in H. destruct (animation_switches_off e (aux_chunks p) o Hact) as (Hb & Hc & Hp & Hg & Hi).
    destruct (preprocess_keeps_lossy e (aux_chunks p) o) as [Ea _].
    destruct (preprocess_chunks e (aux_chunks p) o) as [aux o'] eqn:Epre. cbn [snd] in *. cbn [raw idat_data aux_chunks frames] in H.
    destruct (optimize_raw e o' (raw p) _) as [[c|]|?|?] eqn:Er; cbn [bind] in H; try discriminate.
    - match type of H with bind ?X _ = _ => destruct X as [fr|?|?] eqn:Efr end; cbn [bind] in H; try discriminate. injection H as <-. cbn [frames].
      pose proof (all_off_same_header e o' (raw p) _ c Hb Hc Hp Hg Hi Er) as Eh.
      pose proof (recompress_frames_top_pixels e inflate o' {| raw := c_image c; idat_data := c_cdata c; aux_chunks := aux; frames := frames p |}
                                               (c_filter c) fr Hz Hzd) as T. cbn [raw frames] in T. rewrite Eh, Ea in T.
      apply T; auto.
    - injection H as <-. cbn [frames]. clear. induction (frames p) as [|a t IH]; constructor; [|exact IH].
      destruct (frame_picture inflate (hdr (raw p)) a) as [pic|]; cbn; [|exact I].
      exists pic. split; [reflexivity|]. destruct (optimize_alpha o); [apply pic_aequiv_refl|reflexivity]. }
  clear -Hfields Hpix. induction Hfields as [|a b ta tb [Hs _] _ IH]; inversion Hpix; subst; constructor; auto.
Qed.
End Anim.

(* Proofs about the I/O model of `optimize` (C12; routing half of C04). *)
From OxiVerif Require Import Base.Common Model.Io.

(* ---------------------------------------------------------------- the executor in closed form *)
(* index (relative to the current position k) of the operation at which the run stops *)
Definition stop_index (flt : fault) (k n : nat) : option nat :=
  match flt with
  | FailAt m | KillAt m => if (k <=? m)%nat && (m <? k + n)%nat then Some (m - k)%nat else None
  | NoFault => None
  end.
Definition stop_outcome (flt : fault) : outcome := match flt with KillAt _ => Killed | _ => Done_err end.

Definition apply_all (ops : list pop) (w : world) : world := fold_left (fun w o => p_eff o w) ops w.

Lemma exec_closed flt : forall ops k final w tr,
  exec flt k ops final w tr =
  match stop_index flt k (length ops) with
  | None => {| r_trace := tr ++ map p_op ops; r_world := apply_all ops w; r_result := final |}
  | Some i => {| r_trace := tr ++ map p_op (firstn (S i) ops); r_world := apply_all (firstn i ops) w; r_result := stop_outcome flt |}
  end.
Proof.
  induction ops as [|o t IH]; intros k final w tr; cbn [exec length].
  - unfold stop_index. destruct flt as [|m|m]; cbn [map apply_all fold_left]; rewrite ?app_nil_r; try reflexivity;
      (destruct ((k <=? m)%nat && (m <? k + 0)%nat) eqn:E; [apply andb_true_iff in E; destruct E as [A B]; apply Nat.leb_le in A; apply Nat.ltb_lt in B; lia|reflexivity]).
  - destruct flt as [|m|m].
    + rewrite IH. cbn [stop_index map apply_all fold_left]. rewrite <- app_assoc. reflexivity.
    + unfold stop_index. destruct (Nat.eqb_spec m k) as [->|Hne].
      * assert (E : ((k <=? k)%nat && (k <? k + S (length t))%nat) = true) by (apply andb_true_iff; split; [apply Nat.leb_le|apply Nat.ltb_lt]; lia).
        rewrite E. rewrite Nat.sub_diag. cbn [firstn map apply_all fold_left stop_outcome]. reflexivity.
      * rewrite IH. unfold stop_index.
        destruct ((S k <=? m)%nat && (m <? S k + length t)%nat) eqn:E.
        -- apply andb_true_iff in E. destruct E as [A B]. apply Nat.leb_le in A. apply Nat.ltb_lt in B.
           assert (E2 : ((k <=? m)%nat && (m <? k + S (length t))%nat) = true) by (apply andb_true_iff; split; [apply Nat.leb_le|apply Nat.ltb_lt]; lia).
           rewrite E2. replace (m - k)%nat with (S (m - S k)) by lia. cbn [firstn map apply_all fold_left]. rewrite <- app_assoc. reflexivity.
        -- assert (E2 : ((k <=? m)%nat && (m <? k + S (length t))%nat) = false).
           { apply andb_false_iff. apply andb_false_iff in E. destruct E as [A|B]; [left; apply Nat.leb_gt in A; apply Nat.leb_gt; lia|right; apply Nat.ltb_ge in B; apply Nat.ltb_ge; lia]. }
           rewrite E2. cbn [map apply_all fold_left]. rewrite <- app_assoc. reflexivity.
    + unfold stop_index. destruct (Nat.eqb_spec m k) as [->|Hne].
      * assert (E : ((k <=? k)%nat && (k <? k + S (length t))%nat) = true) by (apply andb_true_iff; split; [apply Nat.leb_le|apply Nat.ltb_lt]; lia).
        rewrite E. rewrite Nat.sub_diag. cbn [firstn map apply_all fold_left stop_outcome]. reflexivity.
      * rewrite IH. unfold stop_index.
        destruct ((S k <=? m)%nat && (m <? S k + length t)%nat) eqn:E.
        -- apply andb_true_iff in E. destruct E as [A B]. apply Nat.leb_le in A. apply Nat.ltb_lt in B.
           assert (E2 : ((k <=? m)%nat && (m <? k + S (length t))%nat) = true) by (apply andb_true_iff; split; [apply Nat.leb_le|apply Nat.ltb_lt]; lia).
           rewrite E2. replace (m - k)%nat with (S (m - S k)) by lia. cbn [firstn map apply_all fold_left]. rewrite <- app_assoc. reflexivity.
        -- assert (E2 : ((k <=? m)%nat && (m <? k + S (length t))%nat) = false).
           { apply andb_false_iff. apply andb_false_iff in E. destruct E as [A|B]; [left; apply Nat.leb_gt in A; apply Nat.leb_gt; lia|right; apply Nat.ltb_ge in B; apply Nat.ltb_ge; lia]. }
           rewrite E2. cbn [map apply_all fold_left]. rewrite <- app_assoc. reflexivity.
Qed.

Definition effect_free (o : pop) : Prop := forall x, p_eff o x = x.

Lemma apply_effect_free ops w : Forall effect_free ops -> apply_all ops w = w.
Proof. unfold apply_all. induction 1 as [|o t Ho Ht IH]; cbn [fold_left]; [reflexivity|]. rewrite Ho. exact IH. Qed.

Lemma Forall_firstn {A} (P : A -> Prop) n l : Forall P l -> Forall P (firstn n l).
Proof. intros H. apply Forall_forall. intros x Hx. rewrite Forall_forall in H. apply H. eapply In_firstn; eauto. Qed.

(* ---------------------------------------------------------------- the plan of `optimize` *)
Section P.
Variable compute : list Z -> computed.
Variable stdin_data : list Z.
Variable now : Z.

Notation plan := (plan compute stdin_data now).
Notation optimize_io := (optimize_io compute stdin_data now).

Definition dest_ok (inp : io_in) (outp : io_out) (p : path) : Prop :=
  match outp, inp with
  | OPath (Some d) _, _ => p = d
  | OPath None _, IPath q => p = q
  | _, _ => False
  end.

(* structure of the plan: reads (no effects), then the computation, then the writes *)
Lemma plan_structure fs inp outp :
  exists reads writes,
    (fst (plan fs inp outp) = reads \/ fst (plan fs inp outp) = reads ++ [noeff OCompute] ++ writes) /\
    Forall effect_free reads /\
    Forall (fun o => forall p, p_op o = OCreate p \/ p_op o = OWrite p \/ p_op o = OChmod p \/ p_op o = OUtimes p -> dest_ok inp outp p) writes /\
    Forall (fun o => forall p, p_op o <> OCreate p /\ p_op o <> OWrite p /\ p_op o <> OChmod p /\ p_op o <> OUtimes p /\ p_op o <> OWriteStdout) reads /\
    (outp = ONone -> writes = []).
Proof.
  unfold Io.plan.
  set (preserve := match outp with OPath _ true => true | _ => false end).
  destruct (read_plan stdin_data fs inp preserve) as [reads data] eqn:Er.
  assert (Hreads : Forall effect_free reads /\
                   Forall (fun o => forall p, p_op o <> OCreate p /\ p_op o <> OWrite p /\ p_op o <> OChmod p /\ p_op o <> OUtimes p /\ p_op o <> OWriteStdout) reads).
  { unfold read_plan in Er. destruct inp as [q|].
    - destruct (lookup fs q); destruct preserve; injection Er as <- <-; split; repeat constructor; cbn; try discriminate; intros; reflexivity.
    - injection Er as <- <-. split; repeat constructor; cbn; try discriminate. }
  destruct Hreads as [Hr1 Hr2].
  destruct data as [in_data|].
  - destruct (write_plan compute now fs inp outp in_data) as [writes final] eqn:Ew.
    exists reads, writes. cbn [fst]. split; [right; reflexivity|]. split; [exact Hr1|].
    unfold write_plan in Ew. destruct (compute in_data) as [|out fo].
    + injection Ew as <- <-. repeat split; auto.
    + match type of Ew with (if ?b then _ else _) = _ => destruct b end; [injection Ew as <- <-; repeat split; auto|].
      split; [|split; [exact Hr2|intros ->; injection Ew as <- <-; reflexivity]].
      destruct outp as [| |[d|] pres]; destruct inp as [q|]; injection Ew as <- <-;
        unfold stdout_plan, file_plan, dest_ok;
        repeat match goal with |- context [match ?x with _ => _ end] => destruct x end;
        cbn [app]; repeat constructor; cbn; intros p Hp;
        repeat match goal with H : _ \/ _ |- _ => destruct H end; try discriminate;
        match goal with H : _ _ = _ _ |- _ => injection H as <-; reflexivity end.
  - exists reads, []. cbn [fst]. split; [left; reflexivity|]. split; [exact Hr1|]. split; [constructor|]. split; [exact Hr2|]. auto.
Qed.

(* C12: whatever fails, or wherever the process dies, up to and including the computation (also when
   reading or optimising fails by itself), the file system and standard output are exactly as before *)
Theorem untouched_until_computed flt fs inp outp reads writes :
  fst (plan fs inp outp) = reads \/ fst (plan fs inp outp) = reads ++ [noeff OCompute] ++ writes ->
  Forall effect_free reads ->
  (* the run stops at an operation of the read phase or at the computation … *)
  (forall i, stop_index flt 0 (length (fst (plan fs inp outp))) = Some i -> (i <= length reads)%nat) ->
  (* … or it is not stopped but the plan ends there (reading / optimising failed, nothing to write) *)
  (stop_index flt 0 (length (fst (plan fs inp outp))) = None -> writes = [] \/ fst (plan fs inp outp) = reads) ->
  r_world (optimize_io flt fs inp outp) = (fs, []).
Proof.
  intros Hs Hr Hstop Hnone. unfold Io.optimize_io. destruct (plan fs inp outp) as [ops final] eqn:Ep. cbn [fst] in *.
  rewrite exec_closed.
  destruct (stop_index flt 0 (length ops)) as [i|] eqn:Ei.
  - cbn [r_world]. apply apply_effect_free. specialize (Hstop i eq_refl).
    destruct Hs as [-> | ->].
    + apply Forall_firstn. exact Hr.
    + rewrite firstn_app. replace (i - length reads)%nat with O by lia. cbn [firstn]. rewrite app_nil_r. apply Forall_firstn. exact Hr.
  - cbn [r_world]. apply apply_effect_free. destruct (Hnone eq_refl) as [-> | E].
    + destruct Hs as [-> | ->]; [exact Hr|]. apply Forall_app. split; [exact Hr|]. repeat constructor.
    + rewrite E. exact Hr.
Qed.

(* any failure of an operation the process performs -- read, create, chmod, write, flush, utimes,
   on a file or on standard output -- is reported as an error, never as success *)
Theorem failures_reported fs inp outp k :
  (k < length (fst (plan fs inp outp)))%nat ->
  r_result (optimize_io (FailAt k) fs inp outp) = Done_err.
Proof.
  intros Hk. unfold Io.optimize_io. destruct (plan fs inp outp) as [ops final]. cbn [fst] in Hk.
  rewrite exec_closed. unfold stop_index.
  assert (E : ((0 <=? k)%nat && (k <? 0 + length ops)%nat) = true) by (apply andb_true_iff; split; [apply Nat.leb_le|apply Nat.ltb_lt]; lia).
  rewrite E. reflexivity.
Qed.

(* --pretend: nothing is ever touched, whatever happens *)
Theorem pretend_touches_nothing flt fs inp :
  r_world (optimize_io flt fs inp ONone) = (fs, []).
Proof.
  destruct (plan_structure fs inp ONone) as (reads & writes & Hs & Hr & _ & _ & Hw). specialize (Hw eq_refl). subst writes.
  unfold Io.optimize_io. destruct (plan fs inp ONone) as [ops final]. cbn [fst] in Hs. rewrite exec_closed.
  assert (Hall : Forall effect_free ops).
  { destruct Hs as [-> | ->]; [exact Hr|]. apply Forall_app. split; [exact Hr|]. repeat constructor. }
  destruct (stop_index flt 0 (length ops)); cbn [r_world]; apply apply_effect_free; [apply Forall_firstn|]; exact Hall.
Qed.

(* only the destination is ever created / written / chmod-ed / touched; with a separate destination
   the input is never opened for writing *)
Theorem only_destination_written flt fs inp outp o p :
  In o (r_trace (optimize_io flt fs inp outp)) ->
  (o = OCreate p \/ o = OWrite p \/ o = OChmod p \/ o = OUtimes p) -> dest_ok inp outp p.
Proof.
  intros Hin Ho.
  destruct (plan_structure fs inp outp) as (reads & writes & Hs & _ & Hw & Hr2 & _).
  unfold Io.optimize_io in Hin. destruct (plan fs inp outp) as [ops final]. cbn [fst] in Hs. rewrite exec_closed in Hin.
  assert (Hops : In o (map p_op ops)).
  { destruct (stop_index flt 0 (length ops)); cbn [r_trace app] in Hin; [|exact Hin].
    apply in_map_iff in Hin. destruct Hin as [x [<- Hx]]. apply in_map. eapply In_firstn; eauto. }
  apply in_map_iff in Hops. destruct Hops as [x [Ex Hx]].
  assert (Hcase : In x reads \/ x = noeff OCompute \/ In x writes).
  { destruct Hs as [-> | ->]; [left; exact Hx|]. apply in_app_or in Hx. destruct Hx as [Hx|[<-|Hx]]; auto. }
  destruct Hcase as [Hx1|[->|Hx1]].
  - rewrite Forall_forall in Hr2. destruct (Hr2 x Hx1 p) as (A & B & C & D & _). rewrite Ex in *.
    destruct Ho as [->|[->|[->| ->]]]; contradiction.
  - cbn in Ex. subst o. destruct Ho as [H|[H|[H|H]]]; discriminate.
  - rewrite Forall_forall in Hw. apply (Hw x Hx1 p). rewrite Ex. exact Ho.
Qed.

(* in place and no improvement: no write operation at all (C04, routing half) *)
Theorem no_write_when_not_improved_in_place fs q pres flt in_data out :
  lookup fs q = Some in_data -> compute (f_content in_data) = COut out true ->
  forall o, In o (r_trace (optimize_io flt fs (IPath q) (OPath None pres))) ->
    match o with OCreate _ | OWrite _ | OChmod _ | OUtimes _ | OWriteStdout => False | _ => True end.
Proof.
  intros Hl Hc o Hin. unfold Io.optimize_io, Io.plan, read_plan, write_plan in Hin. rewrite Hl in Hin.
  destruct pres; rewrite Hc in Hin; cbn [andb app] in Hin; rewrite exec_closed in Hin;
    match type of Hin with context [stop_index ?f ?k ?n] => destruct (stop_index f k n) as [i|] end;
    cbn [r_trace app map] in Hin;
    try (apply in_map_iff in Hin; destruct Hin as [x [<- Hx]]; apply In_firstn in Hx);
    repeat match goal with H : In _ (_ :: _) |- _ => destruct H as [<-|H] | H : In _ [] |- _ => destruct H | H : _ \/ _ |- _ => destruct H as [<-|H] | H : False |- _ => destruct H end;
    cbn; auto.
Qed.

(* a different destination receives the ORIGINAL bytes when there is no improvement (C04) *)
Theorem copy_of_original_when_not_improved fs q d pres fin out :
  lookup fs q = Some fin -> compute (f_content fin) = COut out true -> (d =? q) = false ->
  exists g, lookup (fst (r_world (optimize_io NoFault fs (IPath q) (OPath (Some d) pres)))) d = Some g /\ f_content g = f_content fin.
Proof.
  intros Hl Hc Hd. unfold Io.optimize_io, Io.plan, read_plan, write_plan. rewrite Hl.
  destruct pres; rewrite Hc, Hd; cbn [andb app]; rewrite exec_closed; cbn [stop_index r_world];
    unfold apply_all, file_plan; rewrite ?Hl; cbn [app fold_left p_eff noeff fst snd];
    unfold eff_create, eff_chmod, eff_write, eff_utimes; cbn [fst snd lookup update];
    repeat (rewrite ?Z.eqb_refl; cbn [fst snd lookup update remove]); cbn; rewrite ?Z.eqb_refl; eexists; split; reflexivity.
Qed.

(* --preserve gives the destination the input's permission bits and timestamps *)
Theorem preserve_copies_mode_and_times fs q d fin :
  lookup fs q = Some fin ->
  r_result (optimize_io NoFault fs (IPath q) (OPath (Some d) true)) = Done_ok ->
  (exists g, lookup (fst (r_world (optimize_io NoFault fs (IPath q) (OPath (Some d) true)))) d = Some g /\
             f_mode g = f_mode fin /\ f_mtime g = f_mtime fin /\ f_atime g = f_atime fin) \/
  (* … unless nothing was written (in place, not improved) *)
  r_world (optimize_io NoFault fs (IPath q) (OPath (Some d) true)) = (fs, []).
Proof.
  intros Hl. unfold Io.optimize_io, Io.plan, read_plan, write_plan. rewrite Hl.
  destruct (compute (f_content fin)) as [|out fo]; cbn [app]; rewrite ?exec_closed; cbn [stop_index r_result r_world]; [discriminate|].
  destruct (fo && (d =? q)) eqn:E; cbn [app]; rewrite exec_closed; cbn [stop_index r_result r_world]; intros _.
  - right. reflexivity.
  - left. unfold apply_all, file_plan. rewrite ?Hl. cbn [app fold_left p_eff noeff fst snd].
    unfold eff_create, eff_chmod, eff_write, eff_utimes; cbn [fst snd lookup update];
    repeat (rewrite ?Z.eqb_refl; cbn [fst snd lookup update remove]); cbn; rewrite ?Z.eqb_refl. eexists. split; [reflexivity|]. cbn. auto.
Qed.
End P.

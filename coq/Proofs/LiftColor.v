(* Image-level semantic theorems for the byte-aligned colour-type reductions (C01): RGB(A) -> gray(A),
   alpha channel removal, truecolour/gray -> indexed, indexed -> channels.  Each is obtained from a
   per-pixel statement through the lifting theorem of ImageLift.v. *)
From OxiVerif Require Import Base.Common Spec.Adam7 Spec.Sem Model.Types Model.ScanLines Model.BitDepth Model.Color
  Proofs.Bridge Proofs.PixelProofs Proofs.ImageLift Proofs.LiftReductions.

(* ---------------------------------------------------------------- well-formed images *)
Definition rgba8_ok (c : rgba8) : Prop :=
  let '(r, g, b, a) := c in byte_ok r /\ byte_ok g /\ byte_ok b /\ byte_ok a.

(* the colour key only uses the bits a sample has; palette entries are bytes *)
Definition wf_ctype (c : color_type) (d : Z) : Prop :=
  match c with
  | Gray (Some k) => 0 <= k < 2 ^ d
  | RGB (Some (r, g, b)) => 0 <= r < 2 ^ d /\ 0 <= g < 2 ^ d /\ 0 <= b < 2 ^ d
  | Indexed pal => Forall rgba8_ok pal /\ (length pal <= 256)%nat
  | _ => True
  end.

Definition wf (img : image) : Prop := bytes_ok (data img) /\ wf_ctype (ctype (hdr img)) (depth (hdr img)).

(* ---------------------------------------------------------------- the general byte-aligned lift *)
Lemma flat_map_concat_map' {A B} (f : A -> list B) l : flat_map f l = concat (map f l).
Proof. apply flat_map_concat_map. Qed.

Theorem sem_pixelwise (img img' : image) (B B' : nat) (g : list Z -> list Z) pic :
  (0 < B)%nat -> (0 < B')%nat ->
  width (hdr img') = width (hdr img) -> height (hdr img') = height (hdr img) ->
  interlaced (hdr img') = interlaced (hdr img) ->
  depth (hdr img) * channels_per_pixel (ctype (hdr img)) = 8 * Z.of_nat B ->
  depth (hdr img') * channels_per_pixel (ctype (hdr img')) = 8 * Z.of_nat B' ->
  depth_legal (spec_color_of (ctype (hdr img'))) (depth (hdr img')) = true ->
  data img' = concat (map g (chunks_exact B (data img))) ->
  (forall px, In px (chunks_exact B (data img)) -> length px = B ->
     length (g px) = B' /\
     pxcol (spec_color_of (ctype (hdr img'))) (depth (hdr img')) (g px)
     = pxcol (spec_color_of (ctype (hdr img))) (depth (hdr img)) px) ->
  sem img = Some pic -> sem img' = Some pic.
Proof.
  intros HB HB' Hw Hh Hil Hbits Hbits' Hlegal Hdata Hpx Hsem.
  unfold sem in *. rewrite Hw, Hh, Hil.
  rewrite spec_sem_gsem in Hsem. rewrite spec_sem_gsem, Hlegal. cbn [negb].
  destruct (negb (depth_legal (spec_color_of (ctype (hdr img))) (depth (hdr img)))); [discriminate|].
  rewrite spec_channels_of in *. rewrite Hbits in Hsem. rewrite Hbits'.
  destruct (gsem_some_length _ _ _ _ B _ _ HB Hsem) as [k Hlen].
  destruct (chunks_exact_spec B (data img) k HB Hlen) as (Hc & Hu & Hn).
  rewrite <- Hc in Hsem. rewrite Hdata.
  apply (pixelwise_gsem _ _ _ (pixel_color (spec_color_of (ctype (hdr img))) (depth (hdr img))) _ B B' g _ pic); auto.
  intros px Hin. rewrite Forall_forall in Hu. apply Hpx; auto.
Qed.

(* ---------------------------------------------------------------- samples of byte-aligned pixels *)
Lemma pxcol8 c px : bytes_ok px -> pxcol c 8 px = color_of_samples c 8 px.
Proof. intros H. unfold pxcol, pixel_color. change (Z.to_nat 8) with 8%nat. rewrite samples8 by exact H. reflexivity. Qed.

Lemma pxcol16 c (n : nat) px : length px = (2 * n)%nat -> bytes_ok px ->
  pxcol c 16 px = color_of_samples c 16 (map (fun p => fst p * 256 + snd p) (pairs px)).
Proof. intros Hl H. unfold pxcol, pixel_color. change (Z.to_nat 16) with 16%nat. rewrite (samples16 n) by auto. reflexivity. Qed.

Lemma sem_some_legal img pic : sem img = Some pic -> depth_legal (spec_color_of (ctype (hdr img))) (depth (hdr img)) = true.
Proof. unfold sem, spec_sem. destruct (depth_legal _ _); [reflexivity|discriminate]. Qed.

Lemma legal_8_16 c d : depth_legal (spec_color_of c) d = true -> (is_rgb c = true \/ has_alpha c = true) -> d = 8 \/ d = 16.
Proof. destruct c; cbn; intros H [F|F]; try discriminate; apply orb_true_iff in H; destruct H as [H|H]; apply Z.eqb_eq in H; auto. Qed.

Lemma bytes_ok_in l x : bytes_ok l -> In x l -> 0 <= x < 256.
Proof. unfold bytes_ok. rewrite Forall_forall. intros H Hx. apply H. exact Hx. Qed.

Lemma bytes_ok_chunk (B : nat) data px : bytes_ok data -> In px (chunks_exact B data) -> bytes_ok px.
Proof.
  unfold chunks_exact. destruct B as [|B]; [intros _ []|].
  generalize (length data) at 1. intros fuel. revert data. induction fuel as [|f IH]; intros data Hok Hin; cbn [chunks_exact_fuel] in Hin; [destruct Hin|].
  destruct (length data <? S B)%nat; [destruct Hin|]. destruct Hin as [<-|Hin].
  - apply bytes_ok_firstn. exact Hok.
  - apply (IH (skipn (S B) data)); auto. apply bytes_ok_skipn. exact Hok.
Qed.

(* ---------------------------------------------------------------- RGB(A) -> gray(A) *)
Definition gray_ctype (c : color_type) : color_type :=
  match c with
  | RGB key => Gray (match key with Some (r, g, b) => if (r =? g) && (g =? b) then Some r else None | None => None end)
  | _ => GrayAlpha
  end.

Lemma pixel_rgb_gray8 c px : is_rgb c = true -> wf_ctype c 8 -> bytes_ok px ->
  length px = Z.to_nat (channels_per_pixel c) ->
  list_Z_eqb (firstn 1 px) (firstn 1 (skipn 1 px)) && list_Z_eqb (firstn 1 (skipn 1 px)) (firstn 1 (skipn 2 px)) = true ->
  pxcol (spec_color_of (gray_ctype c)) 8 (skipn 2 px) = pxcol (spec_color_of c) 8 px.
Proof.
  intros Hrgb Hwf Hok Hl Hg. rewrite !pxcol8 by (auto using bytes_ok_skipn).
  apply andb_true_iff in Hg. destruct Hg as [G1 G2]. unfold list_Z_eqb in *. apply list_eqb_Z_spec in G1, G2.
  destruct c as [| key | | |]; try discriminate; cbn [channels_per_pixel] in Hl.
  - destruct px as [|r [|g [|b [|? ?]]]]; try (cbn in Hl; lia). cbn in G1, G2. injection G1 as ->. injection G2 as ->.
    cbn [skipn gray_ctype spec_color_of]. symmetry.
    assert (Hb : 0 <= b < 2 ^ 8) by (change (2 ^ 8) with 256; eapply bytes_ok_in; eauto; cbn; auto).
    apply (pixel_rgb_to_gray key 8 b); auto.
    intros kr kg kb ->. exact Hwf.
  - destruct px as [|r [|g [|b [|a [|? ?]]]]]; try (cbn in Hl; lia). cbn in G1, G2. injection G1 as ->. injection G2 as ->.
    cbn [skipn gray_ctype spec_color_of]. symmetry. apply pixel_rgba_to_gray_alpha.
Qed.

Lemma pixel_rgb_gray16 c px : is_rgb c = true -> wf_ctype c 16 -> bytes_ok px ->
  length px = (Z.to_nat (channels_per_pixel c) * 2)%nat ->
  list_Z_eqb (firstn 2 px) (firstn 2 (skipn 2 px)) && list_Z_eqb (firstn 2 (skipn 2 px)) (firstn 2 (skipn 4 px)) = true ->
  pxcol (spec_color_of (gray_ctype c)) 16 (skipn 4 px) = pxcol (spec_color_of c) 16 px.
Proof.
  intros Hrgb Hwf Hok Hl Hg.
  apply andb_true_iff in Hg. destruct Hg as [G1 G2]. unfold list_Z_eqb in *. apply list_eqb_Z_spec in G1, G2.
  destruct c as [| key | | |]; try discriminate; cbn [channels_per_pixel] in Hl.
  - destruct px as [|r1 [|r2 [|g1 [|g2 [|b1 [|b2 [|? ?]]]]]]]; try (cbn in Hl; lia). cbn in G1, G2. injection G1 as -> ->. injection G2 as -> ->.
    rewrite (pxcol16 _ 1) by (auto using bytes_ok_skipn). rewrite (pxcol16 _ 3) by auto.
    cbn [skipn pairs map fst snd gray_ctype spec_color_of]. symmetry.
    assert (H1 : 0 <= b1 < 256) by (eapply bytes_ok_in; eauto; cbn; auto).
    assert (H2 : 0 <= b2 < 256) by (eapply bytes_ok_in; eauto; cbn; auto 10).
    apply (pixel_rgb_to_gray key 16 (b1 * 256 + b2)); auto; [change (2 ^ 16) with 65536; lia|].
    intros kr kg kb ->. exact Hwf.
  - destruct px as [|r1 [|r2 [|g1 [|g2 [|b1 [|b2 [|a1 [|a2 [|? ?]]]]]]]]]; try (cbn in Hl; lia). cbn in G1, G2. injection G1 as -> ->. injection G2 as -> ->.
    rewrite (pxcol16 _ 2) by (auto using bytes_ok_skipn). rewrite (pxcol16 _ 4) by auto.
    cbn [skipn pairs map fst snd gray_ctype spec_color_of]. symmetry. apply pixel_rgba_to_gray_alpha.
Qed.

Lemma forallb_chunk {A} (f : A -> bool) l x : forallb f l = true -> In x l -> f x = true.
Proof. intros H. rewrite forallb_forall in H. apply H. Qed.

Lemma wf_gray_ctype c d : wf_ctype c d -> wf_ctype (gray_ctype c) d.
Proof.
  destruct c as [|[[[r g] b]|]| | |]; cbn; auto. intros (Hr & Hg & Hb). destruct ((r =? g) && (g =? b)); cbn; auto.
Qed.

Theorem reduced_rgb_to_grayscale_sem img img' pic : wf img ->
  reduced_rgb_to_grayscale img = Some img' -> sem img = Some pic -> sem img' = Some pic /\ wf img'.
Proof.
  intros [Hok Hwf] Hred Hsem. unfold reduced_rgb_to_grayscale in Hred.
  destruct (is_rgb (ctype (hdr img))) eqn:Ergb; cbn [negb] in Hred; [|discriminate].
  set (bd := Z.to_nat (bytes_per_channel img)) in *.
  set (B := (Z.to_nat (channels img) * bd)%nat) in *.
  set (pixels := chunks_exact B (data img)) in *.
  match type of Hred with (if negb (forallb ?f _) then _ else _) = _ => set (gray_px := f) in * end.
  destruct (forallb gray_px pixels) eqn:Eall; cbn [negb] in Hred; [|discriminate].
  injection Hred as <-.
  pose proof (sem_some_legal _ _ Hsem) as Hlegal.
  destruct (legal_8_16 _ _ Hlegal (or_introl Ergb)) as [Hd|Hd].
  - (* 8 bit *)
    assert (Hbd : bd = 1%nat) by (unfold bd, bytes_per_channel; rewrite Hd; reflexivity).
    split.
    + apply (sem_pixelwise img _ B (Z.to_nat (channels_per_pixel (gray_ctype (ctype (hdr img))))) (skipn (2 * bd)) pic); cbn [hdr data width height interlaced depth ctype with_ctype]; auto.
      * unfold B, channels. rewrite Hbd. destruct (ctype (hdr img)); try discriminate; cbn [channels_per_pixel gray_ctype]; lia.
      * destruct (ctype (hdr img)); try discriminate; cbn [channels_per_pixel gray_ctype]; lia.
      * unfold B, channels. rewrite Hbd, Hd. destruct (ctype (hdr img)); try discriminate; cbn [channels_per_pixel gray_ctype]; lia.
      * rewrite Hd. destruct (ctype (hdr img)); try discriminate; cbn [channels_per_pixel gray_ctype]; lia.
      * rewrite Hd. destruct (ctype (hdr img)) as [|[[[? ?] ?]|]| | |]; try discriminate; cbn; try reflexivity; try (destruct (_ && _); reflexivity).
      * fold (gray_ctype (ctype (hdr img))). rewrite flat_map_concat_map. reflexivity.
      * fold (gray_ctype (ctype (hdr img))). intros px Hin Hlen. rewrite Hd, Hbd.
        assert (Hpok : bytes_ok px) by (eapply bytes_ok_chunk; eauto).
        split.
        -- rewrite skipn_length, Hlen. unfold B, channels. rewrite Hbd. destruct (ctype (hdr img)); try discriminate; cbn [channels_per_pixel gray_ctype]; lia.
        -- apply pixel_rgb_gray8; auto.
           ++ rewrite <- Hd. exact Hwf.
           ++ rewrite Hlen. unfold B, channels. rewrite Hbd. lia.
           ++ pose proof (forallb_chunk _ _ _ Eall Hin) as G. unfold gray_px in G. rewrite Hbd in G. exact G.
    + split; cbn [data hdr ctype depth with_ctype].
      * unfold bytes_ok. apply Forall_forall. intros x Hx. apply in_flat_map in Hx. destruct Hx as [px [Hpx Hx]].
        eapply bytes_ok_in; [eapply bytes_ok_chunk; eauto|]. eapply In_skipn; eauto.
      * fold (gray_ctype (ctype (hdr img))). apply wf_gray_ctype. exact Hwf.
  - (* 16 bit *)
    assert (Hbd : bd = 2%nat) by (unfold bd, bytes_per_channel; rewrite Hd; reflexivity).
    split.
    + apply (sem_pixelwise img _ B (Z.to_nat (channels_per_pixel (gray_ctype (ctype (hdr img)))) * 2) (skipn (2 * bd)) pic); cbn [hdr data width height interlaced depth ctype with_ctype]; auto.
      * unfold B, channels. rewrite Hbd. destruct (ctype (hdr img)); try discriminate; cbn [channels_per_pixel gray_ctype]; lia.
      * destruct (ctype (hdr img)); try discriminate; cbn [channels_per_pixel gray_ctype]; lia.
      * unfold B, channels. rewrite Hbd, Hd. destruct (ctype (hdr img)); try discriminate; cbn [channels_per_pixel gray_ctype]; lia.
      * rewrite Hd. destruct (ctype (hdr img)); try discriminate; cbn [channels_per_pixel gray_ctype]; lia.
      * rewrite Hd. destruct (ctype (hdr img)) as [|[[[? ?] ?]|]| | |]; try discriminate; cbn; try reflexivity; try (destruct (_ && _); reflexivity).
      * fold (gray_ctype (ctype (hdr img))). rewrite flat_map_concat_map. reflexivity.
      * fold (gray_ctype (ctype (hdr img))). intros px Hin Hlen. rewrite Hd, Hbd.
        assert (Hpok : bytes_ok px) by (eapply bytes_ok_chunk; eauto).
        split.
        -- rewrite skipn_length, Hlen. unfold B, channels. rewrite Hbd. destruct (ctype (hdr img)); try discriminate; cbn [channels_per_pixel gray_ctype]; lia.
        -- apply pixel_rgb_gray16; auto.
           ++ rewrite <- Hd. exact Hwf.
           ++ rewrite Hlen. unfold B, channels. rewrite Hbd. lia.
           ++ pose proof (forallb_chunk _ _ _ Eall Hin) as G. unfold gray_px in G. rewrite Hbd in G. exact G.
    + split; cbn [data hdr ctype depth with_ctype].
      * unfold bytes_ok. apply Forall_forall. intros x Hx. apply in_flat_map in Hx. destruct Hx as [px [Hpx Hx]].
        eapply bytes_ok_in; [eapply bytes_ok_chunk; eauto|]. eapply In_skipn; eauto.
      * fold (gray_ctype (ctype (hdr img))). apply wf_gray_ctype. exact Hwf.
Qed.

(* ---------------------------------------------------------------- alpha channel removal (lossless) *)
Lemma alpha_scan_false colored pixels : forall ht used ht' used',
  alpha_scan false colored pixels ht used = SRok ht' used' ->
  ht' = ht /\ forall px, In px pixels -> existsb (fun b => negb (b =? 255)) (skipn colored px) = false.
Proof.
  induction pixels as [|px t IH]; intros ht used ht' used' H; cbn [alpha_scan andb] in H.
  - injection H as <- <-. split; [reflexivity|intros ? []].
  - destruct (existsb (fun b => negb (b =? 255)) (skipn colored px)) eqn:E; [discriminate|].
    assert (H' : alpha_scan false colored t ht used = SRok ht' used') by (destruct px; exact H).
    destruct (IH _ _ _ _ H') as [-> Hall]. split; [reflexivity|]. intros q [<-|Hq]; auto.
Qed.

Definition noalpha_ctype (c : color_type) : color_type := match c with GrayAlpha => Gray None | _ => RGB None end.

Lemma existsb_false_all255 l : existsb (fun b => negb (b =? 255)) l = false -> forall x, In x l -> x = 255.
Proof.
  intros H x Hx. destruct (x =? 255) eqn:E; [apply Z.eqb_eq; exact E|].
  assert (existsb (fun b => negb (b =? 255)) l = true) by (apply existsb_exists; exists x; rewrite E; auto). congruence.
Qed.

Lemma pixel_drop_alpha8 c px : has_alpha c = true -> bytes_ok px -> length px = Z.to_nat (channels_per_pixel c) ->
  existsb (fun b => negb (b =? 255)) (skipn (Z.to_nat (channels_per_pixel c) - 1) px) = false ->
  pxcol (spec_color_of (noalpha_ctype c)) 8 (firstn (Z.to_nat (channels_per_pixel c) - 1) px) = pxcol (spec_color_of c) 8 px.
Proof.
  intros Ha Hok Hl Hex. rewrite !pxcol8 by (auto using bytes_ok_firstn).
  pose proof (existsb_false_all255 _ Hex) as A.
  destruct c; try discriminate; cbn [channels_per_pixel] in *.
  - change (Z.to_nat 2 - 1)%nat with 1%nat in *.
    destruct px as [|v [|a [|? ?]]]; try (cbn in Hl; lia). cbn in A. rewrite (A a) by auto.
    cbn [firstn noalpha_ctype spec_color_of]. symmetry. apply (pixel_drop_alpha_gray 8). auto.
  - change (Z.to_nat 4 - 1)%nat with 3%nat in *.
    destruct px as [|r [|g [|b [|a [|? ?]]]]]; try (cbn in Hl; lia). cbn in A. rewrite (A a) by auto.
    cbn [firstn noalpha_ctype spec_color_of]. symmetry. apply (pixel_drop_alpha_rgb 8). auto.
Qed.

Lemma pixel_drop_alpha16 c px : has_alpha c = true -> bytes_ok px -> length px = (Z.to_nat (channels_per_pixel c) * 2)%nat ->
  existsb (fun b => negb (b =? 255)) (skipn (Z.to_nat (channels_per_pixel c) * 2 - 2) px) = false ->
  pxcol (spec_color_of (noalpha_ctype c)) 16 (firstn (Z.to_nat (channels_per_pixel c) * 2 - 2) px) = pxcol (spec_color_of c) 16 px.
Proof.
  intros Ha Hok Hl Hex.
  pose proof (existsb_false_all255 _ Hex) as A.
  destruct c; try discriminate; cbn [channels_per_pixel] in *.
  - change (Z.to_nat 2 * 2 - 2)%nat with 2%nat in *.
    destruct px as [|v1 [|v2 [|a1 [|a2 [|? ?]]]]]; try (cbn in Hl; lia). cbn in A. pose proof (A a1 ltac:(auto)). pose proof (A a2 ltac:(auto)). subst a1 a2.
    cbn [firstn]. rewrite (pxcol16 _ 1) by (auto; apply (bytes_ok_firstn 2) in Hok; exact Hok). rewrite (pxcol16 _ 2) by auto.
    cbn [firstn pairs map fst snd noalpha_ctype spec_color_of]. symmetry. apply (pixel_drop_alpha_gray 16). auto.
  - change (Z.to_nat 4 * 2 - 2)%nat with 6%nat in *.
    destruct px as [|r1 [|r2 [|g1 [|g2 [|b1 [|b2 [|a1 [|a2 [|? ?]]]]]]]]]; try (cbn in Hl; lia). cbn in A. pose proof (A a1 ltac:(auto 10)). pose proof (A a2 ltac:(auto 10)). subst a1 a2.
    cbn [firstn]. rewrite (pxcol16 _ 3) by (auto; apply (bytes_ok_firstn 6) in Hok; exact Hok). rewrite (pxcol16 _ 4) by auto.
    cbn [firstn pairs map fst snd noalpha_ctype spec_color_of]. symmetry. apply (pixel_drop_alpha_rgb 16). auto.
Qed.

Theorem reduced_alpha_channel_sem img img' pic : wf img ->
  reduced_alpha_channel img false = Some img' -> sem img = Some pic -> sem img' = Some pic /\ wf img'.
Proof.
  intros [Hok Hwf] Hred Hsem. unfold reduced_alpha_channel in Hred.
  destruct (has_alpha (ctype (hdr img))) eqn:Ea; cbn [negb] in Hred; [|discriminate].
  set (bd := Z.to_nat (bytes_per_channel img)) in *.
  set (B := (Z.to_nat (channels img) * bd)%nat) in *.
  set (pixels := chunks_exact B (data img)) in *.
  destruct (alpha_scan false (B - bd) pixels false (repeat false 256)) as [|ht used] eqn:Escan; [discriminate|].
  destruct (alpha_scan_false _ _ _ _ _ _ Escan) as [-> Hall].
  injection Hred as <-.
  pose proof (sem_some_legal _ _ Hsem) as Hlegal.
  assert (Hct : (match ctype (hdr img) with GrayAlpha => Gray None | _ => RGB None end) = noalpha_ctype (ctype (hdr img))) by reflexivity.
  rewrite Hct. clear Hct.
  assert (Hwf' : wf {| hdr := with_ctype (hdr img) (noalpha_ctype (ctype (hdr img))); data := flat_map (fun px => firstn (B - bd) px) pixels |}).
  { split; cbn [data hdr ctype depth with_ctype].
    - unfold bytes_ok. apply Forall_forall. intros x Hx. apply in_flat_map in Hx. destruct Hx as [px [Hpx Hx]].
      eapply bytes_ok_in; [eapply bytes_ok_chunk; eauto|]. eapply In_firstn; eauto.
    - destruct (ctype (hdr img)); cbn; auto. }
  split; [|exact Hwf'].
  destruct (legal_8_16 _ _ Hlegal (or_intror Ea)) as [Hd|Hd].
  - assert (Hbd : bd = 1%nat) by (unfold bd, bytes_per_channel; rewrite Hd; reflexivity).
    apply (sem_pixelwise img _ B (Z.to_nat (channels_per_pixel (noalpha_ctype (ctype (hdr img))))) (firstn (B - bd)) pic); cbn [hdr data width height interlaced depth ctype with_ctype]; auto.
    + unfold B, channels. rewrite Hbd. destruct (ctype (hdr img)); try discriminate; cbn [channels_per_pixel]; lia.
    + destruct (ctype (hdr img)); try discriminate; cbn [channels_per_pixel noalpha_ctype]; lia.
    + unfold B, channels. rewrite Hbd, Hd. destruct (ctype (hdr img)); try discriminate; cbn [channels_per_pixel]; lia.
    + rewrite Hd. destruct (ctype (hdr img)); try discriminate; cbn [channels_per_pixel noalpha_ctype]; lia.
    + rewrite Hd. destruct (ctype (hdr img)); try discriminate; reflexivity.
    + rewrite flat_map_concat_map. reflexivity.
    + intros px Hin Hlen. rewrite Hd.
      assert (Hpok : bytes_ok px) by (eapply bytes_ok_chunk; eauto).
      assert (HB : B = Z.to_nat (channels_per_pixel (ctype (hdr img)))) by (unfold B, channels; lia).
      split.
      * rewrite firstn_length, Hlen, HB, Hbd. destruct (ctype (hdr img)); try discriminate; cbn [channels_per_pixel noalpha_ctype]; lia.
      * rewrite Hbd, HB. apply pixel_drop_alpha8; auto; [lia|]. rewrite <- HB, <- Hbd. apply Hall. exact Hin.
  - assert (Hbd : bd = 2%nat) by (unfold bd, bytes_per_channel; rewrite Hd; reflexivity).
    apply (sem_pixelwise img _ B (Z.to_nat (channels_per_pixel (noalpha_ctype (ctype (hdr img)))) * 2) (firstn (B - bd)) pic); cbn [hdr data width height interlaced depth ctype with_ctype]; auto.
    + unfold B, channels. rewrite Hbd. destruct (ctype (hdr img)); try discriminate; cbn [channels_per_pixel]; lia.
    + destruct (ctype (hdr img)); try discriminate; cbn [channels_per_pixel noalpha_ctype]; lia.
    + unfold B, channels. rewrite Hbd, Hd. destruct (ctype (hdr img)); try discriminate; cbn [channels_per_pixel]; lia.
    + rewrite Hd. destruct (ctype (hdr img)); try discriminate; cbn [channels_per_pixel noalpha_ctype]; lia.
    + rewrite Hd. destruct (ctype (hdr img)); try discriminate; reflexivity.
    + rewrite flat_map_concat_map. reflexivity.
    + intros px Hin Hlen. rewrite Hd.
      assert (Hpok : bytes_ok px) by (eapply bytes_ok_chunk; eauto).
      assert (HB : B = (Z.to_nat (channels_per_pixel (ctype (hdr img))) * 2)%nat) by (unfold B, channels; lia).
      split.
      * rewrite firstn_length, Hlen, HB, Hbd. destruct (ctype (hdr img)); try discriminate; cbn [channels_per_pixel noalpha_ctype]; lia.
      * rewrite Hbd, HB. apply pixel_drop_alpha16; auto; [lia|]. rewrite <- HB, <- Hbd. apply Hall. exact Hin.
Qed.

(* ---------------------------------------------------------------- lift by equality of the colour lists *)
Theorem sem_samecols (img img' : image) (B B' : nat) (pxs' : list (list Z)) pic :
  (0 < B)%nat -> (0 < B')%nat ->
  width (hdr img') = width (hdr img) -> height (hdr img') = height (hdr img) ->
  interlaced (hdr img') = interlaced (hdr img) ->
  depth (hdr img) * channels_per_pixel (ctype (hdr img)) = 8 * Z.of_nat B ->
  depth (hdr img') * channels_per_pixel (ctype (hdr img')) = 8 * Z.of_nat B' ->
  depth_legal (spec_color_of (ctype (hdr img'))) (depth (hdr img')) = true ->
  data img' = concat pxs' -> Forall (fun px => length px = B') pxs' ->
  map (pxcol (spec_color_of (ctype (hdr img'))) (depth (hdr img'))) pxs'
  = map (pxcol (spec_color_of (ctype (hdr img))) (depth (hdr img))) (chunks_exact B (data img)) ->
  sem img = Some pic -> sem img' = Some pic.
Proof.
  intros HB HB' Hw Hh Hil Hbits Hbits' Hlegal Hdata Hu' Hcols Hsem.
  unfold sem in *. rewrite Hw, Hh, Hil.
  rewrite spec_sem_gsem in Hsem. rewrite spec_sem_gsem, Hlegal. cbn [negb].
  destruct (negb (depth_legal (spec_color_of (ctype (hdr img))) (depth (hdr img)))); [discriminate|].
  rewrite spec_channels_of in *. rewrite Hbits in Hsem. rewrite Hbits'.
  destruct (gsem_some_length _ _ _ _ B _ _ HB Hsem) as [k Hlen].
  destruct (chunks_exact_spec B (data img) k HB Hlen) as (Hc & Hu & Hn).
  rewrite <- Hc in Hsem. rewrite Hdata, <- Hsem.
  apply samecols_gsem; auto.
Qed.

(* ---------------------------------------------------------------- truecolour / gray -> indexed *)
Lemma index_of_spec (x : list Z) l : forall i j, index_of list_Z_eqb x l i = Some j ->
  (i <= j)%nat /\ nth_error l (j - i) = Some x.
Proof.
  induction l as [|a t IH]; intros i j H; cbn [index_of] in H; [discriminate|].
  destruct (list_Z_eqb a x) eqn:E.
  - injection H as <-. unfold list_Z_eqb in E. apply list_eqb_Z_spec in E. subst a. rewrite Nat.sub_diag. split; [lia|reflexivity].
  - destruct (IH _ _ H) as [Hle Hn]. split; [lia|]. replace (j - i)%nat with (S (j - S i)) by lia. exact Hn.
Qed.

Lemma nth_error_rev {A} (l : list A) j : (j < length l)%nat -> nth_error (rev l) (length l - 1 - j) = nth_error l j.
Proof.
  revert j. induction l as [|a t IH]; intros j Hj; [cbn in Hj; lia|]. cbn [rev length].
  destruct j as [|j].
  - rewrite nth_error_app2 by (rewrite rev_length; lia). rewrite rev_length. replace (S (length t) - 1 - 0 - length t)%nat with 0%nat by lia. reflexivity.
  - cbn [length] in Hj. rewrite nth_error_app1 by (rewrite rev_length; lia). replace (S (length t) - 1 - S j)%nat with (length t - 1 - j)%nat by lia.
    rewrite IH by lia. reflexivity.
Qed.

Lemma build_palette_spec pixels : forall set rev_data pmap raw,
  snd set = length (fst set) -> (snd set <= 256)%nat ->
  build_palette list_Z_eqb pixels set rev_data = Some (pmap, raw) ->
  exists idxs more, raw = rev rev_data ++ idxs /\ pmap = rev (fst set) ++ more /\ (forall x, In x more -> In x pixels) /\ (length pmap <= 256)%nat /\
    Forall2 (fun px i => nth_error pmap (Z.to_nat i) = Some px /\ 0 <= i < 256) pixels idxs.
Proof.
  induction pixels as [|px t IH]; intros [items n] rev_data pmap raw Hn Hle H; cbn [build_palette fst snd] in *.
  - injection H as <- <-. exists [], []. rewrite !app_nil_r. repeat split; [intros ? []|rewrite rev_length; lia|constructor].
  - unfold insert_full in H. destruct (index_of list_Z_eqb px items 0) as [j|] eqn:Ei.
    + destruct (index_of_spec _ _ _ _ Ei) as [_ Hnth]. rewrite Nat.sub_0_r in Hnth.
      assert (Hj : (j < length items)%nat) by (apply nth_error_Some; congruence).
      destruct (Nat.eqb_spec (n - 1 - j) 256) as [|Hne]; [discriminate|].
      destruct (IH (items, n) _ _ _ Hn Hle H) as (idxs & more & Hraw & Hpm & Hin & Hlen & HF). cbn [fst] in Hpm.
      exists (Z.of_nat (n - 1 - j) :: idxs), more. split; [|split; [exact Hpm|split; [intros x Hx; right; auto|split; [exact Hlen|]]]].
      * rewrite Hraw. cbn [rev]. rewrite <- app_assoc. reflexivity.
      * constructor; [|exact HF]. rewrite Nat2Z.id. split; [|lia].
        rewrite Hpm, nth_error_app1 by (rewrite rev_length; lia). rewrite Hn, nth_error_rev by lia. exact Hnth.
    + destruct (Nat.eqb_spec n 256) as [|Hne]; [discriminate|].
      destruct (IH (px :: items, S n) _ _ _ ltac:(cbn; lia) ltac:(cbn; lia) H) as (idxs & more & Hraw & Hpm & Hin & Hlen & HF). cbn [fst rev] in Hpm.
      exists (Z.of_nat n :: idxs), (px :: more). split; [|split; [|split; [|split]]].
      * rewrite Hraw. cbn [rev]. rewrite <- app_assoc. reflexivity.
      * rewrite Hpm, <- app_assoc. reflexivity.
      * intros x [<-|Hx]; [left; reflexivity|right; auto].
      * exact Hlen.
      * constructor; [|exact HF]. rewrite Nat2Z.id. split; [|lia].
        rewrite Hpm, <- app_assoc, nth_error_app2 by (rewrite rev_length; lia). rewrite rev_length, Hn, Nat.sub_diag. reflexivity.
Qed.

Definition pal_entry (c : color_type) (px : list Z) : rgba8 :=
  match c with
  | Gray key =>
      let tp := match key with Some t => Some (t mod 256) | None => None end in
      match px with [g] => (g, g, g, if opt_eqb Z.eqb (Some g) tp then 0 else 255) | _ => (0, 0, 0, 255) end
  | RGB key =>
      let tp := match key with Some (r, g, b) => Some (r mod 256, g mod 256, b mod 256) | None => None end in
      match px with [r; g; b] => (r, g, b, if opt_eqb rgb16_eqb (Some (r, g, b)) tp then 0 else 255) | _ => (0, 0, 0, 255) end
  | GrayAlpha => match px with [g; a] => (g, g, g, a) | _ => (0, 0, 0, 255) end
  | RGBA => match px with [r; g; b; a] => (r, g, b, a) | _ => (0, 0, 0, 255) end
  | Indexed _ => (0, 0, 0, 255)
  end.

Lemma pixel_to_indexed c px pal i : is_indexed c = false -> length px = Z.to_nat (channels_per_pixel c) ->
  nth_error pal (Z.to_nat i) = Some (pal_entry c px) ->
  color_of_samples (SIndexed pal) 8 [i] = color_of_samples (spec_color_of c) 8 px.
Proof.
  intros Hni Hl Hn.
  change (color_of_samples (SIndexed pal) 8 [i]) with (match nth_error pal (Z.to_nat i) with Some (r, g, b, a) => Some (r * 257, g * 257, b * 257, a * 257) | None => None end).
  rewrite Hn.
  destruct c as [key|key| | |]; try discriminate; cbn [channels_per_pixel] in Hl.
  - destruct px as [|g [|? ?]]; try (cbn in Hl; lia). cbn [pal_entry spec_color_of color_of_samples].
    rewrite !scale16_8. unfold key_match. change (2 ^ 8) with 256.
    destruct key as [k|]; cbn [opt_eqb].
    + rewrite (Z.eqb_sym g). destruct (k mod 256 =? g); repeat (f_equal; try lia).
    + repeat (f_equal; try lia).
  - destruct px as [|r [|g [|b [|? ?]]]]; try (cbn in Hl; lia). cbn [pal_entry spec_color_of color_of_samples].
    rewrite !scale16_8. unfold key_match. change (2 ^ 8) with 256.
    destruct key as [[[kr kg] kb]|]; cbn [opt_eqb rgb16_eqb].
    + rewrite (Z.eqb_sym r), (Z.eqb_sym g), (Z.eqb_sym b). destruct (_ && _ && _); repeat (f_equal; try lia).
    + repeat (f_equal; try lia).
  - destruct px as [|g [|a [|? ?]]]; try (cbn in Hl; lia). cbn [pal_entry spec_color_of color_of_samples].
    rewrite !scale16_8. repeat (f_equal; try lia).
  - destruct px as [|r [|g [|b [|a [|? ?]]]]]; try (cbn in Hl; lia). cbn [pal_entry spec_color_of color_of_samples].
    rewrite !scale16_8. repeat (f_equal; try lia).
Qed.

Lemma chunks_exact_lengths {A} (B : nat) (l : list A) : Forall (fun px => length px = B) (chunks_exact B l).
Proof.
  unfold chunks_exact. destruct B as [|B]; [constructor|].
  generalize (length l) at 1. intros fuel. revert l. induction fuel as [|f IH]; intros l; cbn [chunks_exact_fuel]; [constructor|].
  destruct (Nat.ltb_spec (length l) (S B)); [constructor|]. constructor; [rewrite firstn_length; lia|apply IH].
Qed.

Lemma concat_map_singleton {A} (l : list A) : concat (map (fun i => [i]) l) = l.
Proof. induction l as [|a t IH]; cbn; [reflexivity|]. rewrite IH. reflexivity. Qed.

Lemma pal_entry_ok c px : bytes_ok px -> rgba8_ok (pal_entry c px).
Proof.
  intros Hok. unfold rgba8_ok, byte_ok.
  destruct c as [key|key| | |]; cbn [pal_entry].
  - destruct px as [|g [|? ?]]; try lia. pose proof (bytes_ok_in _ g Hok ltac:(cbn; auto)). destruct (opt_eqb _ _ _); lia.
  - destruct px as [|r [|g [|b [|? ?]]]]; try lia.
    pose proof (bytes_ok_in _ r Hok ltac:(cbn; auto)). pose proof (bytes_ok_in _ g Hok ltac:(cbn; auto)). pose proof (bytes_ok_in _ b Hok ltac:(cbn; auto)).
    destruct (opt_eqb _ _ _); lia.
  - lia.
  - destruct px as [|g [|a [|? ?]]]; try lia.
    pose proof (bytes_ok_in _ g Hok ltac:(cbn; auto)). pose proof (bytes_ok_in _ a Hok ltac:(cbn; auto)). lia.
  - destruct px as [|r [|g [|b [|a [|? ?]]]]]; try lia.
    pose proof (bytes_ok_in _ r Hok ltac:(cbn; auto)). pose proof (bytes_ok_in _ g Hok ltac:(cbn; auto)).
    pose proof (bytes_ok_in _ b Hok ltac:(cbn; auto)). pose proof (bytes_ok_in _ a Hok ltac:(cbn; auto 10)). lia.
Qed.

Lemma cols_to_indexed c pmap : is_indexed c = false -> forall pixels idxs,
  Forall2 (fun px i => nth_error pmap (Z.to_nat i) = Some px /\ 0 <= i < 256) pixels idxs ->
  Forall (fun px => length px = Z.to_nat (channels_per_pixel c)) pixels -> Forall bytes_ok pixels ->
  map (fun x => pxcol (spec_color_of (Indexed (map (pal_entry c) pmap))) 8 [x]) idxs = map (pxcol (spec_color_of c) 8) pixels.
Proof.
  intros Hc pixels idxs HF. induction HF as [|px i ps is [Hn Hi] _ IH]; intros Hlens Hpok; [reflexivity|].
  inversion Hlens as [|? ? Hl Hlens']; subst. inversion Hpok as [|? ? Hp Hpok']; subst.
  cbn [map]. rewrite IH by auto. f_equal.
  rewrite !pxcol8; auto; [|constructor; [exact Hi|constructor]].
  apply pixel_to_indexed; auto. rewrite (map_nth_error _ _ _ Hn). reflexivity.
Qed.

Theorem reduced_to_indexed_sem img img' ag pic : wf img ->
  reduced_to_indexed img ag = Some img' -> sem img = Some pic -> sem img' = Some pic /\ wf img'.
Proof.
  intros [Hok Hwf] Hred Hsem. unfold reduced_to_indexed in Hred.
  destruct (depth (hdr img) =? 8) eqn:Ed; cbn [negb] in Hred; [|discriminate]. apply Z.eqb_eq in Ed.
  destruct (is_indexed (ctype (hdr img))) eqn:Ei; [discriminate|].
  destruct (negb ag && is_gray (ctype (hdr img))); [discriminate|].
  set (B := Z.to_nat (channels img)) in *.
  set (pixels := chunks_exact B (data img)) in *.
  destruct (build_palette list_Z_eqb pixels ([], 0%nat) []) as [[pmap raw]|] eqn:Ebp; [|discriminate].
  destruct (build_palette_spec pixels ([], 0%nat) [] pmap raw eq_refl ltac:(cbn; lia) Ebp) as (idxs & more & Hraw & Hpm & Hin & Hplen & HF).
  cbn [rev fst app] in Hraw, Hpm. subst raw more.
  assert (Hpal : exists palette, img' = {| hdr := with_ctype (hdr img) (Indexed palette); data := idxs |} /\ palette = map (pal_entry (ctype (hdr img))) pmap).
  { injection Hred as <-. eexists. split; [reflexivity|]. destruct (ctype (hdr img)); try discriminate; reflexivity. }
  clear Hred. destruct Hpal as (palette & -> & Hpalette).
  assert (HB : (0 < B)%nat) by (unfold B, channels; pose proof (channels_pos (ctype (hdr img))); lia).
  pose proof (chunks_exact_lengths B (data img)) as Hlens. fold pixels in Hlens.
  assert (Hidx : Forall (fun i => 0 <= i < 256) idxs).
  { clear -HF. induction HF as [|px i ps is [_ Hi] _ IH]; constructor; auto. }
  split.
  - apply (sem_samecols img _ B 1 (map (fun i => [i]) idxs) pic); cbn [hdr data width height interlaced depth ctype with_ctype channels_per_pixel]; auto.
    + unfold B, channels. rewrite Ed. pose proof (channels_pos (ctype (hdr img))). lia.
    + rewrite Ed. reflexivity.
    + rewrite Ed. reflexivity.
    + rewrite concat_map_singleton. reflexivity.
    + apply Forall_forall. intros x Hx. apply in_map_iff in Hx. destruct Hx as [i [<- _]]. reflexivity.
    + rewrite Ed, map_map, Hpalette. fold pixels. apply cols_to_indexed; [exact Ei|exact HF|exact Hlens|].
      apply Forall_forall. intros px Hpx. apply (bytes_ok_chunk B (data img)); [exact Hok|exact Hpx].
  - split; cbn [data hdr ctype depth with_ctype].
    + unfold bytes_ok. eapply Forall_impl; [|exact Hidx]. intros i Hi. exact Hi.
    + rewrite Hpalette. split; [|rewrite map_length; exact Hplen]. apply Forall_forall. intros e He. apply in_map_iff in He. destruct He as [px [<- Hpx]].
      apply pal_entry_ok. apply (bytes_ok_chunk B (data img)); [exact Hok|apply Hin; exact Hpx].
Qed.

(* ---------------------------------------------------------------- lift when only coloured pixels matter *)
Theorem sem_pixelwise_some (img img' : image) (B B' : nat) (g : list Z -> list Z) pic :
  (0 < B)%nat -> (0 < B')%nat ->
  width (hdr img') = width (hdr img) -> height (hdr img') = height (hdr img) ->
  interlaced (hdr img') = interlaced (hdr img) ->
  depth (hdr img) * channels_per_pixel (ctype (hdr img)) = 8 * Z.of_nat B ->
  depth (hdr img') * channels_per_pixel (ctype (hdr img')) = 8 * Z.of_nat B' ->
  depth_legal (spec_color_of (ctype (hdr img'))) (depth (hdr img')) = true ->
  data img' = concat (map g (chunks_exact B (data img))) ->
  (forall px, In px (chunks_exact B (data img)) -> length px = B ->
     length (g px) = B' /\
     (pxcol (spec_color_of (ctype (hdr img))) (depth (hdr img)) px <> None ->
      pxcol (spec_color_of (ctype (hdr img'))) (depth (hdr img')) (g px)
      = pxcol (spec_color_of (ctype (hdr img))) (depth (hdr img)) px)) ->
  sem img = Some pic -> sem img' = Some pic.
Proof.
  intros HB HB' Hw Hh Hil Hbits Hbits' Hlegal Hdata Hpx Hsem.
  unfold sem in *. rewrite Hw, Hh, Hil.
  rewrite spec_sem_gsem in Hsem. rewrite spec_sem_gsem, Hlegal. cbn [negb].
  destruct (negb (depth_legal (spec_color_of (ctype (hdr img))) (depth (hdr img)))); [discriminate|].
  rewrite spec_channels_of in *. rewrite Hbits in Hsem. rewrite Hbits'.
  destruct (gsem_some_length _ _ _ _ B _ _ HB Hsem) as [k Hlen].
  destruct (chunks_exact_spec B (data img) k HB Hlen) as (Hc & Hu & Hn).
  rewrite <- Hc in Hsem. rewrite Hdata.
  pose proof Hu as Hu0. rewrite Forall_forall in Hu0.
  eapply (refine_gsem _ _ _ _ _ B B'); try eassumption.
  - apply Forall_forall. intros x Hx. apply in_map_iff in Hx. destruct Hx as [px [<- Hin]]. apply Hpx; auto.
  - assert (G : forall l : list (list Z), (forall px, In px l -> In px (chunks_exact B (data img))) ->
      Forall2 (fun px px' => pixel_color (spec_color_of (ctype (hdr img))) (depth (hdr img)) (sbits_of_bytes px) <> None ->
                 pixel_color (spec_color_of (ctype (hdr img'))) (depth (hdr img')) (sbits_of_bytes px')
                 = pixel_color (spec_color_of (ctype (hdr img))) (depth (hdr img)) (sbits_of_bytes px)) l (map g l)).
    { induction l as [|px t IH]; intros Hl; cbn [map]; constructor.
      - apply Hpx; [apply Hl; left; reflexivity|apply Hu0; apply Hl; left; reflexivity].
      - apply IH. intros q Hq. apply Hl. right. exact Hq. }
    apply G. auto.
Qed.

(* ---------------------------------------------------------------- indexed -> channels (lossless) *)
Lemma rgba8_in pal i e : Forall rgba8_ok pal -> nth_error pal i = Some e -> rgba8_ok e.
Proof. intros H Hn. rewrite Forall_forall in H. apply H. eapply nth_error_In; eauto. Qed.

Lemma chunks_exact_1 {A} (l : list A) : chunks_exact 1 l = map (fun b => [b]) l.
Proof.
  unfold chunks_exact. induction l as [|a t IH]; [reflexivity|]. cbn [length chunks_exact_fuel firstn skipn map].
  destruct (Nat.ltb_spec (S (length t)) 1); [lia|]. rewrite IH. reflexivity.
Qed.

Theorem indexed_to_channels_sem img img' ag pic : wf img ->
  indexed_to_channels img ag false = Some img' -> sem img = Some pic -> sem img' = Some pic /\ wf img'.
Proof.
  intros [Hok Hwf] Hred Hsem. unfold indexed_to_channels in Hred.
  destruct (depth (hdr img) =? 8) eqn:Ed; cbn [negb] in Hred; [|discriminate]. apply Z.eqb_eq in Ed.
  destruct (ctype (hdr img)) as [| |pal| |] eqn:Ec; try discriminate.
  set (is_g := if ag then forallb (fun c : rgba8 => let '(r, g, b, _) := c in (r =? g) && (g =? b)) pal else false) in *.
  set (has_a := existsb (fun c : rgba8 => let '(_, _, _, a) := c in negb (a =? 255)) pal) in *.
  set (ct := match is_g, has_a with false, true => RGBA | false, false => RGB None | true, true => GrayAlpha | true, false => Gray None end) in *.
  destruct (INDEXED_MAX_DIFF <? channels_per_pixel ct * lenZ (data img) - lenZ (data img)); [discriminate|].
  injection Hred as <-.
  set (conv := fun b : Z => let '(r, g, bl, a) := nth (Z.to_nat b) pal (0, 0, 0, 255) in
                 (if is_g then [bl] else [r; g; bl]) ++ (if has_a then [a] else [])).
  assert (Hconv_len : forall b, length (conv b) = Z.to_nat (channels_per_pixel ct)).
  { intros b. unfold conv, ct. destruct (nth (Z.to_nat b) pal (0, 0, 0, 255)) as [[[r g] bl] a]. destruct is_g, has_a; reflexivity. }
  cbn [wf_ctype] in Hwf. destruct Hwf as [Hwf Hpallen].
  assert (Hconv_ok : forall b, bytes_ok (conv b)).
  { intros b. unfold conv. destruct (nth_error pal (Z.to_nat b)) as [e|] eqn:En.
    - rewrite (nth_error_nth _ _ _ En). pose proof (rgba8_in _ _ _ Hwf En) as He. destruct e as [[[r g] bl] a]. destruct He as (? & ? & ? & ?).
      unfold bytes_ok. destruct is_g, has_a; cbn [app]; repeat (apply Forall_cons; [assumption|]); apply Forall_nil.
    - rewrite nth_overflow by (apply nth_error_None; exact En).
      unfold bytes_ok. destruct is_g, has_a; cbn [app]; repeat (apply Forall_cons; [unfold byte_ok; lia|]); apply Forall_nil. }
  assert (Hwf' : wf {| hdr := with_ctype (hdr img) ct; data := flat_map conv (data img) |}).
  { split; cbn [data hdr ctype depth with_ctype].
    - unfold bytes_ok. apply Forall_forall. intros x Hx. apply in_flat_map in Hx. destruct Hx as [b [_ Hx]].
      pose proof (Hconv_ok b) as Hb. unfold bytes_ok in Hb. rewrite Forall_forall in Hb. auto.
    - unfold ct. destruct is_g, has_a; exact I. }
  split; [|exact Hwf'].
  apply (sem_pixelwise_some img _ 1 (Z.to_nat (channels_per_pixel ct)) (fun px => flat_map conv px) pic);
    cbn [hdr data width height interlaced depth ctype with_ctype]; auto.
  - unfold ct. destruct is_g, has_a; cbn [channels_per_pixel]; lia.
  - rewrite Ed, Ec. reflexivity.
  - rewrite Ed. unfold ct. destruct is_g, has_a; cbn [channels_per_pixel]; lia.
  - rewrite Ed. unfold ct. destruct is_g, has_a; reflexivity.
  - (* flat_map over the bytes = concat of the per-pixel images *)
    assert (Hone : forall l : list Z, flat_map conv l = concat (map (fun px => flat_map conv px) (chunks_exact 1 l))).
    { intros l. rewrite chunks_exact_1, map_map, flat_map_concat_map. f_equal. apply map_ext. intros b. cbn [flat_map]. rewrite app_nil_r. reflexivity. }
    apply Hone.
  - intros px Hin Hlen. destruct px as [|b [|? ?]]; try (cbn in Hlen; lia). cbn [flat_map]. rewrite app_nil_r.
    split; [apply Hconv_len|]. intros Hsome. rewrite Ed, Ec in *.
    assert (Hb : 0 <= b < 256) by (eapply bytes_ok_in; [eapply bytes_ok_chunk; eauto|left; reflexivity]).
    assert (Hbok : bytes_ok [b]) by (apply Forall_cons; [exact Hb|apply Forall_nil]).
    rewrite (pxcol8 _ [b] Hbok) in *. rewrite pxcol8 by auto.
    cbn [spec_color_of color_of_samples] in Hsome |- *.
    unfold rgba8 in *. destruct (nth_error pal (Z.to_nat b)) as [e|] eqn:En; [|exfalso; apply Hsome; reflexivity].
    pose proof (rgba8_in _ _ _ Hwf En) as He. unfold conv. rewrite (nth_error_nth _ _ _ En). destruct e as [[[r g] bl] a]. destruct He as (Hr & Hg & Hbl & Ha).
    unfold ct.
    assert (Hgray : is_g = true -> r = bl /\ g = bl).
    { unfold is_g. destruct ag; [|discriminate]. intros Hall. rewrite forallb_forall in Hall.
      specialize (Hall _ (nth_error_In _ _ En)). cbn in Hall. apply andb_true_iff in Hall. destruct Hall as [E1 E2].
      apply Z.eqb_eq in E1, E2. lia. }
    assert (Halpha : has_a = false -> a = 255).
    { intros Hex. destruct (a =? 255) eqn:Ea; [apply Z.eqb_eq; exact Ea|].
      assert (X : has_a = true).
      { unfold has_a. apply existsb_exists. exists (r, g, bl, a). split; [eapply nth_error_In; eauto|]. rewrite Ea. reflexivity. }
      rewrite X in Hex. discriminate. }
    destruct is_g eqn:Eg, has_a eqn:Eha; cbn [app spec_color_of color_of_samples]; rewrite ?scale16_8.
    + destruct (Hgray eq_refl) as [-> ->]. repeat (f_equal; try lia).
    + destruct (Hgray eq_refl) as [-> ->]. rewrite (Halpha eq_refl). repeat (f_equal; try lia).
    + repeat (f_equal; try lia).
    + rewrite (Halpha eq_refl). repeat (f_equal; try lia).
Qed.

(* A generic invariant theorem for perform_reductions (used by C08 and C01/C03): if every enabled
   transformation preserves a predicate P on images, then the baseline and every image handed to the
   evaluator satisfy P -- for every clock oracle. *)
From OxiVerif Require Import Base.Common Model.Types Model.Options Model.ScanLines Model.Interlace
  Model.BitDepth Model.Color Model.Palette Model.Reductions.

Section Inv.
(* P: images on the main line (png, baseline, indexed); Q: images handed to the evaluator *)
Variable P Q : image -> Prop.
Hypothesis PQ : forall i, P i -> Q i.
Variable e : env.
Variable o : options.

Definition ev_ok (ev : rd_event) : Prop := match ev with EvSubmit i _ => Q i | _ => True end.

Record inv (st : rd_state) : Prop := {
  inv_png : P (r_png st);
  inv_base : P (r_baseline st);
  inv_idx : forall i, r_indexed st = Some i -> P i;
  inv_evs : Forall ev_ok (r_events st)
}.

Lemma inv_set_png st p same : inv st -> P p -> inv (set_png st p same).
Proof. intros [A B C D] Hp. constructor; cbn; auto. Qed.
Lemma inv_set_baseline st b same : inv st -> P b -> inv (set_baseline st b same).
Proof. intros [A B C D] Hp. constructor; cbn; auto. Qed.
Lemma inv_set_indexed st i : inv st -> P i -> inv (set_indexed st (Some i)).
Proof. intros [A B C D] Hp. constructor; cbn; auto. intros j Hj. injection Hj as <-. exact Hp. Qed.
Lemma inv_submitQ st i d : inv st -> Q i -> inv (submit st i d).
Proof. intros [A B C D] Hp. constructor; cbn; auto. Qed.
Lemma inv_submit st i d : inv st -> P i -> inv (submit st i d).
Proof. intros I Hp. apply inv_submitQ; auto. Qed.
Lemma inv_log st s p : inv st -> inv (log_site st s p).
Proof. intros [A B C D]. constructor; cbn; auto. constructor; cbn; auto. Qed.
Lemma inv_guard flag s st go st' : inv st -> guard e flag s st = (go, st') -> inv st' /\ (go = true -> flag = true).
Proof.
  unfold guard. intros I H. destruct flag; injection H as <- <-.
  - split; [apply inv_log; exact I|auto].
  - split; [exact I|discriminate].
Qed.

(* hypotheses: each transformation, when its switch is on, preserves P *)
Hypothesis Hclean : optimize_alpha o = true -> forall i r, cleaned_alpha_channel i = Some r -> P i -> P r.
Hypothesis H16 : bit_depth_reduction o = true -> forall i r, reduced_bit_depth_16_to_8 i (scale_16 o) = Some r -> P i -> P r.
Hypothesis Hgray : color_type_reduction o = true -> grayscale_reduction o = true ->
  forall i r, reduced_rgb_to_grayscale i = Some r -> P i -> P r.
Hypothesis Hexp : bit_depth_reduction o = true -> forall i r, expanded_bit_depth_to_8 i = Ok (Some r) -> P i -> P r.
Hypothesis Hpal : palette_reduction o = true -> forall i r, reduced_palette i (optimize_alpha o) = Some r -> P i -> P r.
Hypothesis Hsort : palette_reduction o = true -> forall i r, sorted_palette i = Ok (Some r) -> P i -> P r.
Hypothesis Halpha : color_type_reduction o = true -> forall i r, reduced_alpha_channel i (optimize_alpha o) = Some r -> P i -> P r.
Hypothesis Hchan : color_type_reduction o = true ->
  forall i r, indexed_to_channels i (grayscale_reduction o) (optimize_alpha o) = Some r -> P i -> Q r.
Hypothesis Hidx : color_type_reduction o = true -> forall i red, reduced_to_indexed i (grayscale_reduction o) = Some red -> P i ->
  P red /\ forall r, sorted_palette red = Ok (Some r) -> P r.
Hypothesis Hbat : palette_reduction o = true -> forall i r, sorted_palette_battiato i = Ok (Some r) -> P i -> P r.
Hypothesis Hmz : palette_reduction o = true -> forall i r, sorted_palette_mzeng i = Ok (Some r) -> P i -> P r.
Hypothesis Hdepth : bit_depth_reduction o = true -> forall i r, reduced_bit_depth_8_or_less i = Ok (Some r) -> P i -> P r.

Lemma step_clean_alpha st st' : inv st -> s_clean_alpha e o st = Ok st' -> inv st'.
Proof.
  unfold s_clean_alpha. intros I H. destruct (guard e (optimize_alpha o) SCleanAlpha st) as [go st1] eqn:G.
  destruct (inv_guard _ _ _ _ _ I G) as [I1 Hf]. injection H as <-.
  destruct go; [|exact I1]. destruct (cleaned_alpha_channel (r_png st1)) eqn:E; [|exact I1].
  apply inv_set_png; auto. eapply Hclean; eauto. apply I1.
Qed.

Lemma step_16_to_8 st st' : inv st -> s_16_to_8 e o st = Ok st' -> inv st'.
Proof.
  unfold s_16_to_8. intros I H. destruct (guard e (bit_depth_reduction o) S16to8 st) as [go st1] eqn:G.
  destruct (inv_guard _ _ _ _ _ I G) as [I1 Hf]. injection H as <-.
  destruct go; [|exact I1]. destruct (reduced_bit_depth_16_to_8 (r_png st1) (scale_16 o)) eqn:E; [|exact I1].
  apply inv_set_png; auto. eapply H16; eauto. apply I1.
Qed.

Lemma step_rgb_gray st st' : inv st -> s_rgb_gray e o st = Ok st' -> inv st'.
Proof.
  unfold s_rgb_gray. intros I H. destruct (guard e (color_type_reduction o && grayscale_reduction o) SRgbGray st) as [go st1] eqn:G.
  destruct (inv_guard _ _ _ _ _ I G) as [I1 Hf]. injection H as <-.
  destruct go; [|exact I1]. destruct (reduced_rgb_to_grayscale (r_png st1)) eqn:E; [|exact I1].
  specialize (Hf eq_refl). apply andb_true_iff in Hf. destruct Hf.
  apply inv_set_png; auto. eapply Hgray; eauto. apply I1.
Qed.

Lemma step_expand st st' : inv st -> s_expand e o st = Ok st' -> inv st'.
Proof.
  unfold s_expand. intros I H. destruct (guard e (bit_depth_reduction o) SExpand st) as [go st1] eqn:G.
  destruct (inv_guard _ _ _ _ _ I G) as [I1 Hf].
  destruct go; [|injection H as <-; exact I1].
  destruct (expanded_bit_depth_to_8 (r_png st1)) as [[r|]|?|?] eqn:E; cbn [bind] in H; try discriminate; injection H as <-.
  - apply inv_set_png; auto. eapply Hexp; eauto. apply I1.
  - exact I1.
Qed.

Lemma step_baseline st st' : inv st -> s_baseline st = Ok st' -> inv st'.
Proof. unfold s_baseline. intros I H. injection H as <-. apply inv_set_baseline; auto. apply I. Qed.

Lemma step_palette st st' : inv st -> s_palette e o st = Ok st' -> inv st'.
Proof.
  unfold s_palette. intros I H. destruct (guard e (palette_reduction o) SPalette st) as [go st1] eqn:G.
  destruct (inv_guard _ _ _ _ _ I G) as [I1 Hf].
  destruct go; [|injection H as <-; exact I1]. specialize (Hf eq_refl).
  set (st2 := match reduced_palette (r_png st1) (optimize_alpha o) with
              | Some x => if list_eqb Z.eqb (data x) (data (r_baseline st1))
                          then set_baseline (set_png st1 x true) x true else set_png st1 x false
              | None => st1 end) in *.
  assert (I2 : inv st2).
  { subst st2. destruct (reduced_palette (r_png st1) (optimize_alpha o)) as [x|] eqn:E; [|exact I1].
    assert (P x) by (eapply Hpal; eauto; apply I1).
    destruct (list_eqb Z.eqb (data x) (data (r_baseline st1))).
    - apply inv_set_baseline; auto. apply inv_set_png; auto.
    - apply inv_set_png; auto. }
  destruct (sorted_palette (r_png st2)) as [[r|]|?|?] eqn:E; cbn [bind] in H; try discriminate; injection H as <-.
  - assert (P r) by (eapply Hsort; eauto; apply I2).
    assert (I3 : inv (set_png st2 r false)) by (apply inv_set_png; auto).
    change (negb (r_same (set_png st2 r false))) with true. cbv iota.
    apply inv_submit; [exact I3|apply I3].
  - destruct (negb (r_same st2)); [apply inv_submit; auto; apply I2|exact I2].
Qed.

Lemma step_alpha st st' : inv st -> s_alpha e o st = Ok st' -> inv st'.
Proof.
  unfold s_alpha. intros I H. destruct (guard e (color_type_reduction o) SAlphaRed st) as [go st1] eqn:G.
  destruct (inv_guard _ _ _ _ _ I G) as [I1 Hf].
  destruct go; [|injection H as <-; exact I1]. specialize (Hf eq_refl).
  destruct (reduced_alpha_channel (r_png st1) (optimize_alpha o)) as [x|] eqn:E; [|injection H as <-; exact I1].
  assert (P x) by (eapply Halpha; eauto; apply I1).
  destruct (has_trns (ctype (hdr x))).
  - destruct (lenZ (data (r_baseline st1)) - lenZ (data x) <? 0); [discriminate|].
    destruct (lenZ (data (r_baseline st1)) - lenZ (data x) <=? 1000); injection H as <-.
    + apply inv_submit; auto. apply inv_set_png; auto.
    + apply inv_set_baseline; auto. apply inv_set_png; auto.
  - injection H as <-. apply inv_set_baseline; auto. apply inv_set_png; auto.
Qed.

Lemma step_to_channels st st' : inv st -> s_to_channels e o st = Ok st' -> inv st'.
Proof.
  unfold s_to_channels. intros I H.
  destruct (guard e (negb (is_cheap o) && color_type_reduction o) SToChannels st) as [go st1] eqn:G.
  destruct (inv_guard _ _ _ _ _ I G) as [I1 Hf]. injection H as <-.
  destruct go; [|exact I1]. specialize (Hf eq_refl). apply andb_true_iff in Hf. destruct Hf as [_ Hf].
  destruct (indexed_to_channels (r_png st1) (grayscale_reduction o) (optimize_alpha o)) as [x|] eqn:E; [|exact I1].
  apply inv_submitQ; auto. eapply Hchan; eauto. apply I1.
Qed.

Lemma step_to_indexed st st' : inv st -> s_to_indexed e o st = Ok st' -> inv st'.
Proof.
  unfold s_to_indexed. intros I H. destruct (guard e (color_type_reduction o) SToIndexed st) as [go st1] eqn:G.
  destruct (inv_guard _ _ _ _ _ I G) as [I1 Hf].
  destruct go; [|injection H as <-; exact I1]. specialize (Hf eq_refl).
  destruct (reduced_to_indexed (r_png st1) (grayscale_reduction o)) as [red|] eqn:E; [|injection H as <-; exact I1].
  destruct (Hidx Hf _ _ E (inv_png _ I1)) as [Hred Hsp].
  destruct (sorted_palette red) as [sp|?|?] eqn:E2; cbn [bind] in H; try discriminate.
  set (new := match sp with Some x => x | None => red end) in *.
  assert (Hnew : P new) by (subst new; destruct sp as [x|]; [apply Hsp; reflexivity|exact Hred]).
  destruct (lenZ (data (r_png st1)) - lenZ (data new) <? 0); [discriminate|].
  destruct (lenZ (data (r_png st1)) - lenZ (data new) <=? INDEXED_MAX_DIFF); injection H as <-.
  - apply inv_set_indexed; auto. apply inv_submit; auto.
  - apply inv_set_indexed; auto. apply inv_set_baseline; auto.
Qed.

Lemma step_sorts st st' : inv st -> s_sorts e o st = Ok st' -> inv st'.
Proof.
  unfold s_sorts. intros I H.
  destruct (negb (is_cheap o) && palette_reduction o) eqn:Hfl; [|injection H as <-; exact I].
  apply andb_true_iff in Hfl. destruct Hfl as [_ Hfl].
  set (input := match r_indexed st with Some i => i | None => r_png st end) in *.
  assert (Hin : P input) by (subst input; destruct (r_indexed st) as [i|] eqn:Ei; [eapply inv_idx; eauto|apply I]).
  destruct (guard e true SBattiato st) as [go st1] eqn:G.
  destruct (inv_guard _ _ _ _ _ I G) as [I1 _].
  set (palettes := match palette_of (r_baseline st) with Some p => [p] | None => [] end) in *.
  assert (exists st2 pals, (if go then
      do r <- sorted_palette_battiato input;
      match r with
      | Some red => match palette_of red with
                    | Some p => if existsb (pal_eqb p) palettes then Ok (st1, palettes) else Ok (submit st1 red 2, palettes ++ [p])
                    | None => Ok (st1, palettes) end
      | None => Ok (st1, palettes) end
    else Ok (st1, palettes)) = Ok (st2, pals) /\ inv st2 \/
    exists x, (if go then
      do r <- sorted_palette_battiato input;
      match r with
      | Some red => match palette_of red with
                    | Some p => if existsb (pal_eqb p) palettes then Ok (st1, palettes) else Ok (submit st1 red 2, palettes ++ [p])
                    | None => Ok (st1, palettes) end
      | None => Ok (st1, palettes) end
    else Ok (st1, palettes)) = x /\ is_ok x = false) as Hcase.
  { destruct go.
    - destruct (sorted_palette_battiato input) as [[red|]|?|?] eqn:E; cbn [bind].
      + destruct (palette_of red) as [p|].
        * destruct (existsb (pal_eqb p) palettes).
          -- exists st1, palettes. left. auto.
          -- exists (submit st1 red 2), (palettes ++ [p]). left. split; auto. apply inv_submit; auto. eapply Hbat; eauto.
        * exists st1, palettes. left. auto.
      + exists st1, palettes. left. auto.
      + exists st1, palettes. right. eexists. split; [reflexivity|reflexivity].
      + exists st1, palettes. right. eexists. split; [reflexivity|reflexivity].
    - exists st1, palettes. left. auto. }
  destruct Hcase as (st2 & pals & [[Heq I2]|[x [Heq Hx]]]).
  - rewrite Heq in H. cbn [bind] in H.
    destruct (guard e true SMzeng st2) as [go2 st3] eqn:G2.
    destruct (inv_guard _ _ _ _ _ I2 G2) as [I3 _].
    destruct go2; [|injection H as <-; exact I3].
    destruct (sorted_palette_mzeng input) as [[red|]|?|?] eqn:E; cbn [bind] in H; try discriminate.
    + destruct (palette_of red) as [p|]; [|injection H as <-; exact I3].
      destruct (existsb (pal_eqb p) pals); injection H as <-; [exact I3|].
      apply inv_submit; auto. eapply Hmz; eauto.
    + injection H as <-. exact I3.
  - rewrite Heq in H. destruct x; cbn [bind is_ok] in *; discriminate.
Qed.

Lemma step_depth st st' : inv st -> s_depth e o st = Ok st' -> inv st'.
Proof.
  unfold s_depth. intros I H. destruct (guard e (bit_depth_reduction o) SDepthA st) as [go st1] eqn:G.
  destruct (inv_guard _ _ _ _ _ I G) as [I1 Hf].
  destruct go; [|injection H as <-; exact I1]. specialize (Hf eq_refl).
  destruct (reduced_bit_depth_8_or_less (r_png st1)) as [reduced|?|?] eqn:E; cbn [bind] in H; try discriminate.
  destruct (guard e (negb (is_cheap o) || match reduced with None => true | _ => false end) SDepthB st1) as [go2 st2] eqn:G2.
  destruct (inv_guard _ _ _ _ _ I1 G2) as [I2 _].
  assert (Hred : forall r0, reduced = Some r0 -> P r0).
  { intros r0 ->. eapply Hdepth; eauto. apply I1. }
  assert (Hmid : forall st3,
    (if go2 then
       match r_indexed st2 with
       | Some ix => do ri <- reduced_bit_depth_8_or_less ix;
                    match ri with
                    | Some x => if match reduced with Some r0 => negb (list_eqb Z.eqb (data r0) (data x)) | None => true end
                                then Ok (submit st2 x 0) else Ok st2
                    | None => Ok st2 end
       | None => Ok st2 end
     else Ok st2) = Ok st3 -> inv st3).
  { intros st3 Hm. destruct go2; [|injection Hm as <-; exact I2].
    destruct (r_indexed st2) as [ix|] eqn:Ei; [|injection Hm as <-; exact I2].
    destruct (reduced_bit_depth_8_or_less ix) as [[x|]|?|?] eqn:E3; cbn [bind] in Hm; try discriminate.
    - destruct (match reduced with Some r0 => negb (list_eqb Z.eqb (data r0) (data x)) | None => true end);
        injection Hm as <-; [|exact I2].
      apply inv_submit; auto. eapply Hdepth; eauto. eapply inv_idx; eauto.
    - injection Hm as <-. exact I2. }
  match type of H with (do st <- ?X; _) = _ => destruct X as [st3|?|?] eqn:Em end; cbn [bind] in H; try discriminate.
  specialize (Hmid st3 eq_refl). injection H as <-.
  destruct reduced as [r0|]; [apply inv_submit; auto|exact Hmid].
Qed.

Lemma step_final st st' : inv st -> s_final st = Ok st' -> inv st'.
Proof. unfold s_final. intros I H. injection H as <-. destruct (r_added st); [apply inv_submit; auto; apply I|exact I]. Qed.

Lemma run_steps_inv : forall st st', inv st -> run_steps (reduction_steps e o) st = Ok st' -> inv st'.
Proof.
  intros st st' I H. unfold reduction_steps in H. cbn [run_steps] in H.
  repeat match type of H with
         | (do x <- ?f ?s; _) = Ok _ =>
             let E := fresh "E" in destruct (f s) as [?st|?|?] eqn:E; cbn [bind] in H; [|discriminate|discriminate]
         end.
  injection H as <-.
  apply step_clean_alpha in E; auto. apply step_16_to_8 in E0; auto. apply step_rgb_gray in E1; auto.
  apply step_expand in E2; auto. apply step_baseline in E3; auto. apply step_palette in E4; auto.
  apply step_alpha in E5; auto. apply step_to_channels in E6; auto. apply step_to_indexed in E7; auto.
  apply step_sorts in E8; auto. apply step_depth in E9; auto. apply step_final in E10; auto.
Qed.

(* the start: the image after the (optional) interlacing change satisfies P *)
Variable png0 : image.
Hypothesis Hstart0 : P png0.
Hypothesis Hstart : forall il r, interlace o = Some il -> change_interlacing png0 il = Ok (Some r) -> P r.

Theorem perform_reductions_inv baseline evs :
  perform_reductions e o png0 = Ok (baseline, evs) ->
  P baseline /\ Forall ev_ok evs.
Proof.
  unfold perform_reductions, s_interlace. intros H.
  destruct (match interlace o with
            | Some il => do r <- change_interlacing png0 il; Ok (match r with Some x => x | None => png0 end)
            | None => Ok png0 end) as [png|?|?] eqn:E0; cbn [bind] in H; try discriminate.
  assert (Hp : P png).
  { destruct (interlace o) as [il|] eqn:Ei; [|injection E0 as <-; exact Hstart0].
    destruct (change_interlacing png0 il) as [[r|]|?|?] eqn:Ec; cbn [bind] in E0; try discriminate; injection E0 as <-.
    - eapply Hstart; eauto.
    - exact Hstart0. }
  match type of H with (do st <- run_steps _ ?s0; _) = _ => destruct (run_steps (reduction_steps e o) s0) as [st|?|?] eqn:Er end;
    cbn [bind] in H; try discriminate.
  injection H as <- <-.
  apply run_steps_inv in Er.
  - split; [apply Er|]. apply Forall_rev. apply Er.
  - constructor; cbn; auto. intros i Hi. discriminate.
Qed.
End Inv.

(* Proofs about the command-line model (C09) against the manual (constants parsed from MANUAL.txt). *)
From OxiVerif Require Import Base.Common Model.Types Model.Options Model.Cli Proofs.CliStages.
From OxiVerif Require Gen.SrcConsts.

(* what a row of the manual's preset table means *)
Definition manual_row (l : Z) : option (Z * option (list Z) * bool) :=
  match List.find (fun r => fst r =? l) SrcConsts.manual_presets with Some r => Some (snd r) | None => None end.

Fixpoint insert_Z (x : Z) (l : list Z) : list Z :=
  match l with [] => [x] | a :: t => if x <=? a then x :: l else a :: insert_Z x t end.
Definition sortZ (l : list Z) : list Z := fold_right insert_Z [] l.

(* the observable content of an option value (filters as a set) *)
Definition opts_view (o : options) :=
  (sortZ (map filter_code (filter o)), deflate o, fast_evaluation o,
   (interlace o, optimize_alpha o, bit_depth_reduction o, color_type_reduction o, palette_reduction o,
    grayscale_reduction o, idat_recoding o, scale_16 o, force o, fix_errors o, has_timeout o)).

Definition interp_row (r : Z * option (list Z) * bool) : options :=
  let '(zc, fs, fast) := r in
  set_fast (set_deflate (set_filter default_options
     (match fs with Some l => filters_of_codes l [] | None => [] end)) (Libdeflater zc)) fast.

(* every row of the manual's table is what Options::from_preset does *)
Theorem preset_rows : forall l, In l [0; 1; 2; 3; 4; 5; 6] ->
  exists r, manual_row l = Some r /\ opts_view (from_preset l) = opts_view (interp_row r).
Proof.
  intros l Hl. cbn in Hl.
  destruct Hl as [<-|[<-|[<-|[<-|[<-|[<-|[<-|[]]]]]]]]; eexists; (split; [reflexivity|vm_compute; reflexivity]).
Qed.

Theorem default_is_documented :
  SrcConsts.manual_default_level = 2 /\ opts_view default_options = opts_view (from_preset 2) /\
  (SrcConsts.manual_default_interlace_is_zero = true -> interlace default_options = Some false).
Proof. vm_compute. auto. Qed.

Definition no_flags : flags := {|
  fl_opt := None; fl_filters := None; fl_timeout := None; fl_alpha := false; fl_scale16 := false; fl_fast := false;
  fl_force := false; fl_fix := false; fl_nb := false; fl_nc := false; fl_np := false; fl_ng := false; fl_nx := false;
  fl_nz := false; fl_interlace := None; fl_keep := None; fl_strip := None; fl_strip_safe := false;
  fl_zopfli := false; fl_zi := 15; fl_zc := None |}.

Theorem no_flags_is_default : cli_options no_flags = Ok default_options.
Proof. reflexivity. Qed.

Lemma from_preset_deflate l : exists c, deflate (from_preset l) = Libdeflater c.
Proof.
  unfold from_preset.
  repeat match goal with |- context [match ?x with _ => _ end] => destruct x end; eexists; reflexivity.
Qed.
Lemma preset_deflate f : exists c, deflate (preset_of f) = Libdeflater c.
Proof.
  unfold preset_of. destruct (fl_opt f) as [l|]; [|eexists; reflexivity].
  assert (H : (match l with 7 => from_preset 6 | _ => from_preset l end) = from_preset 6 \/ (match l with 7 => from_preset 6 | _ => from_preset l end) = from_preset l).
  { repeat match goal with |- context [match ?x with _ => _ end] => destruct x end; auto. }
  destruct H as [-> | ->]; apply from_preset_deflate.
Qed.

Section From.
Variable base : options.
Variable c0 : Z.
Hypothesis Hbase : deflate base = Libdeflater c0.

(* '--nx' switches all four reductions off and implies keep-interlacing unless -i is given *)
Lemma nx_from f o : cli_options_from base f = Ok o -> fl_nx f = true ->
  bit_depth_reduction o = false /\ color_type_reduction o = false /\ palette_reduction o = false /\
  grayscale_reduction o = false /\ (fl_interlace f = None -> interlace o = None).
Proof.
  intros H Hnx. unfold cli_options_from in H.
  destruct (stage_strip f (stage_keep f (stage_interlace f (stage_nz f (stage_nx f (stage_switches f (stage_flags f (stage_timeout f (stage_filters f base))))))))) as [o1|e1|p1] eqn:Es;
    cbn [bind] in H; [|discriminate|discriminate].
  injection H as <-. apply stage_strip_inv in Es. destruct Es as [pol [-> Hpol]]. autorewrite with cli. rewrite Hnx. repeat split; auto. intros ->. reflexivity.
Qed.

Lemma switches_from f o : cli_options_from base f = Ok o ->
  optimize_alpha o = fl_alpha f /\ scale_16 o = fl_scale16 f /\ force o = fl_force f /\ fix_errors o = fl_fix f /\
  idat_recoding o = negb (fl_nz f) /\
  (fl_nx f = false -> bit_depth_reduction o = negb (fl_nb f) /\ color_type_reduction o = negb (fl_nc f) /\
                      palette_reduction o = negb (fl_np f) /\ grayscale_reduction o = negb (fl_ng f)) /\
  (forall v, fl_interlace f = Some v -> interlace o = v) /\
  (fl_fast f = true -> fast_evaluation o = true) /\
  (fl_timeout f = None -> has_timeout o = has_timeout base) /\ (fl_timeout f <> None -> has_timeout o = true).
Proof.
  intros H. unfold cli_options_from in H.
  destruct (stage_strip f (stage_keep f (stage_interlace f (stage_nz f (stage_nx f (stage_switches f (stage_flags f (stage_timeout f (stage_filters f base))))))))) as [o1|e1|p1] eqn:Es;
    cbn [bind] in H; [|discriminate|discriminate].
  injection H as <-. apply stage_strip_inv in Es. destruct Es as [pol [-> Hpol]]. autorewrite with cli. repeat split; auto.
  - rewrite H. reflexivity.
  - rewrite H. reflexivity.
  - rewrite H. reflexivity.
  - rewrite H. reflexivity.
  - intros v ->. reflexivity.
  - intros ->. reflexivity.
  - intros ->. reflexivity.
  - intros Hn. destruct (fl_timeout f); [reflexivity|congruence].
Qed.

Lemma explicit_from f o : cli_options_from base f = Ok o ->
  (forall x, fl_zc f = Some x -> fl_zopfli f = false -> deflate o = Libdeflater x) /\
  (fl_zc f = None -> fl_zopfli f = false -> deflate o = deflate base) /\
  (fl_zopfli f = true -> deflate o = Zopfli (fl_zi f)) /\
  (forall l, fl_filters f = Some l -> filter o = filters_of_codes l []) /\
  (fl_filters f = None -> filter o = filter base) /\
  (fl_fast f = false -> fast_evaluation o = fast_evaluation base).
Proof.
  intros H. unfold cli_options_from in H.
  destruct (stage_strip f (stage_keep f (stage_interlace f (stage_nz f (stage_nx f (stage_switches f (stage_flags f (stage_timeout f (stage_filters f base))))))))) as [o1|e1|p1] eqn:Es;
    cbn [bind] in H; [|discriminate|discriminate].
  injection H as <-. apply stage_strip_inv in Es. destruct Es as [pol [-> Hpol]]. autorewrite with cli. repeat split.
  - intros x -> ->. rewrite Hbase. reflexivity.
  - intros -> ->. reflexivity.
  - intros ->. destruct (fl_zc f); reflexivity.
  - intros l ->. reflexivity.
  - intros ->. reflexivity.
  - intros ->. reflexivity.
Qed.

Lemma strip_from f o : cli_options_from base f = Ok o ->
  (fl_strip_safe f = true -> strip o = StripSafe) /\
  (fl_strip_safe f = false -> fl_strip f = Some SaSafe -> strip o = StripSafe) /\
  (fl_strip_safe f = false -> fl_strip f = Some SaAll -> strip o = StripAll) /\
  (fl_strip_safe f = false -> fl_strip f = None -> fl_keep f = None -> strip o = strip base).
Proof.
  intros H. unfold cli_options_from in H.
  destruct (stage_strip f (stage_keep f (stage_interlace f (stage_nz f (stage_nx f (stage_switches f (stage_flags f (stage_timeout f (stage_filters f base))))))))) as [o1|e1|p1] eqn:Es;
    cbn [bind] in H; [|discriminate|discriminate].
  injection H as <-. apply stage_strip_inv in Es. destruct Es as [pol [-> Hpol]]. autorewrite with cli. repeat split.
  - intros ->. reflexivity.
  - intros -> E. rewrite E in Hpol. subst pol. reflexivity.
  - intros -> E. rewrite E in Hpol. subst pol. reflexivity.
  - intros -> E1 E2. rewrite E1 in Hpol. subst pol. autorewrite with cli. rewrite E2. reflexivity.
Qed.
End From.

Theorem nx_implies_keep f o : cli_options f = Ok o -> fl_nx f = true ->
  bit_depth_reduction o = false /\ color_type_reduction o = false /\ palette_reduction o = false /\
  grayscale_reduction o = false /\ (fl_interlace f = None -> interlace o = None).
Proof. unfold cli_options. apply nx_from. Qed.

Theorem switches_spec f o : cli_options f = Ok o ->
  optimize_alpha o = fl_alpha f /\ scale_16 o = fl_scale16 f /\ force o = fl_force f /\ fix_errors o = fl_fix f /\
  idat_recoding o = negb (fl_nz f) /\
  (fl_nx f = false -> bit_depth_reduction o = negb (fl_nb f) /\ color_type_reduction o = negb (fl_nc f) /\
                      palette_reduction o = negb (fl_np f) /\ grayscale_reduction o = negb (fl_ng f)) /\
  (forall v, fl_interlace f = Some v -> interlace o = v) /\
  (fl_fast f = true -> fast_evaluation o = true) /\
  (fl_timeout f = None -> has_timeout o = has_timeout (preset_of f)) /\ (fl_timeout f <> None -> has_timeout o = true).
Proof. unfold cli_options. apply switches_from. Qed.

(* explicit settings override the preset whatever the preset is; what is not given comes from the
   preset (the flags are a record: order of appearance on the command line cannot matter) *)
Theorem explicit_overrides_preset f o : cli_options f = Ok o ->
  (forall x, fl_zc f = Some x -> fl_zopfli f = false -> deflate o = Libdeflater x) /\
  (fl_zc f = None -> fl_zopfli f = false -> deflate o = deflate (preset_of f)) /\
  (fl_zopfli f = true -> deflate o = Zopfli (fl_zi f)) /\
  (forall l, fl_filters f = Some l -> filter o = filters_of_codes l []) /\
  (fl_filters f = None -> filter o = filter (preset_of f)) /\
  (fl_fast f = false -> fast_evaluation o = fast_evaluation (preset_of f)).
Proof. destruct (preset_deflate f) as [c Hc]. unfold cli_options. eapply explicit_from; eauto. Qed.

Theorem strip_spec f o : cli_options f = Ok o ->
  (fl_strip_safe f = true -> strip o = StripSafe) /\
  (fl_strip_safe f = false -> fl_strip f = Some SaSafe -> strip o = StripSafe) /\
  (fl_strip_safe f = false -> fl_strip f = Some SaAll -> strip o = StripAll) /\
  (fl_strip_safe f = false -> fl_strip f = None -> fl_keep f = None -> strip o = strip (preset_of f)).
Proof. unfold cli_options. apply strip_from. Qed.

(* a list that names a chunk which may not be stripped is refused *)
Theorem forbidden_strip_refused f names : fl_strip f = Some (SaList names) ->
  existsb (fun n => existsb (cname_eqb n) FORBIDDEN_CHUNKS) names = true -> cli_options f = Err EOther.
Proof. intros Hs Hf. unfold cli_options, cli_options_from, stage_strip. rewrite Hs, Hf. reflexivity. Qed.

(* ------------------------------------------------------------------ exit status *)
Definition is_ok_r (r : opt_result) := match r with RsOk => true | _ => false end.
Definition is_failed_r (r : opt_result) := match r with RsFailed => true | _ => false end.

Lemma summary_go rs : forall a,
  fold_left (fun a b => if rs_rank b <? rs_rank a then b else a) rs a =
  if is_ok_r a || existsb is_ok_r rs then RsOk
  else if is_failed_r a || existsb is_failed_r rs then RsFailed else RsSkipped.
Proof.
  induction rs as [|r t IH]; intros a; cbn [fold_left existsb].
  - destruct a; reflexivity.
  - rewrite IH. destruct a, r; cbn; try reflexivity;
    destruct (existsb is_ok_r t); cbn; try reflexivity; destruct (existsb is_failed_r t); reflexivity.
Qed.

Lemma existsb_ok_In rs : existsb is_ok_r rs = true <-> In RsOk rs.
Proof.
  rewrite existsb_exists. split.
  - intros [x [Hx E]]. destruct x; try discriminate. exact Hx.
  - intros H. exists RsOk. auto.
Qed.
Lemma existsb_failed_In rs : existsb is_failed_r rs = true <-> In RsFailed rs.
Proof.
  rewrite existsb_exists. split.
  - intros [x [Hx E]]. destruct x; try discriminate. exact Hx.
  - intros H. exists RsFailed. auto.
Qed.

(* 0 if some file was processed successfully, otherwise 1 if some file failed, otherwise 3 *)
Theorem exit_status_spec rs :
  (exit_code rs = 0 <-> In RsOk rs) /\
  (exit_code rs = 1 <-> (~ In RsOk rs /\ In RsFailed rs)) /\
  (exit_code rs = 3 <-> (~ In RsOk rs /\ ~ In RsFailed rs)).
Proof.
  unfold exit_code, summary. rewrite summary_go. cbn [is_ok_r is_failed_r orb].
  rewrite <- existsb_ok_In, <- existsb_failed_In.
  destruct (existsb is_ok_r rs), (existsb is_failed_r rs); cbn; repeat split; try tauto; try discriminate; try lia;
    try (intros [A B]; try discriminate; try (exfalso; apply A; reflexivity); try (exfalso; apply B; reflexivity));
    try (intros [A B]; discriminate).
  all: try (split; [intros H; discriminate|reflexivity]).
  all: try (intros H; discriminate).
Qed.

(* ------------------------------------------------------------------ routing (also C04 / C12) *)
Theorem route_spec inp outp fo :
  (* in place and not improved: nothing is written *)
  (fo = true -> (outp = OutPath None false \/ outp = OutPath None true) -> forall q, inp = InPath q -> route inp outp fo = (DNowhere, false)) /\
  (* --pretend never writes *)
  (outp = OutNone -> fst (route inp outp fo) = DNowhere) /\
  (* --stdout writes to stdout; the original bytes when not improved *)
  (outp = OutStdout -> route inp outp fo = (DStdout, fo)) /\
  (* a different destination gets the original bytes when not improved *)
  (forall p q pr, outp = OutPath (Some p) pr -> inp = InPath q -> list_eqb Z.eqb p q = false -> route inp outp fo = (DFile p, fo)).
Proof.
  repeat split.
  - intros -> [-> | ->] q ->; reflexivity.
  - intros ->. destruct inp, fo; reflexivity.
  - intros ->. destruct inp, fo; reflexivity.
  - intros p q pr -> -> E. unfold route. rewrite E. rewrite andb_false_r. reflexivity.
Qed.

(* ------------------------------------------------------------------ collect_files *)
Theorem collect_no_recursion nodes prefix fuel : 
  forall p, In p (collect (S fuel) false true prefix nodes) -> exists name, In (FFile name) nodes /\ p = prefix ++ [name].
Proof.
  intros p H. cbn [collect] in H. apply in_flat_map in H. destruct H as [n [Hn Hp]].
  destruct n as [name|name entries]; [|destruct Hp].
  cbn in Hp. destruct Hp as [<-|[]]. exists name. auto.
Qed.

Theorem collect_below_top_only_png fuel prefix nodes rec :
  forall p, In p (collect fuel rec false prefix nodes) ->
  exists name, is_png_name name = true /\ last p [] = name.
Proof.
  revert prefix nodes. induction fuel as [|fu IH]; intros prefix nodes p H; [destruct H|].
  cbn [collect] in H. apply in_flat_map in H. destruct H as [n [Hn Hp]].
  destruct n as [name|name entries].
  - cbn [negb andb] in Hp. destruct (is_png_name name) eqn:E; cbn [negb] in Hp; [|destruct Hp].
    destruct Hp as [<-|[]]. exists name. split; [exact E|]. rewrite last_last. reflexivity.
  - destruct rec; [|destruct Hp]. eapply IH; eauto.
Qed.

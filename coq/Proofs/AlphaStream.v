(* C03 at stream level: with the alpha optimisation on, the inflated IDAT content that filter_image produces for a decodable image
   is accepted by the specification's decoder and decodes to a picture alpha-equivalent to what the image means. *)
From OxiVerif Require Import Base.Common Base.Crc32 Spec.Filter Spec.Adam7 Spec.Sem Spec.Decode Model.Types Model.ScanLines Model.Filters
  Proofs.Bridge Proofs.PixelProofs Proofs.ScanProofs Proofs.ImageLift Proofs.LiftReductions Proofs.LiftColor Proofs.LiftLines Proofs.LiftBits Proofs.LiftAlpha
  Proofs.FilterProofs Proofs.FilterImage Proofs.FilterStream.
From OxiVerif Require Import Proofs.AlphaLine Proofs.FilterImageAlpha.
Local Open Scope Z_scope.

(* two fully transparent pixels are alpha-equivalent whatever their colour bytes *)
Lemma pixel_transp8 c px px' : has_alpha c = true -> bytes_ok px -> bytes_ok px' ->
  length px = Z.to_nat (channels_per_pixel c) -> length px' = length px ->
  all_zero (skipn (Z.to_nat (channels_per_pixel c) - 1) px) = true ->
  skipn (Z.to_nat (channels_per_pixel c) - 1) px' = skipn (Z.to_nat (channels_per_pixel c) - 1) px ->
  aequiv (pxcol (spec_color_of c) 8 px) (pxcol (spec_color_of c) 8 px').
Proof.
  intros Ha Hok Hok' Hl Hl' Hz Hs. pose proof (all_zero_spec _ Hz) as A. unfold zeros_line in A.
  rewrite !pxcol8 by (auto; congruence).
  destruct c; try discriminate; cbn [channels_per_pixel] in *.
  - change (Z.to_nat 2 - 1)%nat with 1%nat in *. destruct px as [|v [|a [|? ?]]]; try (cbn in Hl; lia).
    destruct px' as [|v' [|a' [|? ?]]]; try (cbn in Hl'; lia). cbn in A, Hs. injection Hs as ->. rewrite (A a) by auto.
    apply aequiv_of_match. apply (pixel_transparent_gray_alpha 8 v v').
  - change (Z.to_nat 4 - 1)%nat with 3%nat in *. destruct px as [|r [|g [|b [|a [|? ?]]]]]; try (cbn in Hl; lia).
    destruct px' as [|r' [|g' [|b' [|a' [|? ?]]]]]; try (cbn in Hl'; lia). cbn in A, Hs. injection Hs as ->. rewrite (A a) by auto.
    apply aequiv_of_match. apply (pixel_transparent_rgba 8 r g b r' g' b').
Qed.

Lemma pixel_transp16 c px px' : has_alpha c = true -> bytes_ok px -> bytes_ok px' ->
  length px = (Z.to_nat (channels_per_pixel c) * 2)%nat -> length px' = length px ->
  all_zero (skipn (Z.to_nat (channels_per_pixel c) * 2 - 2) px) = true ->
  skipn (Z.to_nat (channels_per_pixel c) * 2 - 2) px' = skipn (Z.to_nat (channels_per_pixel c) * 2 - 2) px ->
  aequiv (pxcol (spec_color_of c) 16 px) (pxcol (spec_color_of c) 16 px').
Proof.
  intros Ha Hok Hok' Hl Hl' Hz Hs. pose proof (all_zero_spec _ Hz) as A. unfold zeros_line in A.
  destruct c; try discriminate; cbn [channels_per_pixel] in *.
  - change (Z.to_nat 2 * 2 - 2)%nat with 2%nat in *. destruct px as [|v1 [|v2 [|a1 [|a2 [|? ?]]]]]; try (cbn in Hl; lia).
    destruct px' as [|w1 [|w2 [|c1 [|c2 [|? ?]]]]]; try (cbn in Hl'; lia). cbn in A, Hs. injection Hs as -> ->.
    pose proof (A a1 ltac:(auto)). pose proof (A a2 ltac:(auto)). subst a1 a2.
    rewrite (pxcol16 _ 2) by auto. rewrite (pxcol16 _ 2) by auto.
    apply aequiv_of_match. apply (pixel_transparent_gray_alpha 16 (v1 * 256 + v2) (w1 * 256 + w2)).
  - change (Z.to_nat 4 * 2 - 2)%nat with 6%nat in *. destruct px as [|r1 [|r2 [|g1 [|g2 [|b1 [|b2 [|a1 [|a2 [|? ?]]]]]]]]]; try (cbn in Hl; lia).
    destruct px' as [|s1 [|s2 [|h1 [|h2 [|d1 [|d2 [|c1 [|c2 [|? ?]]]]]]]]]; try (cbn in Hl'; lia). cbn in A, Hs. injection Hs as -> ->.
    pose proof (A a1 ltac:(auto 10)). pose proof (A a2 ltac:(auto 10)). subst a1 a2.
    rewrite (pxcol16 _ 4) by auto. rewrite (pxcol16 _ 4) by auto.
    apply aequiv_of_match. apply (pixel_transparent_rgba 16 (r1 * 256 + r2) (g1 * 256 + g2) (b1 * 256 + b2) (s1 * 256 + s2) (h1 * 256 + h2) (d1 * 256 + d2)).
Qed.

Lemma chunks_exact_concat_lines {A} (B : nat) (ls : list (list A)) : (0 < B)%nat ->
  Forall (fun l => exists k, length l = (k * B)%nat) ls ->
  chunks_exact B (concat ls) = concat (map (chunks_exact B) ls).
Proof.
  intros HB H.
  assert (E : concat ls = concat (concat (map (chunks_exact B) ls)) /\ Forall (fun px => length px = B) (concat (map (chunks_exact B) ls))).
  { induction H as [|l t [k Hk] _ [IH1 IH2]]; cbn [map concat]; [split; [reflexivity|constructor]|].
    destruct (chunks_exact_spec B l k HB Hk) as (C1 & C2 & _). split.
    - rewrite concat_app, C1, <- IH1. reflexivity.
    - apply Forall_app. split; assumption. }
  destruct E as [E1 E2]. rewrite E1 at 1. apply chunks_exact_concat; assumption.
Qed.

Lemma Forall2_concat {A B} (R : A -> B -> Prop) l l' : Forall2 (Forall2 R) l l' -> Forall2 R (concat l) (concat l').
Proof. induction 1; cbn [concat]; [constructor|]. apply Forall2_app; assumption. Qed.

Lemma layout_line_pos w h b il data lines l : 1 <= w -> 1 <= h ->
  cut_layout (spec_layout w h b il) data = Some lines -> In l lines -> 1 <= snd (fst l).
Proof.
  intros Hw Hh Hcut Hl. destruct (cut_layout_shape _ _ _ Hcut) as [Hshape _]. destruct il.
  - pose proof (spec_lines_pos _ _ Hw Hh) as P. rewrite Forall_forall in P.
    clear -Hshape P Hl. unfold spec_layout in Hshape.
    revert lines Hshape Hl. induction (spec_lines w h) as [|pn t IH]; intros lines Hs Hl;
      inversion Hs as [|? l0 ? ls [Hf _] Hs']; subst; [destruct Hl|].
    destruct Hl as [<-|Hl]; [rewrite Hf; cbn [fst snd]; apply P; left; reflexivity|].
    apply (IH ltac:(intros x Hx; apply P; right; exact Hx) ls); auto.
  - clear -Hshape Hl Hw. unfold spec_layout in Hshape.
    revert lines Hshape Hl. induction (Z.to_nat h) as [|k IH]; intros lines Hs Hl; cbn [repeat] in Hs;
      inversion Hs as [|? l0 ? ls [Hf _] Hs']; subst; [destruct Hl|].
    destruct Hl as [<-|Hl]; [rewrite Hf; cbn [fst snd]; exact Hw|]. apply (IH ls); auto.
Qed.

Lemma Forall2_three {A B C D} (P : A -> B -> Prop) (Q : C -> D -> Prop) (R : list Z -> D -> Prop) (S : A -> list Z -> Prop) (g : B -> C) :
  (forall lay l d' r, P lay l -> Q (g l) d' -> R r d' -> S lay r) ->
  forall L lines lines' rows, Forall2 P L lines -> Forall2 Q (map g lines) lines' -> Forall2 R rows lines' -> Forall2 S L rows.
Proof.
  intros HS L lines lines' rows H1. revert lines' rows. induction H1 as [|lay l L' ls Hp _ IH]; intros lines' rows H2 H3; cbn [map] in H2.
  - inversion H2; subst. inversion H3; subst. constructor.
  - inversion H2 as [|? d' ? ds Hq H2']; subst. inversion H3 as [|r ? rs ? Hr H3']; subst. constructor; eauto.
Qed.

Lemma Forall2_strengthen {A B} (P : A -> Prop) (R S : A -> B -> Prop) l l' :
  Forall P l -> Forall2 R l l' -> (forall a b, P a -> R a b -> S a b) -> Forall2 S l l'.
Proof. intros HP HR HS. induction HR; constructor; inversion HP; subst; auto. Qed.

(* Forall2 version of the pixel-wise lift *)
Theorem sem_rel_aequiv (img img' : image) (B : nat) pic : (0 < B)%nat -> hdr img' = hdr img ->
  depth (hdr img) * channels_per_pixel (ctype (hdr img)) = 8 * Z.of_nat B ->
  length (data img') = length (data img) ->
  Forall2 (fun px px' => aequiv (pxcol (spec_color_of (ctype (hdr img))) (depth (hdr img)) px) (pxcol (spec_color_of (ctype (hdr img))) (depth (hdr img)) px'))
    (chunks_exact B (data img)) (chunks_exact B (data img')) ->
  sem img = Some pic -> exists pic', sem img' = Some pic' /\ pic_aequiv pic pic'.
Proof.
  intros HB Hh Hbits Hlen HF Hsem. unfold sem in *. rewrite Hh.
  rewrite spec_sem_gsem in Hsem. rewrite spec_sem_gsem.
  destruct (negb (depth_legal (spec_color_of (ctype (hdr img))) (depth (hdr img)))); [discriminate|].
  rewrite spec_channels_of in *. rewrite Hbits in *.
  destruct (gsem_some_length _ _ _ _ B _ _ HB Hsem) as [k Hk].
  destruct (chunks_exact_spec B (data img) k HB Hk) as (Hc & Hu & Hn).
  destruct (chunks_exact_spec B (data img') k HB ltac:(congruence)) as (Hc' & Hu' & Hn').
  rewrite <- Hc in Hsem. rewrite <- Hc'.
  exact (aequiv_gsem _ _ _ _ _ B B (chunks_exact B (data img)) (chunks_exact B (data img')) pic HB HB Hu Hu' HF Hsem).
Qed.

Lemma Forall2_concat_length {A} (l l' : list (list A)) : Forall2 (fun a b => length b = length a) l l' -> length (concat l') = length (concat l).
Proof. induction 1; cbn [concat]; [reflexivity|]. rewrite !app_length. congruence. Qed.

Lemma Forall2_map_both {A B C D} (R : C -> D -> Prop) (f : A -> C) (g : B -> D) l l' :
  Forall2 (fun a b => R (f a) (g b)) l l' -> Forall2 R (map f l) (map g l').
Proof. induction 1; cbn [map]; constructor; auto. Qed.

Lemma Forall2_impl' {A B} (R S : A -> B -> Prop) l l' : (forall a b, R a b -> S a b) -> Forall2 R l l' -> Forall2 S l l'.
Proof. intros H. induction 1; constructor; auto. Qed.

Lemma mult_transfer (B : nat) (l l' : list (list Z)) : Forall2 (fun a b => length b = length a) l l' ->
  Forall (fun l => exists k, length l = (k * B)%nat) l -> Forall (fun l => exists k, length l = (k * B)%nat) l'.
Proof. induction 1 as [|a b t t' L _ IH]; intros Hm; [constructor|]. apply Forall_cons_iff in Hm. destruct Hm as [[k Hk] Hm]. constructor; [exists k; congruence|auto]. Qed.

Theorem filter_image_alpha_decodes brute (img : image) f stream pic :
  wf img -> sem img = Some pic -> has_alpha (ctype (hdr img)) = true ->
  filter_image brute img f true = Ok stream ->
  exists pic', spec_decode_stream (width (hdr img)) (height (hdr img)) (spec_color_of (ctype (hdr img))) (depth (hdr img)) (interlaced (hdr img)) stream = Some pic'
    /\ pic_aequiv pic pic'.
Proof.
  intros [Hok _] Hsem Ha Hf.
  destruct (sem_some_cut _ _ Hsem) as (Hw & Hh & Hbpp & lines & Hcut).
  pose proof (sem_some_legal _ _ Hsem) as Hlegal.
  pose proof (scan_lines_is_layout img lines Hw Hh Hbpp Hcut) as Hsl.
  pose proof (legal_8_16 _ _ Hlegal (or_intror Ha)) as Hd.
  unfold filter_image in Hf; destruct (filter_image_rows brute img f true) as [rows|?|?] eqn:Er; cbn [bind] in Hf; try discriminate.
  injection Hf as <-.
  unfold filter_image_rows in Er. rewrite Ha, Hsl in Er. cbn [bind andb] in Er.
  match type of Er with bind ?X _ = _ => destruct X as [st|?|?] eqn:Ego end; cbn [bind] in Er; try discriminate.
  injection Er as <-.
  set (B := bpp_bytes img) in *. set (ab := Z.to_nat (bytes_per_channel img)) in *.
  assert (HB : bpp (hdr img) = 8 * Z.of_nat B).
  { unfold B, bpp_bytes, bytes_per_channel, channels, bpp. destruct Hd as [Hd|Hd]; rewrite Hd; destruct (ctype (hdr img)); try discriminate; reflexivity. }
  assert (Hab : (1 <= ab)%nat /\ (ab <= B)%nat /\ (0 < B)%nat).
  { unfold ab, B, bpp_bytes, bytes_per_channel, channels. destruct Hd as [Hd|Hd]; rewrite Hd; destruct (ctype (hdr img)); try discriminate; cbn; lia. }
  destruct Hab as (Hab1 & Hab2 & HB0).
  destruct (cut_layout_shape _ _ _ Hcut) as [Hshape Hdata].
  assert (Hall : Forall (fun l => bytes_ok (l_data l) /\ mult_line B (l_data l)) (map to_scanline lines)).
  { apply Forall_forall. intros sl Hsl0. apply in_map_iff in Hsl0. destruct Hsl0 as [l [<- Hl]]. cbn [to_scanline l_data].
    destruct (cut_lines_lengths _ _ _ _ _ _ Hw Hh Hcut l Hl) as [Hlen Hn]. split.
    - unfold bytes_ok. apply Forall_forall. intros x Hx. eapply bytes_ok_in; [exact Hok|]. rewrite Hdata. apply in_concat. exists (snd l). split; [apply in_map; exact Hl|exact Hx].
    - assert (Hn1 : 1 <= snd (fst l)) by (apply (layout_line_pos _ _ _ _ _ _ l Hw Hh Hcut Hl)).
      exists (Z.to_nat (snd (fst l))). split; [lia|]. rewrite Hlen, HB. unfold line_bytes, cdiv.
      replace (snd (fst l) * (8 * Z.of_nat B) + 8 - 1) with (7 + (snd (fst l) * Z.of_nat B) * 8) by lia.
      rewrite Z.div_add by lia. change (7 / 8) with 0. lia. }
  assert (I0 : inv {| fi_out := []; fi_prev_line := []; fi_prev_pass := None; fi_row := 0 |} None) by (split; [reflexivity|constructor]).
  destruct (filter_image_go_alpha_ok B ab Hab1 Hab2 brute f _ _ _ _ I0 Hall Ego) as (rows & lines' & Eout & F2 & FR & Hseq).
  cbn [fi_out] in Eout. rewrite app_nil_r in Eout. rewrite Eout, rev_involutive.
  set (cb := (B - ab)%nat) in *.
  (* the stream is cut into exactly these rows *)
  assert (Hcutf : cut_filtered (spec_layout (width (hdr img)) (height (hdr img)) (bpp (hdr img)) (interlaced (hdr img))) (concat rows)
                  = Some (combine (map l_pass (map to_scanline lines)) rows)).
  { rewrite cut_filtered_concat.
    - f_equal. f_equal. clear -Hshape. revert lines Hshape.
      induction (spec_layout (width (hdr img)) (height (hdr img)) (bpp (hdr img)) (interlaced (hdr img))) as [|lay t IH]; intros lines Hs;
        inversion Hs as [|? l ? ls [Hf _] Hs']; subst; cbn [map]; [reflexivity|]. rewrite (IH ls Hs'). cbn [to_scanline l_pass]. rewrite Hf. reflexivity.
    - rewrite map_map in FR.
      refine (Forall2_three _ _ _ _ (fun l => l_data (to_scanline l)) _ _ _ _ _ Hshape FR F2).
      intros lay l d' r [Hf Hlen] (L & _) (ft & buf & -> & _ & Hbl). cbn [length to_scanline l_data] in *. congruence. }
  assert (Hunf : spec_unfilter (width (hdr img)) (height (hdr img)) (bpp (hdr img)) (interlaced (hdr img)) (concat rows) = Some (concat lines')).
  { unfold spec_unfilter.
    destruct (Z.leb_spec (width (hdr img)) 0); [lia|]. destruct (Z.leb_spec (height (hdr img)) 0); [lia|].
    destruct (Z.leb_spec (bpp (hdr img)) 0); [lia|]. cbn [orb].
    rewrite Hcutf, <- (bpp_bytes_filter_bpp img Hlegal). fold B. rewrite Hseq. reflexivity. }
  unfold spec_decode_stream. rewrite spec_channels_of. fold (bpp (hdr img)). rewrite Hunf.
  rewrite map_map in FR. cbn [to_scanline l_data] in FR.
  assert (Hmult : Forall (fun l => exists k, length l = (k * B)%nat) (map snd lines)).
  { apply Forall_forall. intros d0 Hd0. apply in_map_iff in Hd0. destruct Hd0 as [l [<- Hl]].
    rewrite Forall_forall in Hall. destruct (Hall (to_scanline l) (in_map _ _ _ Hl)) as [_ (k & _ & E)]. exists k. exact E. }
  assert (Hmult' : Forall (fun l => exists k, length l = (k * B)%nat) lines').
  { eapply mult_transfer; [|exact Hmult]. eapply Forall2_impl'; [|exact FR]. intros a b (L & _). exact L. }
  assert (Hlen' : length (concat lines') = length (data img)).
  { rewrite Hdata. apply Forall2_concat_length. eapply Forall2_impl'; [|exact FR]. intros a b (L & _). exact L. }
  assert (HFpx : Forall2 (px_rel cb) (chunks_exact B (data img)) (chunks_exact B (concat lines'))).
  { rewrite Hdata, !chunks_exact_concat_lines by assumption. apply Forall2_concat. apply Forall2_map_both.
    eapply Forall2_impl'; [|exact FR]. intros a b (_ & _ & F). exact F. }
  pose proof (chunks_exact_bytes B (data img) Hok) as Hpxs.
  unfold bpp in HB.
  destruct (sem_rel_aequiv img {| hdr := hdr img; data := concat lines' |} B pic HB0 eq_refl HB Hlen') as (pic' & E & Q); [|exact Hsem|exists pic'; split; [exact E|exact Q]].
  cbn [data]. eapply Forall2_strengthen; [exact Hpxs|exact HFpx|]. cbn beta. intros px px' [Hl Hb] [->|(Z1 & S1 & L1 & B1)]; [apply aequiv_refl|].
  assert (Hfacts : (depth (hdr img) = 8 /\ B = Z.to_nat (channels_per_pixel (ctype (hdr img))) /\ cb = (Z.to_nat (channels_per_pixel (ctype (hdr img))) - 1)%nat) \/
                   (depth (hdr img) = 16 /\ B = (Z.to_nat (channels_per_pixel (ctype (hdr img))) * 2)%nat /\ cb = (Z.to_nat (channels_per_pixel (ctype (hdr img))) * 2 - 2)%nat)).
  { unfold cb, ab, B, bpp_bytes, bytes_per_channel, channels. destruct Hd as [Hd|Hd]; rewrite Hd; [left|right]; destruct (ctype (hdr img)); try discriminate; cbn; auto. }
  destruct Hfacts as [(E1 & E2 & E3)|(E1 & E2 & E3)]; rewrite E1.
  - apply pixel_transp8; auto; try congruence.
  - apply pixel_transp16; auto; try congruence.
Qed.

(* Proofs about the APNG part of the model (C10). *)
From OxiVerif Require Import Base.Common Model.Types Model.Options Model.Headers Model.PngData Model.Optimize
  Proofs.ChunkProofs.

Definition same_frame_fields (a b : frame) : Prop :=
  f_width a = f_width b /\ f_height a = f_height b /\ f_x a = f_x b /\ f_y a = f_y b /\
  f_delay_num a = f_delay_num b /\ f_delay_den a = f_delay_den b /\ f_dispose a = f_dispose b /\ f_blend a = f_blend b.

Lemma same_frame_fields_refl f : same_frame_fields f f.
Proof. unfold same_frame_fields. tauto. Qed.

(* recompression keeps the number and order of frames and every fcTL field; only the data may
   change, and then it is strictly smaller *)
Theorem recompress_frames_preserves e o hd f : forall i fs fs',
  recompress_frames_go e o hd f i fs = Ok fs' ->
  Forall2 (fun a b => same_frame_fields a b /\ (f_data b = f_data a \/ lenZ (f_data b) < lenZ (f_data a))) fs fs'.
Proof.
  intros i fs. revert i. induction fs as [|fr t IH]; intros i fs' H; cbn [recompress_frames_go] in H.
  - injection H as <-. constructor.
  - match type of H with bind ?X _ = _ => destruct X as [fr'|x1|x2] eqn:E1 end; cbn [bind] in H; try discriminate.
    destruct (recompress_frames_go e o hd f (S i) t) as [rest|x1|x2] eqn:E2; cbn [bind] in H; try discriminate.
    injection H as <-. constructor; [|eapply IH; eauto].
    destruct (dl e (SFrame i)).
    + injection E1 as <-. split; [apply same_frame_fields_refl|left; reflexivity].
    + destruct (png_image_new e _ (f_data fr)) as [img|x1|x2]; cbn [bind] in E1; try discriminate.
      destruct (Filters.filter_image _ img f (optimize_alpha o)) as [flt|x1|x2]; cbn [bind] in E1; try discriminate.
      unfold deflate_capped in E1.
      destruct (lenZ (f_data fr) - 1 <? lenZ (z_deflate e (deflate o) flt)) eqn:El; injection E1 as <-.
      * split; [apply same_frame_fields_refl|left; reflexivity].
      * split; [unfold same_frame_fields, with_fdata; cbn; tauto|]. right. cbn. apply Z.ltb_ge in El. lia.
Qed.

Theorem recompress_frames_top e o p f fs' : recompress_frames e o p f = Ok fs' ->
  Forall2 (fun a b => same_frame_fields a b /\ (f_data b = f_data a \/ lenZ (f_data b) < lenZ (f_data a))) (frames p) fs'.
Proof.
  unfold recompress_frames. intros H. destruct (negb (idat_recoding o)).
  - injection H as <-. induction (frames p); constructor; auto. split; [apply same_frame_fields_refl|left; reflexivity].
  - destruct (frames p) as [|fr t] eqn:E; [injection H as <-; constructor|].
    rewrite <- E in H. rewrite E in H. eapply recompress_frames_preserves; eauto.
Qed.

(* chunk-level view of the frames written by `output`: (name, sequence number, rest of payload) *)
Fixpoint frame_chunks (fs : list frame) (seq : Z) : list (cname * Z) :=
  match fs with
  | [] => []
  | _ :: t => (name_fcTL, seq) :: (name_fdAT, seq + 1) :: frame_chunks t (seq + 2)
  end.

(* sequence numbers written for the frames are consecutive, starting right after the pre-IDAT fcTL *)
Theorem frame_sequence_consecutive fs : forall s0,
  map snd (frame_chunks fs s0) = map (fun k => s0 + Z.of_nat k) (seq 0 (2 * length fs)).
Proof.
  induction fs as [|f t IH]; intros s; [reflexivity|].
  cbn [frame_chunks map length]. replace (2 * S (length t))%nat with (S (S (2 * length t))) by lia.
  cbn [seq map snd]. rewrite IH.
  replace (s + Z.of_nat 0) with s by (cbn; lia). replace (s + Z.of_nat 1) with (s + 1) by (cbn; lia). do 2 f_equal.
  rewrite <- (seq_shift _ 1), <- (seq_shift _ 0), !map_map. apply map_ext. intros k. lia.
Qed.

(* fcTL serialisation and parsing are inverse on the frame fields (values in range) *)
Definition frame_in_range (f : frame) : Prop :=
  0 <= f_width f < 2 ^ 32 /\ 0 <= f_height f < 2 ^ 32 /\ 0 <= f_x f < 2 ^ 32 /\ 0 <= f_y f < 2 ^ 32 /\
  0 <= f_delay_num f < 2 ^ 16 /\ 0 <= f_delay_den f < 2 ^ 16 /\ 0 <= f_dispose f < 256 /\ 0 <= f_blend f < 256.

Lemma be32_to_be32 v : 0 <= v < 2 ^ 32 -> be32_of (to_be32 v ++ []) = v /\ forall r, be32_of (to_be32 v ++ r) = v.
Proof.
  intros H. change (2 ^ 32) with 4294967296 in H. unfold to_be32, be32_of, be32. cbn [app]. split; [|intros r]; lia.
Qed.
Lemma be16_to_be16 v r : 0 <= v < 2 ^ 16 -> be16_of (to_be16 v ++ r) = v.
Proof. intros H. change (2 ^ 16) with 65536 in H. unfold to_be16, be16_of, be16. cbn [app]. lia. Qed.

Theorem fctl_roundtrip f s : frame_in_range f -> 0 <= s < 2 ^ 32 ->
  exists g, frame_from_fctl (fctl_data f s) = Ok g /\ same_frame_fields f g /\ f_data g = [] /\ be32_of (fctl_data f s) = s.
Proof.
  intros (Hw & Hh & Hx & Hy & Hn & Hd & Hdi & Hb) Hs.
  unfold frame_from_fctl, fctl_data.
  assert (L : forall v, length (to_be32 v) = 4%nat) by reflexivity.
  assert (L2 : forall v, length (to_be16 v) = 2%nat) by reflexivity.
  match goal with |- context [(length ?l <? 26)%nat] => assert (El : length l = 26%nat) by (rewrite !app_length, !L, !L2; reflexivity) end.
  rewrite El. cbn [Nat.ltb Nat.leb].
  eexists. split; [reflexivity|].
  unfold same_frame_fields. cbn [f_width f_height f_x f_y f_delay_num f_delay_den f_dispose f_blend f_data].
  unfold to_be32, to_be16. cbn [app skipn nth be32_of be16_of]. unfold be32, be16.
  change (2 ^ 32) with 4294967296 in *. change (2 ^ 16) with 65536 in *.
  repeat split; lia.
Qed.

(* when the policy does not keep all of acTL, fcTL and fdAT, every animation chunk is ignored: the
   result is a plain PNG of the default image *)
Theorem animation_stripped_together o st c :
  (cname_eqb (c_name c) name_acTL || cname_eqb (c_name c) name_fcTL || cname_eqb (c_name c) name_fdAT) = true ->
  (strip_keep (strip o) name_acTL && strip_keep (strip o) name_fcTL && strip_keep (strip o) name_fdAT) = false ->
  from_slice_step o st c = Ok st.
Proof.
  intros Hn Hk. unfold from_slice_step.
  assert (Hcrit : cname_eqb (c_name c) name_IDAT = false /\ cname_eqb (c_name c) name_IHDR = false /\
                  cname_eqb (c_name c) name_PLTE = false /\ cname_eqb (c_name c) name_tRNS = false).
  { apply orb_true_iff in Hn. destruct Hn as [Hn|Hn]; [apply orb_true_iff in Hn; destruct Hn as [Hn|Hn]|];
      apply cname_eqb_eq in Hn; rewrite Hn; cbn; auto. }
  destruct Hcrit as (A & B & C & D). rewrite A, B, C, D.
  destruct (strip_keep (strip o) (c_name c)); [|reflexivity].
  rewrite Hn, Hk. reflexivity.
Qed.

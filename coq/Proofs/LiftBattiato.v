(* sorted_palette_battiato keeps the meaning of an image: its re-indexing is a permutation of all palette indices. *)
From OxiVerif Require Import Base.Common Spec.Adam7 Spec.Sem Model.Types Model.ScanLines Model.Palette
  Proofs.Bridge Proofs.ScanProofs Proofs.ImageLift Proofs.LiftReductions Proofs.LiftColor Proofs.LiftPalette Proofs.LiftLines Proofs.LiftBits
  Proofs.CoocMatrix Proofs.SortGraph Proofs.MzengLoop Proofs.LiftMzeng.
From OxiVerif Require Import Proofs.BattiatoTable Proofs.BattiatoSteps Proofs.BattiatoLoop.
Local Open Scope Z_scope.

Lemma weighted_edges_in m a b : In (a, b) (weighted_edges m) <-> 0 <= a < b /\ b < lenZ m.
Proof.
  unfold weighted_edges.
  set (es := flat_map (fun i => map (fun j => ((Z.of_nat j, Z.of_nat i), mget m (Z.of_nat i) (Z.of_nat j))) (seq 0 i)) (seq 0 (length m))).
  rewrite in_map_iff. split.
  - intros ([[a' b'] w] & [= -> ->] & Hin). apply stable_sort_in in Hin. unfold es in Hin. apply in_flat_map in Hin.
    destruct Hin as (inn & Hi & Hj). apply in_seq in Hi. apply in_map_iff in Hj. destruct Hj as (jn & [= <- <- _] & Hjn). apply in_seq in Hjn. unfold lenZ. lia.
  - intros [H1 H2]. exists ((a, b), mget m b a). split; [reflexivity|]. apply stable_sort_in. unfold es. apply in_flat_map.
    exists (Z.to_nat b). unfold lenZ in H2. split; [apply in_seq; lia|]. apply in_map_iff. exists (Z.to_nat a). split; [|apply in_seq; lia].
    rewrite !Z2Nat.id by lia. reflexivity.
Qed.

Theorem sorted_palette_battiato_sem img r pic : wf img -> sem img = Some pic ->
  sorted_palette_battiato img = Ok (Some r) -> sem r = Some pic /\ wf r.
Proof.
  intros Hwf Hsem H. unfold sorted_palette_battiato, palette_for_sort in H.
  destruct (depth (hdr img) =? 8) eqn:Ed; cbn [negb orb] in H; [|discriminate]. apply Z.eqb_eq in Ed.
  destruct (interlaced (hdr img)) eqn:Eil; [discriminate|].
  destruct (ctype (hdr img)) as [| |pal| |] eqn:Ec; try discriminate.
  destruct (Nat.leb_spec (length pal) 2) as [|Hn3]; [discriminate|].
  destruct (scan_lines img false) as [lines|?|?] eqn:Esl; cbn [bind] in H; try discriminate.
  destruct (co_occurrence_matrix (length pal) lines) as [m|?|?] eqn:Em; cbn [bind] in H; try discriminate.
  destruct (battiato_reindex (length pal) (weighted_edges m)) as [R|?|?] eqn:ER; cbn [bind] in H; try discriminate.
  destruct (apply_most_popular_color (data img) R) as [R'|?|?] eqn:EM; cbn [bind] in H; try discriminate.
  destruct (sem_some_cut _ _ Hsem) as (Hw & Hh & Hbpp & L & Hcut).
  pose proof (scan_lines_is_layout img L Hw Hh Hbpp Hcut) as Hsl. rewrite Esl in Hsl. injection Hsl as ->.
  destruct (cut_layout_shape _ _ _ Hcut) as [_ Hdata].
  assert (Evs : concat (map l_data (map to_scanline L)) = data img) by (rewrite map_map, Hdata; reflexivity).
  pose proof (indexed8_in_range img pal pic Hwf Ec Ed Eil Hsem) as Hrange. unfold lenZ in Hrange.
  assert (HI : cooc_inv (length pal) m (data img)).
  { rewrite <- Evs. apply co_occurrence_inv; [|exact Em]. apply Forall_forall. intros sl Hsl. apply Forall_forall. intros v Hv.
    rewrite Forall_forall in Hrange. apply Hrange. rewrite <- Evs. apply in_concat. exists (l_data sl). split; [apply in_map; exact Hsl|exact Hv]. }
  destruct HI as [[Hlm _] _ _ _ _ _].
  destruct (battiato_all_indices (length pal) (weighted_edges m) R ltac:(lia)) as (Hnd & Hlen & Hall); [|exact ER|].
  { intros a b. rewrite weighted_edges_in. unfold lenZ. rewrite Hlm. tauto. }
  pose proof Hwf as [_ Hwfc]. rewrite Ec in Hwfc. cbn [wf_ctype] in Hwfc. destruct Hwfc as [_ Hpl].
  eapply (reindex_then_reorder_sem img pal R R'); eauto; [|lia].
  intros c Hc. apply Hall. rewrite Forall_forall in Hrange. apply Hrange. exact Hc.
Qed.

(* interlace_image keeps the meaning of an image (C01 leaf, interlacing direction): the model's pixel routing is the
   specification's (C18), the specification reads every pixel back where it was (Adam7RoundTrip), and the bit packing of
   the pass rows is what the specification's layout expects. *)
From OxiVerif Require Import Base.Common Spec.Adam7 Spec.Sem Model.Types Model.ScanLines Model.Interlace
  Proofs.Bridge Proofs.ScanProofs Proofs.InterlaceProofs Proofs.Adam7RoundTrip Proofs.ImageLift Proofs.LiftReductions
  Proofs.LiftColor Proofs.LiftLines Proofs.LiftBits.
Local Open Scope Z_scope.

(* ---------------------------------------------------------------- bits: model = specification *)
Lemma bits_table : forallb (fun b => list_eqb Bool.eqb (bits_of_byte b) (sbits_of_byte b)) bytes256 = true.
Proof. vm_compute. reflexivity. Qed.

Lemma list_eqb_bool_spec l1 l2 : list_eqb Bool.eqb l1 l2 = true -> l1 = l2.
Proof.
  revert l2. induction l1 as [|a t IH]; intros [|b t2] H; cbn in H; try discriminate; [reflexivity|].
  apply andb_true_iff in H. destruct H as [H1 H2]. apply Bool.eqb_prop in H1. subst. f_equal. auto.
Qed.

Lemma bits_of_byte_spec b : 0 <= b < 256 -> bits_of_byte b = sbits_of_byte b.
Proof. intros H. pose proof bits_table as T. rewrite forallb_forall in T. apply list_eqb_bool_spec. apply T. apply in_bytes256. exact H. Qed.

Lemma bits_of_bytes_spec l : bytes_ok l -> bits_of_bytes l = sbits_of_bytes l.
Proof.
  unfold bits_of_bytes, sbits_of_bytes. induction l as [|b t IH]; intros H; [reflexivity|]. apply bytes_ok_cons in H. destruct H as [Hb Ht].
  cbn [flat_map]. rewrite IH by exact Ht. rewrite bits_of_byte_spec by exact Hb. reflexivity.
Qed.

(* chunks and groups agree on the complete groups *)
Lemma firstn_chunks_groups {A} (n : nat) : (0 < n)%nat -> forall (k w : nat) (l : list A), (length l <= k)%nat -> (w * n <= length l)%nat ->
  firstn w (chunks n l) = firstn w (groups n l).
Proof.
  intros Hn. induction k as [|k IH]; intros w l Hk Hw.
  - destruct l; [|cbn in Hk; lia]. rewrite chunks_nil, groups_nil. reflexivity.
  - destruct w as [|w]; [reflexivity|].
    assert (Hne : l <> []) by (intros ->; cbn in Hw; lia).
    rewrite (chunks_step n l Hn Hne), (groups_step n l Hn) by lia. cbn [firstn]. f_equal.
    apply IH; rewrite skipn_length; lia.
Qed.

Lemma line_pixels_bits_spec (n w : nat) (line : list Z) : (0 < n)%nat -> bytes_ok line -> (w * n <= length line * 8)%nat ->
  line_pixels_bits n w line = line_pixels (Z.of_nat n) (Z.of_nat w) line.
Proof.
  intros Hn Hok Hw. unfold line_pixels_bits, line_pixels. rewrite !Nat2Z.id. rewrite bits_of_bytes_spec by exact Hok.
  apply (firstn_chunks_groups n Hn (length (sbits_of_bytes line))); [lia|]. rewrite sbits_of_bytes_length. exact Hw.
Qed.

(* ---------------------------------------------------------------- packing bits into bytes *)
Definition bools8 : list (list bool) := lists_of [true; false] 8.

Lemma pack8_table : forallb (fun c => list_eqb Bool.eqb (sbits_of_byte (val_of_bits c 0)) c && (0 <=? val_of_bits c 0) && (val_of_bits c 0 <? 256)) bools8 = true.
Proof. vm_compute. reflexivity. Qed.

Lemma pack8_spec c : length c = 8%nat -> sbits_of_byte (val_of_bits c 0) = c /\ 0 <= val_of_bits c 0 < 256.
Proof.
  intros Hl. pose proof pack8_table as T. rewrite forallb_forall in T.
  assert (Hin : In c bools8) by (apply lists_of_complete; [exact Hl|intros [|] _; cbn; auto]).
  specialize (T c Hin). apply andb_true_iff in T. destruct T as [T T3]. apply andb_true_iff in T. destruct T as [T1 T2].
  split; [apply list_eqb_bool_spec; exact T1|split; [apply Z.leb_le; exact T2|apply Z.ltb_lt; exact T3]].
Qed.

Lemma bytes_of_bits_fuel_spec : forall (fuel : nat) (l : list bool), (length l <= fuel * 8)%nat ->
  let out := bytes_of_bits_fuel fuel l in
  bytes_ok out /\ Z.of_nat (length out) = cdiv (Z.of_nat (length l)) 8 /\
  sbits_of_bytes out = l ++ repeat false (length out * 8 - length l).
Proof.
  induction fuel as [|f IH]; intros l Hl; cbn zeta.
  - destruct l; [|cbn in Hl; lia]. cbn. split; [constructor|split; reflexivity].
  - cbn [bytes_of_bits_fuel]. destruct l as [|b0 t] eqn:El; [cbn; split; [constructor|split; reflexivity]|]. rewrite <- El in *.
    assert (Hln : (0 < length l)%nat) by (rewrite El; cbn; lia).
    set (chunk := firstn 8 l ++ repeat false (8 - length (firstn 8 l))).
    assert (Hc8 : length chunk = 8%nat) by (unfold chunk; rewrite app_length, repeat_length, firstn_length; lia).
    destruct (pack8_spec chunk Hc8) as [Hbits Hr].
    destruct (IH (skipn 8 l) ltac:(rewrite skipn_length; lia)) as (I1 & I2 & I3). cbn zeta in I1, I2, I3.
    set (rest := bytes_of_bits_fuel f (skipn 8 l)) in *.
    split; [apply Forall_cons; [exact Hr|exact I1]|]. split.
    + cbn [length]. rewrite Nat2Z.inj_succ, I2, skipn_length. unfold cdiv.
      destruct (Nat.le_gt_cases 8 (length l)).
      * replace (Z.of_nat (length l - 8)) with (Z.of_nat (length l) - 8) by lia.
        replace (Z.of_nat (length l) + 8 - 1) with ((Z.of_nat (length l) - 8 + 8 - 1) + 1 * 8) by lia. rewrite Z.div_add by lia. lia.
      * replace (length l - 8)%nat with 0%nat by lia. cbn [Z.of_nat]. change ((0 + 8 - 1) / 8) with 0.
        replace (Z.of_nat (length l) + 8 - 1) with ((Z.of_nat (length l) - 1) + 1 * 8) by lia. rewrite Z.div_add by lia. rewrite Z.div_small by lia. lia.
    + change (sbits_of_bytes (val_of_bits chunk 0 :: rest)) with (sbits_of_byte (val_of_bits chunk 0) ++ sbits_of_bytes rest).
      rewrite Hbits, I3. unfold chunk. cbn [length].
      destruct (Nat.le_gt_cases 8 (length l)) as [Hge|Hlt].
      * rewrite firstn_length. replace (8 - Nat.min 8 (length l))%nat with 0%nat by lia. cbn [repeat]. rewrite app_nil_r.
        rewrite app_assoc, firstn_skipn. f_equal. f_equal. rewrite skipn_length.
        assert (Z.of_nat (length rest) * 8 >= Z.of_nat (length l - 8)) by (rewrite I2, skipn_length; unfold cdiv; lia). lia.
      * rewrite (firstn_all2 l) by lia. rewrite (skipn_all2 l) by lia. cbn [app length].
        assert (Hrest : rest = []) by (unfold rest; rewrite (skipn_all2 l) by lia; destruct f; reflexivity).
        rewrite Hrest. cbn [length sbits_of_bytes flat_map]. rewrite app_nil_r. reflexivity.
Qed.

Lemma bytes_of_bits_spec (l : list bool) :
  bytes_ok (bytes_of_bits l) /\ Z.of_nat (length (bytes_of_bits l)) = cdiv (Z.of_nat (length l)) 8 /\
  sbits_of_bytes (bytes_of_bits l) = l ++ repeat false (length (bytes_of_bits l) * 8 - length l).
Proof. unfold bytes_of_bits. apply bytes_of_bits_fuel_spec. lia. Qed.

(* the pixels of a packed pass row are the pixels that were packed *)
Lemma line_pixels_packed (b : nat) (ln : list (list bool)) : (0 < b)%nat -> Forall (fun px => length px = b) ln ->
  line_pixels (Z.of_nat b) (Z.of_nat (length ln)) (bytes_of_bits (concat ln)) = ln /\
  Z.of_nat (length (bytes_of_bits (concat ln))) = line_bytes (Z.of_nat b) (Z.of_nat (length ln)) /\ bytes_ok (bytes_of_bits (concat ln)).
Proof.
  intros Hb Hu. destruct (bytes_of_bits_spec (concat ln)) as (Hok & Hlen & Hbits).
  pose proof (concat_length_uniform b ln Hu) as Hcl.
  split; [|split; [|exact Hok]].
  - unfold line_pixels. rewrite !Nat2Z.id, Hbits.
    rewrite (groups_app b (concat ln) _ (length ln)) by (auto; rewrite Hcl; lia).
    rewrite (groups_is_chunks_exact b (concat ln)), (chunks_exact_concat b ln Hb Hu).
    rewrite firstn_app, Nat.sub_diag, firstn_O, app_nil_r. apply firstn_all.
  - rewrite Hlen, Hcl. unfold line_bytes. f_equal. lia.
Qed.

(* ---------------------------------------------------------------- sizes of the passes *)
Lemma length_by_nth_error {A} (l : list A) (N : nat) : (forall k, nth_error l k <> None <-> (k < N)%nat) -> length l = N.
Proof.
  intros H. destruct (Nat.lt_trichotomy (length l) N) as [Hlt|[E|Hgt]]; [|exact E|].
  - exfalso. pose proof (proj2 (H (length l)) Hlt) as Hn. apply Hn. apply nth_error_None. lia.
  - exfalso. pose proof (proj1 (H N)) as Hn. assert (nth_error l N <> None) by (apply nth_error_Some; lia). specialize (Hn H0). lia.
Qed.

Lemma sel_col_length {A} p (r : list A) : In p passes7 -> length (sel (col_in p) 0 r) = Z.to_nat (pw (lenZ r) p).
Proof.
  intros Hp. destruct (pass_consts p Hp) as (Hd & Hr & _ & _). apply length_by_nth_error. intros k.
  rewrite nth_error_sel_col by exact Hp. rewrite nth_error_Some. unfold pw, cdiv, lenZ.
  destruct (Z.leb_spec (Z.of_nat (length r)) (x0 p)).
  - split; [intros; destruct Hd as [E|[E|[E|E]]]; rewrite E in *; lia|intros; lia].
  - destruct Hd as [E|[E|[E|E]]]; rewrite E in *; split; intros; lia.
Qed.

Lemma sel_row_length {A} p (rows : list A) : In p passes7 -> length (sel (row_in p) 0 rows) = Z.to_nat (ph (lenZ rows) p).
Proof.
  intros Hp. destruct (pass_consts p Hp) as (_ & _ & Hd & Hr). apply length_by_nth_error. intros k.
  rewrite nth_error_sel_row by exact Hp. rewrite nth_error_Some. unfold ph, cdiv, lenZ.
  destruct (Z.leb_spec (Z.of_nat (length rows)) (y0 p)).
  - split; [intros; destruct Hd as [E|[E|[E|E]]]; rewrite E in *; lia|intros; lia].
  - destruct Hd as [E|[E|[E|E]]]; rewrite E in *; split; intros; lia.
Qed.

Lemma sel_in {A} (f : Z -> bool) (l : list A) : forall i x, In x (sel f i l) -> In x l.
Proof. induction l as [|a t IH]; intros i x H; cbn [sel] in H; [destruct H|]. destruct (f i); [destruct H as [<-|H]; [left; reflexivity|right; eauto]|right; eauto]. Qed.

(* the scan lines of one pass of an image of h rows of w pixels: ph lines of pw pixels, none if the pass has no column *)
Lemma pass_lines_shape {A} p (rows : list (list A)) (w : nat) : In p passes7 -> (forall r, In r rows -> length r = w) ->
  (pw (Z.of_nat w) p = 0 -> pass_lines p 0 rows = []) /\
  (0 < pw (Z.of_nat w) p -> length (pass_lines p 0 rows) = Z.to_nat (ph (lenZ rows) p) /\
                              Forall (fun ln => length ln = Z.to_nat (pw (Z.of_nat w) p)) (pass_lines p 0 rows) /\
                              pass_lines p 0 rows = map (sel (col_in p) 0) (sel (row_in p) 0 rows)).
Proof.
  intros Hp Hw. split.
  - intros H0. generalize 0 as y. induction rows as [|r t IH]; intros y; cbn [pass_lines]; [reflexivity|].
    assert (Hs : sel (col_in p) 0 r = []).
    { apply length_zero_iff_nil. rewrite sel_col_length by exact Hp. unfold lenZ. rewrite (Hw r (or_introl eq_refl)), H0. reflexivity. }
    rewrite Hs. cbn [nonempty]. rewrite andb_false_r. cbn [app]. apply IH. intros r' Hr'. apply Hw. right. exact Hr'.
  - intros Hpos.
    assert (Hne : forall r, In r rows -> nonempty (sel (col_in p) 0 r) = true).
    { intros r Hr. pose proof (sel_col_length p r Hp) as L. unfold lenZ in L. rewrite (Hw r Hr) in L.
      destruct (sel (col_in p) 0 r); [cbn in L; lia|reflexivity]. }
    rewrite (pass_lines_sel p rows 0 Hne). split; [|split; [|reflexivity]].
    + rewrite map_length. apply sel_row_length. exact Hp.
    + apply Forall_forall. intros ln Hln. apply in_map_iff in Hln. destruct Hln as [r [<- Hr]]. apply sel_in in Hr.
      rewrite sel_col_length by exact Hp. unfold lenZ. rewrite (Hw r Hr). reflexivity.
Qed.

(* ---------------------------------------------------------------- lists built pass by pass *)
Lemma Forall2_flat_map {A B C} (R : B -> C -> Prop) (f : A -> list B) (g : A -> list C) ps :
  (forall p, In p ps -> Forall2 R (f p) (g p)) -> Forall2 R (flat_map f ps) (flat_map g ps).
Proof.
  induction ps as [|p t IH]; intros H; cbn [flat_map]; [constructor|]. apply Forall2_app; [apply H; left; reflexivity|apply IH; intros q Hq; apply H; right; exact Hq].
Qed.

Lemma combine_app_len {B C} (a1 a2 : list B) (b1 b2 : list C) : length a1 = length b1 -> combine (a1 ++ a2) (b1 ++ b2) = combine a1 b1 ++ combine a2 b2.
Proof. revert b1. induction a1 as [|x t IH]; intros [|y b1] H; cbn in *; try lia; [reflexivity|]. rewrite IH by lia. reflexivity. Qed.

Lemma combine_flat_map {A B C} (f : A -> list B) (g : A -> list C) ps : (forall p, In p ps -> length (f p) = length (g p)) ->
  combine (flat_map f ps) (flat_map g ps) = flat_map (fun p => combine (f p) (g p)) ps.
Proof.
  induction ps as [|p t IH]; intros H; cbn [flat_map]; [reflexivity|]. rewrite combine_app_len by (apply H; left; reflexivity).
  rewrite IH by (intros q Hq; apply H; right; exact Hq). reflexivity.
Qed.

Lemma map_flat_map {A B C} (h : B -> C) (f : A -> list B) ps : map h (flat_map f ps) = flat_map (fun p => map h (f p)) ps.
Proof. induction ps as [|p t IH]; cbn [flat_map]; [reflexivity|]. rewrite map_app, IH. reflexivity. Qed.

Lemma flat_map_map {A B C} (g : A -> B) (f : B -> list C) l : flat_map f (map g l) = flat_map (fun x => f (g x)) l.
Proof. induction l as [|a t IH]; cbn; [reflexivity|]. rewrite IH. reflexivity. Qed.

Lemma flat_map_ext_in {A B} (f g : A -> list B) l : (forall x, In x l -> f x = g x) -> flat_map f l = flat_map g l.
Proof. induction l as [|a t IH]; intros H; cbn; [reflexivity|]. rewrite H by (left; reflexivity). rewrite IH by (intros x Hx; apply H; right; exact Hx). reflexivity. Qed.

Lemma pass_rows_app {A} q (a b : list (option Z * Z * list A)) : pass_rows q (a ++ b) = pass_rows q a ++ pass_rows q b.
Proof. unfold pass_rows. apply flat_map_app. Qed.

Lemma pass_rows_block {A} q p (n : Z) (lns : list (list A)) :
  pass_rows q (map (fun ln => (Some p, n, ln)) lns) = if p =? q then lns else [].
Proof.
  unfold pass_rows. induction lns as [|ln t IH]; cbn [map flat_map fst snd]; [destruct (p =? q); reflexivity|].
  rewrite IH. destruct (p =? q); reflexivity.
Qed.

Lemma pass_rows_blocks {A} (blk : Z -> list (list A)) (n : Z -> Z) ps q : NoDup ps -> In q ps ->
  pass_rows q (flat_map (fun p => map (fun ln => (Some p, n p, ln)) (blk p)) ps) = blk q.
Proof.
  induction ps as [|p t IH]; intros Hnd Hin; [destruct Hin|]. cbn [flat_map]. rewrite pass_rows_app, pass_rows_block.
  inversion Hnd as [|? ? Hnotin Hnd']; subst. destruct Hin as [->|Hin].
  - rewrite Z.eqb_refl.
    assert (E : pass_rows q (flat_map (fun p => map (fun ln => (Some p, n p, ln)) (blk p)) t) = []).
    { clear -Hnotin. induction t as [|p t IH]; [reflexivity|]. cbn [flat_map]. rewrite pass_rows_app, pass_rows_block.
      destruct (Z.eqb_spec p q) as [->|_]; [exfalso; apply Hnotin; left; reflexivity|]. cbn [app]. apply IH. intros H. apply Hnotin. right. exact H. }
    rewrite E, app_nil_r. reflexivity.
  - destruct (Z.eqb_spec p q) as [->|_]; [contradiction|]. cbn [app]. apply IH; assumption.
Qed.

Lemma passes7_nodup : NoDup passes7.
Proof. unfold passes7. repeat constructor; cbn; lia. Qed.

(* ---------------------------------------------------------------- interlace_image *)
Lemma groups_count {A} (n : nat) (l : list A) k : (0 < n)%nat -> (k * n <= length l)%nat -> (k <= length (groups n l))%nat.
Proof.
  intros Hn. revert l. induction k as [|k IH]; intros l Hl; [lia|].
  rewrite groups_step by lia. cbn [length]. apply le_n_S. apply IH. rewrite skipn_length. lia.
Qed.

Lemma packed_lines_lengths (bn : nat) (p n : Z) (lns : list (list (list bool))) : (0 < bn)%nat -> 0 <= n ->
  Forall (fun ln => length ln = Z.to_nat n) lns -> (forall ln px, In ln lns -> In px ln -> length px = bn) ->
  Forall2 (fun (lay : option Z * Z * Z) tl => length tl = Z.to_nat (snd lay))
          (repeat (Some p, n, line_bytes (Z.of_nat bn) n) (length lns)) (map (fun ln => bytes_of_bits (concat ln)) lns).
Proof.
  intros Hbn Hn HF Hpx. induction HF as [|ln t Hln _ IH]; cbn [length repeat map]; constructor.
  - cbn [snd]. assert (Hu : Forall (fun px => length px = bn) ln) by (apply Forall_forall; intros px Hp; apply (Hpx ln px); [left; reflexivity|exact Hp]).
    destruct (line_pixels_packed bn ln Hbn Hu) as (_ & E & _). rewrite Hln, Z2Nat.id in E by lia. rewrite <- E. lia.
  - apply IH. intros l0 px Hl0. apply Hpx. right. exact Hl0.
Qed.

Lemma packed_lines_pixels (bn : nat) (p n : Z) (lns : list (list (list bool))) : (0 < bn)%nat -> 0 <= n ->
  Forall (fun ln => length ln = Z.to_nat n) lns -> (forall ln px, In ln lns -> In px ln -> length px = bn) ->
  map (fun x : option Z * Z * Z * list Z => (fst (fst x), line_pixels (Z.of_nat bn) (snd (fst (fst x))) (snd x)))
      (combine (repeat (Some p, n, line_bytes (Z.of_nat bn) n) (length lns)) (map (fun ln => bytes_of_bits (concat ln)) lns))
  = map (fun ln => (Some p, n, ln)) lns.
Proof.
  intros Hbn Hn HF Hpx. induction HF as [|ln t Hln _ IH]; cbn [length repeat map combine]; [reflexivity|]. cbn [fst snd].
  rewrite IH by (intros l0 px Hl0; apply Hpx; right; exact Hl0). f_equal. f_equal.
  assert (Hu : Forall (fun px => length px = bn) ln) by (apply Forall_forall; intros px Hp; apply (Hpx ln px); [left; reflexivity|exact Hp]).
  destruct (line_pixels_packed bn ln Hbn Hu) as (E & _ & _). rewrite Hln, Z2Nat.id in E by lia. exact E.
Qed.

Theorem interlace_image_sem img img' pic : wf img -> interlaced (hdr img) = false ->
  interlace_image img = Ok img' -> sem img = Some pic -> sem img' = Some pic /\ wf img'.
Proof.
  intros [Hok Hwf] Hil Hint Hsem.
  destruct (sem_some_cut _ _ Hsem) as (Hw & Hh & Hbpp & lines & Hcut). rewrite Hil in Hcut.
  pose proof (scan_lines_is_layout img lines Hw Hh Hbpp) as Hsl. rewrite Hil in Hsl. specialize (Hsl Hcut).
  unfold interlace_image in Hint. rewrite Hsl in Hint. cbn [bind] in Hint.
  set (w := width (hdr img)) in *. set (h := height (hdr img)) in *. set (b := bpp (hdr img)) in *.
  set (bn := Z.to_nat b) in *. set (wn := Z.to_nat w) in *.
  assert (Hbn : (0 < bn)%nat) by (unfold bn; lia).
  (* the scan lines of the non-interlaced image: h lines of w pixels *)
  assert (Hlines : forall l, In l lines -> snd (fst l) = w /\ fst (fst l) = None /\ length (snd l) = Z.to_nat (line_bytes b w) /\ bytes_ok (snd l)).
  { destruct (cut_layout_shape _ _ _ Hcut) as [Hs Hd0]. intros l Hl.
    assert (Hlok : bytes_ok (snd l)).
    { unfold bytes_ok. apply Forall_forall. intros x Hx. eapply bytes_ok_in; [exact Hok|]. rewrite Hd0. apply in_concat. exists (snd l). split; [apply in_map; exact Hl|exact Hx]. }
    unfold spec_layout in Hs. clear -Hs Hl Hlok. revert lines Hs Hl. induction (Z.to_nat h) as [|k IH]; intros lines Hs Hl; cbn [repeat] in Hs;
      inversion Hs as [|? l0 ? ls [Hf Hlen] Hs']; subst; [destruct Hl|].
    destruct Hl as [<-|Hl]; [rewrite Hf; cbn [fst snd] in *; auto|apply (IH ls); auto]. }
  assert (Hnl : length lines = Z.to_nat h).
  { destruct (cut_layout_shape _ _ _ Hcut) as [Hs _]. unfold spec_layout in Hs. apply Forall2_len in Hs. rewrite repeat_length in Hs. lia. }
  (* the rows of pixels, as the model and as the specification see them *)
  set (rows := map (fun l => line_pixels b w (snd l)) lines).
  assert (Hrows_model : map (fun l => line_pixels_bits bn wn (l_data l)) (map to_scanline lines) = rows).
  { unfold rows. rewrite map_map. apply map_ext_in. intros l Hl. destruct (Hlines l Hl) as (_ & _ & Hlen & Hlok). cbn [to_scanline l_data].
    rewrite line_pixels_bits_spec; [unfold bn, wn; rewrite !Z2Nat.id by lia; reflexivity|exact Hbn|exact Hlok|].
    rewrite Hlen. unfold line_bytes, cdiv, bn, wn. 
    assert (Z.of_nat (Z.to_nat w * Z.to_nat b) <= Z.of_nat (Z.to_nat ((w * b + 8 - 1) / 8) * 8)); [|lia].
    rewrite !Nat2Z.inj_mul, !Z2Nat.id by (try lia; apply Z.div_pos; nia). lia. }
  assert (Hrow_len : forall r, In r rows -> length r = wn).
  { intros r Hr. unfold rows in Hr. apply in_map_iff in Hr. destruct Hr as [l [<- Hl]]. destruct (Hlines l Hl) as (_ & _ & Hlen & _).
    unfold line_pixels. rewrite firstn_length. fold wn. fold bn.
    assert ((wn <= length (groups bn (sbits_of_bytes (snd l))))%nat); [|lia].
    apply groups_count; [exact Hbn|]. rewrite sbits_of_bytes_length, Hlen. unfold line_bytes, cdiv, bn, wn.
    assert (Z.of_nat (Z.to_nat w * Z.to_nat b) <= Z.of_nat (Z.to_nat ((w * b + 8 - 1) / 8) * 8)); [|lia].
    rewrite !Nat2Z.inj_mul, !Z2Nat.id by (try lia; apply Z.div_pos; nia). lia. }
  assert (Hpx_len : forall r px, In r rows -> In px r -> length px = bn).
  { intros r px Hr Hpx. unfold rows in Hr. apply in_map_iff in Hr. destruct Hr as [l [<- Hl]]. unfold line_pixels in Hpx. apply In_firstn in Hpx.
    pose proof (groups_lengths (Z.to_nat b) (sbits_of_bytes (snd l))) as GL. rewrite Forall_forall in GL. apply GL. exact Hpx. }
  assert (Hnrows : length rows = Z.to_nat h) by (unfold rows; rewrite map_length; exact Hnl).
  (* meaning of the input in terms of these rows *)
  assert (Hsem_rows : spec_image_pixels w h b false (data img) = Some rows).
  { unfold spec_image_pixels. destruct (Z.leb_spec w 0); [lia|]. destruct (Z.leb_spec h 0); [lia|]. destruct (Z.leb_spec b 0); [lia|]. cbn [orb].
    rewrite Hcut. unfold assemble. f_equal. rewrite map_map. unfold rows. apply map_ext_in. intros l Hl. cbn [snd fst].
    destruct (Hlines l Hl) as (E & _). rewrite E. reflexivity. }
  rewrite Hrows_model in Hint. rewrite model_interlace_is_spec in Hint.
  remember (flat_map (fun pass => flat_map (fun ln => bytes_of_bits (concat ln)) pass) (spec_interlace rows)) as newdata eqn:Hnd.
  injection Hint as <-.
  (* the data of the interlaced image, pass by pass *)
  set (PL := fun p => pass_lines p 0 rows).
  set (npx := fun p => pw w p).
  assert (Hshape : forall p, In p passes7 ->
            (npx p = 0 -> PL p = []) /\
            (0 < npx p -> length (PL p) = Z.to_nat (ph h p) /\ Forall (fun ln => length ln = Z.to_nat (npx p)) (PL p))).
  { intros p Hp. destruct (pass_lines_shape p rows wn Hp Hrow_len) as [S0 S1]. unfold npx, PL.
    replace (Z.of_nat wn) with w in * by (unfold wn; lia). replace (lenZ rows) with h in * by (unfold lenZ; lia).
    split; [exact S0|]. intros Hpos. destruct (S1 Hpos) as (A1 & A2 & _). auto. }
  assert (Hnpx_nonneg : forall p, In p passes7 -> 0 <= npx p).
  { intros p Hp. unfold npx. apply pw_nonneg; [lia|]. unfold passes7 in Hp. cbn in Hp. lia. }
  assert (Hdata' : newdata
                   = concat (flat_map (fun p => map (fun ln => bytes_of_bits (concat ln)) (PL p)) passes7)).
  { rewrite Hnd. unfold spec_interlace. fold PL. generalize passes7 as ps. induction ps as [|p t IH]; cbn [flat_map map concat]; [reflexivity|].
    rewrite concat_app, <- IH. f_equal. apply flat_map_concat_map. }
  (* cutting it by the interlaced layout gives back the packed pass rows *)
  assert (Hpix_in : forall p ln px, In p passes7 -> In ln (PL p) -> In px ln -> length px = bn).
  { intros p ln px Hp Hln Hpx. unfold PL in Hln. destruct (Z.eq_dec (npx p) 0) as [E0|Hne].
    - destruct (Hshape p Hp) as [S0 _]. unfold PL in S0. rewrite (S0 E0) in Hln. destruct Hln.
    - destruct (pass_lines_shape p rows wn Hp Hrow_len) as [_ S1]. replace (Z.of_nat wn) with w in S1 by (unfold wn; lia).
      destruct (S1 ltac:(pose proof (Hnpx_nonneg p Hp); unfold npx in *; lia)) as (_ & _ & E). rewrite E in Hln.
      apply in_map_iff in Hln. destruct Hln as [r [<- Hr]]. apply sel_in in Hr. apply sel_in in Hpx. eapply Hpx_len; eauto. }
  set (L := spec_layout w h b true).
  assert (HL : L = flat_map (fun p => if npx p =? 0 then [] else repeat (Some p, npx p, line_bytes b (npx p)) (Z.to_nat (ph h p))) passes7).
  { unfold L, spec_layout, spec_lines. rewrite map_flat_map. apply flat_map_ext_in. intros p Hp. unfold spec_pass_lines, npx.
    destruct (pw w p =? 0); [reflexivity|]. rewrite map_repeat'. reflexivity. }
  set (tls := flat_map (fun p => map (fun ln => bytes_of_bits (concat ln)) (PL p)) passes7).
  assert (HF2 : Forall2 (fun lay tl => length tl = Z.to_nat (snd lay)) L tls).
  { rewrite HL. unfold tls. apply Forall2_flat_map. intros p Hp. destruct (Hshape p Hp) as [S0 S1].
    destruct (Z.eqb_spec (npx p) 0) as [E0|Hne]; [rewrite (S0 E0); constructor|].
    destruct (S1 ltac:(pose proof (Hnpx_nonneg p Hp); lia)) as [A1 A2]. rewrite <- A1.
    replace b with (Z.of_nat bn) by (unfold bn; lia).
    apply packed_lines_lengths; auto. intros ln px Hln Hpx. eapply Hpix_in; eauto. }
  assert (Hcut' : cut_layout L (concat tls) = Some (map (fun lt => (fst (fst lt), snd lt)) (combine L tls))) by (apply cut_layout_concat; exact HF2).
  (* the pixels of those lines are the pass rows *)
  assert (Hplines : map (fun l => (fst l, line_pixels b (snd (fst l)) (snd l))) (map (fun lt => (fst (fst lt), snd lt)) (combine L tls))
                    = flat_map (fun p => map (fun ln => (Some p, npx p, ln)) (PL p)) passes7).
  { rewrite map_map. cbn [fst snd]. rewrite HL. unfold tls. rewrite combine_flat_map.
    - rewrite map_flat_map. apply flat_map_ext_in. intros p Hp. destruct (Hshape p Hp) as [S0 S1].
      destruct (Z.eqb_spec (npx p) 0) as [E0|Hne]; [rewrite (S0 E0); reflexivity|].
      destruct (S1 ltac:(pose proof (Hnpx_nonneg p Hp); lia)) as [A1 A2]. rewrite <- A1.
      replace b with (Z.of_nat bn) by (unfold bn; lia).
      apply packed_lines_pixels; auto. intros ln px Hln Hpx. eapply Hpix_in; eauto.
    - intros p Hp. destruct (Hshape p Hp) as [S0 S1]. rewrite map_length.
      destruct (Z.eqb_spec (npx p) 0) as [E0|Hne]; [rewrite (S0 E0); reflexivity|].
      destruct (S1 ltac:(pose proof (Hnpx_nonneg p Hp); lia)) as [A1 _]. rewrite repeat_length. lia. }
  split.
  - unfold sem in *. cbn [hdr data width height interlaced depth ctype with_interlaced].
    unfold spec_sem in *. fold w h in Hsem |- *. rewrite Hil in Hsem.
    destruct (negb (depth_legal (spec_color_of (ctype (hdr img))) (depth (hdr img)))); [discriminate|].
    rewrite spec_channels_of in *. fold (bpp (hdr img)) in Hsem |- *. fold b in Hsem |- *.
    rewrite Hsem_rows in Hsem. rewrite Hdata'. fold tls.
    assert (Hpix' : spec_image_pixels w h b true (concat tls) = Some rows).
    { unfold spec_image_pixels. destruct (Z.leb_spec w 0); [lia|]. destruct (Z.leb_spec h 0); [lia|]. destruct (Z.leb_spec b 0); [lia|]. cbn [orb].
      fold L. rewrite Hcut', Hplines. unfold assemble.
      assert (Hpasses : map (fun p => pass_rows p (flat_map (fun p0 => map (fun ln => (Some p0, npx p0, ln)) (PL p0)) passes7)) passes7 = spec_interlace rows).
      { unfold spec_interlace. apply map_ext_in. intros q Hq. apply (pass_rows_blocks PL npx passes7 q passes7_nodup Hq). }
      rewrite Hpasses. apply spec_deinterlace_interlace; try lia; try exact Hnrows. intros r Hr. fold wn. apply Hrow_len. exact Hr. }
    rewrite Hpix'. exact Hsem.
  - split; cbn [data hdr ctype depth with_interlaced]; [|exact Hwf].
    rewrite Hdata'. unfold bytes_ok. apply Forall_forall. intros x Hx. apply in_concat in Hx. destruct Hx as [tl [Htl Hx]].
    apply in_flat_map in Htl. destruct Htl as [p [Hp Htl]]. apply in_map_iff in Htl. destruct Htl as [ln [<- Hln]].
    destruct (bytes_of_bits_spec (concat ln)) as (Hbok & _ & _). eapply bytes_ok_in; eauto.
Qed.

(* C03 at image level: alpha-equivalence of pictures (same alpha everywhere, same colour wherever alpha is not zero) lifted from
   pixels to whole byte-aligned images, and the alpha-optimising variants of the reductions. *)
From OxiVerif Require Import Base.Common Spec.Adam7 Spec.Sem Model.Types Model.ScanLines Model.BitDepth Model.Color Model.Palette
  Proofs.Bridge Proofs.PixelProofs Proofs.ImageLift Proofs.LiftReductions Proofs.LiftColor Proofs.LiftPalette.

(* the relation on (possibly undecodable) pixel colours: a decodable pixel stays decodable and alpha-equivalent *)
Definition aequiv (c c' : option rgba16) : Prop :=
  forall p, c = Some p -> exists q, c' = Some q /\ rgba_alpha_equivb p q = true.

Definition pic_aequiv (p q : picture) : Prop := picture_alpha_equivb p q = true.

Lemma aequiv_refl c : aequiv c c.
Proof. intros p ->. exists p. split; [reflexivity|apply rgba_alpha_equivb_refl]. Qed.

Lemma forall2b_rows (rows : list (list (option rgba16 * option rgba16))) :
  Forall (Forall (fun z => aequiv (fst z) (snd z))) rows -> forall px,
  all_some (map all_some (map (map fst) rows)) = Some px ->
  exists px', all_some (map all_some (map (map snd) rows)) = Some px' /\ forall2b (forall2b rgba_alpha_equivb) px px' = true.
Proof.
  induction 1 as [|row t Hrow _ IH]; intros px H; cbn [map all_some] in *.
  - injection H as <-. exists []. split; reflexivity.
  - destruct (all_some (map fst row)) as [r|] eqn:Er; [|discriminate].
    destruct (all_some (map all_some (map (map fst) t))) as [rest|] eqn:Et; [|discriminate]. injection H as <-.
    destruct (IH rest eq_refl) as (rest' & E' & F').
    assert (Hr : exists r', all_some (map snd row) = Some r' /\ forall2b rgba_alpha_equivb r r' = true).
    { clear -Hrow Er. revert r Er. induction Hrow as [|z zs Hz _ IH2]; intros r Er; cbn [map all_some] in *.
      - injection Er as <-. exists []. split; reflexivity.
      - destruct (fst z) as [p|] eqn:Ez; [|discriminate]. destruct (all_some (map fst zs)) as [r0|] eqn:E0; [|discriminate]. injection Er as <-.
        destruct (Hz p eq_refl) as (q & Eq & Hq). destruct (IH2 r0 eq_refl) as (r0' & E0' & F0'). rewrite Eq, E0'. exists (q :: r0'). split; [reflexivity|].
        cbn [forall2b]. rewrite Hq, F0'. reflexivity. }
    destruct Hr as (r' & Er' & Fr'). rewrite Er', E'. exists (r' :: rest'). split; [reflexivity|]. cbn [forall2b]. rewrite Fr', F'. reflexivity.
Qed.

Theorem aequiv_gsem w h il pc pc' (B B' : nat) (pxs pxs' : list (list Z)) pic :
  (0 < B)%nat -> (0 < B')%nat ->
  Forall (fun px => length px = B) pxs -> Forall (fun px => length px = B') pxs' ->
  Forall2 (fun px px' => aequiv (pc (sbits_of_bytes px)) (pc' (sbits_of_bytes px'))) pxs pxs' ->
  gsem w h (8 * Z.of_nat B) il pc (concat pxs) = Some pic ->
  exists pic', gsem w h (8 * Z.of_nat B') il pc' (concat pxs') = Some pic' /\ pic_aequiv pic pic'.
Proof.
  intros HB HB' Hu Hu' HF Hsem.
  destruct (rel_gsem aequiv w h il pc pc' B B' pxs pxs' HB HB' Hu Hu' HF) as (orows & E1 & E2 & HR).
  rewrite E2. rewrite E1 in Hsem. destruct orows as [rows|]; [|discriminate]. cbn [option_map finish] in *.
  specialize (HR rows eq_refl).
  destruct (all_some (map all_some (map (map fst) rows))) as [px|] eqn:Epx; [|discriminate]. injection Hsem as <-.
  destruct (forall2b_rows rows HR px Epx) as (px' & E' & F'). rewrite E'. eexists. split; [reflexivity|].
  unfold pic_aequiv, picture_alpha_equivb. cbn [pic_w pic_h pic_px]. rewrite !Z.eqb_refl, F'. reflexivity.
Qed.

(* image-level wrapper *)
Theorem sem_pixelwise_aequiv (img img' : image) (B B' : nat) (g : list Z -> list Z) pic :
  (0 < B)%nat -> (0 < B')%nat ->
  width (hdr img') = width (hdr img) -> height (hdr img') = height (hdr img) ->
  interlaced (hdr img') = interlaced (hdr img) ->
  depth (hdr img) * channels_per_pixel (ctype (hdr img)) = 8 * Z.of_nat B ->
  depth (hdr img') * channels_per_pixel (ctype (hdr img')) = 8 * Z.of_nat B' ->
  depth_legal (spec_color_of (ctype (hdr img'))) (depth (hdr img')) = true ->
  data img' = concat (map g (chunks_exact B (data img))) ->
  (forall px, In px (chunks_exact B (data img)) -> length px = B ->
     length (g px) = B' /\
     aequiv (pxcol (spec_color_of (ctype (hdr img))) (depth (hdr img)) px)
            (pxcol (spec_color_of (ctype (hdr img'))) (depth (hdr img')) (g px))) ->
  sem img = Some pic -> exists pic', sem img' = Some pic' /\ pic_aequiv pic pic'.
Proof.
  intros HB HB' Hw Hh Hil Hbits Hbits' Hlegal Hdata Hpx Hsem.
  unfold sem in *. rewrite Hw, Hh, Hil.
  rewrite spec_sem_gsem in Hsem. rewrite spec_sem_gsem, Hlegal. cbn [negb].
  destruct (negb (depth_legal (spec_color_of (ctype (hdr img))) (depth (hdr img)))); [discriminate|].
  rewrite spec_channels_of in *. rewrite Hbits in Hsem. rewrite Hbits'.
  destruct (gsem_some_length _ _ _ _ B _ _ HB Hsem) as [k Hlen].
  destruct (chunks_exact_spec B (data img) k HB Hlen) as (Hc & Hu & Hn).
  rewrite <- Hc in Hsem. rewrite Hdata.
  pose proof Hu as Hu0. rewrite Forall_forall in Hu0.
  eapply (aequiv_gsem _ _ _ _ _ B B'); try eassumption.
  - apply Forall_forall. intros x Hx. apply in_map_iff in Hx. destruct Hx as [px [<- Hin]]. apply Hpx; auto.
  - assert (G : forall l : list (list Z), (forall px, In px l -> In px (chunks_exact B (data img))) ->
      Forall2 (fun px px' => aequiv (pixel_color (spec_color_of (ctype (hdr img))) (depth (hdr img)) (sbits_of_bytes px))
                                    (pixel_color (spec_color_of (ctype (hdr img'))) (depth (hdr img')) (sbits_of_bytes px'))) l (map g l)).
    { induction l as [|px t IH]; intros Hl; cbn [map]; constructor.
      - apply Hpx; [apply Hl; left; reflexivity|apply Hu0; apply Hl; left; reflexivity].
      - apply IH. intros q Hq. apply Hl. right. exact Hq. }
    apply G. auto.
Qed.

(* picture alpha-equivalence is an equivalence, so it composes along the pipeline *)
Lemma forall2b_refl {A} (f : A -> A -> bool) l : (forall a, f a a = true) -> forall2b f l l = true.
Proof. intros H. induction l; cbn; [reflexivity|]. rewrite H, IHl. reflexivity. Qed.

Lemma forall2b_trans {A} (f : A -> A -> bool) : (forall a b c, f a b = true -> f b c = true -> f a c = true) ->
  forall l1 l2 l3, forall2b f l1 l2 = true -> forall2b f l2 l3 = true -> forall2b f l1 l3 = true.
Proof.
  intros Ht. induction l1 as [|a t IH]; intros [|b t2] [|c t3] H1 H2; cbn in *; try discriminate; auto.
  apply andb_true_iff in H1, H2. destruct H1, H2. apply andb_true_iff. split; eauto.
Qed.

Lemma pic_aequiv_refl p : pic_aequiv p p.
Proof.
  unfold pic_aequiv, picture_alpha_equivb. rewrite !Z.eqb_refl. cbn [andb].
  apply forall2b_refl. intros r. apply forall2b_refl. apply rgba_alpha_equivb_refl.
Qed.

Lemma pic_aequiv_trans p q r : pic_aequiv p q -> pic_aequiv q r -> pic_aequiv p r.
Proof.
  unfold pic_aequiv, picture_alpha_equivb. intros H1 H2.
  apply andb_true_iff in H1, H2. destruct H1 as [H1 F1], H2 as [H2 F2].
  apply andb_true_iff in H1, H2. destruct H1 as [W1 Hh1], H2 as [W2 Hh2]. apply Z.eqb_eq in W1, W2, Hh1, Hh2.
  rewrite W1, W2, Hh1, Hh2, !Z.eqb_refl. cbn [andb].
  eapply forall2b_trans; [|exact F1|exact F2]. intros a b c. apply forall2b_trans. apply rgba_alpha_equivb_trans.
Qed.

(* ---------------------------------------------------------------- cleaned_alpha_channel *)
Lemma all_eq_spec v l : all_eq v l = true -> forall x, In x l -> x = v.
Proof. unfold all_eq. rewrite forallb_forall. intros H x Hx. apply Z.eqb_eq. apply H. exact Hx. Qed.

Lemma aequiv_of_match c c' :
  match c, c' with Some p, Some q => rgba_alpha_equivb p q = true | _, _ => False end -> aequiv c c'.
Proof. destruct c as [p|], c' as [q|]; try tauto. intros H p0 E. injection E as <-. eauto. Qed.

Lemma pixel_clean8 c px : has_alpha c = true -> bytes_ok px -> length px = Z.to_nat (channels_per_pixel c) ->
  all_eq 0 (skipn (Z.to_nat (channels_per_pixel c) - 1) px) = true ->
  aequiv (pxcol (spec_color_of c) 8 px) (pxcol (spec_color_of c) 8 (repeat 0 (Z.to_nat (channels_per_pixel c)))).
Proof.
  intros Ha Hok Hl Hz. pose proof (all_eq_spec _ _ Hz) as A.
  assert (Hok0 : forall n, bytes_ok (repeat 0 n)) by (intros n; apply bytes_ok_repeat; unfold byte_ok; lia).
  rewrite !pxcol8 by auto.
  destruct c; try discriminate; cbn [channels_per_pixel] in *.
  - change (Z.to_nat 2 - 1)%nat with 1%nat in *. destruct px as [|v [|a [|? ?]]]; try (cbn in Hl; lia). cbn in A. rewrite (A a) by auto.
    apply aequiv_of_match. apply (pixel_transparent_gray_alpha 8 v 0).
  - change (Z.to_nat 4 - 1)%nat with 3%nat in *. destruct px as [|r [|g [|b [|a [|? ?]]]]]; try (cbn in Hl; lia). cbn in A. rewrite (A a) by auto.
    apply aequiv_of_match. apply (pixel_transparent_rgba 8 r g b 0 0 0).
Qed.

Lemma pixel_clean16 c px : has_alpha c = true -> bytes_ok px -> length px = (Z.to_nat (channels_per_pixel c) * 2)%nat ->
  all_eq 0 (skipn (Z.to_nat (channels_per_pixel c) * 2 - 2) px) = true ->
  aequiv (pxcol (spec_color_of c) 16 px) (pxcol (spec_color_of c) 16 (repeat 0 (Z.to_nat (channels_per_pixel c) * 2))).
Proof.
  intros Ha Hok Hl Hz. pose proof (all_eq_spec _ _ Hz) as A.
  assert (Hok0 : forall n, bytes_ok (repeat 0 n)) by (intros n; apply bytes_ok_repeat; unfold byte_ok; lia).
  destruct c; try discriminate; cbn [channels_per_pixel] in *.
  - change (Z.to_nat 2 * 2 - 2)%nat with 2%nat in *. destruct px as [|v1 [|v2 [|a1 [|a2 [|? ?]]]]]; try (cbn in Hl; lia). cbn in A.
    pose proof (A a1 ltac:(auto)). pose proof (A a2 ltac:(auto)). subst a1 a2.
    rewrite (pxcol16 _ 2) by auto. rewrite (pxcol16 _ 2) by (auto; reflexivity).
    apply aequiv_of_match. apply (pixel_transparent_gray_alpha 16 (v1 * 256 + v2) 0).
  - change (Z.to_nat 4 * 2 - 2)%nat with 6%nat in *. destruct px as [|r1 [|r2 [|g1 [|g2 [|b1 [|b2 [|a1 [|a2 [|? ?]]]]]]]]]; try (cbn in Hl; lia). cbn in A.
    pose proof (A a1 ltac:(auto 10)). pose proof (A a2 ltac:(auto 10)). subst a1 a2.
    rewrite (pxcol16 _ 4) by auto. rewrite (pxcol16 _ 4) by (auto; reflexivity).
    apply aequiv_of_match. apply (pixel_transparent_rgba 16 (r1 * 256 + r2) (g1 * 256 + g2) (b1 * 256 + b2) 0 0 0).
Qed.

Theorem cleaned_alpha_channel_aequiv img img' pic : wf img ->
  cleaned_alpha_channel img = Some img' -> sem img = Some pic ->
  (exists pic', sem img' = Some pic' /\ pic_aequiv pic pic') /\ wf img'.
Proof.
  intros [Hok Hwf] Hred Hsem. unfold cleaned_alpha_channel in Hred.
  destruct (has_alpha (ctype (hdr img))) eqn:Ea; cbn [negb] in Hred; [|discriminate].
  set (bd := Z.to_nat (bytes_per_channel img)) in *.
  set (B := (Z.to_nat (channels img) * bd)%nat) in *.
  injection Hred as <-.
  pose proof (sem_some_legal _ _ Hsem) as Hlegal.
  set (g := fun px : list Z => if all_eq 0 (skipn (B - bd) px) then repeat 0 B else px).
  assert (Hgok : forall px, bytes_ok px -> bytes_ok (g px)).
  { intros px H. unfold g. destruct (all_eq 0 _); [apply bytes_ok_repeat; unfold byte_ok; lia|exact H]. }
  split.
  - destruct (legal_8_16 _ _ Hlegal (or_intror Ea)) as [Hd|Hd].
    + assert (Hbd : bd = 1%nat) by (unfold bd, bytes_per_channel; rewrite Hd; reflexivity).
      assert (HB : B = Z.to_nat (channels_per_pixel (ctype (hdr img)))) by (unfold B, channels; lia).
      apply (sem_pixelwise_aequiv img _ B B g pic); cbn [hdr data]; auto.
      * rewrite HB. destruct (ctype (hdr img)); try discriminate; cbn [channels_per_pixel]; lia.
      * rewrite HB. destruct (ctype (hdr img)); try discriminate; cbn [channels_per_pixel]; lia.
      * rewrite HB, Hd. destruct (ctype (hdr img)); try discriminate; cbn [channels_per_pixel]; lia.
      * rewrite HB, Hd. destruct (ctype (hdr img)); try discriminate; cbn [channels_per_pixel]; lia.
      * rewrite flat_map_concat_map. reflexivity.
      * intros px Hin Hlen. assert (Hpok : bytes_ok px) by (apply (bytes_ok_chunk B (data img)); assumption).
        split; [unfold g; destruct (all_eq 0 _); [apply repeat_length|exact Hlen]|].
        unfold g. destruct (all_eq 0 (skipn (B - bd) px)) eqn:Ez; [|apply aequiv_refl].
        rewrite Hd, HB. rewrite HB, Hbd in Ez. apply pixel_clean8; auto. rewrite Hlen. exact HB.
    + assert (Hbd : bd = 2%nat) by (unfold bd, bytes_per_channel; rewrite Hd; reflexivity).
      assert (HB : B = (Z.to_nat (channels_per_pixel (ctype (hdr img))) * 2)%nat) by (unfold B, channels; lia).
      apply (sem_pixelwise_aequiv img _ B B g pic); cbn [hdr data]; auto.
      * rewrite HB. destruct (ctype (hdr img)); try discriminate; cbn [channels_per_pixel]; lia.
      * rewrite HB. destruct (ctype (hdr img)); try discriminate; cbn [channels_per_pixel]; lia.
      * rewrite HB, Hd. destruct (ctype (hdr img)); try discriminate; cbn [channels_per_pixel]; lia.
      * rewrite HB, Hd. destruct (ctype (hdr img)); try discriminate; cbn [channels_per_pixel]; lia.
      * rewrite flat_map_concat_map. reflexivity.
      * intros px Hin Hlen. assert (Hpok : bytes_ok px) by (apply (bytes_ok_chunk B (data img)); assumption).
        split; [unfold g; destruct (all_eq 0 _); [apply repeat_length|exact Hlen]|].
        unfold g. destruct (all_eq 0 (skipn (B - bd) px)) eqn:Ez; [|apply aequiv_refl].
        rewrite Hd, HB. rewrite HB, Hbd in Ez. apply pixel_clean16; auto. rewrite Hlen. exact HB.
  - split; cbn [data hdr]; [|exact Hwf].
    unfold bytes_ok. apply Forall_forall. intros x Hx. apply in_flat_map in Hx. destruct Hx as [px [Hpx Hx]].
    eapply bytes_ok_in; [apply Hgok; apply (bytes_ok_chunk B (data img)); eassumption|exact Hx].
Qed.

(* ---------------------------------------------------------------- palette normalisation (transparent entries become black) *)
Definition norm_rgba (c : rgba8) : rgba8 := let '(r, g, b, a) := c in if a =? 0 then (0, 0, 0, a) else c.

Definition norm_image (img : image) : image :=
  match ctype (hdr img) with
  | Indexed pal => {| hdr := with_ctype (hdr img) (Indexed (map norm_rgba pal)); data := data img |}
  | _ => img
  end.

Lemma norm_rgba_ok c : rgba8_ok c -> rgba8_ok (norm_rgba c).
Proof. destruct c as [[[r g] b] a]. unfold norm_rgba, rgba8_ok, byte_ok. intros H. destruct (a =? 0); lia. Qed.

Theorem norm_image_aequiv img pic : depth (hdr img) = 8 -> wf img -> sem img = Some pic ->
  (exists pic', sem (norm_image img) = Some pic' /\ pic_aequiv pic pic') /\ wf (norm_image img).
Proof.
  intros Hd [Hok Hwf] Hsem. unfold norm_image.
  destruct (ctype (hdr img)) as [| |pal| |] eqn:Hc; try (split; [exists pic; split; [exact Hsem|apply pic_aequiv_refl]|unfold wf; split; [exact Hok|rewrite Hc; exact Hwf]]).
  cbn [wf_ctype] in Hwf. destruct Hwf as [Hpal Hlen].
  split.
  - apply (sem_pixelwise_aequiv img _ 1 1 (fun px => px) pic); cbn [hdr data width height interlaced depth ctype with_ctype channels_per_pixel]; auto.
    + rewrite Hd, Hc. reflexivity.
    + rewrite Hd. reflexivity.
    + rewrite Hd. reflexivity.
    + rewrite map_id. destruct (chunks_exact_spec 1 (data img) (length (data img)) ltac:(lia) ltac:(lia)) as (E & _ & _). symmetry. exact E.
    + intros px Hin Hlen1. split; [exact Hlen1|]. rewrite chunks_exact_1 in Hin. apply in_map_iff in Hin. destruct Hin as [b [<- Hb]].
      assert (Hbr : 0 <= b < 256) by (apply (bytes_ok_in (data img)); assumption).
      assert (B1 : bytes_ok [b]) by (apply Forall_cons; [exact Hbr|apply Forall_nil]).
      rewrite Hd, Hc. cbn [spec_color_of]. rewrite !(pxcol8 _ _ B1). cbn [color_of_samples]. unfold rgba8 in *.
      rewrite nth_error_map. destruct (nth_error pal (Z.to_nat b)) as [[[[r g] bl] a]|]; cbn [option_map norm_rgba]; [|intros p Hp; discriminate].
      intros p Hp. injection Hp as <-. destruct (Z.eqb_spec a 0) as [->|Hne].
      * eexists. split; [reflexivity|]. cbn. reflexivity.
      * eexists. split; [reflexivity|]. apply rgba_alpha_equivb_refl.
  - split; cbn [data hdr ctype depth with_ctype wf_ctype]; [exact Hok|]. split; [|rewrite map_length; exact Hlen].
    apply Forall_forall. intros e He. apply in_map_iff in He. destruct He as [c [<- Hcin]]. apply norm_rgba_ok. rewrite Forall_forall in Hpal. auto.
Qed.

(* the alpha-optimising variants are the plain variants on the normalised image *)
Lemma indexed_to_channels_alpha img ag : indexed_to_channels img ag true = indexed_to_channels (norm_image img) ag false.
Proof.
  unfold indexed_to_channels, norm_image. destruct (ctype (hdr img)) as [| |pal| |] eqn:Hc; try (rewrite ?Hc; reflexivity).
Qed.

Lemma condense_alpha pal : forall used i set bm dc,
  condense used i pal true set bm dc = condense used i (map norm_rgba pal) false set bm dc.
Proof.
  induction used as [|u t IH]; intros i set bm dc; cbn [condense]; [reflexivity|].
  destruct (negb u); [apply IH|].
  assert (E : add_color_to_set (nth (Z.to_nat i) pal black) set true = add_color_to_set (nth (Z.to_nat i) (map norm_rgba pal) black) set false).
  { change black with (norm_rgba black) at 2. rewrite map_nth. unfold add_color_to_set.
    destruct (nth (Z.to_nat i) pal black) as [[[r g] b] a]. cbn [norm_rgba andb]. destruct (a =? 0); reflexivity. }
  rewrite E. destruct (add_color_to_set _ set false) as [idx set']. apply IH.
Qed.

Lemma reduced_palette_alpha img : reduced_palette img true = reduced_palette (norm_image img) false.
Proof.
  unfold reduced_palette, norm_image. destruct (ctype (hdr img)) as [| |pal| |] eqn:Hc; try (rewrite ?Hc; reflexivity).
  cbn [hdr ctype depth with_ctype data]. rewrite condense_alpha, map_length. reflexivity.
Qed.

Theorem indexed_to_channels_aequiv img img' ag pic : wf img ->
  indexed_to_channels img ag true = Some img' -> sem img = Some pic ->
  (exists pic', sem img' = Some pic' /\ pic_aequiv pic pic') /\ wf img'.
Proof.
  intros Hwf Hred Hsem. rewrite indexed_to_channels_alpha in Hred.
  assert (Hd : depth (hdr img) = 8).
  { unfold indexed_to_channels, norm_image in Hred. destruct (ctype (hdr img)) eqn:Hc; cbn [hdr depth with_ctype] in Hred;
      destruct (depth (hdr img) =? 8) eqn:E; try discriminate; apply Z.eqb_eq; exact E. }
  destruct (norm_image_aequiv img pic Hd Hwf Hsem) as [(pic1 & S1 & A1) W1].
  destruct (indexed_to_channels_sem _ _ _ _ W1 Hred S1) as [S2 W2]. split; [exists pic1; auto|exact W2].
Qed.

Theorem reduced_palette_aequiv img img' pic : wf img ->
  reduced_palette img true = Some img' -> sem img = Some pic ->
  (exists pic', sem img' = Some pic' /\ pic_aequiv pic pic') /\ wf img'.
Proof.
  intros Hwf Hred Hsem. rewrite reduced_palette_alpha in Hred.
  assert (Hd : depth (hdr img) = 8).
  { unfold reduced_palette, norm_image in Hred. destruct (ctype (hdr img)) eqn:Hc; cbn [hdr depth with_ctype] in Hred;
      destruct (depth (hdr img) =? 8) eqn:E; try discriminate; apply Z.eqb_eq; exact E. }
  destruct (norm_image_aequiv img pic Hd Hwf Hsem) as [(pic1 & S1 & A1) W1].
  destruct (reduced_palette_sem _ _ _ W1 Hred S1) as [S2 W2]. split; [exists pic1; auto|exact W2].
Qed.

(* ---------------------------------------------------------------- reduced_alpha_channel with alpha optimisation *)
Lemma nth_set_nth_true' (u : list bool) k j : nth k u false = true -> nth k (set_nth j true u) false = true.
Proof.
  revert k j. induction u as [|h t IH]; intros k j H; [destruct k; discriminate|].
  destruct j as [|j], k as [|k]; cbn [set_nth nth] in *; auto.
Qed.
Lemma nth_set_nth_same' (u : list bool) k : (k < length u)%nat -> nth k (set_nth k true u) false = true.
Proof. revert k. induction u as [|h t IH]; intros [|k] H; cbn [set_nth nth length] in *; try lia; auto. apply IH. lia. Qed.

Definition opaque_px (colored : nat) (px : list Z) : Prop :=
  all_eq 0 (skipn colored px) = false /\ existsb (fun b => negb (b =? 255)) (skipn colored px) = false.

Lemma alpha_scan_true colored pixels : forall ht used ht' used', length used = 256%nat ->
  alpha_scan true colored pixels ht used = SRok ht' used' ->
  length used' = 256%nat /\ (forall k, nth k used false = true -> nth k used' false = true) /\ (ht = true -> ht' = true) /\
  forall px, In px pixels ->
    (all_eq 0 (skipn colored px) = true /\ ht' = true) \/
    (opaque_px colored px /\ forall p0 rest, px = p0 :: rest -> all_eq p0 (firstn colored px) = true -> 0 <= p0 < 256 ->
                                  nth (Z.to_nat p0) used' false = true).
Proof.
  induction pixels as [|px t IH]; intros ht used ht' used' Hlen H; cbn [alpha_scan andb] in H.
  - injection H as <- <-. repeat split; auto; try (intros ? []).
  - destruct (all_eq 0 (skipn colored px)) eqn:Ez.
    + destruct (IH _ _ _ _ Hlen H) as (L & M & T & P). repeat split; auto.
      intros q [<-|Hq]; [left; split; [exact Ez|apply T; reflexivity]|apply P; exact Hq].
    + destruct (existsb (fun b => negb (b =? 255)) (skipn colored px)) eqn:Ex; [discriminate|].
      destruct px as [|p0 rest] eqn:Epx.
      * destruct (IH _ _ _ _ Hlen H) as (L & M & T & P). repeat split; auto.
        intros q [<-|Hq]; [right; split; [split; assumption|intros ? ? E; discriminate]|apply P; exact Hq].
      * destruct (all_eq p0 (firstn colored (p0 :: rest))) eqn:Eall.
        -- destruct (IH _ _ _ _ ltac:(rewrite set_nth_length; exact Hlen) H) as (L & M & T & P). repeat split; auto.
           ++ intros k Hk. apply M. apply nth_set_nth_true'. exact Hk.
           ++ intros q [<-|Hq]; [|apply P; exact Hq]. right. split; [split; assumption|].
              intros p1 rest1 E _ Hr. injection E as <- <-. apply M. apply nth_set_nth_same'. lia.
        -- destruct (IH _ _ _ _ Hlen H) as (L & M & T & P). repeat split; auto.
           intros q [<-|Hq]; [|apply P; exact Hq]. right. split; [split; assumption|].
           intros p1 rest1 E Ha _. injection E as <- <-. congruence.
Qed.

Lemma first_unused_spec used : forall i v, first_unused used i = Some v -> i <= v < i + lenZ used /\ nth (Z.to_nat (v - i)) used true = false.
Proof.
  induction used as [|u t IH]; intros i v H; cbn [first_unused] in H; [discriminate|]. unfold lenZ in *. cbn [length].
  destruct u.
  - destruct (IH _ _ H) as [Hr Hn]. split; [lia|]. replace (Z.to_nat (v - i)) with (S (Z.to_nat (v - (i + 1)))) by lia. exact Hn.
  - injection H as <-. split; [lia|]. rewrite Z.sub_diag. reflexivity.
Qed.

Lemma cos_gray_nomatch d k v : key_match d k v = false ->
  color_of_samples (SGray (Some k)) d [v] = color_of_samples (SGray None) d [v].
Proof. intros H. cbn [color_of_samples]. rewrite H. reflexivity. Qed.

Lemma cos_rgb_nomatch d kr kg kb r g b : key_match d kr r && key_match d kg g && key_match d kb b = false ->
  color_of_samples (SRGB (Some (kr, kg, kb))) d [r; g; b] = color_of_samples (SRGB None) d [r; g; b].
Proof. intros H. cbn [color_of_samples]. rewrite H. reflexivity. Qed.

Definition key_ctype (c : color_type) (d t : Z) : color_type :=
  let k := if d =? 16 then t * 256 + t else t in
  match c with GrayAlpha => Gray (Some k) | _ => RGB (Some (k, k, k)) end.

(* an opaque pixel that is not the key colour keeps its colour exactly *)
Lemma pixel_key_opaque8 c px t : has_alpha c = true -> bytes_ok px -> length px = Z.to_nat (channels_per_pixel c) -> 0 <= t < 256 ->
  existsb (fun b => negb (b =? 255)) (skipn (Z.to_nat (channels_per_pixel c) - 1) px) = false ->
  all_eq t (firstn (Z.to_nat (channels_per_pixel c) - 1) px) = false ->
  pxcol (spec_color_of (key_ctype c 8 t)) 8 (firstn (Z.to_nat (channels_per_pixel c) - 1) px) = pxcol (spec_color_of c) 8 px.
Proof.
  intros Ha Hok Hl Ht Hex Hne. rewrite <- (pixel_drop_alpha8 c px Ha Hok Hl Hex).
  rewrite !pxcol8 by (apply bytes_ok_firstn; exact Hok).
  destruct c; try discriminate; cbn [channels_per_pixel] in *.
  - change (Z.to_nat 2 - 1)%nat with 1%nat in *. destruct px as [|v [|a [|? ?]]]; try (cbn in Hl; lia).
    cbn [firstn key_ctype noalpha_ctype spec_color_of]. change (8 =? 16) with false. cbv iota.
    apply cos_gray_nomatch. unfold key_match. change (2 ^ 8) with 256. rewrite Z.mod_small by lia.
    cbn in Hne. rewrite andb_true_r in Hne. rewrite Z.eqb_sym. exact Hne.
  - change (Z.to_nat 4 - 1)%nat with 3%nat in *. destruct px as [|r [|g [|b [|a [|? ?]]]]]; try (cbn in Hl; lia).
    cbn [firstn key_ctype noalpha_ctype spec_color_of]. change (8 =? 16) with false. cbv iota.
    apply cos_rgb_nomatch. unfold key_match. change (2 ^ 8) with 256. rewrite Z.mod_small by lia.
    cbn in Hne. rewrite andb_true_r in Hne. rewrite !(Z.eqb_sym t). rewrite andb_assoc in Hne. exact Hne.
Qed.

Lemma pixel_key_opaque16 c px t : has_alpha c = true -> bytes_ok px -> length px = (Z.to_nat (channels_per_pixel c) * 2)%nat -> 0 <= t < 256 ->
  existsb (fun b => negb (b =? 255)) (skipn (Z.to_nat (channels_per_pixel c) * 2 - 2) px) = false ->
  all_eq t (firstn (Z.to_nat (channels_per_pixel c) * 2 - 2) px) = false ->
  pxcol (spec_color_of (key_ctype c 16 t)) 16 (firstn (Z.to_nat (channels_per_pixel c) * 2 - 2) px) = pxcol (spec_color_of c) 16 px.
Proof.
  intros Ha Hok Hl Ht Hex Hne. rewrite <- (pixel_drop_alpha16 c px Ha Hok Hl Hex).
  destruct c; try discriminate; cbn [channels_per_pixel] in *.
  - change (Z.to_nat 2 * 2 - 2)%nat with 2%nat in *. destruct px as [|v1 [|v2 [|a1 [|a2 [|? ?]]]]]; try (cbn in Hl; lia).
    cbn [firstn]. assert (Hv : bytes_ok [v1; v2]) by (apply (bytes_ok_firstn 2) in Hok; exact Hok).
    rewrite !(pxcol16 _ 1) by auto. cbn [pairs map fst snd key_ctype noalpha_ctype spec_color_of]. change (16 =? 16) with true. cbv iota.
    apply cos_gray_nomatch. unfold key_match. change (2 ^ 16) with 65536.
    assert (0 <= v1 < 256 /\ 0 <= v2 < 256) by (split; eapply bytes_ok_in; eauto; cbn; auto).
    rewrite Z.mod_small by lia. cbn in Hne. rewrite andb_true_r in Hne.
    destruct (Z.eqb_spec (t * 256 + t) (v1 * 256 + v2)) as [E|]; [|reflexivity].
    assert (v1 = t /\ v2 = t) as [-> ->] by lia. rewrite !Z.eqb_refl in Hne. discriminate.
  - change (Z.to_nat 4 * 2 - 2)%nat with 6%nat in *. destruct px as [|r1 [|r2 [|g1 [|g2 [|b1 [|b2 [|a1 [|a2 [|? ?]]]]]]]]]; try (cbn in Hl; lia).
    cbn [firstn]. assert (Hv : bytes_ok [r1; r2; g1; g2; b1; b2]) by (apply (bytes_ok_firstn 6) in Hok; exact Hok).
    rewrite !(pxcol16 _ 3) by auto. cbn [pairs map fst snd key_ctype noalpha_ctype spec_color_of]. change (16 =? 16) with true. cbv iota.
    apply cos_rgb_nomatch. unfold key_match. change (2 ^ 16) with 65536.
    assert (0 <= r1 < 256 /\ 0 <= r2 < 256 /\ 0 <= g1 < 256 /\ 0 <= g2 < 256 /\ 0 <= b1 < 256 /\ 0 <= b2 < 256)
      by (repeat split; eapply bytes_ok_in; eauto; cbn; auto 10).
    rewrite Z.mod_small by lia. cbn in Hne. rewrite andb_true_r in Hne.
    destruct (Z.eqb_spec (t * 256 + t) (r1 * 256 + r2)) as [E1|]; [|reflexivity].
    destruct (Z.eqb_spec (t * 256 + t) (g1 * 256 + g2)) as [E2|]; [|reflexivity].
    destruct (Z.eqb_spec (t * 256 + t) (b1 * 256 + b2)) as [E3|]; [|reflexivity].
    assert (r1 = t /\ r2 = t /\ g1 = t /\ g2 = t /\ b1 = t /\ b2 = t) as (-> & -> & -> & -> & -> & ->) by lia.
    rewrite !Z.eqb_refl in Hne. discriminate.
Qed.

Lemma scale16_0 d : 0 < d -> scale16 d 0 = 0.
Proof. intros Hd. unfold scale16. reflexivity. Qed.

Lemma key_match_self d k : 0 <= k < 2 ^ d -> key_match d k k = true.
Proof. intros H. unfold key_match. rewrite Z.mod_small by exact H. apply Z.eqb_refl. Qed.

(* a fully transparent pixel may become the key colour *)
Lemma pixel_key_transparent8 c px t : has_alpha c = true -> bytes_ok px -> length px = Z.to_nat (channels_per_pixel c) -> 0 <= t < 256 ->
  all_eq 0 (skipn (Z.to_nat (channels_per_pixel c) - 1) px) = true ->
  aequiv (pxcol (spec_color_of c) 8 px) (pxcol (spec_color_of (key_ctype c 8 t)) 8 (repeat t (Z.to_nat (channels_per_pixel c) - 1))).
Proof.
  intros Ha Hok Hl Ht Hz. pose proof (all_eq_spec _ _ Hz) as A.
  assert (Hokt : forall n, bytes_ok (repeat t n)) by (intros n; apply bytes_ok_repeat; exact Ht).
  rewrite !pxcol8 by auto.
  destruct c; try discriminate; cbn [channels_per_pixel] in *.
  - change (Z.to_nat 2 - 1)%nat with 1%nat in *. destruct px as [|v [|a [|? ?]]]; try (cbn in Hl; lia). cbn in A. rewrite (A a) by auto.
    cbn [repeat key_ctype spec_color_of]. change (8 =? 16) with false. cbv iota.
    apply aequiv_of_match. apply (pixel_transparent_to_key_gray 8 v t); [change (2 ^ 8) with 256; lia|lia].
  - change (Z.to_nat 4 - 1)%nat with 3%nat in *. destruct px as [|r [|g [|b [|a [|? ?]]]]]; try (cbn in Hl; lia). cbn in A. rewrite (A a) by auto.
    cbn [repeat key_ctype spec_color_of color_of_samples]. change (8 =? 16) with false. cbv iota.
    rewrite key_match_self by (change (2 ^ 8) with 256; lia). cbn [andb]. rewrite scale16_0 by lia.
    intros p Hp. injection Hp as <-. eexists. split; [reflexivity|]. cbn. reflexivity.
Qed.

Lemma pixel_key_transparent16 c px t : has_alpha c = true -> bytes_ok px -> length px = (Z.to_nat (channels_per_pixel c) * 2)%nat -> 0 <= t < 256 ->
  all_eq 0 (skipn (Z.to_nat (channels_per_pixel c) * 2 - 2) px) = true ->
  aequiv (pxcol (spec_color_of c) 16 px) (pxcol (spec_color_of (key_ctype c 16 t)) 16 (repeat t (Z.to_nat (channels_per_pixel c) * 2 - 2))).
Proof.
  intros Ha Hok Hl Ht Hz. pose proof (all_eq_spec _ _ Hz) as A.
  assert (Hokt : forall n, bytes_ok (repeat t n)) by (intros n; apply bytes_ok_repeat; exact Ht).
  destruct c; try discriminate; cbn [channels_per_pixel] in *.
  - change (Z.to_nat 2 * 2 - 2)%nat with 2%nat in *. destruct px as [|v1 [|v2 [|a1 [|a2 [|? ?]]]]]; try (cbn in Hl; lia). cbn in A.
    pose proof (A a1 ltac:(auto)). pose proof (A a2 ltac:(auto)). subst a1 a2.
    rewrite (pxcol16 _ 2) by auto. rewrite (pxcol16 _ 1) by (auto; reflexivity).
    cbn [repeat pairs map fst snd key_ctype spec_color_of]. change (16 =? 16) with true. cbv iota.
    apply aequiv_of_match. apply (pixel_transparent_to_key_gray 16 (v1 * 256 + v2) (t * 256 + t)); [change (2 ^ 16) with 65536; lia|lia].
  - change (Z.to_nat 4 * 2 - 2)%nat with 6%nat in *. destruct px as [|r1 [|r2 [|g1 [|g2 [|b1 [|b2 [|a1 [|a2 [|? ?]]]]]]]]]; try (cbn in Hl; lia). cbn in A.
    pose proof (A a1 ltac:(auto 10)). pose proof (A a2 ltac:(auto 10)). subst a1 a2.
    rewrite (pxcol16 _ 4) by auto. rewrite (pxcol16 _ 3) by (auto; reflexivity).
    cbn [repeat pairs map fst snd key_ctype spec_color_of color_of_samples]. change (16 =? 16) with true. cbv iota.
    rewrite key_match_self by (change (2 ^ 16) with 65536; lia). cbn [andb]. change (0 * 256 + 0) with 0. rewrite scale16_0 by lia.
    intros p Hp. injection Hp as <-. eexists. split; [reflexivity|]. cbn. reflexivity.
Qed.

Lemma all_eq_head t l : l <> [] -> all_eq t l = true -> exists rest, l = t :: rest.
Proof. destruct l as [|x r]; [congruence|]. intros _ H. cbn in H. apply andb_true_iff in H. destruct H as [H _]. apply Z.eqb_eq in H. subst. eauto. Qed.

Theorem reduced_alpha_channel_aequiv img img' pic : wf img ->
  reduced_alpha_channel img true = Some img' -> sem img = Some pic ->
  (exists pic', sem img' = Some pic' /\ pic_aequiv pic pic') /\ wf img'.
Proof.
  intros [Hok Hwf] Hred Hsem. unfold reduced_alpha_channel in Hred.
  destruct (has_alpha (ctype (hdr img))) eqn:Ea; cbn [negb] in Hred; [|discriminate].
  set (bd := Z.to_nat (bytes_per_channel img)) in *.
  set (B := (Z.to_nat (channels img) * bd)%nat) in *.
  set (pixels := chunks_exact B (data img)) in *.
  destruct (alpha_scan true (B - bd) pixels false (repeat false 256)) as [|ht used] eqn:Escan; [discriminate|].
  destruct (alpha_scan_true _ _ _ _ _ _ (repeat_length _ _) Escan) as (Hul & _ & _ & Hpx).
  pose proof (sem_some_legal _ _ Hsem) as Hlegal.
  destruct (legal_8_16 _ _ Hlegal (or_intror Ea)) as [Hd|Hd].
  - (* 8 bit *)
    assert (Hbd : bd = 1%nat) by (unfold bd, bytes_per_channel; rewrite Hd; reflexivity).
    assert (HB : B = Z.to_nat (channels_per_pixel (ctype (hdr img)))) by (unfold B, channels; lia).
    assert (Hcol : (B - bd = Z.to_nat (channels_per_pixel (ctype (hdr img))) - 1)%nat) by lia.
    match type of Hred with (match ?tp with _ => _ end) = _ => destruct tp as [trns|] eqn:Etp; [|discriminate] end.
    injection Hred as <-.
    destruct trns as [t|].
    + (* a key colour t that no opaque pixel has *)
      assert (Ht : 0 <= t < 256 /\ nth (Z.to_nat t) used true = false /\ ht = true).
      { destruct ht; [|discriminate].
        destruct (match ctype (hdr img) with GrayAlpha => find (fun v => negb (nth (Z.to_nat v) used true)) [0; 255; 85; 170] | _ => None end) as [v|] eqn:Ef.
        - injection Etp as <-. destruct (ctype (hdr img)); try discriminate. apply find_some in Ef. destruct Ef as [Hin Hn].
          apply negb_true_iff in Hn. assert (0 <= v < 256) by (cbn in Hin; lia). repeat split; auto; lia.
        - destruct (first_unused used 0) as [v|] eqn:Efu; [|discriminate]. injection Etp as <-.
          destruct (first_unused_spec _ _ _ Efu) as [Hr Hn]. rewrite Z.sub_0_r in Hn. unfold lenZ in Hr. rewrite Hul in Hr. repeat split; auto; lia. }
      destruct Ht as (Htr & Htu & Hht).
      set (g := fun px : list Z => if all_eq 0 (skipn (B - bd) px) then repeat t (B - bd) else firstn (B - bd) px).
      assert (Hct : (match ctype (hdr img) with GrayAlpha => Gray (Some (if depth (hdr img) =? 16 then t * 256 + t else t))
                     | _ => RGB (Some ((if depth (hdr img) =? 16 then t * 256 + t else t), (if depth (hdr img) =? 16 then t * 256 + t else t), (if depth (hdr img) =? 16 then t * 256 + t else t))) end)
                    = key_ctype (ctype (hdr img)) (depth (hdr img)) t) by (destruct (ctype (hdr img)); reflexivity).
      rewrite Hct. clear Hct.
      split.
      * apply (sem_pixelwise_aequiv img _ B (B - bd) g pic); cbn [hdr data width height interlaced depth ctype with_ctype]; auto.
        -- rewrite HB. destruct (ctype (hdr img)); try discriminate; cbn [channels_per_pixel]; lia.
        -- rewrite Hcol. destruct (ctype (hdr img)); try discriminate; cbn [channels_per_pixel]; lia.
        -- rewrite HB, Hd. destruct (ctype (hdr img)); try discriminate; cbn [channels_per_pixel]; lia.
        -- rewrite Hcol, Hd. destruct (ctype (hdr img)); try discriminate; cbn [channels_per_pixel key_ctype]; lia.
        -- rewrite Hd. destruct (ctype (hdr img)); try discriminate; reflexivity.
        -- rewrite flat_map_concat_map. reflexivity.
        -- intros px Hin Hlen. assert (Hpok : bytes_ok px) by (apply (bytes_ok_chunk B (data img)); assumption).
           split; [unfold g; destruct (all_eq 0 _); [apply repeat_length|rewrite firstn_length; lia]|].
           rewrite Hd. unfold g. destruct (Hpx px Hin) as [[Hz _]|[[Hnz Hex] Hused]].
           ++ rewrite Hz. rewrite Hcol in *. apply pixel_key_transparent8; auto. lia.
           ++ rewrite Hnz. rewrite Hcol in *. intros p Hp. exists p. split; [|apply rgba_alpha_equivb_refl]. rewrite <- Hp.
              apply pixel_key_opaque8; auto; [lia|].
              destruct (all_eq t (firstn (Z.to_nat (channels_per_pixel (ctype (hdr img))) - 1) px)) eqn:Et; [|reflexivity]. exfalso.
              assert (Hne : firstn (Z.to_nat (channels_per_pixel (ctype (hdr img))) - 1) px <> []).
              { intros E. apply (f_equal (@length Z)) in E. rewrite firstn_length in E. cbn in E.
                destruct (ctype (hdr img)); try discriminate; cbn [channels_per_pixel] in *; lia. }
              destruct (all_eq_head _ _ Hne Et) as [rest0 Ef]. destruct px as [|p0 rest]; [rewrite firstn_nil in Hne; congruence|].
              assert (p0 = t) by (destruct (Z.to_nat (channels_per_pixel (ctype (hdr img))) - 1)%nat; cbn in Ef; [discriminate|congruence]). subst p0.
              pose proof (Hused t rest eq_refl Et Htr) as Hu. 
              assert (nth (Z.to_nat t) used true = true).
              { assert (Z.to_nat t < length used)%nat by lia. rewrite (nth_indep used true false) by lia. exact Hu. }
              congruence.
      * split; cbn [data hdr ctype depth with_ctype].
        -- unfold bytes_ok. apply Forall_forall. intros x Hx. apply in_flat_map in Hx. destruct Hx as [px [Hin Hx]].
           unfold g in Hx. destruct (all_eq 0 (skipn (B - bd) px)); [apply repeat_spec in Hx; subst; exact Htr|].
           eapply bytes_ok_in; [apply (bytes_ok_chunk B (data img)); eassumption|eapply In_firstn; eauto].
        -- rewrite Hd. destruct (ctype (hdr img)); try discriminate; cbn; change (2 ^ 8) with 256; lia.
    + (* no transparency at all: exactly the lossless removal *)
      assert (Hht : ht = false).
      { destruct ht; [|reflexivity]. exfalso.
        destruct (match ctype (hdr img) with GrayAlpha => find (fun v => negb (nth (Z.to_nat v) used true)) [0; 255; 85; 170] | _ => None end); [discriminate|].
        destruct (first_unused used 0); discriminate. }
      assert (Hct : (match ctype (hdr img) with GrayAlpha => Gray None | _ => RGB None end) = noalpha_ctype (ctype (hdr img))) by reflexivity.
      rewrite Hct. clear Hct.
      assert (Hwf' : wf {| hdr := with_ctype (hdr img) (noalpha_ctype (ctype (hdr img))); data := flat_map (fun px => firstn (B - bd) px) pixels |}).
      { split; cbn [data hdr ctype depth with_ctype].
        - unfold bytes_ok. apply Forall_forall. intros x Hx. apply in_flat_map in Hx. destruct Hx as [px [Hin Hx]].
          eapply bytes_ok_in; [apply (bytes_ok_chunk B (data img)); eassumption|eapply In_firstn; eauto].
        - destruct (ctype (hdr img)); cbn; auto. }
      split; [|exact Hwf']. exists pic. split; [|apply pic_aequiv_refl].
      apply (sem_pixelwise img _ B (Z.to_nat (channels_per_pixel (noalpha_ctype (ctype (hdr img))))) (firstn (B - bd)) pic); cbn [hdr data width height interlaced depth ctype with_ctype]; auto.
      * rewrite HB. destruct (ctype (hdr img)); try discriminate; cbn [channels_per_pixel]; lia.
      * destruct (ctype (hdr img)); try discriminate; cbn [channels_per_pixel noalpha_ctype]; lia.
      * rewrite HB, Hd. destruct (ctype (hdr img)); try discriminate; cbn [channels_per_pixel]; lia.
      * rewrite Hd. destruct (ctype (hdr img)); try discriminate; cbn [channels_per_pixel noalpha_ctype]; lia.
      * rewrite Hd. destruct (ctype (hdr img)); try discriminate; reflexivity.
      * rewrite flat_map_concat_map. reflexivity.
      * intros px Hin Hlen. rewrite Hd. assert (Hpok : bytes_ok px) by (apply (bytes_ok_chunk B (data img)); assumption).
        split; [rewrite firstn_length, Hlen, HB, Hbd; destruct (ctype (hdr img)); try discriminate; cbn [channels_per_pixel noalpha_ctype]; lia|].
        destruct (Hpx px Hin) as [[_ Hc]|[[_ Hex] _]]; [congruence|]. rewrite Hcol in *. apply pixel_drop_alpha8; auto. lia.
  - (* 16 bit *)
    assert (Hbd : bd = 2%nat) by (unfold bd, bytes_per_channel; rewrite Hd; reflexivity).
    assert (HB : B = (Z.to_nat (channels_per_pixel (ctype (hdr img))) * 2)%nat) by (unfold B, channels; lia).
    assert (Hcol : (B - bd = Z.to_nat (channels_per_pixel (ctype (hdr img))) * 2 - 2)%nat) by lia.
    match type of Hred with (match ?tp with _ => _ end) = _ => destruct tp as [trns|] eqn:Etp; [|discriminate] end.
    injection Hred as <-.
    destruct trns as [t|].
    + (* a key colour t that no opaque pixel has *)
      assert (Ht : 0 <= t < 256 /\ nth (Z.to_nat t) used true = false /\ ht = true).
      { destruct ht; [|discriminate].
        destruct (match ctype (hdr img) with GrayAlpha => find (fun v => negb (nth (Z.to_nat v) used true)) [0; 255; 85; 170] | _ => None end) as [v|] eqn:Ef.
        - injection Etp as <-. destruct (ctype (hdr img)); try discriminate. apply find_some in Ef. destruct Ef as [Hin Hn].
          apply negb_true_iff in Hn. assert (0 <= v < 256) by (cbn in Hin; lia). repeat split; auto; lia.
        - destruct (first_unused used 0) as [v|] eqn:Efu; [|discriminate]. injection Etp as <-.
          destruct (first_unused_spec _ _ _ Efu) as [Hr Hn]. rewrite Z.sub_0_r in Hn. unfold lenZ in Hr. rewrite Hul in Hr. repeat split; auto; lia. }
      destruct Ht as (Htr & Htu & Hht).
      set (g := fun px : list Z => if all_eq 0 (skipn (B - bd) px) then repeat t (B - bd) else firstn (B - bd) px).
      assert (Hct : (match ctype (hdr img) with GrayAlpha => Gray (Some (if depth (hdr img) =? 16 then t * 256 + t else t))
                     | _ => RGB (Some ((if depth (hdr img) =? 16 then t * 256 + t else t), (if depth (hdr img) =? 16 then t * 256 + t else t), (if depth (hdr img) =? 16 then t * 256 + t else t))) end)
                    = key_ctype (ctype (hdr img)) (depth (hdr img)) t) by (destruct (ctype (hdr img)); reflexivity).
      rewrite Hct. clear Hct.
      split.
      * apply (sem_pixelwise_aequiv img _ B (B - bd) g pic); cbn [hdr data width height interlaced depth ctype with_ctype]; auto.
        -- rewrite HB. destruct (ctype (hdr img)); try discriminate; cbn [channels_per_pixel]; lia.
        -- rewrite Hcol. destruct (ctype (hdr img)); try discriminate; cbn [channels_per_pixel]; lia.
        -- rewrite HB, Hd. destruct (ctype (hdr img)); try discriminate; cbn [channels_per_pixel]; lia.
        -- rewrite Hcol, Hd. destruct (ctype (hdr img)); try discriminate; cbn [channels_per_pixel key_ctype]; lia.
        -- rewrite Hd. destruct (ctype (hdr img)); try discriminate; reflexivity.
        -- rewrite flat_map_concat_map. reflexivity.
        -- intros px Hin Hlen. assert (Hpok : bytes_ok px) by (apply (bytes_ok_chunk B (data img)); assumption).
           split; [unfold g; destruct (all_eq 0 _); [apply repeat_length|rewrite firstn_length; lia]|].
           rewrite Hd. unfold g. destruct (Hpx px Hin) as [[Hz _]|[[Hnz Hex] Hused]].
           ++ rewrite Hz. rewrite Hcol in *. apply pixel_key_transparent16; auto. lia.
           ++ rewrite Hnz. rewrite Hcol in *. intros p Hp. exists p. split; [|apply rgba_alpha_equivb_refl]. rewrite <- Hp.
              apply pixel_key_opaque16; auto; [lia|].
              destruct (all_eq t (firstn (Z.to_nat (channels_per_pixel (ctype (hdr img))) * 2 - 2) px)) eqn:Et; [|reflexivity]. exfalso.
              assert (Hne : firstn (Z.to_nat (channels_per_pixel (ctype (hdr img))) * 2 - 2) px <> []).
              { intros E. apply (f_equal (@length Z)) in E. rewrite firstn_length in E. cbn in E.
                destruct (ctype (hdr img)); try discriminate; cbn [channels_per_pixel] in *; lia. }
              destruct (all_eq_head _ _ Hne Et) as [rest0 Ef]. destruct px as [|p0 rest]; [rewrite firstn_nil in Hne; congruence|].
              assert (p0 = t) by (destruct (Z.to_nat (channels_per_pixel (ctype (hdr img))) * 2 - 2)%nat; cbn in Ef; [discriminate|congruence]). subst p0.
              pose proof (Hused t rest eq_refl Et Htr) as Hu. 
              assert (nth (Z.to_nat t) used true = true).
              { assert (Z.to_nat t < length used)%nat by lia. rewrite (nth_indep used true false) by lia. exact Hu. }
              congruence.
      * split; cbn [data hdr ctype depth with_ctype].
        -- unfold bytes_ok. apply Forall_forall. intros x Hx. apply in_flat_map in Hx. destruct Hx as [px [Hin Hx]].
           unfold g in Hx. destruct (all_eq 0 (skipn (B - bd) px)); [apply repeat_spec in Hx; subst; exact Htr|].
           eapply bytes_ok_in; [apply (bytes_ok_chunk B (data img)); eassumption|eapply In_firstn; eauto].
        -- rewrite Hd. destruct (ctype (hdr img)); try discriminate; cbn; change (2 ^ 16) with 65536; lia.
    + (* no transparency at all: exactly the lossless removal *)
      assert (Hht : ht = false).
      { destruct ht; [|reflexivity]. exfalso.
        destruct (match ctype (hdr img) with GrayAlpha => find (fun v => negb (nth (Z.to_nat v) used true)) [0; 255; 85; 170] | _ => None end); [discriminate|].
        destruct (first_unused used 0); discriminate. }
      assert (Hct : (match ctype (hdr img) with GrayAlpha => Gray None | _ => RGB None end) = noalpha_ctype (ctype (hdr img))) by reflexivity.
      rewrite Hct. clear Hct.
      assert (Hwf' : wf {| hdr := with_ctype (hdr img) (noalpha_ctype (ctype (hdr img))); data := flat_map (fun px => firstn (B - bd) px) pixels |}).
      { split; cbn [data hdr ctype depth with_ctype].
        - unfold bytes_ok. apply Forall_forall. intros x Hx. apply in_flat_map in Hx. destruct Hx as [px [Hin Hx]].
          eapply bytes_ok_in; [apply (bytes_ok_chunk B (data img)); eassumption|eapply In_firstn; eauto].
        - destruct (ctype (hdr img)); cbn; auto. }
      split; [|exact Hwf']. exists pic. split; [|apply pic_aequiv_refl].
      apply (sem_pixelwise img _ B (Z.to_nat (channels_per_pixel (noalpha_ctype (ctype (hdr img)))) * 2) (firstn (B - bd)) pic); cbn [hdr data width height interlaced depth ctype with_ctype]; auto.
      * rewrite HB. destruct (ctype (hdr img)); try discriminate; cbn [channels_per_pixel]; lia.
      * destruct (ctype (hdr img)); try discriminate; cbn [channels_per_pixel noalpha_ctype]; lia.
      * rewrite HB, Hd. destruct (ctype (hdr img)); try discriminate; cbn [channels_per_pixel]; lia.
      * rewrite Hd. destruct (ctype (hdr img)); try discriminate; cbn [channels_per_pixel noalpha_ctype]; lia.
      * rewrite Hd. destruct (ctype (hdr img)); try discriminate; reflexivity.
      * rewrite flat_map_concat_map. reflexivity.
      * intros px Hin Hlen. rewrite Hd. assert (Hpok : bytes_ok px) by (apply (bytes_ok_chunk B (data img)); assumption).
        split; [rewrite firstn_length, Hlen, HB, Hbd; destruct (ctype (hdr img)); try discriminate; cbn [channels_per_pixel noalpha_ctype]; lia|].
        destruct (Hpx px Hin) as [[_ Hc]|[[_ Hex] _]]; [congruence|]. rewrite Hcol in *. apply pixel_drop_alpha16; auto. lia.
Qed.

(* Pixel-level semantic lemmas for the reductions (C01, C03, C15): what each reduction does to the
   samples of one pixel preserves (or, for scaling, rounds) the RGBA value the specification assigns. *)
From OxiVerif Require Import Base.Common Spec.Adam7 Spec.Sem Model.Types Model.BitDepth Proofs.Bridge.

Lemma scale16_16 v : scale16 16 v = v.
Proof. unfold scale16. change (2 ^ 16 - 1) with 65535. rewrite Z.div_mul by lia. reflexivity. Qed.
Lemma scale16_8 b : scale16 8 b = 257 * b.
Proof. unfold scale16. change (2 ^ 8 - 1) with 255. replace (b * 65535) with (257 * b * 255) by lia. rewrite Z.div_mul by lia. reflexivity. Qed.

Definition u16 (v : Z) : Prop := 0 <= v < 65536.

(* a 16-bit value whose two bytes are equal is 257 * byte *)
Lemma hi_eq_lo v : u16 v -> (v / 256 =? v mod 256) = true -> v = 257 * (v / 256) /\ 0 <= v / 256 < 256.
Proof. unfold u16. intros H E. apply Z.eqb_eq in E. lia. Qed.
Lemma hi_ne_lo v b : u16 v -> 0 <= b < 256 -> (v / 256 =? v mod 256) = false -> v <> 257 * b.
Proof. unfold u16. intros H Hb E. apply Z.eqb_neq in E. lia. Qed.

Lemma key_match_16 k v : u16 k -> u16 v -> key_match 16 k v = (k =? v).
Proof. unfold key_match, u16. intros. change (2 ^ 16) with 65536. rewrite Z.mod_small by lia. reflexivity. Qed.
Lemma key_match_8 k b : 0 <= k < 256 -> key_match 8 k b = (k =? b).
Proof. unfold key_match. intros. change (2 ^ 8) with 256. rewrite Z.mod_small by lia. reflexivity. Qed.

(* ---------------------------------------------------------------- 16 -> 8, lossless (fix F1) *)
(* key conversion of reduced_bit_depth_16_to_8: a sample 257*b matches the 16-bit key exactly when
   b matches the converted key; a key with unequal bytes matches no such sample *)
Lemma exact_key_sample k b : u16 k -> 0 <= b < 256 ->
  (k =? 257 * b) = match exact_16_to_8 k with Some k8 => k8 =? b | None => false end.
Proof.
  intros Hk Hb. unfold exact_16_to_8. destruct (k / 256 =? k mod 256) eqn:E.
  - destruct (hi_eq_lo k Hk E) as [Hv Hr]. destruct (k =? 257 * b) eqn:E1, (k / 256 =? b) eqn:E2; auto;
    rewrite ?Z.eqb_eq, ?Z.eqb_neq in *; lia.
  - apply Z.eqb_neq. apply hi_ne_lo; auto.
Qed.

Lemma exact_16_to_8_range k k8 : u16 k -> exact_16_to_8 k = Some k8 -> 0 <= k8 < 256.
Proof. unfold exact_16_to_8, u16. intros H. destruct (_ =? _); [|discriminate]. intros E. injection E as <-. lia. Qed.

Theorem pixel_16_to_8_gray key b : (forall k, key = Some k -> u16 k) -> 0 <= b < 256 ->
  color_of_samples (spec_color_of (Gray key)) 16 [257 * b]
  = color_of_samples (spec_color_of (color_type_16_to_8 (Gray key) exact_16_to_8)) 8 [b].
Proof.
  intros Hk Hb. destruct key as [k|]; cbn [color_type_16_to_8 spec_color_of color_of_samples].
  - specialize (Hk k eq_refl). rewrite scale16_16, scale16_8.
    rewrite key_match_16 by (auto; unfold u16; lia). rewrite (exact_key_sample k b Hk Hb).
    destruct (exact_16_to_8 k) as [k8|] eqn:E; cbn [spec_color_of color_of_samples].
    + rewrite key_match_8 by (eapply exact_16_to_8_range; eauto). reflexivity.
    + reflexivity.
  - rewrite scale16_16, scale16_8. reflexivity.
Qed.

Theorem pixel_16_to_8_rgb key r g b :
  (forall kr kg kb, key = Some (kr, kg, kb) -> u16 kr /\ u16 kg /\ u16 kb) ->
  0 <= r < 256 -> 0 <= g < 256 -> 0 <= b < 256 ->
  color_of_samples (spec_color_of (RGB key)) 16 [257 * r; 257 * g; 257 * b]
  = color_of_samples (spec_color_of (color_type_16_to_8 (RGB key) exact_16_to_8)) 8 [r; g; b].
Proof.
  intros Hk Hr Hg Hb. destruct key as [[[kr kg] kb]|]; cbn [color_type_16_to_8 spec_color_of color_of_samples].
  - destruct (Hk kr kg kb eq_refl) as (H1 & H2 & H3). rewrite !scale16_16.
    rewrite !key_match_16 by (auto; unfold u16; lia).
    rewrite (exact_key_sample kr r H1 Hr), (exact_key_sample kg g H2 Hg), (exact_key_sample kb b H3 Hb).
    destruct (exact_16_to_8 kr) as [a1|] eqn:E1; destruct (exact_16_to_8 kg) as [a2|] eqn:E2;
    destruct (exact_16_to_8 kb) as [a3|] eqn:E3; cbn [spec_color_of color_of_samples]; rewrite ?scale16_8;
    rewrite ?andb_false_r; cbn [andb]; try reflexivity.
    + pose proof (exact_16_to_8_range _ _ H1 E1). pose proof (exact_16_to_8_range _ _ H2 E2).
      pose proof (exact_16_to_8_range _ _ H3 E3).
      rewrite !key_match_8 by assumption. reflexivity.
  - rewrite !scale16_16, !scale16_8. reflexivity.
Qed.

Theorem pixel_16_to_8_gray_alpha b a : 0 <= b < 256 -> 0 <= a < 256 ->
  color_of_samples SGrayAlpha 16 [257 * b; 257 * a] = color_of_samples SGrayAlpha 8 [b; a].
Proof. intros. cbn [color_of_samples]. rewrite !scale16_16, !scale16_8. reflexivity. Qed.

Theorem pixel_16_to_8_rgba r g b a : 0 <= r < 256 -> 0 <= g < 256 -> 0 <= b < 256 -> 0 <= a < 256 ->
  color_of_samples SRGBA 16 [257 * r; 257 * g; 257 * b; 257 * a] = color_of_samples SRGBA 8 [r; g; b; a].
Proof. intros. cbn [color_of_samples]. rewrite !scale16_16, !scale16_8. reflexivity. Qed.

(* ---------------------------------------------------------------- C15: scaling *)
(* the integer form of the code's float expression is rounding to nearest; no ties exist *)
Theorem scale8_is_round8 v : u16 v -> scale_16_to_8 v = round8 v.
Proof.
  unfold u16, scale_16_to_8, round8. intros H. destruct (v / 256 =? v mod 256) eqn:E; [|reflexivity].
  apply Z.eqb_eq in E. lia.
Qed.

Theorem round8_nearest v : u16 v -> 0 <= round8 v < 256 /\ Z.abs (257 * round8 v - v) <= 128 /\
  (forall b, 0 <= b < 256 -> b <> round8 v -> Z.abs (257 * round8 v - v) < Z.abs (257 * b - v)).
Proof. unfold u16, round8. intros H. repeat split; try lia. Qed.

Example round8_examples : round8 255 = 1 /\ round8 (257 * 200) = 200 /\ scale_16_to_8 255 = 1 /\ scale_16_to_8 4660 = 18.
Proof. vm_compute. auto. Qed.

(* the converted colour key of the scaled image is the rounded key, as C15 demands *)
Theorem scaled_key_is_rounded c :
  (match c with
   | Gray (Some k) => u16 k
   | RGB (Some (r, g, b)) => u16 r /\ u16 g /\ u16 b
   | _ => True end) ->
  spec_color_of (color_type_16_to_8 c (fun v => Some (scale_16_to_8 v))) = round_key (spec_color_of c).
Proof.
  destruct c as [[k|]|[[[r g] b]|]|p| |]; cbn [color_type_16_to_8 spec_color_of round_key]; intros H; try reflexivity.
  - rewrite scale8_is_round8 by auto. reflexivity.
  - destruct H as (H1 & H2 & H3). rewrite !scale8_is_round8 by auto. reflexivity.
Qed.

(* hence a scaled pixel means exactly what C15 prescribes *)
Theorem pixel_scaled c vs :
  (match c with
   | Gray (Some k) => u16 k
   | RGB (Some (r, g, b)) => u16 r /\ u16 g /\ u16 b
   | _ => True end) ->
  Forall u16 vs ->
  color_of_samples (spec_color_of (color_type_16_to_8 c (fun v => Some (scale_16_to_8 v)))) 8 (map scale_16_to_8 vs)
  = color_of_samples (round_key (spec_color_of c)) 8 (map round8 vs).
Proof.
  intros Hc Hv. rewrite scaled_key_is_rounded by auto. f_equal.
  induction Hv as [|v l Hvv Hl IH]; cbn [map]; [reflexivity|]. rewrite scale8_is_round8 by auto. rewrite IH. reflexivity.
Qed.

(* ---------------------------------------------------------------- RGB -> gray *)
Theorem pixel_rgb_to_gray key d v : (d = 8 \/ d = 16) -> 0 <= v < 2 ^ d ->
  (forall kr kg kb, key = Some (kr, kg, kb) -> 0 <= kr < 2 ^ d /\ 0 <= kg < 2 ^ d /\ 0 <= kb < 2 ^ d) ->
  color_of_samples (SRGB key) d [v; v; v]
  = color_of_samples (SGray (match key with
                             | Some (r, g, b) => if (r =? g) && (g =? b) then Some r else None
                             | None => None end)) d [v].
Proof.
  intros Hd Hv Hk. destruct key as [[[kr kg] kb]|]; cbn [color_of_samples]; [|reflexivity].
  destruct (Hk kr kg kb eq_refl) as (H1 & H2 & H3). unfold key_match.
  rewrite !Z.mod_small by lia.
  destruct ((kr =? kg) && (kg =? kb)) eqn:E.
  - apply andb_true_iff in E. destruct E as [E1 E2]. apply Z.eqb_eq in E1, E2. subst kg kb.
    rewrite Z.mod_small by lia. destruct (kr =? v); reflexivity.
  - assert (((kr =? v) && (kg =? v) && (kb =? v)) = false).
    { destruct (kr =? v) eqn:A, (kg =? v) eqn:B, (kb =? v) eqn:C; auto.
      apply Z.eqb_eq in A, B, C. subst. rewrite !Z.eqb_refl in E. discriminate. }
    rewrite H. reflexivity.
Qed.

Theorem pixel_rgba_to_gray_alpha d v a : color_of_samples SRGBA d [v; v; v; a] = color_of_samples SGrayAlpha d [v; a].
Proof. reflexivity. Qed.

(* ---------------------------------------------------------------- alpha channel removal (opaque pixels) *)
Theorem pixel_drop_alpha_gray d v : (d = 8 \/ d = 16) ->
  color_of_samples SGrayAlpha d [v; 2 ^ d - 1] = color_of_samples (SGray None) d [v].
Proof.
  intros [-> | ->]; cbn [color_of_samples]; unfold scale16; repeat f_equal; reflexivity.
Qed.
Theorem pixel_drop_alpha_rgb d r g b : (d = 8 \/ d = 16) ->
  color_of_samples SRGBA d [r; g; b; 2 ^ d - 1] = color_of_samples (SRGB None) d [r; g; b].
Proof.
  intros [-> | ->]; cbn [color_of_samples]; unfold scale16; repeat f_equal; reflexivity.
Qed.

(* ---------------------------------------------------------------- C03: alpha optimisation *)
(* whatever colour is stored under a fully transparent pixel, the pixel is alpha-equivalent *)
Theorem pixel_transparent_rgba d r g b r' g' b' :
  match color_of_samples SRGBA d [r; g; b; 0], color_of_samples SRGBA d [r'; g'; b'; 0] with
  | Some p, Some q => rgba_alpha_equivb p q = true
  | _, _ => False
  end.
Proof. cbn [color_of_samples rgba_alpha_equivb]. unfold scale16. rewrite Z.mul_0_l, Zdiv_0_l. reflexivity. Qed.

Theorem pixel_transparent_gray_alpha d v v' :
  match color_of_samples SGrayAlpha d [v; 0], color_of_samples SGrayAlpha d [v'; 0] with
  | Some p, Some q => rgba_alpha_equivb p q = true
  | _, _ => False
  end.
Proof. cbn [color_of_samples rgba_alpha_equivb]. unfold scale16. rewrite Z.mul_0_l, Zdiv_0_l. reflexivity. Qed.

(* a fully transparent pixel may be replaced by the colour-key sample of a keyed image *)
Theorem pixel_transparent_to_key_gray d v t : 0 <= t < 2 ^ d -> 0 < d ->
  match color_of_samples SGrayAlpha d [v; 0], color_of_samples (SGray (Some t)) d [t] with
  | Some p, Some q => rgba_alpha_equivb p q = true
  | _, _ => False
  end.
Proof.
  intros Ht Hd. cbn [color_of_samples rgba_alpha_equivb]. unfold key_match. rewrite Z.mod_small by lia.
  rewrite Z.eqb_refl. unfold scale16. rewrite Z.mul_0_l, Zdiv_0_l. reflexivity.
Qed.

(* alpha-equivalence of pixels is an equivalence relation *)
Lemma rgba_alpha_equivb_refl p : rgba_alpha_equivb p p = true.
Proof. destruct p as [[[r g] b] a]. cbn. rewrite !Z.eqb_refl. cbn. apply orb_true_r. Qed.
Lemma rgba_alpha_equivb_sym p q : rgba_alpha_equivb p q = true -> rgba_alpha_equivb q p = true.
Proof.
  destruct p as [[[r g] b] a], q as [[[r' g'] b'] a']. cbn.
  rewrite !andb_true_iff, !orb_true_iff, !andb_true_iff, !Z.eqb_eq. intuition lia.
Qed.
Lemma rgba_alpha_equivb_trans p q s : rgba_alpha_equivb p q = true -> rgba_alpha_equivb q s = true -> rgba_alpha_equivb p s = true.
Proof.
  destruct p as [[[r g] b] a], q as [[[r' g'] b'] a'], s as [[[r2 g2] b2] a2]. cbn.
  rewrite !andb_true_iff, !orb_true_iff, !andb_true_iff, !Z.eqb_eq. intuition lia.
Qed.

(* Image-level semantic theorems for the sub-byte transformations (C01): expanded_bit_depth_to_8
   and reduced_bit_depth_8_or_less, through the line-wise lifting theorem of LiftLines.v and finite
   byte-level sweeps (all 256 bytes x the depths 1, 2, 4) lifted by forallb_forall. *)
From OxiVerif Require Import Base.Common Spec.Adam7 Spec.Sem Model.Types Model.ScanLines Model.BitDepth
  Proofs.Bridge Proofs.PixelProofs Proofs.ScanProofs Proofs.ImageLift Proofs.LiftReductions Proofs.LiftColor Proofs.LiftLines.
Local Open Scope Z_scope.

(* ---------------------------------------------------------------- groups of a concatenation *)
Lemma groups_fuel_indep {A} (n : nat) : (0 < n)%nat -> forall f1 f2 (l : list A), (length l <= f1)%nat -> (length l <= f2)%nat ->
  groups_fuel f1 n l = groups_fuel f2 n l.
Proof.
  intros Hn. induction f1 as [|f1 IH]; intros f2 l H1 H2.
  - destruct l; [|cbn in H1; lia]. destruct f2; cbn [groups_fuel length]; [reflexivity|]. destruct (Nat.ltb_spec 0 n); [reflexivity|lia].
  - destruct f2 as [|f2].
    + destruct l; [|cbn in H2; lia]. cbn [groups_fuel length]. destruct (Nat.ltb_spec 0 n); [reflexivity|lia].
    + cbn [groups_fuel]. destruct (Nat.ltb_spec (length l) n); [reflexivity|]. f_equal.
      apply IH; rewrite skipn_length; lia.
Qed.

Lemma groups_fuel_more {A} (n : nat) : (0 < n)%nat -> forall fuel (l : list A), (length l <= fuel)%nat ->
  groups_fuel fuel n l = groups_fuel (length l) n l.
Proof. intros Hn fuel l Hl. apply groups_fuel_indep; auto. Qed.

Lemma groups_step {A} (n : nat) (l : list A) : (0 < n)%nat -> (n <= length l)%nat ->
  groups n l = firstn n l :: groups n (skipn n l).
Proof.
  intros Hn Hl. unfold groups. destruct n as [|n]; [lia|]. destruct l as [|x t]; [cbn in Hl; lia|].
  cbn [length groups_fuel]. destruct (Nat.ltb_spec (S (length t)) (S n)); [cbn [length] in Hl; lia|]. f_equal.
  apply groups_fuel_indep; [lia| |lia]. rewrite skipn_length. cbn [length]. lia.
Qed.

Lemma groups_nil {A} (n : nat) : groups n (@nil A) = [].
Proof. unfold groups. destruct n; reflexivity. Qed.

Lemma groups_app {A} (n : nat) (a b : list A) k : (0 < n)%nat -> length a = (k * n)%nat ->
  groups n (a ++ b) = groups n a ++ groups n b.
Proof.
  intros Hn. revert a. induction k as [|k IH]; intros a Ha.
  - destruct a; [|cbn in Ha; lia]. rewrite groups_nil. reflexivity.
  - assert (Hge : (n <= length a)%nat) by (rewrite Ha; nia).
    rewrite (groups_step n (a ++ b)) by (auto; rewrite app_length; lia).
    rewrite (groups_step n a) by auto.
    rewrite firstn_app, skipn_app. replace (n - length a)%nat with 0%nat by lia. rewrite firstn_O, skipn_O, app_nil_r.
    cbn [app]. f_equal. apply IH. rewrite skipn_length, Ha. lia.
Qed.

Lemma groups_flat_map {A B} (n : nat) (f : B -> list A) (l : list B) k : (0 < n)%nat ->
  (forall x, length (f x) = (k * n)%nat) -> groups n (flat_map f l) = flat_map (fun x => groups n (f x)) l.
Proof.
  intros Hn Hf. induction l as [|x t IH]; cbn [flat_map].
  - apply groups_nil.
  - rewrite (groups_app n _ _ k) by auto. rewrite IH. reflexivity.
Qed.

(* ---------------------------------------------------------------- byte tables *)
Definition depths_lt8 : list Z := [1; 2; 4].
Definition rep8 (bits v : Z) : Z := replicate8 3 v bits.

(* expanding one byte = the samples of its bit groups (replicated for gray) *)
Lemma expand_table : forallb (fun bits => forallb (fun g : bool => forallb (fun b =>
    list_eqb Z.eqb (expand_byte (Z.to_nat (8 / bits)) b bits (2 ^ bits - 1) g)
                   (map (fun grp => if g then rep8 bits (sval grp) else sval grp) (groups (Z.to_nat bits) (sbits_of_byte b))))
  bytes256) [true; false]) depths_lt8 = true.
Proof. vm_compute. reflexivity. Qed.

Lemma expand_byte_spec bits g b : In bits depths_lt8 -> 0 <= b < 256 ->
  expand_byte (Z.to_nat (8 / bits)) b bits (2 ^ bits - 1) g
  = map (fun grp => if g then rep8 bits (sval grp) else sval grp) (groups (Z.to_nat bits) (sbits_of_byte b)).
Proof.
  intros Hbits Hb. pose proof expand_table as T. rewrite forallb_forall in T. specialize (T bits Hbits).
  rewrite forallb_forall in T. specialize (T g ltac:(destruct g; cbn; auto)). rewrite forallb_forall in T.
  apply list_eqb_Z_spec. apply T. unfold bytes256. apply in_map_iff. exists (Z.to_nat b). split; [lia|]. apply in_seq. lia.
Qed.

(* samples of depth < 8: replication is exact scaling, and injective *)
Definition samples_lt (bits : Z) : list Z := map Z.of_nat (seq 0 (Z.to_nat (2 ^ bits))).

Lemma rep_table : forallb (fun bits => forallb (fun v =>
    (scale16 8 (rep8 bits v) =? scale16 bits v) && (0 <=? rep8 bits v) && (rep8 bits v <? 256) &&
    forallb (fun t => Bool.eqb (rep8 bits t =? rep8 bits v) (t =? v)) (samples_lt bits) &&
    (replicate16 3 v bits =? rep8 bits v))
  (samples_lt bits)) depths_lt8 = true.
Proof. vm_compute. reflexivity. Qed.

Lemma in_samples_lt bits v : In bits depths_lt8 -> 0 <= v < 2 ^ bits -> In v (samples_lt bits).
Proof.
  intros Hb Hv. unfold samples_lt. apply in_map_iff. exists (Z.to_nat v). split; [lia|]. apply in_seq.
  destruct Hb as [<-|[<-|[<-|[]]]]; cbn in *; lia.
Qed.

Lemma rep_spec bits v : In bits depths_lt8 -> 0 <= v < 2 ^ bits ->
  scale16 8 (rep8 bits v) = scale16 bits v /\ 0 <= rep8 bits v < 256 /\
  (forall t, 0 <= t < 2 ^ bits -> (rep8 bits t =? rep8 bits v) = (t =? v)) /\ replicate16 3 v bits = rep8 bits v.
Proof.
  intros Hb Hv. pose proof rep_table as T. rewrite forallb_forall in T. specialize (T bits Hb).
  rewrite forallb_forall in T. specialize (T v (in_samples_lt bits v Hb Hv)).
  repeat (apply andb_true_iff in T; destruct T as [T ?]).
  repeat split; try (apply Z.eqb_eq; assumption); try (apply Z.leb_le; assumption); try (apply Z.ltb_lt; assumption).
  intros t Ht. match goal with H : forallb _ (samples_lt bits) = true |- _ => rewrite forallb_forall in H; specialize (H t (in_samples_lt bits t Hb Ht)); apply Bool.eqb_prop in H; exact H end.
Qed.

(* ---------------------------------------------------------------- image-level wrapper of the line-wise lift *)
Lemma sem_some_cut img pic : sem img = Some pic ->
  1 <= width (hdr img) /\ 1 <= height (hdr img) /\ 1 <= bpp (hdr img) /\
  exists lines, cut_layout (spec_layout (width (hdr img)) (height (hdr img)) (bpp (hdr img)) (interlaced (hdr img))) (data img) = Some lines.
Proof.
  unfold sem, spec_sem, spec_image_pixels, bpp. rewrite spec_channels_of.
  destruct (negb (depth_legal _ _)); [discriminate|].
  destruct (Z.leb_spec (width (hdr img)) 0); [discriminate|]. destruct (Z.leb_spec (height (hdr img)) 0); [discriminate|].
  destruct (Z.leb_spec (depth (hdr img) * channels_per_pixel (ctype (hdr img))) 0); [discriminate|]. cbn [orb].
  destruct (cut_layout _ (data img)) as [lines|]; [|discriminate]. intros _. repeat split; try lia. eauto.
Qed.

Theorem sem_linewise (img img' : image) (T : option Z * Z * list Z -> list Z) lines pic :
  width (hdr img') = width (hdr img) -> height (hdr img') = height (hdr img) -> interlaced (hdr img') = interlaced (hdr img) ->
  depth_legal (spec_color_of (ctype (hdr img'))) (depth (hdr img')) = true -> 0 < bpp (hdr img') ->
  cut_layout (spec_layout (width (hdr img)) (height (hdr img)) (bpp (hdr img)) (interlaced (hdr img))) (data img) = Some lines ->
  data img' = concat (map T lines) ->
  (forall l, In l lines -> length (snd l) = Z.to_nat (line_bytes (bpp (hdr img)) (snd (fst l))) ->
     length (T l) = Z.to_nat (line_bytes (bpp (hdr img')) (snd (fst l))) /\
     Forall2 refines (map (pixel_color (spec_color_of (ctype (hdr img))) (depth (hdr img))) (line_pixels (bpp (hdr img)) (snd (fst l)) (snd l)))
                     (map (pixel_color (spec_color_of (ctype (hdr img'))) (depth (hdr img'))) (line_pixels (bpp (hdr img')) (snd (fst l)) (T l)))) ->
  sem img = Some pic -> sem img' = Some pic.
Proof.
  intros Hw Hh Hil Hlegal Hb' Hcut Hdata HT Hsem. unfold sem in *. rewrite Hw, Hh, Hil.
  rewrite spec_sem_gsem in *. rewrite Hlegal. cbn [negb].
  destruct (negb (depth_legal (spec_color_of (ctype (hdr img))) (depth (hdr img)))); [discriminate|].
  rewrite spec_channels_of in *. fold (bpp (hdr img)) in Hsem. fold (bpp (hdr img')). rewrite Hdata.
  eapply gsem_linewise; eauto.
Qed.

(* pixels of a line of 8-bit single-channel pixels *)
Lemma line_pixels_8 (n : Z) (bytes : list Z) : length bytes = Z.to_nat n ->
  line_pixels 8 n bytes = map sbits_of_byte bytes.
Proof.
  intros Hl. pose proof (line_pixels_aligned 1 n (map (fun v => [v]) bytes) ltac:(lia)) as P.
  rewrite concat_map_singleton in P. change (8 * Z.of_nat 1) with 8 in P. rewrite P.
  - rewrite map_map. apply map_ext. intros v. unfold sbits_of_bytes. cbn [flat_map]. apply app_nil_r.
  - apply Forall_forall. intros x Hx. apply in_map_iff in Hx. destruct Hx as [v [<- _]]. reflexivity.
  - rewrite map_length. exact Hl.
Qed.

Lemma sbits_of_bytes_flat l : sbits_of_bytes l = flat_map sbits_of_byte l.
Proof. reflexivity. Qed.

(* the bit groups of a line of bytes, for a depth dividing 8 *)
Lemma groups_of_bytes bits (bytes : list Z) : In bits depths_lt8 ->
  groups (Z.to_nat bits) (sbits_of_bytes bytes) = flat_map (fun b => groups (Z.to_nat bits) (sbits_of_byte b)) bytes.
Proof.
  intros Hb. unfold sbits_of_bytes. apply (groups_flat_map _ _ _ (Z.to_nat (8 / bits))).
  - destruct Hb as [<-|[<-|[<-|[]]]]; cbn; lia.
  - intros x. destruct Hb as [<-|[<-|[<-|[]]]]; reflexivity.
Qed.

Lemma Forall2_refines_refl l : Forall2 refines l l.
Proof. induction l; constructor; auto. intros _. reflexivity. Qed.

Lemma Forall2_eq_map {A} (f g : A -> option rgba16) l : (forall x, In x l -> f x = g x) -> Forall2 refines (map f l) (map g l).
Proof.
  intros H. rewrite (map_ext_in f g) by exact H. apply Forall2_refines_refl.
Qed.

Lemma groups_lengths {A} (n : nat) (l : list A) : Forall (fun g => length g = n) (groups n l).
Proof.
  unfold groups. destruct n as [|n]; [constructor|]. generalize (length l) at 1. intros fuel. revert l.
  induction fuel as [|f IH]; intros l; cbn [groups_fuel]; [constructor|].
  destruct (Nat.ltb_spec (length l) (S n)); [constructor|]. constructor; [rewrite firstn_length; lia|apply IH].
Qed.

Lemma sval_range g : 0 <= sval g < 2 ^ Z.of_nat (length g).
Proof.
  induction g as [|b t IH]; cbn [sval length]; [lia|]. rewrite Nat2Z.inj_succ, Z.pow_succ_r by lia. destruct b; lia.
Qed.

Lemma groups_single {A} (n : nat) (g : list A) : (0 < n)%nat -> length g = n -> groups n g = [g].
Proof.
  intros Hn Hl. rewrite groups_step by lia. rewrite <- Hl, firstn_all, skipn_all, groups_nil. reflexivity.
Qed.

(* ---------------------------------------------------------------- expanded_bit_depth_to_8 *)
Definition expand_ctype (c : color_type) (bits : Z) : color_type :=
  match c with Gray (Some trans) => Gray (Some (replicate16 3 trans bits)) | c => c end.

Lemma pixel_expand c bits g : In bits depths_lt8 -> channels_per_pixel c = 1 -> wf_ctype c bits ->
  length g = Z.to_nat bits ->
  pixel_color (spec_color_of (expand_ctype c bits)) 8
    (sbits_of_byte (if match c with Gray _ => true | _ => false end then rep8 bits (sval g) else sval g))
  = pixel_color (spec_color_of c) bits g.
Proof.
  intros Hb Hch Hwf Hl. unfold pixel_color. change (Z.to_nat 8) with 8%nat.
  assert (Hbn : (0 < Z.to_nat bits)%nat) by (destruct Hb as [<-|[<-|[<-|[]]]]; cbn; lia).
  rewrite (groups_single (Z.to_nat bits) g) by auto. cbn [map].
  pose proof (sval_range g) as Hv. rewrite Hl in Hv. rewrite Z2Nat.id in Hv by (destruct Hb as [<-|[<-|[<-|[]]]]; lia).
  assert (Hv8 : 0 <= sval g < 256) by (destruct Hb as [<-|[<-|[<-|[]]]]; cbn in Hv; lia).
  destruct c as [key| |pal| |]; try (cbn in Hch; lia).
  - destruct (rep_spec bits (sval g) Hb Hv) as (Hs & Hr & Hinj & _).
    rewrite (groups_single 8 (sbits_of_byte _)) by (auto; lia). cbn [map]. rewrite sval_sbits_of_byte by exact Hr.
    destruct key as [k|]; cbn [expand_ctype spec_color_of color_of_samples].
    + rewrite Hs. cbn [wf_ctype] in Hwf. destruct (rep_spec bits k Hb Hwf) as (_ & Hkr & _ & Hk16). rewrite Hk16.
      unfold key_match. change (2 ^ 8) with 256. rewrite (Z.mod_small (rep8 bits k)) by exact Hkr. rewrite (Z.mod_small k) by exact Hwf.
      rewrite (Hinj k Hwf). reflexivity.
    + rewrite Hs. reflexivity.
  - rewrite (groups_single 8 (sbits_of_byte _)) by (auto; lia). cbn [map]. rewrite sval_sbits_of_byte by exact Hv8. reflexivity.
Qed.

Theorem expanded_bit_depth_to_8_sem img img' pic : wf img ->
  expanded_bit_depth_to_8 img = Ok (Some img') -> sem img = Some pic -> sem img' = Some pic /\ wf img'.
Proof.
  intros [Hok Hwf] Hexp Hsem. unfold expanded_bit_depth_to_8 in Hexp.
  destruct (Z.leb_spec 8 (depth (hdr img))) as [|Hd]; [discriminate|].
  destruct (sem_some_cut _ _ Hsem) as (Hw & Hh & Hbpp & lines & Hcut).
  rewrite (scan_lines_is_layout img lines Hw Hh Hbpp Hcut) in Hexp. cbn [bind] in Hexp. injection Hexp as <-.
  pose proof (sem_some_legal _ _ Hsem) as Hlegal.
  (* depth < 8: one channel, depth 1, 2 or 4 *)
  assert (Hch : channels_per_pixel (ctype (hdr img)) = 1 /\ In (depth (hdr img)) depths_lt8).
  { destruct (ctype (hdr img)); cbn in Hlegal |- *;
      repeat (apply orb_true_iff in Hlegal; destruct Hlegal as [Hlegal|Hlegal]); apply Z.eqb_eq in Hlegal; lia || (split; [reflexivity|]; rewrite Hlegal; cbn; auto). }
  destruct Hch as [Hch Hbits].
  set (bits := depth (hdr img)) in *.
  assert (Hbpp1 : bpp (hdr img) = bits) by (unfold bpp; rewrite Hch; lia).
  set (isg := match ctype (hdr img) with Gray _ => true | _ => false end).
  fold (expand_ctype (ctype (hdr img)) bits).
  set (T := fun l : option Z * Z * list Z =>
              firstn (Z.to_nat (snd (fst l))) (flat_map (fun b => expand_byte (Z.to_nat (8 / bits)) b bits (2 ^ bits - 1) isg) (snd l))).
  assert (Hdata : flat_map (fun l => firstn (Z.to_nat (l_npix l)) (flat_map (fun b => expand_byte (Z.to_nat (8 / bits)) b bits (2 ^ bits - 1) isg) (l_data l))) (map to_scanline lines)
                  = concat (map T lines)).
  { rewrite flat_map_concat_map, map_map. reflexivity. }
  rewrite Hdata.
  assert (Hlines_ok : forall l, In l lines -> bytes_ok (snd l)).
  { destruct (cut_layout_shape _ _ _ Hcut) as [_ Hd0]. intros l Hl. unfold bytes_ok. apply Forall_forall. intros x Hx.
    eapply bytes_ok_in; [exact Hok|]. rewrite Hd0. apply in_concat. exists (snd l). split; [apply in_map; exact Hl|exact Hx]. }
  assert (Hnpix : forall l, In l lines -> 0 <= snd (fst l)).
  { destruct (cut_layout_shape _ _ _ Hcut) as [Hs _]. rewrite spec_layout_pix in Hs.
    pose proof (pix_layout_nonneg _ _ (interlaced (hdr img)) Hw Hh) as P.
    intros l Hl. clear -Hs P Hl. revert lines Hs Hl. induction (pix_layout (width (hdr img)) (height (hdr img)) (interlaced (hdr img))) as [|pn t IH]; intros lines Hs Hl;
      inversion Hs as [|? l0 ? ls [Hf _] Hs']; subst; [destruct Hl|].
    destruct Hl as [<-|Hl]; [rewrite Hf; cbn [fst snd]; inversion P; auto|]. apply (IH ltac:(inversion P; auto) ls); auto. }
  (* the expanded line in terms of bit groups *)
  assert (HTl : forall l, In l lines -> length (snd l) = Z.to_nat (line_bytes bits (snd (fst l))) ->
            T l = map (fun grp => if isg then rep8 bits (sval grp) else sval grp) (line_pixels bits (snd (fst l)) (snd l)) /\
            length (T l) = Z.to_nat (snd (fst l))).
  { intros l Hl Hlen. unfold T, line_pixels.
    assert (E : flat_map (fun b => expand_byte (Z.to_nat (8 / bits)) b bits (2 ^ bits - 1) isg) (snd l)
                = map (fun grp => if isg then rep8 bits (sval grp) else sval grp) (groups (Z.to_nat bits) (sbits_of_bytes (snd l)))).
    { rewrite groups_of_bytes by exact Hbits. rewrite !flat_map_concat_map, concat_map, map_map. f_equal.
      apply map_ext_in. intros b Hb. apply expand_byte_spec; [exact Hbits|]. eapply bytes_ok_in; [apply Hlines_ok; exact Hl|exact Hb]. }
    rewrite E, firstn_map. split; [reflexivity|]. rewrite map_length, firstn_length.
    assert (Hg : (Z.to_nat (snd (fst l)) <= length (groups (Z.to_nat bits) (sbits_of_bytes (snd l))))%nat).
    { rewrite groups_of_bytes by exact Hbits. rewrite flat_map_concat_map.
      rewrite (concat_length_uniform (Z.to_nat (8 / bits))).
      - rewrite map_length, Hlen. pose proof (Hnpix l Hl) as Hn. unfold line_bytes, cdiv.
        destruct Hbits as [<-|[<-|[<-|[]]]]; cbn; lia.
      - apply Forall_forall. intros x Hx. apply in_map_iff in Hx. destruct Hx as [b [<- _]].
        destruct Hbits as [<-|[<-|[<-|[]]]]; reflexivity. }
    lia. }
  split.
  - apply (sem_linewise img _ T lines pic); cbn [hdr data width height interlaced depth ctype with_ctype with_depth]; auto.
    + unfold expand_ctype. destruct (ctype (hdr img)) as [[?|]| | | |]; cbn in Hch |- *; try lia; reflexivity.
    + unfold bpp. cbn [depth ctype]. unfold expand_ctype. destruct (ctype (hdr img)) as [[?|]| | | |]; cbn in Hch |- *; lia.
    + rewrite Hbpp1. exact Hcut.
    + intros l Hl Hlen. rewrite Hbpp1 in *. destruct (HTl l Hl Hlen) as [HT1 HT2].
      assert (Hbpp8 : bpp (with_depth (with_ctype (hdr img) (expand_ctype (ctype (hdr img)) bits)) 8) = 8).
      { unfold bpp. cbn [depth ctype with_depth with_ctype]. unfold expand_ctype. destruct (ctype (hdr img)) as [[?|]| | | |]; cbn in Hch |- *; lia. }
      rewrite Hbpp8. split.
      * rewrite HT2. unfold line_bytes, cdiv. pose proof (Hnpix l Hl). f_equal. 
        replace (snd (fst l) * 8 + 8 - 1) with (snd (fst l) * 8 + 7) by lia. rewrite Z.div_add_l by lia. change (7 / 8) with 0. lia.
      * rewrite (line_pixels_8 _ _ HT2). rewrite HT1, !map_map.
        apply Forall2_eq_map. intros g Hg. symmetry.
        apply pixel_expand; auto.
        unfold line_pixels in Hg. apply In_firstn in Hg. pose proof (groups_lengths (Z.to_nat bits) (sbits_of_bytes (snd l))) as GL.
        rewrite Forall_forall in GL. apply GL. exact Hg.
  - split; cbn [data hdr ctype depth with_ctype with_depth].
    + unfold bytes_ok. apply Forall_forall. intros x Hx. apply in_concat in Hx. destruct Hx as [tl [Htl Hx]].
      apply in_map_iff in Htl. destruct Htl as [l [<- Hl]].
      assert (Hlen : length (snd l) = Z.to_nat (line_bytes bits (snd (fst l)))).
      { destruct (cut_layout_shape _ _ _ Hcut) as [Hs _]. rewrite Hbpp1 in Hs. clear -Hs Hl.
        revert lines Hs Hl. induction (spec_layout (width (hdr img)) (height (hdr img)) bits (interlaced (hdr img))) as [|lay t IH]; intros lines Hs Hl;
          inversion Hs as [|? l0 ? ls [Hf Hlen] Hs']; subst; [destruct Hl|].
        destruct Hl as [<-|Hl]; [|apply (IH ls); auto]. admit. }
      admit.
    + admit.
Admitted.

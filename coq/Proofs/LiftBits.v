(* Image-level semantic theorems for the sub-byte transformations (C01): expanded_bit_depth_to_8
   and reduced_bit_depth_8_or_less, through the line-wise lifting theorem of LiftLines.v and finite
   byte-level sweeps (all 256 bytes x the depths 1, 2, 4) lifted by forallb_forall. *)
From OxiVerif Require Import Base.Common Spec.Adam7 Spec.Sem Model.Types Model.ScanLines Model.BitDepth
  Proofs.Bridge Proofs.PixelProofs Proofs.ScanProofs Proofs.ImageLift Proofs.LiftReductions Proofs.LiftColor Proofs.LiftLines.
Local Open Scope Z_scope.

(* ---------------------------------------------------------------- groups of a concatenation *)
Lemma groups_fuel_indep {A} (n : nat) : (0 < n)%nat -> forall f1 f2 (l : list A), (length l <= f1)%nat -> (length l <= f2)%nat ->
  groups_fuel f1 n l = groups_fuel f2 n l.
Proof.
  intros Hn. induction f1 as [|f1 IH]; intros f2 l H1 H2.
  - destruct l; [|cbn in H1; lia]. destruct f2; cbn [groups_fuel length]; [reflexivity|]. destruct (Nat.ltb_spec 0 n); [reflexivity|lia].
  - destruct f2 as [|f2].
    + destruct l; [|cbn in H2; lia]. cbn [groups_fuel length]. destruct (Nat.ltb_spec 0 n); [reflexivity|lia].
    + cbn [groups_fuel]. destruct (Nat.ltb_spec (length l) n); [reflexivity|]. f_equal.
      apply IH; rewrite skipn_length; lia.
Qed.

Lemma groups_fuel_more {A} (n : nat) : (0 < n)%nat -> forall fuel (l : list A), (length l <= fuel)%nat ->
  groups_fuel fuel n l = groups_fuel (length l) n l.
Proof. intros Hn fuel l Hl. apply groups_fuel_indep; auto. Qed.

Lemma groups_step {A} (n : nat) (l : list A) : (0 < n)%nat -> (n <= length l)%nat ->
  groups n l = firstn n l :: groups n (skipn n l).
Proof.
  intros Hn Hl. unfold groups. destruct n as [|n]; [lia|]. destruct l as [|x t]; [cbn in Hl; lia|].
  cbn [length groups_fuel]. destruct (Nat.ltb_spec (S (length t)) (S n)); [cbn [length] in Hl; lia|]. f_equal.
  apply groups_fuel_indep; [lia| |lia]. rewrite skipn_length. cbn [length]. lia.
Qed.

Lemma groups_nil {A} (n : nat) : groups n (@nil A) = [].
Proof. unfold groups. destruct n; reflexivity. Qed.

Lemma groups_app {A} (n : nat) (a b : list A) k : (0 < n)%nat -> length a = (k * n)%nat ->
  groups n (a ++ b) = groups n a ++ groups n b.
Proof.
  intros Hn. revert a. induction k as [|k IH]; intros a Ha.
  - destruct a; [|cbn in Ha; lia]. rewrite groups_nil. reflexivity.
  - assert (Hge : (n <= length a)%nat) by (rewrite Ha; nia).
    rewrite (groups_step n (a ++ b)) by (auto; rewrite app_length; lia).
    rewrite (groups_step n a) by auto.
    rewrite firstn_app, skipn_app. replace (n - length a)%nat with 0%nat by lia. rewrite firstn_O, skipn_O, app_nil_r.
    cbn [app]. f_equal. apply IH. rewrite skipn_length, Ha. lia.
Qed.

Lemma groups_flat_map {A B} (n : nat) (f : B -> list A) (l : list B) k : (0 < n)%nat ->
  (forall x, length (f x) = (k * n)%nat) -> groups n (flat_map f l) = flat_map (fun x => groups n (f x)) l.
Proof.
  intros Hn Hf. induction l as [|x t IH]; cbn [flat_map].
  - apply groups_nil.
  - rewrite (groups_app n _ _ k) by auto. rewrite IH. reflexivity.
Qed.

(* ---------------------------------------------------------------- byte tables *)
Definition depths_lt8 : list Z := [1; 2; 4].
Definition rep8 (bits v : Z) : Z := replicate8 3 v bits.

(* expanding one byte = the samples of its bit groups (replicated for gray) *)
Lemma expand_table : forallb (fun bits => forallb (fun g : bool => forallb (fun b =>
    list_eqb Z.eqb (expand_byte (Z.to_nat (8 / bits)) b bits (2 ^ bits - 1) g)
                   (map (fun grp => if g then rep8 bits (sval grp) else sval grp) (groups (Z.to_nat bits) (sbits_of_byte b))))
  bytes256) [true; false]) depths_lt8 = true.
Proof. vm_compute. reflexivity. Qed.

Lemma expand_byte_spec bits g b : In bits depths_lt8 -> 0 <= b < 256 ->
  expand_byte (Z.to_nat (8 / bits)) b bits (2 ^ bits - 1) g
  = map (fun grp => if g then rep8 bits (sval grp) else sval grp) (groups (Z.to_nat bits) (sbits_of_byte b)).
Proof.
  intros Hbits Hb. pose proof expand_table as T. rewrite forallb_forall in T. specialize (T bits Hbits).
  rewrite forallb_forall in T. specialize (T g ltac:(destruct g; cbn; auto)). rewrite forallb_forall in T.
  apply list_eqb_Z_spec. apply T. unfold bytes256. apply in_map_iff. exists (Z.to_nat b). split; [lia|]. apply in_seq. lia.
Qed.

(* samples of depth < 8: replication is exact scaling, and injective *)
Definition samples_lt (bits : Z) : list Z := map Z.of_nat (seq 0 (Z.to_nat (2 ^ bits))).

Lemma rep_table : forallb (fun bits => forallb (fun v =>
    (scale16 8 (rep8 bits v) =? scale16 bits v) && (0 <=? rep8 bits v) && (rep8 bits v <? 256) &&
    forallb (fun t => Bool.eqb (rep8 bits t =? rep8 bits v) (t =? v)) (samples_lt bits) &&
    (replicate16 3 v bits =? rep8 bits v))
  (samples_lt bits)) depths_lt8 = true.
Proof. vm_compute. reflexivity. Qed.

Lemma in_samples_lt bits v : In bits depths_lt8 -> 0 <= v < 2 ^ bits -> In v (samples_lt bits).
Proof.
  intros Hb Hv. unfold samples_lt. apply in_map_iff. exists (Z.to_nat v). split; [lia|]. apply in_seq.
  destruct Hb as [<-|[<-|[<-|[]]]]; cbn in *; lia.
Qed.

Lemma rep_spec bits v : In bits depths_lt8 -> 0 <= v < 2 ^ bits ->
  scale16 8 (rep8 bits v) = scale16 bits v /\ 0 <= rep8 bits v < 256 /\
  (forall t, 0 <= t < 2 ^ bits -> (rep8 bits t =? rep8 bits v) = (t =? v)) /\ replicate16 3 v bits = rep8 bits v.
Proof.
  intros Hb Hv. pose proof rep_table as T. rewrite forallb_forall in T. specialize (T bits Hb).
  rewrite forallb_forall in T. specialize (T v (in_samples_lt bits v Hb Hv)).
  repeat (apply andb_true_iff in T; destruct T as [T ?]).
  repeat split; try (apply Z.eqb_eq; assumption); try (apply Z.leb_le; assumption); try (apply Z.ltb_lt; assumption).
  intros t Ht. match goal with H : forallb _ (samples_lt bits) = true |- _ => rewrite forallb_forall in H; specialize (H t (in_samples_lt bits t Hb Ht)); apply Bool.eqb_prop in H; exact H end.
Qed.

(* ---------------------------------------------------------------- image-level wrapper of the line-wise lift *)
Lemma sem_some_cut img pic : sem img = Some pic ->
  1 <= width (hdr img) /\ 1 <= height (hdr img) /\ 1 <= bpp (hdr img) /\
  exists lines, cut_layout (spec_layout (width (hdr img)) (height (hdr img)) (bpp (hdr img)) (interlaced (hdr img))) (data img) = Some lines.
Proof.
  unfold sem, spec_sem, spec_image_pixels, bpp. rewrite spec_channels_of.
  destruct (negb (depth_legal _ _)); [discriminate|].
  destruct (Z.leb_spec (width (hdr img)) 0); [discriminate|]. destruct (Z.leb_spec (height (hdr img)) 0); [discriminate|].
  destruct (Z.leb_spec (depth (hdr img) * channels_per_pixel (ctype (hdr img))) 0); [discriminate|]. cbn [orb].
  destruct (cut_layout _ (data img)) as [lines|]; [|discriminate]. intros _. repeat split; try lia. eauto.
Qed.

Theorem sem_linewise (img img' : image) (T : option Z * Z * list Z -> list Z) lines pic :
  width (hdr img') = width (hdr img) -> height (hdr img') = height (hdr img) -> interlaced (hdr img') = interlaced (hdr img) ->
  depth_legal (spec_color_of (ctype (hdr img'))) (depth (hdr img')) = true -> 0 < bpp (hdr img') ->
  cut_layout (spec_layout (width (hdr img)) (height (hdr img)) (bpp (hdr img)) (interlaced (hdr img))) (data img) = Some lines ->
  data img' = concat (map T lines) ->
  (forall l, In l lines -> length (snd l) = Z.to_nat (line_bytes (bpp (hdr img)) (snd (fst l))) ->
     length (T l) = Z.to_nat (line_bytes (bpp (hdr img')) (snd (fst l))) /\
     Forall2 refines (map (pixel_color (spec_color_of (ctype (hdr img))) (depth (hdr img))) (line_pixels (bpp (hdr img)) (snd (fst l)) (snd l)))
                     (map (pixel_color (spec_color_of (ctype (hdr img'))) (depth (hdr img'))) (line_pixels (bpp (hdr img')) (snd (fst l)) (T l)))) ->
  sem img = Some pic -> sem img' = Some pic.
Proof.
  intros Hw Hh Hil Hlegal Hb' Hcut Hdata HT Hsem. unfold sem in *. rewrite Hw, Hh, Hil.
  rewrite spec_sem_gsem in *. rewrite Hlegal. cbn [negb].
  destruct (negb (depth_legal (spec_color_of (ctype (hdr img))) (depth (hdr img)))); [discriminate|].
  rewrite spec_channels_of in *. fold (bpp (hdr img)) in Hsem. fold (bpp (hdr img')). rewrite Hdata.
  eapply gsem_linewise; eauto.
Qed.

(* pixels of a line of 8-bit single-channel pixels *)
Lemma line_pixels_8 (n : Z) (bytes : list Z) : length bytes = Z.to_nat n ->
  line_pixels 8 n bytes = map sbits_of_byte bytes.
Proof.
  intros Hl. pose proof (line_pixels_aligned 1 n (map (fun v => [v]) bytes) ltac:(lia)) as P.
  rewrite concat_map_singleton in P. change (8 * Z.of_nat 1) with 8 in P. rewrite P.
  - rewrite map_map. apply map_ext. intros v. unfold sbits_of_bytes. cbn [flat_map]. apply app_nil_r.
  - apply Forall_forall. intros x Hx. apply in_map_iff in Hx. destruct Hx as [v [<- _]]. reflexivity.
  - rewrite map_length. exact Hl.
Qed.

Lemma sbits_of_bytes_flat l : sbits_of_bytes l = flat_map sbits_of_byte l.
Proof. reflexivity. Qed.

(* the bit groups of a line of bytes, for a depth dividing 8 *)
Lemma groups_of_bytes bits (bytes : list Z) : In bits depths_lt8 ->
  groups (Z.to_nat bits) (sbits_of_bytes bytes) = flat_map (fun b => groups (Z.to_nat bits) (sbits_of_byte b)) bytes.
Proof.
  intros Hb. unfold sbits_of_bytes. apply (groups_flat_map _ _ _ (Z.to_nat (8 / bits))).
  - destruct Hb as [<-|[<-|[<-|[]]]]; cbn; lia.
  - intros x. destruct Hb as [<-|[<-|[<-|[]]]]; reflexivity.
Qed.

Lemma Forall2_refines_refl l : Forall2 refines l l.
Proof. induction l; constructor; auto. intros _. reflexivity. Qed.

Lemma Forall2_eq_map {A} (f g : A -> option rgba16) l : (forall x, In x l -> f x = g x) -> Forall2 refines (map f l) (map g l).
Proof.
  intros H. rewrite (map_ext_in f g) by exact H. apply Forall2_refines_refl.
Qed.

Lemma groups_lengths {A} (n : nat) (l : list A) : Forall (fun g => length g = n) (groups n l).
Proof.
  unfold groups. destruct n as [|n]; [constructor|]. generalize (length l) at 1. intros fuel. revert l.
  induction fuel as [|f IH]; intros l; cbn [groups_fuel]; [constructor|].
  destruct (Nat.ltb_spec (length l) (S n)); [constructor|]. constructor; [rewrite firstn_length; lia|apply IH].
Qed.

Lemma sval_range g : 0 <= sval g < 2 ^ Z.of_nat (length g).
Proof.
  induction g as [|b t IH]; cbn [sval length]; [lia|]. rewrite Nat2Z.inj_succ, Z.pow_succ_r by lia. destruct b; lia.
Qed.

Lemma groups_single {A} (n : nat) (g : list A) : (0 < n)%nat -> length g = n -> groups n g = [g].
Proof.
  intros Hn Hl. rewrite groups_step by lia. rewrite <- Hl, firstn_all, skipn_all, groups_nil. reflexivity.
Qed.

(* ---------------------------------------------------------------- expanded_bit_depth_to_8 *)
Definition expand_ctype (c : color_type) (bits : Z) : color_type :=
  match c with
  | Gray (Some trans) => Gray (Some (replicate16 3 trans bits))
  | Gray None => Gray None | RGB key => RGB key | Indexed pal => Indexed pal | GrayAlpha => GrayAlpha | RGBA => RGBA
  end.

Lemma pixel_expand c bits g : In bits depths_lt8 -> channels_per_pixel c = 1 -> wf_ctype c bits ->
  length g = Z.to_nat bits ->
  pixel_color (spec_color_of (expand_ctype c bits)) 8
    (sbits_of_byte (if match c with Gray _ => true | _ => false end then rep8 bits (sval g) else sval g))
  = pixel_color (spec_color_of c) bits g.
Proof.
  intros Hb Hch Hwf Hl. unfold pixel_color. change (Z.to_nat 8) with 8%nat.
  assert (Hbn : (0 < Z.to_nat bits)%nat) by (destruct Hb as [<-|[<-|[<-|[]]]]; cbn; lia).
  rewrite (groups_single (Z.to_nat bits) g) by auto. cbn [map].
  pose proof (sval_range g) as Hv. rewrite Hl in Hv. rewrite Z2Nat.id in Hv by (destruct Hb as [<-|[<-|[<-|[]]]]; lia).
  assert (Hv8 : 0 <= sval g < 256) by (destruct Hb as [<-|[<-|[<-|[]]]]; cbn in Hv; lia).
  destruct c as [key| |pal| |]; try (cbn in Hch; lia).
  - destruct (rep_spec bits (sval g) Hb Hv) as (Hs & Hr & Hinj & _).
    rewrite (groups_single 8 (sbits_of_byte _)) by (auto; lia). cbn [map]. rewrite sval_sbits_of_byte by exact Hr.
    destruct key as [k|]; cbn [expand_ctype spec_color_of color_of_samples].
    + rewrite Hs. cbn [wf_ctype] in Hwf. destruct (rep_spec bits k Hb Hwf) as (_ & Hkr & _ & Hk16). rewrite Hk16.
      unfold key_match. change (2 ^ 8) with 256. rewrite (Z.mod_small (rep8 bits k)) by exact Hkr. rewrite (Z.mod_small k) by exact Hwf.
      rewrite (Hinj k Hwf). reflexivity.
    + rewrite Hs. reflexivity.
  - rewrite (groups_single 8 (sbits_of_byte _)) by (auto; lia). cbn [map]. rewrite sval_sbits_of_byte by exact Hv8. reflexivity.
Qed.

Theorem expanded_bit_depth_to_8_sem img img' pic : wf img ->
  expanded_bit_depth_to_8 img = Ok (Some img') -> sem img = Some pic -> sem img' = Some pic /\ wf img'.
Proof.
  intros [Hok Hwf] Hexp Hsem. unfold expanded_bit_depth_to_8 in Hexp.
  destruct (Z.leb_spec 8 (depth (hdr img))) as [|Hd]; [discriminate|].
  destruct (sem_some_cut _ _ Hsem) as (Hw & Hh & Hbpp & lines & Hcut).
  rewrite (scan_lines_is_layout img lines Hw Hh Hbpp Hcut) in Hexp. cbn [bind] in Hexp.
  cbv zeta in Hexp.
  match type of Hexp with context [with_ctype (hdr img) ?c] => change c with (expand_ctype (ctype (hdr img)) (depth (hdr img))) in Hexp end.
  remember (expand_ctype (ctype (hdr img)) (depth (hdr img))) as ct' eqn:Hct'.
  remember (flat_map (fun l => firstn (Z.to_nat (l_npix l)) (flat_map (fun b => expand_byte (Z.to_nat (8 / depth (hdr img))) b (depth (hdr img)) (2 ^ depth (hdr img) - 1)
              match ctype (hdr img) with Gray _ => true | _ => false end) (l_data l))) (map to_scanline lines)) as newdata eqn:Hnd.
  injection Hexp as <-.
  pose proof (sem_some_legal _ _ Hsem) as Hlegal.
  (* depth < 8: one channel, depth 1, 2 or 4 *)
  assert (Hch : channels_per_pixel (ctype (hdr img)) = 1 /\ In (depth (hdr img)) depths_lt8).
  { destruct (ctype (hdr img)); cbn in Hlegal |- *;
      repeat (apply orb_true_iff in Hlegal; destruct Hlegal as [Hlegal|Hlegal]); apply Z.eqb_eq in Hlegal; lia || (split; [reflexivity|]; rewrite Hlegal; cbn; auto). }
  destruct Hch as [Hch Hbits].
  set (bits := depth (hdr img)) in *.
  assert (Hbpp1 : bpp (hdr img) = bits) by (unfold bpp; rewrite Hch; lia).
  set (isg := match ctype (hdr img) with Gray _ => true | _ => false end).
  set (T := fun l : option Z * Z * list Z =>
              firstn (Z.to_nat (snd (fst l))) (flat_map (fun b => expand_byte (Z.to_nat (8 / bits)) b bits (2 ^ bits - 1) isg) (snd l))).
  assert (Hdata : flat_map (fun l => firstn (Z.to_nat (l_npix l)) (flat_map (fun b => expand_byte (Z.to_nat (8 / bits)) b bits (2 ^ bits - 1) isg) (l_data l))) (map to_scanline lines)
                  = concat (map T lines)).
  { rewrite flat_map_concat_map, map_map. reflexivity. }
  fold bits isg in Hnd. rewrite Hdata in Hnd. subst newdata.
  assert (Hlines_ok : forall l, In l lines -> bytes_ok (snd l)).
  { destruct (cut_layout_shape _ _ _ Hcut) as [_ Hd0]. intros l Hl. unfold bytes_ok. apply Forall_forall. intros x Hx.
    eapply bytes_ok_in; [exact Hok|]. rewrite Hd0. apply in_concat. exists (snd l). split; [apply in_map; exact Hl|exact Hx]. }
  assert (Hnpix : forall l, In l lines -> 0 <= snd (fst l)).
  { destruct (cut_layout_shape _ _ _ Hcut) as [Hs _]. rewrite spec_layout_pix in Hs.
    pose proof (pix_layout_nonneg _ _ (interlaced (hdr img)) Hw Hh) as P.
    intros l Hl. clear -Hs P Hl. revert lines Hs Hl. induction (pix_layout (width (hdr img)) (height (hdr img)) (interlaced (hdr img))) as [|pn t IH]; intros lines Hs Hl;
      inversion Hs as [|? l0 ? ls [Hf _] Hs']; subst; [destruct Hl|].
    destruct Hl as [<-|Hl]; [rewrite Hf; cbn [fst snd]; inversion P; auto|]. apply (IH ltac:(inversion P; auto) ls); auto. }
  (* the expanded line in terms of bit groups *)
  assert (HTl : forall l, In l lines -> length (snd l) = Z.to_nat (line_bytes bits (snd (fst l))) ->
            T l = map (fun grp => if isg then rep8 bits (sval grp) else sval grp) (line_pixels bits (snd (fst l)) (snd l)) /\
            length (T l) = Z.to_nat (snd (fst l))).
  { intros l Hl Hlen. unfold T, line_pixels.
    assert (E : flat_map (fun b => expand_byte (Z.to_nat (8 / bits)) b bits (2 ^ bits - 1) isg) (snd l)
                = map (fun grp => if isg then rep8 bits (sval grp) else sval grp) (groups (Z.to_nat bits) (sbits_of_bytes (snd l)))).
    { rewrite groups_of_bytes by exact Hbits. rewrite !flat_map_concat_map, concat_map, map_map. f_equal.
      apply map_ext_in. intros b Hb. apply expand_byte_spec; [exact Hbits|]. eapply bytes_ok_in; [apply Hlines_ok; exact Hl|exact Hb]. }
    rewrite E, firstn_map. split; [reflexivity|]. rewrite map_length, firstn_length.
    assert (Hg : (Z.to_nat (snd (fst l)) <= length (groups (Z.to_nat bits) (sbits_of_bytes (snd l))))%nat).
    { rewrite groups_of_bytes by exact Hbits. rewrite flat_map_concat_map.
      rewrite (concat_length_uniform (Z.to_nat (8 / bits))).
      - rewrite map_length, Hlen. pose proof (Hnpix l Hl) as Hn. unfold line_bytes, cdiv.
        destruct Hbits as [<-|[<-|[<-|[]]]]; cbn; lia.
      - apply Forall_forall. intros x Hx. apply in_map_iff in Hx. destruct Hx as [b [<- _]].
        destruct Hbits as [<-|[<-|[<-|[]]]]; reflexivity. }
    lia. }
  split.
  - apply (sem_linewise img _ T lines pic); cbn [hdr data width height interlaced depth ctype with_ctype with_depth]; auto.
    + subst ct'. unfold expand_ctype. destruct (ctype (hdr img)) as [[?|]| | | |]; cbn in Hch |- *; try lia; reflexivity.
    + unfold bpp. cbn [depth ctype]. subst ct'. unfold expand_ctype. destruct (ctype (hdr img)) as [[?|]| | | |]; cbn in Hch |- *; lia.
    + intros l Hl Hlen. rewrite Hbpp1 in *. destruct (HTl l Hl Hlen) as [HT1 HT2].
      assert (Hbpp8 : bpp (with_depth (with_ctype (hdr img) ct') 8) = 8).
      { unfold bpp. cbn [depth ctype with_depth with_ctype]. subst ct'. unfold expand_ctype. destruct (ctype (hdr img)) as [[?|]| | | |]; cbn in Hch |- *; lia. }
      rewrite Hbpp8. split.
      * rewrite HT2. unfold line_bytes, cdiv. pose proof (Hnpix l Hl). f_equal. 
        replace (snd (fst l) * 8 + 8 - 1) with (snd (fst l) * 8 + 7) by lia. rewrite Z.div_add_l by lia. change (7 / 8) with 0. lia.
      * rewrite (line_pixels_8 _ _ HT2). rewrite HT1, !map_map.
        apply Forall2_eq_map. intros g Hg. symmetry. subst ct'. fold bits.
        apply pixel_expand; auto.
        unfold line_pixels in Hg. apply In_firstn in Hg. pose proof (groups_lengths (Z.to_nat bits) (sbits_of_bytes (snd l))) as GL.
        rewrite Forall_forall in GL. apply GL. exact Hg.
  - split; cbn [data hdr ctype depth with_ctype with_depth].
    + unfold bytes_ok. apply Forall_forall. intros x Hx. apply in_concat in Hx. destruct Hx as [tl [Htl Hx]].
      apply in_map_iff in Htl. destruct Htl as [l [<- Hl]].
      destruct (cut_lines_lengths _ _ _ _ _ _ Hw Hh Hcut l Hl) as [Hlen _]. rewrite Hbpp1 in Hlen.
      destruct (HTl l Hl Hlen) as [HT1 _]. rewrite HT1 in Hx. apply in_map_iff in Hx. destruct Hx as [g [<- Hg]].
      assert (Hgl : length g = Z.to_nat bits).
      { unfold line_pixels in Hg. apply In_firstn in Hg. pose proof (groups_lengths (Z.to_nat bits) (sbits_of_bytes (snd l))) as GL.
        rewrite Forall_forall in GL. apply GL. exact Hg. }
      pose proof (sval_range g) as Hv. rewrite Hgl in Hv. rewrite Z2Nat.id in Hv by (destruct Hbits as [<-|[<-|[<-|[]]]]; lia).
      destruct isg.
      * apply (rep_spec bits (sval g) Hbits Hv).
      * destruct Hbits as [E|[E|[E|[]]]]; rewrite <- E in Hv; cbn in Hv; unfold byte_ok; lia.
    + subst ct'. fold bits. unfold expand_ctype. destruct (ctype (hdr img)) as [[k|]| | | |]; try (cbn in Hch; lia); cbn [wf_ctype] in *; auto.
      destruct (rep_spec bits k Hbits Hwf) as (_ & Hr & _ & E). rewrite E. change (2 ^ 8) with 256. exact Hr.
Qed.

(* ---------------------------------------------------------------- reduced_bit_depth_8_or_less *)
Definition mask_of (bits : Z) : Z := 2 ^ bits - 1.

(* a byte fits `bits` iff it is the replication of its low group; fitting is monotone in the depth; the high group of a fitting
   byte is its low group *)
Lemma fits_table : forallb (fun bits => forallb (fun v =>
    Bool.eqb (fits bits v) (v =? rep8 bits (Z.land v (mask_of bits))) &&
    (negb (fits bits v) || ((v / 2 ^ (8 - bits) =? Z.land v (mask_of bits)) && forallb (fun b2 => (b2 <? bits) || fits b2 v) depths_lt8)) &&
    (Z.land v (mask_of bits) <? 2 ^ bits) && (0 <=? Z.land v (mask_of bits)))
  bytes256) depths_lt8 = true.
Proof. vm_compute. reflexivity. Qed.

Lemma in_bytes256 v : 0 <= v < 256 -> In v bytes256.
Proof. intros H. unfold bytes256. apply in_map_iff. exists (Z.to_nat v). split; [lia|]. apply in_seq. lia. Qed.

Lemma fits_spec bits v : In bits depths_lt8 -> 0 <= v < 256 ->
  (fits bits v = true <-> v = rep8 bits (Z.land v (mask_of bits))) /\
  0 <= Z.land v (mask_of bits) < 2 ^ bits /\
  (fits bits v = true -> v / 2 ^ (8 - bits) = Z.land v (mask_of bits) /\ forall b2, In b2 depths_lt8 -> bits <= b2 -> fits b2 v = true).
Proof.
  intros Hb Hv. pose proof fits_table as T. rewrite forallb_forall in T. specialize (T bits Hb). rewrite forallb_forall in T.
  specialize (T v (in_bytes256 v Hv)). repeat (apply andb_true_iff in T; destruct T as [T ?]).
  apply Bool.eqb_prop in T. split; [|split].
  - rewrite T. apply Z.eqb_eq.
  - split; [apply Z.leb_le; assumption|apply Z.ltb_lt; assumption].
  - intros Hf. match goal with H : negb _ || _ = true |- _ => rewrite Hf in H; cbn [negb orb] in H; apply andb_true_iff in H; destruct H as [H1 H2] end.
    split; [apply Z.eqb_eq; exact H1|]. intros b2 Hb2 Hle. rewrite forallb_forall in H2. specialize (H2 b2 Hb2).
    apply orb_true_iff in H2. destruct H2 as [H2|H2]; [apply Z.ltb_lt in H2; lia|exact H2].
Qed.

(* all lists of a given length over a list of values *)
Fixpoint lists_of {A} (vals : list A) (k : nat) : list (list A) :=
  match k with O => [[]] | S k' => flat_map (fun t => map (fun v => v :: t) vals) (lists_of vals k') end.

Lemma lists_of_complete {A} (vals : list A) : forall k l, length l = k -> (forall x, In x l -> In x vals) -> In l (lists_of vals k).
Proof.
  induction k as [|k IH]; intros l Hl Hin.
  - destruct l; [left; reflexivity|cbn in Hl; lia].
  - destruct l as [|x t]; [cbn in Hl; lia|]. cbn [lists_of]. apply in_flat_map. exists t. split.
    + apply IH; [cbn in Hl; lia|]. intros y Hy. apply Hin. right. exact Hy.
    + apply in_map_iff. exists x. split; [reflexivity|]. apply Hin. left. reflexivity.
Qed.

Definition chunk_lens (bits : Z) : list nat := seq 0 (S (Z.to_nat (8 / bits))).

(* packing a chunk of in-range samples: a byte whose leading bit groups are the samples *)
Lemma pack_table : forallb (fun bits => forallb (fun k => forallb (fun c =>
    let p := pack_chunk c bits (mask_of bits) 8 in
    (0 <=? p) && (p <? 256) && list_eqb Z.eqb (map sval (firstn k (groups (Z.to_nat bits) (sbits_of_byte p)))) c)
  (lists_of (samples_lt bits) k)) (chunk_lens bits)) depths_lt8 = true.
Proof. vm_compute. reflexivity. Qed.

Lemma pack_chunk_masked c bits mask : forall shift, pack_chunk (map (fun v => Z.land v mask) c) bits mask shift = pack_chunk c bits mask shift.
Proof.
  induction c as [|v t IH]; intros shift; cbn [map pack_chunk]; [reflexivity|].
  rewrite IH. rewrite <- Z.land_assoc, Z.land_diag. reflexivity.
Qed.

Lemma pack_chunk_spec bits c : In bits depths_lt8 -> (length c <= Z.to_nat (8 / bits))%nat -> bytes_ok c ->
  let p := pack_chunk c bits (mask_of bits) 8 in
  0 <= p < 256 /\ map sval (firstn (length c) (groups (Z.to_nat bits) (sbits_of_byte p))) = map (fun v => Z.land v (mask_of bits)) c.
Proof.
  intros Hb Hl Hok. cbn zeta. rewrite <- (pack_chunk_masked c bits (mask_of bits) 8).
  set (c' := map (fun v => Z.land v (mask_of bits)) c).
  pose proof pack_table as T. rewrite forallb_forall in T. specialize (T bits Hb). rewrite forallb_forall in T.
  specialize (T (length c)). rewrite forallb_forall in T.
  assert (Hk : In (length c) (chunk_lens bits)) by (unfold chunk_lens; apply in_seq; lia).
  specialize (T Hk c').
  assert (Hc' : In c' (lists_of (samples_lt bits) (length c))).
  { apply lists_of_complete; [unfold c'; apply map_length|]. intros x Hx. unfold c' in Hx. apply in_map_iff in Hx. destruct Hx as [v [<- Hv]].
    apply in_samples_lt; [exact Hb|]. apply fits_spec; [exact Hb|]. eapply bytes_ok_in; eauto. }
  specialize (T Hc'). cbn zeta in T. repeat (apply andb_true_iff in T; destruct T as [T ?]).
  split; [split; [apply Z.leb_le; assumption|apply Z.ltb_lt; assumption]|]. apply list_eqb_Z_spec. assumption.
Qed.

Lemma chunks_fuel_indep {A} (n : nat) : (0 < n)%nat -> forall f1 f2 (l : list A), (length l <= f1)%nat -> (length l <= f2)%nat ->
  chunks_fuel f1 n l = chunks_fuel f2 n l.
Proof.
  intros Hn. induction f1 as [|f1 IH]; intros f2 l H1 H2.
  - destruct l; [|cbn in H1; lia]. destruct f2; reflexivity.
  - destruct f2 as [|f2]; [destruct l; [reflexivity|cbn in H2; lia]|].
    cbn [chunks_fuel]. destruct l as [|x t]; [reflexivity|]. f_equal. apply IH; rewrite skipn_length; cbn [length] in *; lia.
Qed.

Lemma chunks_step {A} (n : nat) (l : list A) : (0 < n)%nat -> l <> [] -> chunks n l = firstn n l :: chunks n (skipn n l).
Proof.
  intros Hn Hl. unfold chunks. destruct n as [|n]; [lia|]. destruct l as [|x t]; [congruence|].
  cbn [length chunks_fuel]. f_equal. apply chunks_fuel_indep; [lia| |lia]. rewrite skipn_length. cbn [length]. lia.
Qed.

Lemma chunks_nil {A} (n : nat) : chunks n (@nil A) = [].
Proof. unfold chunks. destruct n; reflexivity. Qed.

Lemma pack_line bits : In bits depths_lt8 -> forall (k : nat) (dl : list Z), (length dl <= k)%nat -> bytes_ok dl ->
  let ppb := Z.to_nat (8 / bits) in
  let tl := map (fun ch => pack_chunk ch bits (mask_of bits) 8) (chunks ppb dl) in
  Z.of_nat (length tl) = cdiv (Z.of_nat (length dl)) (8 / bits) /\ bytes_ok tl /\
  map sval (firstn (length dl) (groups (Z.to_nat bits) (sbits_of_bytes tl))) = map (fun v => Z.land v (mask_of bits)) dl.
Proof.
  intros Hb. cbn zeta.
  assert (Hppb : (0 < Z.to_nat (8 / bits))%nat /\ 8 / bits = Z.of_nat (Z.to_nat (8 / bits)) /\ (Z.to_nat (8 / bits) * Z.to_nat bits = 8)%nat /\ (0 < Z.to_nat bits)%nat)
    by (destruct Hb as [<-|[<-|[<-|[]]]]; cbn; lia).
  destruct Hppb as (Hp0 & Hpz & Hp8 & Hbn). set (ppb := Z.to_nat (8 / bits)) in *.
  induction k as [|k IH]; intros dl Hlen Hok.
  - destruct dl; [|cbn in Hlen; lia]. rewrite chunks_nil. cbn. unfold cdiv. rewrite Hpz.
    split; [|split; [constructor|reflexivity]]. symmetry. apply Z.div_small. lia.
  - destruct dl as [|x t] eqn:Edl; [rewrite chunks_nil; cbn; unfold cdiv; rewrite Hpz; split; [symmetry; apply Z.div_small; lia|split; [constructor|reflexivity]]|].
    rewrite <- Edl in *. assert (Hne : dl <> []) by (rewrite Edl; discriminate).
    rewrite (chunks_step ppb dl Hp0 Hne). cbn [map length].
    set (c := firstn ppb dl). set (r := skipn ppb dl).
    assert (Hcl : (length c <= ppb)%nat) by (unfold c; rewrite firstn_length; lia).
    assert (Hcok : bytes_ok c) by (apply bytes_ok_firstn; exact Hok).
    destruct (pack_chunk_spec bits c Hb Hcl Hcok) as [Hpr Hpv]. cbn zeta in Hpr, Hpv.
    set (p := pack_chunk c bits (mask_of bits) 8) in *.
    assert (Hrlen : (length r <= k)%nat) by (unfold r; rewrite skipn_length; rewrite Edl in *; cbn [length] in *; lia).
    destruct (IH r Hrlen (bytes_ok_skipn _ _ Hok)) as (I1 & I2 & I3).
    split; [|split].
    + rewrite Nat2Z.inj_succ, I1. unfold r. rewrite skipn_length. unfold cdiv. rewrite Hpz.
      assert (Hdl : (1 <= length dl)%nat) by (rewrite Edl; cbn; lia).
      destruct (Nat.le_gt_cases ppb (length dl)) as [Hge|Hlt].
      * replace (Z.of_nat (length dl - ppb)) with (Z.of_nat (length dl) - Z.of_nat ppb) by lia.
        replace (Z.of_nat (length dl) + Z.of_nat ppb - 1) with ((Z.of_nat (length dl) - Z.of_nat ppb + Z.of_nat ppb - 1) + 1 * Z.of_nat ppb) by lia.
        rewrite Z.div_add by lia. lia.
      * replace (length dl - ppb)%nat with 0%nat by lia. cbn [Z.of_nat]. rewrite (Z.div_small (0 + Z.of_nat ppb - 1)) by lia.
        replace (Z.of_nat (length dl) + Z.of_nat ppb - 1) with ((Z.of_nat (length dl) - 1) + 1 * Z.of_nat ppb) by lia.
        rewrite Z.div_add by lia. rewrite Z.div_small by lia. lia.
    + apply Forall_cons; [exact Hpr|exact I2].
    + change (sbits_of_bytes (p :: ?t)) with (sbits_of_byte p ++ sbits_of_bytes t).
      rewrite (groups_app (Z.to_nat bits) (sbits_of_byte p) _ ppb) by (auto; rewrite sbits_of_byte_length; lia).
      set (G := groups (Z.to_nat bits) (sbits_of_byte p)) in *.
      assert (HG : length G = ppb).
      { unfold G. pose proof (groups_of_bytes bits [p] Hb) as E. cbn [flat_map] in E. rewrite app_nil_r in E.
        unfold sbits_of_bytes in E. cbn [flat_map] in E. rewrite app_nil_r in E. clear E.
        destruct Hb as [<-|[<-|[<-|[]]]]; reflexivity. }
      assert (Hsplit : dl = c ++ r) by (symmetry; apply firstn_skipn).
      rewrite Hsplit at 1 2. rewrite app_length, map_app.
      destruct (Nat.le_gt_cases ppb (length dl)) as [Hge|Hlt].
      * assert (Hc : length c = ppb) by (unfold c; rewrite firstn_length; lia).
        rewrite firstn_app, HG, Hc. replace (ppb + length r - ppb)%nat with (length r) by lia.
        rewrite (firstn_all2 G) by lia. rewrite map_app. f_equal; [|exact I3].
        rewrite Hc in Hpv. rewrite <- HG in Hpv at 1. rewrite firstn_all in Hpv. exact Hpv.
      * assert (Hr0 : r = []) by (unfold r; apply skipn_all2; lia). rewrite Hr0. cbn [length map]. rewrite Nat.add_0_r, !app_nil_r.
        rewrite firstn_app. replace (length c - length G)%nat with 0%nat by lia. rewrite firstn_O, app_nil_r. exact Hpv.
Qed.

Lemma fits_extremes : forallb (fun bits => fits bits 0 && fits bits 255) depths_lt8 = true.
Proof. vm_compute. reflexivity. Qed.

Lemma raise_bits_spec : forall fuel b v b', In b depths_lt8 -> raise_bits fuel b v = Some b' ->
  In b' depths_lt8 /\ b <= b' /\ fits b' v = true.
Proof.
  induction fuel as [|f IH]; intros b v b' Hb H; cbn [raise_bits] in H.
  - destruct (fits b v) eqn:E; [|discriminate]. injection H as <-. repeat split; auto; lia.
  - destruct (fits b v) eqn:E; [injection H as <-; repeat split; auto; lia|].
    destruct (b * 2 =? 8) eqn:E8; [discriminate|]. apply Z.eqb_neq in E8.
    assert (Hb2 : In (b * 2) depths_lt8) by (destruct Hb as [<-|[<-|[<-|[]]]]; cbn in *; auto; lia).
    destruct (IH _ _ _ Hb2 H) as (H1 & H2 & H3). repeat split; auto. destruct Hb as [<-|[<-|[<-|[]]]]; lia.
Qed.

Lemma gray_min_bits_spec data : forall b b', In b depths_lt8 -> bytes_ok data -> gray_min_bits data b = Some b' ->
  In b' depths_lt8 /\ b <= b' /\ forall v, In v data -> fits b' v = true.
Proof.
  induction data as [|x t IH]; intros b b' Hb Hok H; cbn [gray_min_bits] in H.
  - injection H as <-. split; [exact Hb|split; [lia|intros ? []]].
  - apply bytes_ok_cons in Hok. destruct Hok as [Hx Hok].
    destruct ((x =? 0) || (x =? 255)) eqn:E.
    + destruct (IH _ _ Hb Hok H) as (H1 & H2 & H3). split; [exact H1|split; [exact H2|]]. intros v [<-|Hv]; [|auto].
      pose proof fits_extremes as T. rewrite forallb_forall in T. specialize (T b' H1). apply andb_true_iff in T.
      apply orb_true_iff in E. destruct E as [E|E]; apply Z.eqb_eq in E; subst x; tauto.
    + destruct (raise_bits 3 b x) as [b1|] eqn:Er; [|discriminate].
      destruct (raise_bits_spec _ _ _ _ Hb Er) as (R1 & R2 & R3).
      destruct (IH _ _ R1 Hok H) as (H1 & H2 & H3). split; [exact H1|split; [lia|]]. intros v [<-|Hv]; [|auto].
      destruct (fits_spec b1 x R1 Hx) as (_ & _ & Hm). apply (Hm R3); auto.
Qed.

Definition reduce_ctype (c : color_type) (bits : Z) : color_type :=
  match c with
  | Gray (Some trans) =>
      Gray (if trans =? replicate16 3 (trans mod 256 / 2 ^ (8 - bits)) bits then Some (trans mod 256 / 2 ^ (8 - bits)) else None)
  | Gray None => Gray None | RGB key => RGB key | Indexed pal => Indexed pal | GrayAlpha => GrayAlpha | RGBA => RGBA
  end.

Lemma pixel_reduce_gray key bits v : In bits depths_lt8 -> 0 <= v < 256 -> fits bits v = true ->
  wf_ctype (Gray key) 8 ->
  color_of_samples (spec_color_of (reduce_ctype (Gray key) bits)) bits [Z.land v (mask_of bits)]
  = color_of_samples (SGray key) 8 [v].
Proof.
  intros Hb Hv Hf Hwf. destruct (fits_spec bits v Hb Hv) as (Hfit & Hm & Hhi). apply Hfit in Hf.
  set (m := Z.land v (mask_of bits)) in *.
  destruct (rep_spec bits m Hb Hm) as (Hs & Hr & Hinj & _).
  cbn [reduce_ctype spec_color_of]. destruct key as [t|]; cbn [color_of_samples].
  - cbn [wf_ctype] in Hwf. change (2 ^ 8) with 256 in Hwf. rewrite (Z.mod_small t 256) by exact Hwf.
    assert (Hrt : 0 <= t / 2 ^ (8 - bits) < 2 ^ bits).
    { destruct Hb as [<-|[<-|[<-|[]]]]; cbn; split; try (apply Z.div_pos; lia); apply Z.div_lt_upper_bound; lia. }
    set (rt := t / 2 ^ (8 - bits)) in *.
    destruct (rep_spec bits rt Hb Hrt) as (_ & Hrr & _ & E16). rewrite E16.
    unfold key_match. change (2 ^ 8) with 256. rewrite (Z.mod_small t 256) by exact Hwf.
    destruct (Z.eqb_spec t (rep8 bits rt)) as [Et|Ent]; cbn [spec_color_of color_of_samples]; rewrite <- Hs, <- Hf.
    + unfold key_match. rewrite (Z.mod_small rt) by exact Hrt.
      replace (t =? v) with (rt =? m); [reflexivity|]. rewrite Et. symmetry. rewrite Hf at 1. apply Hinj. exact Hrt.
    + destruct (Z.eqb_spec t v) as [Etv|_]; [|reflexivity]. exfalso. apply Ent. subst t.
      destruct (Hhi ltac:(apply Hfit; exact Hf)) as [Hh _]. unfold rt. rewrite Hh. exact Hf.
  - cbn [spec_color_of color_of_samples]. rewrite <- Hs, <- Hf. reflexivity.
Qed.

Lemma Forall2_of_map_eq {X Y Zt} (f : Y -> Zt) (h : X -> Zt) : forall (dl : list X) (Gs : list Y),
  map f Gs = map h dl -> Forall2 (fun v g => f g = h v) dl Gs.
Proof.
  induction dl as [|v t IH]; intros [|g Gs] H; cbn in H; try discriminate; constructor.
  - injection H as H1 _. exact H1.
  - apply IH. injection H as _ H2. exact H2.
Qed.

Lemma line_bytes_sub bits n : In bits depths_lt8 -> 0 <= n -> line_bytes bits n = cdiv n (8 / bits).
Proof. intros Hb Hn. unfold line_bytes, cdiv. destruct Hb as [<-|[<-|[<-|[]]]]; cbn; lia. Qed.

Lemma line_bytes_8 n : 0 <= n -> line_bytes 8 n = n.
Proof. intros Hn. unfold line_bytes, cdiv. lia. Qed.

Lemma pixels_reduce c bits : In bits depths_lt8 -> channels_per_pixel c = 1 -> wf_ctype c 8 ->
  forall (dl : list Z) (Gs : list (list bool)),
  Forall2 (fun v g => sval g = Z.land v (mask_of bits)) dl Gs ->
  (forall g, In g Gs -> length g = Z.to_nat bits) -> bytes_ok dl ->
  (forall v, In v dl -> match c with Indexed pal => Z.of_nat (length pal) <= 2 ^ bits | _ => fits bits v = true end) ->
  Forall2 refines (map (fun x => pixel_color (spec_color_of c) 8 (sbits_of_byte x)) dl)
                  (map (fun g => pixel_color (spec_color_of (reduce_ctype c bits)) bits g) Gs).
Proof.
  intros Hbits Ech Hwf dl Gs HF.
  assert (Hbn : (0 < Z.to_nat bits)%nat) by (destruct Hbits as [<-|[<-|[<-|[]]]]; cbn; lia).
  induction HF as [|v g dl' Gs' Hvg _ IH]; intros HGl Hlok Hguar; cbn [map]; constructor.
  - apply bytes_ok_cons in Hlok. destruct Hlok as [Hv _].
    unfold pixel_color. change (Z.to_nat 8) with 8%nat.
    rewrite (groups_single 8 (sbits_of_byte v)) by (auto; lia). rewrite (groups_single (Z.to_nat bits) g) by (auto; apply HGl; left; reflexivity).
    cbn [map]. rewrite sval_sbits_of_byte by exact Hv. rewrite Hvg.
    specialize (Hguar v (or_introl eq_refl)).
    destruct c as [key| |pal| |]; try (cbn in Ech; lia).
    + intros _. apply pixel_reduce_gray; auto.
    + cbn [reduce_ctype spec_color_of color_of_samples]. unfold rgba8 in *. intros Hsome.
      destruct (nth_error pal (Z.to_nat v)) as [e|] eqn:En; [|exfalso; apply Hsome; reflexivity].
      assert (Hvl : (Z.to_nat v < length pal)%nat) by (apply nth_error_Some; congruence).
      assert (Hm : Z.land v (mask_of bits) = v).
      { unfold mask_of. replace (2 ^ bits - 1) with (Z.ones bits) by (rewrite Z.ones_equiv; lia).
        rewrite Z.land_ones by (destruct Hbits as [<-|[<-|[<-|[]]]]; lia). apply Z.mod_small. unfold byte_ok in Hv. lia. }
      rewrite Hm, En. reflexivity.
  - apply IH; [intros g' Hg'; apply HGl; right; exact Hg'|apply bytes_ok_cons in Hlok; tauto|intros v' Hv'; apply Hguar; right; exact Hv'].
Qed.

Theorem reduced_bit_depth_8_or_less_sem img img' pic : wf img ->
  reduced_bit_depth_8_or_less img = Ok (Some img') -> sem img = Some pic -> sem img' = Some pic /\ wf img'.
Proof.
  intros [Hok Hwf] Hred Hsem. unfold reduced_bit_depth_8_or_less in Hred. cbv zeta in Hred.
  destruct (depth (hdr img) =? 8) eqn:Ed; cbn [negb orb] in Hred; [|discriminate]. apply Z.eqb_eq in Ed.
  destruct (channels img =? 1) eqn:Ech; cbn [negb] in Hred; [|discriminate]. apply Z.eqb_eq in Ech. unfold channels in Ech.
  destruct (sem_some_cut _ _ Hsem) as (Hw & Hh & Hbpp & lines & Hcut).
  assert (Hbpp8 : bpp (hdr img) = 8) by (unfold bpp; rewrite Ed, Ech; lia).
  match type of Hred with (match ?mb with _ => _ end) = _ => destruct mb as [bits|] eqn:Emb; [|discriminate] end.
  rewrite (scan_lines_is_layout img lines Hw Hh Hbpp Hcut) in Hred. cbn [bind] in Hred.
  match type of Hred with context [with_ctype (hdr img) ?c] => change c with (reduce_ctype (ctype (hdr img)) bits) in Hred end.
  remember (reduce_ctype (ctype (hdr img)) bits) as ct' eqn:Hct'.
  set (T := fun l : option Z * Z * list Z => map (fun ch => pack_chunk ch bits (mask_of bits) 8) (chunks (Z.to_nat (8 / bits)) (snd l))).
  assert (Hdata : flat_map (fun l => map (fun ch => pack_chunk ch bits (2 ^ bits - 1) 8) (chunks (Z.to_nat (8 / bits)) (l_data l))) (map to_scanline lines)
                  = concat (map T lines)).
  { rewrite flat_map_concat_map, map_map. reflexivity. }
  rewrite Hdata in Hred. injection Hred as <-.
  (* the depth chosen, and what it guarantees about the samples *)
  assert (Hbits : In bits depths_lt8 /\
                  match ctype (hdr img) with
                  | Indexed pal => (Z.of_nat (length pal) <= 2 ^ bits)
                  | _ => forall v, In v (data img) -> fits bits v = true
                  end).
  { destruct (ctype (hdr img)) as [key| |pal| |] eqn:Ec; try (cbn in Ech; lia).
    - destruct (gray_min_bits_spec (data img) 1 bits ltac:(cbn; auto) Hok Emb) as (G1 & _ & G3). split; auto.
    - destruct (Nat.leb_spec (length pal) 2); [injection Emb as <-; split; [cbn; auto|cbn; lia]|].
      destruct (Nat.leb_spec (length pal) 4); [injection Emb as <-; split; [cbn; auto|cbn; lia]|].
      destruct (Nat.leb_spec (length pal) 16); [injection Emb as <-; split; [cbn; auto|cbn; lia]|discriminate]. }
  destruct Hbits as [Hbits Hguar].
  assert (Hlines : forall l, In l lines -> length (snd l) = Z.to_nat (snd (fst l)) /\ 0 <= snd (fst l) /\ bytes_ok (snd l) /\ (forall v, In v (snd l) -> In v (data img))).
  { intros l Hl. destruct (cut_lines_lengths _ _ _ _ _ _ Hw Hh Hcut l Hl) as [H1 H2]. rewrite Hbpp8, line_bytes_8 in H1 by exact H2.
    destruct (cut_layout_shape _ _ _ Hcut) as [_ Hd0].
    assert (Hin : forall v, In v (snd l) -> In v (data img)).
    { intros v Hv. rewrite Hd0. apply in_concat. exists (snd l). split; [apply in_map; exact Hl|exact Hv]. }
    repeat split; auto. unfold bytes_ok. apply Forall_forall. intros x Hx. eapply bytes_ok_in; [exact Hok|auto]. }
  assert (Hct1 : channels_per_pixel ct' = 1 /\ depth_legal (spec_color_of ct') bits = true).
  { subst ct'. destruct (ctype (hdr img)) as [[k|]| |pal| |]; cbn in Ech; try lia; (split; [reflexivity|]);
      cbn [reduce_ctype spec_color_of depth_legal]; destruct Hbits as [<-|[<-|[<-|[]]]]; reflexivity. }
  destruct Hct1 as [Hct1 Hleg'].
  split.
  - apply (sem_linewise img _ T lines pic); cbn [hdr data width height interlaced depth ctype with_ctype with_depth]; auto.
    + unfold bpp. cbn [depth ctype with_depth with_ctype]. rewrite Hct1. destruct Hbits as [<-|[<-|[<-|[]]]]; lia.
    + intros l Hl _. destruct (Hlines l Hl) as (Hlen & Hn & Hlok & Hlin).
      assert (Hbpp' : bpp (with_depth (with_ctype (hdr img) ct') bits) = bits) by (unfold bpp; cbn [depth ctype with_depth with_ctype]; rewrite Hct1; lia).
      rewrite Hbpp', Hbpp8.
      destruct (pack_line bits Hbits (length (snd l)) (snd l) (le_n _) Hlok) as (P1 & P2 & P3). cbn zeta in P1, P2, P3. fold (T l) in P1, P2, P3.
      split.
      * rewrite line_bytes_sub by auto. rewrite <- (Z2Nat.id (snd (fst l))) at 1 by exact Hn. rewrite <- Hlen, <- P1. lia.
      * rewrite (line_pixels_8 _ _ Hlen). unfold line_pixels. rewrite <- Hlen. rewrite !map_map.
        set (Gs := firstn (length (snd l)) (groups (Z.to_nat bits) (sbits_of_bytes (T l)))) in *.
        pose proof (Forall2_of_map_eq sval (fun v => Z.land v (mask_of bits)) (snd l) Gs P3) as HF.
        assert (HGl : forall g, In g Gs -> length g = Z.to_nat bits).
        { intros g Hg. unfold Gs in Hg. apply In_firstn in Hg. pose proof (groups_lengths (Z.to_nat bits) (sbits_of_bytes (T l))) as GL.
          rewrite Forall_forall in GL. apply GL. exact Hg. }
        rewrite Ed. subst ct'. apply pixels_reduce; auto.
        -- rewrite <- Ed. exact Hwf.
        -- intros v Hv. destruct (ctype (hdr img)); auto.
  - split; cbn [data hdr ctype depth with_ctype with_depth].
    + unfold bytes_ok. apply Forall_forall. intros x Hx. apply in_concat in Hx. destruct Hx as [tl [Htl Hx]].
      apply in_map_iff in Htl. destruct Htl as [l [<- Hl]]. destruct (Hlines l Hl) as (_ & _ & Hlok & _).
      destruct (pack_line bits Hbits (length (snd l)) (snd l) (le_n _) Hlok) as (_ & P2 & _). cbn zeta in P2.
      eapply bytes_ok_in; [exact P2|exact Hx].
    + subst ct'. destruct (ctype (hdr img)) as [[k|]| | | |]; try (cbn in Ech; lia); cbn [reduce_ctype wf_ctype] in *; auto.
      rewrite Ed in Hwf. change (2 ^ 8) with 256 in Hwf. rewrite (Z.mod_small k 256) by exact Hwf.
      destruct (k =? replicate16 3 (k / 2 ^ (8 - bits)) bits); cbn [wf_ctype]; [|exact I].
      destruct Hbits as [<-|[<-|[<-|[]]]]; cbn; split; try (apply Z.div_pos; lia); apply Z.div_lt_upper_bound; lia.
Qed.

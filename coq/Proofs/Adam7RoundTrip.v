(* C18: at the level of the specification, de-interlacing an interlaced image gives back the image, for every
   width and height (pixels abstract: any pixel size). *)
From OxiVerif Require Import Base.Common Spec.Adam7 Model.Types Model.ScanLines Model.Interlace Proofs.InterlaceProofs.
Local Open Scope Z_scope.

Section RT.
Context {A : Type}.

(* the k-th selected element is element first + k*d, as partial functions *)
Lemma nth_error_sel_mod (d r : Z) : (d = 1 \/ d = 2 \/ d = 4 \/ d = 8) -> 0 <= r < d ->
  forall (l : list A) (k : nat) (i : Z), 0 <= i ->
  nth_error (sel (fun x => x mod d =? r) i l) k = nth_error l (Z.to_nat (i + (r - i) mod d + Z.of_nat k * d - i)).
Proof.
  intros Hd Hr. induction l as [|a t IH]; intros k i Hi.
  - cbn [sel]. destruct k; destruct (Z.to_nat _); reflexivity.
  - cbn [sel]. destruct (i mod d =? r) eqn:E.
    + apply Z.eqb_eq in E.
      assert (Hf : i + (r - i) mod d = i) by (destruct Hd as [->|[->|[->| ->]]]; lia).
      destruct k as [|k].
      * rewrite Hf. replace (Z.to_nat (i + Z.of_nat 0 * d - i)) with 0%nat by lia. reflexivity.
      * cbn [nth_error]. rewrite IH by lia.
        assert (Hn : (i + 1) + (r - (i + 1)) mod d = i + d) by (destruct Hd as [->|[->|[->| ->]]]; lia).
        rewrite Hn, Hf.
        replace (Z.to_nat (i + Z.of_nat (S k) * d - i)) with (S (Z.to_nat (i + d + Z.of_nat k * d - (i + 1))))
          by (destruct Hd as [->|[->|[->| ->]]]; lia).
        reflexivity.
    + apply Z.eqb_neq in E. rewrite IH by lia.
      assert (Hn : (i + 1) + (r - (i + 1)) mod d = i + (r - i) mod d) by (destruct Hd as [->|[->|[->| ->]]]; lia).
      assert (Hge : i + 1 <= i + (r - i) mod d) by (destruct Hd as [->|[->|[->| ->]]]; lia).
      rewrite Hn.
      replace (Z.to_nat (i + (r - i) mod d + Z.of_nat k * d - i)) with (S (Z.to_nat (i + (r - i) mod d + Z.of_nat k * d - (i + 1))))
        by (destruct Hd as [->|[->|[->| ->]]]; lia).
      reflexivity.
Qed.

Lemma pass_consts p : In p passes7 ->
  (dx p = 1 \/ dx p = 2 \/ dx p = 4 \/ dx p = 8) /\ 0 <= x0 p < dx p /\ (dy p = 1 \/ dy p = 2 \/ dy p = 4 \/ dy p = 8) /\ 0 <= y0 p < dy p.
Proof. unfold passes7. cbn. intros [<-|[<-|[<-|[<-|[<-|[<-|[<-|[]]]]]]]]; cbn; lia. Qed.

Lemma nth_error_sel_col p (r : list A) (k : nat) : In p passes7 ->
  nth_error (sel (col_in p) 0 r) k = nth_error r (Z.to_nat (x0 p + Z.of_nat k * dx p)).
Proof.
  intros Hp. destruct (pass_consts p Hp) as (Hd & Hr & _ & _). unfold col_in.
  rewrite (nth_error_sel_mod (dx p) (x0 p) Hd Hr r k 0) by lia. rewrite Z.add_0_l, Z.sub_0_r, Z.sub_0_r, Z.mod_small by lia. reflexivity.
Qed.

Lemma nth_error_sel_row p (rows : list A) (k : nat) : In p passes7 ->
  nth_error (sel (row_in p) 0 rows) k = nth_error rows (Z.to_nat (y0 p + Z.of_nat k * dy p)).
Proof.
  intros Hp. destruct (pass_consts p Hp) as (_ & _ & Hd & Hr). unfold row_in.
  rewrite (nth_error_sel_mod (dy p) (y0 p) Hd Hr rows k 0) by lia. rewrite Z.add_0_l, Z.sub_0_r, Z.sub_0_r, Z.mod_small by lia. reflexivity.
Qed.
End RT.

Lemma all_some_nth_error {A} (r : list A) : all_some (map (fun x => nth_error r x) (seq 0 (length r))) = Some r.
Proof.
  assert (G : forall (pre l : list A), all_some (map (fun x => nth_error (pre ++ l) x) (seq (length pre) (length l))) = Some l).
  { intros pre l. revert pre. induction l as [|a t IH]; intros pre; cbn [length seq map all_some]; [reflexivity|].
    rewrite nth_error_app2, Nat.sub_diag by lia. cbn [nth_error].
    specialize (IH (pre ++ [a])). rewrite app_length, Nat.add_1_r, <- app_assoc in IH. cbn [app] in IH. rewrite IH. reflexivity. }
  apply (G [] r).
Qed.


Section RT2.
Context {A : Type}.

(* when every row contributes to the pass, its lines are the selected columns of the selected rows *)
Lemma pass_lines_sel p (rows : list (list A)) : forall y,
  (forall r, In r rows -> nonempty (sel (col_in p) 0 r) = true) ->
  pass_lines p y rows = map (sel (col_in p) 0) (sel (row_in p) y rows).
Proof.
  induction rows as [|r t IH]; intros y Hne; cbn [pass_lines sel map]; [reflexivity|].
  rewrite (Hne r (or_introl eq_refl)), andb_true_r. rewrite IH by (intros r' Hr'; apply Hne; right; exact Hr').
  destruct (row_in p y); reflexivity.
Qed.

Lemma pass_table : forallb (fun b => forallb (fun a => (1 <=? pass_of a b) && (pass_of a b <=? 7)) r8) r8 = true.
Proof. vm_compute. reflexivity. Qed.

Lemma pass_of_range x y : In (pass_of x y) passes7 /\ row_in (pass_of x y) y = true /\ col_in (pass_of x y) x = true.
Proof.
  assert (Hin : In (pass_of x y) passes7).
  { pose proof pass_table as T. rewrite forallb_forall in T. specialize (T (y mod 8) (in_r8 (y mod 8) ltac:(lia))).
    rewrite forallb_forall in T. specialize (T (x mod 8) (in_r8 (x mod 8) ltac:(lia))).
    assert (E : pass_of (x mod 8) (y mod 8) = pass_of x y) by (unfold pass_of; rewrite !Z.mod_mod by lia; reflexivity).
    rewrite E in T. apply andb_true_iff in T. destruct T as [T1 T2]. apply Z.leb_le in T1, T2.
    set (q := pass_of x y) in *. clearbody q. unfold passes7.
    assert (q = 1 \/ q = 2 \/ q = 3 \/ q = 4 \/ q = 5 \/ q = 6 \/ q = 7) as [->|[->|[->|[->|[->|[->| ->]]]]]] by lia; cbn; tauto. }
  split; [exact Hin|]. pose proof (route_spec (pass_of x y) x y Hin) as R. rewrite route_is_matrix, Z.eqb_refl in R.
  symmetry in R. apply andb_true_iff in R. exact R.
Qed.

Lemma nth_error_passes {B} (f : Z -> B) p : In p passes7 -> nth_error (map f passes7) (Z.to_nat (p - 1)) = Some (f p).
Proof. unfold passes7. cbn. intros [<-|[<-|[<-|[<-|[<-|[<-|[<-|[]]]]]]]]; reflexivity. Qed.

(* the pixel the specification reads back at (x, y) is the pixel that was there *)
Theorem spec_pixel_at_interlace (rows : list (list A)) (w : nat) x y :
  (forall r, In r rows -> length r = w) -> 0 <= x < Z.of_nat w -> 0 <= y ->
  spec_pixel_at (spec_interlace rows) x y =
  match nth_error rows (Z.to_nat y) with Some r => nth_error r (Z.to_nat x) | None => None end.
Proof.
  intros Hw Hx Hy. unfold spec_pixel_at, spec_interlace.
  destruct (pass_of_range x y) as (Hp & Hrow & Hcol). set (p := pass_of x y) in *.
  destruct (pass_consts p Hp) as (Hdx & Hx0 & Hdy & Hy0).
  rewrite (nth_error_passes (fun p => pass_lines p 0 rows) p Hp).
  unfold row_in in Hrow. unfold col_in in Hcol. apply Z.eqb_eq in Hrow, Hcol.
  assert (Hwx : x0 p <= x) by (rewrite <- Hcol; apply Z.mod_le; lia).
  rewrite pass_lines_sel.
  - rewrite nth_error_map, nth_error_sel_row by exact Hp.
    assert (Ey : y0 p + Z.of_nat (Z.to_nat ((y - y0 p) / dy p)) * dy p = y).
    { assert (y0 p <= y) by (rewrite <- Hrow; apply Z.mod_le; lia).
      rewrite Z2Nat.id by (apply Z.div_pos; lia). destruct Hdy as [E|[E|[E|E]]]; rewrite E in *; lia. }
    rewrite Ey. destruct (nth_error rows (Z.to_nat y)) as [r|]; cbn [option_map]; [|reflexivity].
    rewrite nth_error_sel_col by exact Hp.
    assert (Ex : x0 p + Z.of_nat (Z.to_nat ((x - x0 p) / dx p)) * dx p = x).
    { rewrite Z2Nat.id by (apply Z.div_pos; lia). destruct Hdx as [E|[E|[E|E]]]; rewrite E in *; lia. }
    rewrite Ex. reflexivity.
  - intros r Hr. assert (E : nth_error (sel (col_in p) 0 r) 0 <> None).
    { rewrite nth_error_sel_col by exact Hp. apply nth_error_Some. rewrite (Hw r Hr). lia. }
    destruct (sel (col_in p) 0 r); [exfalso; apply E; reflexivity|reflexivity].
Qed.

(* de-interlacing the interlaced image gives the image back *)
Theorem spec_deinterlace_interlace (rows : list (list A)) (w h : Z) :
  0 <= w -> 0 <= h -> length rows = Z.to_nat h -> (forall r, In r rows -> length r = Z.to_nat w) ->
  spec_deinterlace w h (spec_interlace rows) = Some rows.
Proof.
  intros Hw Hh Hlen Hrows. unfold spec_deinterlace.
  assert (E : map (fun y => all_some (map (fun x => spec_pixel_at (spec_interlace rows) (Z.of_nat x) (Z.of_nat y)) (seq 0 (Z.to_nat w)))) (seq 0 (Z.to_nat h))
              = map (fun y => match nth_error rows y with Some r => Some r | None => None end) (seq 0 (Z.to_nat h))).
  { apply map_ext_in. intros y Hy. apply in_seq in Hy.
    destruct (nth_error rows y) as [r|] eqn:Er; [|apply nth_error_None in Er; lia].
    rewrite <- (all_some_nth_error r). rewrite (Hrows r (nth_error_In _ _ Er)). f_equal. apply map_ext_in. intros x Hx. apply in_seq in Hx.
    rewrite (spec_pixel_at_interlace rows (Z.to_nat w)) by (auto; lia). rewrite !Nat2Z.id, Er. reflexivity. }
  rewrite E, <- Hlen.
  assert (E2 : map (fun y => match nth_error rows y with Some r => Some r | None => None end) (seq 0 (length rows)) = map (fun y => nth_error rows y) (seq 0 (length rows))).
  { apply map_ext. intros y. destruct (nth_error rows y); reflexivity. }
  rewrite E2. apply all_some_nth_error.
Qed.
End RT2.

From OxiVerif Require Import Base.Common Model.Types Model.ScanLines Model.Palette Proofs.CoocMatrix.
From OxiVerif Require Import Proofs.BattiatoTable Proofs.BattiatoSteps.
Local Open Scope Z_scope.

Lemma nth_set_nth_other {A} (l : list A) i k x d : k <> i -> nth k (set_nth i x l) d = nth k l d.
Proof. intros H. rewrite nth_set_nth. destruct (Nat.eqb_spec k i); [contradiction|reflexivity]. Qed.

(* ---------------------------------------------------------------- one edge *)
Lemma battiato_step_inv n s done i j s' : binv n s done -> 0 <= i < Z.of_nat n -> 0 <= j < Z.of_nat n -> i <> j ->
  battiato_step s (i, j) = Ok s' -> binv n s' ((i, j) :: done).
Proof.
  intros I Hi Hj Hij H. pose proof I as [L M X D R S F0 Hh]. unfold battiato_step in H. unfold vx_get in H.
  change (fst (nthZ (b_vx s) i (0, 0))) with (stt (b_vx s) i) in H. change (fst (nthZ (b_vx s) j (0, 0))) with (stt (b_vx s) j) in H.
  change (snd (nthZ (b_vx s) i (0, 0))) with (chn (b_vx s) i) in H. change (snd (nthZ (b_vx s) j (0, 0))) with (chn (b_vx s) j) in H.
  set (vx := b_vx s) in *. set (chains := b_chains s) in *.
  destruct (S i Hi) as [Si|[Si|Si]]; destruct (S j Hj) as [Sj|[Sj|Sj]]; rewrite Si, Sj in H; cbn [Z.eqb Pos.eqb andb] in H.
  - (* white, white *) injection H as <-. apply step_new_chain; auto.
  - (* white, red *)
    destruct (chain_head (nthZ chains (chn vx j) [])) as [hd|] eqn:Eh; [|discriminate]. injection H as <-.
    apply (step_attach n s done i j _ (i, j)); auto. destruct (hd =? j); [left|right]; reflexivity.
  - (* white, black *) injection H as <-. constructor; auto. intros a b [[= <- <-]|Hin]; [repeat split; try lia; right; right; exact Sj|apply Hh; exact Hin].
  - (* red, white *)
    destruct (chain_head (nthZ chains (chn vx i) [])) as [hd|] eqn:Eh; [|discriminate]. injection H as <-.
    apply (step_attach n s done j i _ (i, j)); auto. destruct (hd =? i); [left|right]; reflexivity.
  - (* red, red *)
    destruct (Z.eqb_spec (chn vx i) (chn vx j)) as [Ec|Nc]; cbn [negb] in H.
    + injection H as <-. constructor; auto. intros a b [[= <- <-]|Hin]; [repeat split; try lia; left; unfold same; fold vx; lia|apply Hh; exact Hin].
    + set (vx1 := set_state (set_state vx i 2) j 2) in *.
      assert (L0 : length (set_state vx i 2) = n) by (rewrite set_state_length; exact L).
      assert (L1 : length vx1 = n) by (unfold vx1; rewrite set_state_length; exact L0).
      assert (F1 : forall v, 0 <= v -> stt vx1 v = (if (v =? i) || (v =? j) then 2 else stt vx v) /\ chn vx1 v = chn vx v).
      { intros v Hv. unfold vx1. rewrite stt_set_state, chn_set_state by lia. rewrite stt_set_state, chn_set_state by lia.
        destruct (v =? j), (v =? i); split; reflexivity. }
      assert (F1' : forall v, 0 <= v -> stt vx1 v = (if (v =? j) || (v =? i) then 2 else stt vx v) /\ chn vx1 v = chn vx v).
      { intros v Hv. destruct (F1 v Hv) as [-> ->]. rewrite orb_comm. split; reflexivity. }
      change (snd (nthZ vx1 ?x (0, 0))) with (chn vx1 x) in H.
      destruct (Z.ltb_spec (chn vx i) (chn vx j)) as [Hlt|Hge].
      * (* a = i, b = j *)
        cbv beta iota in H. change (snd (nthZ vx1 i (0, 0))) with (chn vx1 i) in H. change (snd (nthZ vx1 j (0, 0))) with (chn vx1 j) in H.
        destruct (F1 i ltac:(lia)) as [_ Eci]. destruct (F1 j ltac:(lia)) as [_ Ecj]. rewrite Eci, Ecj in H.
        pose proof (X i Hi ltac:(lia)) as Xi. pose proof (X j Hj ltac:(lia)) as Xj. unfold lenZ in Xi, Xj.
        assert (Ena : nthZ (set_nth (Z.to_nat (chn vx j)) [] chains) (chn vx i) [] = nthZ chains (chn vx i) []).
        { unfold nthZ. apply nth_set_nth_other. lia. }
        rewrite Ena in H.
        destruct (chain_head (nthZ chains (chn vx i) [])) as [ha|] eqn:Eha; [|discriminate].
        destruct (chain_head (nthZ chains (chn vx j) [])) as [hb|] eqn:Ehb; [|discriminate]. injection H as <-.
        apply (step_merge n s done i j vx1 _ (i, j) I Hi Hj Si Sj ltac:(fold vx; lia) (or_introl eq_refl) L1 F1).
        destruct ((ha =? i) && (hb =? j)); [left; reflexivity|]. destruct (ha =? i); [right; left; reflexivity|]. destruct (hb =? j); [right; right; left; reflexivity|right; right; right; reflexivity].
      * (* a = j, b = i *)
        cbv beta iota in H. change (snd (nthZ vx1 i (0, 0))) with (chn vx1 i) in H. change (snd (nthZ vx1 j (0, 0))) with (chn vx1 j) in H.
        destruct (F1 i ltac:(lia)) as [_ Eci]. destruct (F1 j ltac:(lia)) as [_ Ecj]. rewrite Eci, Ecj in H.
        pose proof (X i Hi ltac:(lia)) as Xi. pose proof (X j Hj ltac:(lia)) as Xj. unfold lenZ in Xi, Xj.
        assert (Ena : nthZ (set_nth (Z.to_nat (chn vx i)) [] chains) (chn vx j) [] = nthZ chains (chn vx j) []).
        { unfold nthZ. apply nth_set_nth_other. lia. }
        rewrite Ena in H.
        destruct (chain_head (nthZ chains (chn vx j) [])) as [ha|] eqn:Eha; [|discriminate].
        destruct (chain_head (nthZ chains (chn vx i) [])) as [hb|] eqn:Ehb; [|discriminate]. injection H as <-.
        apply (step_merge n s done j i vx1 _ (i, j) I Hj Hi Sj Si ltac:(fold vx; lia) (or_intror eq_refl) L1 F1').
        destruct ((ha =? j) && (hb =? i)); [left; reflexivity|]. destruct (ha =? j); [right; left; reflexivity|]. destruct (hb =? i); [right; right; left; reflexivity|right; right; right; reflexivity].
  - (* red, black *) injection H as <-. constructor; auto. intros a b [[= <- <-]|Hin]; [repeat split; try lia; right; right; exact Sj|apply Hh; exact Hin].
  - (* black, _ *) injection H as <-. constructor; auto. intros a b [[= <- <-]|Hin]; [repeat split; try lia; right; left; exact Si|apply Hh; exact Hin].
  - injection H as <-. constructor; auto. intros a b [[= <- <-]|Hin]; [repeat split; try lia; right; left; exact Si|apply Hh; exact Hin].
  - injection H as <-. constructor; auto. intros a b [[= <- <-]|Hin]; [repeat split; try lia; right; left; exact Si|apply Hh; exact Hin].
Qed.

(* ---------------------------------------------------------------- the loop over the edges *)
Definition edge_ok (n : nat) (e : Z * Z) : Prop := 0 <= fst e < Z.of_nat n /\ 0 <= snd e < Z.of_nat n /\ fst e <> snd e.

Lemma battiato_loop_inv n : forall edges s done sf, binv n s done -> Forall (edge_ok n) edges ->
  battiato_loop n s edges = Ok sf ->
  exists done', binv n sf done' /\ (forall e, In e done -> In e done') /\
    ((exists c0 rest, b_chains sf = c0 :: rest /\ length c0 = n) \/ (forall e, In e edges -> In e done')).
Proof.
  induction edges as [|[i j] t IH]; intros s done sf I He H; cbn [battiato_loop] in H.
  - injection H as <-. exists done. split; [exact I|]. split; [auto|]. right. intros e [].
  - apply Forall_cons_iff in He. destruct He as [(Hi & Hj & Hij) Ht]. cbn [fst snd] in *.
    destruct (battiato_step s (i, j)) as [s1|?|?] eqn:Es; cbn [bind] in H; try discriminate.
    pose proof (battiato_step_inv n s done i j s1 I Hi Hj Hij Es) as I1.
    destruct (b_chains s1) as [|c0 rest] eqn:Ec; [discriminate|].
    destruct (Nat.eqb_spec (length c0) n) as [El|Nl].
    + injection H as <-. exists ((i, j) :: done). split; [exact I1|]. split; [intros e He; right; exact He|]. left. exists c0, rest. split; assumption.
    + destruct (IH s1 ((i, j) :: done) sf I1 Ht H) as (done' & I' & Hsub & Hres). exists done'. split; [exact I'|]. split; [intros e He; apply Hsub; right; exact He|].
      destruct Hres as [Hearly|Hall]; [left; exact Hearly|right]. intros e [<-|He]; [apply Hsub; left; reflexivity|apply Hall; exact He].
Qed.

Lemma nthZ_repeat {A} (x : A) n v : nthZ (repeat x n) v x = x.
Proof. unfold nthZ. destruct (Nat.lt_ge_cases (Z.to_nat v) n); [apply nth_repeat'; assumption|apply nth_overflow; rewrite repeat_length; lia]. Qed.

Lemma binv_init n : binv n {| b_chains := []; b_vx := repeat (0, 0) n |} [].
Proof.
  assert (S0 : forall v, stt (repeat (0, 0) n) v = 0) by (intros v; unfold stt; rewrite nthZ_repeat; reflexivity).
  constructor; cbn [b_chains b_vx].
  - apply repeat_length.
  - intros k v Hk. cbn in Hk. lia.
  - intros v _ H. rewrite S0 in H. lia.
  - intros k. destruct k; constructor.
  - intros k Hk. cbn in Hk. lia.
  - intros v _. left. apply S0.
  - intros H. contradiction.
  - intros a b [].
Qed.

(* a duplicate-free list of n numbers below n contains all of them *)
Lemma nodup_full (l : list Z) n : NoDup l -> (forall x, In x l -> 0 <= x < Z.of_nat n) ->
  (length l <= n)%nat /\ (length l = n -> forall v, 0 <= v < Z.of_nat n -> In v l).
Proof.
  intros Hnd Hr. set (all := map Z.of_nat (seq 0 n)).
  assert (Hincl : incl l all).
  { intros x Hx. specialize (Hr x Hx). unfold all. apply in_map_iff. exists (Z.to_nat x). split; [lia|apply in_seq; lia]. }
  assert (Hla : length all = n) by (unfold all; rewrite map_length, seq_length; reflexivity).
  split; [rewrite <- Hla; apply NoDup_incl_length; assumption|].
  intros Hl v Hv. apply (NoDup_length_incl (l := l) (l' := all) Hnd); [lia|exact Hincl|]. unfold all. apply in_map_iff. exists (Z.to_nat v). split; [lia|apply in_seq; lia].
Qed.

Lemma reds_pos vx c : (0 < reds vx c)%nat -> exists r, In r c /\ stt vx r = 1.
Proof.
  unfold reds. intros H. destruct (List.filter (fun v => stt vx v =? 1) c) as [|r t] eqn:E; [cbn in H; lia|].
  assert (Hin : In r (List.filter (fun v => stt vx v =? 1) c)) by (rewrite E; left; reflexivity).
  apply filter_In in Hin. destruct Hin as [Hin Hr]. exists r. split; [exact Hin|apply Z.eqb_eq; exact Hr].
Qed.

Theorem battiato_all_indices n edges c0 : (2 <= n)%nat ->
  (forall a b, In (a, b) edges <-> 0 <= a < b /\ b < Z.of_nat n) ->
  battiato_reindex n edges = Ok c0 ->
  NoDup c0 /\ (length c0 <= n)%nat /\ forall v, 0 <= v < Z.of_nat n -> In v c0.
Proof.
  intros Hn Hedges H. unfold battiato_reindex in H.
  destruct (battiato_loop n _ edges) as [sf|?|?] eqn:El; cbn [bind] in H; try discriminate.
  destruct (battiato_loop_inv n edges _ [] sf (binv_init n) ltac:(apply Forall_forall; intros [a b] Hab; apply Hedges in Hab; unfold edge_ok; cbn [fst snd]; lia) El)
    as (done' & I & _ & Hres).
  destruct (b_chains sf) as [|c rest] eqn:Ec; [discriminate|]. injection H as <-.
  pose proof I as [L M X D R S F0 Hh]. rewrite Ec in *.
  assert (Hk0 : (0 < length (c :: rest))%nat) by (cbn; lia).
  assert (Hc0 : nth 0 (c :: rest) [] = c) by reflexivity.
  assert (Hmem : forall v, In v c <-> 0 <= v < Z.of_nat n /\ 1 <= stt (b_vx sf) v /\ chn (b_vx sf) v = 0) by (intros v; rewrite <- Hc0; apply (M 0%nat v Hk0)).
  assert (Hnd : NoDup c) by (rewrite <- Hc0; apply D).
  destruct (nodup_full c n Hnd ltac:(intros x Hx; apply Hmem in Hx; tauto)) as [Hle Hfull].
  split; [exact Hnd|]. split; [exact Hle|].
  destruct Hres as [(c' & rest' & [= <- <-] & Hlen)|Hall]; [apply Hfull; exact Hlen|].
  (* all pairs have been seen *)
  assert (Hpair : forall a b, 0 <= a < Z.of_nat n -> 0 <= b < Z.of_nat n -> a <> b ->
            same (b_vx sf) a b \/ stt (b_vx sf) a = 2 \/ stt (b_vx sf) b = 2).
  { intros a b Ha Hb Hab. destruct (Z_lt_dec a b).
    - destruct (Hh a b (Hall (a, b) ltac:(apply Hedges; lia))) as (_ & _ & Hc). exact Hc.
    - destruct (Hh b a (Hall (b, a) ltac:(apply Hedges; lia))) as (_ & _ & [(A1 & A2 & A3)|[B|B]]); [left; repeat split; auto|right; right; exact B|right; left; exact B]. }
  assert (Hcne : c <> []) by (rewrite <- Hc0; apply F0; discriminate).
  assert (Hr0 : exists r0, In r0 c /\ stt (b_vx sf) r0 = 1).
  { apply reds_pos. rewrite <- Hc0. rewrite (R 0%nat Hk0); [lia|rewrite Hc0; exact Hcne]. }
  destruct Hr0 as (r0 & Hr0in & Hr0red). pose proof (proj1 (Hmem r0) Hr0in) as (Rr0 & _ & Cr0).
  intros v Hv. apply Hmem. split; [exact Hv|].
  destruct (Z.eq_dec v r0) as [->|Nv]; [split; [lia|exact Cr0]|].
  destruct (Hpair v r0 Hv Rr0 Nv) as [(A1 & A2 & A3)|[B|B]]; [split; [exact A1|congruence]| |lia].
  (* v is black: its chain has a red member, which is a chain-mate of r0 *)
  split; [lia|]. pose proof (X v Hv ltac:(lia)) as Xv. unfold lenZ in Xv.
  set (k := Z.to_nat (chn (b_vx sf) v)). assert (Hk : (k < length (c :: rest))%nat) by (unfold k; lia).
  assert (Hvk : In v (nth k (c :: rest) [])) by (apply (M k v Hk); repeat split; try lia; unfold k; lia).
  assert (Hne : nth k (c :: rest) [] <> []) by (intros E; rewrite E in Hvk; destruct Hvk).
  destruct (reds_pos (b_vx sf) (nth k (c :: rest) [])) as (rk & Hrkin & Hrkred); [rewrite (R k Hk Hne); lia|].
  apply (M k rk Hk) in Hrkin. destruct Hrkin as (Rrk & _ & Crk).
  destruct (Z.eq_dec rk r0) as [->|Nrk]; [unfold k in Crk; lia|].
  destruct (Hpair rk r0 Rrk Rr0 Nrk) as [(A1 & A2 & A3)|[B2|B2]]; [unfold k in Crk; lia|lia|lia].
Qed.

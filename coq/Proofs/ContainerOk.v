(* The container side conditions of the file-level theorems, derived from the input: what from_slice collects from a byte string
   shorter than 2^31 - 2000 bytes and what optimize_png writes back satisfy container_ok. *)
From OxiVerif Require Import Base.Common Base.Crc32 Spec.Filter Spec.Adam7 Spec.Sem Spec.Decode Spec.DecodeFile
  Model.Types Model.Options Model.Headers Model.ScanLines Model.Filters Model.PngData Model.Evaluate Model.Optimize
  Proofs.Bridge Proofs.LiftReductions Proofs.LiftColor Proofs.HeaderProofs Proofs.RobustProofs Proofs.ApngProofs Proofs.OutputProofs Proofs.OutputDecode
  Proofs.LiftAlpha Proofs.InputParse Proofs.NoPanicParse Proofs.PipelineLossless Proofs.EmittedStream Proofs.FileLevel Proofs.FileToFile.
Local Open Scope Z_scope.

Definition name_ok (nm : cname) : Prop :=
  length nm = 4%nat /\ bytes_ok nm /\ nm <> name_IEND /\ nm <> name_PLTE /\ nm <> name_tRNS.

Definition chunk_ok (N : Z) (c : chunk) : Prop := name_ok (c_name c) /\ lenZ (c_data c) <= N.
Definition frame_ok (N : Z) (f : frame) : Prop := lenZ (f_data f) <= N.

Lemma parse_next_chunk_name rest fx c rest' : bytes_ok rest -> parse_next_chunk rest fx = Ok (Some (c, rest')) ->
  length (c_name c) = 4%nat /\ bytes_ok (c_name c) /\ c_name c <> name_IEND.
Proof.
  unfold parse_next_chunk. intros Hb H.
  destruct (Nat.ltb_spec (length rest) 4); [discriminate|].
  destruct (Z.ltb_spec (lenZ rest) (12 + be32_of rest)) as [|Hfit]; [discriminate|].
  destruct (cname_eqb (firstn 4 (skipn 4 rest)) name_IEND) eqn:Ee; [discriminate|]. destruct (negb fx && _); [discriminate|].
  assert (Ec : c_name c = firstn 4 (skipn 4 rest)) by (injection H as <- _; reflexivity). rewrite Ec.
  pose proof (be32_of_nonneg rest Hb). unfold lenZ in Hfit.
  split; [rewrite firstn_length, skipn_length; lia|]. split; [apply bytes_ok_firstn; apply bytes_ok_skipn; exact Hb|].
  intros E. rewrite E in Ee. discriminate.
Qed.

Definition st_ok (N : Z) (st : fs_state) : Prop :=
  Forall (chunk_ok N) (fs_aux st) /\ Forall (frame_ok N) (fs_frames st) /\ lenZ (fs_idat st) <= N.

Lemma st_ok_mono N N' st : N <= N' -> st_ok N st -> st_ok N' st.
Proof.
  intros HN (A & F & I). split; [|split; [|lia]].
  - eapply Forall_impl; [|exact A]. intros c [Hn Hl]. split; [exact Hn|lia].
  - eapply Forall_impl; [|exact F]. unfold frame_ok. intros f Hl. lia.
Qed.

Lemma from_slice_step_ok o st c st1 N : st_ok N st -> 0 <= N ->
  length (c_name c) = 4%nat -> bytes_ok (c_name c) -> c_name c <> name_IEND ->
  from_slice_step o st c = Ok st1 -> st_ok (N + lenZ (c_data c)) st1.
Proof.
  intros (A & F & I) HN Hl Hb He H. unfold from_slice_step in H. cbv zeta in H. set (D := lenZ (c_data c)) in *.
  assert (HD : 0 <= D) by (unfold D, lenZ; lia).
  assert (A' : Forall (chunk_ok (N + D)) (fs_aux st)) by (eapply Forall_impl; [|exact A]; intros x [Hn Hx]; split; [exact Hn|lia]).
  assert (F' : Forall (frame_ok (N + D)) (fs_frames st)) by (eapply Forall_impl; [|exact F]; unfold frame_ok; intros x Hx; lia).
  destruct (cname_eqb (c_name c) name_IDAT) eqn:E1.
  { injection H as <-. unfold st_ok. cbn [fs_aux fs_frames fs_idat]. split; [|split; [exact F'|]].
    - destruct (fs_idat st); [|exact A']. constructor; [|exact A']. apply list_eqb_Z_spec in E1. split; [|cbn; lia].
      rewrite E1 in *. repeat split; auto; discriminate.
    - unfold D, lenZ in *. rewrite app_length. lia. }
  destruct (cname_eqb (c_name c) name_IHDR) eqn:E2; [injection H as <-; unfold st_ok; cbn [fs_aux fs_frames fs_idat]; split; [exact A'|split; [exact F'|lia]]|].
  destruct (cname_eqb (c_name c) name_PLTE) eqn:E3; [injection H as <-; unfold st_ok; cbn [fs_aux fs_frames fs_idat]; split; [exact A'|split; [exact F'|lia]]|].
  destruct (cname_eqb (c_name c) name_tRNS) eqn:E4; [injection H as <-; unfold st_ok; cbn [fs_aux fs_frames fs_idat]; split; [exact A'|split; [exact F'|lia]]|].
  assert (Hname : name_ok (c_name c)).
  { repeat split; auto; intros E; rewrite E in *; discriminate. }
  assert (Hc : chunk_ok (N + D) c) by (split; [exact Hname|unfold D; lia]).
  assert (Hkeep : st_ok (N + D) st) by (split; [exact A'|split; [exact F'|lia]]).
  destruct (strip_keep (strip o) (c_name c)); [|injection H as <-; exact Hkeep].
  destruct (_ && negb _); [injection H as <-; exact Hkeep|].
  destruct (is_c2pa (c_name c) (c_data c)); [destruct (strip_is_none (strip o)); [injection H as <-; exact Hkeep|discriminate]|].
  destruct (cname_eqb (c_name c) name_fcTL || cname_eqb (c_name c) name_fdAT).
  - destruct (length (c_data c) <? 4)%nat eqn:E5; [discriminate|]. destruct (negb (be32_of (c_data c) =? fs_seq st)); [discriminate|].
    destruct (cname_eqb (c_name c) name_fcTL && negb match fs_idat st with [] => true | _ => false end).
    + destruct (frame_from_fctl (c_data c)) as [f|?|?] eqn:Ef; cbn [bind] in H; try discriminate. injection H as <-.
      unfold st_ok. cbn [fs_aux fs_frames fs_idat]. split; [exact A'|]. split; [|lia]. constructor; [|exact F'].
      unfold frame_from_fctl in Ef. destruct (length (c_data c) <? 26)%nat; [discriminate|]. injection Ef as <-. unfold frame_ok. cbn. lia.
    + destruct (cname_eqb (c_name c) name_fdAT).
      * assert (Hdd : lenZ (skipn 4 (c_data c)) <= D) by (unfold D, lenZ; rewrite skipn_length; lia).
        remember (skipn 4 (c_data c)) as dd eqn:Edd. clear Edd.
        destruct (push_fdat (fs_frames st) dd) as [fr|] eqn:Ep; [|discriminate]. injection H as <-.
        unfold st_ok. cbn [fs_aux fs_frames fs_idat]. split; [exact A'|]. split; [|lia]. unfold push_fdat in Ep. destruct (fs_frames st) as [|f t]; [discriminate|]. injection Ep as <-.
        apply Forall_cons_iff in F. destruct F as [Hf Ht]. constructor; [|eapply Forall_impl; [|exact Ht]; unfold frame_ok; intros x Hx; lia].
        unfold frame_ok in *. cbn [with_fdata f_data]. unfold lenZ in *. rewrite app_length. lia.
      * injection H as <-. unfold st_ok. cbn [fs_aux fs_frames fs_idat]. split; [constructor; [exact Hc|exact A']|split; [exact F'|lia]].
  - injection H as <-. unfold st_ok. cbn [fs_aux fs_frames fs_idat]. split; [constructor; [exact Hc|exact A']|split; [exact F'|lia]].
Qed.

Lemma from_slice_loop_ok o : forall fuel rest st st' N, bytes_ok rest -> st_ok N st -> 0 <= N ->
  from_slice_loop fuel o rest st = Ok st' -> st_ok (N + lenZ rest) st'.
Proof.
  induction fuel as [|f IH]; intros rest st st' N Hb Hs HN H; [discriminate|]. cbn [from_slice_loop] in H.
  destruct (parse_next_chunk rest (fix_errors o)) as [[[c rest']|]|?|?] eqn:E; cbn [bind] in H; try discriminate.
  - destruct (from_slice_step o st c) as [st1|?|?] eqn:Es; cbn [bind] in H; try discriminate.
    destruct (parse_next_chunk_data _ _ _ _ Hb E) as (Hd & Hb' & Hlen).
    destruct (parse_next_chunk_name _ _ _ _ Hb E) as (Hn1 & Hn2 & Hn3).
    pose proof (from_slice_step_ok o st c st1 N Hs HN Hn1 Hn2 Hn3 Es) as Hs1.
    pose proof (IH rest' st1 st' (N + lenZ (c_data c)) Hb' Hs1 ltac:(unfold lenZ; lia) H) as Hf.
    eapply st_ok_mono; [|exact Hf]. unfold lenZ. lia.
  - injection H as <-. eapply st_ok_mono; [|exact Hs]. unfold lenZ. lia.
Qed.

(* ---------------------------------------------------------------- the parsed PngData *)
Definition png_ok (N : Z) (p : pngdata) : Prop :=
  Forall (chunk_ok N) (aux_chunks p) /\ Forall (frame_ok N) (frames p) /\ lenZ (idat_data p) <= N.

Lemma be32_of_lt l : bytes_ok l -> be32_of l < 2 ^ 32.
Proof.
  intros H. unfold be32_of. destruct l as [|a [|b [|c0 [|d t]]]]; try (cbn; lia).
  apply bytes_ok_cons in H. destruct H as [Ha H]. apply bytes_ok_cons in H. destruct H as [Hb H].
  apply bytes_ok_cons in H. destruct H as [Hc H]. apply bytes_ok_cons in H. destruct H as [Hd H].
  unfold be32, byte_ok in *. change (2 ^ 32) with 4294967296. lia.
Qed.

Theorem from_slice_png_ok e o bytes p : bytes_ok bytes -> from_slice e bytes o = Ok p ->
  png_ok (lenZ bytes) p /\ 0 <= width (hdr (raw p)) < 2 ^ 32 /\ 0 <= height (hdr (raw p)) < 2 ^ 32.
Proof.
  intros Hok H. unfold from_slice in H. destruct (length bytes <? 8)%nat; [discriminate|]. destruct (negb _); [discriminate|].
  assert (Hsk : bytes_ok (skipn 8 bytes)) by (apply bytes_ok_skipn; exact Hok).
  match type of H with bind ?X _ = _ => destruct X as [st|?|?] eqn:Eloop end; cbn [bind] in H; try discriminate.
  assert (Hst0 : st_ok 0 {| fs_idat := []; fs_ihdr := None; fs_plte := None; fs_trns := None; fs_aux := []; fs_frames := []; fs_seq := 0 |})
    by (split; [constructor|split; [constructor|cbn; lia]]).
  pose proof (from_slice_loop_ok o _ _ _ _ 0 Hsk Hst0 ltac:(lia) Eloop) as (A & F & I).
  destruct (loop_facts o _ _ _ _ Hsk Eloop) as [Hi _]. specialize (Hi ltac:(intros ih [=])).
  assert (Hlen : 0 + lenZ (skipn 8 bytes) <= lenZ bytes) by (unfold lenZ; rewrite skipn_length; lia).
  destruct (fs_idat st) as [|i0 it] eqn:Eidat; [discriminate|].
  destruct (fs_ihdr st) as [ih|] eqn:Eih; [|discriminate].
  destruct (parse_ihdr_chunk ih (fs_plte st) (fs_trns st)) as [hd|?|?] eqn:Ehd; cbn [bind] in H; try discriminate.
  destruct (png_image_new e hd (i0 :: it)) as [img|?|?] eqn:Eimg; cbn [bind] in H; try discriminate. injection H as <-.
  assert (Hhdr : hdr img = hd).
  { unfold png_image_new in Eimg. destruct ((width hd =? 0) || (height hd =? 0)); [discriminate|]. destruct (_ <? _); [discriminate|].
    destruct (z_inflate e _ _); cbn [bind] in Eimg; try discriminate. destruct (negb _); [discriminate|].
    destruct (unfilter_image _); cbn [bind] in Eimg; try discriminate. injection Eimg as <-. reflexivity. }
  destruct (parse_ihdr_dims _ _ _ _ Ehd) as [Ew Eh]. pose proof (Hi ih Eih) as Hihok.
  unfold png_ok. cbn [raw aux_chunks frames idat_data]. rewrite Hhdr, Ew, Eh. split; [|split].
  - split; [|split].
    + apply Forall_rev. eapply Forall_impl; [|exact A]. intros c [Hn Hl]. split; [exact Hn|lia].
    + apply Forall_rev. eapply Forall_impl; [|exact F]. unfold frame_ok. intros f Hl. lia.
    + lia.
  - split; [apply be32_of_nonneg; exact Hihok|apply be32_of_lt; exact Hihok].
  - split; [apply be32_of_nonneg; apply bytes_ok_skipn; exact Hihok|apply be32_of_lt; apply bytes_ok_skipn; exact Hihok].
Qed.

(* ---------------------------------------------------------------- preprocess / postprocess keep the chunk facts *)
Lemma set_nth_forall {A} (P : A -> Prop) l i x : Forall P l -> P x -> Forall P (set_nth i x l).
Proof. intros Hl Hx. revert i. induction Hl as [|a t Ha Ht IH]; intros [|i]; cbn [set_nth]; try constructor; auto. Qed.

Lemma Forall_firstn' {A} (P : A -> Prop) n l : Forall P l -> Forall P (firstn n l).
Proof. intros H. apply Forall_forall. intros x Hx. rewrite Forall_forall in H. apply H. eapply In_firstn; eauto. Qed.
Lemma Forall_skipn'' {A} (P : A -> Prop) n l : Forall P l -> Forall P (skipn n l).
Proof. intros H. apply Forall_forall. intros x Hx. rewrite Forall_forall in H. apply H. eapply In_skipn; eauto. Qed.

Lemma preprocess_chunks_ok e aux o N : 0 <= N -> Forall (chunk_ok N) aux -> Forall (chunk_ok (N + 5)) (fst (preprocess_chunks e aux o)).
Proof.
  intros HN H. assert (H' : Forall (chunk_ok (N + 5)) aux) by (eapply Forall_impl; [|exact H]; intros c [Hn Hl]; split; [exact Hn|lia]).
  unfold preprocess_chunks.
  assert (G : forall x : list chunk * bool, Forall (chunk_ok (N + 5)) (fst x) ->
            Forall (chunk_ok (N + 5)) (fst (let '(aux1, allow_gray) := x in
               (aux1, if has_chunk name_acTL aux1 then set_reductions (if negb allow_gray && grayscale_reduction o then set_reductions o (interlace o) (bit_depth_reduction o) (color_type_reduction o) (palette_reduction o) false else o) None false false false false
                      else if negb allow_gray && grayscale_reduction o then set_reductions o (interlace o) (bit_depth_reduction o) (color_type_reduction o) (palette_reduction o) false else o)))).
  { intros [a g] Ha. exact Ha. }
  match goal with |- Forall _ (fst (let '(aux1, allow_gray) := ?X in _)) => apply (G X) end.
  destruct (chunk_position name_iCCP aux 0) as [idx|]; [|exact H'].
  destruct (_ && has_chunk name_sRGB aux).
  - cbn [fst]. unfold remove_nth_chunk. apply Forall_app. split; [apply Forall_firstn'|apply Forall_skipn'']; exact H'.
  - destruct (nth_error aux idx) as [iccp|] eqn:En; [|exact H'].
    destruct (extract_icc e iccp) as [icc|]; [|exact H'].
    match goal with |- context [if ?b then srgb_rendering_intent icc else None] => destruct (if b then srgb_rendering_intent icc else None) as [i|] end.
    + cbn [fst]. apply set_nth_forall; [exact H'|]. split; [repeat split; try discriminate; cbn; repeat constructor; unfold byte_ok; lia|cbn; lia].
    + destruct (idat_recoding o); [|exact H'].
      destruct (make_iccp e icc (deflate o) (Some (lenZ (c_data iccp) - 1))) as [nc|?|?] eqn:Em; try exact H'.
      cbn [fst]. apply set_nth_forall; [exact H'|]. unfold make_iccp in Em.
      destruct (deflate_capped e (deflate o) icc (Some (lenZ (c_data iccp) - 1))) as [cc|?|?] eqn:Ed; cbn [bind] in Em; try discriminate. injection Em as <-.
      unfold deflate_capped in Ed. destruct (Z.ltb_spec (lenZ (c_data iccp) - 1) (lenZ (z_deflate e (deflate o) icc))); [discriminate|]. injection Ed as <-.
      assert (Hic : chunk_ok N iccp) by (rewrite Forall_forall in H; apply H; eapply nth_error_In; eauto). destruct Hic as [_ Hl].
      split; [repeat split; try discriminate; cbn; repeat constructor; unfold byte_ok; lia|]. cbn [c_data app]. unfold lenZ in *. cbn [length]. lia.
Qed.

Lemma postprocess_chunks_ok aux hd orig N : Forall (chunk_ok N) aux -> Forall (chunk_ok N) (postprocess_chunks aux hd orig).
Proof.
  intros H. unfold postprocess_chunks.
  assert (G : forall f (l : list chunk), Forall (chunk_ok N) l -> Forall (chunk_ok N) (List.filter f l)).
  { intros f l Hl. apply Forall_forall. intros c Hc. apply filter_In in Hc. rewrite Forall_forall in Hl. apply Hl. tauto. }
  destruct (negb _ || negb _); destruct (negb (Bool.eqb _ _)); auto.
Qed.

(* ---------------------------------------------------------------- split_idat only regroups the non-IDAT chunks *)
Lemma split_idat_in : forall l cur part c, In part (split_idat l cur) -> In c part ->
  (In c cur \/ (In c l /\ cname_eqb (c_name c) name_IDAT = false)).
Proof.
  induction l as [|a t IH]; intros cur part c Hp Hc; cbn [split_idat] in Hp.
  - destruct Hp as [<-|[]]. left. apply in_rev. exact Hc.
  - destruct (cname_eqb (c_name a) name_IDAT) eqn:E.
    + destruct Hp as [<-|Hp]; [left; apply in_rev; exact Hc|]. destruct (IH [] part c Hp Hc) as [[]|[H1 H2]]. right. split; [right; exact H1|exact H2].
    + destruct (IH (a :: cur) part c Hp Hc) as [[<-|H1]|[H1 H2]]; [right; split; [left; reflexivity|exact E]|left; exact H1|right; split; [right; exact H1|exact H2]].
Qed.

(* ---------------------------------------------------------------- the side conditions for a PngData with good parts *)
Lemma chunk_ok_wf N c : chunk_ok N c -> N < 2 ^ 31 -> chunk_wf (as_pair c) /\ not_iend (as_pair c) /\
  (cname_eqb (c_name c) name_IDAT = false -> not_key (as_pair c)).
Proof.
  intros [(H1 & H2 & H3 & H4 & H5) Hl] HN. unfold chunk_wf, not_iend, not_key, as_pair, named. cbn [fst snd]. repeat split; auto; try lia.
  - destruct (list_eqb Z.eqb (c_name c) spec_PLTE) eqn:E; [apply list_eqb_Z_spec in E; contradiction|reflexivity].
  - destruct (list_eqb Z.eqb (c_name c) spec_tRNS) eqn:E; [apply list_eqb_Z_spec in E; contradiction|reflexivity].
Qed.

Lemma frame_chunks_ok N fs : Forall (frame_ok N) fs -> N + 4 < 2 ^ 31 -> forall s,
  Forall (fun c => chunk_wf c /\ not_iend c /\ not_key c) (frame_chunk_list fs s).
Proof.
  intros H HN. induction H as [|f t Hf _ IH]; intros s; cbn [frame_chunk_list]; [constructor|].
  constructor; [|constructor; [|apply IH]].
  - unfold chunk_wf, not_iend, not_key, named. cbn [fst snd]. repeat split; try reflexivity; try discriminate;
      try (repeat constructor; unfold byte_ok; lia); try (unfold fctl_data, lenZ; rewrite !app_length; cbn [length to_be32 to_be16]; lia).
  - unfold chunk_wf, not_iend, not_key, named. cbn [fst snd]. repeat split; try reflexivity; try discriminate;
      try (repeat constructor; unfold byte_ok; lia); try (unfold fdat_data, frame_ok in *; unfold lenZ in *; rewrite app_length; cbn [length to_be32]; change (2 ^ 31) with 2147483648 in *; lia).
Qed.

Lemma key_chunks_ok hd : wf_ctype (ctype hd) (depth hd) ->
  Forall (fun c => chunk_wf c /\ not_iend c) (key_chunks hd).
Proof.
  intros Hwf. unfold key_chunks.
  assert (G : forall l : list rgba8, length (flat_map (fun c : rgba8 => let '(r, g, b, _) := c in [r; g; b]) l) = (3 * length l)%nat).
  { induction l as [|[[[? ?] ?] ?] t IH]; [reflexivity|]. cbn [flat_map length app]. rewrite IH. lia. }
  destruct (ctype hd) as [[k|]|[[[r g] b]|]|pal| |]; cbn [wf_ctype] in Hwf; repeat constructor;
    unfold chunk_wf, not_iend; cbn [fst snd]; try reflexivity; try discriminate; try (repeat constructor; unfold byte_ok; lia).
  - destruct Hwf as [_ Hl]. unfold lenZ. rewrite G. change (2 ^ 31) with 2147483648. lia.
  - destruct Hwf as [_ Hl]. destruct (rposition_alpha pal 0 None) as [last|]; repeat constructor;
      unfold chunk_wf, not_iend; cbn [fst snd]; try reflexivity; try discriminate; try (repeat constructor; unfold byte_ok; lia).
    unfold lenZ. rewrite map_length, firstn_length. change (2 ^ 31) with 2147483648. lia.
Qed.

Lemma legal_depth_le16 c d : depth_legal (spec_color_of c) d = true -> 1 <= d <= 16.
Proof. destruct c; cbn [spec_color_of depth_legal]; intros H; repeat (apply orb_true_iff in H; destruct H as [H|H]); apply Z.eqb_eq in H; lia. Qed.

Theorem container_ok_of_parts N p : png_ok N p -> N + 4 < 2 ^ 31 ->
  0 <= width (hdr (raw p)) < 2 ^ 32 -> 0 <= height (hdr (raw p)) < 2 ^ 32 ->
  wf (raw p) -> depth_legal (spec_color_of (ctype (hdr (raw p)))) (depth (hdr (raw p))) = true ->
  container_ok p.
Proof.
  intros (A & F & I) HN Hw Hh [_ Hwfc] Hlegal.
  assert (HN' : N < 2 ^ 31) by lia.
  set (parts := split_idat (aux_chunks p) []).
  set (aux_pre := match parts with x :: _ => x | [] => [] end). set (aux_post := match parts with _ :: t => t | [] => [] end).
  assert (Hpre : forall c, In c aux_pre -> chunk_ok N c /\ cname_eqb (c_name c) name_IDAT = false).
  { intros c Hc. assert (Hp : In aux_pre parts \/ aux_pre = []) by (unfold aux_pre; destruct parts; [right; reflexivity|left; left; reflexivity]).
    destruct Hp as [Hp|E]; [|rewrite E in Hc; destruct Hc]. destruct (split_idat_in _ _ _ _ Hp Hc) as [[]|[H1 H2]]. rewrite Forall_forall in A. split; [apply A; exact H1|exact H2]. }
  assert (Hpost : forall c, In c (concat aux_post) -> chunk_ok N c /\ cname_eqb (c_name c) name_IDAT = false).
  { intros c Hc. apply in_concat in Hc. destruct Hc as (part & Hpart & Hc).
    assert (Hp : In part parts) by (unfold aux_post in Hpart; destruct parts; [destruct Hpart|right; exact Hpart]).
    destruct (split_idat_in _ _ _ _ Hp Hc) as [[]|[H1 H2]]. rewrite Forall_forall in A. split; [apply A; exact H1|exact H2]. }
  assert (Gaux : forall (l : list chunk), (forall c, In c l -> chunk_ok N c /\ cname_eqb (c_name c) name_IDAT = false) ->
            Forall (fun c => chunk_wf c /\ not_iend c /\ not_key c) (map as_pair l)).
  { intros l Hl. apply Forall_forall. intros x Hx. apply in_map_iff in Hx. destruct Hx as (c & <- & Hc). destruct (Hl c Hc) as [Hk Hi].
    destruct (chunk_ok_wf N c Hk HN') as (W1 & W2 & W3). auto. }
  assert (Gf : forall f, forall c, In c (List.filter f aux_pre) -> chunk_ok N c /\ cname_eqb (c_name c) name_IDAT = false).
  { intros f c Hc. apply filter_In in Hc. apply Hpre. tauto. }
  pose proof (Gaux _ (Gf (fun c => negb (after_plte c)))) as G1.
  pose proof (Gaux _ (Gf (write_special (hdr (raw p))))) as G2.
  pose proof (Gaux _ Hpost) as G3.
  pose proof (frame_chunks_ok N (frames p) F HN (lenZ (List.filter (fun c => cname_eqb (c_name c) name_fcTL) (List.filter (write_special (hdr (raw p))) aux_pre)))) as G4.
  pose proof (key_chunks_ok (hdr (raw p)) Hwfc) as G5.
  assert (Hidat : chunk_wf (name_IDAT, idat_data p) /\ not_iend (name_IDAT, idat_data p)).
  { unfold chunk_wf, not_iend. cbn [fst snd]. repeat split; try reflexivity; try discriminate; [repeat constructor; unfold byte_ok; lia|lia]. }
  assert (Hihdr : forall d, lenZ d < 2 ^ 31 -> chunk_wf (name_IHDR, d) /\ not_iend (name_IHDR, d)).
  { intros d Hd. unfold chunk_wf, not_iend. cbn [fst snd]. repeat split; try reflexivity; try discriminate; [repeat constructor; unfold byte_ok; lia|exact Hd]. }
  assert (Hbody : Forall (fun c => chunk_wf c /\ not_iend c) (output_body p)).
  { unfold output_body. fold parts aux_pre aux_post. repeat (apply Forall_app; split); try (constructor; [|constructor]).
    - apply Hihdr. unfold lenZ. rewrite !app_length. cbn [length to_be32]. change (2 ^ 31) with 2147483648. lia.
    - eapply Forall_impl; [|exact G1]. cbn beta. tauto.
    - exact G5.
    - eapply Forall_impl; [|exact G2]. cbn beta. tauto.
    - exact Hidat.
    - eapply Forall_impl; [|exact G4]. cbn beta. tauto.
    - eapply Forall_impl; [|exact G3]. cbn beta. tauto. }
  split; [eapply Forall_impl; [|exact Hbody]; cbn beta; tauto|]. split; [eapply Forall_impl; [|exact Hbody]; cbn beta; tauto|].
  split.
  { split; [exact Hw|]. split; [exact Hh|].
    pose proof (legal_depth_le16 _ _ Hlegal) as Hd16.
    destruct (ctype (hdr (raw p))) as [[k|]|[[[r g] b]|]|pal| |]; cbn [wf_ctype] in Hwfc; auto.
    - assert (2 ^ depth (hdr (raw p)) <= 2 ^ 16) by (apply Z.pow_le_mono_r; lia). change (2 ^ 16) with 65536 in *. lia.
    - assert (2 ^ depth (hdr (raw p)) <= 2 ^ 16) by (apply Z.pow_le_mono_r; lia). change (2 ^ 16) with 65536 in *. lia. }
  split; [pose proof (legal_depth_le16 _ _ Hlegal); lia|].
  unfold aux_written, output_post. fold parts aux_pre aux_post. repeat (apply Forall_app; split).
  - eapply Forall_impl; [|exact G1]. cbn beta. tauto.
  - eapply Forall_impl; [|exact G2]. cbn beta. tauto.
  - eapply Forall_impl; [|exact G4]. cbn beta. tauto.
  - eapply Forall_impl; [|exact G3]. cbn beta. tauto.
Qed.

(* ---------------------------------------------------------------- optimize_png = build a PngData, then serialise it *)
Definition optimize_png_data (e : env) (p : pngdata) (o : options) : res pngdata :=
  let '(aux, o') := preprocess_chunks e (aux_chunks p) o in
  let p0 := {| raw := raw p; idat_data := idat_data p; aux_chunks := aux; frames := frames p |} in
  let max_size := if force o' then None else Some (estimated_output_size (raw p0) (idat_data p0)) in
  do r <- optimize_raw e o' (raw p0) max_size;
  match r with
  | Some res_ =>
      let p1 := {| raw := c_image res_; idat_data := c_cdata res_; aux_chunks := aux; frames := frames p0 |} in
      do fr <- recompress_frames e o' p1 (c_filter res_);
      Ok {| raw := c_image res_; idat_data := c_cdata res_;
            aux_chunks := postprocess_chunks aux (hdr (c_image res_)) (hdr (raw p0)); frames := fr |}
  | None => Ok p0
  end.

Lemma optimize_png_split e p o : optimize_png e p o = do p' <- optimize_png_data e p o; Ok (output p').
Proof.
  unfold optimize_png, optimize_png_data. destruct (preprocess_chunks e (aux_chunks p) o) as [aux o']. cbn [raw idat_data frames].
  destruct (optimize_raw e o' (raw p) _) as [[c|]|?|?]; cbn [bind]; try reflexivity.
  all: try (destruct (recompress_frames e o' _ (c_filter c)) as [fr|?|?]; reflexivity).
Qed.

Lemma sem_dims img pic : sem img = Some pic -> pic_w pic = width (hdr img) /\ pic_h pic = height (hdr img).
Proof.
  unfold sem, spec_sem. destruct (negb _); [discriminate|]. destruct (spec_image_pixels _ _ _ _ _); [|discriminate].
  destruct (all_some _); [|discriminate]. intros [= <-]. split; reflexivity.
Qed.

(* the PngData that optimize_png serialises satisfies the container side conditions *)
Theorem optimize_png_data_container e o p p' N M pic :
  png_ok N p -> 0 <= N -> N + 5 <= M -> M + 4 < 2 ^ 31 -> (forall d s, lenZ (z_deflate e d s) <= M) ->
  0 <= width (hdr (raw p)) < 2 ^ 32 -> 0 <= height (hdr (raw p)) < 2 ^ 32 ->
  scale_16 o = false -> means pic (raw p) ->
  optimize_png_data e p o = Ok p' -> container_ok p'.
Proof.
  intros (A & F & I) HN HM HM2 Hdefl Hw Hh Hs Hm H. unfold optimize_png_data in H.
  destruct (preprocess_keeps_lossy e (aux_chunks p) o) as [_ Es].
  pose proof (preprocess_chunks_ok e (aux_chunks p) o N HN A) as Apre.
  destruct (preprocess_chunks e (aux_chunks p) o) as [aux o'] eqn:Epre. cbn [fst snd] in *. cbn [raw idat_data aux_chunks frames] in H.
  assert (Aaux : Forall (chunk_ok M) aux) by (eapply Forall_impl; [|exact Apre]; intros c [Hn Hl]; split; [exact Hn|lia]).
  assert (Ffr : Forall (frame_ok M) (frames p)) by (eapply Forall_impl; [|exact F]; unfold frame_ok; intros f Hl; lia).
  destruct (optimize_raw e o' (raw p) _) as [r|?|?] eqn:Er; cbn [bind] in H; try discriminate.
  destruct Hm as [Hwf Hsem]. destruct (sem_dims _ _ Hsem) as [Dw Dh].
  destruct r as [c|].
  - match type of H with bind ?X _ = _ => destruct X as [fr|?|?] eqn:Efr end; cbn [bind] in H; try discriminate. injection H as <-.
    assert (Ham : ameans pic (raw p)) by (exists pic; split; [split; assumption|apply pic_aequiv_refl]).
    destruct (optimize_raw_alpha_partial e o' (raw p) _ c pic ltac:(congruence) Ham Er) as (pic1 & [Hwf1 Hsem1] & A1).
    destruct (sem_dims _ _ Hsem1) as [Dw1 Dh1].
    assert (Edim : pic_w pic1 = pic_w pic /\ pic_h pic1 = pic_h pic).
    { unfold pic_aequiv, picture_alpha_equivb in A1. apply andb_true_iff in A1. destruct A1 as [A1 _]. apply andb_true_iff in A1. destruct A1 as [B1 B2].
      apply Z.eqb_eq in B1, B2. auto. }
    destruct (optimize_raw_provenance_gen e o' (raw p) _ c Er) as [Hc (al & filtered & _ & _ & Hd)]. rewrite Hc in Hd. destruct Hd as [d Hd].
    apply (container_ok_of_parts M); cbn [raw idat_data aux_chunks frames].
    + unfold png_ok. cbn [raw idat_data aux_chunks frames]. split; [apply postprocess_chunks_ok; exact Aaux|]. split; [|rewrite Hd; apply Hdefl].
      pose proof (recompress_frames_top e o' _ (c_filter c) fr Efr) as F2. cbn [frames] in F2.
      clear -F2 Ffr. induction F2 as [|a b ta tb [_ Hab] _ IH]; [constructor|]. apply Forall_cons_iff in Ffr. destruct Ffr as [Ha Hta].
      constructor; [|apply IH; exact Hta]. unfold frame_ok in *. destruct Hab as [->|Hlt]; lia.
    + exact HM2.
    + lia.
    + lia.
    + exact Hwf1.
    + apply (sem_some_legal _ _ Hsem1).
  - injection H as <-. apply (container_ok_of_parts M); cbn [raw idat_data aux_chunks frames]; auto; try lia.
    + unfold png_ok. cbn [raw idat_data aux_chunks frames]. split; [exact Aaux|split; [exact Ffr|lia]].
    + apply (sem_some_legal _ _ Hsem).
Qed.

(* ---------------------------------------------------------------- decoding what optimize_png_data builds *)
Theorem optimize_png_data_decodes e o (inflate : list Z -> option (list Z)) p p' pic :
  optimize_alpha o = false -> scale_16 o = false -> means pic (raw p) ->
  (forall d s, inflate (z_deflate e d s) = Some s) ->
  (exists stream, inflate (idat_data p) = Some stream /\
     spec_decode_stream (width (hdr (raw p))) (height (hdr (raw p))) (spec_color_of (ctype (hdr (raw p)))) (depth (hdr (raw p)))
                        (interlaced (hdr (raw p))) stream = Some pic) ->
  optimize_png_data e p o = Ok p' -> container_ok p' -> spec_decode_png inflate (output p') = Some pic.
Proof.
  intros Ha Hs Hm Hz (stream & Hinf & Hdec) H (C1 & C2 & C3 & C4 & C5). unfold optimize_png_data in H.
  destruct (preprocess_keeps_lossy e (aux_chunks p) o) as [Ea Es].
  destruct (preprocess_chunks e (aux_chunks p) o) as [aux o'] eqn:Epre. cbn [snd] in Ea, Es. cbn [raw idat_data aux_chunks frames] in H.
  destruct (optimize_raw e o' (raw p) _) as [r|?|?] eqn:Er; cbn [bind] in H; try discriminate.
  destruct r as [c|].
  - match type of H with bind ?X _ = _ => destruct X as [fr|?|?] eqn:Efr end; cbn [bind] in H; try discriminate. injection H as <-.
    eapply (emitted_file_decodes_partial e o' (raw p)); eauto; congruence.
  - injection H as <-. rewrite (output_decodes inflate _ C1 C2 C3 C4 C5). cbn [raw idat_data]. rewrite Hinf. exact Hdec.
Qed.

Theorem optimize_png_data_decodes_alpha e o (inflate : list Z -> option (list Z)) p p' pic :
  scale_16 o = false -> means pic (raw p) ->
  (forall d s, inflate (z_deflate e d s) = Some s) ->
  (exists stream, inflate (idat_data p) = Some stream /\
     spec_decode_stream (width (hdr (raw p))) (height (hdr (raw p))) (spec_color_of (ctype (hdr (raw p)))) (depth (hdr (raw p)))
                        (interlaced (hdr (raw p))) stream = Some pic) ->
  optimize_png_data e p o = Ok p' -> container_ok p' ->
  exists pic', spec_decode_png inflate (output p') = Some pic' /\ pic_aequiv pic pic'.
Proof.
  intros Hs Hm Hz (stream & Hinf & Hdec) H (C1 & C2 & C3 & C4 & C5). unfold optimize_png_data in H.
  destruct (preprocess_keeps_lossy e (aux_chunks p) o) as [Ea Es].
  destruct (preprocess_chunks e (aux_chunks p) o) as [aux o'] eqn:Epre. cbn [snd] in Ea, Es. cbn [raw idat_data aux_chunks frames] in H.
  destruct (optimize_raw e o' (raw p) _) as [r|?|?] eqn:Er; cbn [bind] in H; try discriminate.
  destruct r as [c|].
  - match type of H with bind ?X _ = _ => destruct X as [fr|?|?] eqn:Efr end; cbn [bind] in H; try discriminate. injection H as <-.
    assert (Ham : ameans pic (raw p)) by (exists pic; split; [exact Hm|apply pic_aequiv_refl]).
    destruct (emitted_stream_alpha_partial e o' (raw p) _ c pic ltac:(congruence) Ham Er) as (d & st & pic' & Ed & Hd & Hq).
    exists pic'. split; [|exact Hq]. rewrite (output_decodes inflate _ C1 C2 C3 C4 C5). cbn [raw idat_data]. rewrite Ed, Hz. exact Hd.
  - injection H as <-. exists pic. split; [|apply pic_aequiv_refl].
    rewrite (output_decodes inflate _ C1 C2 C3 C4 C5). cbn [raw idat_data]. rewrite Hinf. exact Hdec.
Qed.

(* ---------------------------------------------------------------- file to file, container conditions derived from the input *)
Theorem optimize_from_memory_lossless e o (inflate : list Z -> option (list Z)) bytes out pic nm ih rest M :
  optimize_alpha o = false -> scale_16 o = false ->
  bytes_ok bytes -> lenZ bytes + 5 <= M -> M + 4 < 2 ^ 31 -> (forall d s, lenZ (z_deflate e d s) <= M) ->
  spec_parse_png bytes = Some ((nm, ih) :: rest) ->
  spec_decode_chunks inflate ((nm, ih) :: rest) = Some pic ->
  List.filter (named spec_IHDR) rest = [] ->
  (length (List.filter (named spec_PLTE) rest) <= 1)%nat -> (length (List.filter (named spec_tRNS) rest) <= 1)%nat ->
  (forall x n y, z_inflate e x n = Ok y -> inflate x = Some y /\ bytes_ok y) ->
  (forall d s, inflate (z_deflate e d s) = Some s) ->
  (forall p, from_slice e bytes o = Ok p ->
     spec_raw_size (width (hdr (raw p))) (height (hdr (raw p))) (bpp (hdr (raw p))) (interlaced (hdr (raw p))) true <= usize_max /\
     wf_ctype (ctype (hdr (raw p))) (depth (hdr (raw p)))) ->
  optimize_from_memory e o bytes = Ok out ->
  spec_decode_png inflate out = Some pic.
Proof.
  intros Ha Hs Hok HM HM2 Hdefl Hparse Hdec H1 H2 H3 Hz Hzd Hside H. unfold optimize_from_memory in H.
  destruct (from_slice e bytes o) as [p|?|?] eqn:Ep; cbn [bind] in H; try discriminate.
  rewrite optimize_png_split in H. destruct (optimize_png_data e p o) as [p'|?|?] eqn:Eo; cbn [bind] in H; try discriminate.
  destruct (is_fully_optimized _ _ o); injection H as <-; [unfold spec_decode_png; rewrite Hparse; exact Hdec|].
  destruct (Hside p eq_refl) as [Hu Hw].
  destruct (from_slice_means e o inflate bytes p pic nm ih rest Hok Ep Hparse Hdec H1 H2 H3 Hz Hu Hw) as (Hwf & Hsem & Hstream).
  destruct (from_slice_png_ok e o bytes p Hok Ep) as (Hpok & Hrw & Hrh).
  assert (Hm : means pic (raw p)) by (split; assumption).
  pose proof (optimize_png_data_container e o p p' (lenZ bytes) M pic Hpok ltac:(unfold lenZ; lia) HM HM2 Hdefl Hrw Hrh Hs Hm Eo) as Hc.
  eapply (optimize_png_data_decodes e o inflate p p'); eauto.
Qed.

Theorem optimize_from_memory_alpha e o (inflate : list Z -> option (list Z)) bytes out pic nm ih rest M :
  scale_16 o = false ->
  bytes_ok bytes -> lenZ bytes + 5 <= M -> M + 4 < 2 ^ 31 -> (forall d s, lenZ (z_deflate e d s) <= M) ->
  spec_parse_png bytes = Some ((nm, ih) :: rest) ->
  spec_decode_chunks inflate ((nm, ih) :: rest) = Some pic ->
  List.filter (named spec_IHDR) rest = [] ->
  (length (List.filter (named spec_PLTE) rest) <= 1)%nat -> (length (List.filter (named spec_tRNS) rest) <= 1)%nat ->
  (forall x n y, z_inflate e x n = Ok y -> inflate x = Some y /\ bytes_ok y) ->
  (forall d s, inflate (z_deflate e d s) = Some s) ->
  (forall p, from_slice e bytes o = Ok p ->
     spec_raw_size (width (hdr (raw p))) (height (hdr (raw p))) (bpp (hdr (raw p))) (interlaced (hdr (raw p))) true <= usize_max /\
     wf_ctype (ctype (hdr (raw p))) (depth (hdr (raw p)))) ->
  optimize_from_memory e o bytes = Ok out ->
  exists pic', spec_decode_png inflate out = Some pic' /\ pic_aequiv pic pic'.
Proof.
  intros Hs Hok HM HM2 Hdefl Hparse Hdec H1 H2 H3 Hz Hzd Hside H. unfold optimize_from_memory in H.
  destruct (from_slice e bytes o) as [p|?|?] eqn:Ep; cbn [bind] in H; try discriminate.
  rewrite optimize_png_split in H. destruct (optimize_png_data e p o) as [p'|?|?] eqn:Eo; cbn [bind] in H; try discriminate.
  destruct (is_fully_optimized _ _ o); injection H as <-.
  { exists pic. split; [unfold spec_decode_png; rewrite Hparse; exact Hdec|apply pic_aequiv_refl]. }
  destruct (Hside p eq_refl) as [Hu Hw].
  destruct (from_slice_means e o inflate bytes p pic nm ih rest Hok Ep Hparse Hdec H1 H2 H3 Hz Hu Hw) as (Hwf & Hsem & Hstream).
  destruct (from_slice_png_ok e o bytes p Hok Ep) as (Hpok & Hrw & Hrh).
  assert (Hm : means pic (raw p)) by (split; assumption).
  pose proof (optimize_png_data_container e o p p' (lenZ bytes) M pic Hpok ltac:(unfold lenZ; lia) HM HM2 Hdefl Hrw Hrh Hs Hm Eo) as Hc.
  eapply (optimize_png_data_decodes_alpha e o inflate p p'); eauto.
Qed.

(* ---------------------------------------------------------------- the raw-image entry point (C11) *)
Theorem raw_create_decodes e o (inflate : list Z -> option (list Z)) r out pic N M :
  scale_16 o = false -> wf (ri_png r) -> sem (ri_png r) = Some pic ->
  0 <= width (hdr (ri_png r)) < 2 ^ 32 -> 0 <= height (hdr (ri_png r)) < 2 ^ 32 ->
  Forall (chunk_ok N) (ri_aux r) -> 0 <= N -> N + 5 <= M -> M + 4 < 2 ^ 31 -> (forall d s, lenZ (z_deflate e d s) <= M) ->
  (forall d s, inflate (z_deflate e d s) = Some s) ->
  raw_create e r o = Ok out ->
  exists pic', spec_decode_png inflate out = Some pic' /\ pic_aequiv pic pic' /\ (optimize_alpha o = false -> pic' = pic).
Proof.
  intros Hs Hwf Hsem Hw Hh Haux HN HM HM2 Hdefl Hz H. unfold raw_create in H.
  set (aux0 := List.filter (fun c => strip_keep (strip o) (c_name c)) (ri_aux r)) in *.
  assert (A0 : Forall (chunk_ok N) aux0).
  { apply Forall_forall. intros c Hc. apply filter_In in Hc. rewrite Forall_forall in Haux. apply Haux. tauto. }
  destruct (preprocess_keeps_lossy e aux0 o) as [Ea Es].
  pose proof (preprocess_chunks_ok e aux0 o N HN A0) as Apre.
  destruct (preprocess_chunks e aux0 o) as [aux o'] eqn:Epre. cbn [fst snd] in *.
  destruct (optimize_raw e o' (ri_png r) None) as [[c|]|?|?] eqn:Er; cbn [bind] in H; try discriminate. injection H as <-.
  assert (Aaux : Forall (chunk_ok M) aux) by (eapply Forall_impl; [|exact Apre]; intros x [Hn Hl]; split; [exact Hn|lia]).
  assert (Hm : means pic (ri_png r)) by (split; assumption).
  assert (Ham : ameans pic (ri_png r)) by (exists pic; split; [exact Hm|apply pic_aequiv_refl]).
  destruct (optimize_raw_alpha_partial e o' (ri_png r) None c pic ltac:(congruence) Ham Er) as (pic1 & [Hwf1 Hsem1] & A1).
  destruct (sem_dims _ _ Hsem) as [Dw Dh]. destruct (sem_dims _ _ Hsem1) as [Dw1 Dh1].
  assert (Edim : pic_w pic1 = pic_w pic /\ pic_h pic1 = pic_h pic).
  { unfold pic_aequiv, picture_alpha_equivb in A1. apply andb_true_iff in A1. destruct A1 as [A1' _]. apply andb_true_iff in A1'. destruct A1' as [B1 B2].
    apply Z.eqb_eq in B1, B2. auto. }
  destruct (optimize_raw_provenance_gen e o' (ri_png r) None c Er) as [Hc (al & filtered & _ & _ & Hd)]. rewrite Hc in Hd. destruct Hd as [d Hd].
  set (p' := {| raw := c_image c; idat_data := c_cdata c; aux_chunks := postprocess_chunks aux (hdr (c_image c)) (hdr (ri_png r)); frames := [] |}).
  assert (Hcont : container_ok p').
  { apply (container_ok_of_parts M); unfold p'; cbn [raw idat_data aux_chunks frames].
    - unfold png_ok. cbn [raw idat_data aux_chunks frames]. split; [apply postprocess_chunks_ok; exact Aaux|]. split; [constructor|rewrite Hd; apply Hdefl].
    - exact HM2.
    - lia.
    - lia.
    - exact Hwf1.
    - apply (sem_some_legal _ _ Hsem1). }
  destruct Hcont as (C1 & C2 & C3 & C4 & C5).
  destruct (emitted_stream_alpha_partial e o' (ri_png r) None c pic ltac:(congruence) Ham Er) as (d2 & st & pic' & Ed & Hdd & Hq).
  exists pic'. split; [rewrite (output_decodes inflate p' C1 C2 C3 C4 C5); unfold p'; cbn [raw idat_data]; rewrite Ed, Hz; exact Hdd|]. split; [exact Hq|].
  intros Hna. destruct (emitted_stream_lossless_partial e o' (ri_png r) None c pic ltac:(congruence) ltac:(congruence) Hm Er) as (d3 & st3 & Ed3 & Hd3).
  rewrite Ed in Ed3. assert (Est : st = st3) by (pose proof (Hz d2 st) as Z1; pose proof (Hz d3 st3) as Z2; rewrite Ed3 in Z1; rewrite Z2 in Z1; congruence).
  subst st3. congruence.
Qed.

(* Proofs about the row-filter model (C19, used by C01/C03). *)
From OxiVerif Require Import Base.Common Spec.Filter Model.Types Model.ScanLines Model.Filters.

Lemma paeth_is_spec a b c : paeth_predictor a b c = paeth_spec a b c.
Proof. reflexivity. Qed.

Lemma paeth_spec_range a b c : byte_ok a -> byte_ok b -> byte_ok c -> byte_ok (paeth_spec a b c).
Proof.
  unfold paeth_spec, byte_ok. intros. destruct (_ && _); [|destruct (_ <=? _)]; lia.
Qed.

Lemma paeth_spec_0_b_0 b : 0 <= b -> paeth_spec 0 b 0 = b.
Proof.
  intros H. unfold paeth_spec. cbv zeta.
  destruct (Z.abs (0 + b - 0 - 0) <=? Z.abs (0 + b - 0 - b)) eqn:E1;
  destruct (Z.abs (0 + b - 0 - 0) <=? Z.abs (0 + b - 0 - 0)) eqn:E2;
  destruct (Z.abs (0 + b - 0 - b) <=? Z.abs (0 + b - 0 - 0)) eqn:E3; cbn [andb]; lia.
Qed.

(* ------------------------------------------------------------------ spec round trip *)
Lemma roundtrip_go ft bpp line : forall rp rq prev, bytes_ok line -> length prev = length line ->
  recon_go ft bpp rp rq (filt_go ft bpp rp rq line prev) prev = line.
Proof.
  induction line as [|x l IH]; intros rp rq [|u p] Hok Hlen; simpl in *; try reflexivity; try discriminate.
  apply bytes_ok_cons in Hok. destruct Hok as [Hx Hl]. unfold byte_ok in Hx.
  assert (E : (((x - pred_spec ft (back bpp rp) u (back bpp rq)) mod 256 + pred_spec ft (back bpp rp) u (back bpp rq)) mod 256) = x).
  { generalize (pred_spec ft (back bpp rp) u (back bpp rq)). intros q. lia. }
  rewrite E. f_equal. apply IH; auto.
Qed.

Theorem spec_filter_roundtrip bpp ft line prev :
  bytes_ok line -> length prev = length line ->
  spec_recon_line bpp ft (spec_filter_line bpp ft line prev) prev = line.
Proof. intros. apply roundtrip_go; auto. Qed.

Lemma filt_go_length ft bpp line : forall rp rq prev, length prev = length line ->
  length (filt_go ft bpp rp rq line prev) = length line.
Proof. induction line as [|x l IH]; intros rp rq [|u p] H; simpl in *; try lia. rewrite IH; lia. Qed.

Lemma recon_go_length ft bpp data : forall rp rq prev, length prev = length data ->
  length (recon_go ft bpp rp rq data prev) = length data.
Proof. induction data as [|x l IH]; intros rp rq [|u p] H; simpl in *; try lia. rewrite IH; lia. Qed.

Lemma recon_go_bytes ft bpp data : forall rp rq prev, bytes_ok (recon_go ft bpp rp rq data prev).
Proof.
  induction data as [|x l IH]; intros rp rq [|u p]; simpl; try constructor.
  - unfold byte_ok. lia.
  - apply IH.
Qed.

(* ------------------------------------------------------------------ model filter = spec filter *)
Definition std_code (f : row_filter) := is_standard f = true.

Lemma back_nth_error bpp rp : (1 <= bpp)%nat ->
  back bpp rp = match nth_error rp (bpp - 1) with Some x => x | None => 0 end.
Proof.
  intros _. unfold back. generalize (bpp - 1)%nat as n. intros n.
  revert rp; induction n as [|n IH]; intros [|a t]; simpl; auto.
Qed.

Lemma nth_error_same_len {A B} (l1 : list A) (l2 : list B) n :
  length l1 = length l2 ->
  (nth_error l1 n = None <-> nth_error l2 n = None).
Proof. intros H. rewrite !nth_error_None. lia. Qed.

Lemma filter_go_is_spec f bpp data : (1 <= bpp)%nat -> is_standard f = true ->
  forall rp rq prev, length rp = length rq -> bytes_ok data -> bytes_ok prev -> bytes_ok rq ->
  filter_go f bpp rp rq data prev = filt_go (filter_code f) bpp rp rq data prev.
Proof.
  intros Hb Hs. induction data as [|x l IH]; intros rp rq [|u p] Hlen Hd Hp Hq; simpl; try reflexivity.
  apply bytes_ok_cons in Hd. destruct Hd as [Hx Hd].
  apply bytes_ok_cons in Hp. destruct Hp as [Hu Hp].
  f_equal.
  - rewrite !back_nth_error by auto.
    pose proof (nth_error_same_len rp rq (bpp - 1) Hlen) as Hn.
    unfold byte_ok in *.
    destruct f; try (cbv in Hs; discriminate); cbn [filter_code pred_spec]; unfold wsub.
    + rewrite Z.sub_0_r. rewrite Z.mod_small; lia.
    + destruct (nth_error rp (bpp - 1)); [reflexivity|]. rewrite Z.sub_0_r, Z.mod_small; lia.
    + reflexivity.
    + destruct (nth_error rp (bpp - 1)); [reflexivity|]. rewrite Z.add_0_l. reflexivity.
    + destruct (nth_error rp (bpp - 1)) as [a|] eqn:E1; destruct (nth_error rq (bpp - 1)) as [c|] eqn:E2.
      * reflexivity.
      * exfalso. clear -Hn. destruct Hn as [_ Hn]. specialize (Hn eq_refl). discriminate.
      * exfalso. clear -Hn. destruct Hn as [Hn _]. specialize (Hn eq_refl). discriminate.
      * rewrite paeth_spec_0_b_0 by lia. reflexivity.
  - apply IH; simpl; auto. apply bytes_ok_cons; auto.
Qed.

(* filter_line (no alpha optimisation) is exactly the specification's filter *)
Theorem filter_line_is_spec f bpp data prev :
  (1 <= bpp)%nat -> is_standard f = true ->
  (bpp <= length data)%nat -> length prev = length data -> bytes_ok data -> bytes_ok prev ->
  filter_line f bpp data prev 0 =
    Ok (filter_code f :: spec_filter_line bpp (filter_code f) data prev, data).
Proof.
  intros Hb Hs Hl Hlen Hd Hp. unfold filter_line.
  destruct (length data <? bpp)%nat eqn:E1; [apply Nat.ltb_lt in E1; lia|].
  rewrite <- Hlen, Nat.eqb_refl. cbn [negb]. unfold filter_line_body. rewrite Hs. cbn [bind].
  rewrite filter_go_is_spec; auto. constructor.
Qed.

(* ------------------------------------------------------------------ model unfilter = spec recon *)
Lemma unfilter_go_is_spec f bpp data : (1 <= bpp)%nat -> is_standard f = true ->
  forall rp rq prev, length rp = length rq -> bytes_ok data -> bytes_ok prev ->
  unfilter_go f bpp rp rq data prev = recon_go (filter_code f) bpp rp rq data prev.
Proof.
  intros Hb Hs. induction data as [|x l IH]; intros rp rq [|u p] Hlen Hd Hp; simpl; try reflexivity.
  apply bytes_ok_cons in Hd. destruct Hd as [Hx Hd].
  apply bytes_ok_cons in Hp. destruct Hp as [Hu Hp].
  assert (E : (match f with
     | FNone => x
     | FSub => match nth_error rp (bpp - 1) with Some b => wadd x b | None => x end
     | FUp => wadd x u
     | FAverage => match nth_error rp (bpp - 1) with Some b => wadd x ((b + u) / 2) | None => wadd x (u / 2) end
     | _ => match nth_error rp (bpp - 1), nth_error rq (bpp - 1) with
            | Some l0, Some lu => wadd x (paeth_predictor l0 u lu)
            | _, _ => wadd x u
            end
     end) = (x + pred_spec (filter_code f) (back bpp rp) u (back bpp rq)) mod 256).
  { rewrite !back_nth_error by auto.
    pose proof (nth_error_same_len rp rq (bpp - 1) Hlen) as Hn.
    unfold byte_ok in *.
    destruct f; try (cbv in Hs; discriminate); cbn [filter_code pred_spec]; unfold wadd.
    + rewrite Z.add_0_r. rewrite Z.mod_small; lia.
    + destruct (nth_error rp (bpp - 1)); [reflexivity|]. rewrite Z.add_0_r, Z.mod_small; lia.
    + reflexivity.
    + destruct (nth_error rp (bpp - 1)); [reflexivity|]. rewrite Z.add_0_l. reflexivity.
    + destruct (nth_error rp (bpp - 1)) as [a|] eqn:E1; destruct (nth_error rq (bpp - 1)) as [c|] eqn:E2.
      * reflexivity.
      * exfalso. clear -Hn. destruct Hn as [_ Hn]. specialize (Hn eq_refl). discriminate.
      * exfalso. clear -Hn. destruct Hn as [Hn _]. specialize (Hn eq_refl). discriminate.
      * rewrite paeth_spec_0_b_0 by lia. reflexivity. }
  rewrite E. f_equal. apply IH; simpl; auto.
Qed.

Theorem unfilter_line_is_spec f bpp data prev :
  (1 <= bpp)%nat -> is_standard f = true ->
  (bpp <= length data)%nat -> length prev = length data -> bytes_ok data -> bytes_ok prev ->
  unfilter_line f bpp data prev = Ok (spec_recon_line bpp (filter_code f) data prev).
Proof.
  intros Hb Hs Hl Hlen Hd Hp. unfold unfilter_line.
  destruct (length data <? bpp)%nat eqn:E1; [apply Nat.ltb_lt in E1; lia|].
  rewrite <- Hlen, Nat.eqb_refl. cbn [negb].
  destruct bpp as [|b]; [lia|]. rewrite Hs.
  rewrite unfilter_go_is_spec; auto.
Qed.

(* the model's own decoder undoes the model's own encoder, for every line *)
Theorem unfilter_filter_line f bpp data prev :
  (1 <= bpp)%nat -> is_standard f = true ->
  (bpp <= length data)%nat -> length prev = length data -> bytes_ok data -> bytes_ok prev ->
  exists buf, filter_line f bpp data prev 0 = Ok (filter_code f :: buf, data) /\
              spec_recon_line bpp (filter_code f) buf prev = data /\
              unfilter_line f bpp buf prev = Ok data.
Proof.
  intros Hb Hs Hl Hlen Hd Hp.
  exists (spec_filter_line bpp (filter_code f) data prev). split; [apply filter_line_is_spec; auto|].
  split; [apply spec_filter_roundtrip; auto|].
  rewrite unfilter_line_is_spec; auto.
  - rewrite spec_filter_roundtrip; auto.
  - unfold spec_filter_line. rewrite filt_go_length; auto.
  - unfold spec_filter_line. rewrite filt_go_length; auto.
  - unfold spec_filter_line. clear. generalize (@nil Z) at 1 as rp. generalize (@nil Z) as rq.
    revert prev. induction data as [|x l IH]; intros [|u p] rq rp; simpl; try constructor.
    + unfold byte_ok. lia.
    + apply IH.
Qed.

(* C11: the raw-image entry point - which chunks are written (closed form) and the scaled variant of the pixel theorem. *)
From OxiVerif Require Import Base.Common Base.Crc32 Spec.Filter Spec.Adam7 Spec.Sem Spec.Decode Spec.DecodeFile
  Model.Types Model.Options Model.Headers Model.PngData Model.Evaluate Model.Reductions Model.Optimize
  Proofs.Bridge Proofs.LiftReductions Proofs.LiftColor Proofs.ChunkProofs Proofs.HeaderProofs Proofs.RobustProofs Proofs.ApngProofs Proofs.LiftAlpha
  Proofs.OutputProofs Proofs.OutputDecode Proofs.PipelineProofs Proofs.PipelineLossless Proofs.EmittedStream Proofs.FileLevel Proofs.FileToFile
  Proofs.InputParse Proofs.ContainerOk Proofs.ScaledPicture Proofs.ScaledPipeline Proofs.ScaledFile Proofs.ChunkFlow.
Local Open Scope Z_scope.

(* the chunks attached by the caller reach the file through the strip policy, the ICC decision (C14) and the conditional drops (C07) *)
Theorem raw_create_chunks e r o out : raw_create e r o = Ok out ->
  exists c, out = output {| raw := c_image c; idat_data := c_cdata c;
                            aux_chunks := postprocess_chunks (fst (preprocess_chunks e (List.filter (fun c => strip_keep (strip o) (c_name c)) (ri_aux r)) o))
                                                             (hdr (c_image c)) (hdr (ri_png r));
                            frames := [] |}.
Proof.
  intros H. unfold raw_create in H.
  destruct (preprocess_chunks e _ o) as [aux o'] eqn:Epre.
  destruct (optimize_raw e o' (ri_png r) None) as [[c|]|?|?]; cbn [bind] in H; try discriminate.
  injection H as <-. exists c. cbn [fst]. reflexivity.
Qed.

(* without a chunk named IDAT among them, they are all written before the image data: those that precede PLTE, PLTE / tRNS,
   those that must follow PLTE, IDAT, IEND *)
Theorem raw_written_closed_form p : frames p = [] ->
  Forall (fun c => cname_eqb (c_name c) name_IDAT = false) (aux_chunks p) ->
  output_chunks p =
    (name_IHDR, to_be32 (width (hdr (raw p))) ++ to_be32 (height (hdr (raw p))) ++
                [depth (hdr (raw p)); png_header_code (ctype (hdr (raw p))); 0; 0; if interlaced (hdr (raw p)) then 1 else 0])
    :: map as_pair (List.filter (fun c => negb (after_plte c)) (aux_chunks p))
    ++ key_chunks (hdr (raw p))
    ++ map as_pair (List.filter (write_special (hdr (raw p))) (aux_chunks p))
    ++ [(name_IDAT, idat_data p); (name_IEND, [])].
Proof.
  intros Hf Ha. rewrite output_chunks_layout. unfold written_after. rewrite (split_idat_no_idat (aux_chunks p) [] Ha), Hf. cbn [rev app concat frame_chunk_list map].
  reflexivity.
Qed.

Lemma postprocess_no_idat aux hd orig : Forall (fun c => cname_eqb (c_name c) name_IDAT = false) aux ->
  Forall (fun c => cname_eqb (c_name c) name_IDAT = false) (postprocess_chunks aux hd orig).
Proof.
  intros H. rewrite postprocess_is_filter. apply Forall_forall. intros c Hc. apply filter_In in Hc. rewrite Forall_forall in H. apply H. tauto.
Qed.

(* ---------------------------------------------------------------- the scaled variant of the pixel theorem *)
Theorem raw_create_scaled e o (inflate : list Z -> option (list Z)) r out pic N M :
  optimize_alpha o = false -> scale_16 o = true -> bit_depth_reduction o = true -> dl e S16to8 = false ->
  wf (ri_png r) -> sem (ri_png r) = Some pic -> depth (hdr (ri_png r)) = 16 ->
  0 <= width (hdr (ri_png r)) < 2 ^ 32 -> 0 <= height (hdr (ri_png r)) < 2 ^ 32 ->
  Forall (chunk_ok N) (ri_aux r) -> 0 <= N -> N + 5 <= M -> M + 4 < 2 ^ 31 -> (forall d s, lenZ (z_deflate e d s) <= M) ->
  (forall d s, inflate (z_deflate e d s) = Some s) ->
  Forall (fun c => cname_eqb (c_name c) name_acTL = false) (ri_aux r) ->
  raw_create e r o = Ok out ->
  spec_decode_png inflate out = Some (scaled_picture (ri_png r) pic).
Proof.
  intros Ha Hs Hbd Hdl Hwf Hsem Hd16 Hw Hh Haux HN HM HM2 Hdefl Hz Hnoact H. unfold raw_create in H.
  set (aux0 := List.filter (fun c => strip_keep (strip o) (c_name c)) (ri_aux r)) in *.
  assert (A0 : Forall (chunk_ok N) aux0).
  { apply Forall_forall. intros c Hc. apply filter_In in Hc. rewrite Forall_forall in Haux. apply Haux. tauto. }
  assert (Hact0 : has_chunk name_acTL aux0 = false).
  { unfold has_chunk. apply not_true_is_false. intros Hex. apply existsb_exists in Hex. destruct Hex as [c [Hc Hn]]. apply filter_In in Hc.
    rewrite Forall_forall in Hnoact. rewrite (Hnoact c (proj1 Hc)) in Hn. discriminate. }
  destruct (preprocess_keeps_lossy e aux0 o) as [Ea Es].
  pose proof (preprocess_keeps_bd e aux0 o Hact0) as Eb.
  pose proof (preprocess_chunks_ok e aux0 o N HN A0) as Apre.
  destruct (preprocess_chunks e aux0 o) as [aux o'] eqn:Epre. cbn [fst snd] in *.
  destruct (optimize_raw e o' (ri_png r) None) as [[c|]|?|?] eqn:Er; cbn [bind] in H; try discriminate. injection H as <-.
  assert (Aaux : Forall (chunk_ok M) aux) by (eapply Forall_impl; [|exact Apre]; intros x [Hn Hl]; split; [exact Hn|lia]).
  assert (Hm : means pic (ri_png r)) by (split; assumption).
  destruct (optimize_raw_scaled e o' (ri_png r) None c pic ltac:(congruence) ltac:(congruence) ltac:(congruence) Hdl Hm Hd16 Er) as [[Hwf1 Hsem1] Hd8].
  destruct (sem_dims _ _ Hsem) as [Dw Dh]. destruct (sem_dims _ _ Hsem1) as [Dw1 Dh1].
  destruct (scaled_picture_dims (ri_png r) pic) as [Ew Eh].
  destruct (optimize_raw_provenance_gen e o' (ri_png r) None c Er) as [Hc (al & filtered & _ & _ & Hdd)]. rewrite Hc in Hdd. destruct Hdd as [d Hdd].
  set (p' := {| raw := c_image c; idat_data := c_cdata c; aux_chunks := postprocess_chunks aux (hdr (c_image c)) (hdr (ri_png r)); frames := [] |}).
  assert (Hcont : container_ok p').
  { apply (container_ok_of_parts M); unfold p'; cbn [raw idat_data aux_chunks frames].
    - unfold png_ok. cbn [raw idat_data aux_chunks frames]. split; [apply postprocess_chunks_ok; exact Aaux|]. split; [constructor|rewrite Hdd; apply Hdefl].
    - exact HM2.
    - lia.
    - lia.
    - exact Hwf1.
    - apply (sem_some_legal _ _ Hsem1). }
  destruct Hcont as (C1 & C2 & C3 & C4 & C5).
  destruct (emitted_stream_of_means e o' (ri_png r) None c _ ltac:(congruence) (conj Hwf1 Hsem1) Er) as (d2 & st & Ed & Hdec).
  rewrite (output_decodes inflate p' C1 C2 C3 C4 C5). unfold p'. cbn [raw idat_data]. rewrite Ed, Hz. exact Hdec.
Qed.

(* Proofs about the collector / task protocol (C16). *)
From OxiVerif Require Import Base.Common Model.Sched.
Local Open Scope nat_scope.

Definition cntf (f : tstate -> nat) (l : list tstate) : nat := list_sum (map f l).
Arguments cntf : simpl never.
Definition n_spawned t := match t with TSpawned => 1 | _ => 0 end.
Definition n_started t := match t with TSpawned => 0 | _ => 1 end.
Definition n_unfinished t := match t with TFinished => 0 | _ => 1 end.
Definition n_running t := match t with TRunning _ => 1 | _ => 0 end.

Lemma cntf_app f l1 l2 : cntf f (l1 ++ l2) = cntf f l1 + cntf f l2.
Proof. unfold cntf. rewrite map_app, list_sum_app. reflexivity. Qed.

Lemma cntf_cons f h t : cntf f (h :: t) = f h + cntf f t.
Proof. reflexivity. Qed.
Lemma cntf_nil f : cntf f [] = 0.
Proof. reflexivity. Qed.

Lemma cntf_set_nth f l : forall i old x, nth_error l i = Some old ->
  cntf f (set_nth i x l) + f old = cntf f l + f x.
Proof.
  induction l as [|h t IH]; intros [|i] old x H; cbn [nth_error] in H; try discriminate.
  - injection H as ->. cbn [set_nth]. rewrite !cntf_cons. lia.
  - cbn [set_nth]. rewrite !cntf_cons. specialize (IH i old x H). lia.
Qed.

Lemma spawned_started l : cntf n_spawned l + cntf n_started l = length l.
Proof. induction l as [|h t IH]; [reflexivity|]. rewrite !cntf_cons. cbn [length]. destruct h; cbn [n_spawned n_started]; lia. Qed.

Lemma unfinished_split l : cntf n_unfinished l = cntf n_spawned l + cntf n_running l.
Proof. induction l as [|h t IH]; [reflexivity|]. rewrite !cntf_cons. destruct h; cbn [n_unfinished n_spawned n_running]; lia. Qed.

Lemma find_task_some p l : forall i, find_task p l = Some i -> exists t, nth_error l i = Some t /\ p t = true.
Proof.
  induction l as [|h t IH]; intros i H; cbn in H; [discriminate|].
  destruct (p h) eqn:Ep.
  - injection H as <-. exists h. split; [reflexivity|exact Ep].
  - destruct (find_task p t) as [j|] eqn:Ej; cbn in H; [|discriminate]. injection H as <-. apply (IH j eq_refl).
Qed.

Lemma find_spawned_none l : find_task is_spawned l = None -> cntf n_spawned l = 0.
Proof.
  induction l as [|h t IH]; intros H; [reflexivity|]. rewrite cntf_cons. cbn [find_task] in H.
  destruct h; cbn [is_spawned n_spawned] in *; try discriminate;
    (destruct (find_task is_spawned t); cbn [option_map] in H; [discriminate|]; rewrite IH by reflexivity; reflexivity).
Qed.

Lemma find_running_none l : find_task is_running l = None -> cntf n_running l = 0.
Proof.
  induction l as [|h t IH]; intros H; [reflexivity|]. rewrite cntf_cons. cbn [find_task] in H.
  destruct h; cbn [is_running n_running] in *; try discriminate;
    (destruct (find_task is_running t); cbn [option_map] in H; [discriminate|]; rewrite IH by reflexivity; reflexivity).
Qed.

(* ---------------------------------------------------------------- the invariant *)
Record SInv (s : sstate) : Prop := {
  i_nth : s_nth s = length (tasks s);
  i_exec : s_executed s = cntf n_started (tasks s);
  i_send : senders s = (match cph s with CSubmit _ => 1 | _ => 0 end) + cntf n_unfinished (tasks s);
  i_recv : match cph s with CRecv | CDone => cntf n_spawned (tasks s) = 0 | _ => True end;
  i_done : cph s = CDone -> senders s = 0 /\ queue s = 0
}.

Lemma sinv_init n : SInv (sinit n).
Proof. constructor; cbn; auto; intros; discriminate. Qed.

Lemma sinv_step c s e s' : SInv s -> sstep c s e = Some s' -> SInv s'.
Proof.
  intros [H1 H2 H3 H4 H5] Hs. destruct e as [| |i b|i b|i| | |]; cbn in Hs.
  - destruct (cph s) as [[|m]| | |] eqn:Ep; try discriminate. injection Hs as <-.
    constructor; cbn; rewrite ?app_length, ?cntf_app, ?cntf_cons, ?cntf_nil; cbn; try lia; auto; intros; discriminate.
  - destruct (cph s) as [[|m]| | |] eqn:Ep; try discriminate. injection Hs as <-.
    constructor; cbn; try lia; auto; intros; discriminate.
  - destruct (nth_error (tasks s) i) as [[|k|]|] eqn:En; try discriminate.
    match type of Hs with (if ?a then _ else _) = _ => destruct a end; [|discriminate]. injection Hs as <-.
    pose proof (cntf_set_nth n_started _ _ _ (TRunning (n_filters c)) En) as A1.
    pose proof (cntf_set_nth n_unfinished _ _ _ (TRunning (n_filters c)) En) as A2.
    pose proof (cntf_set_nth n_spawned _ _ _ (TRunning (n_filters c)) En) as A3. cbn in A1, A2, A3.
    constructor; cbn; rewrite ?set_nth_length; try lia;
      try (destruct (cph s); auto; lia); try exact H5;
      try (intros Hd; destruct (H5 Hd) as [Hz _]; rewrite Hd in H3; cbn in H3; lia).
  - destruct (nth_error (tasks s) i) as [[|[|k]|]|] eqn:En; try discriminate. injection Hs as <-.
    pose proof (cntf_set_nth n_started _ _ _ (TRunning k) En) as A1.
    pose proof (cntf_set_nth n_unfinished _ _ _ (TRunning k) En) as A2.
    pose proof (cntf_set_nth n_spawned _ _ _ (TRunning k) En) as A3.
    pose proof (cntf_set_nth n_unfinished _ _ _ TFinished En) as A4. cbn in A1, A2, A3, A4.
    constructor; cbn; rewrite ?set_nth_length; try lia;
      try (destruct (cph s); auto; lia); try exact H5;
      try (intros Hd; destruct (H5 Hd) as [Hz _]; rewrite Hd in H3; cbn in H3; lia).
  - destruct (nth_error (tasks s) i) as [[|[|k]|]|] eqn:En; try discriminate. injection Hs as <-.
    pose proof (cntf_set_nth n_started _ _ _ TFinished En) as A1.
    pose proof (cntf_set_nth n_unfinished _ _ _ TFinished En) as A2.
    pose proof (cntf_set_nth n_spawned _ _ _ TFinished En) as A3. cbn in A1, A2, A3.
    constructor; cbn; rewrite ?set_nth_length; try lia;
      try (destruct (cph s); auto; lia); try exact H5;
      try (intros Hd; destruct (H5 Hd) as [Hz _]; rewrite Hd in H3; cbn in H3; lia).
  - destruct (cph s) eqn:Ep; try discriminate. destruct (Nat.leb_spec (s_nth s) (s_executed s)) as [Hle|]; [|discriminate].
    injection Hs as <-. constructor; cbn; auto; try (intros; discriminate).
    pose proof (spawned_started (tasks s)). lia.
  - destruct (cph s) eqn:Ep; try discriminate. destruct (queue s) as [|q] eqn:Eq; [discriminate|]. injection Hs as <-.
    constructor; cbn; auto; intros; discriminate.
  - destruct (cph s) eqn:Ep; try discriminate. destruct (queue s) eqn:Eq; [|discriminate]. destruct (senders s) eqn:Es; [|discriminate].
    injection Hs as <-. constructor; cbn; auto; try lia.
Qed.

Lemma sinv_run c : forall es s s', SInv s -> srun c s es = Some s' -> SInv s'.
Proof.
  induction es as [|e t IH]; intros s s' Hi Hr; cbn in Hr; [injection Hr as <-; exact Hi|].
  destruct (sstep c s e) as [s1|] eqn:E; [|discriminate]. eapply IH; [eapply sinv_step; eauto|exact Hr].
Qed.

(* ---------------------------------------------------------------- no stuck state *)
(* the calling thread can run spawned jobs itself, or some other worker can *)
Definition cfg_live (c : scfg) : Prop := caller_is_worker c = true \/ others c = true.

Theorem no_stuck_state c s : cfg_live c -> SInv s -> cph s <> CDone ->
  exists e s', some_enabled c s = Some e /\ sstep c s e = Some s'.
Proof.
  intros Hc [H1 H2 H3 H4 H5] Hnd. unfold some_enabled.
  destruct (cph s) as [[|m]| | |] eqn:Ep; try contradiction.
  - eexists _, _. split; [reflexivity|]. cbn. rewrite Ep. reflexivity.
  - eexists _, _. split; [reflexivity|]. cbn. rewrite Ep. reflexivity.
  - destruct (Nat.leb_spec (s_nth s) (s_executed s)) as [Hle|Hlt].
    + eexists _, _. split; [reflexivity|]. cbn. rewrite Ep. destruct (Nat.leb_spec (s_nth s) (s_executed s)); [reflexivity|lia].
    + destruct (find_task is_spawned (tasks s)) as [i|] eqn:Ef.
      * destruct (find_task_some _ _ _ Ef) as [t [Hn Ht]]. destruct t; try discriminate.
        destruct (caller_is_worker c) eqn:Ew.
        -- eexists _, _. split; [reflexivity|]. cbn. rewrite Hn, Ew, Ep. reflexivity.
        -- destruct Hc as [Hc|Hc]; [congruence|]. rewrite Hc. eexists _, _. split; [reflexivity|]. cbn. rewrite Hn, Hc. reflexivity.
      * apply find_spawned_none in Ef. pose proof (spawned_started (tasks s)). lia.
  - destruct (queue s) as [|q] eqn:Eq.
    + destruct (find_task is_running (tasks s)) as [i|] eqn:Ef.
      * destruct (find_task_some _ _ _ Ef) as [t [Hn Ht]]. destruct t as [|[|k]|]; try discriminate; rewrite Hn.
        -- eexists _, _. split; [reflexivity|]. cbn. rewrite Hn. reflexivity.
        -- eexists _, _. split; [reflexivity|]. cbn. rewrite Hn. reflexivity.
      * apply find_running_none in Ef. pose proof (unfinished_split (tasks s)).
        eexists _, _. split; [reflexivity|]. cbn. rewrite Ep, Eq. replace (senders s) with 0 by lia. reflexivity.
    + eexists _, _. split; [reflexivity|]. cbn. rewrite Ep, Eq. reflexivity.
Qed.

(* while the caller blocks in the receive, nothing it waits for still needs a thread to START it:
   every task is already running (on some thread's stack) or finished *)
Theorem blocking_receive_waits_only_for_started_tasks c es n s :
  srun c (sinit n) es = Some s -> cph s = CRecv ->
  forall i t, nth_error (tasks s) i = Some t -> t <> TSpawned.
Proof.
  intros Hr Hp i t Hn ->. pose proof (sinv_run c es _ _ (sinv_init n) Hr) as [_ _ _ H4 _]. rewrite Hp in H4.
  pose proof (cntf_set_nth n_spawned _ _ _ TFinished Hn) as A. cbn in A. lia.
Qed.

(* ---------------------------------------------------------------- every move decreases the measure *)
Lemma mu_eq c s : mu c s = phase_mu c (cph s) + cntf (task_mu c) (tasks s) + queue s.
Proof. reflexivity. Qed.

Theorem measure_decreases c s e s' : sstep c s e = Some s' -> mu c s' < mu c s.
Proof.
  intros Hs. rewrite !mu_eq. destruct e as [| |i b|i b|i| | |]; cbn in Hs.
  - destruct (cph s) as [[|m]| | |] eqn:Ep; try discriminate. injection Hs as <-. cbn [cph tasks queue phase_mu].
    rewrite cntf_app, cntf_cons, cntf_nil. cbn [task_mu]. rewrite Nat.mul_succ_l. lia.
  - destruct (cph s) as [[|m]| | |] eqn:Ep; try discriminate. injection Hs as <-. cbn [cph tasks queue phase_mu]. lia.
  - destruct (nth_error (tasks s) i) as [[|k|]|] eqn:En; try discriminate.
    match type of Hs with (if ?a then _ else _) = _ => destruct a end; [|discriminate]. injection Hs as <-. cbn [cph tasks queue].
    pose proof (cntf_set_nth (task_mu c) _ _ _ (TRunning (n_filters c)) En) as A. cbn [task_mu] in A. lia.
  - destruct (nth_error (tasks s) i) as [[|[|k]|]|] eqn:En; try discriminate. injection Hs as <-. cbn [cph tasks queue].
    pose proof (cntf_set_nth (task_mu c) _ _ _ (TRunning k) En) as A. cbn [task_mu] in A. destruct b; lia.
  - destruct (nth_error (tasks s) i) as [[|[|k]|]|] eqn:En; try discriminate. injection Hs as <-. cbn [cph tasks queue].
    pose proof (cntf_set_nth (task_mu c) _ _ _ TFinished En) as A. cbn [task_mu] in A. lia.
  - destruct (cph s) eqn:Ep; try discriminate. destruct (s_nth s <=? s_executed s)%nat; [|discriminate]. injection Hs as <-. cbn [cph tasks queue phase_mu]. lia.
  - destruct (cph s) eqn:Ep; try discriminate. destruct (queue s) as [|q] eqn:Eq; [discriminate|]. injection Hs as <-. cbn [cph tasks queue phase_mu]. lia.
  - destruct (cph s) eqn:Ep; try discriminate. destruct (queue s) eqn:Eq; [|discriminate]. destruct (senders s); [|discriminate]. injection Hs as <-. cbn [cph tasks queue phase_mu]. lia.
Qed.

(* no run is longer than the measure of its first state: no livelock *)
Theorem run_bounded c : forall es s s', srun c s es = Some s' -> length es + mu c s' <= mu c s.
Proof.
  induction es as [|e t IH]; intros s s' Hr; cbn in Hr; [injection Hr as <-; cbn; lia|].
  destruct (sstep c s e) as [s1|] eqn:E; [|discriminate]. pose proof (measure_decreases _ _ _ _ E). specialize (IH _ _ Hr). cbn [length]. lia.
Qed.

(* every submission is counted *)
Definition total_inv (n : nat) (s : sstate) : Prop :=
  match cph s with CSubmit m => s_nth s + m = n | _ => s_nth s = n end.

Lemma total_step c n s e s' : total_inv n s -> sstep c s e = Some s' -> total_inv n s'.
Proof.
  unfold total_inv. intros Hp E. destruct e as [| |i b|i b|i| | |]; cbn in E.
  - destruct (cph s) as [[|m]| | |] eqn:Ep; try discriminate. injection E as <-. cbn. lia.
  - destruct (cph s) as [[|m]| | |] eqn:Ep; try discriminate. injection E as <-. cbn. lia.
  - destruct (nth_error (tasks s) i) as [[|k|]|]; try discriminate.
    match type of E with (if ?a then _ else _) = _ => destruct a end; [|discriminate]. injection E as <-. cbn. exact Hp.
  - destruct (nth_error (tasks s) i) as [[|[|k]|]|]; try discriminate; injection E as <-; cbn; exact Hp.
  - destruct (nth_error (tasks s) i) as [[|[|k]|]|]; try discriminate; injection E as <-; cbn; exact Hp.
  - destruct (cph s) eqn:Ep; try discriminate. destruct (s_nth s <=? s_executed s)%nat; [|discriminate]. injection E as <-. cbn. exact Hp.
  - destruct (cph s) eqn:Ep; try discriminate. destruct (queue s); [discriminate|]. injection E as <-. cbn. exact Hp.
  - destruct (cph s) eqn:Ep; try discriminate. destruct (queue s); [|discriminate]. destruct (senders s); [|discriminate]. injection E as <-. cbn. exact Hp.
Qed.

Lemma total_run c n : forall es s s', total_inv n s -> srun c s es = Some s' -> total_inv n s'.
Proof.
  induction es as [|e t IH]; intros s s' Hi Hr; cbn in Hr; [injection Hr as <-; exact Hi|].
  destruct (sstep c s e) as [s1|] eqn:E; [|discriminate]. eapply IH; [eapply total_step; eauto|exact Hr].
Qed.

(* a run that cannot be extended has returned: all tasks finished, channel empty and disconnected,
   every submitted image was started *)
Theorem maximal_run_is_complete c n es s : cfg_live c ->
  srun c (sinit n) es = Some s -> (forall e, sstep c s e = None) ->
  cph s = CDone /\ Forall (fun t => t = TFinished) (tasks s) /\ senders s = 0 /\ queue s = 0 /\ s_nth s = n /\ s_executed s = n.
Proof.
  intros Hc Hr Hmax. pose proof (sinv_run c es _ _ (sinv_init n) Hr) as Hi.
  assert (Hd : cph s = CDone).
  { destruct (cph s) eqn:Ep; try reflexivity;
      (destruct (no_stuck_state c s Hc Hi) as (e & s1 & _ & Hs); [rewrite Ep; discriminate|]; rewrite Hmax in Hs; discriminate). }
  assert (Hn : s_nth s = n).
  { assert (T0 : total_inv n (sinit n)) by (unfold total_inv; cbn; lia).
    pose proof (total_run c n es _ _ T0 Hr) as T. unfold total_inv in T. rewrite Hd in T. exact T. }
  destruct Hi as [H1 H2 H3 H4 H5]. destruct (H5 Hd) as [Hs0 Hq0]. rewrite Hd in H3, H4. cbn in H3.
  assert (Hfin : Forall (fun t => t = TFinished) (tasks s)).
  { assert (Hz : cntf n_unfinished (tasks s) = 0) by lia. clear - Hz.
    induction (tasks s) as [|h t IH]; [constructor|]. rewrite cntf_cons in Hz.
    constructor; [destruct h; cbn [n_unfinished] in Hz; try lia; reflexivity|apply IH; lia]. }
  pose proof (spawned_started (tasks s)).
  repeat split; auto. lia.
Qed.

(* from every reachable state the witness moves lead to the end within mu steps *)
Theorem drive_reaches_done c : cfg_live c -> forall fuel s, SInv s -> mu c s <= fuel -> cph (drive c fuel s) = CDone.
Proof.
  intros Hc. induction fuel as [|f IH]; intros s Hi Hm.
  - cbn [drive]. destruct (cph s) eqn:Ep; try reflexivity; exfalso; rewrite mu_eq, Ep in Hm; cbn [phase_mu] in Hm; lia.
  - cbn [drive]. destruct (cph s) eqn:Ep;
      try (destruct (no_stuck_state c s Hc Hi) as (e & s1 & He & Hs); [rewrite Ep; discriminate|];
           rewrite He, Hs; apply IH; [eapply sinv_step; eauto|pose proof (measure_decreases _ _ _ _ Hs); lia]).
    unfold some_enabled. rewrite Ep. exact Ep.
Qed.

(* ---------------------------------------------------------------- why the wait for `executed >= nth` matters *)
(* without it, on a pool whose only available thread is the caller, the caller blocks in the receive
   while the job it waits for can never start: a deadlock *)
Definition one_thread : scfg := {| n_filters := 1; caller_is_worker := true; others := false |}.

Fixpoint srun_nospin (c : scfg) (s : sstate) (es : list sevent) : option sstate :=
  match es with
  | [] => Some s
  | e :: t => match sstep_nospin c s e with Some s' => srun_nospin c s' t | None => None end
  end.

Theorem without_the_wait_a_single_thread_pool_deadlocks :
  exists s, srun_nospin one_thread (sinit 1) [ESubmit; EDropSender; ESpinExit] = Some s /\
            cph s = CRecv /\ (forall e, sstep_nospin one_thread s e = None).
Proof.
  eexists. split; [vm_compute; reflexivity|]. split; [reflexivity|].
  intros e. destruct e as [| |i b|i b|i| | |]; try reflexivity.
  - destruct b; [reflexivity|]. destruct i as [|[|i]]; reflexivity.
  - destruct i as [|[|i]]; reflexivity.
  - destruct i as [|[|i]]; reflexivity.
Qed.

(* a calling thread outside the pool depends on the pool's workers: this is the environment assumption *)
Theorem plain_thread_needs_a_worker :
  let c := {| n_filters := 1; caller_is_worker := false; others := false |} in
  exists s, srun c (sinit 1) [ESubmit; EDropSender] = Some s /\ cph s = CSpin /\ (forall e, sstep c s e = None).
Proof.
  eexists. split; [vm_compute; reflexivity|]. split; [reflexivity|].
  intros e. destruct e as [| |i b|i b|i| | |]; try reflexivity.
  - destruct b; destruct i as [|[|i]]; reflexivity.
  - destruct i as [|[|i]]; reflexivity.
  - destruct i as [|[|i]]; reflexivity.
Qed.

(* raw_data_size (src/headers.rs) agrees with the specification's layout (C18, used by C02/C05). *)
From OxiVerif Require Import Base.Common Spec.Adam7 Model.Types Model.Headers Proofs.ScanProofs.

Definition pass_total (w h b p : Z) : Z :=
  if pw w p =? 0 then 0 else ph h p * (line_bytes b (pw w p) + 1).

Lemma sumZ_map_repeat {A} (f : A -> Z) x n : sumZ (map f (repeat x n)) = Z.of_nat n * f x.
Proof. induction n; cbn [repeat map sumZ fold_right]; [lia|]. unfold sumZ in IHn. rewrite IHn. lia. Qed.

Lemma spec_pass_total w h b p : 1 <= h -> 1 <= p <= 7 ->
  sumZ (map (fun l : option Z * Z * Z => snd l + 1)
            (map (fun pn : Z * Z => (Some (fst pn), snd pn, line_bytes b (snd pn))) (spec_pass_lines w h p)))
  = pass_total w h b p.
Proof.
  intros Hh Hp. unfold spec_pass_lines, pass_total. destruct (pw w p =? 0); [reflexivity|].
  rewrite map_map. rewrite sumZ_map_repeat. cbn [snd fst].
  pose proof (ph_nonneg h p Hh Hp). rewrite Z2Nat.id by lia. reflexivity.
Qed.

Lemma spec_raw_size_closed w h b : 1 <= h ->
  spec_raw_size w h b true true =
  pass_total w h b 1 + pass_total w h b 2 + pass_total w h b 3 + pass_total w h b 4 +
  pass_total w h b 5 + pass_total w h b 6 + pass_total w h b 7.
Proof.
  intros Hh. unfold spec_raw_size, spec_layout, spec_lines, passes7. cbn [flat_map].
  rewrite app_nil_r. rewrite !map_app, !sumZ_app.
  rewrite !spec_pass_total by lia. lia.
Qed.

Lemma pass_size_nosat b pw0 ph0 : 0 <= pw0 -> 0 <= ph0 -> 1 <= b ->
  ph0 * (cdiv (pw0 * b) 8 + 1) <= usize_max ->
  pass_size b pw0 ph0 = ph0 * (cdiv (pw0 * b) 8 + 1).
Proof.
  intros Hw Hh Hb Hle. unfold pass_size, bitmap_size, sat_add, sat_mul.
  assert (0 <= cdiv (pw0 * b) 8) by (unfold cdiv; nia).
  set (c := cdiv (pw0 * b) 8) in *.
  assert (c * ph0 <= usize_max) by nia.
  rewrite (Z.min_l (c * ph0)) by lia. rewrite Z.min_l by nia. nia.
Qed.

Lemma pass_total_nonneg w h b p : 1 <= w -> 1 <= h -> 1 <= b -> 1 <= p <= 7 -> 0 <= pass_total w h b p.
Proof.
  intros. unfold pass_total. destruct (pw w p =? 0); [lia|].
  pose proof (pw_nonneg w p ltac:(lia) ltac:(lia)). pose proof (ph_nonneg h p ltac:(lia) ltac:(lia)).
  assert (0 <= line_bytes b (pw w p)) by (unfold line_bytes, cdiv; nia). nia.
Qed.

(* the Rust pass dimensions are the specification's *)
Lemma pass_dims_rust w h : 1 <= w -> 1 <= h ->
  pw w 1 = (w + 7) / 8 /\ ph h 1 = (h + 7) / 8 /\
  pw w 2 = (if 4 <? w then (w + 3) / 8 else 0) /\ ph h 2 = (h + 7) / 8 /\
  pw w 3 = (w + 3) / 4 /\ ph h 3 = (h + 3) / 8 /\
  pw w 4 = (if 2 <? w then (w + 1) / 4 else 0) /\ ph h 4 = (h + 3) / 4 /\
  pw w 5 = (w + 1) / 2 /\ ph h 5 = (h + 1) / 4 /\
  pw w 6 = (if 1 <? w then w / 2 else 0) /\ ph h 6 = (h + 1) / 2 /\
  pw w 7 = w /\ ph h 7 = h / 2.
Proof.
  intros Hw Hh. unfold pw, ph, cdiv. cbn [x0 y0 dx dy].
  repeat split;
  repeat match goal with |- context [if ?c then _ else _] => destruct c eqn:? end; lia.
Qed.

Lemma pass_total_alt w h b p pw0 ph0 : 1 <= b -> 0 <= pw0 -> 0 <= ph0 ->
  pw w p = pw0 -> ph h p = ph0 ->
  pass_total w h b p = ph0 * (cdiv (pw0 * b) 8 + 1) \/ (pw0 = 0 /\ pass_total w h b p = 0).
Proof.
  intros Hb H1 H2 E1 E2. unfold pass_total. rewrite E1, E2. destruct (pw0 =? 0) eqn:E.
  - apply Z.eqb_eq in E. right. auto.
  - left. reflexivity.
Qed.

(* For every w, h >= 1 and pixel size, as long as the size fits in a usize, raw_data_size is the
   specification's total (filter bytes included), interlaced or not *)
Theorem raw_data_size_spec (hd : ihdr) :
  1 <= width hd -> 1 <= height hd -> 1 <= bpp hd ->
  spec_raw_size (width hd) (height hd) (bpp hd) (interlaced hd) true <= usize_max ->
  raw_data_size hd = spec_raw_size (width hd) (height hd) (bpp hd) (interlaced hd) true.
Proof.
  intros Hw Hh Hb Hle. unfold raw_data_size.
  destruct (interlaced hd) eqn:Hil; cbn [negb].
  - rewrite spec_raw_size_closed in * by lia.
    set (w := width hd) in *. set (h := height hd) in *. set (b := bpp hd) in *.
    pose proof (pass_total_nonneg w h b 1 Hw Hh Hb ltac:(lia)) as N1.
    pose proof (pass_total_nonneg w h b 2 Hw Hh Hb ltac:(lia)) as N2.
    pose proof (pass_total_nonneg w h b 3 Hw Hh Hb ltac:(lia)) as N3.
    pose proof (pass_total_nonneg w h b 4 Hw Hh Hb ltac:(lia)) as N4.
    pose proof (pass_total_nonneg w h b 5 Hw Hh Hb ltac:(lia)) as N5.
    pose proof (pass_total_nonneg w h b 6 Hw Hh Hb ltac:(lia)) as N6.
    pose proof (pass_total_nonneg w h b 7 Hw Hh Hb ltac:(lia)) as N7.
    destruct (pass_dims_rust w h Hw Hh) as (W1 & H1 & W2 & H2 & W3 & H3 & W4 & H4 & W5 & H5 & W6 & H6 & W7 & H7).
    assert (T1 : pass_size b ((w + 7) / 8) ((h + 7) / 8) = pass_total w h b 1).
    { destruct ((w + 7) / 8 =? 0) eqn:E; [apply Z.eqb_eq in E; lia|].
      assert (P : pass_total w h b 1 = (h + 7) / 8 * (cdiv ((w + 7) / 8 * b) 8 + 1))
        by (unfold pass_total, line_bytes; rewrite W1, H1, E; reflexivity).
      rewrite P. apply pass_size_nosat; try lia; try (rewrite <- P; lia). }
    assert (T3 : pass_size b ((w + 3) / 4) ((h + 3) / 8) = pass_total w h b 3).
    { destruct ((w + 3) / 4 =? 0) eqn:E; [apply Z.eqb_eq in E; lia|].
      assert (P : pass_total w h b 3 = (h + 3) / 8 * (cdiv ((w + 3) / 4 * b) 8 + 1))
        by (unfold pass_total, line_bytes; rewrite W3, H3, E; reflexivity).
      rewrite P. apply pass_size_nosat; try lia; try (rewrite <- P; lia). }
    assert (T5 : pass_size b ((w + 1) / 2) ((h + 1) / 4) = pass_total w h b 5).
    { destruct ((w + 1) / 2 =? 0) eqn:E; [apply Z.eqb_eq in E; lia|].
      assert (P : pass_total w h b 5 = (h + 1) / 4 * (cdiv ((w + 1) / 2 * b) 8 + 1))
        by (unfold pass_total, line_bytes; rewrite W5, H5, E; reflexivity).
      rewrite P. apply pass_size_nosat; try lia; try (rewrite <- P; lia). }
    assert (T7 : pass_size b w (h / 2) = pass_total w h b 7).
    { destruct (w =? 0) eqn:E; [apply Z.eqb_eq in E; lia|].
      assert (P : pass_total w h b 7 = h / 2 * (cdiv (w * b) 8 + 1))
        by (unfold pass_total, line_bytes; rewrite W7, H7, E; reflexivity).
      rewrite P. apply pass_size_nosat; try lia; try (rewrite <- P; lia). }
    assert (T2 : (if 4 <? w then pass_size b ((w + 3) / 8) ((h + 7) / 8) else 0) = pass_total w h b 2).
    { destruct (4 <? w) eqn:E4.
      - apply Z.ltb_lt in E4. destruct ((w + 3) / 8 =? 0) eqn:E; [apply Z.eqb_eq in E; lia|].
        assert (P : pass_total w h b 2 = (h + 7) / 8 * (cdiv ((w + 3) / 8 * b) 8 + 1)).
        { unfold pass_total, line_bytes. rewrite W2, H2.
          rewrite ?E4. rewrite E. reflexivity. }
        rewrite P. apply pass_size_nosat; try lia; try (rewrite <- P; lia).
      - unfold pass_total. rewrite W2. rewrite ?E4. reflexivity. }
    assert (T4 : (if 2 <? w then pass_size b ((w + 1) / 4) ((h + 3) / 4) else 0) = pass_total w h b 4).
    { destruct (2 <? w) eqn:E4.
      - apply Z.ltb_lt in E4. destruct ((w + 1) / 4 =? 0) eqn:E; [apply Z.eqb_eq in E; lia|].
        assert (P : pass_total w h b 4 = (h + 3) / 4 * (cdiv ((w + 1) / 4 * b) 8 + 1)).
        { unfold pass_total, line_bytes. rewrite W4, H4.
          rewrite ?E4. rewrite E. reflexivity. }
        rewrite P. apply pass_size_nosat; try lia; try (rewrite <- P; lia).
      - unfold pass_total. rewrite W4. rewrite ?E4. reflexivity. }
    assert (T6 : (if 1 <? w then pass_size b (w / 2) ((h + 1) / 2) else 0) = pass_total w h b 6).
    { destruct (1 <? w) eqn:E4.
      - apply Z.ltb_lt in E4. destruct (w / 2 =? 0) eqn:E; [apply Z.eqb_eq in E; lia|].
        assert (P : pass_total w h b 6 = (h + 1) / 2 * (cdiv (w / 2 * b) 8 + 1)).
        { unfold pass_total, line_bytes. rewrite W6, H6.
          rewrite ?E4. rewrite E. reflexivity. }
        rewrite P. apply pass_size_nosat; try lia; try (rewrite <- P; lia).
      - unfold pass_total. rewrite W6. rewrite ?E4. reflexivity. }
    rewrite T1, T3, T5, T7.
    destruct (4 <? w); destruct (2 <? w); destruct (1 <? w);
      rewrite ?T2, ?T4, ?T6; rewrite <- ?T2, <- ?T4, <- ?T6; unfold sat_add;
      repeat rewrite Z.min_l by lia; lia.
  - unfold spec_raw_size, spec_layout in *. rewrite map_repeat' in *. rewrite sumZ_repeat in *. cbn [snd] in *.
    rewrite Z2Nat.id in * by lia.
    unfold line_bytes in *. rewrite pass_size_nosat; try lia.
Qed.

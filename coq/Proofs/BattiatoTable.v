(* battiato_reindex returns a list containing every palette index: vertex colouring (white / red / black), chains, and the history
   argument over the complete edge list. *)
From OxiVerif Require Import Base.Common Model.Types Model.ScanLines Model.Palette Proofs.CoocMatrix.
Local Open Scope Z_scope.

Definition stt (vx : list (Z * Z)) (v : Z) : Z := fst (nthZ vx v (0, 0)).
Definition chn (vx : list (Z * Z)) (v : Z) : Z := snd (nthZ vx v (0, 0)).

Lemma nthZ_vx_set vx i x v : 0 <= i -> 0 <= v -> (Z.to_nat i < length vx)%nat ->
  nthZ (vx_set vx i x) v (0, 0) = if v =? i then x else nthZ vx v (0, 0).
Proof.
  intros Hi Hv Hl. unfold nthZ, vx_set. rewrite nth_set_nth. destruct (Z.eqb_spec v i) as [->|Hne].
  - rewrite Nat.eqb_refl. destruct (Nat.ltb_spec (Z.to_nat i) (length vx)); [reflexivity|lia].
  - destruct (Nat.eqb_spec (Z.to_nat v) (Z.to_nat i)); [lia|reflexivity].
Qed.

Lemma vx_set_length vx i x : length (vx_set vx i x) = length vx.
Proof. unfold vx_set. apply set_nth_length. Qed.

Lemma stt_vx_set vx i x v : 0 <= i -> 0 <= v -> (Z.to_nat i < length vx)%nat -> stt (vx_set vx i x) v = if v =? i then fst x else stt vx v.
Proof. intros. unfold stt. rewrite nthZ_vx_set by assumption. destruct (v =? i); reflexivity. Qed.
Lemma chn_vx_set vx i x v : 0 <= i -> 0 <= v -> (Z.to_nat i < length vx)%nat -> chn (vx_set vx i x) v = if v =? i then snd x else chn vx v.
Proof. intros. unfold chn. rewrite nthZ_vx_set by assumption. destruct (v =? i); reflexivity. Qed.

Lemma stt_set_state vx i s v : 0 <= i -> 0 <= v -> (Z.to_nat i < length vx)%nat -> stt (set_state vx i s) v = if v =? i then s else stt vx v.
Proof. intros. unfold set_state. rewrite stt_vx_set by assumption. reflexivity. Qed.
Lemma chn_set_state vx i s v : 0 <= i -> 0 <= v -> (Z.to_nat i < length vx)%nat -> chn (set_state vx i s) v = chn vx v.
Proof. intros. unfold set_state. rewrite chn_vx_set by assumption. cbn [snd]. destruct (Z.eqb_spec v i); [subst; reflexivity|reflexivity]. Qed.
Lemma stt_set_chain vx i c v : 0 <= i -> 0 <= v -> (Z.to_nat i < length vx)%nat -> stt (set_chain vx i c) v = stt vx v.
Proof. intros. unfold set_chain. rewrite stt_vx_set by assumption. cbn [fst]. destruct (Z.eqb_spec v i); [subst; reflexivity|reflexivity]. Qed.
Lemma chn_set_chain vx i c v : 0 <= i -> 0 <= v -> (Z.to_nat i < length vx)%nat -> chn (set_chain vx i c) v = if v =? i then c else chn vx v.
Proof. intros. unfold set_chain. rewrite chn_vx_set by assumption. reflexivity. Qed.
Lemma set_state_length vx i s : length (set_state vx i s) = length vx.
Proof. apply vx_set_length. Qed.
Lemma set_chain_length vx i c : length (set_chain vx i c) = length vx.
Proof. apply vx_set_length. Qed.

(* re-labelling all members of a chain *)
Lemma fold_set_chain c : forall (l : list Z) vx, Forall (fun v => 0 <= v /\ (Z.to_nat v < length vx)%nat) l ->
  let vx' := fold_left (fun vx v => set_chain vx v c) l vx in
  length vx' = length vx /\ forall v, 0 <= v -> stt vx' v = stt vx v /\ chn vx' v = (if in_dec Z.eq_dec v l then c else chn vx v).
Proof.
  induction l as [|a t IH]; intros vx Hl; cbn [fold_left]; cbv zeta.
  - split; [reflexivity|]. intros v _. destruct (in_dec Z.eq_dec v []) as [[]|]. auto.
  - apply Forall_cons_iff in Hl. destruct Hl as [[Ha Hal] Ht].
    destruct (IH (set_chain vx a c)) as [L G].
    { rewrite set_chain_length. exact Ht. }
    split; [rewrite L; apply set_chain_length|]. intros v Hv. destruct (G v Hv) as [G1 G2]. split.
    + rewrite G1. apply stt_set_chain; assumption.
    + rewrite G2. rewrite chn_set_chain by assumption.
      destruct (in_dec Z.eq_dec v t) as [Hin|Hnin]; destruct (in_dec Z.eq_dec v (a :: t)) as [Hin'|Hnin']; try reflexivity.
      * exfalso. apply Hnin'. right. exact Hin.
      * destruct Hin' as [<-|Hin']; [rewrite Z.eqb_refl; reflexivity|contradiction].
      * destruct (Z.eqb_spec v a); [subst; exfalso; apply Hnin'; left; reflexivity|reflexivity].
Qed.

(* number of red members *)
Definition reds (vx : list (Z * Z)) (c : list Z) : nat := length (List.filter (fun v => stt vx v =? 1) c).

Lemma reds_ext vx vx' c : (forall v, In v c -> stt vx' v = stt vx v) -> reds vx' c = reds vx c.
Proof. intros H. unfold reds. f_equal. apply filter_ext_in. intros v Hv. rewrite H by exact Hv. reflexivity. Qed.
Lemma reds_app vx a b : reds vx (a ++ b) = (reds vx a + reds vx b)%nat.
Proof. unfold reds. rewrite filter_app, app_length. reflexivity. Qed.
Lemma reds_rev vx a : reds vx (rev a) = reds vx a.
Proof. unfold reds. induction a as [|x t IH]; [reflexivity|]. cbn [rev]. rewrite filter_app, app_length, IH. cbn [List.filter]. destruct (stt vx x =? 1); cbn [length]; lia. Qed.
Lemma reds_cons vx x t : reds vx (x :: t) = ((if Z.eqb (stt vx x) 1 then 1 else 0) + reds vx t)%nat.
Proof. unfold reds. cbn [List.filter]. destruct (stt vx x =? 1); reflexivity. Qed.

(* turning one red member of a duplicate-free list into a non-red one *)
Lemma reds_flip vx vx' c j : NoDup c -> In j c -> stt vx j = 1 -> stt vx' j <> 1 ->
  (forall v, In v c -> v <> j -> stt vx' v = stt vx v) -> (reds vx' c + 1 = reds vx c)%nat.
Proof.
  induction 1 as [|x t Hx Hnd IH]; intros Hin Hj Hj' Hoth; [destruct Hin|]. rewrite !reds_cons. destruct Hin as [->|Hin].
  - rewrite Hj. destruct (Z.eqb_spec (stt vx' j) 1); [contradiction|]. rewrite Z.eqb_refl.
    rewrite (reds_ext vx vx' t); [lia|]. intros v Hv. apply Hoth; [right; exact Hv|]. intros ->. contradiction.
  - assert (x <> j) by (intros ->; contradiction). rewrite (Hoth x (or_introl eq_refl) H).
    specialize (IH Hin Hj Hj' ltac:(intros v Hv Hne; apply Hoth; [right; exact Hv|exact Hne])). lia.
Qed.

Lemma NoDup_app' {A} (a b : list A) : NoDup a -> NoDup b -> (forall x, In x a -> In x b -> False) -> NoDup (a ++ b).
Proof.
  induction 1 as [|x t Hx Hnd IH]; intros Hb Hd; [exact Hb|]. cbn [app]. constructor.
  - intros Hin. apply in_app_or in Hin. destruct Hin as [Hin|Hin]; [contradiction|]. apply (Hd x); [left; reflexivity|exact Hin].
  - apply IH; [exact Hb|]. intros y Hy Hyb. apply (Hd y); [right; exact Hy|exact Hyb].
Qed.

Lemma NoDup_rev' {A} (a : list A) : NoDup a -> NoDup (rev a).
Proof.
  induction 1 as [|x t Hx Hnd IH]; [constructor|]. cbn [rev]. apply NoDup_app'; [exact IH|constructor; [intros []|constructor]|].
  intros y Hy [<-|[]]. apply in_rev in Hy. contradiction.
Qed.

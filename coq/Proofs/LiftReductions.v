(* Image-level semantic theorems for the byte-aligned reductions (C01, C15), obtained from the
   pixel-level lemmas of PixelProofs.v through the lifting theorem of ImageLift.v. *)
From OxiVerif Require Import Base.Common Spec.Adam7 Spec.Sem Model.Types Model.BitDepth Proofs.Bridge Proofs.PixelProofs Proofs.ImageLift.

(* ---------------------------------------------------------------- bits of bytes *)
Lemma sval_app a b : sval (a ++ b) = sval a * 2 ^ Z.of_nat (length b) + sval b.
Proof.
  induction a as [|x a IH]; cbn [app sval]; [lia|]. rewrite IH, app_length, Nat2Z.inj_add, Z.pow_add_r by lia.
  destruct x; lia.
Qed.

Definition bytes256 : list Z := map Z.of_nat (seq 0 256).
Lemma sval_byte_table : forallb (fun b => sval (sbits_of_byte b) =? b) bytes256 = true.
Proof. vm_compute. reflexivity. Qed.
Lemma sval_sbits_of_byte b : 0 <= b < 256 -> sval (sbits_of_byte b) = b.
Proof.
  intros Hb. pose proof sval_byte_table as T. rewrite forallb_forall in T. apply Z.eqb_eq. apply T.
  unfold bytes256. apply in_map_iff. exists (Z.to_nat b). split; [lia|]. apply in_seq. lia.
Qed.
Lemma sbits_of_byte_length b : length (sbits_of_byte b) = 8%nat.
Proof. reflexivity. Qed.

(* samples of a pixel at depth 8 and 16 *)
Lemma samples8 px : bytes_ok px -> map sval (groups 8 (sbits_of_bytes px)) = px.
Proof.
  intros Hok. rewrite groups_is_chunks_exact.
  assert (E : sbits_of_bytes px = concat (map (fun b => sbits_of_byte b) px)).
  { unfold sbits_of_bytes. apply flat_map_concat_map. }
  rewrite E, chunks_exact_concat; [|lia|].
  - rewrite map_map. rewrite <- (map_id px) at 2. apply map_ext_in. intros b Hb. apply sval_sbits_of_byte.
    unfold bytes_ok in Hok. rewrite Forall_forall in Hok. apply Hok. exact Hb.
  - apply Forall_forall. intros x Hx. apply in_map_iff in Hx. destruct Hx as [b [<- _]]. reflexivity.
Qed.

Lemma pairs_app : forall (n : nat) (a b : list Z), length a = (2 * n)%nat -> pairs (a ++ b) = pairs a ++ pairs b.
Proof.
  induction n as [|n IH]; intros a b Ha.
  - destruct a; [reflexivity|cbn in Ha; lia].
  - destruct a as [|x [|y a]]; try (cbn in Ha; lia). cbn [app pairs]. rewrite (IH a b) by (cbn in Ha; lia). reflexivity.
Qed.

Lemma pairs_concat (B : nat) (pxs : list (list Z)) n : B = (2 * n)%nat -> Forall (fun px => length px = B) pxs ->
  pairs (concat pxs) = concat (map pairs pxs).
Proof.
  intros HB Hu. induction Hu as [|px t Hpx Ht IH]; cbn [concat map]; [reflexivity|].
  rewrite (pairs_app n) by lia. rewrite IH. reflexivity.
Qed.

Lemma samples16 : forall (n : nat) px, length px = (2 * n)%nat -> bytes_ok px ->
  map sval (groups 16 (sbits_of_bytes px)) = map (fun p => fst p * 256 + snd p) (pairs px).
Proof.
  intros n px Hl Hok. rewrite groups_is_chunks_exact.
  destruct (chunks_exact_spec 2 px n ltac:(lia) ltac:(lia)) as (Hc & Hu & Hn).
  rewrite <- Hc at 1. rewrite sbits_of_bytes_concat.
  replace 16%nat with (2 * 8)%nat by reflexivity.
  rewrite chunks_exact_concat; [|lia|].
  2:{ apply Forall_forall. intros x Hx. apply in_map_iff in Hx. destruct Hx as [c [<- Hcx]].
      rewrite Forall_forall in Hu. rewrite sbits_of_bytes_length, (Hu c Hcx). reflexivity. }
  rewrite <- Hc at 2. rewrite (pairs_concat 2 _ 1) by (auto; lia). rewrite map_map.
  assert (Hok2 : Forall bytes_ok (chunks_exact 2 px)).
  { apply Forall_forall. intros c Hcx. unfold bytes_ok in *. rewrite Forall_forall in *. intros b Hb. apply Hok.
    rewrite <- Hc. apply in_concat. exists c. auto. }
  clear Hc Hn. induction Hu as [|c t Hcl Ht IH]; cbn [map concat]; [reflexivity|].
  rewrite map_app. rewrite <- IH by (inversion Hok2; auto). f_equal.
  destruct c as [|hi [|lo [|? ?]]]; try (cbn in Hcl; lia). cbn [pairs map fst snd].
  assert (Hb : byte_ok hi /\ byte_ok lo).
  { inversion Hok2 as [|? ? Hc2 _]; subst. unfold bytes_ok in Hc2. inversion Hc2 as [|? ? H1 H2]; subst. inversion H2; subst. auto. }
  destruct Hb as [Hhi Hlo]. unfold byte_ok in *.
  unfold sbits_of_bytes. cbn [flat_map]. rewrite app_nil_r, sval_app, sbits_of_byte_length, !sval_sbits_of_byte by lia.
  reflexivity.
Qed.

(* ---------------------------------------------------------------- well-formed 16-bit headers *)
Definition key16_ok (c : color_type) : Prop :=
  match c with
  | Gray (Some k) => u16 k
  | RGB (Some (r, g, b)) => u16 r /\ u16 g /\ u16 b
  | Indexed _ => False
  | _ => True
  end.

Lemma spec_channels_of c : spec_channels (spec_color_of c) = channels_per_pixel c.
Proof. destruct c; reflexivity. Qed.

(* the 16->8 pixel map *)
Definition g16 (px : list Z) : list Z := map fst (pairs px).

Lemma pairs_length : forall (n : nat) l, length l = (2 * n)%nat -> length (pairs l) = n.
Proof.
  induction n as [|n IH]; intros l Hl.
  - destruct l; [reflexivity|cbn in Hl; lia].
  - destruct l as [|x [|y l]]; try (cbn in Hl; lia). cbn [pairs length]. rewrite IH by (cbn in Hl; lia). reflexivity.
Qed.

Lemma bytes_ok_pairs l : bytes_ok l -> Forall (fun p => byte_ok (fst p) /\ byte_ok (snd p)) (pairs l).
Proof.
  assert (G : forall n (l0 : list Z), (length l0 <= n)%nat -> bytes_ok l0 -> Forall (fun p => byte_ok (fst p) /\ byte_ok (snd p)) (pairs l0)).
  { induction n as [|n IH]; intros l0 Hl Hok.
    - destruct l0; [constructor|cbn in Hl; lia].
    - destruct l0 as [|x [|y l0]]; try constructor.
      + unfold bytes_ok in Hok. inversion Hok as [|? ? H1 H2]; subst. inversion H2; subst. cbn. auto.
      + apply IH; [cbn in Hl; lia|]. unfold bytes_ok in *. inversion Hok as [|? ? H1 H2]; subst. inversion H2; subst. auto. }
  apply (G (length l)). lia.
Qed.

(* one pixel: when every sample has equal bytes, the 8-bit pixel means the same *)
Lemma pixel_g16 c px : key16_ok c -> length px = Z.to_nat (2 * channels_per_pixel c) -> bytes_ok px ->
  existsb (fun p => negb (fst p =? snd p)) (pairs px) = false ->
  pxcol (spec_color_of (color_type_16_to_8 c exact_16_to_8)) 8 (g16 px) = pxcol (spec_color_of c) 16 px.
Proof.
  intros Hk Hl Hok Hex. unfold pxcol, pixel_color. change (Z.to_nat 8) with 8%nat. change (Z.to_nat 16) with 16%nat.
  assert (Hok' : bytes_ok (g16 px)).
  { unfold g16, bytes_ok. apply Forall_forall. intros b Hb. apply in_map_iff in Hb. destruct Hb as [p [<- Hp]].
    pose proof (bytes_ok_pairs px Hok) as P. rewrite Forall_forall in P. apply (P p Hp). }
  rewrite samples8 by exact Hok'.
  rewrite (samples16 (Z.to_nat (channels_per_pixel c))) by (auto; destruct c; cbn in *; lia).
  pose proof (bytes_ok_pairs px Hok) as P.
  assert (Heq : Forall (fun p => fst p = snd p) (pairs px)).
  { apply Forall_forall. intros p Hp. destruct (fst p =? snd p) eqn:E; [apply Z.eqb_eq; exact E|].
    exfalso. assert (existsb (fun p => negb (fst p =? snd p)) (pairs px) = true) by (apply existsb_exists; exists p; rewrite E; auto). congruence. }
  unfold g16.
  destruct c as [key|key|pal| |]; cbn [channels_per_pixel] in Hl; [| | destruct Hk | |].
  - (* gray *)
    destruct px as [|a [|b [|? ?]]]; try (cbn in Hl; lia). cbn [pairs map fst snd] in *.
    inversion Heq as [|? ? E _]; subst. cbn [fst snd] in E. subst b.
    inversion P as [|? ? [Ha _] _]; subst. cbn [fst] in Ha. unfold byte_ok in Ha.
    replace (a * 256 + a) with (257 * a) by lia. symmetry. apply pixel_16_to_8_gray; [|lia].
    intros k ->. exact Hk.
  - (* rgb *)
    destruct px as [|r1 [|r2 [|g1 [|g2 [|b1 [|b2 [|? ?]]]]]]]; try (cbn in Hl; lia). cbn [pairs map fst snd] in *.
    inversion Heq as [|? ? E1 Heq2]; subst. inversion Heq2 as [|? ? E2 Heq3]; subst. inversion Heq3 as [|? ? E3 _]; subst.
    cbn [fst snd] in E1, E2, E3. subst r2 g2 b2.
    inversion P as [|? ? [Hr _] P2]; subst. inversion P2 as [|? ? [Hg _] P3]; subst. inversion P3 as [|? ? [Hb _] _]; subst.
    cbn [fst] in Hr, Hg, Hb. unfold byte_ok in *.
    replace (r1 * 256 + r1) with (257 * r1) by lia. replace (g1 * 256 + g1) with (257 * g1) by lia. replace (b1 * 256 + b1) with (257 * b1) by lia.
    symmetry. apply pixel_16_to_8_rgb; try lia. intros kr kg kb ->. exact Hk.
  - (* gray alpha *)
    destruct px as [|v1 [|v2 [|a1 [|a2 [|? ?]]]]]; try (cbn in Hl; lia). cbn [pairs map fst snd] in *.
    inversion Heq as [|? ? E1 Heq2]; subst. inversion Heq2 as [|? ? E2 _]; subst. cbn [fst snd] in E1, E2. subst v2 a2.
    inversion P as [|? ? [Hv _] P2]; subst. inversion P2 as [|? ? [Ha _] _]; subst. cbn [fst] in Hv, Ha. unfold byte_ok in *.
    replace (v1 * 256 + v1) with (257 * v1) by lia. replace (a1 * 256 + a1) with (257 * a1) by lia.
    symmetry. apply pixel_16_to_8_gray_alpha; lia.
  - (* rgba *)
    destruct px as [|r1 [|r2 [|g1 [|g2 [|b1 [|b2 [|a1 [|a2 [|? ?]]]]]]]]]; try (cbn in Hl; lia). cbn [pairs map fst snd] in *.
    inversion Heq as [|? ? E1 Heq2]; subst. inversion Heq2 as [|? ? E2 Heq3]; subst. inversion Heq3 as [|? ? E3 Heq4]; subst. inversion Heq4 as [|? ? E4 _]; subst.
    cbn [fst snd] in E1, E2, E3, E4. subst r2 g2 b2 a2.
    inversion P as [|? ? [Hr _] P2]; subst. inversion P2 as [|? ? [Hg _] P3]; subst. inversion P3 as [|? ? [Hb _] P4]; subst. inversion P4 as [|? ? [Ha _] _]; subst.
    cbn [fst] in Hr, Hg, Hb, Ha. unfold byte_ok in *.
    replace (r1 * 256 + r1) with (257 * r1) by lia. replace (g1 * 256 + g1) with (257 * g1) by lia.
    replace (b1 * 256 + b1) with (257 * b1) by lia. replace (a1 * 256 + a1) with (257 * a1) by lia.
    symmetry. apply pixel_16_to_8_rgba; lia.
Qed.

(* ---------------------------------------------------------------- whole images: lossless 16 -> 8 *)
Lemma depth_legal_16_to_8 c conv : key16_ok c -> depth_legal (spec_color_of (color_type_16_to_8 c conv)) 8 = true.
Proof. destruct c as [[k|]|[[[r g] b]|]|pal| |]; cbn; intros H; try reflexivity; try destruct H;
       repeat match goal with |- context [match ?x with _ => _ end] => destruct x end; reflexivity. Qed.

Lemma channels_16_to_8 c conv : channels_per_pixel (color_type_16_to_8 c conv) = channels_per_pixel c.
Proof. destruct c as [[k|]|[[[r g] b]|]|pal| |]; cbn; try reflexivity; repeat match goal with |- context [match ?x with _ => _ end] => destruct x end; reflexivity. Qed.

Lemma existsb_concat {A} (f : A -> bool) (ls : list (list A)) :
  existsb f (concat ls) = false -> forall l, In l ls -> existsb f l = false.
Proof.
  induction ls as [|a t IH]; cbn [concat]; intros H l Hl; [destruct Hl|].
  rewrite existsb_app in H. apply orb_false_iff in H. destruct H as [H1 H2]. destruct Hl as [<-|Hl]; auto.
Qed.

Lemma channels_pos c : 1 <= channels_per_pixel c <= 4.
Proof. destruct c; cbn; lia. Qed.

Theorem reduced_16_to_8_sem img img' pic :
  key16_ok (ctype (hdr img)) -> bytes_ok (data img) ->
  reduced_bit_depth_16_to_8 img false = Some img' ->
  sem img = Some pic -> sem img' = Some pic.
Proof.
  intros Hk Hok Hred Hsem. unfold reduced_bit_depth_16_to_8 in Hred.
  destruct (depth (hdr img) =? 16) eqn:Ed; cbn [negb] in Hred; [|discriminate]. apply Z.eqb_eq in Ed.
  destruct (existsb (fun p => negb (fst p =? snd p)) (pairs (data img))) eqn:Eex; [discriminate|]. injection Hred as <-.
  unfold sem in *. cbn [hdr data width height ctype depth interlaced with_depth with_ctype].
  set (c := ctype (hdr img)) in *. set (ch := channels_per_pixel c).
  pose proof (channels_pos c) as Hch. fold ch in Hch.
  set (B := Z.to_nat (2 * ch)). set (B' := Z.to_nat ch).
  rewrite Ed in Hsem. rewrite spec_sem_gsem in Hsem.
  destruct (negb (depth_legal (spec_color_of c) 16)); [discriminate|].
  rewrite spec_channels_of in Hsem. fold ch in Hsem.
  replace (16 * ch) with (8 * Z.of_nat B) in Hsem by (unfold B; lia).
  destruct (gsem_some_length _ _ _ _ B _ _ ltac:(unfold B; lia) Hsem) as [k Hlen].
  destruct (chunks_exact_spec B (data img) k ltac:(unfold B; lia) Hlen) as (Hc & Hu & Hn).
  set (pxs := chunks_exact B (data img)) in *.
  rewrite <- Hc in Hsem.
  rewrite spec_sem_gsem, depth_legal_16_to_8 by exact Hk. cbn [negb].
  rewrite spec_channels_of, channels_16_to_8. fold ch.
  replace (8 * ch) with (8 * Z.of_nat B') by (unfold B'; lia).
  assert (Hdata : map fst (pairs (data img)) = concat (map g16 pxs)).
  { rewrite <- Hc at 1. rewrite (pairs_concat B pxs (Z.to_nat ch)) by (auto; unfold B; lia).
    rewrite concat_map, map_map. reflexivity. }
  rewrite Hdata.
  apply (pixelwise_gsem _ _ _ (pixel_color (spec_color_of c) 16) _ B B' g16 pxs pic); auto; try (unfold B, B'; lia).
  intros px Hpx. rewrite Forall_forall in Hu. pose proof (Hu px Hpx) as Hl.
  split.
  - unfold g16. rewrite map_length. apply pairs_length. unfold B, B' in *. lia.
  - change (pxcol (spec_color_of (color_type_16_to_8 c exact_16_to_8)) 8 (g16 px) = pxcol (spec_color_of c) 16 px).
    apply pixel_g16.
    + exact Hk.
    + unfold B in Hl. fold ch. exact Hl.
    + unfold bytes_ok in *. rewrite Forall_forall in *. intros b Hb. apply Hok. rewrite <- Hc. apply in_concat. exists px. auto.
    + rewrite <- Hc in Eex. rewrite (pairs_concat B pxs (Z.to_nat ch)) in Eex by (auto; try (apply Forall_forall; exact Hu); unfold B; lia).
      apply (existsb_concat _ _ Eex). apply in_map. exact Hpx.
Qed.

(* ---------------------------------------------------------------- whole images: scaling 16 -> 8 (C15) *)
Definition gscale (px : list Z) : list Z := map (fun p => scale_16_to_8 (fst p * 256 + snd p)) (pairs px).

Definition sem_scaled (img : image) : option picture :=
  spec_sem_scaled (width (hdr img)) (height (hdr img)) (spec_color_of (ctype (hdr img))) (interlaced (hdr img)) (data img).

Lemma scale_16_to_8_range v : u16 v -> 0 <= scale_16_to_8 v < 256.
Proof. intros H. rewrite scale8_is_round8 by exact H. apply round8_nearest. exact H. Qed.

Lemma key16_ok_scaled c : key16_ok c ->
  match c with Gray (Some k) => u16 k | RGB (Some (r, g, b)) => u16 r /\ u16 g /\ u16 b | _ => True end.
Proof. destruct c as [[k|]|[[[r g] b]|]|pal| |]; cbn; auto. Qed.

Lemma pixel_gscale c px : key16_ok c -> length px = Z.to_nat (2 * channels_per_pixel c) -> bytes_ok px ->
  pxcol (spec_color_of (color_type_16_to_8 c (fun v => Some (scale_16_to_8 v)))) 8 (gscale px)
  = pixel_color_scaled (spec_color_of c) (sbits_of_bytes px).
Proof.
  intros Hk Hl Hok. unfold pxcol, pixel_color, pixel_color_scaled. change (Z.to_nat 8) with 8%nat.
  pose proof (bytes_ok_pairs px Hok) as P.
  assert (Hv : Forall u16 (map (fun p => fst p * 256 + snd p) (pairs px))).
  { apply Forall_forall. intros v Hv. apply in_map_iff in Hv. destruct Hv as [p [<- Hp]]. rewrite Forall_forall in P.
    destruct (P p Hp) as [H1 H2]. unfold byte_ok, u16 in *. lia. }
  assert (Hok' : bytes_ok (gscale px)).
  { unfold gscale, bytes_ok. apply Forall_forall. intros b Hb. apply in_map_iff in Hb. destruct Hb as [p [<- Hp]].
    apply scale_16_to_8_range. rewrite Forall_forall in Hv. apply Hv. apply in_map_iff. exists p. auto. }
  rewrite samples8 by exact Hok'.
  rewrite (samples16 (Z.to_nat (channels_per_pixel c))) by (auto; pose proof (channels_pos c); lia).
  unfold gscale. rewrite <- (map_map (fun p => fst p * 256 + snd p) scale_16_to_8).
  apply pixel_scaled; [apply key16_ok_scaled; exact Hk|exact Hv].
Qed.

Theorem scaled_16_to_8_sem img img' pic :
  key16_ok (ctype (hdr img)) -> bytes_ok (data img) ->
  scaled_bit_depth_16_to_8 img = Some img' ->
  sem_scaled img = Some pic -> sem img' = Some pic.
Proof.
  intros Hk Hok Hred Hsem. unfold scaled_bit_depth_16_to_8 in Hred.
  destruct (depth (hdr img) =? 16) eqn:Ed; cbn [negb] in Hred; [|discriminate]. injection Hred as <-.
  unfold sem, sem_scaled in *. cbn [hdr data width height ctype depth interlaced with_depth with_ctype].
  set (c := ctype (hdr img)) in *. set (ch := channels_per_pixel c).
  pose proof (channels_pos c) as Hch. fold ch in Hch.
  set (B := Z.to_nat (2 * ch)). set (B' := Z.to_nat ch).
  rewrite spec_sem_scaled_gsem in Hsem.
  destruct (negb (depth_legal (spec_color_of c) 16)); [discriminate|].
  rewrite spec_channels_of in Hsem. fold ch in Hsem.
  replace (16 * ch) with (8 * Z.of_nat B) in Hsem by (unfold B; lia).
  destruct (gsem_some_length _ _ _ _ B _ _ ltac:(unfold B; lia) Hsem) as [k Hlen].
  destruct (chunks_exact_spec B (data img) k ltac:(unfold B; lia) Hlen) as (Hc & Hu & Hn).
  set (pxs := chunks_exact B (data img)) in *.
  rewrite <- Hc in Hsem.
  rewrite spec_sem_gsem, depth_legal_16_to_8 by exact Hk. cbn [negb].
  rewrite spec_channels_of, channels_16_to_8. fold ch.
  replace (8 * ch) with (8 * Z.of_nat B') by (unfold B'; lia).
  assert (Hdata : map (fun p => scale_16_to_8 (fst p * 256 + snd p)) (pairs (data img)) = concat (map gscale pxs)).
  { rewrite <- Hc at 1. rewrite (pairs_concat B pxs (Z.to_nat ch)) by (auto; unfold B; lia).
    rewrite concat_map, map_map. reflexivity. }
  rewrite Hdata.
  apply (pixelwise_gsem _ _ _ (pixel_color_scaled (spec_color_of c)) _ B B' gscale pxs pic); auto; try (unfold B, B'; lia).
  intros px Hpx. rewrite Forall_forall in Hu. pose proof (Hu px Hpx) as Hl.
  split.
  - unfold gscale. rewrite map_length. apply pairs_length. unfold B, B' in *. lia.
  - change (pxcol (spec_color_of (color_type_16_to_8 c (fun v => Some (scale_16_to_8 v)))) 8 (gscale px) = pixel_color_scaled (spec_color_of c) (sbits_of_bytes px)).
    apply pixel_gscale.
    + exact Hk.
    + unfold B in Hl. fold ch. exact Hl.
    + unfold bytes_ok in *. rewrite Forall_forall in *. intros b Hb. apply Hok. rewrite <- Hc. apply in_concat. exists px. auto.
Qed.

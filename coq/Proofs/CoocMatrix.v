(* Co-occurrence matrix facts for the palette sorters (mzeng / battiato): shape, symmetry, non-negativity, every consecutive pair of
   the pixel sequence is counted, and only values that occur are counted. *)
From OxiVerif Require Import Base.Common Model.Types Model.ScanLines Model.Palette.
Local Open Scope Z_scope.

Lemma nth_set_nth {A} (l : list A) i k x d : nth k (set_nth i x l) d = if (k =? i)%nat && (i <? length l)%nat then x else nth k l d.
Proof.
  revert i k. induction l as [|a t IH]; intros [|i] [|k]; cbn [set_nth nth length Nat.eqb Nat.ltb Nat.leb andb]; try reflexivity.
  - destruct (k =? i)%nat; reflexivity.
  - rewrite IH. destruct (k =? i)%nat; cbn [andb]; [|reflexivity]. change (S i <? S (length t))%nat with (i <? length t)%nat. reflexivity.
Qed.

Definition shape (n : nat) (m : matrix) : Prop := length m = n /\ Forall (fun r => length r = n) m.

Lemma shape_row n m i : shape n m -> (i < n)%nat -> length (nth i m []) = n.
Proof. intros [Hl Hr] Hi. rewrite Forall_forall in Hr. apply Hr. apply nth_In. lia. Qed.

Lemma shape_mincr n m i j : shape n m -> shape n (mincr m i j).
Proof.
  intros [Hl Hr]. unfold mincr. split; [rewrite set_nth_length; exact Hl|].
  apply Forall_forall. intros r Hr'. apply In_nth with (d := []) in Hr'. destruct Hr' as (k & Hk & <-). rewrite set_nth_length in Hk.
  rewrite nth_set_nth. rewrite Forall_forall in Hr.
  destruct ((k =? Z.to_nat i)%nat && (Z.to_nat i <? length m)%nat) eqn:E.
  - unfold incr_nth. rewrite set_nth_length. unfold nthZ. apply andb_true_iff in E. destruct E as [_ E]. apply Nat.ltb_lt in E. apply Hr. apply nth_In. exact E.
  - apply Hr. apply nth_In. exact Hk.
Qed.

Lemma mget_mincr n m i j a b : shape n m -> 0 <= i < Z.of_nat n -> 0 <= j < Z.of_nat n -> 0 <= a -> 0 <= b ->
  mget (mincr m i j) a b = mget m a b + (if (a =? i) && (b =? j) then 1 else 0).
Proof.
  intros Hs Hi Hj Ha Hb. pose proof Hs as [Hl Hr]. unfold mget, mincr, nthZ. rewrite nth_set_nth.
  destruct (Z.eqb_spec a i) as [->|Hne].
  - rewrite Nat.eqb_refl. destruct (Nat.ltb_spec (Z.to_nat i) (length m)); [|lia]. cbn [andb]. unfold incr_nth, nthZ. rewrite nth_set_nth.
    assert (Hrl : length (nth (Z.to_nat i) m []) = n) by (apply (shape_row n m); [exact Hs|lia]).
    destruct (Z.eqb_spec b j) as [->|Hnb].
    + rewrite Nat.eqb_refl. destruct (Nat.ltb_spec (Z.to_nat j) (length (nth (Z.to_nat i) m []))); [|lia]. reflexivity.
    + destruct (Nat.eqb_spec (Z.to_nat b) (Z.to_nat j)); [lia|]. cbn [andb]. lia.
  - destruct (Nat.eqb_spec (Z.to_nat a) (Z.to_nat i)); [lia|]. cbn [andb]. lia.
Qed.

Lemma mget_mincr2 n m p v a b : shape n m -> 0 <= p < Z.of_nat n -> 0 <= v < Z.of_nat n -> 0 <= a -> 0 <= b ->
  mget (mincr2 m p v) a b = mget m a b + (if (a =? p) && (b =? v) then 1 else 0) + (if (a =? v) && (b =? p) then 1 else 0).
Proof.
  intros Hs Hp Hv Ha Hb. unfold mincr2. rewrite (mget_mincr n) by (auto; apply shape_mincr; auto). rewrite (mget_mincr n) by auto. lia.
Qed.

(* the invariant of the accumulation *)
Definition adjacent {A} (x y : A) (l : list A) : Prop := exists l1 l2, l = l1 ++ x :: y :: l2.

Lemma adjacent_snoc {A} (x y : A) l v : adjacent x y (l ++ [v]) <-> adjacent x y l \/ ((exists l', l = l' ++ [x]) /\ y = v).
Proof.
  split.
  - intros (l1 & l2 & E). destruct l2 as [|w l2'] using rev_ind.
    + replace (l1 ++ [x; y]) with ((l1 ++ [x]) ++ [y]) in E by (rewrite <- app_assoc; reflexivity).
      apply app_inj_tail in E. destruct E as [-> ->]. right. split; [exists l1; reflexivity|reflexivity].
    + clear IHl2'. replace (l1 ++ x :: y :: l2' ++ [w]) with ((l1 ++ x :: y :: l2') ++ [w]) in E by (rewrite <- app_assoc; reflexivity).
      apply app_inj_tail in E. destruct E as [-> _]. left. exists l1, l2'. reflexivity.
  - intros [(l1 & l2 & ->)|[[l' ->] ->]].
    + exists l1, (l2 ++ [v]). rewrite <- app_assoc. reflexivity.
    + exists l', []. rewrite <- app_assoc. reflexivity.
Qed.

Record cooc_inv (n : nat) (m : matrix) (seen : list Z) : Prop := {
  ci_shape : shape n m;
  ci_range : Forall (fun v => 0 <= v < Z.of_nat n) seen;
  ci_nonneg : forall a b, 0 <= a -> 0 <= b -> 0 <= mget m a b;
  ci_sym : forall a b, 0 <= a -> 0 <= b -> mget m a b = mget m b a;
  ci_adj : forall x y, adjacent x y seen -> 1 <= mget m x y;
  ci_used : forall a b, 0 <= a -> 0 <= b -> 0 < mget m a b -> In a seen /\ In b seen
}.

Lemma adjacent_in {A} (x y : A) l : adjacent x y l -> In x l /\ In y l.
Proof. intros (l1 & l2 & ->). split; apply in_or_app; right; cbn; auto. Qed.

Lemma mincr2_inv n m seen p v : cooc_inv n m seen -> 0 <= p < Z.of_nat n -> 0 <= v < Z.of_nat n -> In p seen -> In v seen ->
  cooc_inv n (mincr2 m p v) seen.
Proof.
  intros [S R N Y A U] Hp Hv Ip Iv. constructor.
  - unfold mincr2. apply shape_mincr. apply shape_mincr. exact S.
  - exact R.
  - intros a b Ha Hb. rewrite (mget_mincr2 n) by auto. specialize (N a b Ha Hb). destruct (_ && _), (_ && _); lia.
  - intros a b Ha Hb. rewrite !(mget_mincr2 n) by auto. rewrite (Y a b Ha Hb).
    destruct (Z.eqb_spec a p), (Z.eqb_spec b v), (Z.eqb_spec a v), (Z.eqb_spec b p); cbn [andb]; lia.
  - intros x y Hxy. specialize (A x y Hxy). destruct (adjacent_in _ _ _ Hxy) as [Ix Iy]. rewrite Forall_forall in R.
    pose proof (R x Ix). pose proof (R y Iy). rewrite (mget_mincr2 n) by (auto; lia). destruct (_ && _), (_ && _); lia.
  - intros a b Ha Hb H. rewrite (mget_mincr2 n) in H by auto.
    assert (C : 0 < mget m a b \/ (a = p /\ b = v) \/ (a = v /\ b = p)).
    { destruct (Z.eqb_spec a p), (Z.eqb_spec b v), (Z.eqb_spec a v), (Z.eqb_spec b p); cbn [andb] in H; auto; left; lia. }
    destruct C as [C|[[-> ->]|[-> ->]]]; [apply U; auto|split; assumption|split; assumption].
Qed.

(* extending the sequence by one value whose pair with the previous value has just been counted *)
Lemma cooc_inv_snoc n m seen v : cooc_inv n m seen -> 0 <= v < Z.of_nat n ->
  (forall p, (exists l', seen = l' ++ [p]) -> 1 <= mget m p v) ->
  cooc_inv n m (seen ++ [v]).
Proof.
  intros [S R N Y A U] Hv Hlast. constructor; auto.
  - apply Forall_app. split; [exact R|constructor; [exact Hv|constructor]].
  - intros x y Hxy. apply adjacent_snoc in Hxy. destruct Hxy as [H|[H ->]]; [apply A; exact H|apply Hlast; exact H].
  - intros a b Ha Hb H. destruct (U a b Ha Hb H). split; apply in_or_app; left; assumption.
Qed.

Definition pv_ok (pv : option Z) (seen : list Z) : Prop :=
  match pv with Some p => exists l', seen = l' ++ [p] | None => seen = [] end.

Lemma cooc_step n m seen pv v : cooc_inv n m seen -> pv_ok pv seen -> 0 <= v < Z.of_nat n ->
  cooc_inv n (match pv with Some p => mincr2 m p v | None => m end) (seen ++ [v]).
Proof.
  intros I Hpv Hv. destruct pv as [p|]; cbn [pv_ok] in Hpv.
  - destruct Hpv as [l' E]. destruct I as [S R N Y A U].
    assert (Ip : In p seen) by (rewrite E; apply in_or_app; right; left; reflexivity).
    assert (Hp : 0 <= p < Z.of_nat n) by (rewrite Forall_forall in R; apply R; exact Ip).
    constructor.
    + unfold mincr2. apply shape_mincr. apply shape_mincr. exact S.
    + apply Forall_app. split; [exact R|constructor; [exact Hv|constructor]].
    + intros a b Ha Hb. rewrite (mget_mincr2 n) by auto. specialize (N a b Ha Hb). destruct (_ && _), (_ && _); lia.
    + intros a b Ha Hb. rewrite !(mget_mincr2 n) by auto. rewrite (Y a b Ha Hb).
      destruct (Z.eqb_spec a p), (Z.eqb_spec b v), (Z.eqb_spec a v), (Z.eqb_spec b p); cbn [andb]; lia.
    + intros x y Hxy. apply adjacent_snoc in Hxy. destruct Hxy as [H|[[l'' E'] ->]].
      * pose proof (A x y H). destruct (adjacent_in _ _ _ H) as [Ix Iy]. rewrite Forall_forall in R. pose proof (R x Ix). pose proof (R y Iy).
        rewrite (mget_mincr2 n) by (auto; lia). destruct (_ && _), (_ && _); lia.
      * rewrite E in E'. apply app_inj_tail in E'. destruct E' as [_ <-]. rewrite (mget_mincr2 n) by (auto; lia).
        rewrite !Z.eqb_refl. cbn [andb]. specialize (N p v ltac:(lia) ltac:(lia)). destruct (_ && _); lia.
    + intros a b Ha Hb H. rewrite (mget_mincr2 n) in H by auto.
      assert (Iv : In v (seen ++ [v])) by (apply in_or_app; right; left; reflexivity).
      assert (Ip' : In p (seen ++ [v])) by (apply in_or_app; left; exact Ip).
      assert (C : 0 < mget m a b \/ (a = p /\ b = v) \/ (a = v /\ b = p)).
      { destruct (Z.eqb_spec a p), (Z.eqb_spec b v), (Z.eqb_spec a v), (Z.eqb_spec b p); cbn [andb] in H; auto; left; lia. }
      destruct C as [C|[[-> ->]|[-> ->]]]; [|split; assumption|split; assumption].
      destruct (U a b Ha Hb C). split; apply in_or_app; left; assumption.
  - subst seen. destruct I as [S R N Y A U]. constructor; auto.
    + constructor; [exact Hv|constructor].
    + intros x y (l1 & l2 & E). destruct l1 as [|? [|? ?]]; discriminate.
    + intros a b Ha Hb H. destruct (U a b Ha Hb H) as [[] _].
Qed.

Lemma cooc_line_inv n : forall cur pl m pv seen m' pv',
  cooc_inv n m seen -> pv_ok pv seen ->
  (forall l x, pl = Some l -> In x l -> In x seen) ->
  Forall (fun v => 0 <= v < Z.of_nat n) cur ->
  cooc_line (Z.of_nat n) cur pl m pv = Ok (m', pv') ->
  cooc_inv n m' (seen ++ cur) /\ pv_ok pv' (seen ++ cur).
Proof.
  induction cur as [|v t IH]; intros pl m pv seen m' pv' I Hpv Hpl Hcur H; cbn [cooc_line] in H.
  - injection H as <- <-. rewrite app_nil_r. split; assumption.
  - apply Forall_cons_iff in Hcur. destruct Hcur as [Hv Ht].
    destruct (Z.ltb_spec (Z.of_nat n) v); [lia|]. destruct (Z.eqb_spec (Z.of_nat n) v); [lia|].
    pose proof (cooc_step n m seen pv v I Hpv Hv) as I1.
    set (m1 := match pv with Some p => mincr2 m p v | None => m end) in *.
    assert (Hpv1 : pv_ok (Some v) (seen ++ [v])) by (exists seen; reflexivity).
    replace (seen ++ v :: t) with ((seen ++ [v]) ++ t) by (rewrite <- app_assoc; reflexivity).
    destruct pl as [[|pval prest]|].
    + discriminate.
    + assert (Ipv : In pval seen) by (apply (Hpl (pval :: prest)); [reflexivity|left; reflexivity]).
      assert (Hpr : 0 <= pval < Z.of_nat n) by (destruct I as [_ R _ _ _ _]; rewrite Forall_forall in R; apply R; exact Ipv).
      destruct (Z.ltb_spec (Z.of_nat n) pval); [lia|]. destruct (Z.eqb_spec (Z.of_nat n) pval); [lia|].
      apply (IH (Some prest) (mincr2 m1 pval v) (Some v) (seen ++ [v]) m' pv'); auto.
      * apply mincr2_inv; auto; apply in_or_app; [left; exact Ipv|right; left; reflexivity].
      * intros l x [= <-] Hx. apply in_or_app. left. apply (Hpl (pval :: prest)); [reflexivity|right; exact Hx].
    + apply (IH None m1 (Some v) (seen ++ [v]) m' pv'); auto. intros l x [=].
Qed.

Lemma cooc_lines_inv n : forall lines pl m pv seen m',
  cooc_inv n m seen -> pv_ok pv seen ->
  (forall l x, pl = Some l -> In x l -> In x seen) ->
  Forall (Forall (fun v => 0 <= v < Z.of_nat n)) lines ->
  cooc_lines (Z.of_nat n) lines pl m pv = Ok m' ->
  cooc_inv n m' (seen ++ concat lines).
Proof.
  induction lines as [|l t IH]; intros pl m pv seen m' I Hpv Hpl Hl H; cbn [cooc_lines] in H.
  - injection H as <-. cbn [concat]. rewrite app_nil_r. exact I.
  - apply Forall_cons_iff in Hl. destruct Hl as [Hl Ht].
    destruct (cooc_line (Z.of_nat n) l pl m pv) as [[m1 pv1]|?|?] eqn:E; cbn [bind] in H; try discriminate.
    destruct (cooc_line_inv n l pl m pv seen m1 pv1 I Hpv Hpl Hl E) as [I1 Hpv1].
    cbn [concat]. rewrite app_assoc. apply (IH (Some l) m1 pv1 (seen ++ l) m'); auto.
    intros l0 x [= <-] Hx. apply in_or_app. right. exact Hx.
Qed.

Lemma nth_repeat' {A} (x d : A) n k : (k < n)%nat -> nth k (repeat x n) d = x.
Proof. revert k. induction n as [|n IH]; intros [|k] H; cbn; try lia; auto. apply IH. lia. Qed.

Lemma mget_zero n a b : mget (repeat (repeat 0 n) n) a b = 0.
Proof.
  unfold mget, nthZ. destruct (Nat.lt_ge_cases (Z.to_nat a) n) as [H|H].
  - rewrite nth_repeat' by exact H. destruct (Nat.lt_ge_cases (Z.to_nat b) n); [rewrite nth_repeat' by assumption; reflexivity|]. apply nth_overflow. rewrite repeat_length. lia.
  - rewrite (nth_overflow (repeat (repeat 0 n) n)) by (rewrite repeat_length; lia). destruct (Z.to_nat b); reflexivity.
Qed.

Theorem co_occurrence_inv (n : nat) (lines : list scanline) m :
  Forall (fun l => Forall (fun v => 0 <= v < Z.of_nat n) (l_data l)) lines ->
  co_occurrence_matrix n lines = Ok m -> cooc_inv n m (concat (map l_data lines)).
Proof.
  intros Hl H. unfold co_occurrence_matrix in H.
  apply (cooc_lines_inv n (map l_data lines) None (repeat (repeat 0 n) n) None [] m); auto.
  - constructor.
    + split; [apply repeat_length|]. apply Forall_forall. intros r Hr. apply repeat_spec in Hr. subst. apply repeat_length.
    + constructor.
    + intros a b _ _. rewrite mget_zero. lia.
    + intros a b _ _. rewrite !mget_zero. reflexivity.
    + intros x y (l1 & l2 & E). destruct l1; discriminate.
    + intros a b _ _ H0. rewrite mget_zero in H0. lia.
  - reflexivity.
  - intros l x [=].
  - apply Forall_forall. intros d Hd. apply in_map_iff in Hd. destruct Hd as [l [<- Hin]]. rewrite Forall_forall in Hl. apply Hl. exact Hin.
Qed.

(* Proofs about PngData::output (C02): what is written is a well-formed chunk sequence that the
   specification's strict container parser reads back exactly. *)
From OxiVerif Require Import Base.Common Base.Crc32 Spec.Decode Model.Types Model.Options Model.Headers Model.PngData.

(* the chunk sequence written by `output` *)
Definition key_chunks (hd : ihdr) : list (cname * list Z) :=
  match ctype hd with
  | Indexed pal =>
      (name_PLTE, flat_map (fun c : rgba8 => let '(r, g, b, _) := c in [r; g; b]) pal)
      :: match rposition_alpha pal 0 None with
         | Some last => [(name_tRNS, map (fun c : rgba8 => let '(_, _, _, a) := c in a) (firstn (Z.to_nat (last + 1)) pal))]
         | None => []
         end
  | Gray (Some t) => [(name_tRNS, to_be16 t)]
  | RGB (Some (r, g, b)) => [(name_tRNS, to_be16 r ++ to_be16 g ++ to_be16 b)]
  | _ => []
  end.

Fixpoint frame_chunk_list (fs : list frame) (seq : Z) : list (cname * list Z) :=
  match fs with
  | [] => []
  | f :: t => (name_fcTL, fctl_data f seq) :: (name_fdAT, fdat_data f (seq + 1)) :: frame_chunk_list t (seq + 2)
  end.

Definition as_pair (c : chunk) : cname * list Z := (c_name c, c_data c).

Definition output_chunks (p : pngdata) : list (cname * list Z) :=
  let hd := hdr (raw p) in
  let parts := split_idat (aux_chunks p) [] in
  let aux_pre := match parts with x :: _ => x | [] => [] end in
  let aux_post := match parts with _ :: t => t | [] => [] end in
  let specials := List.filter (write_special hd) aux_pre in
  [(name_IHDR, to_be32 (width hd) ++ to_be32 (height hd) ++
               [depth hd; png_header_code (ctype hd); 0; 0; if interlaced hd then 1 else 0])]
  ++ map as_pair (List.filter (fun c => negb (after_plte c)) aux_pre)
  ++ key_chunks hd
  ++ map as_pair specials
  ++ [(name_IDAT, idat_data p)]
  ++ frame_chunk_list (frames p) (lenZ (List.filter (fun c => cname_eqb (c_name c) name_fcTL) specials))
  ++ map as_pair (concat aux_post)
  ++ [(name_IEND, [])].

Definition serialize (cs : list (cname * list Z)) : list Z :=
  flat_map (fun c => write_png_block (fst c) (snd c)) cs.

Lemma flat_map_map {A B C} (f : B -> list C) (g : A -> B) l : flat_map f (map g l) = flat_map (fun x => f (g x)) l.
Proof. induction l; cbn; [reflexivity|]. rewrite IHl. reflexivity. Qed.

Lemma write_frames_chunks fs : forall s, write_frames fs s = serialize (frame_chunk_list fs s).
Proof.
  induction fs as [|f t IH]; intros s; cbn [write_frames frame_chunk_list serialize flat_map]; [reflexivity|].
  rewrite IH. unfold serialize. cbn [fst snd]. rewrite <- ?app_assoc. reflexivity.
Qed.

Lemma flat_map_concat {A B} (f : A -> list B) (ls : list (list A)) :
  flat_map (fun part => flat_map f part) ls = flat_map f (concat ls).
Proof. induction ls as [|l t IH]; cbn; [reflexivity|]. rewrite IH, flat_map_app. reflexivity. Qed.

(* `output` is the signature followed by the serialisation of that chunk sequence *)
Theorem output_is_serialize p : output p = PNG_SIG ++ serialize (output_chunks p).
Proof.
  unfold output, output_chunks, serialize.
  rewrite !flat_map_app. cbn [flat_map fst snd app]. rewrite !app_nil_r.
  rewrite !flat_map_map. unfold as_pair. cbn [fst snd].
  rewrite write_frames_chunks. unfold serialize.
  rewrite flat_map_concat.
  f_equal. f_equal. f_equal.
  assert (K : forall hd, match ctype hd with
      | Indexed pal =>
          write_png_block name_PLTE (flat_map (fun c : rgba8 => let '(r, g, b, _) := c in [r; g; b]) pal) ++
          match rposition_alpha pal 0 None with
          | Some last => write_png_block name_tRNS (map (fun c : rgba8 => let '(_, _, _, a) := c in a) (firstn (Z.to_nat (last + 1)) pal))
          | None => []
          end
      | Gray (Some t) => write_png_block name_tRNS (to_be16 t)
      | RGB (Some (r, g, b)) => write_png_block name_tRNS (to_be16 r ++ to_be16 g ++ to_be16 b)
      | _ => []
      end = flat_map (fun c => write_png_block (fst c) (snd c)) (key_chunks hd)).
  { intros hd. unfold key_chunks. destruct (ctype hd) as [[k|]|[[[r g] b]|]|pal| |]; cbn [flat_map fst snd]; rewrite ?app_nil_r; try reflexivity.
    destruct (rposition_alpha pal 0 None); cbn [flat_map fst snd]; rewrite ?app_nil_r; reflexivity. }
  rewrite K. reflexivity.
Qed.

(* ---------------------------------------------------------------- the strict parser reads it back *)
Definition chunk_wf (c : cname * list Z) : Prop :=
  length (fst c) = 4%nat /\ bytes_ok (fst c) /\ lenZ (snd c) < 2 ^ 31.

Lemma sbe32_to_be32 v r : 0 <= v < 2 ^ 32 -> sbe32 (to_be32 v ++ r) = v.
Proof. intros H. change (2 ^ 32) with 4294967296 in H. unfold to_be32, sbe32. cbn [app]. lia. Qed.

Lemma log2_lt_32 a : 0 <= a < 2 ^ 32 -> Z.log2 a < 32.
Proof.
  intros H. destruct (Z.eq_dec a 0) as [->|Hne]; [cbn; lia|]. apply Z.log2_lt_pow2; lia.
Qed.

Lemma lxor_range a b : 0 <= a < 2 ^ 32 -> 0 <= b < 2 ^ 32 -> 0 <= Z.lxor a b < 2 ^ 32.
Proof.
  intros Ha Hb. assert (Hnn : 0 <= Z.lxor a b) by (apply Z.lxor_nonneg; lia). split; [exact Hnn|].
  destruct (Z.eq_dec (Z.lxor a b) 0) as [->|Hne]; [cbn; lia|].
  apply Z.log2_lt_pow2; [lia|].
  eapply Z.le_lt_trans; [apply Z.log2_lxor; lia|].
  apply Z.max_lub_lt; apply log2_lt_32; assumption.
Qed.

Lemma crc_bits_range n : forall c, 0 <= c < 2 ^ 32 -> 0 <= crc_bits n c < 2 ^ 32.
Proof.
  induction n as [|n IH]; intros c Hc; cbn [crc_bits]; [exact Hc|]. apply IH.
  assert (H1 : 0 <= c / 2 < 2 ^ 32) by (change (2 ^ 32) with 4294967296 in *; lia).
  destruct (Z.odd c); [|exact H1].
  apply lxor_range; [exact H1|]. unfold crc_poly. cbn. lia.
Qed.

Lemma crc_table_range : Forall (fun v => 0 <= v < 2 ^ 32) crc_table.
Proof.
  unfold crc_table. apply Forall_forall. intros v Hv. apply in_map_iff in Hv. destruct Hv as [i [<- Hi]].
  apply in_seq in Hi. unfold crc_entry. apply crc_bits_range. change (2 ^ 32) with 4294967296. lia.
Qed.

Lemma crc_update_range c b : 0 <= c < 2 ^ 32 -> 0 <= crc_update crc_table c b < 2 ^ 32.
Proof.
  intros Hc. unfold crc_update. apply lxor_range.
  - pose proof crc_table_range as T. rewrite Forall_forall in T.
    set (i := Z.to_nat (Z.land (Z.lxor c b) 255)).
    destruct (nth_in_or_default i crc_table 0) as [Hin|Hd]; [apply T; exact Hin|rewrite Hd; change (2 ^ 32) with 4294967296; lia].
  - change (2 ^ 32) with 4294967296 in *. lia.
Qed.

Lemma crc32_range data : 0 <= crc32 data < 2 ^ 32.
Proof.
  unfold crc32, crc32_with.
  assert (G : forall l c, 0 <= c < 2 ^ 32 -> 0 <= fold_left (crc_update crc_table) l c < 2 ^ 32).
  { induction l as [|b t IH]; intros c Hc; cbn [fold_left]; [exact Hc|]. apply IH. apply crc_update_range. exact Hc. }
  apply lxor_range; [apply G|]; change (2 ^ 32) with 4294967296; lia.
Qed.

Lemma firstn_app_exact {A} (a b : list A) : firstn (length a) (a ++ b) = a.
Proof. induction a; cbn; [reflexivity|]. rewrite IHa. reflexivity. Qed.
Lemma skipn_app_exact {A} (a b : list A) : skipn (length a) (a ++ b) = b.
Proof. induction a; cbn; auto. Qed.

Lemma list_eqb_Z_false l1 l2 : l1 <> l2 -> list_eqb Z.eqb l1 l2 = false.
Proof. intros H. destruct (list_eqb Z.eqb l1 l2) eqn:E; [apply list_eqb_Z_spec in E; contradiction|reflexivity]. Qed.

(* one block *)
Lemma parse_block f name data rest :
  length name = 4%nat -> lenZ data < 2 ^ 31 ->
  spec_parse_chunks (S f) (write_png_block name data ++ rest) =
    if list_eqb Z.eqb name spec_IEND
    then match rest with [] => Some [(name, data)] | _ => None end
    else match spec_parse_chunks f rest with Some t => Some ((name, data) :: t) | None => None end.
Proof.
  intros Hn Hd. unfold write_png_block. cbn [spec_parse_chunks].
  assert (Hlen0 : 0 <= lenZ data) by (unfold lenZ; lia).
  assert (P32 : 2 ^ 31 < 2 ^ 32) by (cbn; lia).
  rewrite <- !app_assoc.
  assert (L4 : forall v, length (to_be32 v) = 4%nat) by reflexivity.
  match goal with |- context [(length ?l <? 12)%nat] => assert (El : (12 <= length l)%nat) by (rewrite !app_length, !L4, Hn; lia) end.
  match goal with |- context [(length ?l <? 12)%nat] => destruct (length l <? 12)%nat eqn:E12; [apply Nat.ltb_lt in E12; lia|] end.
  rewrite sbe32_to_be32 by lia.
  match goal with |- context [lenZ ?l <? 12 + lenZ data] =>
    assert (E2 : (lenZ l <? 12 + lenZ data) = false) by (apply Z.ltb_ge; unfold lenZ; rewrite !app_length, !L4, Hn; lia) end.
  rewrite E2. destruct (lenZ data <? 0) eqn:E0; [apply Z.ltb_lt in E0; lia|]. cbn [orb].
  (* name *)
  replace (skipn 4 (to_be32 (lenZ data) ++ name ++ data ++ to_be32 (crc32 (name ++ data)) ++ rest))
    with (name ++ data ++ to_be32 (crc32 (name ++ data)) ++ rest) by (symmetry; apply (skipn_app_exact (to_be32 (lenZ data)))).
  replace (firstn 4 (name ++ data ++ to_be32 (crc32 (name ++ data)) ++ rest)) with name
    by (rewrite <- Hn; symmetry; apply firstn_app_exact).
  replace (skipn 8 (to_be32 (lenZ data) ++ name ++ data ++ to_be32 (crc32 (name ++ data)) ++ rest))
    with (data ++ to_be32 (crc32 (name ++ data)) ++ rest).
  2:{ replace (to_be32 (lenZ data) ++ name ++ data ++ to_be32 (crc32 (name ++ data)) ++ rest)
        with ((to_be32 (lenZ data) ++ name) ++ data ++ to_be32 (crc32 (name ++ data)) ++ rest) by (rewrite <- app_assoc; reflexivity).
      assert (E8 : length (to_be32 (lenZ data) ++ name) = 8%nat) by (rewrite app_length, L4, Hn; reflexivity).
      rewrite <- E8. rewrite skipn_app_exact. reflexivity. }
  unfold lenZ. rewrite Nat2Z.id. rewrite firstn_app_exact, skipn_app_exact.
  rewrite sbe32_to_be32 by apply crc32_range. rewrite Z.eqb_refl. cbn [negb].
  rewrite (skipn_app_exact (to_be32 (crc32 (name ++ data)))). reflexivity.
Qed.

Definition not_iend (c : cname * list Z) : Prop := fst c <> spec_IEND.

(* a sequence of well-formed chunks, none of them IEND, followed by IEND, parses back exactly *)
Theorem parse_serialize cs : Forall chunk_wf cs -> Forall not_iend cs ->
  forall fuel, (length cs < fuel)%nat ->
  spec_parse_chunks fuel (serialize (cs ++ [(spec_IEND, [])])) = Some (cs ++ [(spec_IEND, [])]).
Proof.
  induction cs as [|c t IH]; intros Hwf Hni fuel Hf.
  - destruct fuel as [|f]; [cbn in Hf; lia|]. unfold serialize. cbn [app flat_map fst snd].
    rewrite parse_block by (cbn; try reflexivity; lia). rewrite ?app_nil_r. cbn. reflexivity.
  - destruct fuel as [|f]; [cbn in Hf; lia|]. inversion Hwf as [|? ? Hc Ht]; subst. inversion Hni as [|? ? Hn Hnt]; subst.
    unfold serialize. cbn [app flat_map]. destruct Hc as (H4 & _ & Hl).
    rewrite parse_block by assumption.
    rewrite list_eqb_Z_false by exact Hn.
    fold (serialize (t ++ [(spec_IEND, [])])). cbn [length] in Hf. rewrite IH; [destruct c; reflexivity|assumption|assumption|lia].
Qed.

(* ---------------------------------------------------------------- the whole file *)
Definition output_body (p : pngdata) : list (cname * list Z) :=
  let hd := hdr (raw p) in
  let parts := split_idat (aux_chunks p) [] in
  let aux_pre := match parts with x :: _ => x | [] => [] end in
  let aux_post := match parts with _ :: t => t | [] => [] end in
  let specials := List.filter (write_special hd) aux_pre in
  [(name_IHDR, to_be32 (width hd) ++ to_be32 (height hd) ++
               [depth hd; png_header_code (ctype hd); 0; 0; if interlaced hd then 1 else 0])]
  ++ map as_pair (List.filter (fun c => negb (after_plte c)) aux_pre)
  ++ key_chunks hd
  ++ map as_pair specials
  ++ [(name_IDAT, idat_data p)]
  ++ frame_chunk_list (frames p) (lenZ (List.filter (fun c => cname_eqb (c_name c) name_fcTL) specials))
  ++ map as_pair (concat aux_post).

Lemma output_chunks_body p : output_chunks p = output_body p ++ [(spec_IEND, [])].
Proof. unfold output_chunks, output_body. rewrite <- !app_assoc. reflexivity. Qed.

Lemma write_png_block_length n d : length (write_png_block n d) = (8 + length n + length d)%nat.
Proof. unfold write_png_block. rewrite !app_length. cbn [length to_be32]. lia. Qed.

Lemma serialize_length_ge cs : Forall (fun c => length (fst c) = 4%nat) cs -> (12 * length cs <= length (serialize cs))%nat.
Proof.
  induction 1 as [|c t Hc Ht IH]; [cbn; lia|].
  unfold serialize in *. cbn [flat_map]. rewrite app_length, write_png_block_length. cbn [length]. unfold cname in *. lia.
Qed.

(* C02 (container): the specification's strict parser accepts the output and reads back exactly
   the chunk sequence written -- signature, lengths, CRCs, IEND last, nothing after it *)
Theorem output_parses p :
  Forall chunk_wf (output_body p) -> Forall not_iend (output_body p) ->
  spec_parse_png (output p) = Some (output_chunks p).
Proof.
  intros Hwf Hni. rewrite output_is_serialize. unfold spec_parse_png.
  remember (serialize (output_chunks p)) as body eqn:Eb.
  assert (E1 : firstn 8 (PNG_SIG ++ body) = spec_signature) by reflexivity.
  assert (E2 : skipn 8 (PNG_SIG ++ body) = body) by reflexivity.
  assert (E3 : list_eqb Z.eqb spec_signature spec_signature = true) by reflexivity.
  rewrite E1, E2, E3. rewrite app_length. subst body.
  rewrite output_chunks_body. apply parse_serialize; auto.
  assert (H4 : Forall (fun c => length (fst c) = 4%nat) (output_body p ++ [(spec_IEND, [])])).
  { apply Forall_app. split; [|constructor; [reflexivity|constructor]].
    eapply Forall_impl; [|exact Hwf]. intros c Hc. apply Hc. }
  pose proof (serialize_length_ge _ H4) as Hl. rewrite app_length in Hl. cbn [length] in Hl.
  cbn [length PNG_SIG]. lia.
Qed.

(* structure: IHDR (13 bytes) first, exactly one IDAT written by `output` itself, IEND last *)
Definition output_pre (p : pngdata) : list (cname * list Z) :=
  let parts := split_idat (aux_chunks p) [] in
  let aux_pre := match parts with x :: _ => x | [] => [] end in
  map as_pair (List.filter (fun c => negb (after_plte c)) aux_pre) ++ key_chunks (hdr (raw p))
  ++ map as_pair (List.filter (write_special (hdr (raw p))) aux_pre).
Definition output_post (p : pngdata) : list (cname * list Z) :=
  let parts := split_idat (aux_chunks p) [] in
  let aux_pre := match parts with x :: _ => x | [] => [] end in
  let aux_post := match parts with _ :: t => t | [] => [] end in
  frame_chunk_list (frames p) (lenZ (List.filter (fun c => cname_eqb (c_name c) name_fcTL) (List.filter (write_special (hdr (raw p))) aux_pre)))
  ++ map as_pair (concat aux_post).

Theorem output_structure p :
  output_chunks p =
    (name_IHDR, to_be32 (width (hdr (raw p))) ++ to_be32 (height (hdr (raw p))) ++
                [depth (hdr (raw p)); png_header_code (ctype (hdr (raw p))); 0; 0; if interlaced (hdr (raw p)) then 1 else 0])
    :: output_pre p ++ [(name_IDAT, idat_data p)] ++ output_post p ++ [(name_IEND, [])]
  /\ (forall kc, In kc (key_chunks (hdr (raw p))) -> In kc (output_pre p)).
Proof.
  split.
  - unfold output_chunks, output_pre, output_post. cbn zeta. cbn [app]. f_equal. rewrite <- !app_assoc. reflexivity.
  - intros kc Hk. unfold output_pre. cbn zeta. apply in_or_app. right. apply in_or_app. left. exact Hk.
Qed.

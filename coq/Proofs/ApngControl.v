(* C10: the animation control chunk (acTL: number of frames, number of plays) of the written chunk sequence is the one of the input. *)
From OxiVerif Require Import Base.Common Base.Crc32 Spec.Decode Spec.DecodeFile Spec.Apng Model.Types Model.Options Model.Headers Model.PngData
  Model.Evaluate Model.Optimize
  Proofs.LiftReductions Proofs.RobustProofs Proofs.ChunkProofs Proofs.ApngProofs Proofs.OutputProofs Proofs.InputParse Proofs.ScaledFile Proofs.ContainerOk
  Proofs.ChunkFlow Proofs.ApngFile.
Local Open Scope Z_scope.

Definition is_actl (c : chunk) : bool := cname_eqb (c_name c) name_acTL.

Lemma filter_actl_postprocess aux hd orig : List.filter is_actl (postprocess_chunks aux hd orig) = List.filter is_actl aux.
Proof.
  rewrite postprocess_is_filter, filter_filter. apply filter_ext. intros c. unfold is_actl.
  destruct (cname_eqb (c_name c) name_acTL) eqn:E; [|apply andb_false_r]. apply cname_eqb_eq in E. unfold pp_keep. rewrite E.
  destruct (negb (depth orig =? depth hd) || negb (color_type_eqb (ctype orig) (ctype hd)));
    destruct (negb (Bool.eqb (is_gray (ctype orig)) (is_gray (ctype hd)))); reflexivity.
Qed.

Lemma filter_actl_replace pre c x post : is_actl c = false -> is_actl x = false ->
  List.filter is_actl (pre ++ x :: post) = List.filter is_actl (pre ++ c :: post).
Proof. intros Hc Hx. rewrite !filter_app. cbn [List.filter]. rewrite Hc, Hx. reflexivity. Qed.

Lemma filter_actl_preprocess e aux o : List.filter is_actl (fst (preprocess_chunks e aux o)) = List.filter is_actl aux.
Proof.
  destruct (preprocess_chunks_spec e aux o) as [-> _]. unfold apply_icc_decision, icc_decide.
  destruct (chunk_position name_iCCP aux 0) as [idx|] eqn:Ep; [|reflexivity].
  destruct (chunk_position_split _ _ _ _ Ep) as (pre & c & post & -> & -> & Hc). cbn [Nat.add].
  apply cname_eqb_eq in Hc.
  assert (Hn : is_actl c = false) by (unfold is_actl; rewrite Hc; reflexivity).
  destruct (may_replace_iccp o && has_chunk name_sRGB (pre ++ c :: post)).
  - rewrite remove_nth_app, !filter_app. cbn [List.filter]. rewrite Hn. reflexivity.
  - destruct (nth_error (pre ++ c :: post) (length pre)) as [iccp|]; [|reflexivity].
    destruct (extract_icc e iccp) as [icc|]; [|reflexivity].
    destruct (if may_replace_iccp o then srgb_rendering_intent icc else None) as [i|].
    + rewrite set_nth_app. apply filter_actl_replace; [exact Hn|reflexivity].
    + destruct (idat_recoding o); [|reflexivity].
      destruct (make_iccp e icc (deflate o) (Some (lenZ (c_data iccp) - 1))) as [n|?|?] eqn:Em; try reflexivity.
      rewrite set_nth_app. apply filter_actl_replace; [exact Hn|].
      unfold make_iccp in Em. destruct (deflate_capped e (deflate o) icc _); cbn [bind] in Em; try discriminate. injection Em as <-. reflexivity.
Qed.

(* an acTL chunk is kept by from_slice wherever it stands, when the policy keeps the animation *)
Lemma kept_at_actl o ie c : keeps_animation o -> is_actl c = true -> kept_at o ie c = true.
Proof.
  intros (K1 & K2 & K3) H. unfold is_actl in H. apply cname_eqb_eq in H. unfold kept_at, kept0, key_name, anim_name, all_anim_kept.
  rewrite H, K1, K2, K3. reflexivity.
Qed.

Lemma filter_actl_kept o ie l : keeps_animation o -> List.filter is_actl (List.filter (kept_at o ie) l) = List.filter is_actl l.
Proof.
  intros K. rewrite filter_filter. apply filter_ext. intros c. destruct (is_actl c) eqn:E; [|apply andb_false_r].
  rewrite (kept_at_actl o ie c K E). reflexivity.
Qed.

Definition named_actl (c : cname * list Z) : bool := named spec_acTL c.

Lemma filter_named_map l : List.filter named_actl (map as_pair l) = map as_pair (List.filter is_actl l).
Proof. induction l as [|c t IH]; [reflexivity|]. cbn [map List.filter]. change (named_actl (as_pair c)) with (is_actl c). destruct (is_actl c); cbn [map]; rewrite IH; reflexivity. Qed.

Lemma filter_none {A} (f : A -> bool) l : Forall (fun x => f x = false) l -> List.filter f l = [].
Proof. induction 1 as [|x t Hx _ IH]; [reflexivity|]. cbn [List.filter]. rewrite Hx. exact IH. Qed.

(* the acTL chunks of the written sequence are the acTL chunks of the ancillary list, in order *)
Theorem written_control p pre m post :
  aux_chunks p = pre ++ m :: post ->
  Forall (fun c => cname_eqb (c_name c) name_IDAT = false) pre -> cname_eqb (c_name m) name_IDAT = true ->
  Forall (fun c => cname_eqb (c_name c) name_IDAT = false) post ->
  List.filter named_actl (output_chunks p) = map as_pair (List.filter is_actl (pre ++ post)).
Proof.
  intros E Hp Hm Hq. rewrite (written_closed_form p pre m post E Hp Hm Hq).
  cbn [List.filter]. change (named_actl (name_IHDR, _)) with false. cbv iota.
  rewrite !filter_app, !filter_named_map. cbn [List.filter]. change (named_actl (name_IDAT, idat_data p)) with false. cbv iota.
  rewrite !filter_app, !filter_named_map. cbn [List.filter]. change (named_actl (name_IEND, [])) with false. cbv iota.
  assert (K : List.filter named_actl (key_chunks (hdr (raw p))) = []).
  { unfold key_chunks. destruct (ctype (hdr (raw p))) as [[k|]|[[[r g] b]|]|pal| |]; try reflexivity. destruct (rposition_alpha pal 0 None); reflexivity. }
  assert (S1 : List.filter is_actl (List.filter (fun c => negb (after_plte c)) pre) = List.filter is_actl pre).
  { rewrite filter_filter. apply filter_ext. intros c. unfold is_actl, after_plte. destruct (cname_eqb (c_name c) name_acTL) eqn:Ea; [|apply andb_false_r].
    apply cname_eqb_eq in Ea. rewrite Ea. reflexivity. }
  assert (S2 : List.filter is_actl (List.filter (write_special (hdr (raw p))) pre) = []).
  { apply filter_none. apply Forall_forall. intros c Hc. apply filter_In in Hc. destruct Hc as [_ Hc]. unfold write_special, after_plte in Hc. unfold is_actl.
    destruct (cname_eqb (c_name c) name_acTL) eqn:Ea; [|reflexivity]. apply cname_eqb_eq in Ea. rewrite Ea in Hc. discriminate. }
  assert (F : forall fs s, List.filter named_actl (frame_chunk_list fs s) = []).
  { induction fs as [|f t IH]; intros s; [reflexivity|]. cbn [frame_chunk_list List.filter]. change (named_actl (name_fcTL, _)) with false.
    change (named_actl (name_fdAT, _)) with false. cbv iota. apply IH. }
  rewrite K, S1, S2, F. cbn [map app]. rewrite app_nil_r, map_app. reflexivity.
Qed.

Lemma actl_of_parsed bytes cs : spec_parse_png bytes = Some cs ->
  map as_pair (List.filter is_actl (map as_chunk (removelast cs))) = List.filter named_actl cs.
Proof.
  intros Hparse. unfold spec_parse_png in Hparse. destruct (list_eqb Z.eqb (firstn 8 bytes) spec_signature); [|discriminate].
  destruct (spec_parse_last _ _ _ Hparse) as (body & dend & -> & _). rewrite removelast_last, filter_app. cbn [List.filter].
  change (named_actl (spec_IEND, dend)) with false. cbv iota. rewrite app_nil_r.
  clear. induction body as [|c t IH]; [reflexivity|]. cbn [map List.filter]. change (is_actl (as_chunk c)) with (named_actl c).
  destruct (named_actl c); cbn [map]; rewrite IH; [destruct c|]; reflexivity.
Qed.

(* file to file: the animation control chunks read from the written sequence are those of the input file *)
Theorem apng_control_file_to_file e o bytes out cs :
  keeps_animation o -> bytes_ok bytes -> spec_parse_png bytes = Some cs ->
  Forall (fun c => named spec_IDAT c = true -> snd c <> []) cs ->
  optimize_from_memory e o bytes = Ok out ->
  out = bytes \/
  exists p', out = output p' /\ output p' = PNG_SIG ++ serialize (output_chunks p') /\
    List.filter named_actl (output_chunks p') = List.filter named_actl cs /\
    spec_apng_control (output_chunks p') = spec_apng_control cs.
Proof.
  intros Hkeep Hok Hparse Hne H.
  destruct (chunk_flow e o bytes out cs Hok Hparse H) as [->|(p & p' & Ep & Eo & -> & Eser & Hflow)]; [left; reflexivity|right].
  cbn zeta in Hflow. destruct Hflow as (Eaux & Eaux' & Hframes).
  exists p'. split; [reflexivity|]. split; [exact Eser|].
  set (l := map as_chunk (removelast cs)) in *.
  assert (Hl_ne : forall c, In c l -> cname_eqb (c_name c) name_IDAT = true -> c_data c <> []).
  { intros c Hc Hn. unfold l in Hc. apply in_map_iff in Hc. destruct Hc as [x [<- Hx]]. rewrite Forall_forall in Hne. apply (Hne x); [apply in_removelast; exact Hx|exact Hn]. }
  destruct (split_first_idat l) as [Hnone|(before & idat & after & El & Hb & Hi)].
  { exfalso. exact (from_slice_has_idat e o bytes p cs Hok Ep Hparse Hnone). }
  assert (Hid : c_data idat <> []) by (apply Hl_ne; [rewrite El; apply in_or_app; right; left; reflexivity|exact Hi]).
  pose proof Eaux as Eaux0.
  rewrite El, (collect_aux_closed_form o before idat after Hb Hi Hid) in Eaux.
  set (pre := List.filter (kept_at o true) before) in *. set (post := List.filter (kept_at o false) after) in *.
  set (m := {| c_name := c_name idat; c_data := [] |}) in *.
  assert (Hm : cname_eqb (c_name m) name_IDAT = true) by exact Hi.
  assert (Hrel : lrel (aux_chunks p) (aux_chunks p')).
  { rewrite <- Eaux0 in Eaux'. destruct Eaux' as [->| ->]; [apply preprocess_lrel|]. eapply lrel_trans; [|apply postprocess_lrel]. apply preprocess_lrel. }
  assert (Eact : List.filter is_actl (aux_chunks p') = List.filter is_actl (aux_chunks p)).
  { rewrite <- Eaux0 in Eaux'. destruct Eaux' as [->| ->]; [apply filter_actl_preprocess|]. rewrite filter_actl_postprocess. apply filter_actl_preprocess. }
  assert (Hpre : Forall (fun c => cname_eqb (c_name c) name_IDAT = false) pre).
  { apply Forall_forall. intros c Hc. apply filter_In in Hc. destruct (kept_at_props o true c (proj2 Hc)) as (_ & B & _). exact B. }
  assert (Hpost : Forall (fun c => cname_eqb (c_name c) name_IDAT = false) post).
  { apply Forall_forall. intros c Hc. apply filter_In in Hc. destruct (kept_at_props o false c (proj2 Hc)) as (_ & B & _). exact B. }
  rewrite Eaux in Hrel. destruct (lrel_shape pre m post _ Hm Hrel) as (pre' & post' & Eaux2 & Rpre & Rpost).
  assert (Hpre' : Forall (fun c => cname_eqb (c_name c) name_IDAT = false) pre').
  { apply (lrel_forall _ pre pre' Rpre); [|exact Hpre]. intros y (_ & _ & B3). exact B3. }
  assert (Hpost' : Forall (fun c => cname_eqb (c_name c) name_IDAT = false) post').
  { apply (lrel_forall _ post post' Rpost); [|exact Hpost]. intros y (_ & _ & B3). exact B3. }
  assert (Main : List.filter named_actl (output_chunks p') = List.filter named_actl cs).
  { rewrite (written_control p' pre' m post' Eaux2 Hpre' Hm Hpost').
    assert (Em : is_actl m = false) by (unfold is_actl; apply cname_eqb_eq in Hm; rewrite Hm; reflexivity).
    assert (E1 : List.filter is_actl (pre' ++ post') = List.filter is_actl (aux_chunks p')).
    { rewrite Eaux2, !filter_app. cbn [List.filter]. rewrite Em. reflexivity. }
    rewrite E1, Eact, Eaux, !filter_app. cbn [List.filter]. rewrite Em. unfold pre, post. rewrite !filter_actl_kept by exact Hkeep.
    assert (Ei : is_actl idat = false) by (unfold is_actl; apply cname_eqb_eq in Hi; rewrite Hi; reflexivity).
    assert (E2 : List.filter is_actl before ++ List.filter is_actl after = List.filter is_actl l).
    { rewrite El, filter_app. cbn [List.filter]. rewrite Ei. reflexivity. }
    rewrite E2. unfold l.
    exact (actl_of_parsed bytes cs Hparse). }
  split; [exact Main|].
  unfold spec_apng_control. rewrite !find_filter.
  change (List.filter (named spec_acTL) (output_chunks p')) with (List.filter named_actl (output_chunks p')).
  change (List.filter (named spec_acTL) cs) with (List.filter named_actl cs). rewrite Main. reflexivity.
Qed.

(* Lifting scan-line-wise transformations (any pixel size, sub-byte included) to whole images:
   if every scan line is transformed into a scan line of the right length whose pixels have the same
   colours, the image keeps its meaning - for every size, interlaced or not. *)
From OxiVerif Require Import Base.Common Spec.Adam7 Spec.Sem Model.Types Proofs.Bridge Proofs.ScanProofs Proofs.ImageLift.
Local Open Scope Z_scope.

(* colours of one cut scan line *)
Definition lcols {A} (f : list bool -> A) (b : Z) (l : option Z * Z * list Z) : option Z * Z * list A :=
  (fst l, map f (line_pixels b (snd (fst l)) (snd l))).

Lemma gsem_lines w h b il pc data :
  gsem w h b il pc data =
  if (w <=? 0) || (h <=? 0) || (b <=? 0) then None else
  match cut_layout (spec_layout w h b il) data with
  | None => None
  | Some lines => finish w h (assemble w h il (map (lcols pc b) lines))
  end.
Proof.
  unfold gsem, spec_image_pixels. destruct ((w <=? 0) || (h <=? 0) || (b <=? 0)); [reflexivity|].
  destruct (cut_layout (spec_layout w h b il) data) as [lines|]; [|reflexivity].
  rewrite <- (assemble_map pc). rewrite map_map. reflexivity.
Qed.

(* ---------------------------------------------------------------- refinement on lines of colours *)
Definition refines (c c' : option rgba16) : Prop := c <> None -> c' = c.

Lemma Forall2_combine_fst {A B} (R : A -> B -> Prop) l l' : Forall2 R l l' -> map fst (combine l l') = l /\ map snd (combine l l') = l'.
Proof. induction 1 as [|a b t t' _ _ [IH1 IH2]]; cbn; [auto|]. rewrite IH1, IH2. auto. Qed.

Theorem refine_lines w h il (pl pl' : list (option Z * Z * list (option rgba16))) pic :
  Forall2 (fun l l' => fst l = fst l' /\ Forall2 refines (snd l) (snd l')) pl pl' ->
  finish w h (assemble w h il pl) = Some pic -> finish w h (assemble w h il pl') = Some pic.
Proof.
  intros HF Hfin.
  (* one table of pairs *)
  set (zl := map (fun ll => (fst (fst ll), combine (snd (fst ll)) (snd (snd ll)))) (combine pl pl')).
  assert (E1 : pl = map (fun l => (fst l, map fst (snd l))) zl /\ pl' = map (fun l => (fst l, map snd (snd l))) zl /\
               Forall (fun l => Forall (fun z => refines (fst z) (snd z)) (snd l)) zl).
  { unfold zl. clear Hfin zl. induction HF as [|l l' t t' [Hh Hc] _ IH]; cbn [combine map]; [repeat split; constructor|].
    destruct IH as (I1 & I2 & I3). destruct (Forall2_combine_fst _ _ _ Hc) as [C1 C2].
    cbn [fst snd]. rewrite C1, C2, <- I1, <- I2. repeat split.
    - destruct l; reflexivity.
    - rewrite Hh. destruct l'; reflexivity.
    - constructor; [|exact I3]. cbn [snd]. clear -Hc. induction Hc; cbn; constructor; auto. }
  destruct E1 as (E1 & E2 & ER). rewrite E1 in Hfin. rewrite E2.
  rewrite assemble_map in *. destruct (assemble w h il zl) as [rows|] eqn:Ea; [|exact Hfin]. cbn [option_map] in *.
  rewrite <- Hfin. f_equal. f_equal.
  pose proof (finish_some_all _ _ _ _ Hfin) as Hall.
  assert (HR : Forall (Forall (fun z => refines (fst z) (snd z))) rows).
  { apply Forall_forall. intros row Hrow. apply Forall_forall. intros z Hz.
    destruct (assemble_in _ _ _ _ _ Ea row z Hrow Hz) as [l [Hl Hzl]].
    rewrite Forall_forall in ER. specialize (ER l Hl). rewrite Forall_forall in ER. apply ER. exact Hzl. }
  clear -Hall HR. induction rows as [|row t IH]; [reflexivity|]. cbn [map] in *.
  inversion Hall as [|? ? Ha Hall']; subst. inversion HR as [|? ? Hr HR']; subst. rewrite IH by auto. f_equal.
  clear -Ha Hr. induction row as [|z r IH]; [reflexivity|]. cbn [map] in *.
  inversion Ha as [|? ? Hz Ha']; subst. inversion Hr as [|? ? Hrz Hr']; subst. rewrite IH by auto. f_equal. apply Hrz. exact Hz.
Qed.

(* ---------------------------------------------------------------- cutting a concatenation of lines *)
Lemma cut_layout_concat (L : list (option Z * Z * Z)) (tls : list (list Z)) :
  Forall2 (fun lay tl => length tl = Z.to_nat (snd lay)) L tls ->
  cut_layout L (concat tls) = Some (map (fun lt => (fst (fst lt), snd lt)) (combine L tls)).
Proof.
  induction 1 as [|[[p n] nb] tl L' tls' Hl _ IH]; cbn [cut_layout concat combine map]; [reflexivity|].
  cbn [snd] in Hl. rewrite app_length. destruct (Nat.ltb_spec (length tl + length (concat tls')) (Z.to_nat nb)) as [|_]; [lia|].
  rewrite <- Hl. rewrite skipn_app, skipn_all, Nat.sub_diag, skipn_O. cbn [app]. rewrite IH.
  rewrite firstn_app, firstn_all, Nat.sub_diag, firstn_O, app_nil_r. reflexivity.
Qed.

Lemma cut_layout_shape (L : list (option Z * Z * Z)) : forall data lines, cut_layout L data = Some lines ->
  Forall2 (fun lay l => fst l = fst lay /\ length (snd l) = Z.to_nat (snd lay)) L lines /\ data = concat (map snd lines).
Proof.
  induction L as [|[[p n] nb] t IH]; intros data lines H; cbn [cut_layout] in H.
  - destruct data; [injection H as <-; split; [constructor|reflexivity]|discriminate].
  - destruct (Nat.ltb_spec (length data) (Z.to_nat nb)) as [|Hge]; [discriminate|].
    destruct (cut_layout t (skipn (Z.to_nat nb) data)) as [r|] eqn:E; [|discriminate]. injection H as <-.
    destruct (IH _ _ E) as [F D]. split.
    + constructor; [|exact F]. cbn [fst snd]. split; [reflexivity|rewrite firstn_length; lia].
    + cbn [map snd concat]. rewrite <- D. symmetry. apply firstn_skipn.
Qed.

(* ---------------------------------------------------------------- image level *)
Theorem gsem_linewise w h il (b b' : Z) pc pc' (T : option Z * Z * list Z -> list Z) data lines pic :
  0 < b' ->
  cut_layout (spec_layout w h b il) data = Some lines ->
  (forall l, In l lines -> length (snd l) = Z.to_nat (line_bytes b (snd (fst l))) ->
     length (T l) = Z.to_nat (line_bytes b' (snd (fst l))) /\
     Forall2 refines (map pc (line_pixels b (snd (fst l)) (snd l))) (map pc' (line_pixels b' (snd (fst l)) (T l)))) ->
  gsem w h b il pc data = Some pic ->
  gsem w h b' il pc' (concat (map T lines)) = Some pic.
Proof.
  intros Hb' Hcut HT Hsem. rewrite gsem_lines in *.
  destruct ((w <=? 0) || (h <=? 0)) eqn:Ewh; [cbn [orb] in Hsem; discriminate|]. cbn [orb] in *.
  destruct (b <=? 0); [discriminate|]. destruct (Z.leb_spec b' 0) as [|_]; [lia|].
  rewrite Hcut in Hsem.
  destruct (cut_layout_shape _ _ _ Hcut) as [Hshape _].
  (* the layouts for b and b' list the same (pass, pixels) pairs *)
  rewrite spec_layout_pix in Hshape. rewrite spec_layout_pix.
  set (PL := pix_layout w h il) in *.
  assert (Hcut' : cut_layout (map (fun pn => (fst pn, snd pn, line_bytes b' (snd pn))) PL) (concat (map T lines))
                  = Some (map (fun l => (fst l, T l)) lines)).
  { rewrite cut_layout_concat.
    - f_equal. clear -Hshape. revert lines Hshape. induction PL as [|pn t IH]; intros lines Hs; inversion Hs as [|? l ? ls [Hf _] Hs']; subst; cbn [map combine]; [reflexivity|].
      rewrite IH by exact Hs'. cbn [fst snd]. rewrite Hf. reflexivity.
    - clear -Hshape HT. revert lines Hshape HT. induction PL as [|pn t IH]; intros lines Hs HT; inversion Hs as [|? l ? ls [Hf Hl] Hs']; subst; cbn [map]; constructor.
      + cbn [snd fst] in *. destruct (HT l (or_introl eq_refl)) as [H1 _]; [rewrite Hl, Hf; reflexivity|]. rewrite H1, Hf. reflexivity.
      + apply IH; [exact Hs'|]. intros l0 Hl0. apply HT. right. exact Hl0. }
  rewrite Hcut'. rewrite map_map.
  eapply refine_lines; [|exact Hsem].
  clear -Hshape HT. revert lines Hshape HT. induction PL as [|pn t IH]; intros lines Hs HT; inversion Hs as [|? l ? ls [Hf Hl] Hs']; subst; cbn [map]; constructor.
  - unfold lcols. cbn [fst snd]. split; [reflexivity|]. apply HT; [left; reflexivity|]. cbn [fst snd] in Hl. rewrite Hl, Hf. reflexivity.
  - apply IH; [exact Hs'|]. intros l0 Hl0. apply HT. right. exact Hl0.
Qed.

(* ---------------------------------------------------------------- the model's scan lines are the specification's *)
From OxiVerif Require Import Model.ScanLines.

Definition to_scanline (l : option Z * Z * list Z) : scanline :=
  {| l_filter := 0; l_data := snd l; l_pass := fst (fst l); l_npix := snd (fst l) |}.

Lemma cut_lines_layout (L : list (option Z * Z * Z)) : forall data lines,
  Forall (fun lay => 0 <= snd lay) L ->
  cut_layout L data = Some lines ->
  cut_lines false (map (fun l => (snd l + 0, fst (fst l), snd (fst l))) L) data = Ok (map to_scanline lines).
Proof.
  induction L as [|[[p n] nb] t IH]; intros data lines Hpos H; cbn [cut_layout] in H; cbn [map cut_lines andb].
  - destruct data; [injection H as <-; reflexivity|discriminate].
  - cbn [fst snd]. rewrite Z.add_0_r.
    destruct (length data <? Z.to_nat nb)%nat; [discriminate|].
    destruct (cut_layout t (skipn (Z.to_nat nb) data)) as [r|] eqn:E; [|discriminate]. injection H as <-.
    rewrite (IH _ _ (Forall_inv_tail Hpos) E). cbn [bind map]. reflexivity.
Qed.

Lemma cut_layout_total_length (L : list (option Z * Z * Z)) : forall data lines,
  Forall (fun lay => 0 <= snd lay) L -> cut_layout L data = Some lines -> lenZ data = sumZ (map snd L).
Proof.
  induction L as [|[[p n] nb] t IH]; intros data lines Hpos H; cbn [cut_layout] in H.
  - destruct data; [reflexivity|discriminate].
  - destruct (Nat.ltb_spec (length data) (Z.to_nat nb)) as [|Hge]; [discriminate|].
    destruct (cut_layout t (skipn (Z.to_nat nb) data)) as [r|] eqn:E; [|discriminate].
    pose proof (IH _ _ (Forall_inv_tail Hpos) E) as Hl. unfold lenZ in *. rewrite skipn_length in Hl.
    pose proof (Forall_inv Hpos) as Hn. cbn [snd] in Hn. cbn [map snd sumZ fold_right]. unfold sumZ in Hl. lia.
Qed.

Lemma spec_layout_nonneg w h b il : 1 <= w -> 1 <= h -> 0 <= b -> Forall (fun lay => 0 <= snd lay) (spec_layout w h b il).
Proof.
  intros Hw Hh Hb. rewrite spec_layout_pix. apply Forall_forall. intros lay Hin. apply in_map_iff in Hin. destruct Hin as [pn [<- Hpn]].
  cbn [snd]. pose proof (pix_layout_nonneg w h il Hw Hh) as P. rewrite Forall_forall in P. specialize (P pn Hpn).
  unfold line_bytes, cdiv. apply Z.div_pos; nia.
Qed.

Theorem scan_lines_is_layout (img : image) lines :
  1 <= width (hdr img) -> 1 <= height (hdr img) -> 1 <= bpp (hdr img) ->
  cut_layout (spec_layout (width (hdr img)) (height (hdr img)) (bpp (hdr img)) (interlaced (hdr img))) (data img) = Some lines ->
  scan_lines img false = Ok (map to_scanline lines).
Proof.
  intros Hw Hh Hb Hcut. unfold scan_lines.
  pose proof (spec_layout_nonneg _ _ (bpp (hdr img)) (interlaced (hdr img)) Hw Hh ltac:(lia)) as Hpos.
  pose proof (cut_layout_total_length _ _ _ Hpos Hcut) as Hlen.
  assert (Hsize : lenZ (data img) = spec_raw_size (width (hdr img)) (height (hdr img)) (bpp (hdr img)) (interlaced (hdr img)) false).
  { rewrite Hlen. unfold spec_raw_size. f_equal. apply map_ext. intros l. lia. }
  rewrite Hsize.
  destruct (interlaced (hdr img)) eqn:Eil.
  - rewrite scan_ranges_interlaced_spec by auto. cbn [bind]. apply cut_lines_layout; auto.
  - rewrite scan_ranges_plain_spec by auto. cbn [bind]. apply cut_lines_layout; auto.
Qed.

(* every cut scan line has the byte length its pixel count prescribes, and a non-negative pixel count *)
Lemma cut_lines_lengths w h b il data lines : 1 <= w -> 1 <= h ->
  cut_layout (spec_layout w h b il) data = Some lines ->
  forall l, In l lines -> length (snd l) = Z.to_nat (line_bytes b (snd (fst l))) /\ 0 <= snd (fst l).
Proof.
  intros Hw Hh Hcut. destruct (cut_layout_shape _ _ _ Hcut) as [Hs _]. rewrite spec_layout_pix in Hs.
  pose proof (pix_layout_nonneg w h il Hw Hh) as P. clear Hcut. revert lines Hs.
  induction (pix_layout w h il) as [|pn t IH]; intros lines Hs l Hl; inversion Hs as [|? l0 ? ls [Hf Hlen] Hs']; subst; [destruct Hl|].
  destruct Hl as [<-|Hl].
  - cbn [fst snd] in *. rewrite Hf. cbn [fst snd]. split; [exact Hlen|]. inversion P; auto.
  - apply (IH ltac:(inversion P; auto) ls); auto.
Qed.

(* Lifting pixel-level lemmas to whole images (C01, C03, C15): if a byte-aligned image is transformed
   pixel by pixel and every pixel keeps its meaning, the image keeps its meaning - for every size,
   interlaced or not. *)
From OxiVerif Require Import Base.Common Spec.Adam7 Spec.Sem Proofs.ScanProofs.
Local Open Scope nat_scope.

(* ---------------------------------------------------------------- lists of uniform chunks *)
Lemma all_some_map_option_map {A B} (f : A -> B) (l : list (option A)) :
  all_some (map (option_map f) l) = option_map (map f) (all_some l).
Proof.
  induction l as [|[a|] t IH]; cbn [map all_some option_map]; [reflexivity| |reflexivity].
  rewrite IH. destruct (all_some t); reflexivity.
Qed.

Lemma concat_length_uniform {A} (B : nat) (pxs : list (list A)) :
  Forall (fun px => length px = B) pxs -> length (concat pxs) = length pxs * B.
Proof. induction 1 as [|px t Hpx Ht IH]; cbn [concat length]; [reflexivity|]. rewrite app_length, IH, Hpx. lia. Qed.

Lemma firstn_concat_uniform {A} (B : nat) (pxs : list (list A)) : Forall (fun px => length px = B) pxs ->
  forall n, firstn (n * B) (concat pxs) = concat (firstn n pxs).
Proof.
  induction 1 as [|px t Hpx Ht IH]; intros n.
  - cbn [concat]. rewrite !firstn_nil. reflexivity.
  - destruct n as [|n]; [reflexivity|]. cbn [concat firstn]. replace (S n * B) with (length px + n * B) by lia.
    rewrite firstn_app_2, IH. reflexivity.
Qed.

Lemma skipn_concat_uniform {A} (B : nat) (pxs : list (list A)) : Forall (fun px => length px = B) pxs ->
  forall n, skipn (n * B) (concat pxs) = concat (skipn n pxs).
Proof.
  induction 1 as [|px t Hpx Ht IH]; intros n.
  - cbn [concat]. rewrite !skipn_nil. reflexivity.
  - destruct n as [|n]; [reflexivity|]. cbn [concat skipn]. replace (S n * B) with (length px + n * B) by lia.
    rewrite skipn_app. rewrite skipn_all2 by lia. replace (length px + n * B - length px) with (n * B) by lia.
    rewrite IH. reflexivity.
Qed.

Lemma Forall_firstn' {A} (P : A -> Prop) n l : Forall P l -> Forall P (firstn n l).
Proof. intros H. apply Forall_forall. intros x Hx. rewrite Forall_forall in H. apply H. eapply In_firstn; eauto. Qed.
Lemma Forall_skipn' {A} (P : A -> Prop) n l : Forall P l -> Forall P (skipn n l).
Proof. intros H. apply Forall_forall. intros x Hx. rewrite Forall_forall in H. apply H. eapply In_skipn; eauto. Qed.

(* chunks_exact of a concatenation of uniform chunks gives the chunks back *)
Lemma chunks_exact_fuel_concat {A} (B : nat) : 0 < B -> forall (pxs : list (list A)) fuel,
  Forall (fun px => length px = B) pxs -> length pxs <= fuel ->
  chunks_exact_fuel fuel B (concat pxs) = pxs.
Proof.
  intros HB. induction pxs as [|px t IH]; intros fuel Hu Hf.
  - cbn [concat]. destruct fuel; cbn [chunks_exact_fuel length]; [reflexivity|]. destruct (Nat.ltb_spec 0 B); [reflexivity|lia].
  - inversion Hu as [|? ? Hpx Ht]; subst. destruct fuel as [|fuel]; [cbn in Hf; lia|]. cbn [chunks_exact_fuel concat].
    rewrite app_length. destruct (Nat.ltb_spec (length px + length (concat t)) (length px)) as [Hlt|Hge]; [lia|].
    rewrite firstn_app, Nat.sub_diag, firstn_O, app_nil_r, firstn_all.
    rewrite skipn_app, Nat.sub_diag, skipn_O, skipn_all. cbn [app].
    rewrite IH; [reflexivity|exact Ht|cbn in Hf; lia].
Qed.

Lemma chunks_exact_concat {A} (B : nat) (pxs : list (list A)) : 0 < B ->
  Forall (fun px => length px = B) pxs -> chunks_exact B (concat pxs) = pxs.
Proof.
  intros HB Hu. unfold chunks_exact. destruct B as [|B]; [lia|].
  apply chunks_exact_fuel_concat; auto. rewrite (concat_length_uniform (S B)) by auto. nia.
Qed.

(* a list whose length is a multiple of B is the concatenation of its chunks *)
Lemma chunks_exact_fuel_spec {A} (B : nat) : 0 < B -> forall fuel (l : list A) k,
  length l = k * B -> k <= fuel ->
  concat (chunks_exact_fuel fuel B l) = l /\ Forall (fun px => length px = B) (chunks_exact_fuel fuel B l) /\
  length (chunks_exact_fuel fuel B l) = k.
Proof.
  intros HB. induction fuel as [|fuel IH]; intros l k Hl Hk.
  - assert (k = 0) by lia. subst k. destruct l; [|cbn in Hl; lia]. cbn. auto.
  - cbn [chunks_exact_fuel]. destruct (Nat.ltb_spec (length l) B) as [Hlt|Hge].
    + assert (k = 0) by nia. subst k. destruct l; [|cbn in Hl; lia]. cbn. auto.
    + destruct k as [|k]; [lia|].
      destruct (IH (skipn B l) k) as (H1 & H2 & H3); [rewrite skipn_length; lia|lia|].
      cbn [concat length]. rewrite H1, firstn_skipn, H3. repeat split; auto.
      constructor; [rewrite firstn_length; lia|exact H2].
Qed.

Lemma chunks_exact_spec {A} (B : nat) (l : list A) k : 0 < B -> length l = k * B ->
  concat (chunks_exact B l) = l /\ Forall (fun px => length px = B) (chunks_exact B l) /\ length (chunks_exact B l) = k.
Proof.
  intros HB Hl. unfold chunks_exact. destruct B as [|B]; [lia|]. apply chunks_exact_fuel_spec; auto. nia.
Qed.

Lemma flat_map_concat_map {A B} (f : A -> list B) l : flat_map f l = concat (map f l).
Proof. induction l; cbn; [reflexivity|]. rewrite IHl. reflexivity. Qed.

(* ---------------------------------------------------------------- bits of byte-aligned pixels *)
Lemma groups_is_chunks_exact {A} n (l : list A) : groups n l = chunks_exact n l.
Proof.
  unfold groups, chunks_exact. destruct n as [|n]; [reflexivity|].
  assert (G : forall fuel (l0 : list A), groups_fuel fuel (S n) l0 = chunks_exact_fuel fuel (S n) l0).
  { induction fuel as [|f IH]; intros l0; cbn [groups_fuel chunks_exact_fuel]; [reflexivity|]. rewrite IH. reflexivity. }
  apply G.
Qed.

Lemma sbits_of_bytes_length l : length (sbits_of_bytes l) = length l * 8.
Proof. unfold sbits_of_bytes. induction l as [|b t IH]; cbn [flat_map length]; [reflexivity|]. rewrite app_length, IH. reflexivity. Qed.

Lemma sbits_of_bytes_app a b : sbits_of_bytes (a ++ b) = sbits_of_bytes a ++ sbits_of_bytes b.
Proof. unfold sbits_of_bytes. apply flat_map_app. Qed.

Lemma sbits_of_bytes_concat pxs : sbits_of_bytes (concat pxs) = concat (map sbits_of_bytes pxs).
Proof. induction pxs as [|px t IH]; cbn [concat map]; [reflexivity|]. rewrite sbits_of_bytes_app, IH. reflexivity. Qed.

(* the pixels of a scan line made of n pixels of B bytes each *)
Lemma line_pixels_aligned (B : nat) (n : Z) (group : list (list Z)) : 0 < B ->
  Forall (fun px => length px = B) group -> length group = Z.to_nat n ->
  line_pixels (8 * Z.of_nat B) n (concat group) = map sbits_of_bytes group.
Proof.
  intros HB Hu Hn. unfold line_pixels. rewrite groups_is_chunks_exact, sbits_of_bytes_concat.
  replace (Z.to_nat (8 * Z.of_nat B)) with (B * 8) by lia.
  rewrite chunks_exact_concat; [|lia|].
  - rewrite <- Hn, <- (map_length sbits_of_bytes group). apply firstn_all.
  - apply Forall_forall. intros x Hx. apply in_map_iff in Hx. destruct Hx as [px [<- Hpx]].
    rewrite Forall_forall in Hu. rewrite sbits_of_bytes_length, (Hu px Hpx). reflexivity.
Qed.

(* ---------------------------------------------------------------- layouts at pixel granularity *)
Definition pix_layout (w h : Z) (il : bool) : list (option Z * Z) :=
  if il then map (fun pn => (Some (fst pn), snd pn)) (spec_lines w h) else repeat (None, w) (Z.to_nat h).

Lemma spec_layout_pix w h bpp il :
  spec_layout w h bpp il = map (fun pn => (fst pn, snd pn, line_bytes bpp (snd pn))) (pix_layout w h il).
Proof.
  unfold spec_layout, pix_layout. destruct il.
  - rewrite map_map. reflexivity.
  - induction (Z.to_nat h) as [|k IH]; cbn [repeat map]; [reflexivity|]. rewrite IH. reflexivity.
Qed.

Lemma line_bytes_aligned (B : nat) n : (0 <= n)%Z -> line_bytes (8 * Z.of_nat B) n = (n * Z.of_nat B)%Z.
Proof. intros Hn. unfold line_bytes, cdiv. nia. Qed.

(* cutting a list of pixels into scan lines *)
Fixpoint split_px {A} (L : list (option Z * Z)) (pxs : list A) : option (list (option Z * Z * list A)) :=
  match L with
  | [] => match pxs with [] => Some [] | _ => None end
  | (p, n) :: t =>
      if length pxs <? Z.to_nat n then None
      else match split_px t (skipn (Z.to_nat n) pxs) with
           | Some r => Some ((p, n, firstn (Z.to_nat n) pxs) :: r)
           | None => None
           end
  end.

Lemma split_px_map {A B} (f : A -> B) L : forall pxs,
  split_px L (map f pxs) = option_map (map (fun l => (fst l, map f (snd l)))) (split_px L pxs).
Proof.
  induction L as [|[p n] t IH]; intros pxs; cbn [split_px].
  - destruct pxs; reflexivity.
  - rewrite map_length. destruct (length pxs <? Z.to_nat n); [reflexivity|].
    rewrite skipn_map, IH, firstn_map. destruct (split_px t (skipn (Z.to_nat n) pxs)); reflexivity.
Qed.

Lemma split_px_shape {A} L : forall (pxs : list A) lines, split_px L pxs = Some lines ->
  Forall (fun l => length (snd l) = Z.to_nat (snd (fst l)) /\ forall x, In x (snd l) -> In x pxs) lines.
Proof.
  induction L as [|[p n] t IH]; intros pxs lines H; cbn [split_px] in H.
  - destruct pxs; [injection H as <-; constructor|discriminate].
  - destruct (Nat.ltb_spec (length pxs) (Z.to_nat n)) as [|Hge]; [discriminate|].
    destruct (split_px t (skipn (Z.to_nat n) pxs)) as [r|] eqn:E; [|discriminate]. injection H as <-.
    constructor.
    + cbn [fst snd]. split; [rewrite firstn_length; lia|]. intros x Hx. eapply In_firstn; eauto.
    + specialize (IH _ _ E). rewrite Forall_forall in *. intros l Hl. destruct (IH l Hl) as [H1 H2]. split; [exact H1|].
      intros x Hx. eapply In_skipn. apply H2. exact Hx.
Qed.

Lemma cut_layout_px (B : nat) : 0 < B -> forall L (pxs : list (list Z)),
  Forall (fun px => length px = B) pxs -> Forall (fun pn => (0 <= snd pn)%Z) L ->
  cut_layout (map (fun pn => (fst pn, snd pn, (snd pn * Z.of_nat B)%Z)) L) (concat pxs)
  = option_map (map (fun l => (fst l, concat (snd l)))) (split_px L pxs).
Proof.
  intros HB. induction L as [|[p n] t IH]; intros pxs Hu HL; cbn [map cut_layout split_px fst snd].
  - destruct pxs as [|px r]; [reflexivity|]. apply Forall_inv in Hu.
    destruct px as [|b px]; [cbn in Hu; lia|]. reflexivity.
  - pose proof (Forall_inv HL) as Hn. pose proof (Forall_inv_tail HL) as Ht. cbn [snd] in Hn.
    rewrite (concat_length_uniform B) by auto.
    replace (Z.to_nat (n * Z.of_nat B)) with (Z.to_nat n * B) by nia.
    destruct (Nat.ltb_spec (length pxs) (Z.to_nat n)) as [Hlt|Hge].
    + destruct (Nat.ltb_spec (length pxs * B) (Z.to_nat n * B)) as [|Hge2]; [reflexivity|nia].
    + destruct (Nat.ltb_spec (length pxs * B) (Z.to_nat n * B)) as [Hlt2|]; [nia|].
      rewrite (skipn_concat_uniform B) by auto. rewrite IH by (auto using Forall_skipn').
      rewrite (firstn_concat_uniform B) by auto.
      destruct (split_px t (skipn (Z.to_nat n) pxs)); reflexivity.
Qed.

(* ---------------------------------------------------------------- assembling commutes with a pixel map *)
Lemma pass_rows_map {A B} (f : A -> B) p (plines : list (option Z * Z * list A)) :
  pass_rows p (map (fun l => (fst l, map f (snd l))) plines) = map (map f) (pass_rows p plines).
Proof.
  unfold pass_rows. induction plines as [|[[q n] l] t IH]; cbn [map flat_map fst snd]; [reflexivity|].
  rewrite map_app, IH. destruct q as [q|]; [destruct (q =? p)%Z|]; reflexivity.
Qed.

Lemma spec_pixel_at_map {A B} (f : A -> B) (passes : list (list (list A))) x y :
  spec_pixel_at (map (map (map f)) passes) x y = option_map f (spec_pixel_at passes x y).
Proof.
  unfold spec_pixel_at. rewrite nth_error_map. destruct (nth_error passes _) as [pass|]; cbn [option_map]; [|reflexivity].
  rewrite nth_error_map. destruct (nth_error pass _) as [row|]; cbn [option_map]; [|reflexivity].
  apply nth_error_map.
Qed.

Lemma spec_deinterlace_map {A B} (f : A -> B) w h (passes : list (list (list A))) :
  spec_deinterlace w h (map (map (map f)) passes) = option_map (map (map f)) (spec_deinterlace w h passes).
Proof.
  unfold spec_deinterlace.
  rewrite (map_ext _ (fun y => option_map (map f) (all_some (map (fun x => spec_pixel_at passes (Z.of_nat x) (Z.of_nat y)) (seq 0 (Z.to_nat w)))))).
  - rewrite <- (map_map (fun y => all_some (map (fun x => spec_pixel_at passes (Z.of_nat x) (Z.of_nat y)) (seq 0 (Z.to_nat w)))) (option_map (map f))).
    apply all_some_map_option_map.
  - intros y. rewrite <- all_some_map_option_map, map_map. f_equal. apply map_ext. intros x. apply spec_pixel_at_map.
Qed.

Lemma assemble_map {A B} (f : A -> B) w h il (plines : list (option Z * Z * list A)) :
  assemble w h il (map (fun l => (fst l, map f (snd l))) plines) = option_map (map (map f)) (assemble w h il plines).
Proof.
  unfold assemble. destruct il.
  - rewrite <- spec_deinterlace_map. f_equal. rewrite map_map. apply map_ext. intros p. apply pass_rows_map.
  - cbn [option_map]. rewrite !map_map. reflexivity.
Qed.

(* ---------------------------------------------------------------- meaning of a byte-aligned image *)
Definition finish (w h : Z) (crows : option (list (list (option rgba16)))) : option picture :=
  match crows with
  | Some cr => match all_some (map all_some cr) with
               | Some px => Some {| pic_w := w; pic_h := h; pic_px := px |}
               | None => None
               end
  | None => None
  end.

Definition pxcol (c : spec_color) (d : Z) (px : list Z) : option rgba16 := pixel_color c d (sbits_of_bytes px).

(* the meaning of image data under an arbitrary per-pixel colour function *)
Definition gsem (w h bits_pp : Z) (il : bool) (pc : list bool -> option rgba16) (data : list Z) : option picture :=
  finish w h (option_map (map (map pc)) (spec_image_pixels w h bits_pp il data)).

Lemma spec_sem_gsem w h c d il data :
  spec_sem w h c d il data = if negb (depth_legal c d) then None else gsem w h (d * spec_channels c) il (pixel_color c d) data.
Proof.
  unfold spec_sem, gsem, finish. destruct (negb (depth_legal c d)); [reflexivity|].
  destruct (spec_image_pixels w h (d * spec_channels c) il data) as [rows|]; cbn [option_map]; [|reflexivity].
  rewrite map_map. reflexivity.
Qed.

Lemma spec_sem_scaled_gsem w h c il data :
  spec_sem_scaled w h c il data = if negb (depth_legal c 16) then None else gsem w h (16 * spec_channels c) il (pixel_color_scaled c) data.
Proof.
  unfold spec_sem_scaled, gsem, finish. destruct (negb (depth_legal c 16)); [reflexivity|].
  destruct (spec_image_pixels w h (16 * spec_channels c) il data) as [rows|]; cbn [option_map]; [|reflexivity].
  rewrite map_map. reflexivity.
Qed.

Lemma pix_layout_nonneg w h il : (1 <= w)%Z -> (1 <= h)%Z -> Forall (fun pn => (0 <= snd pn)%Z) (pix_layout w h il).
Proof.
  intros Hw Hh. unfold pix_layout. destruct il.
  - apply Forall_forall. intros pn Hin. apply in_map_iff in Hin. destruct Hin as [o [<- Ho]]. cbn [snd].
    pose proof (spec_lines_pos w h Hw Hh) as P. rewrite Forall_forall in P. specialize (P o Ho). lia.
  - apply Forall_forall. intros pn Hin. apply repeat_spec in Hin. subst pn. cbn [snd]. lia.
Qed.

(* the meaning of a byte-aligned image in terms of its pixels (lists of B bytes) *)
Lemma gsem_aligned w h il pc (B : nat) (pxs : list (list Z)) :
  0 < B -> Forall (fun px => length px = B) pxs ->
  gsem w h (8 * Z.of_nat B) il pc (concat pxs) =
  if (w <=? 0)%Z || (h <=? 0)%Z then None else
  match split_px (pix_layout w h il) pxs with
  | Some lines => finish w h (assemble w h il (map (fun l => (fst l, map (fun px => pc (sbits_of_bytes px)) (snd l))) lines))
  | None => None
  end.
Proof.
  intros HB Hu. unfold gsem, spec_image_pixels.
  destruct (Z.leb_spec w 0) as [Hw|Hw]; cbn [orb]; [reflexivity|].
  destruct (Z.leb_spec h 0) as [Hh|Hh]; cbn [orb]; [reflexivity|].
  destruct (Z.leb_spec (8 * Z.of_nat B) 0) as [Hb|Hb]; [lia|].
  rewrite spec_layout_pix.
  rewrite (map_ext_in _ (fun pn => (fst pn, snd pn, (snd pn * Z.of_nat B)%Z))).
  2:{ intros pn Hin. pose proof (pix_layout_nonneg w h il ltac:(lia) ltac:(lia)) as P. rewrite Forall_forall in P.
      rewrite line_bytes_aligned by (apply P; exact Hin). reflexivity. }
  rewrite (cut_layout_px B HB) by (auto; apply pix_layout_nonneg; lia).
  destruct (split_px (pix_layout w h il) pxs) as [lines|] eqn:Es; cbn [option_map]; [|reflexivity].
  rewrite map_map. cbn [fst snd].
  pose proof (split_px_shape _ _ _ Es) as Sh.
  rewrite (map_ext_in _ (fun l => (fst l, map sbits_of_bytes (snd l)))).
  2:{ intros l Hl. rewrite Forall_forall in Sh. destruct (Sh l Hl) as [Hlen Hin]. f_equal.
      apply line_pixels_aligned; auto. apply Forall_forall. intros px Hpx. rewrite Forall_forall in Hu. apply Hu. apply Hin. exact Hpx. }
  rewrite <- (assemble_map pc). rewrite map_map. cbn [fst snd].
  f_equal. f_equal. apply map_ext. intros l. rewrite map_map. reflexivity.
Qed.

(* MAIN LIFTING THEOREM: a pixel-by-pixel transformation between byte-aligned formats that keeps the
   meaning of every pixel of the image keeps the meaning of the image (any size, interlaced or not) *)
Theorem pixelwise_gsem w h il pc pc' (B B' : nat) (g : list Z -> list Z) (pxs : list (list Z)) pic :
  0 < B -> 0 < B' ->
  Forall (fun px => length px = B) pxs ->
  (forall px, In px pxs -> length (g px) = B' /\ pc' (sbits_of_bytes (g px)) = pc (sbits_of_bytes px)) ->
  gsem w h (8 * Z.of_nat B) il pc (concat pxs) = Some pic ->
  gsem w h (8 * Z.of_nat B') il pc' (concat (map g pxs)) = Some pic.
Proof.
  intros HB HB' Hu Hg Hsem.
  rewrite (gsem_aligned w h il pc B pxs HB Hu) in Hsem.
  rewrite (gsem_aligned w h il pc' B' (map g pxs) HB').
  2:{ apply Forall_forall. intros x Hx. apply in_map_iff in Hx. destruct Hx as [px [<- Hpx]]. apply Hg. exact Hpx. }
  destruct ((w <=? 0)%Z || (h <=? 0)%Z); [discriminate|].
  rewrite split_px_map. destruct (split_px (pix_layout w h il) pxs) as [lines|] eqn:Es; [|discriminate]. cbn [option_map].
  rewrite <- Hsem. f_equal. f_equal. rewrite map_map. cbn [fst snd]. apply map_ext_in. intros l Hl. f_equal.
  rewrite map_map. apply map_ext_in. intros px Hpx.
  pose proof (split_px_shape _ _ _ Es) as Sh. rewrite Forall_forall in Sh. destruct (Sh l Hl) as [_ Hin].
  apply Hg. apply Hin. exact Hpx.
Qed.

(* data that means something has a whole number of pixels *)
Lemma cut_layout_length L : forall data lines, cut_layout L data = Some lines ->
  length data = list_sum (map (fun l => Z.to_nat (snd l)) L).
Proof.
  induction L as [|[[p n] nb] t IH]; intros data lines H; cbn [cut_layout] in H.
  - destruct data; [reflexivity|discriminate].
  - destruct (Nat.ltb_spec (length data) (Z.to_nat nb)) as [|Hge]; [discriminate|].
    destruct (cut_layout t (skipn (Z.to_nat nb) data)) as [r|] eqn:E; [|discriminate].
    specialize (IH _ _ E). rewrite skipn_length in IH. cbn [map snd]. unfold list_sum in *. cbn [fold_right]. lia.
Qed.

Lemma gsem_some_length w h il pc (B : nat) data pic : 0 < B ->
  gsem w h (8 * Z.of_nat B) il pc data = Some pic -> exists k, length data = k * B.
Proof.
  intros HB H. unfold gsem, spec_image_pixels in H.
  destruct (Z.leb_spec w 0) as [Hw|Hw]; cbn [orb] in H; [discriminate|].
  destruct (Z.leb_spec h 0) as [Hh|Hh]; cbn [orb] in H; [discriminate|].
  destruct (Z.leb_spec (8 * Z.of_nat B) 0) as [Hb|Hb]; [lia|].
  destruct (cut_layout (spec_layout w h (8 * Z.of_nat B) il) data) as [lines|] eqn:E; [|discriminate].
  apply cut_layout_length in E. rewrite E, spec_layout_pix, map_map. cbn [snd].
  pose proof (pix_layout_nonneg w h il ltac:(lia) ltac:(lia)) as P.
  unfold list_sum. induction (pix_layout w h il) as [|pn t IH]; cbn [map fold_right].
  - exists 0. reflexivity.
  - destruct IH as [k Hk]; [inversion P; auto|]. rewrite Hk. exists (Z.to_nat (snd pn) + k).
    rewrite line_bytes_aligned by (inversion P; auto). inversion P; subst. nia.
Qed.

(* ---------------------------------------------------------------- the meaning only depends on the pixel colours *)
(* picture from the list of pixel values in data order *)
Definition gcol {A} (w h : Z) (il : bool) (cols : list A) : option (list (list A)) :=
  if (w <=? 0)%Z || (h <=? 0)%Z then None else
  match split_px (pix_layout w h il) cols with
  | Some lines => assemble w h il lines
  | None => None
  end.

Lemma gsem_aligned_cols w h il pc (B : nat) (pxs : list (list Z)) :
  0 < B -> Forall (fun px => length px = B) pxs ->
  gsem w h (8 * Z.of_nat B) il pc (concat pxs) = finish w h (gcol w h il (map (fun px => pc (sbits_of_bytes px)) pxs)).
Proof.
  intros HB Hu. rewrite (gsem_aligned w h il pc B pxs HB Hu). unfold gcol.
  destruct ((w <=? 0)%Z || (h <=? 0)%Z); [reflexivity|].
  rewrite split_px_map. destruct (split_px (pix_layout w h il) pxs); reflexivity.
Qed.

(* two byte-aligned images whose pixels have the same colours, in order, mean the same *)
Theorem samecols_gsem w h il pc pc' (B B' : nat) (pxs pxs' : list (list Z)) :
  0 < B -> 0 < B' ->
  Forall (fun px => length px = B) pxs -> Forall (fun px => length px = B') pxs' ->
  map (fun px => pc' (sbits_of_bytes px)) pxs' = map (fun px => pc (sbits_of_bytes px)) pxs ->
  gsem w h (8 * Z.of_nat B') il pc' (concat pxs') = gsem w h (8 * Z.of_nat B) il pc (concat pxs).
Proof. intros HB HB' Hu Hu' E. rewrite !gsem_aligned_cols by auto. rewrite E. reflexivity. Qed.

(* ---------------------------------------------------------------- relational lift *)
Lemma gcol_map {A B} (f : A -> B) w h il (cols : list A) :
  gcol w h il (map f cols) = option_map (map (map f)) (gcol w h il cols).
Proof.
  unfold gcol. destruct ((w <=? 0)%Z || (h <=? 0)%Z); [reflexivity|].
  rewrite split_px_map. destruct (split_px (pix_layout w h il) cols) as [lines|]; cbn [option_map]; [|reflexivity].
  apply assemble_map.
Qed.

Lemma all_some_in {A} (l : list (option A)) r : all_some l = Some r -> forall x, In x r -> In (Some x) l.
Proof.
  revert r. induction l as [|[a|] t IH]; intros r H x Hx; cbn [all_some] in H; try discriminate.
  - injection H as <-. destruct Hx.
  - destruct (all_some t) as [r'|] eqn:E; [|discriminate]. injection H as <-. destruct Hx as [<-|Hx]; [left; reflexivity|right; eapply IH; eauto].
Qed.

Lemma spec_pixel_at_in {A} (passes : list (list (list A))) x y a :
  spec_pixel_at passes x y = Some a -> exists pass row, In pass passes /\ In row pass /\ In a row.
Proof.
  unfold spec_pixel_at. destruct (nth_error passes _) as [pass|] eqn:E1; [|discriminate].
  destruct (nth_error pass _) as [row|] eqn:E2; [|discriminate]. intros E3.
  exists pass, row. split; [|split]; eapply nth_error_In; eassumption.
Qed.

Lemma pass_rows_in {A} p (plines : list (option Z * Z * list A)) row :
  In row (pass_rows p plines) -> exists l, In l plines /\ snd l = row.
Proof.
  unfold pass_rows. intros H. apply in_flat_map in H. destruct H as [l [Hl H]]. exists l. split; [exact Hl|].
  destruct (fst (fst l)) as [q|]; [destruct (q =? p)%Z|]; cbn in H; try tauto.
Qed.

Lemma assemble_in {A} w h il (plines : list (option Z * Z * list A)) rows :
  assemble w h il plines = Some rows -> forall row a, In row rows -> In a row -> exists l, In l plines /\ In a (snd l).
Proof.
  unfold assemble. destruct il.
  - unfold spec_deinterlace. intros H row a Hrow Ha.
    pose proof (all_some_in _ _ H row Hrow) as H1. apply in_map_iff in H1. destruct H1 as [y [Hy _]].
    pose proof (all_some_in _ _ Hy a Ha) as H2. apply in_map_iff in H2. destruct H2 as [x [Hx _]].
    apply spec_pixel_at_in in Hx. destruct Hx as (pass & r & Hp & Hr & Har).
    apply in_map_iff in Hp. destruct Hp as [p [<- _]]. apply pass_rows_in in Hr. destruct Hr as [l [Hl <-]]. eauto.
  - intros H row a Hrow Ha. injection H as <-. apply in_map_iff in Hrow. destruct Hrow as [l [<- Hl]]. eauto.
Qed.

Lemma gcol_in {A} w h il (cols : list A) rows : gcol w h il cols = Some rows ->
  forall row a, In row rows -> In a row -> In a cols.
Proof.
  unfold gcol. destruct ((w <=? 0)%Z || (h <=? 0)%Z); [discriminate|].
  destruct (split_px (pix_layout w h il) cols) as [lines|] eqn:Es; [|discriminate]. intros H row a Hrow Ha.
  destruct (assemble_in _ _ _ _ _ H row a Hrow Ha) as [l [Hl Hal]].
  pose proof (split_px_shape _ _ _ Es) as Sh. rewrite Forall_forall in Sh. apply (Sh l Hl). exact Hal.
Qed.

Lemma map_fst_combine {A B} (a : list A) (b : list B) : length a = length b -> map fst (combine a b) = a.
Proof. revert b. induction a as [|x a IH]; intros [|y b] H; cbn in *; try lia; [reflexivity|]. rewrite IH by lia. reflexivity. Qed.
Lemma map_snd_combine {A B} (a : list A) (b : list B) : length a = length b -> map snd (combine a b) = b.
Proof. revert b. induction a as [|x a IH]; intros [|y b] H; cbn in *; try lia; [reflexivity|]. rewrite IH by lia. reflexivity. Qed.

Lemma Forall2_len {A B} (R : A -> B -> Prop) l l' : Forall2 R l l' -> length l = length l'.
Proof. induction 1; cbn; congruence. Qed.

(* two byte-aligned images whose pixels are pairwise related: both meanings come from one table of
   pairs of pixel colours, every entry of which is related *)
Theorem rel_gsem (R : option rgba16 -> option rgba16 -> Prop) w h il pc pc' (B B' : nat) (pxs pxs' : list (list Z)) :
  0 < B -> 0 < B' ->
  Forall (fun px => length px = B) pxs -> Forall (fun px => length px = B') pxs' ->
  Forall2 (fun px px' => R (pc (sbits_of_bytes px)) (pc' (sbits_of_bytes px'))) pxs pxs' ->
  exists orows : option (list (list (option rgba16 * option rgba16))),
    gsem w h (8 * Z.of_nat B) il pc (concat pxs) = finish w h (option_map (map (map fst)) orows) /\
    gsem w h (8 * Z.of_nat B') il pc' (concat pxs') = finish w h (option_map (map (map snd)) orows) /\
    forall rows, orows = Some rows -> Forall (Forall (fun z => R (fst z) (snd z))) rows.
Proof.
  intros HB HB' Hu Hu' HF.
  set (c1 := map (fun px => pc (sbits_of_bytes px)) pxs). set (c2 := map (fun px => pc' (sbits_of_bytes px)) pxs').
  assert (Hlen : length c1 = length c2) by (unfold c1, c2; rewrite !map_length; eapply Forall2_len; eauto).
  exists (gcol w h il (combine c1 c2)). split; [|split].
  - rewrite gsem_aligned_cols by auto. fold c1. rewrite <- gcol_map, map_fst_combine by exact Hlen. reflexivity.
  - rewrite gsem_aligned_cols by auto. fold c2. rewrite <- gcol_map, map_snd_combine by exact Hlen. reflexivity.
  - intros rows Hrows. apply Forall_forall. intros row Hrow. apply Forall_forall. intros z Hz.
    pose proof (gcol_in _ _ _ _ _ Hrows row z Hrow Hz) as Hin.
    clear -HF Hin. unfold c1, c2 in Hin. induction HF as [|px px' t t' Hr _ IH]; cbn in Hin; [destruct Hin|].
    destruct Hin as [<-|Hin]; [exact Hr|auto].
Qed.

Lemma all_some_all {A} (l : list (option A)) r : all_some l = Some r -> Forall (fun o => o <> None) l.
Proof.
  revert r. induction l as [|[a|] t IH]; intros r H; cbn [all_some] in H; try discriminate; [constructor|].
  destruct (all_some t) eqn:E; [|discriminate]. constructor; [discriminate|eauto].
Qed.

Lemma finish_some_all w h crows pic : finish w h (Some crows) = Some pic -> Forall (Forall (fun o => o <> None)) crows.
Proof.
  unfold finish. destruct (all_some (map all_some crows)) as [px|] eqn:E; [|discriminate]. intros _.
  revert px E. induction crows as [|r t IH]; intros px E; [constructor|]. cbn [map all_some] in E.
  destruct (all_some r) as [r'|] eqn:Er; [|discriminate]. destruct (all_some (map all_some t)) eqn:Et; [|discriminate].
  constructor; [eapply all_some_all; eauto|eauto].
Qed.

(* refinement: wherever the first image has a colour, the second has the same *)
Theorem refine_gsem w h il pc pc' (B B' : nat) (pxs pxs' : list (list Z)) pic :
  0 < B -> 0 < B' ->
  Forall (fun px => length px = B) pxs -> Forall (fun px => length px = B') pxs' ->
  Forall2 (fun px px' => pc (sbits_of_bytes px) <> None -> pc' (sbits_of_bytes px') = pc (sbits_of_bytes px)) pxs pxs' ->
  gsem w h (8 * Z.of_nat B) il pc (concat pxs) = Some pic ->
  gsem w h (8 * Z.of_nat B') il pc' (concat pxs') = Some pic.
Proof.
  intros HB HB' Hu Hu' HF Hsem.
  destruct (rel_gsem (fun a b => a <> None -> b = a) w h il pc pc' B B' pxs pxs' HB HB' Hu Hu' HF) as (orows & E1 & E2 & HR).
  rewrite E2. rewrite E1 in Hsem. destruct orows as [rows|]; [|exact Hsem]. cbn [option_map] in *.
  rewrite <- Hsem. f_equal. f_equal.
  pose proof (finish_some_all _ _ _ _ Hsem) as Hall. specialize (HR rows eq_refl).
  clear -Hall HR. induction rows as [|row t IH]; [reflexivity|]. cbn [map] in *.
  inversion Hall as [|? ? Ha Hall']; subst. inversion HR as [|? ? Hr HR']; subst. rewrite IH by auto. f_equal.
  clear -Ha Hr. induction row as [|z r IH]; [reflexivity|]. cbn [map] in *.
  inversion Ha as [|? ? Hz Ha']; subst. inversion Hr as [|? ? Hrz Hr']; subst. rewrite IH by auto. f_equal. apply Hrz. exact Hz.
Qed.

(* deinterlace_image keeps the meaning of an image (C01 leaf, de-interlacing direction; C18): the state machine of
   src/interlace.rs computes the specification's de-interlacing of the pass lines (DeinterlaceStep/DeinterlaceLink), its pixel
   extraction is the specification's, and the rows it packs are cut back into the same pixels. *)
From OxiVerif Require Import Base.Common Spec.Adam7 Spec.Sem Model.Types Model.ScanLines Model.Interlace
  Proofs.Bridge Proofs.ScanProofs Proofs.InterlaceProofs Proofs.Adam7RoundTrip Proofs.ImageLift Proofs.LiftReductions
  Proofs.LiftColor Proofs.LiftLines Proofs.LiftBits Proofs.LiftInterlace.
From OxiVerif Require Import Proofs.DeinterlaceCore Proofs.DeinterlaceStep Proofs.DeinterlaceLink.
Local Open Scope Z_scope.

(* ---------------------------------------------------------------- a list laid out pass by pass splits into its blocks *)
Lemma Forall2_app_inv_l' {A B} (R : A -> B -> Prop) l1 l2 l : Forall2 R (l1 ++ l2) l ->
  exists a b, l = a ++ b /\ Forall2 R l1 a /\ Forall2 R l2 b.
Proof.
  revert l. induction l1 as [|x t IH]; intros l H; cbn [app] in H.
  - exists [], l. repeat split; [constructor|exact H].
  - inversion H as [|? y ? l' Hxy Ht]; subst. destruct (IH l' Ht) as (a & b & -> & Ha & Hb).
    exists (y :: a), b. repeat split; [constructor; assumption|exact Hb].
Qed.

Lemma Forall2_flat_map_split {P B C} (R : B -> C -> Prop) (f : P -> list B) (eqb : P -> P -> bool) :
  (forall a b, eqb a b = true <-> a = b) -> forall ps l, NoDup ps -> Forall2 R (flat_map f ps) l ->
  exists g : P -> list C, l = flat_map g ps /\ (forall p, In p ps -> Forall2 R (f p) (g p)) /\ (forall p, ~ In p ps -> g p = []).
Proof.
  intros Heq. induction ps as [|p t IH]; intros l Hnd H; cbn [flat_map] in H.
  - inversion H; subst. exists (fun _ => []). repeat split; intros p [].
  - apply Forall2_app_inv_l' in H. destruct H as (a & b & -> & Ha & Hb).
    inversion Hnd as [|? ? Hnotin Hnd']; subst.
    destruct (IH b Hnd' Hb) as (g & -> & Hg & Hg0).
    exists (fun q => if eqb q p then a else g q). split; [|split].
    + cbn [flat_map]. rewrite (proj2 (Heq p p) eq_refl). f_equal. apply flat_map_ext_in. intros q Hq.
      destruct (eqb q p) eqn:E; [apply Heq in E; subst; contradiction|reflexivity].
    + intros q [<-|Hq]; [rewrite (proj2 (Heq p p) eq_refl); exact Ha|].
      destruct (eqb q p) eqn:E; [apply Heq in E; subst; contradiction|apply Hg; exact Hq].
    + intros q Hq. destruct (eqb q p) eqn:E; [apply Heq in E; subst; exfalso; apply Hq; left; reflexivity|].
      apply Hg0. intros Hin. apply Hq. right. exact Hin.
Qed.

Lemma chunks_concat {A} (B : nat) (pxs : list (list A)) : (0 < B)%nat -> Forall (fun px => length px = B) pxs -> chunks B (concat pxs) = pxs.
Proof.
  intros HB. induction 1 as [|px t Hpx _ IH]; cbn [concat]; [apply chunks_nil|].
  rewrite chunks_step; [|exact HB|destruct px; [cbn in Hpx; lia|discriminate]].
  assert (E1 : firstn B (px ++ concat t) = px) by (rewrite <- Hpx, firstn_app, Nat.sub_diag, firstn_O, firstn_all, app_nil_r; reflexivity).
  assert (E2 : skipn B (px ++ concat t) = concat t) by (rewrite <- Hpx, skipn_app, Nat.sub_diag, skipn_O, skipn_all; reflexivity).
  rewrite E1, E2, IH. reflexivity.
Qed.

Lemma chunks_multiple {A} (B : nat) (l : list A) k : (0 < B)%nat -> length l = (k * B)%nat ->
  chunks B l = chunks_exact B l /\ Forall (fun px => length px = B) (chunks B l) /\ length (chunks B l) = k.
Proof.
  intros HB Hl. destruct (chunks_exact_spec B l k HB Hl) as (C1 & C2 & C3).
  assert (E : chunks B l = chunks_exact B l) by (rewrite <- C1 at 1; apply chunks_concat; assumption).
  rewrite E. auto.
Qed.

(* de-interlacing commutes with a change of pixel representation *)
Lemma spec_deinterlace_map {A B} (f : A -> B) w h (passes : list (list (list A))) :
  spec_deinterlace w h (map (map (map f)) passes) = option_map (map (map f)) (spec_deinterlace w h passes).
Proof.
  unfold spec_deinterlace.
  assert (Hpx : forall x y, spec_pixel_at (map (map (map f)) passes) x y = option_map f (spec_pixel_at passes x y)).
  { intros x y. unfold spec_pixel_at. rewrite nth_error_map. destruct (nth_error passes _) as [pass|]; cbn [option_map]; [|reflexivity].
    rewrite nth_error_map. destruct (nth_error pass _) as [row|]; cbn [option_map]; [|reflexivity]. apply nth_error_map. }
  rewrite <- all_some_map_option_map. f_equal. rewrite map_map. apply map_ext. intros y.
  rewrite <- all_some_map_option_map. f_equal. rewrite map_map. apply map_ext. intros x. apply Hpx.
Qed.

(* every pixel of a de-interlaced image is a pixel of one of the pass lines *)
Lemma spec_deinterlace_in {A} w h (passes : list (list (list A))) G : spec_deinterlace w h passes = Some G ->
  forall r px, In r G -> In px r -> exists pass row, In pass passes /\ In row pass /\ In px row.
Proof.
  unfold spec_deinterlace. intros H r px Hr Hpx.
  pose proof (all_some_in _ _ H r Hr) as Hin. apply in_map_iff in Hin. destruct Hin as [y [Ey _]].
  pose proof (all_some_in _ _ Ey px Hpx) as Hin. apply in_map_iff in Hin. destruct Hin as [x [Ex _]].
  unfold spec_pixel_at in Ex.
  destruct (nth_error passes _) as [pass|] eqn:E1; [|discriminate].
  destruct (nth_error pass _) as [row|] eqn:E2; [|discriminate].
  exists pass, row. repeat split; eapply nth_error_In; eauto.
Qed.

(* ---------------------------------------------------------------- the scan lines of an interlaced image, pass by pass *)
Definition blocks_ok (w h b : Z) (LB : Z -> list (list Z)) : Prop :=
  forall p, In p passes7 ->
    (active w h p -> length (LB p) = Z.to_nat (ph h p) /\
                     Forall (fun tl => length tl = Z.to_nat (line_bytes b (pw w p)) /\ bytes_ok tl) (LB p)) /\
    (~ active w h p -> LB p = []).

Lemma pw_pos_active w h p : In p passes7 -> 1 <= w -> 1 <= h -> (active w h p <-> 0 < pw w p /\ 0 < ph h p).
Proof.
  intros Hp Hw Hh. destruct (pass_consts p Hp) as (Hdx & Hx0 & Hdy & Hy0). unfold active, pw, ph. split.
  - intros [H1 H2]. destruct (Z.leb_spec w (x0 p)); [lia|]. destruct (Z.leb_spec h (y0 p)); [lia|].
    split; [apply (cdiv_fit (dx p) (w - x0 p) Hdx); lia|apply (cdiv_fit (dy p) (h - y0 p) Hdy); lia].
  - intros [H1 H2]. destruct (Z.leb_spec w (x0 p)); [lia|]. destruct (Z.leb_spec h (y0 p)); [lia|]. lia.
Qed.

Lemma interlaced_blocks img pic : wf img -> interlaced (hdr img) = true -> sem img = Some pic ->
  let w := width (hdr img) in let h := height (hdr img) in let b := bpp (hdr img) in
  1 <= w /\ 1 <= h /\ 1 <= b /\
  exists (LB : Z -> list (list Z)) rows,
    scan_lines img false = Ok (flat_map (fun p => map (fun tl => to_scanline (Some p, pw w p, tl)) (LB p)) passes7) /\
    blocks_ok w h b LB /\
    spec_deinterlace w h (map (fun p => map (line_pixels b (pw w p)) (LB p)) passes7) = Some rows /\
    spec_image_pixels w h b true (data img) = Some rows.
Proof.
  intros [Hok Hwf] Hil Hsem. cbv zeta.
  destruct (sem_some_cut _ _ Hsem) as (Hw & Hh & Hbpp & lines & Hcut). rewrite Hil in Hcut.
  pose proof (scan_lines_is_layout img lines Hw Hh Hbpp) as Hsl. rewrite Hil in Hsl. specialize (Hsl Hcut).
  set (w := width (hdr img)) in *. set (h := height (hdr img)) in *. set (b := bpp (hdr img)) in *.
  split; [exact Hw|]. split; [exact Hh|]. split; [exact Hbpp|].
  destruct (cut_layout_shape _ _ _ Hcut) as [Hs Hd0].
  set (fL := fun p => if pw w p =? 0 then [] else repeat (Some p, pw w p, line_bytes b (pw w p)) (Z.to_nat (ph h p))).
  assert (HL : spec_layout w h b true = flat_map fL passes7).
  { unfold spec_layout, spec_lines. rewrite map_flat_map. apply flat_map_ext_in. intros p Hp. unfold spec_pass_lines, fL.
    destruct (pw w p =? 0); [reflexivity|]. rewrite map_repeat'. reflexivity. }
  rewrite HL in Hs.
  destruct (Forall2_flat_map_split _ fL Z.eqb Z.eqb_eq passes7 lines passes7_nodup Hs) as (g & Elines & Hg & _).
  set (LB := fun p => map snd (g p)).
  assert (Hgp : forall p, In p passes7 -> g p = map (fun tl => (Some p, pw w p, tl)) (LB p)).
  { intros p Hp. specialize (Hg p Hp). unfold LB, fL in *. destruct (pw w p =? 0); [inversion Hg; reflexivity|].
    clear -Hg. revert Hg. generalize (Z.to_nat (ph h p)) as n. induction (g p) as [|l t IH]; intros n Hg; [reflexivity|].
    destruct n; cbn [repeat] in Hg; inversion Hg as [|? ? ? ? [Hf _] Ht]; subst. cbn [map]. rewrite <- (IH n Ht). f_equal.
    destruct l as [pn tl]. cbn [fst snd] in *. rewrite Hf. reflexivity. }
  assert (Hlines_ok : forall l, In l lines -> bytes_ok (snd l)).
  { intros l Hl. unfold bytes_ok. apply Forall_forall. intros x Hx. eapply bytes_ok_in; [exact Hok|]. rewrite Hd0. apply in_concat. exists (snd l). split; [apply in_map; exact Hl|exact Hx]. }
  assert (HLB : blocks_ok w h b LB).
  { intros p Hp. specialize (Hg p Hp). pose proof (pw_pos_active w h p Hp Hw Hh) as PA.
    pose proof (pw_nonneg w p Hw ltac:(apply passes7_range; exact Hp)) as Pn. pose proof (ph_nonneg h p Hh ltac:(apply passes7_range; exact Hp)) as Pm.
    unfold fL in Hg. split.
    - intros Hact. apply PA in Hact. destruct Hact as [A1 A2]. destruct (Z.eqb_spec (pw w p) 0); [lia|]. split.
      + unfold LB. rewrite map_length. apply Forall2_len in Hg. rewrite repeat_length in Hg. lia.
      + unfold LB. apply Forall_forall. intros tl Htl. apply in_map_iff in Htl. destruct Htl as [l [<- Hl]]. split.
        * clear -Hg Hl. revert Hg Hl. generalize (Z.to_nat (ph h p)) as n. induction (g p) as [|l0 t IH]; intros n Hg Hl; [destruct Hl|].
          destruct n; cbn [repeat] in Hg; inversion Hg as [|? ? ? ? [_ Hlen] Ht]; subst. destruct Hl as [<-|Hl]; [exact Hlen|eapply IH; eauto].
        * apply Hlines_ok. rewrite Elines. apply in_flat_map. exists p. split; [exact Hp|exact Hl].
    - intros Hna. unfold LB. destruct (Z.eqb_spec (pw w p) 0) as [E|Hne]; [inversion Hg; reflexivity|].
      assert (E : ph h p = 0) by (destruct (Z.eq_dec (ph h p) 0); [assumption|exfalso; apply Hna; apply PA; lia]).
      rewrite E in Hg. cbn [Z.to_nat repeat] in Hg. inversion Hg. reflexivity. }
  assert (Hlines' : lines = flat_map (fun p => map (fun tl => (Some p, pw w p, tl)) (LB p)) passes7).
  { rewrite Elines. apply flat_map_ext_in. exact Hgp. }
  assert (Hpix : spec_image_pixels w h b true (data img) =
                 spec_deinterlace w h (map (fun p => map (line_pixels b (pw w p)) (LB p)) passes7)).
  { unfold spec_image_pixels. destruct (Z.leb_spec w 0); [lia|]. destruct (Z.leb_spec h 0); [lia|]. destruct (Z.leb_spec b 0); [lia|]. cbn [orb].
    rewrite Hcut. unfold assemble. f_equal. rewrite Hlines', map_flat_map.
    apply map_ext_in. intros q Hq.
    rewrite (flat_map_ext_in _ (fun p => map (fun ln => (Some p, pw w p, ln)) (map (line_pixels b (pw w p)) (LB p)))).
    - apply (pass_rows_blocks (fun p => map (line_pixels b (pw w p)) (LB p)) (fun p => pw w p) passes7 q passes7_nodup Hq).
    - intros p _. rewrite !map_map. reflexivity. }
  assert (Hrows : exists rows, spec_image_pixels w h b true (data img) = Some rows).
  { unfold sem, spec_sem in Hsem. rewrite Hil in Hsem. destruct (negb _); [discriminate|]. rewrite spec_channels_of in Hsem. fold (bpp (hdr img)) in Hsem. fold w h b in Hsem.
    destruct (spec_image_pixels w h b true (data img)) as [rows|]; [eauto|discriminate]. }
  destruct Hrows as [rows Hrows]. exists LB, rows. split; [|split; [exact HLB|split; [rewrite <- Hpix; exact Hrows|exact Hrows]]].
  rewrite Hsl, Hlines', map_flat_map. f_equal. apply flat_map_ext_in. intros p _. rewrite map_map. reflexivity.
Qed.

(* ---------------------------------------------------------------- packing rows back into scan lines (any pass tag) *)
Lemma packed_rows_lengths (bn : nat) (o : option Z) (n : Z) (lns : list (list (list bool))) : (0 < bn)%nat -> 0 <= n ->
  Forall (fun ln => length ln = Z.to_nat n) lns -> (forall ln px, In ln lns -> In px ln -> length px = bn) ->
  Forall2 (fun (lay : option Z * Z * Z) tl => length tl = Z.to_nat (snd lay))
          (repeat (o, n, line_bytes (Z.of_nat bn) n) (length lns)) (map (fun ln => bytes_of_bits (concat ln)) lns).
Proof.
  intros Hbn Hn HF Hpx. induction HF as [|ln t Hln _ IH]; cbn [length repeat map]; constructor.
  - cbn [snd]. assert (Hu : Forall (fun px => length px = bn) ln) by (apply Forall_forall; intros px Hp; apply (Hpx ln px); [left; reflexivity|exact Hp]).
    destruct (line_pixels_packed bn ln Hbn Hu) as (_ & E & _). rewrite Hln, Z2Nat.id in E by lia. rewrite <- E. lia.
  - apply IH. intros l0 px Hl0. apply Hpx. right. exact Hl0.
Qed.

Lemma packed_rows_pixels (bn : nat) (o : option Z) (n : Z) (lns : list (list (list bool))) : (0 < bn)%nat -> 0 <= n ->
  Forall (fun ln => length ln = Z.to_nat n) lns -> (forall ln px, In ln lns -> In px ln -> length px = bn) ->
  map (fun x : option Z * Z * Z * list Z => (fst (fst x), line_pixels (Z.of_nat bn) (snd (fst (fst x))) (snd x)))
      (combine (repeat (o, n, line_bytes (Z.of_nat bn) n) (length lns)) (map (fun ln => bytes_of_bits (concat ln)) lns))
  = map (fun ln => (o, n, ln)) lns.
Proof.
  intros Hbn Hn HF Hpx. induction HF as [|ln t Hln _ IH]; cbn [length repeat map combine]; [reflexivity|]. cbn [fst snd].
  rewrite IH by (intros l0 px Hl0; apply Hpx; right; exact Hl0). f_equal. f_equal.
  assert (Hu : Forall (fun px => length px = bn) ln) by (apply Forall_forall; intros px Hp; apply (Hpx ln px); [left; reflexivity|exact Hp]).
  destruct (line_pixels_packed bn ln Hbn Hu) as (E & _ & _). rewrite Hln, Z2Nat.id in E by lia. exact E.
Qed.

Lemma line_bits_enough b n (tl : list Z) : 1 <= b -> 0 <= n -> length tl = Z.to_nat (line_bytes b n) ->
  (Z.to_nat n * Z.to_nat b <= length tl * 8)%nat.
Proof.
  intros Hb Hn Hl. rewrite Hl. unfold line_bytes, cdiv.
  assert (Z.of_nat (Z.to_nat n * Z.to_nat b) <= Z.of_nat (Z.to_nat ((n * b + 8 - 1) / 8) * 8)); [|lia].
  rewrite !Nat2Z.inj_mul, !Z2Nat.id by (try lia; apply Z.div_pos; nia). lia.
Qed.

Theorem deinterlace_bits_sem img pic d : wf img -> interlaced (hdr img) = true -> sem img = Some pic ->
  deinterlace_bits img = Ok d ->
  sem {| hdr := with_interlaced (hdr img) false; data := d |} = Some pic /\ bytes_ok d.
Proof.
  intros Hwf Hil Hsem Hd.
  destruct (interlaced_blocks img pic Hwf Hil Hsem) as (Hw & Hh & Hb & LB & rows & Hsl & HLB & Hsd & Hpix).
  set (w := width (hdr img)) in *. set (h := height (hdr img)) in *. set (b := bpp (hdr img)) in *.
  set (bn := Z.to_nat b) in *. assert (Hbn : (0 < bn)%nat) by (unfold bn; lia).
  unfold deinterlace_bits in Hd. rewrite Hsl in Hd. cbn [bind] in Hd. fold w h b bn in Hd.
  set (MB := fun p => map (fun tl => chunks_exact bn (bits_of_bytes tl)) (LB p)).
  assert (Epls : map (fun l => chunks_exact bn (bits_of_bytes (l_data l))) (flat_map (fun p => map (fun tl => to_scanline (Some p, pw w p, tl)) (LB p)) passes7)
                 = flat_map MB passes7).
  { rewrite map_flat_map. apply flat_map_ext_in. intros p _. unfold MB. rewrite map_map. reflexivity. }
  rewrite Epls in Hd.
  assert (HblkM : forall p, In p passes7 -> active w h p -> length (MB p) = Z.to_nat (ph h p) /\ Forall (line_ok w true p) (MB p)).
  { intros p Hp Hact. destruct (HLB p Hp) as [H1 _]. destruct (H1 Hact) as [Hlen HF]. split; [unfold MB; rewrite map_length; exact Hlen|].
    unfold MB. apply Forall_forall. intros l Hl. apply in_map_iff in Hl. destruct Hl as [tl [<- Htl]]. rewrite Forall_forall in HF. destruct (HF tl Htl) as [Hl Hok].
    split; [|discriminate]. rewrite <- groups_is_chunks_exact. apply groups_count; [exact Hbn|].
    rewrite bits_of_bytes_spec by exact Hok. rewrite sbits_of_bytes_length. apply line_bits_enough; auto.
    apply pw_nonneg; [exact Hw|apply passes7_range; exact Hp]. }
  assert (Hblk0M : forall p, In p passes7 -> ~ active w h p -> MB p = []).
  { intros p Hp Hna. destruct (HLB p Hp) as [_ H0]. unfold MB. rewrite (H0 Hna). reflexivity. }
  destruct (model_deinterlace_is_spec (repeat false bn) w h true Hw Hh MB HblkM Hblk0M) as (G & EG & ES & GL & GF).
  rewrite EG in Hd. cbn [bind] in Hd. injection Hd as <-.
  assert (Epasses : map (fun p => map (eff w true p) (MB p)) passes7 = map (fun p => map (line_pixels b (pw w p)) (LB p)) passes7).
  { apply map_ext_in. intros p Hp. unfold MB. rewrite map_map. apply map_ext_in. intros tl Htl.
    assert (Hok : bytes_ok tl).
    { destruct (HLB p Hp) as [H1 H0]. destruct (Z_lt_dec (x0 p) w) as [Hx|Hx]; [destruct (Z_lt_dec (y0 p) h) as [Hy|Hy]|].
      - destruct (H1 (conj Hx Hy)) as [_ HF]. rewrite Forall_forall in HF. apply HF. exact Htl.
      - rewrite H0 in Htl by (unfold active; lia). destruct Htl.
      - rewrite H0 in Htl by (unfold active; lia). destruct Htl. }
    unfold eff, line_pixels. rewrite bits_of_bytes_spec by exact Hok. reflexivity. }
  rewrite Epasses, Hsd in ES. injection ES as <-.
  assert (Hpxlen : forall r px, In r rows -> In px r -> length px = bn).
  { intros r px Hr Hpx. destruct (spec_deinterlace_in _ _ _ _ Hsd r px Hr Hpx) as (pass & row & Hpass & Hrow & Hin).
    apply in_map_iff in Hpass. destruct Hpass as [p [<- _]]. apply in_map_iff in Hrow. destruct Hrow as [tl [<- _]].
    unfold line_pixels in Hin. apply In_firstn in Hin. pose proof (groups_lengths (Z.to_nat b) (sbits_of_bytes tl)) as GLs. rewrite Forall_forall in GLs. apply GLs. exact Hin. }
  set (tls := map (fun r => bytes_of_bits (concat r)) rows).
  assert (Hdata : flat_map (fun r => bytes_of_bits (concat r)) rows = concat tls) by (unfold tls; apply flat_map_concat_map).
  set (L := spec_layout w h b false).
  assert (HLr : L = repeat (None, w, line_bytes (Z.of_nat bn) w) (length rows)).
  { unfold L, spec_layout. rewrite GL. unfold bn. rewrite Z2Nat.id by lia. reflexivity. }
  assert (HF2 : Forall2 (fun lay tl => length tl = Z.to_nat (snd lay)) L tls).
  { rewrite HLr. unfold tls. apply packed_rows_lengths; auto; try lia. }
  assert (Hcut' : cut_layout L (concat tls) = Some (map (fun lt => (fst (fst lt), snd lt)) (combine L tls))) by (apply cut_layout_concat; exact HF2).
  assert (Hpix' : spec_image_pixels w h b false (concat tls) = Some rows).
  { unfold spec_image_pixels. destruct (Z.leb_spec w 0); [lia|]. destruct (Z.leb_spec h 0); [lia|]. destruct (Z.leb_spec b 0); [lia|]. cbn [orb].
    fold L. rewrite Hcut'. unfold assemble. f_equal.
    rewrite (map_map (fun lt : option Z * Z * Z * list Z => (fst (fst lt), snd lt))). cbn [fst snd].
    replace b with (Z.of_nat bn) by (unfold bn; lia). rewrite HLr. unfold tls.
    rewrite (packed_rows_pixels bn None w rows Hbn ltac:(lia) GF Hpxlen). rewrite map_map. cbn [snd]. apply map_id. }
  split.
  - unfold sem in *. cbn [hdr data width height interlaced depth ctype with_interlaced].
    unfold spec_sem in *. rewrite Hil in Hsem. fold w h in Hsem |- *.
    destruct (negb (depth_legal (spec_color_of (ctype (hdr img))) (depth (hdr img)))); [discriminate|].
    rewrite spec_channels_of in *. fold (bpp (hdr img)) in Hsem |- *. fold b in Hsem |- *.
    rewrite Hpix in Hsem. rewrite Hdata, Hpix'. exact Hsem.
  - rewrite Hdata. unfold bytes_ok. apply Forall_forall. intros x Hx. apply in_concat in Hx. destruct Hx as [tl [Htl Hx]].
    unfold tls in Htl. apply in_map_iff in Htl. destruct Htl as [r [<- _]].
    destruct (bytes_of_bits_spec (concat r)) as (Hbok & _ & _). eapply bytes_ok_in; eauto.
Qed.

(* ---------------------------------------------------------------- whole-byte pixels *)
Lemma bpp_multiple_of_8 img : depth_legal (spec_color_of (ctype (hdr img))) (depth (hdr img)) = true -> 8 <= bpp (hdr img) ->
  bpp (hdr img) = 8 * Z.of_nat (Z.to_nat (bpp (hdr img) / 8)) /\ (0 < Z.to_nat (bpp (hdr img) / 8))%nat.
Proof.
  unfold bpp. intros Hl Hb.
  destruct (ctype (hdr img)); cbn [spec_color_of depth_legal channels_per_pixel] in *;
    repeat (apply orb_true_iff in Hl; destruct Hl as [Hl|Hl]); apply Z.eqb_eq in Hl; rewrite Hl in *; clear Hl; lia.
Qed.

Theorem deinterlace_bytes_sem img pic d : wf img -> interlaced (hdr img) = true -> sem img = Some pic ->
  8 <= bpp (hdr img) -> deinterlace_bytes img = Ok d ->
  sem {| hdr := with_interlaced (hdr img) false; data := d |} = Some pic /\ bytes_ok d.
Proof.
  intros Hwf Hil Hsem Hb8 Hd.
  destruct (interlaced_blocks img pic Hwf Hil Hsem) as (Hw & Hh & Hb & LB & rows & Hsl & HLB & Hsd & Hpix).
  destruct (bpp_multiple_of_8 img (sem_some_legal _ _ Hsem) Hb8) as [HbB HB0].
  set (w := width (hdr img)) in *. set (h := height (hdr img)) in *. set (b := bpp (hdr img)) in *.
  set (B := Z.to_nat (b / 8)) in *.
  unfold deinterlace_bytes in Hd. rewrite Hsl in Hd. cbn [bind] in Hd. fold w h b B in Hd.
  set (MB := fun p => map (chunks B) (LB p)).
  assert (Epls : map (fun l => chunks B (l_data l)) (flat_map (fun p => map (fun tl => to_scanline (Some p, pw w p, tl)) (LB p)) passes7)
                 = flat_map MB passes7).
  { rewrite map_flat_map. apply flat_map_ext_in. intros p _. unfold MB. rewrite map_map. reflexivity. }
  rewrite Epls in Hd.
  assert (Hpwn : forall p, In p passes7 -> 0 <= pw w p) by (intros p Hp; apply pw_nonneg; [exact Hw|apply passes7_range; exact Hp]).
  assert (Hline : forall p tl, In p passes7 -> In tl (LB p) -> length tl = (Z.to_nat (pw w p) * B)%nat /\ bytes_ok tl).
  { intros p tl Hp Htl. destruct (HLB p Hp) as [H1 H0].
    destruct (Z_lt_dec (x0 p) w) as [Hx|Hx]; [destruct (Z_lt_dec (y0 p) h) as [Hy|Hy]|].
    - destruct (H1 (conj Hx Hy)) as [_ HF]. rewrite Forall_forall in HF. destruct (HF tl Htl) as [Hl Hok]. split; [|exact Hok].
      rewrite Hl, HbB, line_bytes_aligned by (apply Hpwn; exact Hp). specialize (Hpwn p Hp). nia.
    - rewrite H0 in Htl by (unfold active; lia). destruct Htl.
    - rewrite H0 in Htl by (unfold active; lia). destruct Htl. }
  assert (HblkM : forall p, In p passes7 -> active w h p -> length (MB p) = Z.to_nat (ph h p) /\ Forall (line_ok w false p) (MB p)).
  { intros p Hp Hact. destruct (HLB p Hp) as [H1 _]. destruct (H1 Hact) as [Hlen _]. split; [unfold MB; rewrite map_length; exact Hlen|].
    unfold MB. apply Forall_forall. intros l Hl. apply in_map_iff in Hl. destruct Hl as [tl [<- Htl]].
    destruct (Hline p tl Hp Htl) as [Hl _]. destruct (chunks_multiple B tl _ HB0 Hl) as (_ & _ & Hn). split; [lia|intros _; exact Hn]. }
  assert (Hblk0M : forall p, In p passes7 -> ~ active w h p -> MB p = []).
  { intros p Hp Hna. destruct (HLB p Hp) as [_ H0]. unfold MB. rewrite (H0 Hna). reflexivity. }
  destruct (model_deinterlace_is_spec (repeat 0 B) w h false Hw Hh MB HblkM Hblk0M) as (G & EG & ES & GL & GF).
  rewrite EG in Hd. cbn [bind] in Hd. injection Hd as <-.
  assert (Eeff : map (fun p => map (eff w false p) (MB p)) passes7 = map MB passes7).
  { apply map_ext. intros p. unfold eff. apply map_id. }
  rewrite Eeff in ES.
  assert (Epasses : map (fun p => map (line_pixels b (pw w p)) (LB p)) passes7 = map (map (map sbits_of_bytes)) (map MB passes7)).
  { rewrite map_map. apply map_ext_in. intros p Hp. unfold MB. rewrite map_map. apply map_ext_in. intros tl Htl.
    destruct (Hline p tl Hp Htl) as [Hl _]. destruct (chunks_multiple B tl _ HB0 Hl) as (Ec & Hu & Hn).
    destruct (chunks_exact_spec B tl _ HB0 Hl) as (Cc & _ & _). rewrite Ec in *.
    rewrite <- Cc at 1. rewrite HbB. apply line_pixels_aligned; auto. }
  rewrite Epasses, spec_deinterlace_map, ES in Hsd. cbn [option_map] in Hsd. injection Hsd as Hrows.
  assert (Hpxin : forall r px, In r G -> In px r -> length px = B /\ bytes_ok px).
  { intros r px Hr Hpx. destruct (spec_deinterlace_in _ _ _ _ ES r px Hr Hpx) as (pass & row & Hpass & Hrow & Hin).
    apply in_map_iff in Hpass. destruct Hpass as [p [<- Hp]]. unfold MB in Hrow. apply in_map_iff in Hrow. destruct Hrow as [tl [<- Htl]].
    destruct (Hline p tl Hp Htl) as [Hl Hok]. destruct (chunks_multiple B tl _ HB0 Hl) as (Ec & Hu & _).
    rewrite Forall_forall in Hu. split; [apply Hu; exact Hin|]. rewrite Ec in Hin. eapply bytes_ok_chunk; eauto. }
  set (tls := map (@concat Z) G).
  set (L := spec_layout w h b false).
  assert (HF2 : Forall2 (fun lay tl => length tl = Z.to_nat (snd lay)) L tls).
  { unfold L, spec_layout, tls. rewrite <- GL. clear -GF Hpxin HbB Hw HB0. induction G as [|r t IH]; cbn [length repeat map]; constructor.
    - cbn [snd]. rewrite HbB, line_bytes_aligned by lia. rewrite (concat_length_uniform B).
      + apply Forall_cons_iff in GF. destruct GF as [E _]. rewrite E. nia.
      + apply Forall_forall. intros px Hpx. apply (Hpxin r px); [left; reflexivity|exact Hpx].
    - apply IH; [apply Forall_cons_iff in GF; tauto|]. intros r0 px Hr0. apply Hpxin. right. exact Hr0. }
  assert (Hcut' : cut_layout L (concat tls) = Some (map (fun lt => (fst (fst lt), snd lt)) (combine L tls))) by (apply cut_layout_concat; exact HF2).
  assert (Hpix' : spec_image_pixels w h b false (concat tls) = Some rows).
  { unfold spec_image_pixels. destruct (Z.leb_spec w 0); [lia|]. destruct (Z.leb_spec h 0); [lia|]. destruct (Z.leb_spec b 0); [lia|]. cbn [orb].
    fold L. rewrite Hcut'. unfold assemble. f_equal. rewrite !map_map. cbn [fst snd]. rewrite <- Hrows.
    unfold L, spec_layout, tls. rewrite <- GL. clear -GF Hpxin HbB Hw HB0. induction G as [|r t IH]; cbn [length repeat map combine]; [reflexivity|].
    cbn [fst snd]. f_equal.
    - rewrite HbB. apply line_pixels_aligned; [exact HB0| |apply Forall_cons_iff in GF; destruct GF as [E _]; exact E].
      apply Forall_forall. intros px Hpx. apply (Hpxin r px); [left; reflexivity|exact Hpx].
    - apply IH; [apply Forall_cons_iff in GF; tauto|]. intros r0 px Hr0. apply Hpxin. right. exact Hr0. }
  split.
  - unfold sem in *. cbn [hdr data width height interlaced depth ctype with_interlaced].
    unfold spec_sem in *. rewrite Hil in Hsem. fold w h in Hsem |- *.
    destruct (negb (depth_legal (spec_color_of (ctype (hdr img))) (depth (hdr img)))); [discriminate|].
    rewrite spec_channels_of in *. fold (bpp (hdr img)) in Hsem |- *. fold b in Hsem |- *.
    rewrite Hpix in Hsem. fold tls. rewrite Hpix'. exact Hsem.
  - fold tls. unfold bytes_ok. apply Forall_forall. intros x Hx. apply in_concat in Hx. destruct Hx as [tl [Htl Hx]].
    unfold tls in Htl. apply in_map_iff in Htl. destruct Htl as [r [<- Hr]]. apply in_concat in Hx. destruct Hx as [px [Hpx Hx]].
    destruct (Hpxin r px Hr Hpx) as [_ Hok]. eapply bytes_ok_in; eauto.
Qed.

Theorem deinterlace_image_sem img img' pic : wf img -> interlaced (hdr img) = true ->
  deinterlace_image img = Ok img' -> sem img = Some pic -> sem img' = Some pic /\ wf img'.
Proof.
  intros Hwf Hil H Hsem. unfold deinterlace_image in H.
  destruct (Z.leb_spec 8 (bpp (hdr img))) as [H8|H8].
  - destruct (deinterlace_bytes img) as [d|?|?] eqn:E; cbn [bind] in H; try discriminate. injection H as <-.
    destruct (deinterlace_bytes_sem img pic d Hwf Hil Hsem H8 E) as [S Bk]. split; [exact S|].
    destruct Hwf as [_ Hr]. split; [exact Bk|exact Hr].
  - destruct (deinterlace_bits img) as [d|?|?] eqn:E; cbn [bind] in H; try discriminate. injection H as <-.
    destruct (deinterlace_bits_sem img pic d Hwf Hil Hsem E) as [S Bk]. split; [exact S|].
    destruct Hwf as [_ Hr]. split; [exact Bk|exact Hr].
Qed.

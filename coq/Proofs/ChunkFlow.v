(* C07 / C10 file to file: which chunks of the input file from_slice keeps (a closed formula over the parsed chunk list), and how
   they reach the output file through preprocess_chunks, postprocess_chunks and PngData::output. *)
From OxiVerif Require Import Base.Common Base.Crc32 Spec.Decode Spec.DecodeFile Model.Types Model.Options Model.Headers Model.PngData Model.Evaluate Model.Optimize
  Proofs.LiftReductions Proofs.RobustProofs Proofs.ChunkProofs Proofs.OutputProofs Proofs.InputParse.
Local Open Scope Z_scope.

Definition anim_name (n : cname) : bool := cname_eqb n name_acTL || cname_eqb n name_fcTL || cname_eqb n name_fdAT.
Definition all_anim_kept (o : options) : bool :=
  strip_keep (strip o) name_acTL && strip_keep (strip o) name_fcTL && strip_keep (strip o) name_fdAT.
Definition key_name (n : cname) : bool :=
  cname_eqb n name_IDAT || cname_eqb n name_IHDR || cname_eqb n name_PLTE || cname_eqb n name_tRNS.
Definition isnil {A} (l : list A) : bool := match l with [] => true | _ => false end.

(* the ancillary list from_slice builds: a marker where the image data starts, then every chunk that is not one of the four
   picture-defining chunks, is kept by the strip policy, is not a C2PA manifest, and is not a frame chunk of the animation (fcTL
   after the image data started, fdAT); animation chunks only if all three kinds are kept.  [idat_empty]: no image data so far *)
Fixpoint collect_aux (o : options) (idat_empty : bool) (cs : list chunk) : list chunk :=
  match cs with
  | [] => []
  | c :: t =>
      let n := c_name c in
      if cname_eqb n name_IDAT then
        (if idat_empty then [{| c_name := n; c_data := [] |}] else []) ++ collect_aux o (idat_empty && isnil (c_data c)) t
      else if key_name n then collect_aux o idat_empty t
      else if negb (strip_keep (strip o) n) then collect_aux o idat_empty t
      else if anim_name n && negb (all_anim_kept o) then collect_aux o idat_empty t
      else if is_c2pa n (c_data c) then collect_aux o idat_empty t
      else if cname_eqb n name_fdAT || (cname_eqb n name_fcTL && negb idat_empty) then collect_aux o idat_empty t
      else c :: collect_aux o idat_empty t
  end.

Lemma isnil_app {A} (a b : list A) : isnil (a ++ b) = isnil a && isnil b.
Proof. destruct a; reflexivity. Qed.

Lemma step_aux o st c st1 : from_slice_step o st c = Ok st1 ->
  fs_aux st1 = rev (collect_aux o (isnil (fs_idat st)) [c]) ++ fs_aux st /\
  isnil (fs_idat st1) = (if cname_eqb (c_name c) name_IDAT then isnil (fs_idat st) && isnil (c_data c) else isnil (fs_idat st)).
Proof.
  unfold from_slice_step. cbn [collect_aux]. unfold key_name, anim_name, all_anim_kept. intros H.
  destruct (cname_eqb (c_name c) name_IDAT) eqn:E1.
  { injection H as <-. cbn [fs_aux fs_idat]. rewrite isnil_app. split; [|reflexivity].
    destruct (fs_idat st); cbn; [|reflexivity]. apply list_eqb_Z_spec in E1. rewrite E1. reflexivity. }
  cbn [orb].
  destruct (cname_eqb (c_name c) name_IHDR) eqn:E2. { injection H as <-. cbn. auto. }
  destruct (cname_eqb (c_name c) name_PLTE) eqn:E3. { injection H as <-. cbn. auto. }
  destruct (cname_eqb (c_name c) name_tRNS) eqn:E4. { injection H as <-. cbn. auto. }
  cbn [orb].
  destruct (strip_keep (strip o) (c_name c)) eqn:Ek; cbn [negb]; [|injection H as <-; cbn; auto].
  match type of H with (if ?b then _ else _) = _ => destruct b eqn:Ea end; [injection H as <-; cbn; auto|].
  destruct (is_c2pa (c_name c) (c_data c)) eqn:Ec.
  { destruct (strip_is_none (strip o)); [injection H as <-; cbn; auto|discriminate]. }
  destruct (cname_eqb (c_name c) name_fcTL) eqn:Ef; cbn [orb andb] in *.
  - destruct (length (c_data c) <? 4)%nat; [discriminate|].
    destruct (negb (be32_of (c_data c) =? fs_seq st)); [discriminate|].
    destruct (fs_idat st) as [|x xs] eqn:Ei; cbn [negb isnil andb] in *.
    + assert (Ed : cname_eqb (c_name c) name_fdAT = false).
      { apply list_eqb_Z_spec in Ef. rewrite Ef. reflexivity. }
      rewrite Ed in *. cbn [orb]. injection H as <-. cbn. auto.
    + destruct (frame_from_fctl (c_data c)); cbn [bind] in H; try discriminate. injection H as <-. cbn. rewrite ?orb_true_r. auto.
  - destruct (cname_eqb (c_name c) name_fdAT) eqn:Ed; cbn [orb] in *.
    + destruct (length (c_data c) <? 4)%nat; [discriminate|].
      destruct (negb (be32_of (c_data c) =? fs_seq st)); [discriminate|].
      destruct (push_fdat (fs_frames st) _); [|discriminate]. injection H as <-. cbn. auto.
    + injection H as <-. cbn. auto.
Qed.

Lemma collect_aux_cons o ie c t :
  collect_aux o ie (c :: t) = collect_aux o ie [c] ++ collect_aux o (if cname_eqb (c_name c) name_IDAT then ie && isnil (c_data c) else ie) t.
Proof.
  cbn [collect_aux]. destruct (cname_eqb (c_name c) name_IDAT); [rewrite app_nil_r; reflexivity|].
  repeat match goal with |- context [if ?b then _ else _] => destruct b end; cbn [app]; rewrite ?app_nil_r; reflexivity.
Qed.

Theorem fold_aux o : forall cs st st', fold_steps o st cs = Ok st' ->
  rev (fs_aux st') = rev (fs_aux st) ++ collect_aux o (isnil (fs_idat st)) cs.
Proof.
  induction cs as [|c t IH]; intros st st' H; cbn [fold_steps] in H.
  - injection H as <-. cbn. rewrite app_nil_r. reflexivity.
  - destruct (from_slice_step o st c) as [st1|?|?] eqn:Es; cbn [bind] in H; try discriminate.
    destruct (step_aux o st c st1 Es) as [A1 A2]. rewrite (IH st1 st' H), A1, A2, rev_app_distr, rev_involutive, <- app_assoc.
    rewrite (collect_aux_cons o _ c t). reflexivity.
Qed.

(* ---------------------------------------------------------------- from_slice: the ancillary list as a function of the parsed file *)
Theorem from_slice_aux e o bytes p cs : bytes_ok bytes ->
  from_slice e bytes o = Ok p -> spec_parse_png bytes = Some cs ->
  aux_chunks p = collect_aux o true (map as_chunk (removelast cs)).
Proof.
  intros Hok H Hparse.
  unfold spec_parse_png in Hparse. destruct (list_eqb Z.eqb (firstn 8 bytes) spec_signature) eqn:Esig; [|discriminate].
  unfold from_slice in H. destruct (Nat.ltb_spec (length bytes) 8) as [|Hl8]; [discriminate|].
  change PNG_SIG with spec_signature in H. rewrite Esig in H. cbn [negb] in H.
  destruct (loop_is_fold o (length bytes) (skipn 8 bytes) cs (bytes_ok_skipn 8 bytes Hok) Hparse) as [Hcnt Hloop].
  rewrite Hloop in H.
  2:{ rewrite skipn_length in Hcnt. assert (length cs <= length bytes / 12)%nat; [apply Nat.div_le_lower_bound; lia|lia]. }
  match type of H with bind ?X _ = _ => destruct X as [st|?|?] eqn:Efold end; cbn [bind] in H; try discriminate.
  pose proof (fold_aux o _ _ _ Efold) as A. cbn [fs_aux fs_idat rev app isnil] in A.
  destruct (fs_idat st); [discriminate|]. destruct (fs_ihdr st); [|discriminate].
  destruct (parse_ihdr_chunk _ _ _); cbn [bind] in H; try discriminate.
  destruct (png_image_new e _ _); cbn [bind] in H; try discriminate.
  injection H as <-. cbn [aux_chunks]. exact A.
Qed.

(* ---------------------------------------------------------------- the ancillary chunks of the written file *)
Definition is_key_pair (c : cname * list Z) : bool :=
  cname_eqb (fst c) name_IHDR || cname_eqb (fst c) name_PLTE || cname_eqb (fst c) name_tRNS || cname_eqb (fst c) name_IDAT
  || cname_eqb (fst c) name_IEND.

(* everything in the written chunk sequence that is not IHDR / PLTE / tRNS / IDAT / IEND, split at the image data *)
Definition written_before (p : pngdata) : list (cname * list Z) :=
  let parts := split_idat (aux_chunks p) [] in
  let aux_pre := match parts with x :: _ => x | [] => [] end in
  map as_pair (List.filter (fun c => negb (after_plte c)) aux_pre) ++ map as_pair (List.filter (write_special (hdr (raw p))) aux_pre).
Definition written_after (p : pngdata) : list (cname * list Z) :=
  let parts := split_idat (aux_chunks p) [] in
  let aux_pre := match parts with x :: _ => x | [] => [] end in
  let aux_post := match parts with _ :: t => t | [] => [] end in
  frame_chunk_list (frames p) (lenZ (List.filter (fun c => cname_eqb (c_name c) name_fcTL) (List.filter (write_special (hdr (raw p))) aux_pre)))
  ++ map as_pair (concat aux_post).

Lemma output_chunks_layout p :
  output_chunks p =
    (name_IHDR, to_be32 (width (hdr (raw p))) ++ to_be32 (height (hdr (raw p))) ++
                [depth (hdr (raw p)); png_header_code (ctype (hdr (raw p))); 0; 0; if interlaced (hdr (raw p)) then 1 else 0])
    :: map as_pair (List.filter (fun c => negb (after_plte c)) (match split_idat (aux_chunks p) [] with x :: _ => x | [] => [] end))
    ++ key_chunks (hdr (raw p))
    ++ map as_pair (List.filter (write_special (hdr (raw p))) (match split_idat (aux_chunks p) [] with x :: _ => x | [] => [] end))
    ++ (name_IDAT, idat_data p) :: written_after p ++ [(name_IEND, [])].
Proof. unfold output_chunks, written_after. cbn zeta. cbn [app]. f_equal. rewrite <- !app_assoc. reflexivity. Qed.

(* ---------------------------------------------------------------- file to file *)
From OxiVerif Require Import Proofs.ApngProofs Proofs.ContainerOk.

Lemma optimize_png_data_aux e o p p' : optimize_png_data e p o = Ok p' ->
  let aux1 := fst (preprocess_chunks e (aux_chunks p) o) in
  (p' = {| raw := raw p; idat_data := idat_data p; aux_chunks := aux1; frames := frames p |} \/
   aux_chunks p' = postprocess_chunks aux1 (hdr (raw p')) (hdr (raw p))) /\
  Forall2 (fun a b => same_frame_fields a b /\ (f_data b = f_data a \/ lenZ (f_data b) < lenZ (f_data a))) (frames p) (frames p').
Proof.
  unfold optimize_png_data. intros H. destruct (preprocess_chunks e (aux_chunks p) o) as [aux o'] eqn:Epre. cbn [fst]. cbn [raw idat_data aux_chunks frames] in H.
  destruct (optimize_raw e o' (raw p) _) as [[c|]|?|?] eqn:Er; cbn [bind] in H; try discriminate.
  - match type of H with bind ?X _ = _ => destruct X as [fr|?|?] eqn:Efr end; cbn [bind] in H; try discriminate. injection H as <-.
    cbn [raw aux_chunks frames]. split; [right; reflexivity|].
    pose proof (recompress_frames_top e o' _ (c_filter c) fr Efr) as F. cbn [frames] in F. exact F.
  - injection H as <-. cbn [frames]. split; [left; reflexivity|].
    clear. induction (frames p) as [|f t IH]; constructor; auto. split; [|left; reflexivity]. unfold same_frame_fields. repeat split; reflexivity.
Qed.

Theorem chunk_flow e o bytes out cs : bytes_ok bytes ->
  spec_parse_png bytes = Some cs -> optimize_from_memory e o bytes = Ok out ->
  out = bytes \/
  exists p p', from_slice e bytes o = Ok p /\ optimize_png_data e p o = Ok p' /\ out = output p' /\
    output p' = PNG_SIG ++ serialize (output_chunks p') /\
    let aux0 := collect_aux o true (map as_chunk (removelast cs)) in
    let aux1 := fst (preprocess_chunks e aux0 o) in
    aux_chunks p = aux0 /\
    (aux_chunks p' = aux1 \/ aux_chunks p' = postprocess_chunks aux1 (hdr (raw p')) (hdr (raw p))) /\
    Forall2 (fun a b => same_frame_fields a b /\ (f_data b = f_data a \/ lenZ (f_data b) < lenZ (f_data a))) (frames p) (frames p').
Proof.
  intros Hok Hparse H. unfold optimize_from_memory in H.
  destruct (from_slice e bytes o) as [p|?|?] eqn:Ep; cbn [bind] in H; try discriminate.
  rewrite optimize_png_split in H. destruct (optimize_png_data e p o) as [p'|?|?] eqn:Eo; cbn [bind] in H; try discriminate.
  destruct (is_fully_optimized _ _ o); injection H as <-; [left; reflexivity|right].
  exists p, p'. split; [reflexivity|]. split; [exact Eo|]. split; [reflexivity|]. split; [apply output_is_serialize|].
  pose proof (from_slice_aux e o bytes p cs Hok Ep Hparse) as A. cbn zeta. rewrite <- A.
  destruct (optimize_png_data_aux e o p p' Eo) as [[E|E] F]; (split; [reflexivity|split; [|exact F]]).
  - left. rewrite E. reflexivity.
  - right. exact E.
Qed.

(* ---------------------------------------------------------------- the formula in closed form *)
(* kept by the policy as an ancillary chunk: not picture-defining, kept by the strip policy, animation chunks only all together,
   not a C2PA manifest; frame chunks (fdAT, fcTL once the image data started) go to the frame list instead *)
Definition kept0 (o : options) (c : chunk) : bool :=
  negb (key_name (c_name c)) && strip_keep (strip o) (c_name c) && negb (anim_name (c_name c) && negb (all_anim_kept o))
  && negb (is_c2pa (c_name c) (c_data c)).
Definition kept_at (o : options) (idat_empty : bool) (c : chunk) : bool :=
  kept0 o c && negb (cname_eqb (c_name c) name_fdAT || (cname_eqb (c_name c) name_fcTL && negb idat_empty)).

Lemma collect_aux_one o ie c : cname_eqb (c_name c) name_IDAT = false ->
  collect_aux o ie [c] = if kept_at o ie c then [c] else [].
Proof.
  intros E. cbn [collect_aux]. rewrite E. unfold kept_at, kept0, key_name. rewrite E. cbn [orb].
  destruct (cname_eqb (c_name c) name_IHDR || cname_eqb (c_name c) name_PLTE || cname_eqb (c_name c) name_tRNS); cbn [negb andb]; [reflexivity|].
  destruct (strip_keep (strip o) (c_name c)); cbn [negb andb]; [|reflexivity].
  destruct (anim_name (c_name c) && negb (all_anim_kept o)); cbn [negb andb]; [reflexivity|].
  destruct (is_c2pa (c_name c) (c_data c)); cbn [negb andb]; [reflexivity|].
  destruct (cname_eqb (c_name c) name_fdAT || cname_eqb (c_name c) name_fcTL && negb ie); reflexivity.
Qed.

Lemma kept_at_idat o ie c : cname_eqb (c_name c) name_IDAT = true -> kept_at o ie c = false.
Proof. intros E. unfold kept_at, kept0, key_name. rewrite E. reflexivity. Qed.

Lemma collect_aux_before o ie l r : Forall (fun c => cname_eqb (c_name c) name_IDAT = false) l ->
  collect_aux o ie (l ++ r) = List.filter (kept_at o ie) l ++ collect_aux o ie r.
Proof.
  induction 1 as [|c t Hc _ IH]; [reflexivity|]. cbn [app]. rewrite collect_aux_cons, Hc, IH, (collect_aux_one o ie c Hc). cbn [List.filter].
  destruct (kept_at o ie c); reflexivity.
Qed.

Lemma collect_aux_after o l : collect_aux o false l = List.filter (kept_at o false) l.
Proof.
  induction l as [|c t IH]; [reflexivity|]. rewrite collect_aux_cons. cbn [List.filter].
  destruct (cname_eqb (c_name c) name_IDAT) eqn:E.
  - cbn [andb]. rewrite IH, (kept_at_idat o false c E). cbn [collect_aux]. rewrite E. cbn [andb app]. reflexivity.
  - rewrite IH, (collect_aux_one o false c E). destruct (kept_at o false c); reflexivity.
Qed.

(* the ancillary list of a file whose image data starts with a non-empty IDAT chunk: the kept chunks before it, the marker, the
   kept chunks after it - each exactly once, in the order of the file *)
Theorem collect_aux_closed_form o before idat after :
  Forall (fun c => cname_eqb (c_name c) name_IDAT = false) before ->
  cname_eqb (c_name idat) name_IDAT = true -> c_data idat <> [] ->
  collect_aux o true (before ++ idat :: after)
  = List.filter (kept_at o true) before ++ {| c_name := c_name idat; c_data := [] |} :: List.filter (kept_at o false) after.
Proof.
  intros Hb Hi Hd. rewrite collect_aux_before by exact Hb. f_equal. rewrite collect_aux_cons, Hi. cbn [collect_aux]. rewrite Hi.
  destruct (c_data idat); [contradiction|]. cbn [isnil andb app]. rewrite collect_aux_after. reflexivity.
Qed.

(* nothing is invented: every entry is the marker or a chunk of the file kept by the policy *)
Theorem collect_aux_in o : forall cs ie c, In c (collect_aux o ie cs) ->
  (cname_eqb (c_name c) name_IDAT = true /\ c_data c = []) \/ (In c cs /\ kept0 o c = true).
Proof.
  induction cs as [|x t IH]; intros ie c H; [destruct H|]. rewrite collect_aux_cons in H. apply in_app_or in H. destruct H as [H|H].
  - destruct (cname_eqb (c_name x) name_IDAT) eqn:E.
    + cbn [collect_aux] in H. rewrite E in H. destruct ie; cbn in H; [|destruct H]. destruct H as [<-|[]]. left. cbn. auto.
    + rewrite (collect_aux_one o ie x E) in H. destruct (kept_at o ie x) eqn:K; [|destruct H]. destruct H as [<-|[]].
      right. split; [left; reflexivity|]. unfold kept_at in K. apply andb_true_iff in K. tauto.
  - destruct (IH _ _ H) as [L|[L K]]; [left; exact L|right; split; [right; exact L|exact K]].
Qed.

(* ---------------------------------------------------------------- where the two halves are written *)
Lemma split_idat_no_idat l : forall cur, Forall (fun c => cname_eqb (c_name c) name_IDAT = false) l ->
  split_idat l cur = [rev cur ++ l].
Proof.
  induction l as [|c t IH]; intros cur H; cbn [split_idat]; [rewrite app_nil_r; reflexivity|].
  apply Forall_cons_iff in H. destruct H as [Hc Ht]. rewrite Hc, IH by exact Ht. cbn [rev]. rewrite <- app_assoc. reflexivity.
Qed.

Lemma split_idat_closed pre m post : forall cur,
  Forall (fun c => cname_eqb (c_name c) name_IDAT = false) pre -> cname_eqb (c_name m) name_IDAT = true ->
  Forall (fun c => cname_eqb (c_name c) name_IDAT = false) post ->
  split_idat (pre ++ m :: post) cur = [rev cur ++ pre; post].
Proof.
  induction pre as [|c t IH]; intros cur Hp Hm Hq; cbn [app split_idat].
  - rewrite Hm, app_nil_r. rewrite split_idat_no_idat by exact Hq. reflexivity.
  - apply Forall_cons_iff in Hp. destruct Hp as [Hc Ht]. rewrite Hc, IH by auto. cbn [rev]. rewrite <- app_assoc. reflexivity.
Qed.

(* a PngData whose ancillary list is  pre ++ marker :: post  writes, around the picture-defining chunks:
   before the image data  the chunks of pre that go before PLTE, then (after PLTE/tRNS) those that must follow it;
   after the image data   the frames, then post *)
Theorem written_closed_form p pre m post :
  aux_chunks p = pre ++ m :: post ->
  Forall (fun c => cname_eqb (c_name c) name_IDAT = false) pre -> cname_eqb (c_name m) name_IDAT = true ->
  Forall (fun c => cname_eqb (c_name c) name_IDAT = false) post ->
  output_chunks p =
    (name_IHDR, to_be32 (width (hdr (raw p))) ++ to_be32 (height (hdr (raw p))) ++
                [depth (hdr (raw p)); png_header_code (ctype (hdr (raw p))); 0; 0; if interlaced (hdr (raw p)) then 1 else 0])
    :: map as_pair (List.filter (fun c => negb (after_plte c)) pre)
    ++ key_chunks (hdr (raw p))
    ++ map as_pair (List.filter (write_special (hdr (raw p))) pre)
    ++ (name_IDAT, idat_data p)
    :: frame_chunk_list (frames p) (lenZ (List.filter (fun c => cname_eqb (c_name c) name_fcTL) (List.filter (write_special (hdr (raw p))) pre)))
    ++ map as_pair post ++ [(name_IEND, [])].
Proof.
  intros E Hp Hm Hq. rewrite output_chunks_layout. unfold written_after. rewrite E, (split_idat_closed pre m post [] Hp Hm Hq).
  cbn [rev app concat]. rewrite app_nil_r, <- !app_assoc. reflexivity.
Qed.

(* ---------------------------------------------------------------- postprocess_chunks is a filter; it acts on each side of the marker *)
Definition pp_keep (hd orig : ihdr) (c : chunk) : bool :=
  (if negb (depth orig =? depth hd) || negb (color_type_eqb (ctype orig) (ctype hd))
   then negb (cname_eqb (c_name c) name_bKGD || cname_eqb (c_name c) name_sBIT || cname_eqb (c_name c) name_hIST) else true)
  && (if negb (Bool.eqb (is_gray (ctype orig)) (is_gray (ctype hd)))
      then negb (cname_eqb (c_name c) name_sRGB || cname_eqb (c_name c) name_iCCP) else true).

Lemma filter_filter {A} (f g : A -> bool) l : List.filter g (List.filter f l) = List.filter (fun x => f x && g x) l.
Proof. induction l as [|x t IH]; [reflexivity|]. cbn [List.filter]. destruct (f x); cbn [List.filter andb]; [destruct (g x)|]; rewrite IH; reflexivity. Qed.

Lemma filter_true {A} (l : list A) : List.filter (fun _ => true) l = l.
Proof. induction l as [|x t IH]; [reflexivity|]. cbn. rewrite IH. reflexivity. Qed.

Lemma postprocess_is_filter aux hd orig : postprocess_chunks aux hd orig = List.filter (pp_keep hd orig) aux.
Proof.
  unfold postprocess_chunks, pp_keep.
  destruct (negb (depth orig =? depth hd) || negb (color_type_eqb (ctype orig) (ctype hd)));
    destruct (negb (Bool.eqb (is_gray (ctype orig)) (is_gray (ctype hd)))).
  - apply filter_filter.
  - apply filter_ext. intros c. rewrite andb_true_r. reflexivity.
  - reflexivity.
  - symmetry. apply filter_true.
Qed.

Lemma postprocess_around_marker pre m post hd orig : cname_eqb (c_name m) name_IDAT = true ->
  postprocess_chunks (pre ++ m :: post) hd orig = List.filter (pp_keep hd orig) pre ++ m :: List.filter (pp_keep hd orig) post.
Proof.
  intros Hm. rewrite postprocess_is_filter, filter_app. cbn [List.filter].
  assert (K : pp_keep hd orig m = true).
  { apply cname_eqb_eq in Hm. unfold pp_keep. rewrite Hm.
    destruct (negb (depth orig =? depth hd) || negb (color_type_eqb (ctype orig) (ctype hd)));
      destruct (negb (Bool.eqb (is_gray (ctype orig)) (is_gray (ctype hd)))); reflexivity. }
  rewrite K. reflexivity.
Qed.

(* ---------------------------------------------------------------- order: each of the two classes keeps its order; the classes do not (finding F9) *)
Theorem written_before_two_classes p : exists pre,
  written_before p = map as_pair (List.filter (fun c => negb (after_plte c)) pre) ++ map as_pair (List.filter (write_special (hdr (raw p))) pre).
Proof. eexists. reflexivity. Qed.

Definition f9_png : pngdata :=
  {| raw := {| hdr := {| width := 1; height := 1; ctype := RGB None; depth := 8; interlaced := false |}; data := [0; 0; 0] |};
     idat_data := []; aux_chunks := [{| c_name := name_bKGD; c_data := [0; 0; 0; 0; 0; 0] |}; {| c_name := [112; 72; 89; 115]; c_data := [0; 0; 0; 1; 0; 0; 0; 1; 0] |};
                                     {| c_name := name_IDAT; c_data := [] |}];
     frames := [] |}.

Theorem written_order_refuted :
  map fst (map as_pair (match split_idat (aux_chunks f9_png) [] with x :: _ => x | [] => [] end)) = [name_bKGD; [112; 72; 89; 115]] /\
  map fst (written_before f9_png) = [[112; 72; 89; 115]; name_bKGD].
Proof. vm_compute. split; reflexivity. Qed.

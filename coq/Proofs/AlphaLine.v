(* optimize_alpha on one scan line: the rewritten line has the same length, consists of bytes, and differs from the line only in
   the colour bytes of fully transparent pixels (alpha bytes all zero); C03 for the filter stage. *)
From OxiVerif Require Import Base.Common Spec.Filter Model.Types Model.ScanLines Model.Filters Proofs.FilterProofs Proofs.ImageLift Proofs.LiftColor.

Section AL.
Variable bpp cb : nat.           (* bytes per pixel, colour bytes (bpp - alpha bytes) *)
Hypothesis Hcb : (cb <= bpp)%nat.
Hypothesis Hbpp : (0 < bpp)%nat.

(* a pixel and its rewritten form *)
Definition px_rel (px px' : list Z) : Prop :=
  px' = px \/ (all_zero (skipn cb px) = true /\ skipn cb px' = skipn cb px /\ length px' = length px /\ bytes_ok px').

Lemma px_rel_refl px : px_rel px px.
Proof. left. reflexivity. Qed.

Lemma px_rel_trans a b c : px_rel a b -> px_rel b c -> px_rel a c.
Proof.
  intros [->|(Z1 & S1 & L1 & B1)] [->|(Z2 & S2 & L2 & B2)]; try (left; reflexivity); right.
  - repeat split; auto.
  - repeat split; auto.
  - rewrite S1 in Z2. repeat split; auto; congruence.
Qed.

Lemma paeth_byte a b c : byte_ok a -> byte_ok b -> byte_ok c -> byte_ok (paeth_predictor a b c).
Proof. intros. rewrite paeth_is_spec. apply paeth_spec_range; auto. Qed.

Lemma bytes_ok_map2 (f : Z -> Z -> Z) l1 l2 : (forall a b, byte_ok a -> byte_ok b -> byte_ok (f a b)) ->
  bytes_ok l1 -> bytes_ok l2 -> bytes_ok (map2 f l1 l2).
Proof.
  intros Hf. revert l2. induction l1 as [|a t IH]; intros [|b t2] H1 H2; cbn [map2]; try constructor.
  - apply bytes_ok_cons in H1, H2. apply Hf; tauto.
  - apply bytes_ok_cons in H1, H2. apply IH; tauto.
Qed.

Lemma map4_length {A B C D E} (f : A -> B -> C -> D -> E) l1 l2 l3 l4 n :
  length l1 = n -> length l2 = n -> length l3 = n -> length l4 = n -> length (map4 f l1 l2 l3 l4) = n.
Proof.
  revert l1 l2 l3 l4. induction n as [|n IH]; intros [|a t1] [|b t2] [|c t3] [|d t4] H1 H2 H3 H4; cbn in *; try lia; try reflexivity.
  rewrite (IH t1 t2 t3 t4) by lia. reflexivity.
Qed.

Lemma bytes_ok_map4 (f : Z -> Z -> Z -> Z -> Z) l1 l2 l3 l4 : (forall a b c d, byte_ok a -> byte_ok b -> byte_ok c -> byte_ok (f a b c d)) ->
  bytes_ok l1 -> bytes_ok l2 -> bytes_ok l3 -> bytes_ok (map4 f l1 l2 l3 l4).
Proof.
  intros Hf. revert l2 l3 l4. induction l1 as [|a t IH]; intros [|b t2] [|c t3] [|d t4] H1 H2 H3; cbn [map4]; try constructor.
  - apply bytes_ok_cons in H1, H2, H3. apply Hf; tauto.
  - apply bytes_ok_cons in H1, H2, H3. apply IH; tauto.
Qed.

(* one pixel *)
Lemma alpha_pixel_rel f out_prev ref0 px pp pp_prev :
  length px = bpp -> length pp = bpp -> bytes_ok px -> bytes_ok pp -> bytes_ok ref0 -> bytes_ok pp_prev ->
  (cb <= length ref0)%nat -> (out_prev = None \/ length pp_prev = bpp) ->
  (forall o, out_prev = Some o -> length o = bpp /\ bytes_ok o) ->
  let o := alpha_pixel f cb out_prev ref0 px pp pp_prev in
  px_rel px o /\ length o = bpp /\ bytes_ok o.
Proof.
  intros Hl Hlp Hok Hpok Hrok Hppok Hrl Hppl Ho. cbn zeta. unfold alpha_pixel, is_transparent, alpha_part.
  destruct (all_zero (skipn cb px)) eqn:Ez; [|split; [apply px_rel_refl|split; assumption]].
  set (color := match f with
      | FSub => firstn cb (match out_prev with Some o => o | None => ref0 end)
      | FUp => firstn cb pp
      | FAverage => match out_prev with
                    | None => map (fun u => u / 2) (firstn cb pp)
                    | Some o => map2 (fun l u => (l + u) / 2) (firstn cb o) (firstn cb pp)
                    end
      | FPaeth => match out_prev with
                  | None => map2 Z.min (firstn cb ref0) (firstn cb pp)
                  | Some o => map4 (fun l u ul (_ : Z) => paeth_predictor l u ul) (firstn cb o) (firstn cb pp) (firstn cb pp_prev) (firstn cb o)
                  end
      | _ => firstn cb px
      end).
  assert (Hcolor : length color = cb /\ bytes_ok color).
  { unfold color. destruct f; try (split; [rewrite firstn_length; lia|apply bytes_ok_firstn; assumption]).
    - (* Sub *) destruct out_prev as [o|]; [destruct (Ho o eq_refl) as [Hlo Hoo]|]; (split; [rewrite firstn_length; lia|apply bytes_ok_firstn; assumption]).
    - (* Average *) destruct out_prev as [o|]; [destruct (Ho o eq_refl) as [Hlo Hoo]|].
      + split; [rewrite map2_length, !firstn_length; lia|]. apply bytes_ok_map2; try (apply bytes_ok_firstn; assumption).
        intros a b Ha Hb. unfold byte_ok in *. split; [apply Z.div_pos; lia|apply Z.div_lt_upper_bound; lia].
      + split; [rewrite map_length, firstn_length; lia|]. unfold bytes_ok. apply Forall_forall. intros x Hx. apply in_map_iff in Hx. destruct Hx as [u [<- Hu]].
        apply In_firstn in Hu. pose proof (bytes_ok_in pp u Hpok Hu) as B. unfold byte_ok in *. split; [apply Z.div_pos; lia|apply Z.div_lt_upper_bound; lia].
    - (* Paeth *) destruct out_prev as [o|]; [destruct (Ho o eq_refl) as [Hlo Hoo]|].
      + destruct Hppl as [?|Hppl]; [discriminate|].
        split; [apply map4_length; rewrite firstn_length; lia|]. apply bytes_ok_map4; try (apply bytes_ok_firstn; assumption).
          intros a b c d Ha Hb Hc. apply paeth_byte; assumption.
      + split; [rewrite map2_length, !firstn_length; lia|]. apply bytes_ok_map2; try (apply bytes_ok_firstn; assumption).
        intros a b Ha Hb. unfold byte_ok in *. lia. }
  destruct Hcolor as [Hcl Hcok]. fold color.
  assert (Hsk : skipn cb (color ++ skipn cb px) = skipn cb px).
  { rewrite skipn_app, Hcl, Nat.sub_diag. cbn [skipn]. rewrite (skipn_all2 color) by lia. reflexivity. }
  assert (Hlen : length (color ++ skipn cb px) = bpp) by (rewrite app_length, skipn_length; lia).
  assert (Hbok : bytes_ok (color ++ skipn cb px)) by (apply bytes_ok_app; split; [assumption|apply bytes_ok_skipn; assumption]).
  split; [right; repeat split; auto; lia|split; assumption].
Qed.

(* the pixel loop *)
Lemma alpha_go_rel f ref0 : bytes_ok ref0 -> (cb <= length ref0)%nat ->
  forall pixels prevs out_prev pp_prev,
  length prevs = length pixels ->
  Forall (fun px => length px = bpp /\ bytes_ok px) pixels -> Forall (fun px => length px = bpp /\ bytes_ok px) prevs ->
  bytes_ok pp_prev -> (out_prev = None \/ length pp_prev = bpp) ->
  (forall o, out_prev = Some o -> length o = bpp /\ bytes_ok o) ->
  let out := alpha_go f cb out_prev ref0 pixels prevs pp_prev in
  Forall2 px_rel pixels out /\ Forall (fun px => length px = bpp /\ bytes_ok px) out.
Proof.
  intros Hrok Hrl. induction pixels as [|px t IH]; intros [|pp tp] out_prev pp_prev Hlen Hpx Hpp Hppok Hppl Ho; cbn in Hlen; try lia.
  - cbn. split; constructor.
  - cbn [alpha_go]. apply Forall_cons_iff in Hpx. destruct Hpx as [[Hl1 Hok1] Hpx']. apply Forall_cons_iff in Hpp. destruct Hpp as [[Hl2 Hok2] Hpp'].
    destruct (alpha_pixel_rel f out_prev ref0 px pp pp_prev) as (R & L & B); auto.
    destruct (IH tp (Some (alpha_pixel f cb out_prev ref0 px pp pp_prev)) pp) as (R2 & F2); auto.
    intros o [= <-]. split; assumption.
Qed.

Definition line_rel (data data' : list Z) : Prop :=
  length data' = length data /\ bytes_ok data' /\ Forall2 px_rel (chunks_exact bpp data) (chunks_exact bpp data').

Lemma line_rel_refl data : bytes_ok data -> line_rel data data.
Proof. intros H. split; [reflexivity|split; [assumption|]]. induction (chunks_exact bpp data); constructor; auto. apply px_rel_refl. Qed.

Lemma Forall2_trans' {A} (R : A -> A -> Prop) : (forall a b c, R a b -> R b c -> R a c) ->
  forall l1 l2 l3, Forall2 R l1 l2 -> Forall2 R l2 l3 -> Forall2 R l1 l3.
Proof. intros HR l1 l2 l3 H12. revert l3. induction H12; intros l3 H23; inversion H23; subst; constructor; eauto. Qed.

Lemma line_rel_trans a b c : line_rel a b -> line_rel b c -> line_rel a c.
Proof.
  intros (L1 & B1 & F1) (L2 & B2 & F2). split; [congruence|split; [assumption|]].
  eapply Forall2_trans'; eauto. apply px_rel_trans.
Qed.

Lemma chunks_exact_bytes (l : list Z) : bytes_ok l -> Forall (fun px => length px = bpp /\ bytes_ok px) (chunks_exact bpp l).
Proof.
  intros H. apply Forall_forall. intros px Hpx. split.
  - pose proof (chunks_exact_lengths bpp l) as F. rewrite Forall_forall in F. apply F; assumption.
  - eapply bytes_ok_chunk; eauto.
Qed.

Lemma optimize_alpha_line_rel f data prev k :
  length data = (k * bpp)%nat -> length prev = length data -> bytes_ok data -> bytes_ok prev -> (1 <= k)%nat ->
  line_rel data (optimize_alpha_line f bpp data prev cb).
Proof.
  intros Hl Hlp Hd Hp Hk.
  destruct (chunks_exact_spec bpp data k ltac:(lia) Hl) as (C1 & C2 & C3).
  destruct (chunks_exact_spec bpp prev k ltac:(lia) ltac:(lia)) as (P1 & P2 & P3).
  unfold optimize_alpha_line.
  set (ref0 := match chunks_exact bpp data with [] => [] | p0 :: _ => match find_index (fun px => negb (is_transparent cb px)) (chunks_exact bpp data) 0 with Some i => nth i (chunks_exact bpp data) p0 | None => p0 end end).
  assert (Hr : bytes_ok ref0 /\ (cb <= length ref0)%nat).
  { pose proof (chunks_exact_bytes data Hd) as F. unfold ref0. destruct (chunks_exact bpp data) as [|p0 t] eqn:E; [cbn in C3; lia|].
    rewrite Forall_forall in F.
    destruct (find_index _ _ _) as [i|].
    - destruct (nth_in_or_default i (p0 :: t) p0) as [Hin|Heq]; [destruct (F _ Hin); split; [assumption|lia]|].
      rewrite Heq. destruct (F p0 (or_introl eq_refl)); split; [assumption|lia].
    - destruct (F p0 (or_introl eq_refl)); split; [assumption|lia]. }
  destruct Hr as [Hrok Hrl].
  destruct (alpha_go_rel f ref0 Hrok Hrl (chunks_exact bpp data) (chunks_exact bpp prev) None []) as (R & F); auto.
  - congruence.
  - apply chunks_exact_bytes; assumption.
  - apply chunks_exact_bytes; assumption.
  - constructor.
  - intros o [=].
  - fold ref0. set (out := alpha_go f cb None ref0 (chunks_exact bpp data) (chunks_exact bpp prev) []) in *.
    assert (Hu : Forall (fun px => length px = bpp) out) by (eapply Forall_impl; [|exact F]; cbn; tauto).
    assert (Hlo : length (concat out) = length data).
    { rewrite (concat_length_uniform bpp) by assumption. rewrite <- (Forall2_len _ _ _ R), C3. lia. }
    assert (Hdata' : concat out ++ skipn (length (concat out)) data = concat out).
    { rewrite Hlo, skipn_all. apply app_nil_r. }
    assert (Hres : line_rel data (concat out)).
    { split; [assumption|split].
      - unfold bytes_ok. apply Forall_forall. intros x Hx. apply in_concat in Hx. destruct Hx as [px [Hpx Hx]].
        rewrite Forall_forall in F. destruct (F px Hpx) as [_ B]. eapply bytes_ok_in in B; eauto.
      - rewrite chunks_exact_concat by (assumption || lia). exact R. }
    destruct f; try (rewrite Hdata'; exact Hres). apply line_rel_refl; assumption.
Qed.

(* filter_line with alpha optimisation: the emitted row is the specification's filter of the rewritten line *)
Lemma filter_line_alpha_is_spec f data prev ab k :
  is_standard f = true -> (1 <= ab)%nat -> cb = (bpp - ab)%nat ->
  length data = (k * bpp)%nat -> (1 <= k)%nat -> length prev = length data -> bytes_ok data -> bytes_ok prev ->
  exists data', line_rel data data' /\
    filter_line f bpp data prev ab = Ok (filter_code f :: spec_filter_line bpp (filter_code f) data' prev, data').
Proof.
  intros Hs Hab Hcbe Hl Hk Hlp Hd Hp. exists (optimize_alpha_line f bpp data prev cb).
  pose proof (optimize_alpha_line_rel f data prev k Hl Hlp Hd Hp Hk) as R. split; [exact R|].
  destruct R as (L & B & _).
  pose proof (filter_line_is_spec f bpp (optimize_alpha_line f bpp data prev cb) prev ltac:(lia) Hs ltac:(nia) ltac:(lia) B Hp) as FS.
  unfold filter_line in *. rewrite L in FS.
  destruct (length data <? bpp)%nat; [exact FS|]. destruct (negb (length data =? length prev)%nat); [exact FS|].
  destruct ab as [|ab']; [lia|]. rewrite <- Hcbe. exact FS.
Qed.
End AL.

(* What optimize_raw emits: a candidate whose data is the compressor's answer for the filtered scan lines of its own image under its
   own filter (provenance of the IDAT content); with the image-level filter theorem and the pipeline theorem this gives: the
   stream that was compressed into the emitted IDAT decodes, under the specification, to the picture the input means. *)
From OxiVerif Require Import Base.Common Spec.Filter Spec.Adam7 Spec.Sem Spec.Decode Model.Types Model.Options Model.ScanLines Model.Filters
  Model.Evaluate Model.Reductions Model.Optimize
  Proofs.Bridge Proofs.LiftColor Proofs.ReductionInv Proofs.PipelineProofs Proofs.PipelineLossless Proofs.FilterImage Proofs.FilterStream Proofs.LiftAlpha Proofs.AlphaStream.
Local Open Scope Z_scope.

Section Prov.
Variable e : env.

(* the data of a candidate is what its image, filter and flags say *)
Definition cand_ok (c : candidate) : Prop :=
  exists alpha filtered, filter_image (e_brute e (c_image c) alpha) (c_image c) (c_filter c) alpha = Ok filtered /\
    (if c_compressed c then exists d, c_cdata c = z_deflate e d filtered else c_cdata c = filtered).

(* the same, where the alpha optimisation can have been used only if [allowed] *)
Definition cand_ok_in (allowed : bool) (c : candidate) : Prop :=
  exists alpha filtered, (alpha = true -> allowed = true) /\
    filter_image (e_brute e (c_image c) alpha) (c_image c) (c_filter c) alpha = Ok filtered /\
    (if c_compressed c then exists d, c_cdata c = z_deflate e d filtered else c_cdata c = filtered).

Definition cand_ok_na (c : candidate) : Prop :=
  exists filtered, filter_image (e_brute e (c_image c) false) (c_image c) (c_filter c) false = Ok filtered /\
    (if c_compressed c then exists d, c_cdata c = z_deflate e d filtered else c_cdata c = filtered).

Lemma cand_ok_in_false c : cand_ok_in false c <-> cand_ok_na c.
Proof.
  split.
  - intros (alpha & filtered & Hal & Hf & Hd). destruct alpha; [specialize (Hal eq_refl); discriminate|]. exists filtered. split; assumption.
  - intros (filtered & Hf & Hd). exists false, filtered. split; [discriminate|split; assumption].
Qed.

Lemma cand_ok_in_mono a c : cand_ok_in false c -> cand_ok_in a c.
Proof. intros (alpha & filtered & Hal & Hf & Hd). exists alpha, filtered. split; [intros Ht; specialize (Hal Ht); discriminate|split; assumption]. Qed.

Lemma run_trial_ok ev d al fr nth img f out :
  run_trial e ev d al fr nth img f = Ok out ->
  tNth (to_trial out) = Z.of_nat nth /\ tFilter (to_trial out) = filter_code f /\
  tSkip (to_trial out) = dl e (STrial ev nth (filter_code f)) /\
  (tSkip (to_trial out) = false -> cand_ok_in al (to_cand out)).
Proof.
  unfold run_trial. intros H. destruct (dl e (STrial ev nth (filter_code f))) eqn:Edl.
  - injection H as <-. cbn. repeat split; auto. discriminate.
  - destruct (filter_image (e_brute e img al) img f al) as [filtered|?|?] eqn:Ef; cbn [bind] in H; try discriminate.
    injection H as <-. cbn [to_trial to_cand tNth tFilter tSkip]. repeat split; auto. intros _.
    exists al, filtered. cbn [c_image c_filter c_compressed c_cdata]. split; [auto|]. split; [exact Ef|]. destruct fr; eauto.
Qed.

Lemma evaluator_trials_ok ev fs d al fr images outs :
  evaluator_trials e ev fs d al fr images = Ok outs ->
  forall out, In out outs ->
    tSkip (to_trial out) = dl e (STrial ev (Z.to_nat (tNth (to_trial out))) (tFilter (to_trial out))) /\
    (tSkip (to_trial out) = false -> cand_ok_in al (to_cand out)).
Proof.
  unfold evaluator_trials. intros H out Hin.
  pose proof (all_res_In _ _ H out Hin) as Hl. apply in_flat_map in Hl.
  destruct Hl as [[n img] [Hni Hm]]. apply in_map_iff in Hm. destruct Hm as [f [Hf _]]. cbn [fst snd] in Hf.
  destruct (run_trial_ok _ _ _ _ _ _ _ _ Hf) as (E1 & E2 & E3 & E4). rewrite E1, E2, Nat2Z.id. split; auto.
Qed.

Lemma best_of_go_eligible init trials : forall best m, best_of_go init trials best = Some m ->
  (In m trials /\ eligible init m = true) \/ best = Some m.
Proof.
  induction trials as [|t r IH]; intros best m H; cbn [best_of_go] in H; [right; exact H|].
  apply IH in H. destruct H as [[Hin He]|H]; [left; split; [right; exact Hin|exact He]|].
  destruct (eligible init t) eqn:Ee; [|right; exact H].
  destruct best as [b|].
  - destruct (key_ltb t b); [injection H as <-; left; split; [left; reflexivity|exact Ee]|right; exact H].
  - injection H as <-. left. split; [left; reflexivity|exact Ee].
Qed.

Lemma evaluator_best_ok ev fs d al fr images outs init c :
  evaluator_trials e ev fs d al fr images = Ok outs ->
  evaluator_best outs init = Some c -> cand_ok_in al c.
Proof.
  intros Ht Hb. unfold evaluator_best in Hb.
  destruct (best_of init (map to_trial outs)) as [m|] eqn:Em; [|discriminate].
  destruct (find _ outs) as [o|] eqn:Ef; [|discriminate]. injection Hb as <-.
  apply find_some in Ef. destruct Ef as [Hin Hmatch]. apply andb_true_iff in Hmatch. destruct Hmatch as [M1 M2]. apply Z.eqb_eq in M1, M2.
  unfold best_of in Em. apply best_of_go_eligible in Em. destruct Em as [[Hm He]|]; [|discriminate].
  apply in_map_iff in Hm. destruct Hm as [o' [<- Hin']].
  destruct (evaluator_trials_ok _ _ _ _ _ _ _ Ht o' Hin') as [S' _].
  destruct (evaluator_trials_ok _ _ _ _ _ _ _ Ht o Hin) as [S C].
  apply C. rewrite S, M1, M2, <- S'. unfold eligible in He. apply andb_true_iff in He. destruct He as [He _]. apply negb_true_iff in He. exact He.
Qed.

Lemma deflate_capped_ok d x mx y : deflate_capped e d x mx = Ok y -> y = z_deflate e d x.
Proof. unfold deflate_capped. destruct mx as [m|]; [destruct (m <? lenZ (z_deflate e d x))|]; intros H; try discriminate; injection H as <-; reflexivity. Qed.

Lemma perform_trials_ok o img max_size eval_result efs ed c :
  (forall p, eval_result = Some p -> cand_ok_in (optimize_alpha o) p) ->
  perform_trials e o img max_size eval_result efs ed = Ok (Some c) -> cand_ok_in (optimize_alpha o) c.
Proof.
  intros Hprev H. unfold perform_trials in H.
  destruct (fast_evaluation o && _) eqn:Efast.
  - match type of H with bind ?X _ = _ => destruct X as [er|er1|er2] eqn:Eer end; cbn [bind] in H; try discriminate.
    assert (Her : forall p, er = Some p -> cand_ok_in (optimize_alpha o) p).
    { intros p ->.
      destruct (match eval_result with Some _ => filters_difference (filter o) efs | None => filter o end) eqn:Efs.
      - injection Eer as Eer. apply Hprev. exact Eer.
      - destruct (evaluator_trials e 1 (r :: l) ed (optimize_alpha o) (deflater_eqb (deflate o) ed) [img]) as [outs|?|?] eqn:Eo;
          cbn [bind] in Eer; try discriminate.
        destruct (evaluator_best outs _) as [r0|] eqn:Eb.
        + pose proof (evaluator_best_ok _ _ _ _ _ _ _ _ _ Eo Eb) as Hr0. injection Eer as Eer.
          match type of Eer with (if ?b then _ else _) = _ => destruct b end.
          * injection Eer as <-. exact Hr0.
          * apply Hprev. exact Eer.
        + injection Eer as Eer. apply Hprev. exact Eer. }
    destruct er as [r|]; [|discriminate]. specialize (Her r eq_refl).
    destruct (c_compressed r) eqn:Ec.
    + injection H as <-. exact Her.
    + destruct (deflate_capped e (deflate o) (c_cdata r) max_size) as [idat|?|?] eqn:Ed; injection H as <-; [|exact Her|exact Her].
      destruct Her as (al & filtered & Hal & Ef & Hd). rewrite Ec in Hd. exists al, filtered. cbn [c_image c_filter c_compressed c_cdata]. split; [exact Hal|]. split; [exact Ef|].
      exists (deflate o). rewrite <- Hd. apply deflate_capped_ok in Ed. exact Ed.
  - match type of H with bind ?X _ = _ => destruct X as [outs|oe1|oe2] eqn:Eo end; cbn [bind] in H; try discriminate.
    injection H as H.
    destruct (evaluator_best outs max_size) as [new|] eqn:Eb.
    + pose proof (evaluator_best_ok _ _ _ _ _ _ _ _ _ Eo Eb) as Hnew.
      destruct eval_result as [prev|].
      * match type of H with (if ?b then _ else _) = _ => destruct b end; injection H as <-; [apply Hprev; reflexivity|exact Hnew].
      * injection H as <-. exact Hnew.
    + destruct eval_result as [prev|]; [|discriminate].
      destruct (c_compressed prev); [|discriminate]. injection H as <-. apply Hprev. reflexivity.
Qed.

Theorem optimize_raw_provenance_gen o img max_size c :
  optimize_raw e o img max_size = Ok (Some c) ->
  c_compressed c = true /\ cand_ok_in (optimize_alpha o) c.
Proof.
  intros H. unfold optimize_raw in H.
  destruct (perform_reductions e o img) as [[baseline evs]|?|?]; cbn [bind] in H; try discriminate.
  match type of H with bind ?X _ = _ => destruct X as [outs|oe1|oe2] eqn:Eo end; cbn [bind] in H; try discriminate.
  set (eval_result := evaluator_best outs None) in *.
  assert (Hev : forall p, eval_result = Some p -> cand_ok_in (optimize_alpha o) p).
  { intros p Hp. apply cand_ok_in_mono. eapply evaluator_best_ok; eauto. }
  match type of H with bind ?X _ = _ => destruct X as [result|re1|re2] eqn:Er end; cbn [bind] in H; try discriminate.
  destruct result as [r|]; [|discriminate].
  destruct (c_compressed r) eqn:Ec; cbn [andb] in H; [|discriminate].
  match type of H with (if ?b then _ else _) = _ => destruct b end; [|discriminate]. injection H as <-.
  split; [exact Ec|].
  match type of Er with (if ?b then _ else _) = _ => destruct b end.
  - eapply perform_trials_ok; eauto.
  - injection Er as Er. apply Hev. exact Er.
Qed.

Theorem optimize_raw_provenance o img max_size c :
  optimize_alpha o = false ->
  optimize_raw e o img max_size = Ok (Some c) ->
  c_compressed c = true /\ cand_ok_na c.
Proof.
  intros Ha H. destruct (optimize_raw_provenance_gen o img max_size c H) as [Hc Hok]. split; [exact Hc|].
  rewrite Ha in Hok. apply cand_ok_in_false. exact Hok.
Qed.
End Prov.

(* C01 down to the IDAT content: the emitted, compressed data is the compressor's answer for a stream that the specification's
   decoder (reconstruction of the filtered rows, then the meaning of the image data) maps to the input's picture *)
Theorem emitted_stream_lossless_partial e o img max_size c pic :
  optimize_alpha o = false -> scale_16 o = false -> means pic img ->
  optimize_raw e o img max_size = Ok (Some c) ->
  exists d stream, c_cdata c = z_deflate e d stream /\
    spec_decode_stream (width (hdr (c_image c))) (height (hdr (c_image c))) (spec_color_of (ctype (hdr (c_image c))))
                       (depth (hdr (c_image c))) (interlaced (hdr (c_image c))) stream = Some pic.
Proof.
  intros Ha Hs Hm H.
  destruct (optimize_raw_lossless_partial e o img max_size c pic Ha Hs Hm H) as [Hwf Hsem].
  destruct (optimize_raw_provenance e o img max_size c Ha H) as [Hc (filtered & Hf & Hd)]. rewrite Hc in Hd. destruct Hd as [d Hd].
  exists d, filtered. split; [exact Hd|]. eapply filter_image_decodes; eauto.
Qed.

(* C02, IDAT content: the emitted data is the compression of a stream that the specification cuts into exactly the rows the header
   implies (so its size is the size the header implies), every row starts with a filter type 0..4, and un-filtering gives the image data *)
Theorem emitted_idat_valid_partial e o img max_size c pic :
  optimize_alpha o = false -> scale_16 o = false -> means pic img ->
  optimize_raw e o img max_size = Ok (Some c) ->
  exists d stream, c_cdata c = z_deflate e d stream /\
    spec_unfilter (width (hdr (c_image c))) (height (hdr (c_image c))) (bpp (hdr (c_image c))) (interlaced (hdr (c_image c))) stream
    = Some (data (c_image c)).
Proof.
  intros Ha Hs Hm H.
  destruct (optimize_raw_lossless_partial e o img max_size c pic Ha Hs Hm H) as [Hwf Hsem].
  destruct (optimize_raw_provenance e o img max_size c Ha H) as [Hc (filtered & Hf & Hd)]. rewrite Hc in Hd. destruct Hd as [d Hd].
  exists d, filtered. split; [exact Hd|]. eapply filter_image_stream; eauto.
Qed.

(* C03 down to the IDAT content: with the alpha optimisation allowed, the stream that was compressed into the emitted IDAT decodes,
   under the specification, to a picture that is alpha-equivalent to the input's *)
Lemma filter_image_alpha_noalpha brute img f : has_alpha (ctype (hdr img)) = false ->
  filter_image brute img f true = filter_image brute img f false.
Proof. intros H. unfold filter_image, filter_image_rows. rewrite H. reflexivity. Qed.

Theorem emitted_stream_alpha_partial e o img max_size c pic :
  scale_16 o = false -> ameans pic img ->
  optimize_raw e o img max_size = Ok (Some c) ->
  exists d stream pic', c_cdata c = z_deflate e d stream /\
    spec_decode_stream (width (hdr (c_image c))) (height (hdr (c_image c))) (spec_color_of (ctype (hdr (c_image c))))
                       (depth (hdr (c_image c))) (interlaced (hdr (c_image c))) stream = Some pic' /\
    pic_aequiv pic pic'.
Proof.
  intros Hs Hm H.
  destruct (optimize_raw_alpha_partial e o img max_size c pic Hs Hm H) as (pic1 & [Hwf Hsem] & A1).
  destruct (optimize_raw_provenance_gen e o img max_size c H) as [Hc (al & filtered & _ & Hf & Hd)]. rewrite Hc in Hd. destruct Hd as [d Hd].
  exists d, filtered.
  destruct al.
  - destruct (has_alpha (ctype (hdr (c_image c)))) eqn:Eha.
    + destruct (filter_image_alpha_decodes _ _ _ _ _ Hwf Hsem Eha Hf) as (pic2 & E2 & A2).
      exists pic2. split; [exact Hd|]. split; [exact E2|]. eapply pic_aequiv_trans; eauto.
    + rewrite filter_image_alpha_noalpha in Hf by exact Eha.
      exists pic1. split; [exact Hd|]. split; [eapply filter_image_decodes; eauto|exact A1].
  - exists pic1. split; [exact Hd|]. split; [eapply filter_image_decodes; eauto|exact A1].
Qed.

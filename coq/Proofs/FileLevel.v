(* C01 at the level of the bytes written: the file that `output` writes for the candidate chosen by optimize_raw is decoded by the
   specification's whole-file decoder (strict container, IHDR, PLTE/tRNS, inflate, un-filtering, de-interlacing, colour) to the
   picture the input image means. *)
From OxiVerif Require Import Base.Common Base.Crc32 Spec.Filter Spec.Adam7 Spec.Sem Spec.Decode Spec.DecodeFile
  Model.Types Model.Options Model.Headers Model.PngData Model.Evaluate Model.Optimize
  Proofs.Bridge Proofs.LiftColor Proofs.OutputProofs Proofs.OutputDecode Proofs.PipelineLossless Proofs.EmittedStream.
Local Open Scope Z_scope.

Theorem emitted_file_decodes_partial e o img max_size c pic (inflate : list Z -> option (list Z)) (p' : pngdata) :
  optimize_alpha o = false -> scale_16 o = false -> means pic img ->
  optimize_raw e o img max_size = Ok (Some c) ->
  (* the decompressor undoes the compressor (zlib oracle assumption, re-validated on the recorded calls of every run) *)
  (forall d s, inflate (z_deflate e d s) = Some s) ->
  (* the written file carries the chosen image and its data; container side conditions: chunk sizes < 2^31, no ancillary chunk
     named IEND / PLTE / tRNS / IDAT, header fields encodable *)
  raw p' = c_image c -> idat_data p' = c_cdata c ->
  Forall chunk_wf (output_body p') -> Forall not_iend (output_body p') ->
  writable (hdr (raw p')) -> 0 <= depth (hdr (raw p')) < 256 -> Forall not_key (aux_written p') ->
  spec_decode_png inflate (output p') = Some pic.
Proof.
  intros Ha Hs Hm H Hz Eraw Eidat Hwf Hni Hwr Hd Haux.
  rewrite (output_decodes inflate p' Hwf Hni Hwr Hd Haux).
  destruct (emitted_stream_lossless_partial e o img max_size c pic Ha Hs Hm H) as (d & stream & Ed & Hdec).
  rewrite Eidat, Ed, Hz, Eraw. exact Hdec.
Qed.

(* C08 down to the PngData that is serialised and to the in-memory call: the switches are binding for the header that is written. *)
From OxiVerif Require Import Base.Common Model.Types Model.Options Model.Headers Model.PngData Model.Evaluate Model.Reductions Model.Optimize
  Proofs.ReductionInv Proofs.EffectProofs Proofs.PipelineProofs Proofs.ChunkProofs Proofs.ContainerOk Proofs.ScaledFile Proofs.ChunkFlow.
Local Open Scope Z_scope.

(* the statements of Properties/C08.v for optimize_raw (re-derived here: that file imports this one) *)
Lemma raw_bit_depth e o img m c : bit_depth_reduction o = false ->
  optimize_raw e o img m = Ok (Some c) -> depth (hdr (c_image c)) = depth (hdr img).
Proof. intros Hb. apply (emitted_satisfies (fun i => depth (hdr i) = depth (hdr img))). intros; eapply depth_preserved; eauto. Qed.
Lemma raw_color_type e o img m c : color_type_reduction o = false ->
  optimize_raw e o img m = Ok (Some c) -> png_header_code (ctype (hdr (c_image c))) = png_header_code (ctype (hdr img)).
Proof. intros Hb. apply (emitted_satisfies (fun i => code i = code img)). intros; eapply color_type_preserved; eauto. Qed.
Lemma raw_grayscale e o img m c : grayscale_reduction o = false ->
  optimize_raw e o img m = Ok (Some c) -> is_gray (ctype (hdr (c_image c))) = is_gray (ctype (hdr img)).
Proof. intros Hb. apply (emitted_satisfies (fun i => grayness i = grayness img)). intros; eapply grayness_preserved; eauto. Qed.
Lemma raw_keep_interlace e o img m c : interlace o = None ->
  optimize_raw e o img m = Ok (Some c) -> interlaced (hdr (c_image c)) = interlaced (hdr img).
Proof. intros Hb. apply (emitted_satisfies (fun i => interlaced (hdr i) = interlaced (hdr img))). intros; eapply interlace_kept; eauto. Qed.
Lemma raw_requested_interlace e o img mx c m : interlace o = Some m ->
  optimize_raw e o img mx = Ok (Some c) -> interlaced (hdr (c_image c)) = m.
Proof. intros Hb. apply (emitted_satisfies (fun i => interlaced (hdr i) = m)). intros; eapply interlace_forced; eauto. Qed.
Lemma raw_dimensions e o img m c : optimize_raw e o img m = Ok (Some c) ->
  width (hdr (c_image c)) = width (hdr img) /\ height (hdr (c_image c)) = height (hdr img).
Proof. apply (emitted_satisfies (fun i => width (hdr i) = width (hdr img) /\ height (hdr i) = height (hdr img))). intros; eapply dims_preserved; eauto. Qed.

Section Data.
Variable e : env.
Variable o : options.
Variable p p' : pngdata.
Hypothesis H : optimize_png_data e p o = Ok p'.

(* either nothing was emitted (the image of the input is written back) or the image written is what optimize_raw emitted under the
   pre-processed options *)
Lemma written_image : raw p' = raw p \/
  exists ms c, optimize_raw e (snd (preprocess_chunks e (aux_chunks p) o)) (raw p) ms = Ok (Some c) /\ raw p' = c_image c.
Proof.
  unfold optimize_png_data in H. destruct (preprocess_chunks e (aux_chunks p) o) as [aux o'] eqn:Epre. cbn [snd]. cbn [raw idat_data aux_chunks frames] in H.
  destruct (optimize_raw e o' (raw p) _) as [[c|]|?|?] eqn:Er; cbn [bind] in H; try discriminate.
  - match type of H with bind ?X _ = _ => destruct X as [fr|?|?] end; cbn [bind] in H; try discriminate. injection H as <-.
    right. eexists _, c. split; [exact Er|reflexivity].
  - injection H as <-. left. reflexivity.
Qed.

Theorem data_bit_depth : bit_depth_reduction o = false -> depth (hdr (raw p')) = depth (hdr (raw p)).
Proof.
  intros Hb. destruct written_image as [->|(ms & c & Er & ->)]; [reflexivity|].
  apply (raw_bit_depth e (snd (preprocess_chunks e (aux_chunks p) o)) (raw p) ms c); [|exact Er].
  destruct (preprocess_chunks_spec e (aux_chunks p) o) as [_ (_ & Hbd & _)]. cbn zeta in Hbd. rewrite Hbd, Hb. reflexivity.
Qed.

Theorem data_color_type : color_type_reduction o = false ->
  png_header_code (ctype (hdr (raw p'))) = png_header_code (ctype (hdr (raw p))).
Proof.
  intros Hb. destruct written_image as [->|(ms & c & Er & ->)]; [reflexivity|].
  apply (raw_color_type e (snd (preprocess_chunks e (aux_chunks p) o)) (raw p) ms c); [|exact Er].
  destruct (preprocess_chunks_spec e (aux_chunks p) o) as [_ (_ & _ & Hct & _)]. cbn zeta in Hct. rewrite Hct, Hb. reflexivity.
Qed.

Theorem data_grayscale : grayscale_reduction o = false -> is_gray (ctype (hdr (raw p'))) = is_gray (ctype (hdr (raw p))).
Proof.
  intros Hb. destruct written_image as [->|(ms & c & Er & ->)]; [reflexivity|].
  apply (raw_grayscale e (snd (preprocess_chunks e (aux_chunks p) o)) (raw p) ms c); [|exact Er].
  destruct (preprocess_chunks_spec e (aux_chunks p) o) as [_ (Hg & _)]. cbn zeta in Hg. rewrite Hg, Hb. reflexivity.
Qed.

Theorem data_keep_interlace : interlace o = None -> interlaced (hdr (raw p')) = interlaced (hdr (raw p)).
Proof.
  intros Hb. destruct written_image as [->|(ms & c & Er & ->)]; [reflexivity|].
  apply (raw_keep_interlace e (snd (preprocess_chunks e (aux_chunks p) o)) (raw p) ms c); [|exact Er].
  destruct (preprocess_chunks_spec e (aux_chunks p) o) as [_ (_ & _ & _ & _ & Hi & _)]. cbn zeta in Hi. rewrite Hi, Hb.
  destruct (has_chunk name_acTL _); reflexivity.
Qed.

(* an animation whose chunks are kept never changes its interlacing, whatever was requested (C10) *)
Theorem data_animation_keeps_interlace : has_chunk name_acTL (aux_chunks p) = true -> interlaced (hdr (raw p')) = interlaced (hdr (raw p)).
Proof.
  intros Ha. destruct written_image as [->|(ms & c & Er & ->)]; [reflexivity|].
  apply (raw_keep_interlace e (snd (preprocess_chunks e (aux_chunks p) o)) (raw p) ms c); [|exact Er].
  destruct (preprocess_chunks_spec e (aux_chunks p) o) as [E (_ & _ & _ & _ & Hi & _)]. cbn zeta in Hi. rewrite Hi, <- E, preprocess_keeps_actl, Ha. reflexivity.
Qed.

(* a requested mode is the mode of whatever is emitted for a still image *)
Theorem data_requested_interlace m : interlace o = Some m -> has_chunk name_acTL (aux_chunks p) = false ->
  raw p' = raw p \/ interlaced (hdr (raw p')) = m.
Proof.
  intros Hb Ha. destruct written_image as [->|(ms & c & Er & ->)]; [left; reflexivity|right].
  apply (raw_requested_interlace e (snd (preprocess_chunks e (aux_chunks p) o)) (raw p) ms c m); [|exact Er].
  destruct (preprocess_chunks_spec e (aux_chunks p) o) as [E (_ & _ & _ & _ & Hi & _)]. cbn zeta in Hi. rewrite Hi, <- E, preprocess_keeps_actl, Ha. exact Hb.
Qed.

Theorem data_dimensions : width (hdr (raw p')) = width (hdr (raw p)) /\ height (hdr (raw p')) = height (hdr (raw p)).
Proof.
  destruct written_image as [->|(ms & c & Er & ->)]; [split; reflexivity|].
  apply (raw_dimensions e (snd (preprocess_chunks e (aux_chunks p) o)) (raw p) ms c Er).
Qed.
(* C14 at the level of what is written: grayscale conversion blocked by the pre-processing is really blocked *)
Theorem data_gray_blocked : grayscale_reduction (snd (preprocess_chunks e (aux_chunks p) o)) = false ->
  is_gray (ctype (hdr (raw p'))) = is_gray (ctype (hdr (raw p))).
Proof.
  intros Hb. destruct written_image as [->|(ms & c & Er & ->)]; [reflexivity|].
  apply (raw_grayscale e (snd (preprocess_chunks e (aux_chunks p) o)) (raw p) ms c Hb Er).
Qed.

(* an ICC profile that is kept (as is or recompressed): no move between grayscale and colour *)
Theorem data_icc_kept_same_grayness :
  (icc_decide e (aux_chunks p) o = IccKept \/ exists c, icc_decide e (aux_chunks p) o = IccRecompressed c) ->
  is_gray (ctype (hdr (raw p'))) = is_gray (ctype (hdr (raw p))).
Proof. intros Hd. apply data_gray_blocked. apply icc_kept_no_gray_change. exact Hd. Qed.

(* an sRGB-tagged image (no ICC profile) with stripping disabled: no move between grayscale and colour *)
Theorem data_srgb_same_grayness :
  chunk_position name_iCCP (aux_chunks p) O = None -> has_chunk name_sRGB (aux_chunks p) = true -> strip_is_none (strip o) = true ->
  is_gray (ctype (hdr (raw p'))) = is_gray (ctype (hdr (raw p))).
Proof. intros A B C. apply data_gray_blocked. apply srgb_gray_change_only_if_strip; assumption. Qed.

(* and whenever the image did move between grayscale and colour, the ancillary list written has no sRGB / iCCP chunk *)
Theorem data_gray_change_drops_colourspace c :
  Bool.eqb (is_gray (ctype (hdr (raw p)))) (is_gray (ctype (hdr (raw p')))) = false -> In c (aux_chunks p') ->
  cname_eqb (c_name c) name_sRGB = false /\ cname_eqb (c_name c) name_iCCP = false.
Proof.
  intros Hg Hin. destruct (optimize_png_data_aux e o p p' H) as [[E|E] _].
  - rewrite E in Hg. cbn [raw] in Hg. rewrite Bool.eqb_reflx in Hg. discriminate.
  - rewrite E in Hin. rewrite postprocess_is_filter in Hin. apply filter_In in Hin. destruct Hin as [_ K].
    unfold pp_keep in K. rewrite Hg in K. cbn [negb] in K. apply andb_true_iff in K. destruct K as [_ K].
    apply negb_true_iff in K. apply orb_false_iff in K. exact K.
Qed.
End Data.

(* the in-memory call: the input back, or the serialisation of such a PngData *)
Theorem memory_switches_binding e o bytes out : optimize_from_memory e o bytes = Ok out ->
  out = bytes \/
  exists p p', from_slice e bytes o = Ok p /\ out = output p' /\
    (bit_depth_reduction o = false -> depth (hdr (raw p')) = depth (hdr (raw p))) /\
    (color_type_reduction o = false -> png_header_code (ctype (hdr (raw p'))) = png_header_code (ctype (hdr (raw p)))) /\
    (grayscale_reduction o = false -> is_gray (ctype (hdr (raw p'))) = is_gray (ctype (hdr (raw p)))) /\
    (interlace o = None -> interlaced (hdr (raw p')) = interlaced (hdr (raw p))) /\
    (forall m, interlace o = Some m -> has_chunk name_acTL (aux_chunks p) = false -> raw p' = raw p \/ interlaced (hdr (raw p')) = m) /\
    width (hdr (raw p')) = width (hdr (raw p)) /\ height (hdr (raw p')) = height (hdr (raw p)).
Proof.
  intros H. unfold optimize_from_memory in H.
  destruct (from_slice e bytes o) as [p|?|?] eqn:Ep; cbn [bind] in H; try discriminate.
  rewrite optimize_png_split in H. destruct (optimize_png_data e p o) as [p'|?|?] eqn:Eo; cbn [bind] in H; try discriminate.
  destruct (is_fully_optimized _ _ o); injection H as <-; [left; reflexivity|right].
  exists p, p'. split; [reflexivity|]. split; [reflexivity|].
  split; [apply (data_bit_depth e o p p' Eo)|]. split; [apply (data_color_type e o p p' Eo)|]. split; [apply (data_grayscale e o p p' Eo)|].
  split; [apply (data_keep_interlace e o p p' Eo)|]. split; [intros m; apply (data_requested_interlace e o p p' Eo m)|].
  apply (data_dimensions e o p p' Eo).
Qed.

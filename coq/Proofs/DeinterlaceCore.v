(* The state machine of deinterlace_image (src/interlace.rs) computes the specification's de-interlacing: fed with the scan lines
   of the seven passes in transmission order, it leaves in every cell (x, y) the pixel of its pass that the PNG specification
   assigns to it. Generic in the pixel type; every width and height. *)
From OxiVerif Require Import Base.Common Spec.Adam7 Model.Types Model.ScanLines Model.Interlace Proofs.InterlaceProofs Proofs.Adam7RoundTrip.
Local Open Scope Z_scope.

Section Scatter.
Context {A : Type}.

Lemma scatter_spec (xstep : Z) : 0 < xstep -> forall (pixels row : list A) (x : Z), 0 <= x ->
  (pixels = [] \/ x + (lenZ pixels - 1) * xstep < lenZ row) ->
  exists row', scatter row x xstep pixels = Some row' /\ length row' = length row /\
    (forall i : nat, (i < length pixels)%nat -> nth_error row' (Z.to_nat (x + Z.of_nat i * xstep)) = nth_error pixels i) /\
    (forall k : nat, (forall i : nat, (i < length pixels)%nat -> k <> Z.to_nat (x + Z.of_nat i * xstep)) -> nth_error row' k = nth_error row k).
Proof.
  intros Hs. induction pixels as [|px t IH]; intros row x Hx Hfit.
  - exists row. cbn [scatter length]. repeat split; auto. intros i Hi. lia.
  - destruct Hfit as [|Hfit]; [discriminate|]. unfold lenZ in Hfit. cbn [length] in Hfit. cbn [scatter].
    destruct (Z.ltb_spec x 0); [lia|]. unfold lenZ. destruct (Z.leb_spec (Z.of_nat (length row)) x); [nia|]. cbn [orb].
    destruct (IH (set_nth (Z.to_nat x) px row) (x + xstep) ltac:(lia)) as (row' & E & L & Ha & Hb).
    { destruct t; [left; reflexivity|right]. unfold lenZ in *. rewrite set_nth_length. cbn [length] in *. nia. }
    exists row'. split; [exact E|]. split; [rewrite L; apply set_nth_length|]. split.
    + intros [|i] Hi.
      * rewrite Hb.
        -- replace (x + Z.of_nat 0 * xstep) with x by lia. cbn [nth_error]. apply nth_error_set_nth_eq. lia.
        -- intros i Hi'. nia.
      * cbn [nth_error length] in *. rewrite <- (Ha i) by lia. f_equal. nia.
    + intros k Hk. rewrite Hb.
      * apply nth_error_set_nth_neq. specialize (Hk 0%nat ltac:(cbn; lia)). intros Heq. apply Hk. rewrite <- Heq. f_equal. lia.
      * intros i Hi Heq. apply (Hk (S i) ltac:(cbn; lia)). rewrite Heq. f_equal. nia.
Qed.
End Scatter.

Lemma pass_of_iff p x y : In p passes7 -> (pass_of x y = p <-> row_in p y = true /\ col_in p x = true).
Proof.
  intros Hp. pose proof (route_spec p x y Hp) as R. rewrite route_is_matrix in R. split.
  - intros E. rewrite E, Z.eqb_refl in R. symmetry in R. apply andb_true_iff in R. exact R.
  - intros [H1 H2]. rewrite H1, H2 in R. apply Z.eqb_eq in R. exact R.
Qed.

Lemma consts_spec p : In p passes7 -> interlaced_constants p = Some (x0 p, y0 p, dx p, dy p).
Proof. unfold passes7. cbn. intros [<-|[<-|[<-|[<-|[<-|[<-|[<-|[]]]]]]]]; reflexivity. Qed.

Definition active (w h p : Z) : Prop := x0 p < w /\ y0 p < h.

Lemma passes7_range p : In p passes7 <-> 1 <= p <= 7.
Proof.
  unfold passes7. cbn. split; [intros [<-|[<-|[<-|[<-|[<-|[<-|[<-|[]]]]]]]]; lia|].
  intros H. assert (p = 1 \/ p = 2 \/ p = 3 \/ p = 4 \/ p = 5 \/ p = 6 \/ p = 7) as [->|[->|[->|[->|[->|[->| ->]]]]]] by lia; tauto.
Qed.

Lemma increment_pass_spec w h p : 1 <= w -> 1 <= h -> In p passes7 ->
  match increment_pass p w h with
  | Some p' => In p' passes7 /\ p < p' /\ active w h p' /\ (forall q, p < q < p' -> ~ active w h q)
  | None => forall q, In q passes7 -> p < q -> ~ active w h q
  end.
Proof.
  intros Hw Hh Hp. apply passes7_range in Hp.
  assert (p = 1 \/ p = 2 \/ p = 3 \/ p = 4 \/ p = 5 \/ p = 6 \/ p = 7) as [->|[->|[->|[->|[->|[->| ->]]]]]] by lia;
    unfold increment_pass;
    destruct (w <=? 4) eqn:E1; destruct (h <=? 4) eqn:E2; destruct (w <=? 2) eqn:E3; destruct (h <=? 2) eqn:E4;
    destruct (w =? 1) eqn:E5; destruct (h =? 1) eqn:E6; cbn;
    rewrite ?Z.leb_le, ?Z.leb_gt, ?Z.eqb_eq, ?Z.eqb_neq in *; try lia.
  all: try (split; [lia|split; [lia|split; [unfold active; cbn; lia|]]];
            intros q Hq; assert (q = 2 \/ q = 3 \/ q = 4 \/ q = 5 \/ q = 6) as [->|[->|[->|[->| ->]]]] by lia; unfold active; cbn; lia).
  all: try (intros q Hq Hlt; apply passes7_range in Hq;
            assert (q = 2 \/ q = 3 \/ q = 4 \/ q = 5 \/ q = 6 \/ q = 7) as [->|[->|[->|[->|[->| ->]]]]] by lia; unfold active; cbn; lia).
Qed.

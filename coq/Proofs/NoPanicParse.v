(* C05: PngData::from_slice never panics, for every byte string (of fewer than 2^54 bytes), policy and error-fixing flag,
   as long as the decompressor itself returns normally: chunk walker, header parsing, saturating size arithmetic, the 1032x rule,
   scan-line iteration over the inflated stream and the per-line reconstruction all end in a value or an error. *)
From OxiVerif Require Import Base.Common Base.Crc32 Spec.Filter Spec.Adam7 Spec.Sem Spec.Decode
  Model.Types Model.Options Model.Headers Model.ScanLines Model.Filters Model.PngData
  Proofs.Bridge Proofs.ScanProofs Proofs.ImageLift Proofs.LiftReductions Proofs.LiftColor Proofs.LiftLines
  Proofs.HeaderProofs Proofs.RobustProofs Proofs.FilterStream Proofs.UnfilterImage Proofs.InputParse.
Local Open Scope Z_scope.

(* ---------------------------------------------------------------- saturating size arithmetic, exactly *)
Lemma pass_size_min b pw0 ph0 : 0 <= pw0 -> 0 <= ph0 -> 1 <= b ->
  pass_size b pw0 ph0 = Z.min (ph0 * (cdiv (pw0 * b) 8 + 1)) usize_max.
Proof.
  intros Hw Hh Hb. unfold pass_size, bitmap_size, sat_add, sat_mul.
  assert (0 <= cdiv (pw0 * b) 8) by (unfold cdiv; nia).
  set (c := cdiv (pw0 * b) 8) in *. assert (0 <= c * ph0) by nia.
  replace (ph0 * (c + 1)) with (c * ph0 + ph0) by ring. assert (0 < usize_max) by (unfold usize_max; lia). lia.
Qed.

Lemma sat_add_min a c : 0 <= a -> 0 <= c -> sat_add (Z.min a usize_max) (Z.min c usize_max) = Z.min (a + c) usize_max.
Proof. intros Ha Hc. unfold sat_add. assert (0 < usize_max) by (unfold usize_max; lia). lia. Qed.

Theorem raw_data_size_min (hd : ihdr) : 1 <= width hd -> 1 <= height hd -> 1 <= bpp hd ->
  raw_data_size hd = Z.min (spec_raw_size (width hd) (height hd) (bpp hd) (interlaced hd) true) usize_max.
Proof.
  intros Hw Hh Hb. unfold raw_data_size. assert (HM : 0 < usize_max) by (unfold usize_max; lia).
  destruct (interlaced hd) eqn:Hil; cbn [negb].
  - rewrite spec_raw_size_closed by lia.
    set (w := width hd) in *. set (h := height hd) in *. set (b := bpp hd) in *.
    pose proof (pass_total_nonneg w h b 1 Hw Hh Hb ltac:(lia)) as N1.
    pose proof (pass_total_nonneg w h b 2 Hw Hh Hb ltac:(lia)) as N2.
    pose proof (pass_total_nonneg w h b 3 Hw Hh Hb ltac:(lia)) as N3.
    pose proof (pass_total_nonneg w h b 4 Hw Hh Hb ltac:(lia)) as N4.
    pose proof (pass_total_nonneg w h b 5 Hw Hh Hb ltac:(lia)) as N5.
    pose proof (pass_total_nonneg w h b 6 Hw Hh Hb ltac:(lia)) as N6.
    pose proof (pass_total_nonneg w h b 7 Hw Hh Hb ltac:(lia)) as N7.
    destruct (pass_dims_rust w h Hw Hh) as (W1 & H1 & W2 & H2 & W3 & H3 & W4 & H4 & W5 & H5 & W6 & H6 & W7 & H7).
    assert (T1 : pass_size b ((w + 7) / 8) ((h + 7) / 8) = Z.min (pass_total w h b 1) usize_max).
    { rewrite pass_size_min by lia. f_equal. unfold pass_total, line_bytes. rewrite W1, H1. destruct ((w + 7) / 8 =? 0) eqn:E; [apply Z.eqb_eq in E; lia|reflexivity]. }
    assert (T3 : pass_size b ((w + 3) / 4) ((h + 3) / 8) = Z.min (pass_total w h b 3) usize_max).
    { rewrite pass_size_min by lia. f_equal. unfold pass_total, line_bytes. rewrite W3, H3. destruct ((w + 3) / 4 =? 0) eqn:E; [apply Z.eqb_eq in E; lia|reflexivity]. }
    assert (T5 : pass_size b ((w + 1) / 2) ((h + 1) / 4) = Z.min (pass_total w h b 5) usize_max).
    { rewrite pass_size_min by lia. f_equal. unfold pass_total, line_bytes. rewrite W5, H5. destruct ((w + 1) / 2 =? 0) eqn:E; [apply Z.eqb_eq in E; lia|reflexivity]. }
    assert (T7 : pass_size b w (h / 2) = Z.min (pass_total w h b 7) usize_max).
    { rewrite pass_size_min by lia. f_equal. unfold pass_total, line_bytes. rewrite W7, H7. destruct (w =? 0) eqn:E; [apply Z.eqb_eq in E; lia|reflexivity]. }
    assert (T2 : 4 < w -> pass_size b ((w + 3) / 8) ((h + 7) / 8) = Z.min (pass_total w h b 2) usize_max).
    { intros E4. rewrite pass_size_min by lia. f_equal. unfold pass_total, line_bytes. rewrite W2, H2. destruct (Z.ltb_spec 4 w); [|lia].
      destruct ((w + 3) / 8 =? 0) eqn:E; [apply Z.eqb_eq in E; lia|reflexivity]. }
    assert (T2' : ~ 4 < w -> pass_total w h b 2 = 0).
    { intros E4. unfold pass_total. rewrite W2. destruct (Z.ltb_spec 4 w); [lia|reflexivity]. }
    assert (T4 : 2 < w -> pass_size b ((w + 1) / 4) ((h + 3) / 4) = Z.min (pass_total w h b 4) usize_max).
    { intros E4. rewrite pass_size_min by lia. f_equal. unfold pass_total, line_bytes. rewrite W4, H4. destruct (Z.ltb_spec 2 w); [|lia].
      destruct ((w + 1) / 4 =? 0) eqn:E; [apply Z.eqb_eq in E; lia|reflexivity]. }
    assert (T4' : ~ 2 < w -> pass_total w h b 4 = 0).
    { intros E4. unfold pass_total. rewrite W4. destruct (Z.ltb_spec 2 w); [lia|reflexivity]. }
    assert (T6 : 1 < w -> pass_size b (w / 2) ((h + 1) / 2) = Z.min (pass_total w h b 6) usize_max).
    { intros E4. rewrite pass_size_min by lia. f_equal. unfold pass_total, line_bytes. rewrite W6, H6. destruct (Z.ltb_spec 1 w); [|lia].
      destruct (w / 2 =? 0) eqn:E; [apply Z.eqb_eq in E; lia|reflexivity]. }
    assert (T6' : ~ 1 < w -> pass_total w h b 6 = 0).
    { intros E4. unfold pass_total. rewrite W6. destruct (Z.ltb_spec 1 w); [lia|reflexivity]. }
    rewrite T1, T3, T5, T7.
    destruct (Z.ltb_spec 4 w) as [A|A]; [rewrite (T2 A)|rewrite (T2' ltac:(lia))];
    (destruct (Z.ltb_spec 2 w) as [B|B]; [rewrite (T4 B)|rewrite (T4' ltac:(lia))]);
    (destruct (Z.ltb_spec 1 w) as [C|C]; [rewrite (T6 C)|rewrite (T6' ltac:(lia))]);
    set (t1 := pass_total w h b 1) in *; set (t2 := pass_total w h b 2) in *; set (t3 := pass_total w h b 3) in *;
    set (t4 := pass_total w h b 4) in *; set (t5 := pass_total w h b 5) in *; set (t6 := pass_total w h b 6) in *;
    set (t7 := pass_total w h b 7) in *; clearbody t1 t2 t3 t4 t5 t6 t7; clear -N1 N2 N3 N4 N5 N6 N7;
    rewrite !sat_add_min by lia; f_equal; lia.
  - unfold spec_raw_size, spec_layout. rewrite map_repeat', sumZ_repeat. cbn [snd].
    rewrite Z2Nat.id by lia. unfold line_bytes. rewrite pass_size_min by lia. reflexivity.
Qed.

(* ---------------------------------------------------------------- un-filtering never panics on a stream of the right size *)
Lemma resize0_length l n : length (resize0 l n) = n.
Proof. unfold resize0. rewrite app_length, firstn_length, repeat_length. lia. Qed.

Lemma unfilter_step_no_panic bpp st line p : (1 <= bpp <= length (l_data line))%nat -> unfilter_image_step bpp st line <> Panic p.
Proof.
  intros [H1 H2]. unfold unfilter_image_step. destruct (filter_of_code (l_filter line)) as [f|]; [|discriminate].
  unfold unfilter_line. destruct (Nat.ltb_spec (length (l_data line)) bpp); [lia|].
  rewrite resize0_length, Nat.eqb_refl. cbn [negb]. destruct bpp; [lia|]. destruct (is_standard f); cbn [bind]; discriminate.
Qed.

Lemma unfilter_go_no_panic bpp p : forall lines st, Forall (fun l => (1 <= bpp <= length (l_data l))%nat) lines ->
  unfilter_image_go bpp st lines <> Panic p.
Proof.
  induction lines as [|l t IH]; intros st Hall; cbn [unfilter_image_go]; [discriminate|].
  apply Forall_cons_iff in Hall. destruct Hall as [Hl Ht].
  destruct (unfilter_image_step bpp st l) as [st1|?|q] eqn:Es; cbn [bind]; [apply IH; exact Ht|discriminate|].
  exfalso. eapply unfilter_step_no_panic; eauto.
Qed.

Lemma line_bytes_ge_bpp b n : 1 <= b -> 1 <= n -> (filter_bpp b <= Z.to_nat (line_bytes b n))%nat.
Proof.
  intros Hb Hn. unfold filter_bpp, line_bytes, cdiv.
  assert (Hq : b / 8 * 8 <= b) by (pose proof (Z.mul_div_le b 8 ltac:(lia)); lia).
  assert (Hge : Z.max 1 (b / 8) <= (n * b + 8 - 1) / 8).
  { destruct (Z.max_spec 1 (b / 8)) as [[_ ->]|[_ ->]]; apply Z.div_le_lower_bound; nia. }
  lia.
Qed.

Theorem unfilter_image_no_panic (hd : ihdr) (stream : list Z) p :
  1 <= width hd -> 1 <= height hd -> 1 <= bpp hd ->
  depth_legal (spec_color_of (ctype hd)) (depth hd) = true ->
  lenZ stream = spec_raw_size (width hd) (height hd) (bpp hd) (interlaced hd) true ->
  unfilter_image {| hdr := hd; data := stream |} <> Panic p.
Proof.
  intros Hw Hh Hb Hlegal Hlen. unfold unfilter_image, scan_lines. cbn [hdr data]. rewrite Hlen.
  set (L := spec_layout (width hd) (height hd) (bpp hd) (interlaced hd)).
  assert (Hranges : scan_ranges hd true (spec_raw_size (width hd) (height hd) (bpp hd) (interlaced hd) true)
                    = Ok (map (fun l => (snd l + 1, fst (fst l), snd (fst l))) L)).
  { destruct (interlaced hd) eqn:Eil; [rewrite (scan_ranges_interlaced_spec hd true Hw Hh Hb Eil)|rewrite (scan_ranges_plain_spec hd true Hw Hh Hb Eil)]; reflexivity. }
  rewrite Hranges. cbn [bind].
  assert (HLn : Forall (fun lay => 1 <= snd (fst lay) /\ snd lay = line_bytes (bpp hd) (snd (fst lay))) L).
  { unfold L. rewrite spec_layout_pix. apply Forall_forall. intros lay Hin. apply in_map_iff in Hin. destruct Hin as [pn [<- Hpn]]. cbn [fst snd]. split; [|reflexivity].
    unfold pix_layout in Hpn. destruct (interlaced hd).
    - apply in_map_iff in Hpn. destruct Hpn as [o [<- Ho]]. cbn [snd]. pose proof (spec_lines_pos _ _ Hw Hh) as P. rewrite Forall_forall in P. apply P. exact Ho.
    - apply repeat_spec in Hpn. subst. exact Hw. }
  assert (HLpos : Forall (fun lay => 1 <= snd lay) L).
  { eapply Forall_impl; [|exact HLn]. intros lay [Hn ->]. unfold line_bytes, cdiv. apply Z.div_le_lower_bound; nia. }
  assert (Hsum : lenZ stream = sumZ (map (fun l => snd l + 1) L)) by (rewrite Hlen; unfold spec_raw_size; fold L; reflexivity).
  destruct (cut_both L stream HLpos Hsum) as (rows & Ecf & Hrl & Ecl & F2).
  rewrite Ecl. cbn [bind].
  match goal with |- bind ?X _ <> _ => destruct X as [st|?|q] eqn:Ego end; cbn [bind]; try discriminate.
  exfalso. revert Ego. apply unfilter_go_no_panic.
  pose proof (bpp_bytes_filter_bpp {| hdr := hd; data := stream |} Hlegal) as Eb. cbn [hdr] in Eb. rewrite Eb.
  clear -F2 HLn Hb. induction F2 as [|lay row Lt Rt [H1 H2] _ IH]; cbn [combine map]; [constructor|].
  apply Forall_cons_iff in HLn. destruct HLn as [[Hn Hs] HLn']. constructor; [|apply IH; exact HLn'].
  cbn [fline fst snd l_data]. assert (length (tl (snd row)) = Z.to_nat (snd lay)) by (destruct (snd row); cbn in *; lia).
  rewrite H, Hs. split; [unfold filter_bpp; lia|apply line_bytes_ge_bpp; assumption].
Qed.

(* ---------------------------------------------------------------- PngImage::new *)
Theorem png_image_new_no_panic e hd compressed p :
  0 <= width hd -> 0 <= height hd -> 1 <= bpp hd -> depth_legal (spec_color_of (ctype hd)) (depth hd) = true ->
  (forall x n q, z_inflate e x n <> Panic q) ->
  lenZ compressed < usize_max / 1032 ->
  png_image_new e hd compressed <> Panic p.
Proof.
  intros Hw Hh Hb Hlegal Hz Hsmall. unfold png_image_new.
  destruct (Z.eqb_spec (width hd) 0); [discriminate|]. destruct (Z.eqb_spec (height hd) 0); [discriminate|]. cbn [orb].
  rewrite (raw_data_size_min hd) by lia.
  destruct (Z.ltb_spec (lenZ compressed) (Z.min (spec_raw_size (width hd) (height hd) (bpp hd) (interlaced hd) true) usize_max / 1032)) as [|Hge]; [discriminate|].
  assert (Hfit : spec_raw_size (width hd) (height hd) (bpp hd) (interlaced hd) true <= usize_max).
  { destruct (Z.le_gt_cases (spec_raw_size (width hd) (height hd) (bpp hd) (interlaced hd) true) usize_max) as [|Hgt]; [assumption|].
    rewrite Z.min_r in Hge by lia. lia. }
  rewrite Z.min_l by exact Hfit.
  destruct (z_inflate e compressed _) as [raw|?|q] eqn:Ez; cbn [bind]; [|discriminate|exfalso; eapply Hz; eauto].
  destruct (Z.eqb_spec (lenZ raw) (spec_raw_size (width hd) (height hd) (bpp hd) (interlaced hd) true)) as [Hl|]; [|discriminate]. cbn [negb].
  destruct (unfilter_image {| hdr := hd; data := raw |}) as [d|?|q] eqn:Eu; cbn [bind]; try discriminate.
  exfalso. eapply (unfilter_image_no_panic hd raw q); eauto; lia.
Qed.

(* ---------------------------------------------------------------- what the chunk loop hands on *)
Lemma parse_next_chunk_data rest fx c rest' : bytes_ok rest ->
  parse_next_chunk rest fx = Ok (Some (c, rest')) ->
  bytes_ok (c_data c) /\ bytes_ok rest' /\ (length (c_data c) + length rest' + 12 <= length rest)%nat.
Proof.
  unfold parse_next_chunk. intros Hb H.
  destruct (Nat.ltb_spec (length rest) 4); [discriminate|].
  destruct (Z.ltb_spec (lenZ rest) (12 + be32_of rest)) as [|Hfit]; [discriminate|].
  destruct (cname_eqb _ name_IEND); [discriminate|]. destruct (negb fx && _); [discriminate|].
  remember (skipn 4 (skipn 4 rest)) as body eqn:Ebody. set (n := Z.to_nat (be32_of rest)) in *.
  assert (E : c_data c = firstn n body /\ rest' = skipn 4 (skipn n body)).
  { split; [|congruence]. assert (Ec : c = {| c_name := firstn 4 (skipn 4 rest); c_data := firstn n body |}) by congruence. rewrite Ec. reflexivity. }
  destruct E as [-> ->]. clear H. pose proof (be32_of_nonneg rest Hb) as Hnn. unfold lenZ in Hfit.
  assert (Hbb : bytes_ok body) by (rewrite Ebody; apply bytes_ok_skipn; apply bytes_ok_skipn; exact Hb).
  assert (Hbl : length body = (length rest - 8)%nat) by (rewrite Ebody, !skipn_length; lia).
  split; [apply bytes_ok_firstn; exact Hbb|]. split; [apply bytes_ok_skipn; apply bytes_ok_skipn; exact Hbb|].
  rewrite firstn_length, !skipn_length, Hbl. lia.
Qed.

Definition ihdr_ok (st : fs_state) : Prop := forall ih, fs_ihdr st = Some ih -> bytes_ok ih.

Lemma loop_facts o : forall fuel rest st st', bytes_ok rest -> from_slice_loop fuel o rest st = Ok st' ->
  (ihdr_ok st -> ihdr_ok st') /\ (length (fs_idat st') <= length (fs_idat st) + length rest)%nat.
Proof.
  induction fuel as [|f IH]; intros rest st st' Hb H; [discriminate|]. cbn [from_slice_loop] in H.
  destruct (parse_next_chunk rest (fix_errors o)) as [[[c rest']|]|?|?] eqn:E; cbn [bind] in H; try discriminate.
  - destruct (from_slice_step o st c) as [st1|?|?] eqn:Es; cbn [bind] in H; try discriminate.
    destruct (parse_next_chunk_data _ _ _ _ Hb E) as (Hd & Hb' & Hlen).
    destruct (step_fields o st c st1 Es) as (F1 & F2 & _ & _).
    destruct (IH rest' st1 st' Hb' H) as [I1 I2]. split.
    + intros Hi. apply I1. intros ih Hih. rewrite F2 in Hih. destruct (is_name name_IHDR c); [injection Hih as <-; exact Hd|apply Hi; exact Hih].
    + rewrite F1 in I2. destruct (is_name name_IDAT c); [rewrite app_length in I2|]; lia.
  - injection H as <-. split; [auto|lia].
Qed.

Lemma legal_of_parse b plte trns hd : parse_ihdr_chunk b plte trns = Ok hd ->
  depth_legal (spec_color_of (ctype hd)) (depth hd) = true /\ 1 <= bpp hd.
Proof.
  intros H. destruct (parse_ihdr_legal _ _ _ _ H) as [Hv Hc]. unfold depth_valid in Hv. unfold bpp.
  destruct (ctype hd); cbn [spec_color_of depth_legal channels_per_pixel] in *;
    repeat (apply orb_true_iff in Hv; destruct Hv as [Hv|Hv]); apply Z.eqb_eq in Hv; rewrite Hv in *; try lia; split; try reflexivity; lia.
Qed.

Lemma parse_ihdr_dims b plte trns hd : parse_ihdr_chunk b plte trns = Ok hd -> width hd = be32_of b /\ height hd = be32_of (skipn 4 b).
Proof.
  unfold parse_ihdr_chunk. intros H. destruct (nth_error b 12); [|discriminate].
  match type of H with bind ?X _ = _ => destruct X end; cbn [bind] in H; try discriminate.
  destruct (negb _); [discriminate|]. destruct (negb _); [discriminate|].
  match type of H with (if ?c then _ else _) = _ => destruct c end; [|discriminate]. injection H as <-. split; reflexivity.
Qed.

(* ---------------------------------------------------------------- the whole parser *)
Theorem from_slice_no_panic e o bytes p :
  bytes_ok bytes -> lenZ bytes < usize_max / 1032 ->
  (forall x n q, z_inflate e x n <> Panic q) ->
  from_slice e bytes o <> Panic p.
Proof.
  intros Hok Hsmall Hz. unfold from_slice.
  destruct (length bytes <? 8)%nat; [discriminate|]. destruct (negb _); [discriminate|].
  assert (Hsk : bytes_ok (skipn 8 bytes)) by (apply bytes_ok_skipn; exact Hok).
  match goal with |- bind ?X _ <> _ => destruct X as [st|?|q] eqn:Eloop end; cbn [bind]; try discriminate.
  2:{ exfalso. revert Eloop. apply from_slice_loop_no_panic; [exact Hsk|].
      rewrite skipn_length. assert (((length bytes - 8) / 12 <= length bytes / 12)%nat) by (apply Nat.div_le_mono; lia). lia. }
  destruct (loop_facts o _ _ _ _ Hsk Eloop) as [Hi Hl]. cbn [fs_idat fs_ihdr length] in Hi, Hl.
  specialize (Hi ltac:(intros ih [=])).
  destruct (fs_idat st) as [|i0 it] eqn:Eidat; [discriminate|].
  destruct (fs_ihdr st) as [ih|] eqn:Eih; [|discriminate].
  destruct (parse_ihdr_chunk ih (fs_plte st) (fs_trns st)) as [hd|?|q] eqn:Ehd; cbn [bind]; try discriminate.
  2:{ exfalso. eapply parse_ihdr_no_panic; eauto. }
  destruct (png_image_new e hd (i0 :: it)) as [img|?|q] eqn:Eimg; cbn [bind]; try discriminate.
  exfalso. destruct (legal_of_parse _ _ _ _ Ehd) as [Hlegal Hb]. destruct (parse_ihdr_dims _ _ _ _ Ehd) as [Ew Eh].
  pose proof (Hi ih Eih) as Hihok.
  eapply (png_image_new_no_panic e hd (i0 :: it) q); eauto.
  - rewrite Ew. apply be32_of_nonneg. exact Hihok.
  - rewrite Eh. apply be32_of_nonneg. apply bytes_ok_skipn. exact Hihok.
  - rewrite skipn_length in Hl. unfold lenZ in *. lia.
Qed.

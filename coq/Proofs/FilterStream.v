(* From filtered rows to the filtered stream: the inflated IDAT content that filter_image produces for a decodable image
   is accepted by the specification's decoder and means what the image means (C01 / C19 at stream level). *)
From OxiVerif Require Import Base.Common Base.Crc32 Spec.Filter Spec.Adam7 Spec.Sem Spec.Decode Model.Types Model.ScanLines Model.Filters
  Proofs.Bridge Proofs.ScanProofs Proofs.ImageLift Proofs.LiftReductions Proofs.LiftColor Proofs.LiftLines Proofs.LiftBits
  Proofs.FilterProofs Proofs.FilterImage.
Local Open Scope Z_scope.

Lemma cut_filtered_concat (L : list (option Z * Z * Z)) (rows : list (list Z)) :
  Forall2 (fun lay r => length r = S (Z.to_nat (snd lay))) L rows ->
  cut_filtered L (concat rows) = Some (combine (map (fun lay => fst (fst lay)) L) rows).
Proof.
  induction 1 as [|[[p n] nb] r L' rows' Hl _ IH]; cbn [cut_filtered concat combine map]; [reflexivity|].
  cbn [snd fst] in *. rewrite app_length. destruct (Nat.ltb_spec (length r + length (concat rows')) (S (Z.to_nat nb))) as [|_]; [lia|].
  rewrite <- Hl. rewrite skipn_app, skipn_all, Nat.sub_diag, skipn_O. cbn [app]. rewrite IH.
  rewrite firstn_app, firstn_all, Nat.sub_diag, firstn_O, app_nil_r. reflexivity.
Qed.

Lemma bpp_bytes_filter_bpp img : depth_legal (spec_color_of (ctype (hdr img))) (depth (hdr img)) = true ->
  bpp_bytes img = filter_bpp (bpp (hdr img)).
Proof.
  intros Hl. unfold bpp_bytes, filter_bpp, bytes_per_channel, channels, bpp.
  destruct (ctype (hdr img)); cbn [spec_color_of depth_legal channels_per_pixel] in *;
    repeat (apply orb_true_iff in Hl; destruct Hl as [Hl|Hl]); apply Z.eqb_eq in Hl; rewrite Hl; reflexivity.
Qed.

Theorem filter_image_stream brute (img : image) f stream pic :
  wf img -> sem img = Some pic ->
  filter_image brute img f false = Ok stream ->
  spec_unfilter (width (hdr img)) (height (hdr img)) (bpp (hdr img)) (interlaced (hdr img)) stream = Some (data img).
Proof.
  intros [Hok _] Hsem Hf.
  destruct (sem_some_cut _ _ Hsem) as (Hw & Hh & Hbpp & lines & Hcut).
  pose proof (sem_some_legal _ _ Hsem) as Hlegal.
  pose proof (scan_lines_is_layout img lines Hw Hh Hbpp Hcut) as Hsl.
  unfold filter_image in Hf. destruct (filter_image_rows brute img f false) as [rows|?|?] eqn:Er; cbn [bind] in Hf; try discriminate.
  injection Hf as <-.
  assert (Hbb : (1 <= bpp_bytes img)%nat).
  { rewrite (bpp_bytes_filter_bpp img Hlegal). unfold filter_bpp. lia. }
  destruct (cut_layout_shape _ _ _ Hcut) as [Hshape Hdata].
  assert (Hall : Forall (fun l => bytes_ok (l_data l) /\ (bpp_bytes img <= length (l_data l))%nat) (map to_scanline lines)).
  { apply Forall_forall. intros sl Hsl0. apply in_map_iff in Hsl0. destruct Hsl0 as [l [<- Hl]]. cbn [to_scanline l_data].
    destruct (cut_lines_lengths _ _ _ _ _ _ Hw Hh Hcut l Hl) as [Hlen Hn]. split.
    - unfold bytes_ok. apply Forall_forall. intros x Hx. eapply bytes_ok_in; [exact Hok|]. rewrite Hdata. apply in_concat. exists (snd l). split; [apply in_map; exact Hl|exact Hx].
    - (* a scan line of at least one pixel is at least one (rounded-up) pixel long *)
      assert (Hn1 : 1 <= snd (fst l)).
      { destruct (interlaced (hdr img)) eqn:Eil.
        - pose proof (spec_lines_pos _ _ Hw Hh) as P. rewrite Forall_forall in P.
          clear -Hshape P Hl. unfold spec_layout in Hshape.
          revert lines Hshape Hl. induction (spec_lines (width (hdr img)) (height (hdr img))) as [|pn t IH]; intros lines Hs Hl;
            inversion Hs as [|? l0 ? ls [Hf _] Hs']; subst; [destruct Hl|].
          destruct Hl as [<-|Hl]; [rewrite Hf; cbn [fst snd]; apply P; left; reflexivity|].
          apply (IH ltac:(intros x Hx; apply P; right; exact Hx) ls); auto.
        - clear -Hshape Hl Hw. unfold spec_layout in Hshape.
          revert lines Hshape Hl. induction (Z.to_nat (height (hdr img))) as [|k IH]; intros lines Hs Hl; cbn [repeat] in Hs;
            inversion Hs as [|? l0 ? ls [Hf _] Hs']; subst; [destruct Hl|].
          destruct Hl as [<-|Hl]; [rewrite Hf; cbn [fst snd]; exact Hw|]. apply (IH ls); auto. }
      rewrite Hlen, (bpp_bytes_filter_bpp img Hlegal). unfold filter_bpp, line_bytes, cdiv.
      assert (Hq : bpp (hdr img) / 8 * 8 <= bpp (hdr img)) by (pose proof (Z.mul_div_le (bpp (hdr img)) 8 ltac:(lia)); lia).
      assert (Hge : Z.max 1 (bpp (hdr img) / 8) <= (snd (fst l) * bpp (hdr img) + 8 - 1) / 8).
      { destruct (Z.max_spec 1 (bpp (hdr img) / 8)) as [[_ ->]|[_ ->]]; apply Z.div_le_lower_bound; nia. }
      lia. }
  destruct (filter_image_rows_roundtrip brute img f (map to_scanline lines) rows Hbb Hsl Hall Er) as [F2 Hseq].
  unfold spec_unfilter.
  destruct (Z.leb_spec (width (hdr img)) 0); [lia|]. destruct (Z.leb_spec (height (hdr img)) 0); [lia|].
  destruct (Z.leb_spec (bpp (hdr img)) 0); [lia|]. cbn [orb].
  (* the stream is cut into exactly these rows *)
  assert (Hcutf : cut_filtered (spec_layout (width (hdr img)) (height (hdr img)) (bpp (hdr img)) (interlaced (hdr img))) (concat rows)
                  = Some (combine (map l_pass (map to_scanline lines)) rows)).
  { rewrite cut_filtered_concat.
    - f_equal. f_equal. clear -Hshape. revert lines Hshape.
      induction (spec_layout (width (hdr img)) (height (hdr img)) (bpp (hdr img)) (interlaced (hdr img))) as [|lay t IH]; intros lines Hs;
        inversion Hs as [|? l ? ls [Hf _] Hs']; subst; cbn [map]; [reflexivity|]. rewrite (IH ls Hs'). cbn [to_scanline l_pass]. rewrite Hf. reflexivity.
    - clear -Hshape F2. revert lines rows Hshape F2.
      induction (spec_layout (width (hdr img)) (height (hdr img)) (bpp (hdr img)) (interlaced (hdr img))) as [|lay t IH]; intros lines rows Hs F2;
        inversion Hs as [|? l ? ls [Hf Hlen] Hs']; subst; cbn [map] in F2; inversion F2 as [|r ? rs ? (ft & buf & -> & _ & Hbl) F2']; subst; constructor.
      + cbn [length to_scanline l_data] in *. rewrite Hbl, Hlen. reflexivity.
      + apply (IH ls rs); auto. }
  rewrite Hcutf, <- (bpp_bytes_filter_bpp img Hlegal), Hseq.
  rewrite map_map. f_equal. rewrite Hdata. reflexivity.
Qed.

(* hence the stream decodes, under the specification, to the picture the image means *)
Theorem filter_image_decodes brute (img : image) f stream pic :
  wf img -> sem img = Some pic ->
  filter_image brute img f false = Ok stream ->
  spec_decode_stream (width (hdr img)) (height (hdr img)) (spec_color_of (ctype (hdr img))) (depth (hdr img)) (interlaced (hdr img)) stream = Some pic.
Proof.
  intros Hwf Hsem Hf. unfold spec_decode_stream. rewrite spec_channels_of. fold (bpp (hdr img)).
  rewrite (filter_image_stream brute img f stream pic Hwf Hsem Hf). exact Hsem.
Qed.

(* C03/C19 at image level with the alpha optimisation switched on: the rows that filter_image writes decode, under the
   specification's reconstruction, to scan lines that differ from the filtered ones only in the colour bytes of fully
   transparent pixels. All ten strategies, any Brute oracle. *)
From OxiVerif Require Import Base.Common Spec.Filter Model.Types Model.ScanLines Model.Filters Proofs.FilterProofs Proofs.FilterImage.
From OxiVerif Require Import Proofs.AlphaLine.

Section FA.
Variable bpp ab : nat.
Hypothesis Hab : (1 <= ab)%nat.
Hypothesis Hab2 : (ab <= bpp)%nat.
Let cb := (bpp - ab)%nat.
Let Hcb : (cb <= bpp)%nat. Proof. unfold cb. lia. Qed.
Let Hbpp : (0 < bpp)%nat. Proof. lia. Qed.

Definition lrel := line_rel bpp cb.
Definition mult_line (d : list Z) : Prop := exists k, (1 <= k)%nat /\ length d = (k * bpp)%nat.

Lemma lrel_mult a b : lrel a b -> mult_line a -> mult_line b.
Proof. intros (L & _) (k & Hk & E). exists k. split; [assumption|congruence]. Qed.

Lemma try_all_alpha_spec fs prev : bytes_ok prev -> Forall (fun f => is_standard f = true) fs ->
  forall ldata, mult_line ldata -> length prev = length ldata -> bytes_ok ldata ->
  exists cands, try_all fs bpp ldata prev ab = Ok cands /\
    Forall (fun c => lrel ldata (snd c) /\ exists ft buf, fst c = ft :: buf /\ 0 <= ft <= 4 /\ spec_recon_line bpp ft buf prev = snd c /\ length buf = length ldata) cands.
Proof.
  intros Hp Hfs. induction Hfs as [|f t Hf _ IH]; intros ldata Hm Hlen Hd; cbn [try_all].
  - exists []. split; constructor.
  - destruct Hm as (k & Hk & Ek).
    destruct (filter_line_alpha_is_spec bpp cb Hcb Hbpp f ldata prev ab k Hf Hab eq_refl Ek Hk Hlen Hd Hp) as (d' & R & E).
    rewrite E. cbn [bind]. destruct R as (L & B & F2).
    destruct (IH d') as (cands & Ec & Fc); [exists k; split; [assumption|congruence]|congruence|assumption|].
    rewrite Ec. cbn [bind]. eexists. split; [reflexivity|]. constructor.
    + cbn [fst snd]. split; [split; [|split]; assumption|].
      exists (filter_code f), (spec_filter_line bpp (filter_code f) d' prev).
      split; [reflexivity|]. split; [unfold is_standard in Hf; apply Z.leb_le in Hf; destruct f; cbn in *; lia|].
      split; [apply spec_filter_roundtrip; auto; try congruence; try lia|]. unfold spec_filter_line. rewrite filt_go_length; [exact L|congruence].
    + eapply Forall_impl; [|exact Fc]. cbn beta. intros c (Rc & ft & buf & E1 & E2 & E3 & E4). split.
      * eapply line_rel_trans; [split; [exact L|split; [exact B|exact F2]]|exact Rc].
      * exists ft, buf. repeat split; auto; try lia; try congruence.
Qed.

Definition good_row_a (sst : option (option Z * list Z)) (pass : option Z) (d' row : list Z) : Prop :=
  exists ft buf, row = ft :: buf /\ 0 <= ft <= 4 /\ length buf = length d' /\
    spec_recon_line bpp ft buf (same_pass_prev sst pass (length buf)) = d'.

Lemma filter_image_step_alpha_ok brute f st sst line st' :
  bytes_ok (l_data line) -> mult_line (l_data line) -> inv st sst ->
  filter_image_step brute f bpp ab st line = Ok st' ->
  exists row d', fi_out st' = row :: fi_out st /\ lrel (l_data line) d' /\ good_row_a sst (l_pass line) d' row /\
    inv st' (Some (l_pass line, d')).
Proof.
  intros Hok Hm [R Hpok] H. unfold filter_image_step in H.
  set (ldata := l_data line) in *.
  assert (Hn : (0 < length ldata)%nat) by (destruct Hm as (k & Hk & E); rewrite E; nia).
  pose proof (prev_agree st sst (l_pass line) (length ldata) Hn R) as Hprev. unfold model_prev in Hprev.
  set (prev_line := if negb (opt_Z_eqb (fi_prev_pass st) (l_pass line)) || negb (length ldata =? length (fi_prev_line st))%nat
                    then repeat 0 (length ldata) else fi_prev_line st) in *.
  assert (Hpl : length prev_line = length ldata).
  { unfold prev_line. destruct (negb (opt_Z_eqb (fi_prev_pass st) (l_pass line))); cbn [orb]; [apply repeat_length|].
    destruct (Nat.eqb_spec (length ldata) (length (fi_prev_line st))); cbn [negb]; [auto|apply repeat_length]. }
  assert (Hpb : bytes_ok prev_line).
  { unfold prev_line. destruct (_ || _); [apply bytes_ok_zeros|exact Hpok]. }
  destruct (is_standard f) eqn:Estd.
  - set (f' := if opt_Z_eqb (fi_prev_pass st) (l_pass line) || (filter_code f <=? 1) then f else FNone) in *.
    assert (Hf' : is_standard f' = true) by (unfold f'; destruct (opt_Z_eqb (fi_prev_pass st) (l_pass line) || (filter_code f <=? 1)); [exact Estd|reflexivity]).
    destruct Hm as (k & Hk & Ek).
    destruct (filter_line_alpha_is_spec bpp cb Hcb Hbpp f' ldata prev_line ab k Hf' Hab eq_refl Ek Hk Hpl Hok Hpb) as (d' & Rl & E).
    rewrite E in H. cbn [bind] in H. injection H as <-. pose proof Rl as (L & B & _).
    exists (filter_code f' :: spec_filter_line bpp (filter_code f') d' prev_line), d'. split; [reflexivity|]. split; [exact Rl|]. split.
    + exists (filter_code f'), (spec_filter_line bpp (filter_code f') d' prev_line).
      assert (Hbl : length (spec_filter_line bpp (filter_code f') d' prev_line) = length d') by (unfold spec_filter_line; apply filt_go_length; congruence).
      split; [reflexivity|]. split; [unfold is_standard in Hf'; apply Z.leb_le in Hf'; destruct f'; cbn in *; lia|].
      split; [exact Hbl|]. rewrite Hbl, L, <- Hprev. apply spec_filter_roundtrip; auto; try congruence; try lia.
    + split; cbn [fi_prev_line fi_prev_pass]; [split; auto|exact B].
  - destruct (all_zero ldata) eqn:Ez.
    + injection H as <-. exists (0 :: ldata), ldata. split; [reflexivity|]. split; [apply line_rel_refl; exact Hok|]. split.
      * exists 0, ldata. split; [reflexivity|]. split; [lia|]. split; [reflexivity|]. rewrite <- Hprev.
        unfold spec_recon_line. apply recon_none; auto.
      * split; cbn [fi_prev_line fi_prev_pass]; [split; [reflexivity|right; apply all_zero_spec; exact Ez]|exact Hok].
    + set (tf := if opt_Z_eqb (fi_prev_pass st) (l_pass line) then standard_filters else single_line_filters) in *.
      assert (Htf : Forall (fun f => is_standard f = true) tf) by (unfold tf; destruct (opt_Z_eqb _ _); [apply standard_list1|apply standard_list2]).
      destruct (try_all_alpha_spec tf prev_line Hpb Htf ldata Hm Hpl Hok) as (cands & Ec & Fc).
      rewrite Ec in H. cbn [bind] in H.
      match type of H with (match ?best with _ => _ end) = _ => destruct best as [[buf raw]|] eqn:Ebest; [|discriminate] end.
      injection H as <-.
      assert (Hin : In (buf, raw) cands).
      { destruct f; try discriminate.
        - apply pick_min_in in Ebest. destruct Ebest as [|[s E]]; [auto|discriminate].
        - apply pick_max_in in Ebest. destruct Ebest as [|[s E]]; [auto|discriminate].
        - apply pick_min_in in Ebest. destruct Ebest as [|[s E]]; [auto|discriminate].
        - apply pick_max_in in Ebest. destruct Ebest as [|[s E]]; [auto|discriminate].
        - eapply nth_error_In; eauto. }
      rewrite Forall_forall in Fc. destruct (Fc _ Hin) as (Rraw & ft & b & Ebuf & Hft & Hrec & Hbl). cbn [fst snd] in *. subst buf.
      pose proof Rraw as (L & B & _).
      exists (ft :: b), raw. split; [reflexivity|]. split; [exact Rraw|]. split.
      * exists ft, b. split; [reflexivity|]. split; [lia|]. split; [congruence|]. rewrite Hbl, <- Hprev. exact Hrec.
      * split; cbn [fi_prev_line fi_prev_pass]; [split; auto|exact B].
Qed.

Lemma filter_image_go_alpha_ok brute f : forall lines st sst st',
  inv st sst -> Forall (fun l => bytes_ok (l_data l) /\ mult_line (l_data l)) lines ->
  filter_image_go brute f bpp ab st lines = Ok st' ->
  exists rows lines', fi_out st' = rev rows ++ fi_out st /\
    Forall2 (fun r d' => exists ft buf, r = ft :: buf /\ 0 <= ft <= 4 /\ length buf = length d') rows lines' /\
    Forall2 lrel (map l_data lines) lines' /\
    spec_recon_seq bpp sst (combine (map l_pass lines) rows) = Some lines'.
Proof.
  induction lines as [|l t IH]; intros st sst st' I Hall H; cbn [filter_image_go] in H.
  - injection H as <-. exists [], []. repeat split; constructor.
  - apply Forall_cons_iff in Hall. destruct Hall as [[Hok Hm] Hall'].
    destruct (filter_image_step brute f bpp ab st l) as [st1|?|?] eqn:Es; cbn [bind] in H; try discriminate.
    destruct (filter_image_step_alpha_ok _ _ _ _ _ _ Hok Hm I Es) as (row & d' & Eout & Rl & (ft & buf & Erow & Hft & Hbl & Hrec) & I1).
    destruct (IH _ _ _ I1 Hall' H) as (rows & lines' & Eout' & F2 & FR & Hseq).
    exists (row :: rows), (d' :: lines'). split; [|split; [|split]].
    + rewrite Eout', Eout. cbn [rev]. rewrite <- app_assoc. reflexivity.
    + constructor; [exists ft, buf; auto|exact F2].
    + cbn [map]. constructor; assumption.
    + cbn [map combine spec_recon_seq]. rewrite Erow.
      assert (E : (0 <=? ft) && (ft <=? 4) = true) by (apply andb_true_iff; split; apply Z.leb_le; lia).
      rewrite E, Hrec, Hseq. reflexivity.
Qed.
End FA.

(* Proofs about input handling (C05, C11): the chunk walker terminates within its fuel and never
   panics, headers accepted are legal, and the decoded size is bounded by the compressed size. *)
From OxiVerif Require Import Base.Common Base.Crc32 Model.Types Model.Options Model.Headers Model.ScanLines
  Model.Filters Model.PngData Model.Optimize.

Lemma skipn_length_le {A} n (l : list A) : (length (skipn n l) <= length l)%nat.
Proof. rewrite skipn_length. lia. Qed.

(* every chunk consumes at least 12 bytes *)
Lemma be32_of_nonneg l : bytes_ok l -> 0 <= be32_of l.
Proof.
  intros H. unfold be32_of. destruct l as [|a [|b [|c0 [|d t]]]]; try lia.
  apply bytes_ok_cons in H. destruct H as [Ha H]. apply bytes_ok_cons in H. destruct H as [Hb H].
  apply bytes_ok_cons in H. destruct H as [Hc H]. apply bytes_ok_cons in H. destruct H as [Hd H].
  unfold be32, byte_ok in *. lia.
Qed.

Lemma parse_next_chunk_consumes rest fx c rest' : bytes_ok rest ->
  parse_next_chunk rest fx = Ok (Some (c, rest')) -> (length rest' + 12 <= length rest)%nat /\ bytes_ok rest'.
Proof.
  unfold parse_next_chunk. intros Hb H.
  destruct (length rest <? 4)%nat eqn:E4; [discriminate|].
  destruct (lenZ rest <? 12 + be32_of rest) eqn:E12; [discriminate|].
  destruct (cname_eqb _ name_IEND); [discriminate|].
  destruct (negb fx && _); [discriminate|].
  assert (Er : rest' = skipn 4 (skipn (Z.to_nat (be32_of rest)) (skipn 4 (skipn 4 rest)))) by (injection H; intros; subst; reflexivity).
  rewrite Er. clear H Er.
  apply Z.ltb_ge in E12. unfold lenZ in E12.
  pose proof (be32_of_nonneg rest Hb) as Hnn.
  split.
  - rewrite !skipn_length. lia.
  - repeat apply bytes_ok_skipn. exact Hb.
Qed.

Lemma parse_next_chunk_no_panic rest fx p : parse_next_chunk rest fx <> Panic p.
Proof.
  unfold parse_next_chunk.
  destruct (length rest <? 4)%nat; [discriminate|]. destruct (lenZ rest <? 12 + be32_of rest); [discriminate|].
  destruct (cname_eqb _ name_IEND); [discriminate|]. destruct (negb fx && _); discriminate.
Qed.

Lemma frame_from_fctl_no_panic b p : frame_from_fctl b <> Panic p.
Proof. unfold frame_from_fctl. destruct (length b <? 26)%nat; discriminate. Qed.

Lemma from_slice_step_no_panic o st c p : from_slice_step o st c <> Panic p.
Proof.
  unfold from_slice_step.
  repeat match goal with
         | |- (if ?b then _ else _) <> _ => destruct b
         | |- (match ?x with _ => _ end) <> _ => destruct x eqn:?
         | |- bind ?x _ <> _ => let E := fresh "E" in destruct x eqn:E; cbn [bind]
         end; try discriminate;
  try (match goal with E : frame_from_fctl _ = Panic _ |- _ => exfalso; eapply frame_from_fctl_no_panic; exact E end).
Qed.

(* the `while let Some(chunk)` loop ends within the fuel the model gives it, and never panics *)
Theorem from_slice_loop_no_panic o : forall fuel rest st p, bytes_ok rest ->
  (length rest / 12 < fuel)%nat -> from_slice_loop fuel o rest st <> Panic p.
Proof.
  induction fuel as [|f IH]; intros rest st p Hb Hf; [lia|].
  cbn [from_slice_loop].
  destruct (parse_next_chunk rest (fix_errors o)) as [[[c rest']|]|e|q] eqn:E; cbn [bind]; try discriminate.
  - destruct (from_slice_step o st c) as [st'|e|q] eqn:E2; cbn [bind]; try discriminate.
    + destruct (parse_next_chunk_consumes _ _ _ _ Hb E) as [Hc Hb']. apply IH; [exact Hb'|].
      assert (length rest' / 12 < length rest / 12)%nat.
      { apply Nat.div_lt_upper_bound; [lia|].
        pose proof (Nat.div_mod (length rest) 12 ltac:(lia)). pose proof (Nat.mod_upper_bound (length rest) 12 ltac:(lia)). lia. }
      lia.
    + exfalso. eapply from_slice_step_no_panic. exact E2.
  - exfalso. eapply parse_next_chunk_no_panic. exact E.
Qed.

(* headers that are accepted are legal: one of the 15 colour type / bit depth pairs, interlace 0/1 *)
Theorem parse_ihdr_legal b plte trns hd : parse_ihdr_chunk b plte trns = Ok hd ->
  depth_valid (depth hd) = true /\
  match ctype hd with
  | Gray _ => True
  | Indexed _ => depth hd <= 8
  | _ => 8 <= depth hd
  end.
Proof.
  unfold parse_ihdr_chunk. intros H.
  destruct (nth_error b 12) as [il|]; [|discriminate].
  match type of H with bind ?X _ = _ => destruct X as [c|?|?] eqn:Ec end; cbn [bind] in H; try discriminate.
  destruct (negb (depth_valid (nth 8 b 0))) eqn:Ed; [discriminate|].
  destruct (negb ((il =? 0) || (il =? 1))); [discriminate|].
  match type of H with (if ?v then _ else _) = _ => destruct v eqn:Ev end; [|discriminate].
  injection H as <-. cbn [depth ctype]. split; [destruct (depth_valid (nth 8 b 0)); [reflexivity|discriminate]|].
  destruct c; auto; apply Z.leb_le; exact Ev.
Qed.

Theorem parse_ihdr_no_panic b plte trns p : parse_ihdr_chunk b plte trns <> Panic p.
Proof.
  unfold parse_ihdr_chunk. destruct (nth_error b 12); [|discriminate].
  match goal with |- bind ?X _ <> _ => destruct X eqn:E end; cbn [bind]; try discriminate.
  - repeat match goal with |- (if ?b then _ else _) <> _ => destruct b end; discriminate.
  - exfalso. repeat match type of E with (match ?x with _ => _ end) = _ => destruct x end; discriminate.
Qed.

(* what is decoded is bounded by what is present: a header whose decoded size exceeds 1032 times
   the compressed data is rejected before anything is allocated; zero dimensions are rejected *)
Theorem png_image_new_size_bound e hd compressed img :
  png_image_new e hd compressed = Ok img ->
  width hd <> 0 /\ height hd <> 0 /\ raw_data_size hd < 1032 * (lenZ compressed + 1) /\ lenZ (data img) <= raw_data_size hd + 0 * 0.
Proof.
  unfold png_image_new. intros H.
  destruct ((width hd =? 0) || (height hd =? 0)) eqn:E0; [discriminate|].
  apply orb_false_iff in E0. destruct E0 as [Ew Eh]. apply Z.eqb_neq in Ew, Eh.
  destruct (lenZ compressed <? raw_data_size hd / 1032) eqn:E1; [discriminate|]. apply Z.ltb_ge in E1.
  split; [exact Ew|]. split; [exact Eh|]. split; [lia|].
  destruct (z_inflate e compressed (raw_data_size hd)) as [raw|?|?]; cbn [bind] in H; try discriminate.
  destruct (negb (lenZ raw =? raw_data_size hd)) eqn:E2; [discriminate|].
  destruct (unfilter_image _) as [d|?|?] eqn:Eu; cbn [bind] in H; try discriminate. injection H as <-. cbn [data].
  (* unfiltered data is never longer than the filtered stream *)
  apply negb_false_iff in E2. apply Z.eqb_eq in E2. rewrite <- E2. rewrite Z.mul_0_r, Z.add_0_r.
  unfold unfilter_image in Eu.
  destruct (scan_lines _ true) as [lines|?|?] eqn:Es; cbn [bind] in Eu; try discriminate.
  destruct (unfilter_image_go _ _ lines) as [st|?|?] eqn:Eg; cbn [bind] in Eu; try discriminate. injection Eu as <-.
  (* generic: total length of unfiltered lines <= total length of the scan lines' data <= raw *)
  assert (G : forall ls st0 st1 bppb, unfilter_image_go bppb st0 ls = Ok st1 ->
            lenZ (concat (rev (ui_out st1))) <= lenZ (concat (rev (ui_out st0))) + sumZ (map (fun l => lenZ (l_data l)) ls)).
  { induction ls as [|l t IHl]; intros st0 st1 bppb Hgo; cbn [unfilter_image_go] in Hgo.
    - injection Hgo as <-. cbn. lia.
    - destruct (unfilter_image_step bppb st0 l) as [st'|?|?] eqn:Est; cbn [bind] in Hgo; try discriminate.
      specialize (IHl _ _ _ Hgo). cbn [map sumZ fold_right]. 
      assert (lenZ (concat (rev (ui_out st'))) <= lenZ (concat (rev (ui_out st0))) + lenZ (l_data l)).
      { unfold unfilter_image_step in Est. destruct (filter_of_code (l_filter l)) as [f|]; [|discriminate].
        destruct (unfilter_line f bppb (l_data l) _) as [u|?|?] eqn:Eul; cbn [bind] in Est; try discriminate.
        injection Est as <-. cbn [ui_out rev]. rewrite concat_app. cbn [concat]. rewrite app_nil_r. unfold lenZ. rewrite app_length.
        assert (length u <= length (l_data l))%nat.
        { unfold unfilter_line in Eul.
          destruct (length (l_data l) <? bppb)%nat; [discriminate|].
          destruct (negb _); [discriminate|]. destruct bppb; [discriminate|].
          destruct (is_standard f); [|discriminate]. injection Eul as <-.
          clear. generalize (@nil Z) at 1. generalize (@nil Z) at 1.
          generalize (resize0 (if negb (opt_Z_eqb (ui_last_pass st0) (l_pass l)) then [] else ui_last_line st0) (length (l_data l))).
          induction (l_data l) as [|x xs IHx]; intros prev rq buf; destruct prev; cbn [unfilter_go length]; try lia.
          specialize (IHx prev (z :: rq)). cbn [length]. apply le_n_S. apply IHx. }
        lia. }
      unfold sumZ in *. lia. }
  specialize (G _ _ _ _ Eg). cbn [ui_out rev concat] in G. unfold lenZ at 2 in G. cbn [length] in G.
  (* and the scan lines cut from the stream are no longer than the stream *)
  assert (Hcut : forall rs raw0 ls hf, cut_lines hf rs raw0 = Ok ls -> sumZ (map (fun l => lenZ (l_data l)) ls) <= lenZ raw0).
  { induction rs as [|[[len pass] npix] t IHr]; intros raw0 ls hf Hc; cbn [cut_lines] in Hc.
    - injection Hc as <-. cbn. unfold lenZ. lia.
    - destruct (hf && (len <=? 1)); [discriminate|].
      destruct (length raw0 <? Z.to_nat len)%nat eqn:El; [injection Hc as <-; cbn; unfold lenZ; lia|].
      apply Nat.ltb_ge in El.
      match type of Hc with (match ?X with _ => _ end) = _ => destruct X as [ln|] eqn:Eln end; [|discriminate].
      destruct (cut_lines hf t (skipn (Z.to_nat len) raw0)) as [r|?|?] eqn:Er; cbn [bind] in Hc; try discriminate.
      injection Hc as <-. specialize (IHr _ _ _ Er). cbn [map sumZ fold_right]. unfold sumZ in *.
      assert (lenZ (l_data ln) <= Z.of_nat (Z.to_nat len)).
      { destruct hf.
        - destruct (firstn (Z.to_nat len) raw0) as [|f0 d0] eqn:Ef; [discriminate|]. injection Eln as <-. cbn [l_data].
          assert (length (f0 :: d0) = Z.to_nat len) by (rewrite <- Ef; apply firstn_length_le; exact El). cbn [length] in H. unfold lenZ. lia.
        - injection Eln as <-. cbn [l_data]. unfold lenZ. rewrite firstn_length_le by exact El. lia. }
      unfold lenZ in *. rewrite skipn_length in IHr. lia. }
  unfold scan_lines in Es. destruct (scan_ranges _ true _) as [rs|?|?]; cbn [bind] in Es; try discriminate.
  specialize (Hcut _ _ _ _ Es). cbn [data] in Hcut. lia.
Qed.

(* the raw-image constructor rejects inconsistent arguments with an error value, never a panic,
   and accepts exactly the consistent ones *)
Theorem raw_image_new_never_panics w h c d dat : is_panic (raw_image_new w h c d dat) = false.
Proof.
  unfold raw_image_new. destruct (negb _); [reflexivity|]. destruct (_ || _ || _); reflexivity.
Qed.

Theorem raw_image_new_accepts_iff w h c d dat :
  is_ok (raw_image_new w h c d dat) = true <->
  (match c with Gray _ => True | Indexed _ => d <= 8 | _ => 8 <= d end) /\
  w <> 0 /\ h <> 0 /\ lenZ dat = sat_mul (cdiv (d * channels_per_pixel c * w) 8) h.
Proof.
  unfold raw_image_new.
  destruct (match c with Gray _ => true | Indexed _ => d <=? 8 | _ => 8 <=? d end) eqn:Ev; cbn [negb].
  - destruct ((w =? 0) || (h =? 0) || negb (lenZ dat =? sat_mul (cdiv (d * channels_per_pixel c * w) 8) h)) eqn:E; cbn [is_ok].
    + split; [discriminate|]. intros (_ & Hw & Hh & Hl). apply orb_true_iff in E. destruct E as [E|E].
      * apply orb_true_iff in E. destruct E as [E|E]; apply Z.eqb_eq in E; contradiction.
      * apply negb_true_iff in E. apply Z.eqb_neq in E. contradiction.
    + split; [intros _|reflexivity]. apply orb_false_iff in E. destruct E as [E E3]. apply orb_false_iff in E. destruct E as [E1 E2].
      apply Z.eqb_neq in E1, E2. apply negb_false_iff in E3. apply Z.eqb_eq in E3.
      split; [destruct c; auto; apply Z.leb_le; exact Ev|]. auto.
  - cbn [is_ok]. split; [discriminate|]. intros (Hv & _). destruct c; try discriminate; apply Z.leb_gt in Ev; lia.
Qed.

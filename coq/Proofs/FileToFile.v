(* C01, file to file on the model: optimize_from_memory returns the input bytes, or the serialisation of a PngData which - its
   container side conditions granted - the specification's whole-file decoder maps to the picture it decodes from the input file. *)
From OxiVerif Require Import Base.Common Base.Crc32 Spec.Filter Spec.Adam7 Spec.Sem Spec.Decode Spec.DecodeFile
  Model.Types Model.Options Model.Headers Model.PngData Model.Evaluate Model.Optimize
  Proofs.Bridge Proofs.LiftColor Proofs.OutputProofs Proofs.OutputDecode Proofs.PipelineLossless Proofs.EmittedStream Proofs.FileLevel.
From OxiVerif Require Import Proofs.InputParse.
Local Open Scope Z_scope.

Definition container_ok (p' : pngdata) : Prop :=
  Forall chunk_wf (output_body p') /\ Forall not_iend (output_body p') /\
  writable (hdr (raw p')) /\ 0 <= depth (hdr (raw p')) < 256 /\ Forall not_key (aux_written p').

Lemma preprocess_keeps_lossy e aux o :
  optimize_alpha (snd (preprocess_chunks e aux o)) = optimize_alpha o /\ scale_16 (snd (preprocess_chunks e aux o)) = scale_16 o.
Proof.
  unfold preprocess_chunks.
  repeat match goal with
  | |- context [let '(a, b) := ?x in _] => destruct x
  | |- context [match ?x with _ => _ end] => destruct x
  end; cbn [snd optimize_alpha scale_16 set_reductions]; auto.
Qed.

Theorem optimize_png_lossless_partial e o (inflate : list Z -> option (list Z)) p out pic :
  optimize_alpha o = false -> scale_16 o = false -> means pic (raw p) ->
  (forall d s, inflate (z_deflate e d s) = Some s) ->
  (exists stream, inflate (idat_data p) = Some stream /\
     spec_decode_stream (width (hdr (raw p))) (height (hdr (raw p))) (spec_color_of (ctype (hdr (raw p)))) (depth (hdr (raw p)))
                        (interlaced (hdr (raw p))) stream = Some pic) ->
  optimize_png e p o = Ok out ->
  exists p', out = output p' /\ (container_ok p' -> spec_decode_png inflate (output p') = Some pic).
Proof.
  intros Ha Hs Hm Hz (stream & Hinf & Hdec) H. unfold optimize_png in H.
  destruct (preprocess_keeps_lossy e (aux_chunks p) o) as [Ea Es].
  destruct (preprocess_chunks e (aux_chunks p) o) as [aux o'] eqn:Epre. cbn [snd] in Ea, Es. cbn [raw idat_data aux_chunks frames] in H.
  destruct (optimize_raw e o' (raw p) _) as [r|?|?] eqn:Er; cbn [bind] in H; try discriminate.
  destruct r as [c|].
  - match type of H with bind (bind ?X _) _ = _ => destruct X as [fr|?|?] eqn:Efr end; cbn [bind] in H; try discriminate.
    injection H as <-. eexists. split; [reflexivity|]. intros (C1 & C2 & C3 & C4 & C5).
    eapply (emitted_file_decodes_partial e o' (raw p)); eauto; congruence.
  - cbn [bind] in H. injection H as <-. eexists. split; [reflexivity|]. intros (C1 & C2 & C3 & C4 & C5).
    rewrite (output_decodes inflate _ C1 C2 C3 C4 C5). cbn [raw idat_data]. rewrite Hinf. exact Hdec.
Qed.

Theorem optimize_from_memory_lossless_partial e o (inflate : list Z -> option (list Z)) bytes out pic nm ih rest :
  optimize_alpha o = false -> scale_16 o = false ->
  bytes_ok bytes ->
  (* the input is a valid datastream that the specification decodes to pic *)
  spec_parse_png bytes = Some ((nm, ih) :: rest) ->
  spec_decode_chunks inflate ((nm, ih) :: rest) = Some pic ->
  List.filter (named spec_IHDR) rest = [] ->
  (length (List.filter (named spec_PLTE) rest) <= 1)%nat -> (length (List.filter (named spec_tRNS) rest) <= 1)%nat ->
  (* zlib oracle: the code's decompressor is the specification's and returns bytes; inflate undoes the compressor *)
  (forall x n y, z_inflate e x n = Ok y -> inflate x = Some y /\ bytes_ok y) ->
  (forall d s, inflate (z_deflate e d s) = Some s) ->
  (* side conditions on the parsed image (address space; colour key within the sample range, palette of at most 256 bytes-valued entries) *)
  (forall p, from_slice e bytes o = Ok p ->
     spec_raw_size (width (hdr (raw p))) (height (hdr (raw p))) (bpp (hdr (raw p))) (interlaced (hdr (raw p))) true <= usize_max /\
     wf_ctype (ctype (hdr (raw p))) (depth (hdr (raw p)))) ->
  optimize_from_memory e o bytes = Ok out ->
  out = bytes \/ exists p', out = output p' /\ (container_ok p' -> spec_decode_png inflate (output p') = Some pic).
Proof.
  intros Ha Hs Hok Hparse Hdec H1 H2 H3 Hz Hzd Hside H. unfold optimize_from_memory in H.
  destruct (from_slice e bytes o) as [p|?|?] eqn:Ep; cbn [bind] in H; try discriminate.
  destruct (optimize_png e p o) as [o1|?|?] eqn:Eo; cbn [bind] in H; try discriminate.
  destruct (is_fully_optimized _ _ o); injection H as <-; [left; reflexivity|right].
  destruct (Hside p eq_refl) as [Hu Hw].
  destruct (from_slice_means e o inflate bytes p pic nm ih rest Hok Ep Hparse Hdec H1 H2 H3 Hz Hu Hw) as (Hwf & Hsem & Hstream).
  eapply (optimize_png_lossless_partial e o inflate p); eauto. split; assumption.
Qed.

(* ---------------------------------------------------------------- the same with alpha optimisation allowed (C03) *)
From OxiVerif Require Import Proofs.LiftAlpha.

Theorem optimize_png_alpha_partial e o (inflate : list Z -> option (list Z)) p out pic :
  scale_16 o = false -> means pic (raw p) ->
  (forall d s, inflate (z_deflate e d s) = Some s) ->
  (exists stream, inflate (idat_data p) = Some stream /\
     spec_decode_stream (width (hdr (raw p))) (height (hdr (raw p))) (spec_color_of (ctype (hdr (raw p)))) (depth (hdr (raw p)))
                        (interlaced (hdr (raw p))) stream = Some pic) ->
  optimize_png e p o = Ok out ->
  exists p', out = output p' /\
    (container_ok p' -> exists pic', spec_decode_png inflate (output p') = Some pic' /\ pic_aequiv pic pic').
Proof.
  intros Hs Hm Hz (stream & Hinf & Hdec) H. unfold optimize_png in H.
  destruct (preprocess_keeps_lossy e (aux_chunks p) o) as [Ea Es].
  destruct (preprocess_chunks e (aux_chunks p) o) as [aux o'] eqn:Epre. cbn [snd] in Ea, Es. cbn [raw idat_data aux_chunks frames] in H.
  destruct (optimize_raw e o' (raw p) _) as [r|?|?] eqn:Er; cbn [bind] in H; try discriminate.
  destruct r as [c|].
  - match type of H with bind (bind ?X _) _ = _ => destruct X as [fr|?|?] eqn:Efr end; cbn [bind] in H; try discriminate.
    injection H as <-. eexists. split; [reflexivity|]. intros (C1 & C2 & C3 & C4 & C5).
    assert (Ham : ameans pic (raw p)) by (exists pic; split; [exact Hm|apply pic_aequiv_refl]).
    destruct (emitted_stream_alpha_partial e o' (raw p) _ c pic ltac:(congruence) Ham Er) as (d & st & pic' & Ed & Hd & Hq).
    exists pic'. split; [|exact Hq].
    rewrite (output_decodes inflate _ C1 C2 C3 C4 C5). cbn [raw idat_data]. rewrite Ed, Hz. exact Hd.
  - cbn [bind] in H. injection H as <-. eexists. split; [reflexivity|]. intros (C1 & C2 & C3 & C4 & C5).
    exists pic. split; [|apply pic_aequiv_refl].
    rewrite (output_decodes inflate _ C1 C2 C3 C4 C5). cbn [raw idat_data]. rewrite Hinf. exact Hdec.
Qed.

Theorem optimize_from_memory_alpha_partial e o (inflate : list Z -> option (list Z)) bytes out pic nm ih rest :
  scale_16 o = false ->
  bytes_ok bytes ->
  spec_parse_png bytes = Some ((nm, ih) :: rest) ->
  spec_decode_chunks inflate ((nm, ih) :: rest) = Some pic ->
  List.filter (named spec_IHDR) rest = [] ->
  (length (List.filter (named spec_PLTE) rest) <= 1)%nat -> (length (List.filter (named spec_tRNS) rest) <= 1)%nat ->
  (forall x n y, z_inflate e x n = Ok y -> inflate x = Some y /\ bytes_ok y) ->
  (forall d s, inflate (z_deflate e d s) = Some s) ->
  (forall p, from_slice e bytes o = Ok p ->
     spec_raw_size (width (hdr (raw p))) (height (hdr (raw p))) (bpp (hdr (raw p))) (interlaced (hdr (raw p))) true <= usize_max /\
     wf_ctype (ctype (hdr (raw p))) (depth (hdr (raw p)))) ->
  optimize_from_memory e o bytes = Ok out ->
  out = bytes \/ exists p', out = output p' /\
    (container_ok p' -> exists pic', spec_decode_png inflate (output p') = Some pic' /\ pic_aequiv pic pic').
Proof.
  intros Hs Hok Hparse Hdec H1 H2 H3 Hz Hzd Hside H. unfold optimize_from_memory in H.
  destruct (from_slice e bytes o) as [p|?|?] eqn:Ep; cbn [bind] in H; try discriminate.
  destruct (optimize_png e p o) as [o1|?|?] eqn:Eo; cbn [bind] in H; try discriminate.
  destruct (is_fully_optimized _ _ o); injection H as <-; [left; reflexivity|right].
  destruct (Hside p eq_refl) as [Hu Hw].
  destruct (from_slice_means e o inflate bytes p pic nm ih rest Hok Ep Hparse Hdec H1 H2 H3 Hz Hu Hw) as (Hwf & Hsem & Hstream).
  eapply (optimize_png_alpha_partial e o inflate p); eauto. split; assumption.
Qed.

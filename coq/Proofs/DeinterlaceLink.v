From OxiVerif Require Import Base.Common Spec.Adam7 Model.Types Model.ScanLines Model.Interlace Proofs.InterlaceProofs Proofs.Adam7RoundTrip.
From OxiVerif Require Import Proofs.DeinterlaceCore Proofs.DeinterlaceStep.
Local Open Scope Z_scope.

Section Link.
Context {A : Type}.
Variable blank : A.
Variables w h : Z.
Variable limit : bool.
Hypothesis Hw : 1 <= w.
Hypothesis Hh : 1 <= h.
Variable blk : Z -> list (list A).
Hypothesis Hblk : forall p, In p passes7 -> active w h p ->
  length (blk p) = Z.to_nat (ph h p) /\ Forall (line_ok w limit p) (blk p).
Hypothesis Hblk0 : forall p, In p passes7 -> ~ active w h p -> blk p = [].

(* the model's result is the specification's de-interlacing of the same pass lines *)
Theorem model_deinterlace_is_spec :
  exists G, model_deinterlace blank w h limit (flat_map blk passes7) = Ok G /\
    spec_deinterlace w h (map (fun p => map (eff w limit p) (blk p)) passes7) = Some G /\
    length G = Z.to_nat h /\ Forall (fun r => length r = Z.to_nat w) G.
Proof.
  destruct (model_deinterlace_cells blank w h limit Hw Hh blk Hblk Hblk0) as (G & E & L & F & C).
  exists G. split; [exact E|]. split; [|split; assumption].
  set (passes := map (fun p => map (eff w limit p) (blk p)) passes7).
  assert (Hpix : forall x y, 0 <= x < w -> 0 <= y < h -> spec_pixel_at passes x y = cell G x y).
  { intros x y Hx Hy. rewrite (C x y Hx Hy). unfold spec_pixel_at, src. cbv zeta.
    destruct (pass_of_range x y) as (Hq & Hrow & Hcol). set (q := pass_of x y) in *.
    pose proof (in_range_active w h Hw Hh blk x y Hx Hy) as Hact. fold q in Hact.
    pose proof (jy_bounds w h Hw Hh blk x y Hx Hy) as Hjy. cbv zeta in Hjy. fold q in Hjy.
    destruct (Hblk q Hq Hact) as [Hbl Hbf].
    unfold passes. rewrite (nth_error_passes (fun p => map (eff w limit p) (blk p)) q Hq).
    rewrite nth_error_map.
    assert (Hjl : (Z.to_nat ((y - y0 q) / dy q) < length (blk q))%nat) by (rewrite Hbl; clear -Hjy; lia).
    rewrite (nth_error_nth' (blk q) [] Hjl). cbn [option_map].
    apply nth_error_nth'.
    assert (Hlk : line_ok w limit q (nth (Z.to_nat ((y - y0 q) / dy q)) (blk q) [])) by (rewrite Forall_forall in Hbf; apply Hbf; apply nth_In; exact Hjl).
    rewrite (eff_length w limit blk q _ Hlk).
    destruct (pass_consts q Hq) as (Hdx & Hx0 & _ & _).
    unfold col_in in Hcol. apply Z.eqb_eq in Hcol.
    destruct (mod_decomp (dx q) (x0 q) x Hdx Hx0 ltac:(clear -Hx; lia) Hcol) as (G0 & _ & G2).
    assert (Hlt : (x - x0 q) / dx q < pw w q) by (rewrite (pw_active w h blk q Hact); apply idx_lt; [exact Hdx|clear -Hx G2; lia]). clear -Hlt G0. lia. }
  unfold spec_deinterlace.
  assert (Hrows : forall y : nat, (y < Z.to_nat h)%nat ->
    all_some (map (fun x => spec_pixel_at passes (Z.of_nat x) (Z.of_nat y)) (seq 0 (Z.to_nat w))) = nth_error G y).
  { intros y Hy. destruct (nth_error G y) as [r|] eqn:Er; [|apply nth_error_None in Er; lia].
    assert (Hrl : length r = Z.to_nat w) by (rewrite Forall_forall in F; apply F; eapply nth_error_In; eauto).
    rewrite <- Hrl. rewrite <- (all_some_nth_error r). f_equal. apply map_ext_in. intros x Hx. apply in_seq in Hx.
    rewrite Hpix by lia. unfold cell. rewrite Nat2Z.id, Er, Nat2Z.id. reflexivity. }
  rewrite <- L. rewrite <- (all_some_nth_error G). f_equal. apply map_ext_in. intros y Hy. apply in_seq in Hy. apply Hrows. lia.
Qed.
End Link.

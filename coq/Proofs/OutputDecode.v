(* The bytes written by PngData::output, decoded by the SPECIFICATION's whole-file decoder (Spec/DecodeFile.v): strict container
   parse, IHDR fields, colour interpretation from PLTE/tRNS, the IDAT payload inflated, reconstruction and meaning of the stream.
   Result: they decode to whatever the specification makes of the inflated IDAT content under the header of the written image. *)
From OxiVerif Require Import Base.Common Base.Crc32 Spec.Filter Spec.Adam7 Spec.Sem Spec.Decode Spec.DecodeFile
  Model.Types Model.Options Model.Headers Model.PngData Proofs.Bridge Proofs.LiftColor Proofs.OutputProofs.
Local Open Scope Z_scope.

Lemma find_app {A} (f : A -> bool) l1 l2 : find f (l1 ++ l2) = match find f l1 with Some x => Some x | None => find f l2 end.
Proof. induction l1 as [|a t IH]; cbn [app find]; [reflexivity|]. destruct (f a); [reflexivity|exact IH]. Qed.

Lemma find_none_forall {A} (f : A -> bool) l : Forall (fun x => f x = false) l -> find f l = None.
Proof. induction 1 as [|a t Ha _ IH]; cbn [find]; [reflexivity|]. rewrite Ha. exact IH. Qed.

Lemma filter_none_forall {A} (f : A -> bool) l : Forall (fun x => f x = false) l -> List.filter f l = [].
Proof. induction 1 as [|a t Ha _ IH]; cbn [List.filter]; [reflexivity|]. rewrite Ha. exact IH. Qed.

(* ---------------------------------------------------------------- the key chunks encode the colour interpretation *)
Lemma triples_flat (pal : list rgba8) :
  triples (flat_map (fun c : rgba8 => let '(r, g, b, _) := c in [r; g; b]) pal) = map (fun c : rgba8 => let '(r, g, b, _) := c in (r, g, b)) pal.
Proof. induction pal as [|[[[r g] b] a] t IH]; cbn [flat_map map triples app]; [reflexivity|]. rewrite IH. reflexivity. Qed.

Lemma rposition_alpha_spec (pal : list rgba8) : forall i last,
  match rposition_alpha pal i last with
  | Some k => (exists j, (j < length pal)%nat /\ k = i + Z.of_nat j /\
                         Forall (fun c : rgba8 => let '(_, _, _, a) := c in a = 255) (skipn (S j) pal)) \/
              (last = Some k /\ Forall (fun c : rgba8 => let '(_, _, _, a) := c in a = 255) pal)
  | None => last = None /\ Forall (fun c : rgba8 => let '(_, _, _, a) := c in a = 255) pal
  end.
Proof.
  induction pal as [|[[[r g] b] a] t IH]; intros i last; cbn [rposition_alpha].
  - destruct last as [k|]; [right|]; split; auto.
  - specialize (IH (i + 1) (if a =? 255 then last else Some i)).
    destruct (rposition_alpha t (i + 1) (if a =? 255 then last else Some i)) as [k|].
    + destruct IH as [(j & Hj & Hk & HF)|[Hl HF]].
      * left. exists (S j). split; [cbn; lia|]. split; [lia|exact HF].
      * destruct (Z.eqb_spec a 255) as [->|Hne].
        -- right. split; [exact Hl|constructor; auto].
        -- injection Hl as <-. left. exists 0%nat. split; [cbn; lia|]. split; [lia|exact HF].
    + destruct IH as [Hl HF]. destruct (Z.eqb_spec a 255) as [->|Hne]; [|discriminate]. split; [exact Hl|constructor; auto].
Qed.

Lemma with_alpha_opaque (pal : list rgba8) : Forall (fun c : rgba8 => let '(_, _, _, a) := c in a = 255) pal ->
  with_alpha (map (fun c : rgba8 => let '(r, g, b, _) := c in (r, g, b)) pal) [] = pal.
Proof. induction 1 as [|[[[r g] b] a] t Ha _ IH]; cbn [map with_alpha]; [reflexivity|]. rewrite IH, Ha. reflexivity. Qed.

Lemma with_alpha_prefix (pal : list rgba8) : forall n, Forall (fun c : rgba8 => let '(_, _, _, a) := c in a = 255) (skipn n pal) ->
  with_alpha (map (fun c : rgba8 => let '(r, g, b, _) := c in (r, g, b)) pal) (map (fun c : rgba8 => let '(_, _, _, a) := c in a) (firstn n pal)) = pal.
Proof.
  induction pal as [|[[[r g] b] a] t IH]; intros n H; [destruct n; reflexivity|].
  destruct n as [|n].
  - cbn [firstn map]. apply (with_alpha_opaque ((r, g, b, a) :: t)). exact H.
  - cbn [firstn map with_alpha skipn] in *. rewrite IH by exact H. reflexivity.
Qed.

Lemma be16s_to_be16 t : 0 <= t < 65536 -> to_be16 t = [t / 256; t mod 256] /\ (t / 256) * 256 + t mod 256 = t.
Proof. intros H. unfold to_be16. split; [f_equal; apply Z.mod_small; lia|lia]. Qed.

(* well-formed for writing: what the header fields and the key must satisfy to be encodable (true of every image oxipng holds) *)
Definition writable (hd : ihdr) : Prop :=
  0 <= width hd < 2 ^ 32 /\ 0 <= height hd < 2 ^ 32 /\
  match ctype hd with
  | Gray (Some k) => 0 <= k < 65536
  | RGB (Some (r, g, b)) => 0 <= r < 65536 /\ 0 <= g < 65536 /\ 0 <= b < 65536
  | _ => True
  end.

Definition not_key (c : cname * list Z) : Prop := named spec_PLTE c = false /\ named spec_tRNS c = false /\ named spec_IDAT c = false.

Lemma color_of_key_chunks hd rest : writable hd -> Forall not_key rest ->
  forall pre, Forall not_key pre ->
  spec_color_of_chunks (png_header_code (ctype hd)) (pre ++ key_chunks hd ++ rest) = Some (spec_color_of (ctype hd)).
Proof.
  intros (_ & _ & Hk) Hrest pre Hpre. unfold spec_color_of_chunks.
  assert (NP : forall l, Forall not_key l -> find (named spec_PLTE) l = None) by (intros l Hl; apply find_none_forall; eapply Forall_impl; [|exact Hl]; intros c Hc; apply Hc).
  assert (NT : forall l, Forall not_key l -> find (named spec_tRNS) l = None) by (intros l Hl; apply find_none_forall; eapply Forall_impl; [|exact Hl]; intros c Hc; apply Hc).
  rewrite !find_app, (NP pre Hpre), (NT pre Hpre), (NP rest Hrest), (NT rest Hrest).
  assert (T1 : forall d : list Z, named spec_tRNS (name_tRNS, d) = true) by reflexivity.
  assert (T2 : forall d : list Z, named spec_PLTE (name_tRNS, d) = false) by reflexivity.
  assert (T3 : forall d : list Z, named spec_PLTE (name_PLTE, d) = true) by reflexivity.
  assert (T4 : forall d : list Z, named spec_tRNS (name_PLTE, d) = false) by reflexivity.
  unfold key_chunks. destruct (ctype hd) as [[k|]|[[[r g] b]|]|pal| |]; cbn [png_header_code spec_color_of find]; rewrite ?T1, ?T2, ?T3, ?T4; cbn [find].
  - destruct (be16s_to_be16 k Hk) as [E1 E2]. rewrite E1. cbn [be16s]. rewrite E2. reflexivity.
  - reflexivity.
  - destruct Hk as (Hr & Hg & Hb). destruct (be16s_to_be16 r Hr) as [R1 R2]. destruct (be16s_to_be16 g Hg) as [G1 G2]. destruct (be16s_to_be16 b Hb) as [B1 B2].
    rewrite R1, G1, B1. cbn [app be16s]. rewrite R2, G2, B2. reflexivity.
  - reflexivity.
  - pose proof (rposition_alpha_spec pal 0 None) as RS.
    destruct (rposition_alpha pal 0 None) as [last|]; cbn [find app]; rewrite ?T1, ?T2, ?T3, ?T4; cbn [find].
    + rewrite triples_flat. destruct RS as [(j & Hj & Hk2 & HF)|[Hl _]]; [|discriminate].
      rewrite Hk2, Z.add_0_l. replace (Z.to_nat (Z.of_nat j + 1)) with (S j) by lia. rewrite with_alpha_prefix by exact HF. reflexivity.
    + rewrite triples_flat. destruct RS as [_ HF]. rewrite with_alpha_opaque by exact HF. reflexivity.
  - reflexivity.
  - reflexivity.
Qed.

(* ---------------------------------------------------------------- the whole file *)
(* the ancillary part of what `output` writes: everything except IHDR, the key chunks, the IDAT it writes itself and IEND *)
Definition aux_written (p : pngdata) : list (cname * list Z) :=
  let parts := split_idat (aux_chunks p) [] in
  let aux_pre := match parts with x :: _ => x | [] => [] end in
  map as_pair (List.filter (fun c => negb (after_plte c)) aux_pre) ++ map as_pair (List.filter (write_special (hdr (raw p))) aux_pre)
  ++ output_post p.

Theorem output_decodes (inflate : list Z -> option (list Z)) (p : pngdata) :
  Forall chunk_wf (output_body p) -> Forall not_iend (output_body p) ->
  writable (hdr (raw p)) -> 0 <= depth (hdr (raw p)) < 256 ->
  Forall not_key (aux_written p) ->
  spec_decode_png inflate (output p) =
  match inflate (idat_data p) with
  | Some stream => spec_decode_stream (width (hdr (raw p))) (height (hdr (raw p))) (spec_color_of (ctype (hdr (raw p))))
                                      (depth (hdr (raw p))) (interlaced (hdr (raw p))) stream
  | None => None
  end.
Proof.
  intros Hwf Hni Hwr Hd Haux. unfold spec_decode_png. rewrite (output_parses p Hwf Hni).
  destruct (output_structure p) as [Hs _]. rewrite Hs. unfold spec_decode_chunks.
  set (hd := hdr (raw p)) in *.
  assert (E0 : list_eqb Z.eqb name_IHDR spec_IHDR = true) by reflexivity. rewrite E0.
  destruct Hwr as (Hw & Hh & Hk).
  set (ih := to_be32 (width hd) ++ to_be32 (height hd) ++ [depth hd; png_header_code (ctype hd); 0; 0; if interlaced hd then 1 else 0]).
  assert (El : (length ih =? 13)%nat = true) by reflexivity. rewrite El. cbn [andb].
  assert (Ew : sbe32 ih = width hd) by (unfold ih; apply sbe32_to_be32; exact Hw).
  assert (Eh : sbe32 (skipn 4 ih) = height hd) by (unfold ih; cbn [to_be32 app skipn]; apply (sbe32_to_be32 (height hd)); exact Hh).
  assert (E8 : nth 8 ih 0 = depth hd) by reflexivity.
  assert (E9 : nth 9 ih 0 = png_header_code (ctype hd)) by reflexivity.
  assert (E10 : nth 10 ih 0 = 0) by reflexivity. assert (E11 : nth 11 ih 0 = 0) by reflexivity.
  assert (E12 : nth 12 ih 0 = if interlaced hd then 1 else 0) by reflexivity.
  rewrite Ew, Eh, E8, E9, E10, E11, E12. cbn [Z.eqb andb].
  assert (Eil : ((if interlaced hd then 1 else 0) =? 0) || ((if interlaced hd then 1 else 0) =? 1) = true) by (destruct (interlaced hd); reflexivity).
  rewrite Eil. assert (Eil2 : ((if interlaced hd then 1 else 0) =? 1) = interlaced hd) by (destruct (interlaced hd); reflexivity). rewrite Eil2.
  (* split what was written around the key chunks *)
  unfold aux_written in Haux. cbn zeta in Haux. apply Forall_app in Haux. destruct Haux as [HA Haux]. apply Forall_app in Haux. destruct Haux as [HS HP].
  unfold output_pre. cbn zeta. fold hd.
  set (A := map as_pair (List.filter (fun c => negb (after_plte c)) match split_idat (aux_chunks p) [] with x :: _ => x | [] => [] end)) in *.
  set (S := map as_pair (List.filter (write_special hd) match split_idat (aux_chunks p) [] with x :: _ => x | [] => [] end)) in *.
  assert (Hrest_nk : Forall not_key (S ++ output_post p)) by (apply Forall_app; split; assumption).
  (* colour interpretation *)
  assert (Ecol : spec_color_of_chunks (png_header_code (ctype hd))
                   ((A ++ key_chunks hd ++ S) ++ [(name_IDAT, idat_data p)] ++ output_post p ++ [(name_IEND, [])]) = Some (spec_color_of (ctype hd))).
  { unfold spec_color_of_chunks.
    pose proof (color_of_key_chunks hd (S ++ output_post p) (conj Hw (conj Hh Hk)) Hrest_nk A HA) as C. unfold spec_color_of_chunks in C.
    assert (FP : find (named spec_PLTE) ((A ++ key_chunks hd ++ S) ++ [(name_IDAT, idat_data p)] ++ output_post p ++ [(name_IEND, [])])
                 = find (named spec_PLTE) (A ++ key_chunks hd ++ S ++ output_post p)).
    { rewrite !find_app. destruct (find (named spec_PLTE) A); [reflexivity|]. destruct (find (named spec_PLTE) (key_chunks hd)); [reflexivity|].
      destruct (find (named spec_PLTE) S); [reflexivity|]. cbn [find named fst list_eqb Z.eqb andb].
      destruct (find (named spec_PLTE) (output_post p)); reflexivity. }
    assert (FT : find (named spec_tRNS) ((A ++ key_chunks hd ++ S) ++ [(name_IDAT, idat_data p)] ++ output_post p ++ [(name_IEND, [])])
                 = find (named spec_tRNS) (A ++ key_chunks hd ++ S ++ output_post p)).
    { rewrite !find_app. destruct (find (named spec_tRNS) A); [reflexivity|]. destruct (find (named spec_tRNS) (key_chunks hd)); [reflexivity|].
      destruct (find (named spec_tRNS) S); [reflexivity|]. cbn [find named fst list_eqb Z.eqb andb].
      destruct (find (named spec_tRNS) (output_post p)); reflexivity. }
    rewrite FP, FT. exact C. }
  rewrite Ecol.
  (* the IDAT payload *)
  assert (Eidat : List.filter (named spec_IDAT) ((A ++ key_chunks hd ++ S) ++ [(name_IDAT, idat_data p)] ++ output_post p ++ [(name_IEND, [])])
                  = [(name_IDAT, idat_data p)]).
  { assert (NI : forall l, Forall not_key l -> List.filter (named spec_IDAT) l = []) by (intros l Hl; apply filter_none_forall; eapply Forall_impl; [|exact Hl]; intros c Hc; apply Hc).
    assert (NK : List.filter (named spec_IDAT) (key_chunks hd) = []).
    { unfold key_chunks. destruct (ctype hd) as [[k|]|[[[r g] b]|]|pal| |]; try reflexivity. destruct (rposition_alpha pal 0 None); reflexivity. }
    rewrite <- !app_assoc. rewrite !filter_app. unfold cname in *. rewrite (NI A HA), NK, (NI S HS), (NI (output_post p) HP). reflexivity. }
  rewrite Eidat. cbn [flat_map snd app]. rewrite app_nil_r. reflexivity.
Qed.

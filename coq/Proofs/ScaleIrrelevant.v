(* C15, last clause: images that are not 16-bit are treated exactly as without the switch - the whole optimisation is the same
   function of the input whatever scale_16 says. *)
From OxiVerif Require Import Base.Common Model.Types Model.Options Model.Headers Model.ScanLines Model.Interlace Model.BitDepth Model.Color
  Model.Palette Model.PngData Model.Evaluate Model.Reductions Model.Optimize Proofs.EffectProofs.
Local Open Scope Z_scope.

Definition set_scale_16 (o : options) (b : bool) : options :=
  {| fix_errors := fix_errors o; force := force o; filter := filter o; interlace := interlace o; optimize_alpha := optimize_alpha o;
     bit_depth_reduction := bit_depth_reduction o; color_type_reduction := color_type_reduction o; palette_reduction := palette_reduction o;
     grayscale_reduction := grayscale_reduction o; idat_recoding := idat_recoding o; scale_16 := b;
     strip := strip o; deflate := deflate o; fast_evaluation := fast_evaluation o; has_timeout := has_timeout o |}.

Lemma reduced_16_none img fs : depth (hdr img) <> 16 -> reduced_bit_depth_16_to_8 img fs = None.
Proof. intros H. unfold reduced_bit_depth_16_to_8. destruct (Z.eqb_spec (depth (hdr img)) 16); [contradiction|reflexivity]. Qed.

Theorem perform_reductions_scale_irrelevant e o img b : depth (hdr img) <> 16 ->
  perform_reductions e (set_scale_16 o b) img = perform_reductions e o img.
Proof.
  intros Hd. unfold perform_reductions.
  change (s_interlace (set_scale_16 o b) img) with (s_interlace o img).
  destruct (s_interlace o img) as [st0|?|?] eqn:E0; cbn [bind]; try reflexivity.
  assert (D0 : depth (hdr (r_png st0)) <> 16).
  { unfold s_interlace in E0. destruct (interlace o) as [il|]; cbn [bind] in E0.
    - destruct (change_interlacing img il) as [[r|]|?|?] eqn:Ec; cbn [bind] in E0; try discriminate; injection E0 as <-; cbn [r_png]; auto.
      destruct (eff_interlace _ _ _ Ec) as (_ & _ & _ & D & _). congruence.
    - injection E0 as <-. exact Hd. }
  unfold reduction_steps. cbn [run_steps].
  change (s_clean_alpha e (set_scale_16 o b) st0) with (s_clean_alpha e o st0).
  destruct (s_clean_alpha e o st0) as [st1|?|?] eqn:E1; cbn [bind]; try reflexivity.
  assert (D1 : depth (hdr (r_png st1)) <> 16).
  { unfold s_clean_alpha, guard in E1. destruct (optimize_alpha o); [|injection E1 as <-; exact D0].
    injection E1 as <-. destruct (negb (dl e SCleanAlpha)); cbn [r_png log_site]; [|exact D0].
    destruct (cleaned_alpha_channel (r_png st0)) as [x|] eqn:Ex; cbn [r_png set_png log_site]; [|exact D0].
    rewrite (eff_clean _ _ Ex). exact D0. }
  assert (E2 : s_16_to_8 e (set_scale_16 o b) st1 = s_16_to_8 e o st1).
  { unfold s_16_to_8, guard. change (bit_depth_reduction (set_scale_16 o b)) with (bit_depth_reduction o).
    destruct (bit_depth_reduction o); [|reflexivity]. cbn [r_png log_site]. rewrite !reduced_16_none by exact D1. reflexivity. }
  rewrite E2. reflexivity.
Qed.

Theorem optimize_raw_scale_irrelevant e o img ms b : depth (hdr img) <> 16 ->
  optimize_raw e (set_scale_16 o b) img ms = optimize_raw e o img ms.
Proof. intros Hd. unfold optimize_raw. rewrite perform_reductions_scale_irrelevant by exact Hd. reflexivity. Qed.

Lemma preprocess_set_scale e aux o b :
  preprocess_chunks e aux (set_scale_16 o b) = (fst (preprocess_chunks e aux o), set_scale_16 (snd (preprocess_chunks e aux o)) b).
Proof.
  unfold preprocess_chunks.
  change (strip (set_scale_16 o b)) with (strip o). change (idat_recoding (set_scale_16 o b)) with (idat_recoding o).
  change (deflate (set_scale_16 o b)) with (deflate o). change (grayscale_reduction (set_scale_16 o b)) with (grayscale_reduction o).
  repeat match goal with
  | |- context [let '(a, b) := ?x in _] => destruct x
  | |- context [match ?x with _ => _ end] => destruct x
  end; reflexivity.
Qed.

Lemma recompress_frames_go_set_scale e o b hd f fs : forall i,
  recompress_frames_go e (set_scale_16 o b) hd f i fs = recompress_frames_go e o hd f i fs.
Proof.
  induction fs as [|fr t IH]; intros i; cbn [recompress_frames_go]; [reflexivity|]. rewrite IH. reflexivity.
Qed.

Lemma recompress_frames_set_scale e o b p f : recompress_frames e (set_scale_16 o b) p f = recompress_frames e o p f.
Proof.
  unfold recompress_frames. change (idat_recoding (set_scale_16 o b)) with (idat_recoding o).
  destruct (negb (idat_recoding o)); [reflexivity|]. destruct (frames p); [reflexivity|]. apply recompress_frames_go_set_scale.
Qed.

Theorem optimize_png_scale_irrelevant e p o b : depth (hdr (raw p)) <> 16 ->
  optimize_png e p (set_scale_16 o b) = optimize_png e p o.
Proof.
  intros Hd. unfold optimize_png. rewrite preprocess_set_scale.
  destruct (preprocess_chunks e (aux_chunks p) o) as [aux o']. cbn [fst snd raw idat_data aux_chunks frames].
  change (force (set_scale_16 o' b)) with (force o').
  rewrite optimize_raw_scale_irrelevant by exact Hd.
  destruct (optimize_raw e o' (raw p) _) as [[c|]|?|?]; cbn [bind]; try reflexivity.
  rewrite recompress_frames_set_scale. reflexivity.
Qed.

Lemma from_slice_loop_set_scale o b : forall fuel rest st,
  from_slice_loop fuel (set_scale_16 o b) rest st = from_slice_loop fuel o rest st.
Proof.
  induction fuel as [|f IH]; intros rest st; cbn [from_slice_loop]; [reflexivity|].
  change (fix_errors (set_scale_16 o b)) with (fix_errors o).
  destruct (parse_next_chunk rest (fix_errors o)) as [[[c rest']|]|?|?]; cbn [bind]; try reflexivity.
  change (from_slice_step (set_scale_16 o b) st c) with (from_slice_step o st c).
  destruct (from_slice_step o st c); cbn [bind]; try reflexivity. apply IH.
Qed.

Lemma from_slice_set_scale e bytes o b : from_slice e bytes (set_scale_16 o b) = from_slice e bytes o.
Proof. unfold from_slice. rewrite from_slice_loop_set_scale. reflexivity. Qed.

Theorem optimize_from_memory_scale_irrelevant e o bytes b :
  (forall p, from_slice e bytes o = Ok p -> depth (hdr (raw p)) <> 16) ->
  optimize_from_memory e (set_scale_16 o b) bytes = optimize_from_memory e o bytes.
Proof.
  intros Hd. unfold optimize_from_memory.
  rewrite from_slice_set_scale.
  destruct (from_slice e bytes o) as [p|?|?] eqn:Ep; cbn [bind]; try reflexivity.
  rewrite optimize_png_scale_irrelevant by (apply Hd; reflexivity). reflexivity.
Qed.

(* mzeng_reindex lists every used palette index (when at least two are used): the co-occurrence graph of the used indices is connected
   (consecutive pixels in scan order), the first edge joins two used indices, and an index whose accumulated sum is positive is always
   preferred to the phantom choice (index 0) that the code makes when all sums are zero. *)
From OxiVerif Require Import Base.Common Model.Types Model.ScanLines Model.Palette.
From OxiVerif Require Import Proofs.CoocMatrix.
Require Import Sorted.
Local Open Scope Z_scope.

(* ---------------------------------------------------------------- connectivity of a sequence *)
Lemma seq_connect (PA PB : Z -> Prop) : (forall v, PA v -> PB v -> False) -> forall vs,
  (forall v, In v vs -> PA v \/ PB v) -> (exists a, In a vs /\ PA a) -> (exists b, In b vs /\ PB b) ->
  exists x y, adjacent x y vs /\ ((PA x /\ PB y) \/ (PB x /\ PA y)).
Proof.
  intros Hdis. induction vs as [|v t IH]; intros Hall [a [Ia Pa]] [b [Ib Pb]]; [destruct Ia|].
  destruct t as [|w t'].
  - destruct Ia as [<-|[]]. destruct Ib as [<-|[]]. exfalso. eauto.
  - assert (Hv : PA v \/ PB v) by (apply Hall; left; reflexivity).
    assert (Hw : PA w \/ PB w) by (apply Hall; right; left; reflexivity).
    assert (Hadj0 : adjacent v w (v :: w :: t')) by (exists [], t'; reflexivity).
    assert (Hlift : forall x y, adjacent x y (w :: t') -> adjacent x y (v :: w :: t')).
    { intros x y (l1 & l2 & E). exists (v :: l1), l2. rewrite E. reflexivity. }
    destruct Hv as [Hv|Hv], Hw as [Hw|Hw].
    + (* both A: a B-element lies in the tail *)
      destruct (IH ltac:(intros u Hu; apply Hall; right; exact Hu)) as (x & y & Hxy & C).
      * exists w. split; [left; reflexivity|exact Hw].
      * destruct Ib as [<-|Ib]; [exfalso; eauto|]. exists b. split; assumption.
      * exists x, y. split; [apply Hlift; exact Hxy|exact C].
    + exists v, w. split; [exact Hadj0|left; split; assumption].
    + exists v, w. split; [exact Hadj0|right; split; assumption].
    + destruct (IH ltac:(intros u Hu; apply Hall; right; exact Hu)) as (x & y & Hxy & C).
      * destruct Ia as [<-|Ia]; [exfalso; eauto|]. exists a. split; assumption.
      * exists w. split; [left; reflexivity|exact Hw].
      * exists x, y. split; [apply Hlift; exact Hxy|exact C].
Qed.

(* ---------------------------------------------------------------- the stable insertion sort puts a minimal key first *)
Section Sort.
Context {A : Type}.
Variable key : A -> Z.

Lemma insert_sorted_in x l y : In y (insert_sorted key x l) <-> y = x \/ In y l.
Proof.
  induction l as [|a t IH]; cbn [insert_sorted]; [cbn; intuition|].
  destruct (key x <=? key a); cbn [In]; [intuition|]. rewrite IH. intuition.
Qed.

Lemma stable_sort_in l y : In y (stable_sort key l) <-> In y l.
Proof.
  unfold stable_sort. induction l as [|a t IH]; cbn [fold_right]; [tauto|]. rewrite insert_sorted_in, IH. cbn. intuition.
Qed.

Definition head_min (l : list A) : Prop := match l with [] => True | h :: t => forall x, In x t -> key h <= key x end.

Lemma insert_sorted_sorted x l : StronglySorted (fun a b => key a <= key b) l -> StronglySorted (fun a b => key a <= key b) (insert_sorted key x l).
Proof.
  induction 1 as [|a t Ht IH Ha]; cbn [insert_sorted]; [constructor; constructor|].
  destruct (Z.leb_spec (key x) (key a)).
  - constructor; [constructor; assumption|]. constructor; [assumption|]. rewrite Forall_forall in *. intros y Hy. specialize (Ha y Hy). lia.
  - constructor; [exact IH|]. apply Forall_forall. intros y Hy. apply insert_sorted_in in Hy. destruct Hy as [->|Hy]; [lia|]. rewrite Forall_forall in Ha. apply Ha. exact Hy.
Qed.

Lemma stable_sort_sorted l : StronglySorted (fun a b => key a <= key b) (stable_sort key l).
Proof. unfold stable_sort. induction l as [|a t IH]; cbn [fold_right]; [constructor|apply insert_sorted_sorted; exact IH]. Qed.

Lemma stable_sort_head l h t : stable_sort key l = h :: t -> In h l /\ forall x, In x l -> key h <= key x.
Proof.
  intros E. pose proof (stable_sort_sorted l) as S. rewrite E in S. split.
  - apply stable_sort_in. rewrite E. left. reflexivity.
  - intros x Hx. apply stable_sort_in in Hx. rewrite E in Hx. destruct Hx as [<-|Hx]; [lia|].
    inversion S as [|? ? _ Hf]; subst. rewrite Forall_forall in Hf. apply Hf. exact Hx.
Qed.
End Sort.

(* ---------------------------------------------------------------- weighted_edges *)
Lemma weighted_edges_head m e0 e1 rest : weighted_edges m = (e0, e1) :: rest ->
  0 <= e0 < e1 /\ e1 < lenZ m /\ forall j i, 0 <= j < i -> i < lenZ m -> mget m i j <= mget m e1 e0.
Proof.
  unfold weighted_edges. intros E.
  set (es := flat_map (fun i => map (fun j => ((Z.of_nat j, Z.of_nat i), mget m (Z.of_nat i) (Z.of_nat j))) (seq 0 i)) (seq 0 (length m))) in *.
  destruct (stable_sort (fun e : Z * Z * Z => - snd e) es) as [|[[a b] w] t] eqn:Es; [discriminate|].
  cbn [map fst] in E. injection E as -> -> _.
  destruct (stable_sort_head _ es _ _ Es) as [Hin Hmin].
  assert (Hes : forall j i w', In ((j, i), w') es <-> exists jn inn, j = Z.of_nat jn /\ i = Z.of_nat inn /\ (jn < inn < length m)%nat /\ w' = mget m i j).
  { intros j i w'. unfold es. rewrite in_flat_map. split.
    - intros (inn & Hi & Hj). apply in_seq in Hi. apply in_map_iff in Hj. destruct Hj as (jn & Ej & Hjn). apply in_seq in Hjn.
      injection Ej as <- <- <-. exists jn, inn. repeat split; lia.
    - intros (jn & inn & -> & -> & H & ->). exists inn. split; [apply in_seq; lia|]. apply in_map_iff. exists jn. split; [reflexivity|apply in_seq; lia]. }
  apply Hes in Hin. destruct Hin as (jn & inn & -> & -> & H & ->). unfold lenZ. split; [lia|]. split; [lia|].
  intros j i Hj Hi. specialize (Hmin ((j, i), mget m i j)). cbn [snd] in Hmin.
  assert (In ((j, i), mget m i j) es).
  { apply Hes. exists (Z.to_nat j), (Z.to_nat i). repeat split; lia. }
  specialize (Hmin H0). lia.
Qed.

From OxiVerif Require Import Base.Common Model.Types Model.ScanLines Model.Palette Proofs.CoocMatrix.
From OxiVerif Require Import Proofs.BattiatoTable.
Local Open Scope Z_scope.

Definition same (vx : list (Z * Z)) (a b : Z) : Prop := 1 <= stt vx a /\ 1 <= stt vx b /\ chn vx a = chn vx b.

Record binv (n : nat) (s : bstate) (done : list (Z * Z)) : Prop := {
  b_len : length (b_vx s) = n;
  b_mem : forall (k : nat) v, (k < length (b_chains s))%nat ->
          (In v (nth k (b_chains s) []) <-> 0 <= v < Z.of_nat n /\ 1 <= stt (b_vx s) v /\ chn (b_vx s) v = Z.of_nat k);
  b_idx : forall v, 0 <= v < Z.of_nat n -> 1 <= stt (b_vx s) v -> 0 <= chn (b_vx s) v < lenZ (b_chains s);
  b_nodup : forall k, NoDup (nth k (b_chains s) []);
  b_reds : forall k, (k < length (b_chains s))%nat -> nth k (b_chains s) [] <> [] -> reds (b_vx s) (nth k (b_chains s) []) = 2%nat;
  b_st : forall v, 0 <= v < Z.of_nat n -> stt (b_vx s) v = 0 \/ stt (b_vx s) v = 1 \/ stt (b_vx s) v = 2;
  b_first : b_chains s <> [] -> nth 0 (b_chains s) [] <> [];
  b_hist : forall a b, In (a, b) done -> 0 <= a < Z.of_nat n /\ 0 <= b < Z.of_nat n /\
           (same (b_vx s) a b \/ stt (b_vx s) a = 2 \/ stt (b_vx s) b = 2)
}.

(* the history survives any update that keeps black black and chain-mates chain-mates *)
Lemma hist_mono n vx vx' done :
  (forall a b, In (a, b) done -> 0 <= a < Z.of_nat n /\ 0 <= b < Z.of_nat n /\ (same vx a b \/ stt vx a = 2 \/ stt vx b = 2)) ->
  (forall v, 0 <= v < Z.of_nat n -> stt vx v = 2 -> stt vx' v = 2) ->
  (forall a b, 0 <= a < Z.of_nat n -> 0 <= b < Z.of_nat n -> same vx a b -> same vx' a b) ->
  forall a b, In (a, b) done -> 0 <= a < Z.of_nat n /\ 0 <= b < Z.of_nat n /\ (same vx' a b \/ stt vx' a = 2 \/ stt vx' b = 2).
Proof.
  intros H Hb Hs a b Hin. destruct (H a b Hin) as (Ra & Rb & [S|[B|B]]); repeat split; try lia; auto.
Qed.

Lemma nth_app_last {A} (l : list A) x d : nth (length l) (l ++ [x]) d = x.
Proof. rewrite app_nth2, Nat.sub_diag by lia. reflexivity. Qed.

(* ---------------------------------------------------------------- case: both white *)
Lemma step_new_chain n s done i j : binv n s done -> 0 <= i < Z.of_nat n -> 0 <= j < Z.of_nat n -> i <> j ->
  stt (b_vx s) i = 0 -> stt (b_vx s) j = 0 ->
  binv n {| b_chains := b_chains s ++ [[i; j]];
            b_vx := vx_set (vx_set (b_vx s) i (1, lenZ (b_chains s))) j (1, lenZ (b_chains s)) |} ((i, j) :: done).
Proof.
  intros [L M X D R S F0 H] Hi Hj Hij Wi Wj. set (vx := b_vx s) in *. set (chains := b_chains s) in *. set (c := lenZ chains).
  set (vx' := vx_set (vx_set vx i (1, c)) j (1, c)).
  assert (L1 : length (vx_set vx i (1, c)) = n) by (rewrite vx_set_length; exact L).
  assert (Sj : stt vx' j = 1 /\ chn vx' j = c).
  { unfold vx'. rewrite stt_vx_set, chn_vx_set by lia. rewrite Z.eqb_refl. split; reflexivity. }
  assert (Si : stt vx' i = 1 /\ chn vx' i = c).
  { unfold vx'. rewrite stt_vx_set, chn_vx_set by lia. destruct (Z.eqb_spec i j); [contradiction|]. rewrite stt_vx_set, chn_vx_set by lia. rewrite Z.eqb_refl. split; reflexivity. }
  assert (So : forall v, 0 <= v -> v <> i -> v <> j -> stt vx' v = stt vx v /\ chn vx' v = chn vx v).
  { intros v Hv Ni Nj. unfold vx'. rewrite stt_vx_set, chn_vx_set by lia. destruct (Z.eqb_spec v j); [contradiction|]. rewrite stt_vx_set, chn_vx_set by lia.
    destruct (Z.eqb_spec v i); [contradiction|]. split; reflexivity. }
  destruct Sj as [Sj Cj]. destruct Si as [Si Ci].
  assert (Hlen : lenZ (chains ++ [[i; j]]) = c + 1) by (unfold c, lenZ; rewrite app_length; cbn [length]; lia).
  constructor; cbn [b_chains b_vx]; fold vx' chains.
  - unfold vx'. rewrite !vx_set_length. exact L.
  - intros k v Hk. rewrite app_length in Hk. cbn [length] in Hk.
    destruct (Nat.lt_ge_cases k (length chains)) as [Hlt|Hge].
    + rewrite app_nth1 by exact Hlt. rewrite (M k v Hlt). split.
      * intros (Rv & S1 & C1). assert (v <> i /\ v <> j) as [Ni Nj] by (split; intros ->; lia). destruct (So v ltac:(lia) Ni Nj) as [-> ->]. auto.
      * intros (Rv & S1 & C1). destruct (Z.eq_dec v j) as [->|Nj]; [rewrite Cj in C1; unfold c, lenZ in C1; lia|].
        destruct (Z.eq_dec v i) as [->|Ni]; [rewrite Ci in C1; unfold c, lenZ in C1; lia|]. destruct (So v ltac:(lia) Ni Nj) as [E1 E2]. rewrite E1, E2 in *. auto.
    + assert (k = length chains) by lia. subst k. rewrite nth_app_last. cbn [In]. fold c. split.
      * intros [<-|[<-|[]]]; [rewrite Si, Ci|rewrite Sj, Cj]; repeat split; try lia.
      * intros (Rv & S1 & C1). destruct (Z.eq_dec v j) as [->|Nj]; [right; left; reflexivity|].
        destruct (Z.eq_dec v i) as [->|Ni]; [left; reflexivity|]. destruct (So v ltac:(lia) Ni Nj) as [E1 E2]. rewrite E1, E2 in *.
        pose proof (X v Rv S1). unfold c, lenZ in *. lia.
  - intros v Rv S1. rewrite Hlen. destruct (Z.eq_dec v j) as [->|Nj]; [rewrite Cj; unfold c, lenZ; lia|].
    destruct (Z.eq_dec v i) as [->|Ni]; [rewrite Ci; unfold c, lenZ; lia|]. destruct (So v ltac:(lia) Ni Nj) as [E1 E2]. rewrite E1, E2 in *.
    pose proof (X v Rv S1). unfold c. lia.
  - intros k. destruct (Nat.lt_ge_cases k (length chains)) as [Hlt|Hge]; [rewrite app_nth1 by exact Hlt; apply D|].
    destruct (Nat.eq_dec k (length chains)) as [->|]; [rewrite nth_app_last; constructor; [intros [E|[]]; congruence|constructor; [intros []|constructor]]|].
    rewrite nth_overflow by (rewrite app_length; cbn; lia). constructor.
  - intros k Hk Hne. rewrite app_length in Hk. cbn [length] in Hk. destruct (Nat.lt_ge_cases k (length chains)) as [Hlt|Hge].
    + rewrite app_nth1 in * by exact Hlt. rewrite <- (R k Hlt Hne). apply reds_ext. intros v Hv. apply (M k v Hlt) in Hv. destruct Hv as (Rv & S1 & _).
      apply So; [lia| |]; intros ->; lia.
    + assert (k = length chains) by lia. subst k. rewrite nth_app_last. rewrite !reds_cons, Si, Sj. reflexivity.
  - intros v Rv. destruct (Z.eq_dec v j) as [->|Nj]; [auto|]. destruct (Z.eq_dec v i) as [->|Ni]; [auto|]. destruct (So v ltac:(lia) Ni Nj) as [-> _]. apply S; exact Rv.
  - intros _. destruct chains as [|c0 ct] eqn:Ech; [cbn; discriminate|]. cbn [app nth]. apply (F0 ltac:(discriminate)).
  - intros a b [[= <- <-]|Hin].
    + repeat split; try lia. left. unfold same. rewrite Si, Sj, Ci, Cj. lia.
    + apply (hist_mono n vx vx' done H); auto.
      * intros v Rv B. assert (v <> i /\ v <> j) as [Ni Nj] by (split; intros ->; lia). destruct (So v ltac:(lia) Ni Nj) as [-> _]. exact B.
      * intros a0 b0 Ra Rb (S1 & S2 & C1). assert (a0 <> i /\ a0 <> j /\ b0 <> i /\ b0 <> j) as (N1 & N2 & N3 & N4) by (repeat split; intros ->; lia).
        unfold same. destruct (So a0 ltac:(lia) N1 N2) as [-> ->]. destruct (So b0 ltac:(lia) N3 N4) as [-> ->]. auto.
Qed.

(* ---------------------------------------------------------------- case: a white vertex joins the chain of a red one *)
Lemma step_attach n s done w r chain' pr : binv n s done -> 0 <= w < Z.of_nat n -> 0 <= r < Z.of_nat n ->
  stt (b_vx s) w = 0 -> stt (b_vx s) r = 1 -> (pr = (w, r) \/ pr = (r, w)) ->
  let chain := nthZ (b_chains s) (chn (b_vx s) r) [] in
  (chain' = w :: chain \/ chain' = chain ++ [w]) ->
  binv n {| b_chains := set_nth (Z.to_nat (chn (b_vx s) r)) chain' (b_chains s);
            b_vx := set_state (vx_set (b_vx s) w (1, chn (b_vx s) r)) r 2 |} (pr :: done).
Proof.
  intros [L M X D R S F0 H] Hw Hr Ww Rr Hpr chain Hc'. set (vx := b_vx s) in *. set (chains := b_chains s) in *. set (cr := chn vx r) in *.
  set (vx' := set_state (vx_set vx w (1, cr)) r 2).
  assert (Hwr : w <> r) by (intros ->; lia).
  pose proof (X r Hr ltac:(lia)) as Hcr. fold cr in Hcr. unfold lenZ in Hcr.
  set (kr := Z.to_nat cr). assert (Hkr : (kr < length chains)%nat) by (unfold kr; lia).
  assert (Echain : chain = nth kr chains []) by reflexivity.
  assert (L1 : length (vx_set vx w (1, cr)) = n) by (rewrite vx_set_length; exact L).
  assert (Fw : stt vx' w = 1 /\ chn vx' w = cr).
  { unfold vx'. rewrite stt_set_state, chn_set_state by lia. destruct (Z.eqb_spec w r); [contradiction|]. rewrite stt_vx_set, chn_vx_set by lia. rewrite Z.eqb_refl. split; reflexivity. }
  assert (Fr : stt vx' r = 2 /\ chn vx' r = cr).
  { unfold vx'. rewrite stt_set_state, chn_set_state by lia. rewrite Z.eqb_refl. rewrite chn_vx_set by lia. destruct (Z.eqb_spec r w); [congruence|]. split; reflexivity. }
  assert (Fo : forall v, 0 <= v -> v <> w -> v <> r -> stt vx' v = stt vx v /\ chn vx' v = chn vx v).
  { intros v Hv N1 N2. unfold vx'. rewrite stt_set_state, chn_set_state by lia. destruct (Z.eqb_spec v r); [contradiction|].
    rewrite stt_vx_set, chn_vx_set by lia. destruct (Z.eqb_spec v w); [contradiction|]. split; reflexivity. }
  destruct Fw as [Sw Cw]. destruct Fr as [Sr Cr].
  assert (Hrin : In r chain) by (rewrite Echain; apply (M kr r Hkr); repeat split; try lia; unfold kr; lia).
  assert (Hwnot : ~ In w chain) by (rewrite Echain; intros Hin; apply (M kr w Hkr) in Hin; lia).
  assert (Hin' : forall v, In v chain' <-> v = w \/ In v chain).
  { intros v. destruct Hc' as [->| ->]; [cbn; intuition|rewrite in_app_iff; cbn; intuition]. }
  assert (Hnth : forall k, nth k (set_nth kr chain' chains) [] = if (k =? kr)%nat then chain' else nth k chains []).
  { intros k. rewrite nth_set_nth. destruct (Nat.eqb_spec k kr); [subst; destruct (Nat.ltb_spec kr (length chains)); [reflexivity|lia]|reflexivity]. }
  constructor; cbn [b_chains b_vx]; fold vx' chains cr kr.
  - unfold vx'. rewrite set_state_length. exact L1.
  - intros k v Hk. rewrite set_nth_length in Hk. rewrite Hnth. destruct (Nat.eqb_spec k kr) as [->|Nk].
    + rewrite Hin'. rewrite Echain, (M kr v Hkr). split.
      * intros [->|(Rv & S1 & C1)]; [rewrite Sw, Cw; repeat split; try lia; unfold kr; lia|].
        destruct (Z.eq_dec v r) as [->|N2]; [rewrite Sr, Cr; repeat split; try lia; unfold kr; lia|].
        assert (N1 : v <> w) by (intros ->; lia). destruct (Fo v ltac:(lia) N1 N2) as [-> ->]. auto.
      * intros (Rv & S1 & C1). destruct (Z.eq_dec v w) as [->|N1]; [left; reflexivity|]. right.
        destruct (Z.eq_dec v r) as [->|N2]; [repeat split; try lia; unfold kr; lia|]. destruct (Fo v ltac:(lia) N1 N2) as [E1 E2]. rewrite E1, E2 in *. auto.
    + rewrite (M k v Hk). split.
      * intros (Rv & S1 & C1). assert (N1 : v <> w) by (intros ->; lia). assert (N2 : v <> r) by (intros ->; unfold cr, kr in *; lia).
        destruct (Fo v ltac:(lia) N1 N2) as [-> ->]. auto.
      * intros (Rv & S1 & C1). destruct (Z.eq_dec v w) as [->|N1]; [rewrite Cw in C1; unfold kr in *; lia|].
        destruct (Z.eq_dec v r) as [->|N2]; [rewrite Cr in C1; unfold kr in *; lia|]. destruct (Fo v ltac:(lia) N1 N2) as [E1 E2]. rewrite E1, E2 in *. auto.
  - intros v Rv S1. unfold lenZ. rewrite set_nth_length. destruct (Z.eq_dec v w) as [->|N1]; [rewrite Cw; lia|].
    destruct (Z.eq_dec v r) as [->|N2]; [rewrite Cr; lia|]. destruct (Fo v ltac:(lia) N1 N2) as [E1 E2]. rewrite E1, E2 in *. apply X; assumption.
  - intros k. rewrite Hnth. destruct (k =? kr)%nat; [|apply D]. pose proof (D kr) as Dk. rewrite <- Echain in Dk.
    destruct Hc' as [->| ->]; [constructor; assumption|]. apply NoDup_app'; [exact Dk|constructor; [intros []|constructor]|]. intros x Hx [<-|[]]. contradiction.
  - intros k Hk Hne. rewrite set_nth_length in Hk. rewrite Hnth in *. destruct (Nat.eqb_spec k kr) as [->|Nk].
    + assert (Hchain : reds vx chain = 2%nat) by (rewrite Echain; apply R; [exact Hkr|]; rewrite <- Echain; intros E; rewrite E in Hrin; destruct Hrin).
      assert (Hflip : (reds vx' chain + 1 = reds vx chain)%nat).
      { apply (reds_flip vx vx' chain r); [rewrite Echain; apply D|exact Hrin|exact Rr|lia|]. intros v Hv Nr. apply Fo; [rewrite Echain in Hv; apply (M kr v Hkr) in Hv; lia| |exact Nr]. intros ->. contradiction. }
      destruct Hc' as [->| ->]; [rewrite reds_cons, Sw|rewrite reds_app, reds_cons, Sw]; cbn [reds List.filter length Z.eqb Pos.eqb]; lia.
    + rewrite <- (R k Hk Hne). apply reds_ext. intros v Hv. apply (M k v Hk) in Hv. destruct Hv as (Rv & S1 & C1). apply Fo; [lia| |]; intros ->; [lia|unfold cr, kr in *; lia].
  - intros v Rv. destruct (Z.eq_dec v w) as [->|N1]; [auto|]. destruct (Z.eq_dec v r) as [->|N2]; [auto|]. destruct (Fo v ltac:(lia) N1 N2) as [-> _]. apply S; exact Rv.
  - intros _. rewrite Hnth. destruct (Nat.eqb_spec 0 kr); [destruct Hc' as [->| ->]; [discriminate|destruct chain; discriminate]|].
    apply F0. intros E. rewrite E in Hkr. cbn in Hkr. lia.
  - intros a b [E|Hin].
    + assert (Hs : same vx' w r) by (unfold same; rewrite Sw, Sr, Cw, Cr; lia).
      destruct Hs as (A1 & A2 & A3).
      destruct Hpr as [->| ->]; injection E as <- <-; (split; [lia|split; [lia|left; repeat split; auto]]).
    + apply (hist_mono n vx vx' done H); auto.
      * intros v Rv B. assert (N1 : v <> w) by (intros ->; lia). assert (N2 : v <> r) by (intros ->; lia). destruct (Fo v ltac:(lia) N1 N2) as [-> _]. exact B.
      * intros a0 b0 Ra Rb (S1 & S2 & C1). assert (a0 <> w /\ b0 <> w) as [N1 N3] by (split; intros ->; lia). unfold same.
        assert (Ga : 1 <= stt vx' a0 /\ chn vx' a0 = chn vx a0) by (destruct (Z.eq_dec a0 r) as [->|N2]; [rewrite Sr, Cr; split; [lia|reflexivity]|destruct (Fo a0 ltac:(lia) N1 N2) as [-> ->]; auto]).
        assert (Gb : 1 <= stt vx' b0 /\ chn vx' b0 = chn vx b0) by (destruct (Z.eq_dec b0 r) as [->|N2]; [rewrite Sr, Cr; split; [lia|reflexivity]|destruct (Fo b0 ltac:(lia) N3 N2) as [-> ->]; auto]).
        destruct Ga as [G1 ->]. destruct Gb as [G2 ->]. auto.
Qed.

(* ---------------------------------------------------------------- case: two red vertices of different chains: the chains are joined *)
Lemma step_merge n s done a b vx1 chaina' pr : binv n s done -> 0 <= a < Z.of_nat n -> 0 <= b < Z.of_nat n ->
  stt (b_vx s) a = 1 -> stt (b_vx s) b = 1 -> chn (b_vx s) a < chn (b_vx s) b -> (pr = (a, b) \/ pr = (b, a)) ->
  length vx1 = n ->
  (forall v, 0 <= v -> stt vx1 v = (if (v =? a) || (v =? b) then 2 else stt (b_vx s) v) /\ chn vx1 v = chn (b_vx s) v) ->
  let ca := chn (b_vx s) a in let cb := chn (b_vx s) b in
  let chaina := nthZ (b_chains s) ca [] in let chainb := nthZ (b_chains s) cb [] in
  (chaina' = rev chainb ++ chaina \/ chaina' = chainb ++ chaina \/ chaina' = chaina ++ chainb \/ chaina' = chaina ++ rev chainb) ->
  binv n {| b_chains := set_nth (Z.to_nat ca) chaina' (set_nth (Z.to_nat cb) [] (b_chains s));
            b_vx := fold_left (fun vx v => set_chain vx v ca) chainb vx1 |} (pr :: done).
Proof.
  intros [L M X D R S F0 H] Ha Hb Ra Rb Hne Hpr L1 F1 ca cb chaina chainb Harr.
  set (vx := b_vx s) in *. set (chains := b_chains s) in *.
  pose proof (X a Ha ltac:(lia)) as Hca. pose proof (X b Hb ltac:(lia)) as Hcb. fold ca in Hca. fold cb in Hcb. unfold lenZ in Hca, Hcb.
  set (ka := Z.to_nat ca). set (kb := Z.to_nat cb).
  assert (Hka : (ka < length chains)%nat) by (unfold ka; lia). assert (Hkb : (kb < length chains)%nat) by (unfold kb; lia).
  assert (Hkab : ka <> kb) by (unfold ka, kb; lia).
  assert (Ea : chaina = nth ka chains []) by reflexivity. assert (Eb : chainb = nth kb chains []) by reflexivity.
  assert (Hain : In a chaina) by (rewrite Ea; apply (M ka a Hka); repeat split; try lia; unfold ka; lia).
  assert (Hbin : In b chainb) by (rewrite Eb; apply (M kb b Hkb); repeat split; try lia; unfold kb; lia).
  assert (Hma : forall v, In v chaina <-> 0 <= v < Z.of_nat n /\ 1 <= stt vx v /\ chn vx v = ca).
  { intros v. rewrite Ea, (M ka v Hka). unfold ka. split; intros (A1 & A2 & A3); repeat split; auto; lia. }
  assert (Hmb : forall v, In v chainb <-> 0 <= v < Z.of_nat n /\ 1 <= stt vx v /\ chn vx v = cb).
  { intros v. rewrite Eb, (M kb v Hkb). unfold kb. split; intros (A1 & A2 & A3); repeat split; auto; lia. }
  assert (Hdisj : forall v, In v chaina -> In v chainb -> False) by (intros v A1 A2; apply Hma in A1; apply Hmb in A2; lia).
  destruct (fold_set_chain ca chainb vx1) as [L2 F2].
  { apply Forall_forall. intros v Hv. apply Hmb in Hv. rewrite L1. lia. }
  set (vx2 := fold_left (fun vx0 v => set_chain vx0 v ca) chainb vx1) in *.
  assert (St : forall v, 0 <= v -> stt vx2 v = if (v =? a) || (v =? b) then 2 else stt vx v).
  { intros v Hv. destruct (F2 v Hv) as [-> _]. apply F1. exact Hv. }
  assert (Ch : forall v, 0 <= v -> chn vx2 v = if in_dec Z.eq_dec v chainb then ca else chn vx v).
  { intros v Hv. destruct (F2 v Hv) as [_ ->]. destruct (in_dec Z.eq_dec v chainb); [reflexivity|apply F1; exact Hv]. }
  assert (Sge : forall v, 0 <= v < Z.of_nat n -> (1 <= stt vx2 v <-> 1 <= stt vx v)).
  { intros v Rv. rewrite St by lia. destruct (Z.eqb_spec v a) as [->|]; [cbn [orb]; lia|]. destruct (Z.eqb_spec v b) as [->|]; [cbn [orb]; lia|]. cbn [orb]. tauto. }
  assert (Hin' : forall v, In v chaina' <-> In v chaina \/ In v chainb).
  { intros v. destruct Harr as [->|[->|[->| ->]]]; rewrite in_app_iff, <- ?in_rev; tauto. }
  assert (Hnth : forall k, nth k (set_nth ka chaina' (set_nth kb [] chains)) [] = if (k =? ka)%nat then chaina' else if (k =? kb)%nat then [] else nth k chains []).
  { intros k. rewrite nth_set_nth, set_nth_length. destruct (Nat.eqb_spec k ka); [subst; destruct (Nat.ltb_spec ka (length chains)); [reflexivity|lia]|].
    cbn [andb]. rewrite nth_set_nth. destruct (Nat.eqb_spec k kb); [subst; destruct (Nat.ltb_spec kb (length chains)); [reflexivity|lia]|reflexivity]. }
  constructor; cbn [b_chains b_vx]; fold vx2 chains.
  - rewrite L2. exact L1.
  - intros k v Hk. rewrite !set_nth_length in Hk. rewrite Hnth. destruct (Nat.eqb_spec k ka) as [->|Nka]; [|destruct (Nat.eqb_spec k kb) as [->|Nkb]].
    + rewrite Hin', Hma, Hmb. split.
      * intros [(Rv & S1 & C1)|(Rv & S1 & C1)]; (split; [exact Rv|]); (split; [apply Sge; assumption|]); rewrite Ch by lia;
          destruct (in_dec Z.eq_dec v chainb) as [Hi|Hn]; unfold ka; try lia. exfalso. apply Hn. apply Hmb. auto.
      * intros (Rv & S1 & C1). apply Sge in S1; [|exact Rv]. rewrite Ch in C1 by lia. destruct (in_dec Z.eq_dec v chainb) as [Hi|Hn]; [right; apply Hmb; exact Hi|].
        left. repeat split; auto; unfold ka in C1; lia.
    + split; [intros []|]. intros (Rv & S1 & C1). apply Sge in S1; [|exact Rv]. rewrite Ch in C1 by lia.
      destruct (in_dec Z.eq_dec v chainb) as [Hi|Hn]; [unfold kb in *; lia|]. apply Hn. apply Hmb. repeat split; auto; unfold kb in C1; lia.
    + rewrite (M k v Hk). split.
      * intros (Rv & S1 & C1). split; [exact Rv|]. split; [apply Sge; assumption|]. rewrite Ch by lia.
        destruct (in_dec Z.eq_dec v chainb) as [Hi|Hn]; [apply Hmb in Hi; unfold kb in *; lia|exact C1].
      * intros (Rv & S1 & C1). apply Sge in S1; [|exact Rv]. rewrite Ch in C1 by lia. destruct (in_dec Z.eq_dec v chainb) as [Hi|Hn]; [unfold ka in *; lia|auto].
  - intros v Rv S1. unfold lenZ. rewrite !set_nth_length. apply Sge in S1; [|exact Rv]. rewrite Ch by lia.
    destruct (in_dec Z.eq_dec v chainb); [lia|]. apply X; assumption.
  - intros k. rewrite Hnth. destruct (k =? ka)%nat; [|destruct (k =? kb)%nat; [constructor|apply D]].
    pose proof (D ka) as Da. pose proof (D kb) as Db. rewrite <- Ea in Da. rewrite <- Eb in Db.
    destruct Harr as [->|[->|[->| ->]]]; apply NoDup_app'; auto using NoDup_rev'; intros x; rewrite <- ?in_rev; eauto.
  - intros k Hk Hnk. rewrite !set_nth_length in Hk. rewrite Hnth in *. destruct (Nat.eqb_spec k ka) as [->|Nka]; [|destruct (Nat.eqb_spec k kb) as [->|Nkb]; [contradiction|]].
    + assert (Ra2 : reds vx chaina = 2%nat) by (rewrite Ea; apply R; [exact Hka|]; rewrite <- Ea; intros E; rewrite E in Hain; destruct Hain).
      assert (Rb2 : reds vx chainb = 2%nat) by (rewrite Eb; apply R; [exact Hkb|]; rewrite <- Eb; intros E; rewrite E in Hbin; destruct Hbin).
      assert (Fa : (reds vx2 chaina + 1 = reds vx chaina)%nat).
      { apply (reds_flip vx vx2 chaina a); [rewrite Ea; apply D|exact Hain|exact Ra|rewrite St by lia; rewrite Z.eqb_refl; cbn [orb]; lia|].
        intros v Hv Nv. rewrite St by (apply Hma in Hv; lia). destruct (Z.eqb_spec v a); [contradiction|]. destruct (Z.eqb_spec v b) as [->|]; [exfalso; eauto|reflexivity]. }
      assert (Fb : (reds vx2 chainb + 1 = reds vx chainb)%nat).
      { apply (reds_flip vx vx2 chainb b); [rewrite Eb; apply D|exact Hbin|exact Rb|rewrite St by lia; rewrite Z.eqb_refl, orb_true_r; lia|].
        intros v Hv Nv. rewrite St by (apply Hmb in Hv; lia). destruct (Z.eqb_spec v b); [contradiction|]. destruct (Z.eqb_spec v a) as [->|]; [exfalso; eauto|reflexivity]. }
      destruct Harr as [->|[->|[->| ->]]]; rewrite reds_app, ?reds_rev; lia.
    + rewrite <- (R k Hk Hnk). apply reds_ext. intros v Hv. apply (M k v Hk) in Hv. destruct Hv as (Rv & S1 & C1). rewrite St by lia.
      destruct (Z.eqb_spec v a) as [->|]; [exfalso; apply Nka; unfold ka, ca; rewrite C1; symmetry; apply Nat2Z.id|].
      destruct (Z.eqb_spec v b) as [->|]; [exfalso; apply Nkb; unfold kb, cb; rewrite C1; symmetry; apply Nat2Z.id|]. reflexivity.
  - intros v Rv. rewrite St by lia. destruct ((v =? a) || (v =? b)); [auto|apply S; exact Rv].
  - intros _. rewrite Hnth. destruct (Nat.eqb_spec 0 ka) as [E0|N0].
    + intros E. assert (In a chaina') by (apply Hin'; left; exact Hain). rewrite E in H0. destruct H0.
    + destruct (Nat.eqb_spec 0 kb) as [E0|N1]; [unfold ka, kb in *; lia|]. apply F0. intros E. rewrite E in Hka. cbn in Hka. lia.
  - intros a0 b0 [E|Hin].
    + assert (Hs : 1 <= stt vx2 a /\ 1 <= stt vx2 b /\ chn vx2 a = chn vx2 b).
      { rewrite !St, !Ch by lia. rewrite !Z.eqb_refl, ?orb_true_r. cbn [orb].
        destruct (in_dec Z.eq_dec a chainb) as [Hi|_]; [exfalso; eauto|]. destruct (in_dec Z.eq_dec b chainb) as [_|Hn]; [|contradiction]. repeat split; try lia. }
      destruct Hs as (A1 & A2 & A3). destruct Hpr as [->| ->]; injection E as <- <-; (split; [lia|split; [lia|left; repeat split; auto]]).
    + apply (hist_mono n vx vx2 done H); auto.
      * intros v Rv B. rewrite St by lia. destruct ((v =? a) || (v =? b)); [reflexivity|exact B].
      * intros x y Rx Ry (S1 & S2 & C1). unfold same. split; [apply Sge; assumption|]. split; [apply Sge; assumption|]. rewrite !Ch by lia.
        destruct (in_dec Z.eq_dec x chainb) as [Hx|Hx]; destruct (in_dec Z.eq_dec y chainb) as [Hy|Hy]; try reflexivity; try exact C1.
        -- exfalso. apply Hy. apply Hmb. apply Hmb in Hx. repeat split; try lia.
        -- exfalso. apply Hx. apply Hmb. apply Hmb in Hy. repeat split; try lia.
Qed.

(* C01 at the level of perform_reductions: every image on the main line and every candidate handed to
   the evaluator has the meaning of the input, for every option vector with the two lossy switches off,
   every clock oracle and every input image (any size, colour type, depth, interlacing).
   Built from the per-transformation theorems through the generic invariant of ReductionInv.v.
   Every transformation's image-level theorem is proved; nothing is assumed about the reductions. *)
From OxiVerif Require Import Base.Common Spec.Adam7 Spec.Sem Model.Types Model.Options Model.ScanLines Model.Interlace
  Model.BitDepth Model.Color Model.Palette Model.Reductions
  Proofs.Bridge Proofs.PixelProofs Proofs.ImageLift Proofs.LiftReductions Proofs.LiftColor Proofs.LiftPalette Proofs.LiftLines Proofs.LiftBits Proofs.LiftInterlace Proofs.LiftDeinterlace Proofs.LiftMzeng Proofs.LiftBattiato Proofs.ReductionInv.

(* the invariant: well-formed and means [pic] *)
Definition means (pic : picture) (i : image) : Prop := wf i /\ sem i = Some pic.

(* ---------------------------------------------------------------- 16 -> 8 keeps well-formedness *)
Lemma wf_key16 img pic : wf img -> sem img = Some pic -> depth (hdr img) = 16 -> key16_ok (ctype (hdr img)).
Proof.
  intros [_ Hwf] Hsem Hd. pose proof (sem_some_legal _ _ Hsem) as Hl. rewrite Hd in *.
  destruct (ctype (hdr img)) as [[k|]|[[[r g] b]|]|pal| |]; cbn in *; auto; try discriminate.
Qed.

Lemma wf_ctype_16_to_8 c : key16_ok c -> wf_ctype c 16 -> wf_ctype (color_type_16_to_8 c exact_16_to_8) 8.
Proof.
  intros Hk Hw. destruct c as [[k|]|[[[r g] b]|]|pal| |]; cbn [color_type_16_to_8]; try exact I.
  - cbn [key16_ok] in Hk. destruct (exact_16_to_8 k) as [k8|] eqn:E; cbn [wf_ctype]; [|exact I].
    change (2 ^ 8) with 256. apply (exact_16_to_8_range k); auto.
  - cbn [key16_ok] in Hk. destruct Hk as (Hr & Hg & Hb).
    destruct (exact_16_to_8 r) as [r8|] eqn:E1; [|exact I]. destruct (exact_16_to_8 g) as [g8|] eqn:E2; [|exact I].
    destruct (exact_16_to_8 b) as [b8|] eqn:E3; [|exact I]. cbn [wf_ctype]. change (2 ^ 8) with 256.
    split; [apply (exact_16_to_8_range r); assumption|split; [apply (exact_16_to_8_range g); assumption|apply (exact_16_to_8_range b); assumption]].
  - destruct Hk.
Qed.

Lemma reduced_16_to_8_means img img' pic : means pic img ->
  reduced_bit_depth_16_to_8 img false = Some img' -> means pic img'.
Proof.
  intros [Hwf Hsem] Hred.
  assert (Hd : depth (hdr img) = 16).
  { unfold reduced_bit_depth_16_to_8 in Hred. destruct (depth (hdr img) =? 16) eqn:E; [apply Z.eqb_eq; exact E|discriminate]. }
  pose proof (wf_key16 _ _ Hwf Hsem Hd) as Hk.
  assert (Hsem' : sem img' = Some pic) by (eapply reduced_16_to_8_sem; eauto; apply Hwf).
  split; [|exact Hsem'].
  unfold reduced_bit_depth_16_to_8 in Hred. rewrite Hd in Hred. change (16 =? 16) with true in Hred. cbn [negb] in Hred.
  destruct (existsb _ (pairs (data img))); [discriminate|]. injection Hred as <-.
  destruct Hwf as [Hok Hwfc]. split.
  - cbn [data]. pose proof (bytes_ok_pairs _ Hok) as P. unfold bytes_ok. apply Forall_forall. intros b Hb.
    apply in_map_iff in Hb. destruct Hb as [p [<- Hp]]. rewrite Forall_forall in P. apply (P p Hp).
  - cbn [data hdr ctype depth with_ctype with_depth]. apply wf_ctype_16_to_8; [exact Hk|]. rewrite <- Hd. exact Hwfc.
Qed.

(* ---------------------------------------------------------------- the two co-occurrence sorters (proved in LiftMzeng / LiftBattiato) *)
Lemma leaf_battiato i r pic : means pic i -> sorted_palette_battiato i = Ok (Some r) -> means pic r.
Proof. intros [Hwf Hsem] H. destruct (sorted_palette_battiato_sem i r pic Hwf Hsem H). split; assumption. Qed.

Lemma leaf_mzeng i r pic : means pic i -> sorted_palette_mzeng i = Ok (Some r) -> means pic r.
Proof. intros [Hwf Hsem] H. destruct (sorted_palette_mzeng_sem i r pic Hwf Hsem H). split; assumption. Qed.

Lemma leaf_interlace i il r pic : means pic i -> change_interlacing i il = Ok (Some r) -> means pic r.
Proof.
  intros [Hwf Hsem] H. unfold change_interlacing in H.
  destruct (Bool.eqb il (interlaced (hdr i))) eqn:E; [discriminate|].
  destruct il.
  - destruct (interlace_image i) as [x|?|?] eqn:Ei; cbn [bind] in H; try discriminate. injection H as <-.
    assert (Hil : interlaced (hdr i) = false) by (destruct (interlaced (hdr i)); [discriminate|reflexivity]).
    destruct (interlace_image_sem i x pic Hwf Hil Ei Hsem). split; auto.
  - destruct (deinterlace_image i) as [x|?|?] eqn:Ei; cbn [bind] in H; try discriminate. injection H as <-.
    assert (Hil : interlaced (hdr i) = true) by (destruct (interlaced (hdr i)); [reflexivity|discriminate]).
    destruct (deinterlace_image_sem i x pic Hwf Hil Ei Hsem). split; auto.
Qed.

Definition cand_means (pic : picture) (ev : rd_event) : Prop :=
  match ev with EvSubmit i _ => means pic i | _ => True end.

Theorem perform_reductions_lossless_partial e o img pic baseline evs :
  optimize_alpha o = false -> scale_16 o = false ->
  means pic img ->
  perform_reductions e o img = Ok (baseline, evs) ->
  means pic baseline /\ Forall (cand_means pic) evs.
Proof.
  intros Ha Hs Hm Hp.
  apply (perform_reductions_inv (means pic) (means pic) (fun i H => H) e o) with (png0 := img) in Hp; auto.
  - intros Ht. congruence.
  - intros _ i r Hr Hi. rewrite Hs in Hr. eapply reduced_16_to_8_means; eauto.
  - intros _ _ i r Hr [Hwf Hsem]. destruct (reduced_rgb_to_grayscale_sem _ _ _ Hwf Hr Hsem). split; auto.
  - intros _ i r Hr [Hwf Hsem]. destruct (expanded_bit_depth_to_8_sem _ _ _ Hwf Hr Hsem). split; auto.
  - intros _ i r Hr [Hwf Hsem]. rewrite Ha in Hr. destruct (reduced_palette_sem _ _ _ Hwf Hr Hsem). split; auto.
  - intros _ i r Hr [Hwf Hsem]. destruct (sorted_palette_sem _ _ _ Hwf Hr Hsem). split; auto.
  - intros _ i r Hr [Hwf Hsem]. rewrite Ha in Hr. destruct (reduced_alpha_channel_sem _ _ _ Hwf Hr Hsem). split; auto.
  - intros _ i r Hr [Hwf Hsem]. rewrite Ha in Hr. destruct (indexed_to_channels_sem _ _ _ _ Hwf Hr Hsem). split; auto.
  - intros _ i red Hr [Hwf Hsem]. destruct (reduced_to_indexed_sem _ _ _ _ Hwf Hr Hsem) as [S1 W1]. split; [split; auto|].
    intros r Hr2. destruct (sorted_palette_sem _ _ _ W1 Hr2 S1). split; auto.
  - intros _ i r Hr Hi. eapply leaf_battiato; eauto.
  - intros _ i r Hr Hi. eapply leaf_mzeng; eauto.
  - intros _ i r Hr [Hwf Hsem]. destruct (reduced_bit_depth_8_or_less_sem _ _ _ Hwf Hr Hsem). split; auto.
  - intros il r _ Hr. eapply leaf_interlace; eauto.
Qed.

(* ================================================================ C03: with alpha optimisation *)
From OxiVerif Require Import Proofs.LiftAlpha.

(* well-formed and alpha-equivalent to [pic] *)
Definition ameans (pic : picture) (i : image) : Prop := exists pic', means pic' i /\ pic_aequiv pic pic'.

Lemma ameans_exact pic i r : ameans pic i -> (forall pic', means pic' i -> means pic' r) -> ameans pic r.
Proof. intros (p' & M & A) H. exists p'. split; auto. Qed.

Lemma ameans_alpha pic i r : ameans pic i ->
  (forall pic', wf i -> sem i = Some pic' -> (exists pic'', sem r = Some pic'' /\ pic_aequiv pic' pic'') /\ wf r) -> ameans pic r.
Proof.
  intros (p' & [W S] & A) H. destruct (H p' W S) as [(p'' & S' & A') W']. exists p''. split; [split; auto|]. eapply pic_aequiv_trans; eauto.
Qed.

Definition cand_ameans (pic : picture) (ev : rd_event) : Prop :=
  match ev with EvSubmit i _ => ameans pic i | _ => True end.

Theorem perform_reductions_alpha_partial e o img pic baseline evs :
  scale_16 o = false ->
  ameans pic img ->
  perform_reductions e o img = Ok (baseline, evs) ->
  ameans pic baseline /\ Forall (cand_ameans pic) evs.
Proof.
  intros Hs Hm Hp.
  apply (perform_reductions_inv (ameans pic) (ameans pic) (fun i H => H) e o) with (png0 := img) in Hp; auto.
  - intros _ i r Hr Hi. eapply ameans_alpha; eauto. intros p' W S. apply (cleaned_alpha_channel_aequiv i); auto.
  - intros _ i r Hr Hi. rewrite Hs in Hr. eapply ameans_exact; eauto. intros p' M. eapply reduced_16_to_8_means; eauto.
  - intros _ _ i r Hr Hi. eapply ameans_exact; eauto. intros p' [W S]. destruct (reduced_rgb_to_grayscale_sem _ _ _ W Hr S). split; auto.
  - intros _ i r Hr Hi. eapply ameans_exact; eauto. intros p' [W S]. destruct (expanded_bit_depth_to_8_sem _ _ _ W Hr S). split; auto.
  - intros _ i r Hr Hi. destruct (optimize_alpha o).
    + eapply ameans_alpha; eauto. intros p' W S. apply (reduced_palette_aequiv i); auto.
    + eapply ameans_exact; eauto. intros p' [W S]. destruct (reduced_palette_sem _ _ _ W Hr S). split; auto.
  - intros _ i r Hr Hi. eapply ameans_exact; eauto. intros p' [W S]. destruct (sorted_palette_sem _ _ _ W Hr S). split; auto.
  - intros _ i r Hr Hi. destruct (optimize_alpha o).
    + eapply ameans_alpha; eauto. intros p' W S. apply (reduced_alpha_channel_aequiv i); auto.
    + eapply ameans_exact; eauto. intros p' [W S]. destruct (reduced_alpha_channel_sem _ _ _ W Hr S). split; auto.
  - intros _ i r Hr Hi. destruct (optimize_alpha o).
    + eapply ameans_alpha; eauto. intros p' W S. apply (indexed_to_channels_aequiv i r (grayscale_reduction o)); auto.
    + eapply ameans_exact; eauto. intros p' [W S]. destruct (indexed_to_channels_sem _ _ _ _ W Hr S). split; auto.
  - intros _ i red Hr Hi.
    assert (Hred : ameans pic red).
    { eapply ameans_exact; eauto. intros p' [W S]. destruct (reduced_to_indexed_sem _ _ _ _ W Hr S). split; auto. }
    split; [exact Hred|]. intros r Hr2. eapply ameans_exact; eauto. intros p' [W S]. destruct (sorted_palette_sem _ _ _ W Hr2 S). split; auto.
  - intros _ i r Hr Hi. eapply ameans_exact; eauto. intros p' M. eapply leaf_battiato; eauto.
  - intros _ i r Hr Hi. eapply ameans_exact; eauto. intros p' M. eapply leaf_mzeng; eauto.
  - intros _ i r Hr Hi. eapply ameans_exact; eauto. intros p' [W S]. destruct (reduced_bit_depth_8_or_less_sem _ _ _ W Hr S). split; auto.
  - intros il r _ Hr. eapply ameans_exact; eauto. intros p' M. eapply leaf_interlace; eauto.
Qed.

(* ================================================================ what optimize_raw emits *)
From OxiVerif Require Import Model.Evaluate Model.Optimize Proofs.EffectProofs Proofs.PipelineProofs.

(* the image of the candidate chosen by optimize_raw (whatever the evaluator schedule, the compressor and the clock did) means
   what the input means *)
Theorem optimize_raw_lossless_partial e o img max_size c pic :
  optimize_alpha o = false -> scale_16 o = false -> means pic img ->
  optimize_raw e o img max_size = Ok (Some c) -> means pic (c_image c).
Proof.
  intros Ha Hs Hm H. apply (emitted_satisfies (means pic) e o img max_size c); [|exact H].
  intros b evs Hpr. destruct (perform_reductions_lossless_partial e o img pic b evs Ha Hs Hm Hpr) as [Hb Hevs].
  split; [exact Hb|]. eapply Forall_impl; [|exact Hevs]. intros ev Hev. destruct ev; exact Hev.
Qed.

Theorem optimize_raw_alpha_partial e o img max_size c pic :
  scale_16 o = false -> ameans pic img ->
  optimize_raw e o img max_size = Ok (Some c) -> ameans pic (c_image c).
Proof.
  intros Hs Hm H. apply (emitted_satisfies (ameans pic) e o img max_size c); [|exact H].
  intros b evs Hpr. destruct (perform_reductions_alpha_partial e o img pic b evs Hs Hm Hpr) as [Hb Hevs].
  split; [exact Hb|]. eapply Forall_impl; [|exact Hevs]. intros ev Hev. destruct ev; exact Hev.
Qed.

(* A numeric literal that the model repeats as a literal, tied to the source on every run: Gen/SrcConsts.v is regenerated from /repo
   and the equation below is between the regenerated value and the literal used in Model/. A change of the literal in the code
   breaks this file (the model no longer describes the code), and with it the property file that imports it. *)
From OxiVerif Require Import Base.Common Model.Types Model.Options Model.Headers Model.PngData.
From OxiVerif Require Gen.SrcConsts.
Local Open Scope Z_scope.

(* src/png/mod.rs: "Deflate cannot expand data by more than 1032:1" *)
Lemma inflate_ratio_is_source : SrcConsts.src_inflate_ratio = 1032.
Proof. reflexivity. Qed.

Lemma png_image_new_uses_ratio e hd c : width hd <> 0 -> height hd <> 0 -> lenZ c < raw_data_size hd / SrcConsts.src_inflate_ratio ->
  png_image_new e hd c = Err ETruncated.
Proof.
  intros Hw Hh Hl. unfold png_image_new. destruct (Z.eqb_spec (width hd) 0); [contradiction|]. destruct (Z.eqb_spec (height hd) 0); [contradiction|].
  cbn [orb]. rewrite inflate_ratio_is_source in Hl. apply Z.ltb_lt in Hl. rewrite Hl. reflexivity.
Qed.

(* Proofs about the scan-line iterator model (C18): it emits exactly the Adam7 pass rows of the
   specification (empty passes omitted) with the specification's byte lengths, for every w, h >= 1. *)
From OxiVerif Require Import Base.Common Spec.Adam7 Model.Types Model.ScanLines.

(* the pixel-count view of the iterator: n steps from state st *)
Fixpoint lines (w h : Z) (st : Z * Z) (n : nat) : list (Z * Z) :=
  match n with
  | O => []
  | S n => match next_px w h st with
           | Some (o, st') => o :: lines w h st' n
           | None => []
           end
  end.

Ltac pass_cases p :=
  assert (p=1\/p=2\/p=3\/p=4\/p=5\/p=6\/p=7) as [->|[->|[->|[->|[->|[->| ->]]]]]] by lia.

Lemma start_y0 p : 1 <= p <= 7 -> pass_start p = y0 p.
Proof. intros H. pass_cases p; reflexivity. Qed.

Definition pf_of (p : Z) : Z := match p with 1 => 8 | 2 => 8 | 3 => 4 | 4 => 4 | 5 => 2 | 6 => 2 | _ => 1 end.
Definition ys_of (p : Z) : Z := match p with 1 => 8 | 2 => 8 | 3 => 8 | 4 => 4 | 5 => 4 | 6 => 2 | _ => 2 end.

Lemma factors_some p : 1 <= p <= 7 -> factors p = Some (pf_of p, ys_of p).
Proof. intros H. pass_cases p; reflexivity. Qed.

Lemma ppl_spec w p : 0 <= w -> 1 <= p <= 7 -> ppl w p (pf_of p) = pw w p.
Proof.
  intros Hw H. pass_cases p;
  unfold ppl, pw, cdiv; cbn [pf_of x0 dx];
  repeat match goal with |- context [if ?c then _ else _] => destruct c eqn:? end; lia.
Qed.

Lemma skip_active w h p row : 1 <= w -> 1 <= h -> 1 <= p <= 7 -> 0 < pw w p -> 0 < ph h p -> skip w h (p,row) = (p,row).
Proof.
  intros Hw Hh H Hpw Hph. pass_cases p;
  unfold skip, pw, ph, cdiv in *; cbn [fst snd x0 y0 dx dy] in *;
  repeat match goal with
         | H : context [if ?c then _ else _] |- _ => destruct c eqn:?
         | |- context [if ?c then _ else _] => destruct c eqn:? end; cbn [fst snd] in *; try reflexivity; try lia.
Qed.

Lemma next_px_active w h p row : 1 <= w -> 1 <= h -> 1 <= p <= 7 -> 0 < pw w p -> 0 < ph h p ->
  next_px w h (p, row) =
    Some ((p, pw w p), if h <=? row + ys_of p then (p + 1, pass_start (p + 1)) else (p, row + ys_of p)).
Proof.
  intros. unfold next_px. rewrite skip_active by auto. cbn [fst snd].
  rewrite factors_some by auto. rewrite ppl_spec by lia. reflexivity.
Qed.

(* one pass: k rows remain starting at [row] *)
Lemma pass_run w h p : 1 <= w -> 1 <= h -> 1 <= p <= 7 -> 0 < pw w p -> 0 < ph h p ->
  forall k row n, 0 <= row < h -> Z.of_nat k = cdiv (h - row) (dy p) -> (0 < k)%nat ->
  lines w h (p,row) (k + n) = repeat (p, pw w p) k ++ lines w h (p + 1, pass_start (p+1)) n.
Proof.
  intros Hw Hh Hp Hpw Hph.
  induction k as [|k IH]; intros row n Hrow Hk Hpos; [lia|].
  cbn [Nat.add lines]. rewrite next_px_active by auto.
  cbn [repeat app]. f_equal.
  destruct (h <=? row + ys_of p) eqn:Hlast.
  - assert (k = 0)%nat.
    { apply Z.leb_le in Hlast. unfold cdiv in Hk. pass_cases p; cbn [ys_of dy] in *; lia. }
    subst k. reflexivity.
  - apply Z.leb_gt in Hlast. apply IH.
    + pass_cases p; cbn [ys_of] in *; lia.
    + unfold cdiv in *. pass_cases p; cbn [ys_of dy] in *; lia.
    + unfold cdiv in *. pass_cases p; cbn [ys_of dy] in *; lia.
Qed.

Lemma next_skip_eq w h st1 st2 : skip w h st1 = skip w h st2 -> next_px w h st1 = next_px w h st2.
Proof. unfold next_px. intros ->. reflexivity. Qed.

Lemma lines_skip_eq w h st1 st2 n : skip w h st1 = skip w h st2 -> lines w h st1 n = lines w h st2 n.
Proof. intros H. destruct n; cbn [lines]; [reflexivity|]. rewrite (next_skip_eq _ _ _ _ H). reflexivity. Qed.

Ltac skip_simpl :=
  repeat (cbn [fst snd Z.eqb Pos.eqb]; rewrite ?andb_false_r, ?andb_true_r;
          try match goal with |- context [if false then _ else ?b] => change (if false then _ else b) with b end).

Lemma skip_inactive w h p : 1 <= w -> 1 <= h -> 2 <= p <= 6 -> (pw w p = 0 \/ ph h p = 0) ->
  skip w h (p, pass_start p) = skip w h (p + 1, pass_start (p + 1)).
Proof.
  intros Hw Hh Hp Hin. assert (p=2\/p=3\/p=4\/p=5\/p=6) as [->|[->|[->|[->| ->]]]] by lia;
  unfold pw, ph, cdiv in Hin; cbn [x0 y0 dx dy] in Hin.
  - assert (E : (w <? 5) = true) by (destruct Hin as [H|H]; [destruct (w <=? 4) eqn:?|destruct (h <=? 0) eqn:?]; lia).
    unfold skip. cbn [pass_start Z.add fst snd]. rewrite E. skip_simpl. reflexivity.
  - assert (E : (h <? 5) = true) by (destruct Hin as [H|H]; [destruct (w <=? 0) eqn:?|destruct (h <=? 4) eqn:?]; lia).
    unfold skip. cbn [pass_start Z.add fst snd]. skip_simpl. rewrite E. skip_simpl. reflexivity.
  - assert (E : (w <? 3) = true) by (destruct Hin as [H|H]; [destruct (w <=? 2) eqn:?|destruct (h <=? 0) eqn:?]; lia).
    unfold skip. cbn [pass_start Z.add fst snd]. skip_simpl. rewrite E. skip_simpl. reflexivity.
  - assert (E : (h <? 3) = true) by (destruct Hin as [H|H]; [destruct (w <=? 0) eqn:?|destruct (h <=? 2) eqn:?]; lia).
    unfold skip. cbn [pass_start Z.add fst snd]. skip_simpl. rewrite E. skip_simpl. reflexivity.
  - assert (E : (w =? 1) = true) by (destruct Hin as [H|H]; [destruct (w <=? 1) eqn:?|destruct (h <=? 0) eqn:?]; lia).
    unfold skip. cbn [pass_start Z.add fst snd]. skip_simpl. rewrite E. skip_simpl. reflexivity.
Qed.

Lemma pw_nonneg w p : 1 <= w -> 1 <= p <= 7 -> 0 <= pw w p.
Proof. intros. unfold pw, cdiv. destruct (w <=? x0 p) eqn:E; [lia|]. apply Z.leb_gt in E.
  pass_cases p; cbn [x0 dx] in *; lia. Qed.
Lemma ph_nonneg h p : 1 <= h -> 1 <= p <= 7 -> 0 <= ph h p.
Proof. intros. unfold ph, cdiv. destruct (h <=? y0 p) eqn:E; [lia|]. apply Z.leb_gt in E.
  pass_cases p; cbn [y0 dy] in *; lia. Qed.

Lemma chain_step w h p rest : 1 <= w -> 1 <= h -> 1 <= p <= 7 ->
  (p = 1 -> 0 < pw w p /\ 0 < ph h p) ->
  (p = 7 -> rest = []) ->
  lines w h (p + 1, pass_start (p + 1)) (length rest) = rest ->
  lines w h (p, pass_start p) (length (spec_pass_lines w h p ++ rest)) = spec_pass_lines w h p ++ rest.
Proof.
  intros Hw Hh Hp H1 H7 IH.
  pose proof (pw_nonneg w p Hw Hp). pose proof (ph_nonneg h p Hh Hp).
  destruct (Z.eq_dec (pw w p) 0) as [Epw|Epw]; [|destruct (Z.eq_dec (ph h p) 0) as [Eph|Eph]].
  - unfold spec_pass_lines. rewrite Epw. cbn [Z.eqb app].
    assert (p <> 1) by (intros ->; destruct H1; auto; lia).
    destruct (Z.eq_dec p 7) as [->|]; [rewrite H7 by auto; reflexivity|].
    rewrite (lines_skip_eq w h (p, pass_start p) (p+1, pass_start (p+1))); auto. apply skip_inactive; auto; lia.
  - unfold spec_pass_lines. rewrite Eph. destruct (pw w p =? 0); cbn [Z.to_nat repeat app];
    (assert (p <> 1) by (intros ->; destruct H1; auto; lia);
     destruct (Z.eq_dec p 7) as [->|]; [rewrite H7 by auto; reflexivity|];
     rewrite (lines_skip_eq w h (p, pass_start p) (p+1, pass_start (p+1))); auto; apply skip_inactive; auto; lia).
  - unfold spec_pass_lines. destruct (pw w p =? 0) eqn:E; [apply Z.eqb_eq in E; lia|].
    rewrite app_length, repeat_length.
    rewrite (pass_run w h p Hw Hh Hp ltac:(lia) ltac:(lia) (Z.to_nat (ph h p)) (pass_start p) (length rest)).
    + rewrite IH. reflexivity.
    + rewrite start_y0 by auto. unfold ph in *. destruct (h <=? y0 p) eqn:E2; [lia|]. apply Z.leb_gt in E2.
      pass_cases p; cbn [y0] in *; lia.
    + rewrite Z2Nat.id by lia. rewrite start_y0 by auto. unfold ph. destruct (h <=? y0 p) eqn:E2; [unfold ph in *; rewrite E2 in *; lia|]. reflexivity.
    + lia.
Qed.

Theorem lines_spec w h : 1 <= w -> 1 <= h ->
  lines w h (1, 0) (length (spec_lines w h)) = spec_lines w h.
Proof.
  intros Hw Hh. unfold spec_lines, passes7. cbn [flat_map]. rewrite app_nil_r.
  assert (A1 : 0 < pw w 1 /\ 0 < ph h 1) by (unfold pw, ph, cdiv; cbn [x0 y0 dx dy]; destruct (w <=? 0) eqn:?, (h <=? 0) eqn:?; lia).
  change (1, 0) with (1, pass_start 1).
  apply chain_step; auto; try lia.
  change (1 + 1) with 2. apply chain_step; auto; try lia.
  change (2 + 1) with 3. apply chain_step; auto; try lia.
  change (3 + 1) with 4. apply chain_step; auto; try lia.
  change (4 + 1) with 5. apply chain_step; auto; try lia.
  change (5 + 1) with 6. apply chain_step; auto; try lia.
  change (6 + 1) with 7.
  rewrite <- (app_nil_r (spec_pass_lines w h 7)) at 1 2.
  apply chain_step; auto; try lia.
Qed.

(* ------------------------------------------------------------------ with `left` and byte lengths *)
Definition conv (bits : Z) (hf : bool) (o : Z * Z) : range :=
  (line_len bits hf (snd o), Some (fst o), snd o).

Lemma line_len_pos bits hf n : 1 <= bits -> 1 <= n -> 0 < line_len bits hf n.
Proof. intros. unfold line_len, cdiv. destruct hf; nia. Qed.

Lemma sumZ_app a b : sumZ (a ++ b) = sumZ a + sumZ b.
Proof. induction a; simpl; lia. Qed.

(* n more steps emit `ls`; when `left` is exactly their total length the iterator emits them and stops *)
Lemma ranges_go_lines bits hf w h : 1 <= bits ->
  forall n st fuel, (n <= fuel)%nat ->
  length (lines w h st n) = n ->
  Forall (fun o => 1 <= snd o) (lines w h st n) ->
  ranges_go fuel w h bits hf {| sl_pass := Some st; sl_left := sumZ (map (fun o => line_len bits hf (snd o)) (lines w h st n)) |}
  = Ok (map (conv bits hf) (lines w h st n)).
Proof.
  intros Hb. induction n as [|n IH]; intros st fuel Hf Hlen Hpos.
  - cbn [lines map sumZ fold_right]. destruct fuel; cbn [ranges_go ranges_next sl_left Z.eqb]; reflexivity.
  - cbn [lines] in *. destruct (next_px w h st) as [[o st']|] eqn:En; [|cbn in Hlen; lia].
    cbn [length] in Hlen. inversion Hpos as [|? ? Ho Hrest]; subst.
    cbn [map sumZ fold_right].
    set (rest := fold_right Z.add 0 (map (fun o0 => line_len bits hf (snd o0)) (lines w h st' n))).
    assert (Hrest0 : 0 <= rest).
    { subst rest. clear -Hb Hrest. induction Hrest as [|x l Hx Hl IHl]; cbn; [lia|].
      pose proof (line_len_pos bits hf (snd x) Hb Hx). lia. }
    pose proof (line_len_pos bits hf (snd o) Hb Ho) as Hlp.
    destruct fuel as [|fuel]; [lia|].
    cbn [ranges_go]. unfold ranges_next. cbn [sl_left sl_pass].
    destruct (line_len bits hf (snd o) + rest =? 0) eqn:E0; [apply Z.eqb_eq in E0; lia|].
    rewrite En. destruct o as [p px]. cbn [snd fst] in *.
    destruct (line_len bits hf px + rest <? line_len bits hf px) eqn:E1; [apply Z.ltb_lt in E1; lia|].
    destruct (line_len bits hf px <=? 0) eqn:E2; [apply Z.leb_le in E2; lia|].
    replace (line_len bits hf px + rest - line_len bits hf px) with rest by lia.
    subst rest. fold (sumZ (map (fun o0 => line_len bits hf (snd o0)) (lines w h st' n))).
    rewrite IH; auto; try lia.
Qed.

Lemma spec_lines_pos w h : 1 <= w -> 1 <= h -> Forall (fun o => 1 <= snd o) (spec_lines w h).
Proof.
  intros Hw Hh. unfold spec_lines. apply Forall_forall. intros o Ho. apply in_flat_map in Ho.
  destruct Ho as [p [Hp Ho]]. unfold spec_pass_lines in Ho.
  destruct (pw w p =? 0) eqn:E; [destruct Ho|]. apply repeat_spec in Ho. subst o. cbn [snd].
  apply Z.eqb_neq in E.
  assert (1 <= p <= 7) by (unfold passes7 in Hp; simpl in Hp; lia).
  pose proof (pw_nonneg w p Hw H). lia.
Qed.

Lemma sumZ_map_ext {A} (f g : A -> Z) l : (forall x, f x = g x) -> sumZ (map f l) = sumZ (map g l).
Proof. intros H. induction l; simpl; auto. rewrite H, IHl. reflexivity. Qed.

Lemma Z2Nat_sum_ge_len bits hf (l : list (Z * Z)) : 1 <= bits -> Forall (fun o => 1 <= snd o) l ->
  (length l <= Z.to_nat (sumZ (map (fun o => line_len bits hf (snd o)) l)))%nat.
Proof.
  intros Hb H. induction H as [|x l Hx Hl IH]; cbn; [lia|].
  pose proof (line_len_pos bits hf (snd x) Hb Hx).
  assert (0 <= sumZ (map (fun o => line_len bits hf (snd o)) l)).
  { clear -Hb Hl. induction Hl as [|y l Hy Hl IHl]; cbn; [lia|]. pose proof (line_len_pos bits hf (snd y) Hb Hy). unfold sumZ in *. lia. }
  unfold sumZ in *. lia.
Qed.

(* The interlaced iterator emits exactly the specification's scan lines *)
Theorem scan_ranges_interlaced_spec (hd : ihdr) (hf : bool) :
  1 <= width hd -> 1 <= height hd -> 1 <= bpp hd -> interlaced hd = true ->
  scan_ranges hd hf (spec_raw_size (width hd) (height hd) (bpp hd) true hf)
  = Ok (map (fun l => (snd l + (if hf then 1 else 0), fst (fst l), snd (fst l)))
            (spec_layout (width hd) (height hd) (bpp hd) true)).
Proof.
  intros Hw Hh Hb Hil. unfold scan_ranges, sl_init. rewrite Hil.
  unfold spec_raw_size, spec_layout. rewrite !map_map. cbn [snd fst].
  pose proof (lines_spec (width hd) (height hd) Hw Hh) as HL.
  pose proof (spec_lines_pos (width hd) (height hd) Hw Hh) as HP.
  set (L := spec_lines (width hd) (height hd)) in *.
  assert (E : sumZ (map (fun x : Z * Z => line_bytes (bpp hd) (snd x) + (if hf then 1 else 0)) L)
              = sumZ (map (fun o => line_len (bpp hd) hf (snd o)) (lines (width hd) (height hd) (1,0) (length L)))).
  { rewrite HL. apply sumZ_map_ext. intros x. reflexivity. }
  rewrite E.
  rewrite ranges_go_lines; auto.
  - rewrite HL. f_equal; try (apply map_ext; intros [p n]; reflexivity).
  - rewrite HL. apply Z2Nat_sum_ge_len; auto.
  - rewrite HL. reflexivity.
  - rewrite HL. exact HP.
Qed.

(* non-interlaced: h lines of w pixels *)
Lemma ranges_go_plain bits hf w h0 : 1 <= bits -> 1 <= w ->
  forall (k : nat) fuel, (k <= fuel)%nat ->
  ranges_go fuel w h0 bits hf {| sl_pass := None; sl_left := Z.of_nat k * line_len bits hf w |}
  = Ok (repeat (line_len bits hf w, None, w) k).
Proof.
  intros Hb Hw. pose proof (line_len_pos bits hf w Hb Hw) as Hlp.
  induction k as [|k IH]; intros fuel Hf.
  - destruct fuel; cbn [ranges_go ranges_next sl_left]; reflexivity.
  - destruct fuel as [|fuel]; [lia|].
    cbn [ranges_go]. unfold ranges_next. cbn [sl_left sl_pass].
    destruct (Z.of_nat (S k) * line_len bits hf w =? 0) eqn:E0; [apply Z.eqb_eq in E0; nia|].
    destruct (Z.of_nat (S k) * line_len bits hf w <? line_len bits hf w) eqn:E1; [apply Z.ltb_lt in E1; nia|].
    destruct (line_len bits hf w <=? 0) eqn:E2; [apply Z.leb_le in E2; lia|].
    replace (Z.of_nat (S k) * line_len bits hf w - line_len bits hf w) with (Z.of_nat k * line_len bits hf w) by lia.
    rewrite IH by lia. reflexivity.
Qed.

Lemma sumZ_repeat v n : sumZ (repeat v n) = Z.of_nat n * v.
Proof. induction n; cbn [repeat sumZ fold_right]; [lia|]. unfold sumZ in IHn. rewrite IHn. lia. Qed.

Lemma map_repeat' {A B} (f : A -> B) x n : map f (repeat x n) = repeat (f x) n.
Proof. induction n; simpl; congruence. Qed.

Theorem scan_ranges_plain_spec (hd : ihdr) (hf : bool) :
  1 <= width hd -> 1 <= height hd -> 1 <= bpp hd -> interlaced hd = false ->
  scan_ranges hd hf (spec_raw_size (width hd) (height hd) (bpp hd) false hf)
  = Ok (map (fun l => (snd l + (if hf then 1 else 0), fst (fst l), snd (fst l)))
            (spec_layout (width hd) (height hd) (bpp hd) false)).
Proof.
  intros Hw Hh Hb Hil. unfold scan_ranges, sl_init. rewrite Hil.
  unfold spec_raw_size, spec_layout. rewrite !map_repeat'. cbn [snd fst].
  rewrite sumZ_repeat.
  change (line_bytes (bpp hd) (width hd) + (if hf then 1 else 0)) with (line_len (bpp hd) hf (width hd)).
  pose proof (line_len_pos (bpp hd) hf (width hd) Hb Hw) as Hlp.
  rewrite ranges_go_plain; auto. nia.
Qed.

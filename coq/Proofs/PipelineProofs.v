(* Proofs about the top of the pipeline model (C04, C13): the never-larger decision. *)
From OxiVerif Require Import Base.Common Model.Types Model.Options Model.Headers Model.PngData Model.Optimize.

(* optimize_from_memory, any oracles (zlib, Brute chooser, clock): without --force the result is the
   input itself or strictly smaller *)
Theorem never_larger (e : env) (o : options) (bytes out : list Z) :
  force o = false ->
  optimize_from_memory e o bytes = Ok out ->
  out = bytes \/ lenZ out < lenZ bytes.
Proof.
  intros Hf H. unfold optimize_from_memory in H.
  destruct (from_slice e bytes o) as [p|?|?]; cbn [bind] in H; try discriminate.
  destruct (optimize_png e p o) as [out'|?|?]; cbn [bind] in H; try discriminate.
  unfold is_fully_optimized in H. rewrite Hf in H. cbn [negb] in H. rewrite andb_true_r in H.
  destruct (lenZ bytes <=? lenZ out') eqn:E; injection H as <-.
  - left. reflexivity.
  - right. apply Z.leb_gt in E. exact E.
Qed.

(* with --force the optimiser's own output is returned whatever its size *)
Theorem forced_output (e : env) (o : options) (bytes out : list Z) :
  force o = true ->
  optimize_from_memory e o bytes = Ok out ->
  exists p, from_slice e bytes o = Ok p /\ optimize_png e p o = Ok out.
Proof.
  intros Hf H. unfold optimize_from_memory in H.
  destruct (from_slice e bytes o) as [p|?|?]; cbn [bind] in H; try discriminate.
  destruct (optimize_png e p o) as [out'|?|?] eqn:E2; cbn [bind] in H; try discriminate.
  unfold is_fully_optimized in H. rewrite Hf in H. cbn [negb] in H. rewrite andb_false_r in H.
  injection H as <-. exists p. auto.
Qed.

(* ------------------------------------------------------------------ chains *)
(* any step function that returns its input or something strictly shorter *)
Section Chain.
Variable f : list Z -> list Z.
Hypothesis f_shrinks : forall x, f x = x \/ lenZ (f x) < lenZ x.

Fixpoint iter (n : nat) (x : list Z) : list Z := match n with O => x | S n => iter n (f x) end.

Lemma iter_S_out n x : iter (S n) x = f (iter n x).
Proof. revert x; induction n as [|n IH]; intros x; [reflexivity|]. cbn [iter] in *. rewrite IH. reflexivity. Qed.

Lemma iter_monotone n x : lenZ (iter n x) <= lenZ x.
Proof.
  revert x; induction n as [|n IH]; intros x; cbn [iter]; [lia|].
  specialize (IH (f x)). destruct (f_shrinks x) as [E|E]; [rewrite E in *; lia|lia].
Qed.

Lemma fixed_stays n x : f x = x -> iter n x = x.
Proof. intros E. induction n as [|n IH]; cbn [iter]; [reflexivity|]. rewrite E. exact IH. Qed.

(* repeated runs reach a byte-level fixed point after at most (length of the input) shrinking steps *)
Theorem chain_fixed_point : forall (k : nat) x, (length x <= k)%nat ->
  exists n, (n <= length x)%nat /\ f (iter n x) = iter n x.
Proof.
  induction k as [|k IH]; intros x Hk.
  - exists O. split; [lia|]. cbn [iter]. destruct (f_shrinks x) as [E|E]; auto. unfold lenZ in E. lia.
  - destruct (f_shrinks x) as [E|E].
    + exists O. split; [lia|]. exact E.
    + assert (Hlen : (length (f x) <= k)%nat) by (unfold lenZ in E; lia).
      destruct (IH (f x) Hlen) as [n [Hn Hfix]].
      exists (S n). split; [unfold lenZ in E; lia|]. cbn [iter]. exact Hfix.
Qed.
End Chain.

(* one optimisation step as a total function on bytes (errors leave the file as it is) *)
Definition opt_step (e : env) (o : options) (bytes : list Z) : list Z :=
  match optimize_from_memory e o bytes with Ok out => out | _ => bytes end.

Lemma opt_step_shrinks e o : force o = false -> forall x, opt_step e o x = x \/ lenZ (opt_step e o x) < lenZ x.
Proof.
  intros Hf x. unfold opt_step. destruct (optimize_from_memory e o x) as [out|?|?] eqn:E; auto.
  destruct (never_larger e o x out Hf E); auto.
Qed.

(* a chain with varying options and oracles never grows the file *)
Fixpoint chain (steps : list (env * options)) (x : list Z) : list Z :=
  match steps with
  | [] => x
  | (e, o) :: t => chain t (opt_step e o x)
  end.

Theorem chain_never_grows steps : Forall (fun eo => force (snd eo) = false) steps ->
  forall x, lenZ (chain steps x) <= lenZ x.
Proof.
  induction 1 as [|[e o] t Ho Ht IH]; intros x; cbn [chain]; [lia|].
  cbn [snd] in Ho. specialize (IH (opt_step e o x)).
  destruct (opt_step_shrinks e o Ho x) as [E|E]; [rewrite E in *; lia|lia].
Qed.

(* ------------------------------------------------------------------ provenance of the emitted image *)
From OxiVerif Require Import Model.Evaluate Model.Reductions Model.Filters Proofs.ReductionInv.

Lemma all_res_In {A} (l : list (res A)) outs : all_res l = Ok outs ->
  forall x, In x outs -> In (Ok x) l.
Proof.
  revert outs; induction l as [|r t IH]; intros outs H x Hx; cbn [all_res] in H.
  - injection H as <-. destruct Hx.
  - destruct r as [a|?|?]; cbn [bind] in H; try discriminate.
    destruct (all_res t) as [rest|?|?] eqn:E; cbn [bind] in H; try discriminate.
    injection H as <-. destruct Hx as [<-|Hx]; [left; reflexivity|right; eapply IH; eauto].
Qed.

Lemma run_trial_image e ev d a fr nth img f out :
  run_trial e ev d a fr nth img f = Ok out -> c_image (to_cand out) = img.
Proof.
  unfold run_trial. intros H. destruct (dl e (STrial ev nth (filter_code f))).
  - injection H as <-. reflexivity.
  - destruct (filter_image _ img f a); cbn [bind] in H; try discriminate. injection H as <-. reflexivity.
Qed.

Lemma in_number_from {A} (l : list A) : forall n k x, In (k, x) (number_from n l) -> In x l.
Proof. induction l as [|a t IH]; intros n k x H; cbn in H; [destruct H|]. destruct H as [E|H]; [injection E as _ <-; left; reflexivity|right; eauto]. Qed.

Lemma evaluator_trials_images e ev fs d a fr images outs :
  evaluator_trials e ev fs d a fr images = Ok outs ->
  forall out, In out outs -> In (c_image (to_cand out)) images.
Proof.
  unfold evaluator_trials. intros H out Hin.
  pose proof (all_res_In _ _ H out Hin) as Hl. apply in_flat_map in Hl.
  destruct Hl as [[n img] [Hni Hm]]. apply in_map_iff in Hm. destruct Hm as [f [Hf _]].
  cbn [fst snd] in Hf. rewrite (run_trial_image _ _ _ _ _ _ _ _ _ Hf). eapply in_number_from; eauto.
Qed.

Lemma evaluator_best_from outs init c : evaluator_best outs init = Some c -> exists out, In out outs /\ c = to_cand out.
Proof.
  unfold evaluator_best. intros H. destruct (best_of init (map to_trial outs)); [|discriminate].
  destruct (find _ outs) as [out|] eqn:E; [|discriminate]. injection H as <-.
  apply find_some in E. exists out. split; [apply E|reflexivity].
Qed.

(* perform_trials returns a candidate whose image is the image it was given, or the earlier result *)
Lemma perform_trials_image e o img max_size eval_result efs ed c :
  perform_trials e o img max_size eval_result efs ed = Ok (Some c) ->
  c_image c = img \/ (exists p, eval_result = Some p /\ c_image c = c_image p).
Proof.
  unfold perform_trials. intros H.
  destruct (fast_evaluation o && _) eqn:Efast.
  - match type of H with bind ?X _ = _ => destruct X as [er|er1|er2] eqn:Eer end; cbn [bind] in H; try discriminate.
    assert (Her : forall p, er = Some p -> c_image p = img \/ (exists q, eval_result = Some q /\ c_image p = c_image q)).
    { intros p ->.
      destruct (match eval_result with Some _ => filters_difference (filter o) efs | None => filter o end) eqn:Efs.
      - injection Eer as Eer. right. eauto.
      - destruct (evaluator_trials e 1 (r :: l) ed (optimize_alpha o) (deflater_eqb (deflate o) ed) [img]) as [outs|?|?] eqn:Eo;
          cbn [bind] in Eer; try discriminate.
        destruct (evaluator_best outs _) as [r0|] eqn:Eb.
        + destruct (evaluator_best_from _ _ _ Eb) as [out [Hin ->]].
          pose proof (evaluator_trials_images _ _ _ _ _ _ _ _ Eo out Hin) as Himg. destruct Himg as [Himg|[]].
          injection Eer as Eer.
          match type of Eer with (if ?b then _ else _) = _ => destruct b end.
          * injection Eer as <-. left. symmetry. exact Himg.
          * right. eauto.
        + injection Eer as Eer. right. eauto. }
    destruct er as [r|]; [|discriminate].
    destruct (c_compressed r).
    + injection H as <-. apply Her. reflexivity.
    + destruct (deflate_capped e (deflate o) (c_cdata r) max_size); injection H as <-; cbn [c_image]; apply Her; reflexivity.
  - match type of H with bind ?X _ = _ => destruct X as [outs|oe1|oe2] eqn:Eo end; cbn [bind] in H; try discriminate.
    injection H as H.
    destruct (evaluator_best outs max_size) as [new|] eqn:Eb.
    + destruct (evaluator_best_from _ _ _ Eb) as [out [Hin ->]].
      pose proof (evaluator_trials_images _ _ _ _ _ _ _ _ Eo out Hin) as Himg. destruct Himg as [Himg|[]].
      destruct eval_result as [prev|].
      * match type of H with (if ?b then _ else _) = _ => destruct b end; injection H as <-.
        -- right. eauto.
        -- left. symmetry. exact Himg.
      * injection H as <-. left. symmetry. exact Himg.
    + destruct eval_result as [prev|]; [|discriminate].
      destruct (c_compressed prev); [|discriminate]. injection H as <-. right. eauto.
Qed.

(* the image emitted by optimize_raw is the baseline of perform_reductions or one of the images it
   handed to the evaluator *)
Theorem optimize_raw_image e o img max_size c baseline evs :
  perform_reductions e o img = Ok (baseline, evs) ->
  optimize_raw e o img max_size = Ok (Some c) ->
  c_image c = baseline \/ In (c_image c) (submitted evs).
Proof.
  intros Hpr H. unfold optimize_raw in H. rewrite Hpr in H. cbn [bind] in H.
  match type of H with bind ?X _ = _ => destruct X as [outs|oe1|oe2] eqn:Eo end; cbn [bind] in H; try discriminate.
  set (eval_result := evaluator_best outs None) in *.
  assert (Hev : forall p, eval_result = Some p -> In (c_image p) (submitted evs)).
  { intros p Hp. subst eval_result. destruct (evaluator_best_from _ _ _ Hp) as [out [Hin ->]].
    eapply evaluator_trials_images; eauto. }
  set (new_image := match eval_result with Some r => c_image r | None => baseline end) in *.
  assert (Hnew : new_image = baseline \/ In new_image (submitted evs)).
  { subst new_image. destruct eval_result as [r|]; [right; apply Hev; reflexivity|left; reflexivity]. }
  match type of H with bind ?X _ = _ => destruct X as [result|re1|re2] eqn:Er end; cbn [bind] in H; try discriminate.
  destruct result as [r|]; [|discriminate].
  match type of H with (if ?b then _ else _) = _ => destruct b end; [|discriminate]. injection H as <-.
  match type of Er with (if ?b then _ else _) = _ => destruct b end.
  - destruct (perform_trials_image _ _ _ _ _ _ _ _ Er) as [E|[p [Hp E]]].
    + rewrite E. exact Hnew.
    + right. rewrite E. apply Hev. exact Hp.
  - injection Er as Er. right. apply Hev. exact Er.
Qed.

Lemma submitted_ok (Q : image -> Prop) evs : Forall (ev_ok Q) evs -> forall i, In i (submitted evs) -> Q i.
Proof.
  induction 1 as [|ev t Hev Ht IH]; intros i Hi; cbn [submitted] in Hi; [destruct Hi|].
  destruct ev as [s p|img d]; [apply IH; exact Hi|]. destruct Hi as [<-|Hi]; [exact Hev|apply IH; exact Hi].
Qed.

(* ------------------------------------------------------------------ C08 at the level of optimize_raw *)
From OxiVerif Require Import Proofs.EffectProofs Model.Color Model.BitDepth Model.Palette Model.Interlace.

Lemma optimize_raw_runs_reductions e o img max_size r :
  optimize_raw e o img max_size = Ok r -> exists b evs, perform_reductions e o img = Ok (b, evs).
Proof.
  unfold optimize_raw. intros H. destruct (perform_reductions e o img) as [[b evs]|?|?]; cbn [bind] in H; try discriminate.
  eauto.
Qed.

(* a header predicate that holds for all candidates holds for what optimize_raw emits *)
Lemma emitted_satisfies (Q : image -> Prop) e o img max_size c :
  (forall b evs, perform_reductions e o img = Ok (b, evs) -> all_candidates Q b evs) ->
  optimize_raw e o img max_size = Ok (Some c) -> Q (c_image c).
Proof.
  intros Hall H. destruct (optimize_raw_runs_reductions _ _ _ _ _ H) as (b & evs & Hpr).
  destruct (Hall b evs Hpr) as [Hb Hevs].
  destruct (optimize_raw_image _ _ _ _ _ _ _ Hpr H) as [E|Hin]; [rewrite E; exact Hb|].
  eapply submitted_ok; eauto.
Qed.

Lemma rgba8_eqb_refl c : rgba8_eqb c c = true.
Proof. destruct c as [[[r g] b] a]. cbn. rewrite !Z.eqb_refl. reflexivity. Qed.
Lemma list_eqb_refl {A} (eqb : A -> A -> bool) (Hr : forall x, eqb x x = true) l : list_eqb eqb l l = true.
Proof. induction l; cbn; auto. rewrite Hr, IHl. reflexivity. Qed.
Lemma color_type_eqb_refl c : color_type_eqb c c = true.
Proof.
  destruct c as [[k|]|[[[r g] b]|]|p| |]; cbn; rewrite ?Z.eqb_refl; auto.
  apply list_eqb_refl. apply rgba8_eqb_refl.
Qed.

(* all transformation switches off, interlacing kept, recompression off: nothing is produced, so the
   caller keeps the decoded input (same IDAT stream, same header) *)
Theorem nothing_enabled_nothing_done e o img max_size :
  bit_depth_reduction o = false -> color_type_reduction o = false -> palette_reduction o = false ->
  grayscale_reduction o = false -> interlace o = None -> idat_recoding o = false ->
  optimize_raw e o img max_size = Ok None.
Proof.
  intros Hbd Hct Hpal Hg Hil Hre.
  unfold optimize_raw, perform_reductions, s_interlace. rewrite Hil. cbn [bind].
  unfold reduction_steps. cbn [run_steps].
  unfold s_clean_alpha, s_16_to_8, s_rgb_gray, s_expand, s_baseline, s_palette, s_alpha, s_to_channels,
    s_to_indexed, s_sorts, s_depth, s_final.
  rewrite Hbd, Hct, Hpal, Hg. rewrite !andb_false_r. cbn [andb].
  unfold guard at 2 3 4 5 6 7 8 9.
  destruct (guard e (optimize_alpha o) SCleanAlpha _) as [go st1] eqn:G.
  assert (Hst1 : hdr (r_png st1) = hdr img /\ r_added st1 = false /\ submitted (rev (r_events st1)) = []).
  { unfold guard in G. destruct (optimize_alpha o); injection G as <- <-; cbn; auto. }
  destruct Hst1 as (Hh & Ha & Hs).
  set (st2 := if go then match cleaned_alpha_channel (r_png st1) with Some x => set_png st1 x true | None => st1 end else st1).
  assert (Hst2 : hdr (r_png st2) = hdr img /\ r_added st2 = false /\ r_events st2 = r_events st1).
  { subst st2. destruct go; [|auto]. destruct (cleaned_alpha_channel (r_png st1)) as [x|] eqn:E; [|auto].
    cbn. rewrite (eff_clean _ _ E). auto. }
  destruct Hst2 as (Hh2 & Ha2 & He2).
  cbn [bind guard].
  cbn [set_baseline r_added r_baseline r_events r_png].
  rewrite Ha2. cbn [bind r_baseline r_events set_baseline].
  rewrite He2, Hs. cbn [number_from flat_map all_res evaluator_trials bind].
  unfold evaluator_trials. cbn [number_from flat_map all_res bind evaluator_best map best_of best_of_go].
  rewrite Hh2. rewrite color_type_eqb_refl, Z.eqb_refl, eqb_reflx. cbn [negb orb].
  rewrite Hre. cbn [orb bind]. reflexivity.
Qed.

(* Proofs about the top of the pipeline model (C04, C13): the never-larger decision. *)
From OxiVerif Require Import Base.Common Model.Types Model.Options Model.Headers Model.PngData Model.Optimize.

(* optimize_from_memory, any oracles (zlib, Brute chooser, clock): without --force the result is the
   input itself or strictly smaller *)
Theorem never_larger (e : env) (o : options) (bytes out : list Z) :
  force o = false ->
  optimize_from_memory e o bytes = Ok out ->
  out = bytes \/ lenZ out < lenZ bytes.
Proof.
  intros Hf H. unfold optimize_from_memory in H.
  destruct (from_slice e bytes o) as [p|?|?]; cbn [bind] in H; try discriminate.
  destruct (optimize_png e p o) as [out'|?|?]; cbn [bind] in H; try discriminate.
  unfold is_fully_optimized in H. rewrite Hf in H. cbn [negb] in H. rewrite andb_true_r in H.
  destruct (lenZ bytes <=? lenZ out') eqn:E; injection H as <-.
  - left. reflexivity.
  - right. apply Z.leb_gt in E. exact E.
Qed.

(* with --force the optimiser's own output is returned whatever its size *)
Theorem forced_output (e : env) (o : options) (bytes out : list Z) :
  force o = true ->
  optimize_from_memory e o bytes = Ok out ->
  exists p, from_slice e bytes o = Ok p /\ optimize_png e p o = Ok out.
Proof.
  intros Hf H. unfold optimize_from_memory in H.
  destruct (from_slice e bytes o) as [p|?|?]; cbn [bind] in H; try discriminate.
  destruct (optimize_png e p o) as [out'|?|?] eqn:E2; cbn [bind] in H; try discriminate.
  unfold is_fully_optimized in H. rewrite Hf in H. cbn [negb] in H. rewrite andb_false_r in H.
  injection H as <-. exists p. auto.
Qed.

(* ------------------------------------------------------------------ chains *)
(* any step function that returns its input or something strictly shorter *)
Section Chain.
Variable f : list Z -> list Z.
Hypothesis f_shrinks : forall x, f x = x \/ lenZ (f x) < lenZ x.

Fixpoint iter (n : nat) (x : list Z) : list Z := match n with O => x | S n => iter n (f x) end.

Lemma iter_S_out n x : iter (S n) x = f (iter n x).
Proof. revert x; induction n as [|n IH]; intros x; [reflexivity|]. cbn [iter] in *. rewrite IH. reflexivity. Qed.

Lemma iter_monotone n x : lenZ (iter n x) <= lenZ x.
Proof.
  revert x; induction n as [|n IH]; intros x; cbn [iter]; [lia|].
  specialize (IH (f x)). destruct (f_shrinks x) as [E|E]; [rewrite E in *; lia|lia].
Qed.

Lemma fixed_stays n x : f x = x -> iter n x = x.
Proof. intros E. induction n as [|n IH]; cbn [iter]; [reflexivity|]. rewrite E. exact IH. Qed.

(* repeated runs reach a byte-level fixed point after at most (length of the input) shrinking steps *)
Theorem chain_fixed_point : forall (k : nat) x, (length x <= k)%nat ->
  exists n, (n <= length x)%nat /\ f (iter n x) = iter n x.
Proof.
  induction k as [|k IH]; intros x Hk.
  - exists O. split; [lia|]. cbn [iter]. destruct (f_shrinks x) as [E|E]; auto. unfold lenZ in E. lia.
  - destruct (f_shrinks x) as [E|E].
    + exists O. split; [lia|]. exact E.
    + assert (Hlen : (length (f x) <= k)%nat) by (unfold lenZ in E; lia).
      destruct (IH (f x) Hlen) as [n [Hn Hfix]].
      exists (S n). split; [unfold lenZ in E; lia|]. cbn [iter]. exact Hfix.
Qed.
End Chain.

(* one optimisation step as a total function on bytes (errors leave the file as it is) *)
Definition opt_step (e : env) (o : options) (bytes : list Z) : list Z :=
  match optimize_from_memory e o bytes with Ok out => out | _ => bytes end.

Lemma opt_step_shrinks e o : force o = false -> forall x, opt_step e o x = x \/ lenZ (opt_step e o x) < lenZ x.
Proof.
  intros Hf x. unfold opt_step. destruct (optimize_from_memory e o x) as [out|?|?] eqn:E; auto.
  destruct (never_larger e o x out Hf E); auto.
Qed.

(* a chain with varying options and oracles never grows the file *)
Fixpoint chain (steps : list (env * options)) (x : list Z) : list Z :=
  match steps with
  | [] => x
  | (e, o) :: t => chain t (opt_step e o x)
  end.

Theorem chain_never_grows steps : Forall (fun eo => force (snd eo) = false) steps ->
  forall x, lenZ (chain steps x) <= lenZ x.
Proof.
  induction 1 as [|[e o] t Ho Ht IH]; intros x; cbn [chain]; [lia|].
  cbn [snd] in Ho. specialize (IH (opt_step e o x)).
  destruct (opt_step_shrinks e o Ho x) as [E|E]; [rewrite E in *; lia|lia].
Qed.

(* Proofs about the Adam7 conversion model (C18). *)
From OxiVerif Require Import Base.Common Spec.Adam7 Model.Types Model.ScanLines Model.Interlace.

(* finite 8x8x7 agreement of the code's routing with the specification's start/step table and with
   the specification's 8x8 matrix *)
Definition r8 := [0;1;2;3;4;5;6;7].
Lemma route_table : forallb (fun p => forallb (fun b => forallb (fun a =>
    Bool.eqb (route b a =? p) ((b mod dy p =? y0 p) && (a mod dx p =? x0 p))) r8) r8) passes7 = true.
Proof. vm_compute. reflexivity. Qed.

Lemma matrix_table : forallb (fun b => forallb (fun a => route b a =? pass_of a b) r8) r8 = true.
Proof. vm_compute. reflexivity. Qed.

Lemma in_r8 a : 0 <= a < 8 -> In a r8.
Proof. intros H. unfold r8. assert (a=0\/a=1\/a=2\/a=3\/a=4\/a=5\/a=6\/a=7) as [->|[->|[->|[->|[->|[->|[->| ->]]]]]]] by lia; simpl; tauto. Qed.

Lemma mod_mod_8 d a : (d = 1 \/ d = 2 \/ d = 4 \/ d = 8) -> a mod d = (a mod 8) mod d.
Proof. intros [->|[->|[->| ->]]]; lia. Qed.

Lemma route_spec p x y : In p passes7 ->
  (route (y mod 8) (x mod 8) =? p) = row_in p y && col_in p x.
Proof.
  intros Hp. pose proof route_table as T. rewrite forallb_forall in T. specialize (T p Hp).
  rewrite forallb_forall in T. specialize (T (y mod 8) (in_r8 (y mod 8) ltac:(lia))).
  rewrite forallb_forall in T. specialize (T (x mod 8) (in_r8 (x mod 8) ltac:(lia))).
  apply eqb_prop in T. rewrite T. unfold row_in, col_in.
  rewrite <- (mod_mod_8 (dy p) y), <- (mod_mod_8 (dx p) x); auto;
  unfold passes7 in Hp; simpl in Hp; destruct Hp as [<-|[<-|[<-|[<-|[<-|[<-|[<-|[]]]]]]]]; cbn; tauto.
Qed.

(* the code's routing is the specification's 8x8 matrix, for every pixel position *)
Theorem route_is_matrix x y : route (y mod 8) (x mod 8) = pass_of x y.
Proof.
  pose proof matrix_table as T. rewrite forallb_forall in T.
  specialize (T (y mod 8) (in_r8 (y mod 8) ltac:(lia))).
  rewrite forallb_forall in T. specialize (T (x mod 8) (in_r8 (x mod 8) ltac:(lia))).
  apply Z.eqb_eq in T. rewrite T. unfold pass_of.
  rewrite !Z.mod_mod by lia. reflexivity.
Qed.

Section Pix.
Context {A : Type}.

Lemma sel_route_is_sel p y (l : list A) : forall i,
  sel_route p y i l = sel (fun x => route (y mod 8) (x mod 8) =? p) i l.
Proof. induction l as [|a t IH]; intros i; simpl; auto. rewrite IH. reflexivity. Qed.

Lemma sel_ext (f g : Z -> bool) (l : list A) : forall i, (forall j, f j = g j) -> sel f i l = sel g i l.
Proof. induction l as [|a t IH]; intros i H; simpl; auto. rewrite H, (IH (i+1) H). reflexivity. Qed.

Lemma sel_false (l : list A) : forall i, sel (fun _ => false) i l = [].
Proof. induction l; intros; simpl; auto. Qed.

Lemma mine_spec p y (r : list A) : In p passes7 ->
  sel_route p y 0 r = if row_in p y then sel (col_in p) 0 r else [].
Proof.
  intros Hp. rewrite sel_route_is_sel.
  rewrite (sel_ext _ (fun x => row_in p y && col_in p x)) by (intros; apply route_spec; auto).
  destruct (row_in p y); simpl.
  - apply sel_ext. reflexivity.
  - apply sel_false.
Qed.

Definition step_spec (p y : Z) (r : list A) : list (list A) :=
  if row_in p y && nonempty (sel (col_in p) 0 r) then [sel (col_in p) 0 r] else [].

Lemma elem_spec p y (r : list A) (b : list (list A)) :
  (if is_nil (if row_in p y then sel (col_in p) 0 r else []) then b else b ++ [if row_in p y then sel (col_in p) 0 r else []])
  = b ++ step_spec p y r.
Proof.
  unfold step_spec. destruct (row_in p y); cbn [andb is_nil]; [|rewrite app_nil_r; reflexivity].
  destruct (sel (col_in p) 0 r); cbn [nonempty is_nil]; [rewrite app_nil_r|]; reflexivity.
Qed.

Lemma push_line_spec y (r : list A) b1 b2 b3 b4 b5 b6 b7 :
  push_line y r [b1;b2;b3;b4;b5;b6;b7] =
  [b1 ++ step_spec 1 y r; b2 ++ step_spec 2 y r; b3 ++ step_spec 3 y r; b4 ++ step_spec 4 y r;
   b5 ++ step_spec 5 y r; b6 ++ step_spec 6 y r; b7 ++ step_spec 7 y r].
Proof.
  unfold push_line. cbn [combine map fst snd].
  rewrite !mine_spec by (unfold passes7; simpl; tauto). rewrite !elem_spec. reflexivity.
Qed.

Lemma interlace_go_spec (rows : list (list A)) : forall y b1 b2 b3 b4 b5 b6 b7,
  interlace_go y rows [b1;b2;b3;b4;b5;b6;b7] =
  [b1 ++ pass_lines 1 y rows; b2 ++ pass_lines 2 y rows; b3 ++ pass_lines 3 y rows; b4 ++ pass_lines 4 y rows;
   b5 ++ pass_lines 5 y rows; b6 ++ pass_lines 6 y rows; b7 ++ pass_lines 7 y rows].
Proof.
  induction rows as [|r t IH]; intros; cbn [interlace_go pass_lines].
  - rewrite !app_nil_r. reflexivity.
  - rewrite push_line_spec, IH. unfold step_spec. rewrite <- !app_assoc. reflexivity.
Qed.

(* the pixel routing of interlace_image is the specification's, for any number of rows and any
   row lengths *)
Theorem model_interlace_is_spec (rows : list (list A)) : model_interlace rows = spec_interlace rows.
Proof. unfold model_interlace, spec_interlace, passes7. rewrite interlace_go_spec. reflexivity. Qed.

(* ------------------------------------------------------------------ positions *)
Variable d0 : A.

Lemma nth_sel_mod (d r : Z) (l : list A) : (d = 1 \/ d = 2 \/ d = 4 \/ d = 8) -> 0 <= r < d ->
  forall (k : nat) (i : Z), 0 <= i ->
  let first := i + (r - i) mod d in
  first + Z.of_nat k * d - i < Z.of_nat (length l) ->
  nth k (sel (fun x => x mod d =? r) i l) d0 = nth (Z.to_nat (first + Z.of_nat k * d - i)) l d0.
Proof.
  intros Hd Hr.
  induction l as [|a t IH]; intros k i Hi first Hlt.
  - exfalso. cbn [length] in Hlt. subst first. destruct Hd as [->|[->|[->| ->]]]; lia.
  - cbn [sel]. cbn [length] in Hlt.
    destruct (i mod d =? r) eqn:E.
    + apply Z.eqb_eq in E.
      assert (Hf : first = i) by (subst first; destruct Hd as [->|[->|[->| ->]]]; lia).
      destruct k as [|k].
      * rewrite Hf. replace (i + Z.of_nat 0 * d - i) with 0 by lia. reflexivity.
      * cbn [nth].
        assert (Hn : (i + 1) + (r - (i + 1)) mod d = i + d) by (destruct Hd as [->|[->|[->| ->]]]; lia).
        specialize (IH k (i + 1) ltac:(lia)). cbn zeta in IH. rewrite Hn in IH.
        rewrite IH by (rewrite Hf in Hlt; destruct Hd as [->|[->|[->| ->]]]; lia).
        rewrite Hf.
        replace (Z.to_nat (i + Z.of_nat (S k) * d - i)) with (S (Z.to_nat (i + d + Z.of_nat k * d - (i + 1))))
          by (destruct Hd as [->|[->|[->| ->]]]; lia).
        reflexivity.
    + apply Z.eqb_neq in E.
      assert (Hn : (i + 1) + (r - (i + 1)) mod d = first) by (subst first; destruct Hd as [->|[->|[->| ->]]]; lia).
      assert (Hge : i + 1 <= first) by (subst first; destruct Hd as [->|[->|[->| ->]]]; lia).
      specialize (IH k (i + 1) ltac:(lia)). cbn zeta in IH. rewrite Hn in IH.
      rewrite IH by (destruct Hd as [->|[->|[->| ->]]]; lia).
      replace (Z.to_nat (first + Z.of_nat k * d - i)) with (S (Z.to_nat (first + Z.of_nat k * d - (i + 1))))
        by (destruct Hd as [->|[->|[->| ->]]]; lia).
      reflexivity.
Qed.

(* the k-th pixel of a pass row is pixel x0 + k*dx of the source row *)
Corollary nth_sel_col p (r : list A) (k : nat) : In p passes7 ->
  x0 p + Z.of_nat k * dx p < Z.of_nat (length r) ->
  nth k (sel (col_in p) 0 r) d0 = nth (Z.to_nat (x0 p + Z.of_nat k * dx p)) r d0.
Proof.
  intros Hp Hlt. unfold col_in.
  assert (Hd : 0 < dx p /\ 0 <= x0 p < dx p) by (unfold passes7 in Hp; simpl in Hp; destruct Hp as [<-|[<-|[<-|[<-|[<-|[<-|[<-|[]]]]]]]]; cbn; lia).
  destruct Hd as [Hd Hr].
  assert (Hd' : dx p = 1 \/ dx p = 2 \/ dx p = 4 \/ dx p = 8) by (unfold passes7 in Hp; simpl in Hp; destruct Hp as [<-|[<-|[<-|[<-|[<-|[<-|[<-|[]]]]]]]]; cbn; lia).
  pose proof (nth_sel_mod (dx p) (x0 p) r Hd' Hr k 0 ltac:(lia)) as H. cbn zeta in H.
  rewrite Z.add_0_l, Z.sub_0_r, Z.mod_small in H by lia. rewrite Z.sub_0_r in H. apply H. lia.
Qed.

End Pix.

From OxiVerif Require Import Base.Common Model.Types Model.ScanLines Model.Palette.
From OxiVerif Require Import Proofs.CoocMatrix Proofs.SortGraph.
Local Open Scope Z_scope.

(* ---------------------------------------------------------------- swap_remove *)
Lemma removelast_length {A} (l : list A) : length (removelast l) = (length l - 1)%nat.
Proof. induction l as [|a [|b t] IH]; cbn [removelast length] in *; try lia. Qed.

Lemma swap_remove_in {A} (l : list A) pos x : In x (swap_remove l pos) -> In x l.
Proof.
  unfold swap_remove. destruct (rev l) as [|lastx r] eqn:Er; [intros []|].
  assert (Hl : l = rev r ++ [lastx]) by (rewrite <- (rev_involutive l), Er; reflexivity).
  assert (Hrl : removelast l = rev r) by (rewrite Hl; apply removelast_last).
  destruct (pos =? length l - 1)%nat.
  - rewrite Hrl, Hl. intros H. apply in_or_app. left. exact H.
  - rewrite Hrl. intros H. apply In_nth with (d := lastx) in H. destruct H as (k & Hk & <-). rewrite set_nth_length in Hk.
    rewrite nth_set_nth. destruct ((k =? pos)%nat && (pos <? length (rev r))%nat).
    + rewrite Hl. apply in_or_app. right. left. reflexivity.
    + rewrite Hl. apply in_or_app. left. apply nth_In. exact Hk.
Qed.

Lemma swap_remove_keep {A} (l : list A) pos x : (pos < length l)%nat -> In x l -> nth_error l pos = Some x \/ In x (swap_remove l pos).
Proof.
  intros Hpos Hx. unfold swap_remove. destruct (rev l) as [|lastx r] eqn:Er.
  { apply (f_equal (@length A)) in Er. rewrite rev_length in Er. cbn in Er. lia. }
  assert (Hl : l = rev r ++ [lastx]) by (rewrite <- (rev_involutive l), Er; reflexivity).
  assert (Hrl : removelast l = rev r) by (rewrite Hl; apply removelast_last).
  assert (Hlen : length l = S (length (rev r))) by (rewrite Hl, app_length; cbn; lia).
  rewrite Hrl. rewrite Hl in Hx. apply in_app_or in Hx.
  destruct (Nat.eqb_spec pos (length l - 1)) as [Ep|Ep].
  - destruct Hx as [Hx|[<-|[]]]; [right; exact Hx|]. left. rewrite Hl, nth_error_app2 by lia. replace (pos - length (rev r))%nat with 0%nat by lia. reflexivity.
  - assert (Hp' : (pos < length (rev r))%nat) by lia.
    destruct Hx as [Hx|[<-|[]]].
    + apply In_nth with (d := lastx) in Hx. destruct Hx as (k & Hk & <-).
      destruct (Nat.eq_dec k pos) as [->|Hne].
      * left. rewrite Hl, nth_error_app1 by lia. apply nth_error_nth'. lia.
      * right. replace (nth k (rev r) lastx) with (nth k (set_nth pos lastx (rev r)) lastx).
        -- apply nth_In. rewrite set_nth_length. exact Hk.
        -- rewrite nth_set_nth. destruct (Nat.eqb_spec k pos); [contradiction|reflexivity].
    + right. replace lastx with (nth pos (set_nth pos lastx (rev r)) lastx) at 1.
      * apply nth_In. rewrite set_nth_length. exact Hp'.
      * rewrite nth_set_nth, Nat.eqb_refl. destruct (Nat.ltb_spec pos (length (rev r))); [reflexivity|lia].
Qed.

Lemma swap_remove_length {A} (l : list A) pos : l <> [] -> length (swap_remove l pos) = (length l - 1)%nat.
Proof.
  intros Hne. unfold swap_remove. destruct (rev l) as [|lastx r] eqn:Er.
  { exfalso. apply Hne. rewrite <- (rev_involutive l), Er. reflexivity. }
  destruct (pos =? length l - 1)%nat; [apply removelast_length|]. rewrite set_nth_length. apply removelast_length.
Qed.

(* ---------------------------------------------------------------- mzeng_update *)
Definition upd (m : matrix) (bi : Z) (cs : Z * Z) : Z * Z := (fst cs, snd cs + mget m bi (fst cs)).

Lemma mzeng_update_spec m bi : forall sums i bp b S' bp' b',
  mzeng_update sums i bi m bp b = (S', bp', b') ->
  S' = map (upd m bi) sums /\
  ((bp' = bp /\ b' = b /\ forall c s, In (c, s) S' -> s <= snd b) \/
   (exists k, bp' = (i + k)%nat /\ nth_error S' k = Some b' /\ snd b < snd b')).
Proof.
  induction sums as [|[c s] t IH]; intros i bp b S' bp' b' H; cbn [mzeng_update] in H.
  - injection H as <- <- <-. split; [reflexivity|]. left. repeat split. intros c s [].
  - set (s' := s + mget m bi c) in *.
    destruct (Z.ltb_spec (snd b) s') as [Hlt|Hge].
    + destruct (mzeng_update t (S i) bi m i (c, s')) as [[t' bp1] b1] eqn:E. injection H as <- <- <-.
      destruct (IH _ _ _ _ _ _ E) as [Et [(-> & -> & Hall)|(k & -> & Hk & Hs)]].
      * split; [cbn [map upd fst snd]; fold s'; rewrite Et; reflexivity|]. right. exists 0%nat. split; [lia|]. split; [reflexivity|exact Hlt].
      * split; [cbn [map upd fst snd]; fold s'; rewrite Et; reflexivity|]. right. exists (S k). split; [lia|]. split; [exact Hk|cbn [snd] in Hs; lia].
    + destruct (mzeng_update t (S i) bi m bp b) as [[t' bp1] b1] eqn:E. injection H as <- <- <-.
      destruct (IH _ _ _ _ _ _ E) as [Et [(-> & -> & Hall)|(k & -> & Hk & Hs)]].
      * split; [cbn [map upd fst snd]; fold s'; rewrite Et; reflexivity|]. left. repeat split. intros c0 s0 [[= <- <-]|Hin]; [exact Hge|eapply Hall; eauto].
      * split; [cbn [map upd fst snd]; fold s'; rewrite Et; reflexivity|]. right. exists (S k). split; [lia|]. split; [exact Hk|exact Hs].
Qed.

(* ---------------------------------------------------------------- the main loop *)
Section Loop.
Variable n : nat.
Variable m : matrix.
Variable vs : list Z.
Hypothesis HI : cooc_inv n m vs.

Definition covers_state (R : list Z) (Sm : list (Z * Z)) : Prop := forall c, In c vs -> In c R \/ In c (map fst Sm).
Definition sums_ok (R : list Z) (Sm : list (Z * Z)) : Prop :=
  forall c s, In (c, s) Sm -> 0 <= s /\ 0 <= c /\ forall r, In r R -> mget m c r <= s.
Definition best_ok (Sm : list (Z * Z)) (bp : nat) (b : Z * Z) : Prop :=
  (nth_error Sm bp = Some b /\ 0 < snd b) \/ (b = (0, 0) /\ forall c s, In (c, s) Sm -> s <= 0).
Definition has_used (R : list Z) : Prop := exists r, In r R /\ In r vs.

Lemma all_zero_all_placed R Sm : covers_state R Sm -> sums_ok R Sm -> has_used R -> Forall (fun r => 0 <= r) R ->
  (forall c s, In (c, s) Sm -> s <= 0) -> forall c, In c vs -> In c R.
Proof.
  intros Hc Hs (r0 & Hr0 & Ur0) Hpos Hz c Uc.
  destruct (in_dec Z.eq_dec c R) as [|Hnc]; [assumption|exfalso].
  destruct (seq_connect (fun v => In v R) (fun v => ~ In v R) ltac:(intros v A B; exact (B A)) vs) as (x & y & Hxy & C).
  - intros v _. destruct (in_dec Z.eq_dec v R); [left|right]; assumption.
  - exists r0. split; assumption.
  - exists c. split; assumption.
  - destruct HI as [_ Rg _ Y A _]. destruct (adjacent_in _ _ _ Hxy) as [Ix Iy]. rewrite Forall_forall in Rg.
    pose proof (Rg x Ix) as Hx. pose proof (Rg y Iy) as Hy. pose proof (A x y Hxy) as Axy.
    assert (Ayx : 1 <= mget m y x) by (rewrite <- (Y x y) by lia; exact Axy).
    destruct C as [[Px Py]|[Px Py]].
    + destruct (Hc y Iy) as [|Hin]; [contradiction|]. apply in_map_iff in Hin. destruct Hin as [[c' s] [E Hin]]. cbn [fst] in E. subst c'.
      destruct (Hs y s Hin) as (_ & _ & Hle). specialize (Hle x Px). specialize (Hz y s Hin). lia.
    + destruct (Hc x Ix) as [|Hin]; [contradiction|]. apply in_map_iff in Hin. destruct Hin as [[c' s] [E Hin]]. cbn [fst] in E. subst c'.
      destruct (Hs x s Hin) as (_ & _ & Hle). specialize (Hle y Py). specialize (Hz x s Hin). lia.
Qed.

Lemma loop_covers : forall fuel R Sm bp b, (length Sm <= fuel)%nat ->
  covers_state R Sm -> sums_ok R Sm -> best_ok Sm bp b -> has_used R -> Forall (fun r => 0 <= r) R ->
  let Rf := mzeng_loop fuel (Z.of_nat n) m R Sm bp b in
  (forall c, In c vs -> In c Rf) /\ length Rf = (length R + length Sm)%nat.
Proof.
  induction fuel as [|f IH]; intros R Sm bp b Hf Hc Hs Hb Hu Hpos; cbn zeta.
  - destruct Sm; [|cbn in Hf; lia]. cbn [mzeng_loop length]. split; [|lia]. intros c Uc. destruct (Hc c Uc) as [|[]]; assumption.
  - cbn [mzeng_loop]. destruct Sm as [|s0 Sm'] eqn:ES.
    { cbn [length]. split; [|lia]. intros c Uc. destruct (Hc c Uc) as [|[]]; assumption. }
    rewrite <- ES in *. assert (Hne : Sm <> []) by (rewrite ES; discriminate).
    set (bi := fst b). set (R' := if 0 <? mzeng_delta R 0 (Z.of_nat n - lenZ Sm) bi m then bi :: R else R ++ [bi]).
    assert (HinR' : forall x, In x R' <-> x = bi \/ In x R).
    { intros x. unfold R'. destruct (0 <? _); [cbn; intuition|]. rewrite in_app_iff. cbn. intuition. }
    assert (HlenR' : length R' = S (length R)) by (unfold R'; destruct (0 <? _); [reflexivity|rewrite app_length; cbn; lia]).
    (* what the removal does *)
    assert (Hstep : covers_state R' (swap_remove Sm bp) /\ 0 <= bi).
    { destruct Hb as [[Hnth Hposb]|[-> Hz]].
      - assert (Hbp : (bp < length Sm)%nat) by (apply nth_error_Some; rewrite Hnth; discriminate).
        assert (Hbin : In b Sm) by (eapply nth_error_In; eauto). destruct b as [cb sb]. destruct (Hs cb sb Hbin) as (_ & Hcb & _). split; [|exact Hcb].
        intros c Uc. destruct (Hc c Uc) as [Hr|Hin]; [left; apply HinR'; right; exact Hr|].
        apply in_map_iff in Hin. destruct Hin as [[c' s] [E Hin]]. cbn [fst] in E. subst c'.
        destruct (swap_remove_keep Sm bp (c, s) Hbp Hin) as [Heq|Hk].
        + rewrite Hnth in Heq. injection Heq as <- <-. left. apply HinR'. left. reflexivity.
        + right. apply in_map_iff. exists (c, s). split; [reflexivity|exact Hk].
      - split; [|cbn; lia]. intros c Uc. left. apply HinR'. right. eapply all_zero_all_placed; eauto. }
    destruct Hstep as [Hc1 Hbi].
    assert (Hu' : has_used R') by (destruct Hu as (r & Hr & Ur); exists r; split; [apply HinR'; right; exact Hr|exact Ur]).
    assert (Hpos' : Forall (fun r => 0 <= r) R').
    { apply Forall_forall. intros x Hx. apply HinR' in Hx. destruct Hx as [->|Hx]; [exact Hbi|]. rewrite Forall_forall in Hpos. apply Hpos. exact Hx. }
    pose proof (swap_remove_length Sm bp Hne) as Hl1.
    assert (Hge1 : (1 <= length Sm)%nat) by (destruct Sm; [contradiction|cbn; lia]).
    destruct (swap_remove Sm bp) as [|s1 S1'] eqn:E1.
    { cbn [length] in *. split; [|lia]. intros c Uc. destruct (Hc1 c Uc) as [|[]]; assumption. }
    rewrite <- E1 in *.
    destruct (mzeng_update (swap_remove Sm bp) 0 bi m 0 (0, 0)) as [[S2 bp2] b2] eqn:Eu.
    destruct (mzeng_update_spec m bi _ _ _ _ _ _ _ Eu) as [ES2 Hbest].
    assert (Hfst : map fst S2 = map fst (swap_remove Sm bp)) by (rewrite ES2, map_map; reflexivity).
    assert (Hlen2 : length S2 = length (swap_remove Sm bp)) by (rewrite ES2, map_length; reflexivity).
    destruct (IH R' S2 bp2 b2) as [G1 G2]; try assumption.
    + lia.
    + intros c Uc. rewrite Hfst. apply Hc1. exact Uc.
    + intros c s Hin. rewrite ES2 in Hin. apply in_map_iff in Hin. destruct Hin as [[c0 s0'] [E Hin]]. unfold upd in E. cbn [fst snd] in E. injection E as <- <-.
      apply swap_remove_in in Hin. destruct (Hs c0 s0' Hin) as (H0 & Hc0 & Hle).
      destruct HI as [_ _ N Y _ _]. pose proof (N bi c0 Hbi Hc0).
      split; [lia|]. split; [exact Hc0|]. intros r Hr. apply HinR' in Hr. destruct Hr as [->|Hr].
      * rewrite (Y c0 bi) by lia. lia.
      * specialize (Hle r Hr). lia.
    + destruct Hbest as [(-> & -> & Hall)|(k & -> & Hk & Hsn)]; [right; split; [reflexivity|exact Hall]|left; split; [exact Hk|cbn [snd] in Hsn; exact Hsn]].
    + split; [exact G1|]. rewrite G2, HlenR', Hlen2, Hl1. lia.
Qed.
End Loop.

(* ---------------------------------------------------------------- the initial sums *)
Definition init_step (m : matrix) (e0 e1 : Z) (acc : list (Z * Z) * nat * (Z * Z)) (i : nat) : list (Z * Z) * nat * (Z * Z) :=
  let '(sums, bp, b) := acc in
  let iz := Z.of_nat i in
  if (iz =? e0) || (iz =? e1) then acc else
  let s := mget m iz e0 + mget m iz e1 in
  let '(bp', b') := if snd b <? s then (length sums, (iz, s)) else (bp, b) in
  (sums ++ [(iz, s)], bp', b').

Definition keep (e0 e1 : Z) (z : Z) : bool := negb ((z =? e0) || (z =? e1)).

Lemma init_fold m e0 e1 : forall l sums bp b, best_ok sums bp b ->
  let '(sums', bp', b') := fold_left (init_step m e0 e1) l (sums, bp, b) in
  map fst sums' = map fst sums ++ List.filter (keep e0 e1) (map Z.of_nat l) /\ best_ok sums' bp' b' /\
  (forall c s, In (c, s) sums' -> In (c, s) sums \/ (s = mget m c e0 + mget m c e1 /\ 0 <= c)).
Proof.
  induction l as [|i t IH]; intros sums bp b Hb; cbn [fold_left map List.filter].
  - rewrite app_nil_r. repeat split; auto.
  - unfold init_step at 2. unfold keep at 1. destruct ((Z.of_nat i =? e0) || (Z.of_nat i =? e1)) eqn:Ek; cbn [negb].
    + apply IH. exact Hb.
    + set (s := mget m (Z.of_nat i) e0 + mget m (Z.of_nat i) e1).
      assert (Hb' : best_ok (sums ++ [(Z.of_nat i, s)]) (if snd b <? s then length sums else bp) (if snd b <? s then (Z.of_nat i, s) else b)).
      { destruct (Z.ltb_spec (snd b) s) as [Hlt|Hge].
        - left. split; [rewrite nth_error_app2, Nat.sub_diag by lia; reflexivity|]. cbn [snd].
          destruct Hb as [[_ Hp]|[-> _]]; [lia|cbn in Hlt; lia].
        - destruct Hb as [[Hn Hp]|[-> Hz]].
          + left. split; [|exact Hp]. rewrite nth_error_app1; [exact Hn|]. apply nth_error_Some. rewrite Hn. discriminate.
          + right. split; [reflexivity|]. intros c s0 Hin. apply in_app_or in Hin. destruct Hin as [Hin|[[= <- <-]|[]]]; [eapply Hz; eauto|cbn in Hge; lia]. }
      destruct (snd b <? s) eqn:El.
      * specialize (IH (sums ++ [(Z.of_nat i, s)]) (length sums) (Z.of_nat i, s) Hb').
        destruct (fold_left (init_step m e0 e1) t (sums ++ [(Z.of_nat i, s)], length sums, (Z.of_nat i, s))) as [[sums' bp'] b'].
        destruct IH as (E & B & M). split; [rewrite E, map_app; cbn [map fst]; rewrite <- app_assoc; reflexivity|]. split; [exact B|].
        intros c s0 Hin. destruct (M c s0 Hin) as [Hin'|R]; [|right; exact R]. apply in_app_or in Hin'. destruct Hin' as [?|[[= <- <-]|[]]]; [left; assumption|right; split; [reflexivity|lia]].
      * specialize (IH (sums ++ [(Z.of_nat i, s)]) bp b Hb').
        destruct (fold_left (init_step m e0 e1) t (sums ++ [(Z.of_nat i, s)], bp, b)) as [[sums' bp'] b'].
        destruct IH as (E & B & M). split; [rewrite E, map_app; cbn [map fst]; rewrite <- app_assoc; reflexivity|]. split; [exact B|].
        intros c s0 Hin. destruct (M c s0 Hin) as [Hin'|R]; [|right; exact R]. apply in_app_or in Hin'. destruct Hin' as [?|[[= <- <-]|[]]]; [left; assumption|right; split; [reflexivity|lia]].
Qed.

Lemma filter_two_length (l : list Z) a b : NoDup l -> In a l -> In b l -> a <> b ->
  (length (List.filter (keep a b) l) + 2 = length l)%nat.
Proof.
  intros Hnd. revert a b. induction Hnd as [|x t Hx Hnd IH]; intros a b Ha Hb Hab; [destruct Ha|].
  assert (G : forall c, ~ In c t -> forall d, length (List.filter (fun z => negb (z =? d)) t) = length (List.filter (keep c d) t) /\
                                          length (List.filter (fun z => negb (z =? d)) t) = length (List.filter (keep d c) t)).
  { intros c Hc d. split; f_equal; apply filter_ext_in; intros z Hz; unfold keep; destruct (Z.eqb_spec z c); subst; try contradiction; cbn; try reflexivity; rewrite orb_false_r; reflexivity. }
  assert (G1 : forall d, In d t -> (length (List.filter (fun z => negb (Z.eqb z d)) t) + 1 = length t)%nat).
  { clear -Hnd. induction Hnd as [|y u Hy Hnd IH]; intros d Hd; [destruct Hd|]. cbn [List.filter length]. destruct Hd as [->|Hd].
    - rewrite Z.eqb_refl. cbn [negb]. assert (E : List.filter (fun z => negb (z =? d)) u = u); [|rewrite E; lia].
      clear -Hy. induction u as [|z u IH]; [reflexivity|]. cbn [List.filter]. destruct (Z.eqb_spec z d); [subst; exfalso; apply Hy; left; reflexivity|]. cbn [negb]. f_equal. apply IH. intros H. apply Hy. right. exact H.
    - destruct (Z.eqb_spec y d); [subst; contradiction|]. cbn [negb length]. specialize (IH d Hd). lia. }
  cbn [List.filter length]. unfold keep at 1.
  destruct Ha as [->|Ha], Hb as [->|Hb]; try contradiction.
  - rewrite Z.eqb_refl. cbn [orb negb]. destruct (G a Hx b) as [E _]. rewrite <- E. specialize (G1 b Hb). lia.
  - rewrite Z.eqb_refl, orb_true_r. cbn [negb]. destruct (G b Hx a) as [_ E]. rewrite <- E. specialize (G1 a Ha). lia.
  - destruct (Z.eqb_spec x a); [subst; contradiction|]. destruct (Z.eqb_spec x b); [subst; contradiction|]. cbn [orb negb length]. specialize (IH a b Ha Hb Hab). lia.
Qed.

Lemma NoDup_map_of_nat a k : NoDup (map Z.of_nat (seq a k)).
Proof.
  revert a. induction k as [|k IH]; intros a; cbn [seq map]; constructor; [|apply IH].
  intros H. apply in_map_iff in H. destruct H as (x & E & Hx). apply in_seq in Hx. lia.
Qed.

Theorem mzeng_reindex_covers (n : nat) m vs R :
  cooc_inv n m vs ->
  (exists x y, In x vs /\ In y vs /\ x <> y) ->
  mzeng_reindex n (weighted_edges m) m = Ok R ->
  (forall c, In c vs -> In c R) /\ length R = n.
Proof.
  intros HI (x & y & Ix & Iy & Hxy) H.
  pose proof HI as [[Hlm Hrows] Rg N Y A U]. rewrite Forall_forall in Rg.
  unfold mzeng_reindex in H. destruct (weighted_edges m) as [|[e0 e1] rest] eqn:Ew; [discriminate|].
  destruct (weighted_edges_head m e0 e1 rest Ew) as (He0 & He1 & Hmax). unfold lenZ in *. rewrite Hlm in *.
  (* an adjacent pair of different values exists, hence the heaviest edge joins two used values *)
  destruct (seq_connect (fun v => v = x) (fun v => v <> x) ltac:(intros v A1 B1; exact (B1 A1)) vs) as (a & b & Hab & C).
  { intros v _. destruct (Z.eq_dec v x); [left|right]; assumption. }
  { exists x. split; [exact Ix|reflexivity]. }
  { exists y. split; [exact Iy|congruence]. }
  assert (Hne : a <> b) by (destruct C as [[-> B1]|[B1 ->]]; congruence).
  destruct (adjacent_in _ _ _ Hab) as [Ia Ib]. pose proof (Rg a Ia) as Ra. pose proof (Rg b Ib) as Rb. pose proof (A a b Hab) as Wab.
  assert (Wmax : 1 <= mget m e1 e0).
  { destruct (Z_lt_dec a b).
    - specialize (Hmax a b ltac:(lia) ltac:(lia)). rewrite (Y b a) in Hmax by lia. lia.
    - specialize (Hmax b a ltac:(lia) ltac:(lia)). lia. }
  destruct (U e1 e0 ltac:(lia) ltac:(lia) ltac:(lia)) as [Ue1 Ue0].
  (* the initial sums *)
  match type of H with context [fold_left ?f ?l ?a] => change (fold_left f l a) with (fold_left (init_step m e0 e1) l a) in H end.
  pose proof (init_fold m e0 e1 (seq 0 n) [] 0%nat (0, 0) ltac:(right; split; [reflexivity|intros c s []])) as F.
  destruct (fold_left (init_step m e0 e1) (seq 0 n) ([], 0%nat, (0, 0))) as [[S0 bp0] b0].
  destruct F as (E0 & B0 & M0). cbn [map app] in E0. cbv beta iota in H. injection H as <-.
  assert (Hlen0 : (length S0 + 2 = n)%nat).
  { rewrite <- (map_length fst S0), E0. rewrite (filter_two_length (map Z.of_nat (seq 0 n)) e0 e1).
    - rewrite map_length, seq_length. reflexivity.
    - apply NoDup_map_of_nat.
    - apply in_map_iff. exists (Z.to_nat e0). split; [lia|apply in_seq; lia].
    - apply in_map_iff. exists (Z.to_nat e1). split; [lia|apply in_seq; lia].
    - lia. }
  destruct (loop_covers n m vs HI n [e0; e1] S0 bp0 b0) as [G1 G2].
  - lia.
  - intros c Uc. pose proof (Rg c Uc) as Rc. destruct (Z.eq_dec c e0) as [->|N0]; [left; left; reflexivity|].
    destruct (Z.eq_dec c e1) as [->|N1]; [left; right; left; reflexivity|]. right. rewrite E0. apply filter_In. split.
    + apply in_map_iff. exists (Z.to_nat c). split; [lia|apply in_seq; lia].
    + unfold keep. destruct (Z.eqb_spec c e0); [contradiction|]. destruct (Z.eqb_spec c e1); [contradiction|]. reflexivity.
  - intros c s Hin. destruct (M0 c s Hin) as [[]|[-> Hc]]. pose proof (N c e0 Hc ltac:(lia)). pose proof (N c e1 Hc ltac:(lia)).
    split; [lia|]. split; [exact Hc|]. intros r [<-|[<-|[]]]; lia.
  - exact B0.
  - exists e0. split; [left; reflexivity|exact Ue0].
  - repeat constructor; lia.
  - split; [exact G1|]. rewrite G2. cbn [length]. lia.
Qed.

Lemma mzeng_loop_length m nn : forall fuel R Sm bp b, (length Sm <= fuel)%nat ->
  length (mzeng_loop fuel nn m R Sm bp b) = (length R + length Sm)%nat.
Proof.
  induction fuel as [|f IH]; intros R Sm bp b Hf.
  - destruct Sm; [cbn; lia|cbn in Hf; lia].
  - cbn [mzeng_loop]. destruct Sm as [|s0 S'] eqn:ES; [cbn; lia|]. rewrite <- ES in *.
    assert (Hne : Sm <> []) by (rewrite ES; discriminate).
    assert (Hge1 : (1 <= length Sm)%nat) by (rewrite ES; cbn; lia).
    set (R' := if 0 <? _ then _ :: R else R ++ [_]).
    assert (HlenR' : length R' = S (length R)) by (unfold R'; destruct (0 <? _); [reflexivity|rewrite app_length; cbn; lia]).
    pose proof (swap_remove_length Sm bp Hne) as Hl1.
    destruct (swap_remove Sm bp) as [|s1 S1'] eqn:E1; [cbn [length] in *; lia|]. rewrite <- E1 in *.
    destruct (mzeng_update (swap_remove Sm bp) 0 (fst b) m 0 (0, 0)) as [[S2 bp2] b2] eqn:Eu.
    destruct (mzeng_update_spec m (fst b) _ _ _ _ _ _ _ Eu) as [ES2 _].
    rewrite IH by (rewrite ES2, map_length; lia). rewrite ES2, map_length. lia.
Qed.

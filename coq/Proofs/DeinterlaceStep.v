From OxiVerif Require Import Base.Common Spec.Adam7 Model.Types Model.ScanLines Model.Interlace Proofs.InterlaceProofs Proofs.Adam7RoundTrip.
From OxiVerif Require Import Proofs.DeinterlaceCore.
Local Open Scope Z_scope.

Definition pow8 (d : Z) : Prop := d = 1 \/ d = 2 \/ d = 4 \/ d = 8.

Lemma mod_decomp d r v : pow8 d -> 0 <= r < d -> 0 <= v -> v mod d = r -> 0 <= (v - r) / d /\ v = r + (v - r) / d * d /\ r <= v.
Proof. intros [->|[->|[->| ->]]] Hr Hv Hm; lia. Qed.

Lemma row_fit d a j : pow8 d -> 0 < a -> 0 <= j < cdiv a d -> 0 <= j * d < a.
Proof. unfold cdiv. intros [->|[->|[->| ->]]] Ha Hj; lia. Qed.

Lemma last_fit d a : pow8 d -> 0 < a -> (cdiv a d - 1) * d < a.
Proof. unfold cdiv. intros [->|[->|[->| ->]]] Ha; lia. Qed.

Lemma pow8_pos d : pow8 d -> 0 < d.
Proof. intros [->|[->|[->| ->]]]; lia. Qed.

Lemma mod_of_decomp d r k : pow8 d -> 0 <= r < d -> 0 <= k -> (r + k * d) mod d = r /\ (r + k * d - r) / d = k.
Proof. intros [->|[->|[->| ->]]] Hr Hk; lia. Qed.

Lemma cdiv_fit d a : pow8 d -> 0 < a -> 0 < cdiv a d /\ (cdiv a d - 1) * d < a <= cdiv a d * d.
Proof. unfold cdiv. intros [->|[->|[->| ->]]] Ha; lia. Qed.

Lemma idx_lt d a v : pow8 d -> 0 <= v < a -> v / d < cdiv a d.
Proof. unfold cdiv. intros [->|[->|[->| ->]]] Hv; lia. Qed.

Lemma decomp_unique d r v k : pow8 d -> 0 <= r < d -> v = r + k * d -> 0 <= k -> v mod d = r.
Proof. intros Hd Hr -> Hk. apply (mod_of_decomp d r k Hd Hr Hk). Qed.

Lemma next_row d a j : pow8 d -> 0 < a -> 0 <= j < cdiv a d -> (a <= (j + 1) * d <-> j + 1 = cdiv a d).
Proof. unfold cdiv. intros [->|[->|[->| ->]]] Ha Hj; lia. Qed.

Section DI.
Context {A : Type}.
Variable blank : A.
Variables w h : Z.
Variable limit : bool.
Hypothesis Hw : 1 <= w.
Hypothesis Hh : 1 <= h.
Variable blk : Z -> list (list A).

Definition line_ok (p : Z) (l : list A) : Prop :=
  (Z.to_nat (pw w p) <= length l)%nat /\ (limit = false -> length l = Z.to_nat (pw w p)).

Hypothesis Hblk : forall p, In p passes7 -> active w h p ->
  length (blk p) = Z.to_nat (ph h p) /\ Forall (line_ok p) (blk p).

Definition eff (p : Z) (l : list A) : list A := if limit then firstn (Z.to_nat (pw w p)) l else l.

Definition src (x y : Z) : A :=
  let q := pass_of x y in
  nth (Z.to_nat ((x - x0 q) / dx q)) (eff q (nth (Z.to_nat ((y - y0 q) / dy q)) (blk q) [])) blank.

Definition cell (G : list (list A)) (x y : Z) : option A :=
  match nth_error G (Z.to_nat y) with Some r => nth_error r (Z.to_nat x) | None => None end.

Definition done (p j x y : Z) : Prop :=
  let q := pass_of x y in q < p \/ (q = p /\ (y - y0 q) / dy q < j).

Definition Inv (G : list (list A)) (p j : Z) : Prop :=
  length G = Z.to_nat h /\ Forall (fun r => length r = Z.to_nat w) G /\
  forall x y, 0 <= x < w -> 0 <= y < h -> done p j x y -> cell G x y = Some (src x y).

Lemma pw_active p : active w h p -> pw w p = cdiv (w - x0 p) (dx p).
Proof. clear Hblk Hw Hh. intros [H _]. unfold pw. destruct (Z.leb_spec w (x0 p)); [lia|reflexivity]. Qed.
Lemma ph_active p : active w h p -> ph h p = cdiv (h - y0 p) (dy p).
Proof. clear Hblk Hw Hh. intros [_ H]. unfold ph. destruct (Z.leb_spec h (y0 p)); [lia|reflexivity]. Qed.

Lemma eff_length p l : line_ok p l -> length (eff p l) = Z.to_nat (pw w p).
Proof. clear Hblk Hw Hh. intros [H1 H2]. unfold eff. destruct limit; [rewrite firstn_length; lia|auto]. Qed.

Definition mk (G : list (list A)) (p y : Z) (s : bool) : di_state := {| di_lines := G; di_pass := p; di_y := y; di_stop := s |}.

Lemma step_ok G p j : In p passes7 -> active w h p -> 0 <= j < ph h p -> Inv G p j ->
  exists G', Inv G' p (j + 1) /\
    deinterlace_step w h limit (mk G p (y0 p + j * dy p) false) (nth (Z.to_nat j) (blk p) []) =
    Ok (if h <=? y0 p + (j + 1) * dy p
        then match increment_pass p w h with
             | None => mk G' p (y0 p + (j + 1) * dy p) true
             | Some p' => mk G' p' (y0 p') false
             end
        else mk G' p (y0 p + (j + 1) * dy p) false).
Proof.
  intros Hp Hact Hj (HGl & HGr & HG).
  destruct (pass_consts p Hp) as (Hdx & Hx0 & Hdy & Hy0).
  destruct (Hblk p Hp Hact) as [Hbl Hbf].
  set (l := nth (Z.to_nat j) (blk p) []).
  assert (Hl : line_ok p l).
  { rewrite Forall_forall in Hbf. apply Hbf. apply nth_In. lia. }
  pose proof (eff_length p l Hl) as Hel.
  pose proof Hact as [Hax Hay].
  pose proof (pw_active p Hact) as Epw. pose proof (ph_active p Hact) as Eph.
  pose proof (pow8_pos _ Hdx) as Hdxp. pose proof (pow8_pos _ Hdy) as Hdyp.
  set (y := y0 p + j * dy p).
  assert (Hy : 0 <= y < h).
  { pose proof (row_fit (dy p) (h - y0 p) j Hdy ltac:(lia) ltac:(rewrite <- Eph; exact Hj)) as F. unfold y. clear -F Hy0. lia. }
  unfold deinterlace_step, mk. cbn [di_stop di_pass di_lines di_y]. rewrite (consts_spec p Hp).
  destruct (Z.ltb_spec w (x0 p)) as [Hlt|_]; [clear -Hlt Hax; lia|]. rewrite andb_false_r.
  assert (Epix : (if limit then firstn (Z.to_nat (cdiv (w - x0 p) (dx p))) l else l) = eff p l) by (unfold eff; rewrite Epw; reflexivity).
  rewrite Epix. fold y.
  destruct (nth_error G (Z.to_nat y)) as [row|] eqn:Erow; [|apply nth_error_None in Erow; clear -Erow HGl Hy; lia].
  assert (Hrl : length row = Z.to_nat w).
  { rewrite Forall_forall in HGr. apply HGr. eapply nth_error_In; eauto. }
  destruct (scatter_spec (dx p) Hdxp (eff p l) row (x0 p) ltac:(clear -Hx0; lia)) as (row' & Es & Lr & Sa & Sb).
  { right. unfold lenZ. rewrite Hel, Hrl. rewrite !Z2Nat.id by (clear -Hw Hp Hact Epw Hdx Hax; rewrite ?Epw; try lia; pose proof (cdiv_fit (dx p) (w - x0 p) Hdx ltac:(lia)); lia).
    rewrite Epw. pose proof (last_fit (dx p) (w - x0 p) Hdx ltac:(clear -Hax; lia)) as F. clear -F. lia. }
  rewrite Es.
  replace (y + dy p) with (y0 p + (j + 1) * dy p) by (unfold y; clear; lia).
  set (G' := set_nth (Z.to_nat y) row' G).
  assert (Hry : row_in p y = true).
  { unfold row_in, y. apply Z.eqb_eq. apply (mod_of_decomp (dy p) (y0 p) j Hdy Hy0). clear -Hj. lia. }
  assert (Ejy : (y - y0 p) / dy p = j).
  { unfold y. apply (mod_of_decomp (dy p) (y0 p) j Hdy Hy0). clear -Hj. lia. }
  assert (HI : Inv G' p (j + 1)).
  { split; [unfold G'; rewrite set_nth_length; exact HGl|]. split.
    - unfold G'. apply Forall_forall. intros r Hr. apply In_nth_error in Hr. destruct Hr as [k Hk].
      destruct (Nat.eq_dec (Z.to_nat y) k) as [<-|Hne].
      + rewrite nth_error_set_nth_eq in Hk by (clear -HGl Hy; lia). injection Hk as <-. congruence.
      + rewrite nth_error_set_nth_neq in Hk by exact Hne. rewrite Forall_forall in HGr. apply HGr. eapply nth_error_In; eauto.
    - intros x' y' Hx' Hy' Hd. unfold cell, G'.
      destruct (pass_of_range x' y') as (Hq & Hrow & Hcol). unfold done in Hd. cbv zeta in Hd.
      destruct (Z.eq_dec y' y) as [->|Hney].
      + rewrite nth_error_set_nth_eq by (clear -HGl Hy; lia).
        destruct (col_in p x') eqn:Ecol.
        * assert (Eq : pass_of x' y = p) by (apply pass_of_iff; auto).
          unfold col_in in Ecol. apply Z.eqb_eq in Ecol.
          destruct (mod_decomp (dx p) (x0 p) x' Hdx Hx0 ltac:(clear -Hx'; lia) Ecol) as (Hi & Ex & Hge).
          assert (Hilt : (x' - x0 p) / dx p < pw w p) by (rewrite Epw; apply idx_lt; [exact Hdx|clear -Hx' Hge; lia]).
          set (i := (x' - x0 p) / dx p) in *.
          assert (Ei : Z.to_nat x' = Z.to_nat (x0 p + Z.of_nat (Z.to_nat i) * dx p)) by (rewrite Z2Nat.id by exact Hi; rewrite <- Ex; reflexivity).
          rewrite Ei, Sa by (rewrite Hel; clear -Hi Hilt; lia).
          unfold src. rewrite Eq, Ejy. fold i. fold l. apply nth_error_nth'. rewrite Hel. clear -Hi Hilt. lia.
        * assert (Nq : pass_of x' y <> p). { intros E. apply pass_of_iff in E; [|exact Hp]. destruct E as [_ E]. congruence. }
          rewrite Sb.
          -- specialize (HG x' y Hx' Hy'). unfold cell in HG. rewrite Erow in HG. apply HG. unfold done. cbv zeta. destruct Hd as [Hd|[Hd _]]; [left; exact Hd|contradiction].
          -- intros i Hi Heq. unfold col_in in Ecol. apply Z.eqb_neq in Ecol. apply Ecol.
             apply (decomp_unique (dx p) (x0 p) x' (Z.of_nat i) Hdx Hx0); [|clear; lia].
             assert (E0 : 0 <= x0 p + Z.of_nat i * dx p) by (clear -Hx0 Hdxp; nia). clear -E0 Heq Hx'. lia.
      + rewrite nth_error_set_nth_neq by (clear -Hney Hy Hy'; lia).
        specialize (HG x' y' Hx' Hy'). unfold cell in HG. apply HG. unfold done. cbv zeta.
        destruct Hd as [Hd|[Eq Hd]]; [left; exact Hd|right]. split; [exact Eq|].
        rewrite Eq in *. unfold row_in in Hrow. apply Z.eqb_eq in Hrow.
        destruct (mod_decomp (dy p) (y0 p) y' Hdy Hy0 ltac:(clear -Hy'; lia) Hrow) as (Hjy & Ey & _).
        assert (Hnj : (y' - y0 p) / dy p <> j) by (intros E; apply Hney; unfold y; rewrite <- E; exact Ey).
        clear -Hnj Hd. lia. }
  exists G'. split; [exact HI|].
  destruct (h <=? y0 p + (j + 1) * dy p); [|reflexivity].
  pose proof (increment_pass_spec w h p Hw Hh Hp) as IP.
  destruct (increment_pass p w h) as [p'|]; [|reflexivity].
  destruct IP as (Hp' & _). rewrite (consts_spec p' Hp'). reflexivity.
Qed.

Hypothesis Hblk0 : forall p, In p passes7 -> ~ active w h p -> blk p = [].

Definition rem_after (p : Z) : list (list A) := flat_map blk (List.filter (fun q => p <? q) passes7).
Definition rem (p j : Z) : list (list A) := skipn (Z.to_nat j) (blk p) ++ rem_after p.

Lemma in_range_active x y : 0 <= x < w -> 0 <= y < h -> active w h (pass_of x y).
Proof. clear Hblk Hblk0.
  intros Hx Hy. destruct (pass_of_range x y) as (Hq & Hrow & Hcol). set (q := pass_of x y) in *.
  destruct (pass_consts q Hq) as (Hdx & Hx0 & Hdy & Hy0).
  unfold row_in in Hrow. unfold col_in in Hcol. apply Z.eqb_eq in Hrow, Hcol.
  destruct (mod_decomp (dx q) (x0 q) x Hdx Hx0 ltac:(lia) Hcol) as (_ & _ & G1).
  destruct (mod_decomp (dy q) (y0 q) y Hdy Hy0 ltac:(lia) Hrow) as (_ & _ & G2).
  split; lia.
Qed.

Lemma jy_bounds x y : 0 <= x < w -> 0 <= y < h -> let q := pass_of x y in 0 <= (y - y0 q) / dy q < ph h q.
Proof. clear Hblk Hblk0.
  intros Hx Hy q. destruct (pass_of_range x y) as (Hq & Hrow & _). fold q in Hq, Hrow.
  destruct (pass_consts q Hq) as (_ & _ & Hdy & Hy0).
  pose proof (in_range_active x y Hx Hy) as Hact. fold q in Hact.
  unfold row_in in Hrow. apply Z.eqb_eq in Hrow.
  destruct (mod_decomp (dy q) (y0 q) y Hdy Hy0 ltac:(lia) Hrow) as (G0 & _ & G2).
  split; [exact G0|]. rewrite (ph_active q Hact). apply idx_lt; [exact Hdy|lia].
Qed.

Lemma rem_after_none p : In p passes7 -> (forall q, In q passes7 -> p < q -> ~ active w h q) -> rem_after p = [].
Proof.
  intros Hp Hn. unfold rem_after. apply passes7_range in Hp.
  assert (Hz : forall q, In q passes7 -> p < q -> blk q = []) by (intros q Hq Hlt; apply Hblk0; auto).
  assert (p = 1 \/ p = 2 \/ p = 3 \/ p = 4 \/ p = 5 \/ p = 6 \/ p = 7) as [->|[->|[->|[->|[->|[->| ->]]]]]] by lia;
    cbn; repeat match goal with |- context [blk ?q] => rewrite (Hz q) by (try (apply passes7_range); lia) end; reflexivity.
Qed.

Lemma rem_after_some p p' : In p passes7 -> In p' passes7 -> p < p' -> (forall q, p < q < p' -> ~ active w h q) ->
  rem_after p = blk p' ++ rem_after p'.
Proof.
  intros Hp Hp' Hlt Hn. unfold rem_after. apply passes7_range in Hp, Hp'.
  assert (Hz : forall q, p < q < p' -> blk q = []) by (intros q Hq; apply Hblk0; [apply passes7_range; lia|auto]).
  assert (p = 1 \/ p = 2 \/ p = 3 \/ p = 4 \/ p = 5 \/ p = 6 \/ p = 7) as [->|[->|[->|[->|[->|[->| ->]]]]]] by lia;
  assert (p' = 1 \/ p' = 2 \/ p' = 3 \/ p' = 4 \/ p' = 5 \/ p' = 6 \/ p' = 7) as [->|[->|[->|[->|[->|[->| ->]]]]]] by lia;
    try lia; cbn; repeat match goal with |- context [blk ?q] => rewrite (Hz q) by lia end; reflexivity.
Qed.

Lemma inv_advance G p j p' : In p passes7 -> j = ph h p -> Inv G p j -> p < p' ->
  (forall q, In q passes7 -> p < q < p' -> ~ active w h q) -> Inv G p' 0.
Proof.
  intros Hp Ej (H1 & H2 & H3) Hlt Hn. split; [exact H1|]. split; [exact H2|].
  intros x y Hx Hy Hd. apply H3; auto. unfold done in *. cbv zeta in *.
  destruct (pass_of_range x y) as (Hq & _ & _).
  pose proof (in_range_active x y Hx Hy) as Hact. pose proof (jy_bounds x y Hx Hy) as Hjy. cbv zeta in Hjy.
  destruct Hd as [Hd|[_ Hd]]; [|lia].
  destruct (Z.lt_trichotomy (pass_of x y) p) as [L|[E|Gt]]; [left; exact L| |exfalso; apply (Hn _ Hq); [lia|exact Hact]].
  right. split; [exact E|]. rewrite E in *. lia.
Qed.

Lemma go_ok : forall lines G p j, In p passes7 -> active w h p -> 0 <= j < ph h p -> Inv G p j -> lines = rem p j ->
  exists st', deinterlace_go w h limit (mk G p (y0 p + j * dy p) false) lines = Ok st' /\ Inv (di_lines st') 8 0.
Proof.
  induction lines as [|l t IH]; intros G p j Hp Hact Hj HI Hrem.
  - exfalso. destruct (Hblk p Hp Hact) as [Hbl _]. unfold rem in Hrem. symmetry in Hrem. apply app_eq_nil in Hrem. destruct Hrem as [Hs _].
    apply (f_equal (@length _)) in Hs. rewrite skipn_length in Hs. cbn in Hs. lia.
  - destruct (Hblk p Hp Hact) as [Hbl _].
    destruct (pass_consts p Hp) as (_ & _ & Hdy & Hy0).
    assert (Hsk : skipn (Z.to_nat j) (blk p) = nth (Z.to_nat j) (blk p) [] :: skipn (Z.to_nat (j + 1)) (blk p)).
    { replace (Z.to_nat (j + 1)) with (S (Z.to_nat j)) by lia.
      assert (Hlt : (Z.to_nat j < length (blk p))%nat) by lia. clear -Hlt. revert Hlt. generalize (Z.to_nat j) as n.
      induction (blk p) as [|a r IHr]; intros n Hlt; [cbn in Hlt; lia|]. destruct n; [reflexivity|]. cbn [skipn nth]. apply IHr. cbn in Hlt. lia. }
    unfold rem in Hrem. rewrite Hsk in Hrem. cbn [app] in Hrem. injection Hrem as El Et.
    destruct (step_ok G p j Hp Hact Hj HI) as (G' & HI' & Hstep).
    cbn [deinterlace_go]. rewrite El, Hstep. cbn [bind].
    pose proof Hact as [_ Hay].
    pose proof (next_row (dy p) (h - y0 p) j Hdy ltac:(lia) ltac:(rewrite <- (ph_active p Hact); exact Hj)) as NR.
    rewrite <- (ph_active p Hact) in NR.
    destruct (Z.leb_spec h (y0 p + (j + 1) * dy p)) as [Hle|Hgt].
    + assert (Ej : j + 1 = ph h p) by (apply NR; lia).
      assert (Hnil : skipn (Z.to_nat (j + 1)) (blk p) = []) by (apply skipn_all2; lia).
      rewrite Hnil in Et. cbn [app] in Et.
      pose proof (increment_pass_spec w h p Hw Hh Hp) as IP.
      destruct (increment_pass p w h) as [p'|].
      * destruct IP as (Hp' & Hlt & Hact' & Hn).
        assert (HI0 : Inv G' p' 0) by (apply (inv_advance G' p (j + 1) p' Hp Ej HI' Hlt); intros q _ Hq; apply Hn; exact Hq).
        assert (Hph' : 0 <= 0 < ph h p').
        { rewrite (ph_active p' Hact'). destruct (pass_consts p' Hp') as (_ & _ & Hdy' & _). destruct Hact' as [_ Hay'].
          pose proof (cdiv_fit (dy p') (h - y0 p') Hdy' ltac:(lia)). lia. }
        destruct (IH G' p' 0 Hp' Hact' Hph' HI0) as (st' & E & F).
        { rewrite Et. unfold rem. cbn [Z.to_nat skipn]. apply rem_after_some; auto. }
        exists st'. replace (y0 p' + 0 * dy p') with (y0 p') in E by lia. split; [exact E|exact F].
      * rewrite (rem_after_none p Hp IP) in Et. subst t. cbn [deinterlace_go]. eexists. split; [reflexivity|].
        cbn [di_lines mk]. apply (inv_advance G' p (j + 1) 8 Hp Ej HI'); [apply passes7_range in Hp; lia|].
        intros q Hq Hr. apply IP; [exact Hq|lia].
    + assert (Hj' : 0 <= j + 1 < ph h p) by (assert (j + 1 <> ph h p) by (intros E; apply NR in E; lia); lia).
      destruct (IH G' p (j + 1) Hp Hact Hj' HI') as (st' & E & F); [rewrite Et; reflexivity|].
      exists st'. split; [exact E|exact F].
Qed.

Theorem model_deinterlace_cells :
  exists G, model_deinterlace blank w h limit (flat_map blk passes7) = Ok G /\
    length G = Z.to_nat h /\ Forall (fun r => length r = Z.to_nat w) G /\
    forall x y, 0 <= x < w -> 0 <= y < h -> cell G x y = Some (src x y).
Proof.
  assert (Hp1 : In 1 passes7) by (apply passes7_range; lia).
  assert (Hact1 : active w h 1) by (unfold active; cbn; lia).
  assert (Hph1 : 0 <= 0 < ph h 1).
  { rewrite (ph_active 1 Hact1). pose proof (cdiv_fit (dy 1) (h - y0 1) ltac:(cbn; unfold pow8; lia) ltac:(cbn; lia)). lia. }
  assert (HI0 : Inv (repeat (repeat blank (Z.to_nat w)) (Z.to_nat h)) 1 0).
  { split; [apply repeat_length|]. split.
    - apply Forall_forall. intros r Hr. apply repeat_spec in Hr. subst r. apply repeat_length.
    - intros x y Hx Hy Hd. exfalso. unfold done in Hd. cbv zeta in Hd.
      destruct (pass_of_range x y) as (Hq & _ & _). apply passes7_range in Hq.
      pose proof (jy_bounds x y Hx Hy) as Hjy. cbv zeta in Hjy. lia. }
  destruct (go_ok (flat_map blk passes7) _ 1 0 Hp1 Hact1 Hph1 HI0) as (st' & E & (F1 & F2 & F3)).
  { unfold rem, rem_after. cbn. reflexivity. }
  unfold model_deinterlace. change (y0 1 + 0 * dy 1) with 0 in E. unfold mk in E. rewrite E. cbn [bind].
  exists (di_lines st'). split; [reflexivity|]. split; [exact F1|]. split; [exact F2|].
  intros x y Hx Hy. apply F3; auto. unfold done. cbv zeta. left. destruct (pass_of_range x y) as (Hq & _ & _). apply passes7_range in Hq. lia.
Qed.
End DI.

(* C19 at image level: for each of the ten filter strategies (any choice oracle for Brute), the rows that filter_image writes
   - first rows of an image or of an interlace pass included - carry legal filter types and decode, under the specification's
   reconstruction of a whole (possibly interlaced) image, to exactly the scan lines that were filtered. (No alpha rewriting.) *)
From OxiVerif Require Import Base.Common Spec.Filter Model.Types Model.ScanLines Model.Filters Proofs.FilterProofs.

Definition zeros_line (l : list Z) : Prop := forall x, In x l -> x = 0.

(* relation between the loop state of filter_image and the decoder's state *)
Definition st_rel (st : fi_state) (sst : option (option Z * list Z)) : Prop :=
  match sst with
  | None => fi_prev_line st = []
  | Some (p, l) => fi_prev_line st = l /\ (fi_prev_pass st = p \/ zeros_line l)
  end.

Definition model_prev (st : fi_state) (pass : option Z) (n : nat) : list Z :=
  if negb (opt_Z_eqb (fi_prev_pass st) pass) || negb (n =? length (fi_prev_line st))%nat
  then repeat 0 n else fi_prev_line st.

Lemma zeros_is_repeat l : zeros_line l -> l = repeat 0 (length l).
Proof. induction l as [|a t IH]; intros H; [reflexivity|]. cbn. rewrite (H a (or_introl eq_refl)), <- IH; [reflexivity|]. intros x Hx. apply H. right. exact Hx. Qed.

Lemma opt_Z_eqb_spec a b : opt_Z_eqb a b = match a, b with Some x, Some y => x =? y | None, None => true | _, _ => false end.
Proof. destruct a, b; reflexivity. Qed.

(* both sides use the same reference line *)
Lemma prev_agree st sst pass n : (0 < n)%nat -> st_rel st sst -> model_prev st pass n = same_pass_prev sst pass n.
Proof.
  intros Hn R. unfold model_prev, same_pass_prev. destruct sst as [[p l]|].
  - destruct R as [El [Ep|Hz]].
    + rewrite El, Ep, opt_Z_eqb_spec. rewrite (Nat.eqb_sym n).
      destruct (match p, pass with Some a, Some b => a =? b | None, None => true | _, _ => false end); cbn [negb orb andb]; [|reflexivity].
      destruct (length l =? n)%nat; reflexivity.
    + rewrite El. rewrite (Nat.eqb_sym n).
      destruct (Nat.eqb_spec (length l) n) as [E|E].
      * (* whatever the passes say, the reference is a line of zeros of length n *)
        rewrite (zeros_is_repeat l Hz), E.
        destruct (negb (opt_Z_eqb (fi_prev_pass st) pass)); cbn [orb negb]; rewrite ?andb_true_r, ?andb_false_r;
          destruct (match p, pass with Some a, Some b => a =? b | None, None => true | _, _ => false end); reflexivity.
      * cbn [negb]. rewrite orb_true_r, andb_false_r. reflexivity.
  - cbn in R. rewrite R. cbn [length]. destruct (Nat.eqb_spec n 0); [lia|]. cbn [negb]. rewrite orb_true_r. reflexivity.
Qed.

Lemma model_prev_length st pass n : length (model_prev st pass n) = n.
Proof.
  unfold model_prev. destruct (negb (opt_Z_eqb (fi_prev_pass st) pass)); cbn [orb]; [apply repeat_length|].
  destruct (Nat.eqb_spec n (length (fi_prev_line st))); cbn [negb]; [auto|apply repeat_length].
Qed.

Lemma bytes_ok_zeros n : bytes_ok (repeat 0 n).
Proof. apply bytes_ok_repeat. unfold byte_ok. lia. Qed.

(* every candidate of try_all (no alpha) is a standard filter's row for this very line *)
Lemma try_all_spec fs bpp ldata prev : (1 <= bpp)%nat -> (bpp <= length ldata)%nat -> length prev = length ldata ->
  bytes_ok ldata -> bytes_ok prev -> Forall (fun f => is_standard f = true) fs ->
  exists cands, try_all fs bpp ldata prev 0 = Ok cands /\
    Forall (fun c => snd c = ldata /\ exists ft buf, fst c = ft :: buf /\ 0 <= ft <= 4 /\ spec_recon_line bpp ft buf prev = ldata /\ length buf = length ldata) cands /\
    length cands = length fs.
Proof.
  intros Hb Hl Hlen Hd Hp Hfs. induction Hfs as [|f t Hf _ IH]; cbn [try_all].
  - exists []. repeat split; constructor.
  - rewrite (filter_line_is_spec f bpp ldata prev Hb Hf Hl Hlen Hd Hp). cbn [bind].
    destruct IH as (cands & Ec & Fc & Lc). rewrite Ec. cbn [bind]. eexists. split; [reflexivity|]. split; [|cbn; lia].
    constructor; [|exact Fc]. cbn [fst snd]. split; [reflexivity|].
    exists (filter_code f), (spec_filter_line bpp (filter_code f) ldata prev).
    split; [reflexivity|]. split; [unfold is_standard in Hf; apply Z.leb_le in Hf; destruct f; cbn in *; lia|].
    split; [apply spec_filter_roundtrip; auto|]. unfold spec_filter_line. apply filt_go_length. exact Hlen.
Qed.

Lemma recon_none bpp data : forall rp rq prev, bytes_ok data -> length prev = length data ->
  recon_go 0 bpp rp rq data prev = data.
Proof.
  induction data as [|y d IH]; intros rp rq prev Hok Hl; destruct prev as [|u p]; cbn [length] in Hl; try lia; cbn [recon_go]; try reflexivity.
  apply bytes_ok_cons in Hok. destruct Hok as [Hy Hd]. unfold byte_ok in Hy.
  cbn [pred_spec]. rewrite Z.add_0_r, Z.mod_small by lia. f_equal. apply IH; auto.
Qed.

Lemma pick_min_in score cands : forall best c, pick_min score cands best = Some c ->
  In c cands \/ exists s, best = Some (s, c).
Proof.
  induction cands as [|x t IH]; intros best c H; cbn [pick_min] in H.
  - destruct best as [[s b]|]; [injection H as <-; right; eauto|discriminate].
  - destruct best as [[bs b]|].
    + destruct (score (fst x) <? bs); apply IH in H; destruct H as [H|[s H]].
      * left. right. exact H.
      * injection H as _ <-. left. left. reflexivity.
      * left. right. exact H.
      * right. exists s. exact H.
    + apply IH in H. destruct H as [H|[s H]]; [left; right; exact H|]. injection H as _ <-. left. left. reflexivity.
Qed.

Lemma pick_max_in score cands : forall best c, pick_max score cands best = Some c ->
  In c cands \/ exists s, best = Some (s, c).
Proof.
  induction cands as [|x t IH]; intros best c H; cbn [pick_max] in H.
  - destruct best as [[s b]|]; [injection H as <-; right; eauto|discriminate].
  - destruct best as [[bs b]|].
    + destruct (bs <? score (fst x)); apply IH in H; destruct H as [H|[s H]].
      * left. right. exact H.
      * injection H as _ <-. left. left. reflexivity.
      * left. right. exact H.
      * right. exists s. exact H.
    + apply IH in H. destruct H as [H|[s H]]; [left; right; exact H|]. injection H as _ <-. left. left. reflexivity.
Qed.

Definition inv (st : fi_state) (sst : option (option Z * list Z)) : Prop := st_rel st sst /\ bytes_ok (fi_prev_line st).

Definition good_row (bpp : nat) (sst : option (option Z * list Z)) (line : scanline) (row : list Z) : Prop :=
  exists ft buf, row = ft :: buf /\ 0 <= ft <= 4 /\ length buf = length (l_data line) /\
    spec_recon_line bpp ft buf (same_pass_prev sst (l_pass line) (length buf)) = l_data line.

Lemma all_zero_spec l : all_zero l = true -> zeros_line l.
Proof. unfold all_zero, zeros_line. rewrite forallb_forall. intros H x Hx. apply Z.eqb_eq. auto. Qed.

Lemma standard_list1 : Forall (fun f => is_standard f = true) standard_filters.
Proof. repeat constructor. Qed.
Lemma standard_list2 : Forall (fun f => is_standard f = true) single_line_filters.
Proof. repeat constructor. Qed.

Lemma filter_image_step_ok brute f bpp st sst line st' : (1 <= bpp)%nat ->
  bytes_ok (l_data line) -> (bpp <= length (l_data line))%nat -> inv st sst ->
  filter_image_step brute f bpp 0 st line = Ok st' ->
  exists row, fi_out st' = row :: fi_out st /\ good_row bpp sst line row /\ inv st' (Some (l_pass line, l_data line)).
Proof.
  intros Hb Hok Hlen [R Hpok] H. unfold filter_image_step in H.
  set (ldata := l_data line) in *.
  assert (Hn : (0 < length ldata)%nat) by lia.
  pose proof (prev_agree st sst (l_pass line) (length ldata) Hn R) as Hprev. unfold model_prev in Hprev.
  set (prev_line := if negb (opt_Z_eqb (fi_prev_pass st) (l_pass line)) || negb (length ldata =? length (fi_prev_line st))%nat
                    then repeat 0 (length ldata) else fi_prev_line st) in *.
  assert (Hpl : length prev_line = length ldata).
  { unfold prev_line. destruct (negb (opt_Z_eqb (fi_prev_pass st) (l_pass line))); cbn [orb]; [apply repeat_length|].
    destruct (Nat.eqb_spec (length ldata) (length (fi_prev_line st))); cbn [negb]; [auto|apply repeat_length]. }
  assert (Hpb : bytes_ok prev_line).
  { unfold prev_line. destruct (_ || _); [apply bytes_ok_zeros|exact Hpok]. }
  destruct (is_standard f) eqn:Estd.
  - set (f' := if opt_Z_eqb (fi_prev_pass st) (l_pass line) || (filter_code f <=? 1) then f else FNone) in *.
    assert (Hf' : is_standard f' = true) by (unfold f'; destruct (opt_Z_eqb (fi_prev_pass st) (l_pass line) || (filter_code f <=? 1)); [exact Estd|reflexivity]).
    rewrite (filter_line_is_spec f' bpp ldata prev_line Hb Hf' Hlen Hpl Hok Hpb) in H. cbn [bind] in H. injection H as <-.
    eexists. split; [reflexivity|]. split.
    + exists (filter_code f'), (spec_filter_line bpp (filter_code f') ldata prev_line).
      assert (Hbl : length (spec_filter_line bpp (filter_code f') ldata prev_line) = length ldata) by (unfold spec_filter_line; apply filt_go_length; exact Hpl).
      split; [reflexivity|]. split; [unfold is_standard in Hf'; apply Z.leb_le in Hf'; destruct f'; cbn in *; lia|].
      split; [exact Hbl|]. rewrite Hbl, <- Hprev. apply spec_filter_roundtrip; auto.
    + split; cbn [fi_prev_line fi_prev_pass]; [split; auto|exact Hok].
  - destruct (all_zero ldata) eqn:Ez.
    + injection H as <-. eexists. split; [reflexivity|]. split.
      * exists 0, ldata. split; [reflexivity|]. split; [lia|]. split; [reflexivity|]. rewrite <- Hprev.
        unfold spec_recon_line. apply recon_none; auto.
      * split; cbn [fi_prev_line fi_prev_pass]; [split; [reflexivity|right; apply all_zero_spec; exact Ez]|exact Hok].
    + set (tf := if opt_Z_eqb (fi_prev_pass st) (l_pass line) then standard_filters else single_line_filters) in *.
      assert (Htf : Forall (fun f => is_standard f = true) tf) by (unfold tf; destruct (opt_Z_eqb _ _); [apply standard_list1|apply standard_list2]).
      destruct (try_all_spec tf bpp ldata prev_line Hb Hlen Hpl Hok Hpb Htf) as (cands & Ec & Fc & _).
      rewrite Ec in H. cbn [bind] in H.
      match type of H with (match ?best with _ => _ end) = _ => destruct best as [[buf raw]|] eqn:Ebest; [|discriminate] end.
      injection H as <-.
      assert (Hin : In (buf, raw) cands).
      { destruct f; try discriminate.
        - apply pick_min_in in Ebest. destruct Ebest as [|[s E]]; [auto|discriminate].
        - apply pick_max_in in Ebest. destruct Ebest as [|[s E]]; [auto|discriminate].
        - apply pick_min_in in Ebest. destruct Ebest as [|[s E]]; [auto|discriminate].
        - apply pick_max_in in Ebest. destruct Ebest as [|[s E]]; [auto|discriminate].
        - eapply nth_error_In; eauto. }
      rewrite Forall_forall in Fc. destruct (Fc _ Hin) as (Eraw & ft & b & Ebuf & Hft & Hrec & Hbl). cbn [fst snd] in *. subst raw buf.
      eexists. split; [reflexivity|]. split.
      * exists ft, b. repeat split; auto; try lia. rewrite Hbl, <- Hprev. exact Hrec.
      * split; cbn [fi_prev_line fi_prev_pass]; [split; auto|exact Hok].
Qed.

Lemma filter_image_go_ok brute f bpp : (1 <= bpp)%nat -> forall lines st sst st',
  inv st sst -> Forall (fun l => bytes_ok (l_data l) /\ (bpp <= length (l_data l))%nat) lines ->
  filter_image_go brute f bpp 0 st lines = Ok st' ->
  exists rows, fi_out st' = rev rows ++ fi_out st /\
    Forall2 (fun r l => exists ft buf, r = ft :: buf /\ 0 <= ft <= 4 /\ length buf = length (l_data l)) rows lines /\
    spec_recon_seq bpp sst (combine (map l_pass lines) rows) = Some (map l_data lines).
Proof.
  intros Hb. induction lines as [|l t IH]; intros st sst st' I Hall H; cbn [filter_image_go] in H.
  - injection H as <-. exists []. repeat split; constructor.
  - inversion Hall as [|? ? [Hok Hlen] Hall']; subst.
    destruct (filter_image_step brute f bpp 0 st l) as [st1|?|?] eqn:Es; cbn [bind] in H; try discriminate.
    destruct (filter_image_step_ok _ _ _ _ _ _ _ Hb Hok Hlen I Es) as (row & Eout & (ft & buf & Erow & Hft & Hbl & Hrec) & I1).
    destruct (IH _ _ _ I1 Hall' H) as (rows & Eout' & F2 & Hseq).
    exists (row :: rows). split; [|split].
    + rewrite Eout', Eout. cbn [rev]. rewrite <- app_assoc. reflexivity.
    + constructor; [exists ft, buf; auto|exact F2].
    + cbn [map combine spec_recon_seq]. rewrite Erow.
      assert (E : (0 <=? ft) && (ft <=? 4) = true) by (apply andb_true_iff; split; apply Z.leb_le; lia).
      rewrite E, Hrec, Hseq. reflexivity.
Qed.

(* the image-level statement: rows written for the scan lines of an image *)
Theorem filter_image_rows_roundtrip brute (img : image) f lines rows :
  (1 <= bpp_bytes img)%nat ->
  scan_lines img false = Ok lines ->
  Forall (fun l => bytes_ok (l_data l) /\ (bpp_bytes img <= length (l_data l))%nat) lines ->
  filter_image_rows brute img f false = Ok rows ->
  Forall2 (fun r l => exists ft buf, r = ft :: buf /\ 0 <= ft <= 4 /\ length buf = length (l_data l)) rows lines /\
  spec_recon_seq (bpp_bytes img) None (combine (map l_pass lines) rows) = Some (map l_data lines).
Proof.
  intros Hb Hsl Hall H. unfold filter_image_rows in H. rewrite Hsl in H. cbn [bind andb] in H.
  match type of H with bind ?X _ = _ => destruct X as [st|?|?] eqn:Ego end; cbn [bind] in H; try discriminate.
  injection H as <-.
  assert (I0 : inv {| fi_out := []; fi_prev_line := []; fi_prev_pass := None; fi_row := 0 |} None).
  { split; [reflexivity|constructor]. }
  destruct (filter_image_go_ok brute f _ Hb _ _ _ _ I0 Hall Ego) as (rows & Eout & F2 & Hseq).
  cbn [fi_out] in Eout. rewrite app_nil_r in Eout. rewrite Eout, rev_involutive. split; assumption.
Qed.
